"""KF-C12-1: on MIPS32 the return idiom `jr $ra` gets an indirect *branch*
edge instead of a *return* edge (LLVM's instruction description of JR is an
indirect branch; emit_instruction only looks at inst.desc.is_return).

Property C12: "... a return to a fresh proxy for a return ...", quantified
over MIPS32.  capstone (and ddisasm) treat `jr $ra` as the function return.

Also shown (same root cause: LLVM instruction descriptions taken at face
value): `b label` is described as a *conditional* branch (it is an alias of
`beq $zero, $zero`), so the block gets a conditional branch edge plus a
fallthrough edge although control never falls through.

Run:  /venv/bin/python /verif/findings/KF-C12-1/repro.py
"""
import gtirb
from gtirb_test_helpers import create_test_module

from gtirb_rewriting.assembler import Assembler


def edges(text):
    _, m = create_test_module(gtirb.Module.FileFormat.ELF, gtirb.Module.ISA.MIPS32,
                              byte_order=gtirb.Module.ByteOrder.Big)
    a = Assembler(m)
    a.assemble(".set noreorder\n" + text)
    r = a.finalize()
    return sorted((e.label.type.name, e.label.conditional, e.label.direct,
                   type(e.target).__name__) for e in r.cfg)


ret = edges("jr $ra\nnop\n")
print("jr $ra  ->", ret)
assert ret == [("Branch", False, False, "ProxyBlock")], ret      # observed
assert ("Return", False, True, "ProxyBlock") not in ret           # what C12 asks for

b = edges(".Lx:\nnop\nb .Lx\nnop\n")
print("b .Lx   ->", b)
assert ("Branch", True, True, "CodeBlock") in b and any(e[0] == "Fallthrough" for e in b)
print("REPRODUCED: MIPS32 `jr $ra` is not given a return edge")
