"""FX-C12-5 (was KF-C12-5): an alignment directive written between an ASCII literal and the
stand-alone NUL that terminates it is moved behind the NUL.

`.ascii "hi"` leaves an empty current block; `.balign 4` records the alignment
on that empty block (no split: the block is empty); `.string ""` then sees an
empty current block after an ASCII block, merges its NUL into the ASCII block
(_try_terminate_previous_ascii_block) and re-appends the empty block - with the
alignment still on it - one byte later.  The text asks for the NUL to be
4-aligned; the result aligns whatever follows the NUL instead.

Property C12 (C12_Alignment): a block carries the alignment requested at its
position, and nothing else.

Run:  /venv/bin/python /verif/findings/FX-C12-5/repro.py
"""
import gtirb
from gtirb_test_helpers import create_test_module

from gtirb_rewriting.assembler import Assembler

_, m = create_test_module(gtirb.Module.FileFormat.ELF, gtirb.Module.ISA.X64)
a = Assembler(m)
a.assemble('ret\n.ascii "hi"\n.balign 4\n.string ""\nret\n')
s = a.finalize().text_section
got = [(type(b).__name__, b.offset, b.size, s.alignment.get(b, 0)) for b in s.blocks]
print(got)
# the request sits at offset 3 (before the NUL); it ends up on the block at offset 4
import sys
if got == [("CodeBlock", 0, 1, 0), ("DataBlock", 1, 3, 0), ("CodeBlock", 4, 1, 4)]:
    print("DEFECT: `.balign` between an ASCII literal and its NUL is applied behind the NUL")
    sys.exit(1)
assert got == [("CodeBlock", 0, 1, 0), ("DataBlock", 1, 2, 0), ("DataBlock", 3, 1, 4), ("CodeBlock", 4, 1, 0)], got
print("ok (repaired): the NUL is a block of its own and carries the alignment")
