"""KF-C15-2: on MIPS32 the evaluator decodes `.cfi_escape` payloads as
little endian (ABI.byteorder() is "little" for every ABI) although the
library itself assembles MIPS32 for the big-endian triple mips-pc-linux
(`.short 0x1234` -> 12 34).  A fixed-width multi-byte operand of an escaped
DWARF expression (DW_OP_const2u/4u/8u, DW_OP_addr ...) comes out byte-swapped:
a silently wrong unwind state.
Run: /venv/bin/python repro.py   (exit 1 = defect present)"""
import sys

import gtirb
import gtirb_rewriting
from gtirb_test_helpers import add_code_block, add_text_section, create_test_module

from gtirb_rewriting._auxdata import NULL_UUID
from gtirb_rewriting.dwarf.cfi_eval import evaluate_cfi_directives

_, m = create_test_module(gtirb.Module.FileFormat.ELF, gtirb.Module.ISA.MIPS32,
                          byte_order=gtirb.Module.ByteOrder.Big)
# 1. the library's own assembler is big endian for this module
asm = gtirb_rewriting.Assembler(m)
asm.assemble(".short 0x1234")
data = bytes(asm.finalize().text_section.data)
print("assembler: .short 0x1234 ->", data.hex())
# 2. DW_CFA_def_cfa_expression { DW_OP_const2u 0x1234 } as a big-endian
#    assembler / compiler emits it into .eh_frame: 0f 03 0a 12 34
_, bi = add_text_section(m, address=0x1000)
b = add_code_block(bi, b"\0\0\0\0")
m.aux_data["cfiDirectives"].data[gtirb.Offset(b, 0)] = [
    (".cfi_startproc", [], NULL_UUID),
    (".cfi_escape", [0x0F, 0x03, 0x0A, 0x12, 0x34], NULL_UUID),
]
(_, _, st), = evaluate_cfi_directives(m, [b])
value = st.current.cfa.expression[0].value
print("evaluator: DW_OP_const2u operand =", hex(value))
if data == b"\x12\x34" and value != 0x1234:
    print("DEFECT PRESENT: escape decoded with the wrong byte order on big-endian MIPS32")
    sys.exit(1)
print("not reproduced")
sys.exit(0)
