"""KF-C10-2: an alignment requirement added by a patch (`.align N`) is ignored
when the module is ELF and had no `alignment` aux table before the rewrite.

prepare_for_rewriting (prepare.py) hands split_byte_interval /
join_byte_intervals a private `{}` for ELF modules without an alignment table
(`None` for PE).  edit.insert() records the patch's `.align` in the module's
table (creating it), but the join still sees the private empty dict, so the
block is left misaligned although the module's alignment table - as written by
the same apply() - demands the alignment.  With an (even empty) alignment table
present, or with a PE module, the same rewrite pads correctly.

Run:  /venv/bin/python /verif/findings/FX-C10-2/repro.py     (exit 1 = defect present)
"""
import sys

import gtirb

import gtirb_rewriting._auxdata as _auxdata
from gtirb_rewriting import Patch, RewritingContext, patch_constraints
from gtirb_rewriting.assembly import X86Syntax


def rewrite(file_format, table: str):
    ir = gtirb.IR()
    m = gtirb.Module(name="m", isa=gtirb.Module.ISA.X64, file_format=file_format,
                     byte_order=gtirb.Module.ByteOrder.Little, ir=ir)
    s = gtirb.Section(name=".text", module=m, flags={
        gtirb.Section.Flag.Readable, gtirb.Section.Flag.Executable,
        gtirb.Section.Flag.Loaded, gtirb.Section.Flag.Initialized})
    bi = gtirb.ByteInterval(address=0x1000, contents=b"\x50\x51\x52\x53\x54\x55", section=s)
    b1 = gtirb.CodeBlock(offset=0, size=2, byte_interval=bi)
    b2 = gtirb.CodeBlock(offset=2, size=3, byte_interval=bi)
    b3 = gtirb.CodeBlock(offset=5, size=1, byte_interval=bi)
    for a, b in ((b1, b2), (b2, b3)):
        ir.cfg.add(gtirb.Edge(a, b, gtirb.Edge.Label(gtirb.Edge.Type.Fallthrough)))
    if table == "empty":
        _auxdata.alignment.get_or_insert(m)

    @patch_constraints(x86_syntax=X86Syntax.ATT)
    def patch(ctx):
        return "push %rdi\n.align 8\npush %rbx\npop %rbx\n"

    ctx = RewritingContext(m, [])
    ctx.insert_at(b2, 1, Patch.from_function(patch))
    ctx.apply()
    bad = [(hex(b.address), a) for b, a in m.aux_data["alignment"].data.items()
           if b.address % a]
    print(f"{file_format.name:3} table {table:6}: alignment table after apply = "
          f"{[(hex(b.address), a) for b, a in m.aux_data['alignment'].data.items()]}"
          f"{'  <- misaligned' if bad else ''}")
    return not bad


if __name__ == "__main__":
    results = [rewrite(f, t) for f in (gtirb.Module.FileFormat.ELF, gtirb.Module.FileFormat.PE)
               for t in ("absent", "empty")]
    if all(results):
        print("every requirement of the alignment table holds: defect not present")
        sys.exit(0)
    print("DEFECT: the alignment the patch asked for is recorded in the module but not honoured")
    sys.exit(1)
