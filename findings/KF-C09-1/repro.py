"""KF-C09-1: delete the whole block carrying label b1, and in the same apply() insert
a patch `jmp b1` further down -> UnsupportedAssemblyError; one at a time it works."""
import os, sys
sys.path.insert(0, os.path.dirname(os.path.dirname(os.path.abspath(__file__))))
from common.g1case import blk, run, show
tr = run([blk("code", [["op", 2, 1], ["op", 3, 2]], "b1"),
          blk("code", [["op", 2, 3], ["op", 3, 4]], "b2"),
          blk("code", [["op", 1, 5], ["ret"]], "b3")],
         [{"op": "del", "sec": 0, "blk": 0, "off": 0, "len": 5},
          {"op": "ins", "sec": 0, "blk": 1, "off": 2, "patch": {"kind": "jmpsym", "k": 1, "tgt": "b1"}}],
         sequential=True)
print("batch exception:", tr["exc"] or "(none)", "| one at a time:", tr["exc2"] or "(none)")
if tr["exc"] and not tr["exc2"]:
    print("DEFECT: the batch fails where applying the requests one at a time succeeds")
    sys.exit(1)
print("ok")
