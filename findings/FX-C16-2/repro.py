"""KF-C16-2 (F10, property C16): reads_registers naming a register that is also
in clobbers_registers, or that is not a scratch candidate of the ABI, makes
ABI._allocate_patch_registers raise ValueError('list.remove(x): x not in list')
although the request is satisfiable.  (exit 0 = reproduced)"""
import sys
import gtirb_rewriting
from gtirb_rewriting.abi import _X86_64_ELF, _ARM64_ELF, _MIPS32_ELF

hits = 0
for abi, kw in ((_X86_64_ELF(), dict(clobbers_registers={"rdi"}, reads_registers={"rdi"})),
                (_ARM64_ELF(), dict(reads_registers={"x16"})),
                (_MIPS32_ELF(), dict(reads_registers={"a0"}))):
    try:
        r = abi._allocate_patch_registers(gtirb_rewriting.Constraints(**kw))
        print(type(abi).__name__, kw, "-> ok", [x.name for x in r.clobbered_registers])
    except ValueError as e:
        print(type(abi).__name__, kw, "-> ValueError:", e)
        hits += "unable to allocate" not in str(e)
if hits == 3:
    print("REPRODUCED")
    sys.exit(0)
sys.exit(1)
