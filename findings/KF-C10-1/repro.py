"""KF-C10-1: join_byte_intervals aligns only the FIRST aligned block of an
interval; an overlapping block with a stricter alignment that was satisfied
before the rewrite ends up misaligned.

Layout (one data interval at 0x1000):
    C  DataBlock offset 0 size 2
    A  DataBlock offset 2 size 4   alignment 2   (0x1002: satisfied)
    B  DataBlock offset 4 size 2   alignment 4   (0x1004: satisfied), overlaps A
A rewrite makes C one byte longer.  A and B form one overlap group, so they are
re-joined as one interval; join_byte_intervals pads until A (the first aligned
block) is 2-aligned (0x1004) which leaves B at 0x1006, not 4-aligned, although
one more pair of padding bytes would satisfy both requirements.

Run:  /venv/bin/python /verif/findings/KF-C10-1/repro.py     (exit 1 = defect present)
"""
import sys

import gtirb

import gtirb_rewriting._auxdata as _auxdata
from gtirb_rewriting import RewritingContext, join_byte_intervals, split_byte_interval


def direct() -> bool:
    c = gtirb.DataBlock(offset=0, size=2)
    a = gtirb.DataBlock(offset=2, size=4)
    b = gtirb.DataBlock(offset=4, size=2)
    bi = gtirb.ByteInterval(address=0x1000, contents=bytes(range(6)), blocks=[c, a, b])
    alignment = {a: 2, b: 4}
    assert a.address % 2 == 0 and b.address % 4 == 0
    parts = split_byte_interval(bi, alignment)
    assert [set(p.blocks) for p in parts] == [{c}, {a, b}]
    # the rewrite: one byte is inserted at the end of C's interval
    parts[0].contents = bytes(parts[0].contents) + b"\xcc"
    parts[0].size += 1
    join_byte_intervals(parts, alignment=alignment)
    print(f"direct : A at {a.address:#x} (align 2), B at {b.address:#x} (align 4)")
    return a.address % 2 == 0 and b.address % 4 == 0


def through_apply() -> bool:
    ir = gtirb.IR()
    m = gtirb.Module(name="m", isa=gtirb.Module.ISA.X64,
                     file_format=gtirb.Module.FileFormat.ELF, ir=ir)
    s = gtirb.Section(name=".data", module=m, flags={
        gtirb.Section.Flag.Readable, gtirb.Section.Flag.Writable,
        gtirb.Section.Flag.Loaded, gtirb.Section.Flag.Initialized})
    bi = gtirb.ByteInterval(address=0x1000, contents=bytes(range(6)), section=s)
    c = gtirb.DataBlock(offset=0, size=2, byte_interval=bi)
    a = gtirb.DataBlock(offset=2, size=4, byte_interval=bi)
    b = gtirb.DataBlock(offset=4, size=2, byte_interval=bi)
    _auxdata.alignment.get_or_insert(m).update({a: 2, b: 4})
    ctx = RewritingContext(m, [])
    ctx.insert_at(c, 2, b"\xcc")
    ctx.apply()
    print(f"apply(): A at {a.address:#x} (align 2), B at {b.address:#x} (align 4)")
    return a.address % 2 == 0 and b.address % 4 == 0


if __name__ == "__main__":
    ok1 = direct()
    ok2 = through_apply()
    if ok1 and ok2:
        print("alignment requirements hold: defect not present")
        sys.exit(0)
    print("DEFECT: a requirement that held before the rewrite is violated after it")
    sys.exit(1)
