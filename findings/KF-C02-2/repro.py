"""KF-C02-2: two insertions at the END of one block; the first patch ends in a
label whose address its own code takes (`lea .Lr(%rip), %rax; jmp *%rax; .Lr:`).
The label should designate the end of the first patch (= the start of the second
one); it ends up behind the second patch, so the first patch resumes after the
second patch and the second patch never runs."""
import os, sys
sys.path.insert(0, os.path.dirname(os.path.dirname(os.path.abspath(__file__))))
from common.g1case import blk, run, show
bad = 0
for title, second in (("second patch: plain", "plain2"), ("second patch: the same", "resume")):
    tr = run([blk("code", [["op", 1, 1], ["ret"]], "b1", fn="b1", entry=True),
              blk("code", [["op", 1, 3], ["ret"]], "b2", fn="b1")],
             [{"op": "ins", "sec": 0, "blk": 0, "off": 2, "len": 0, "patch": {"kind": "resume", "k": 1, "tgt": "b1"}},
              {"op": "ins", "sec": 0, "blk": 0, "off": 2, "len": 0, "patch": {"kind": second, "k": 2, "tgt": "b1"}}])
    print(title, "- exception:", tr["exc"] or "-")
    show(tr)
    for s in tr["post"]["syms"]:
        if s["n"] == ".Lr_1" and s["p"] != 11:
            print("DEFECT: .Lr_1 resolves to", s["p"], "- expected 11 (the end of its own patch)")
            bad = 1
sys.exit(bad)
