"""KF-C03-5: a patch with a ret inserted directly after a call keeps a return edge
to the call's OLD return site."""
import os, sys
sys.path.insert(0, os.path.dirname(os.path.dirname(os.path.abspath(__file__))))
from common.g1case import blk, run, show, edges
tr = run([blk("code", [["op", 2, 1], ["op", 3, 2]], "b1", fn="b1", entry=True),
          blk("code", [["op", 2, 3], ["call", "b3"]], "b2", fn="b1"),
          blk("code", [["op", 1, 4], ["ret"]], "b3", fn="b1")],
         [{"op": "ins", "sec": 0, "blk": 1, "off": 7, "patch": {"kind": "ret", "k": 1}}])
show(tr)
stale = [e for e in edges(tr) if e[1] == "Return" and e[0][0] == 12 and e[2][:3] == ("blk", ".text", 15)]
if stale:
    print("DEFECT: the patch's ret (block at 12) returns to 15, the old return site; the call now returns to 12")
    sys.exit(1)
print("ok")
