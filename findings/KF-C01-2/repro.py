"""KF-C01-2: three non-overlapping requests on one block [op; ret]: insert a patch
that ends in a label at offset 1, delete [1, 2) (the ret) and insert at offset 2
(the end of the block).  apply() dies with AssertionError in _apply_modifications
(`assert isinstance(actual_block, gtirb.ByteBlock)`): the deletion removed the
split-off tail block entirely, delete() returned None."""
import os, sys
sys.path.insert(0, os.path.dirname(os.path.dirname(os.path.abspath(__file__))))
from common.g1case import blk, run, show
tr = run([blk("code", [["op", 1, 1], ["ret"]], "b1", fn="b1", entry=True),
          blk("code", [["op", 1, 3], ["ret"]], "b2", fn="b2", entry=True)],
         [{"op": "ins", "sec": 0, "blk": 0, "off": 1, "len": 0, "patch": {"kind": "fwd", "k": 1, "tgt": "b2"}},
          {"op": "del", "sec": 0, "blk": 0, "off": 1, "len": 1},
          {"op": "ins", "sec": 0, "blk": 0, "off": 2, "len": 0, "patch": {"kind": "plain2", "k": 2, "tgt": "b2"}}])
print("exception:", tr["exc"] or "-", "stage:", tr["stage"])
if tr["exc"]:
    print("DEFECT: apply() raised", tr["exc"], "for three non-overlapping requests")
    sys.exit(1)
show(tr)
print("ok")
