"""KF-C15-1: `.cfi_restore r` for a register that has neither a current nor
an initial rule raises KeyError (cfi_eval.py: `state.current.registers.pop(register)`).
DWARF: DW_CFA_restore gives r the rule of the CIE's initial instructions; when
there is none the register simply has no rule afterwards.
Run: /venv/bin/python repro.py   (exit 1 = defect present, 0 = not reproduced)"""
import sys

import gtirb
from gtirb_test_helpers import add_code_block, add_text_section, create_test_module

from gtirb_rewriting._auxdata import NULL_UUID
from gtirb_rewriting.dwarf.cfi_eval import evaluate_cfi_directives

_, m = create_test_module(gtirb.Module.FileFormat.ELF, gtirb.Module.ISA.X64)
_, bi = add_text_section(m, address=0x1000)
b = add_code_block(bi, b"\x90\x90\x90")
m.aux_data["cfiDirectives"].data.update({
    gtirb.Offset(b, 0): [(".cfi_startproc", [], NULL_UUID),
                         (".cfi_def_cfa", [7, 8], NULL_UUID)],
    gtirb.Offset(b, 1): [(".cfi_restore", [3], NULL_UUID)],   # r3 never had a rule
    gtirb.Offset(b, 2): [(".cfi_endproc", [], NULL_UUID)],
})
try:
    states = [(off, st) for _, off, st in evaluate_cfi_directives(m, [b])]
except KeyError as e:
    print(f"DEFECT PRESENT: .cfi_restore of a register without a rule raised KeyError({e})")
    sys.exit(1)
assert 3 not in states[1][1].current.registers if states[1][1] else True
print("not reproduced: evaluation completed,", len(states), "states")
sys.exit(0)
