"""KF-C03-7: return edges do not follow a call whose target block is deleted with
retarget_to_proxy: the call goes to the proxy, the ret still returns to the site."""
import os, sys
sys.path.insert(0, os.path.dirname(os.path.dirname(os.path.abspath(__file__))))
from common.g1case import blk, run, show, edges
tr = run([blk("code", [["op", 2, 1], ["call", "b3"]], "b1", fn="b1", entry=True),
          blk("code", [["op", 1, 2], ["ret"]], "b2", fn="b1"),
          blk("code", [["op", 2, 3], ["ijmp"]], "b3", fn="b1")],
         [{"op": "del", "sec": 0, "blk": 2, "off": 0, "len": 4, "proxy": True}])
show(tr)
rets = [e for e in edges(tr) if e[1] == "Return"]
if any(e[2][0] == "blk" for e in rets):
    print("DEFECT: no call targets the function any more, yet its ret still returns to a call site")
    sys.exit(1)
print("ok")
