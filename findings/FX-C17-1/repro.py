"""KF-C17-1 (F4, property C17): ARM64 CallPatch with an integer argument in
[-0xFFFF, -1] emits `mov x0, #0x-5`, which does not assemble.
(exit 0 = reproduced)"""
import sys
import gtirb
import gtirb_rewriting
from gtirb_rewriting.assembler import Assembler
from gtirb_rewriting.patches import CallPatch

def module(isa, ff):
    ir = gtirb.IR()
    m = gtirb.Module(name="m", isa=isa, file_format=ff, ir=ir)
    s = gtirb.Section(name=".text", module=m,
                      flags={gtirb.Section.Flag.Readable, gtirb.Section.Flag.Executable,
                             gtirb.Section.Flag.Loaded, gtirb.Section.Flag.Initialized})
    bi = gtirb.ByteInterval(contents=b"\0" * 16, address=0x1000, section=s)
    b = gtirb.CodeBlock(offset=0, size=8, byte_interval=bi)
    d = gtirb.CodeBlock(offset=8, size=8, byte_interval=bi)
    callee = gtirb.Symbol("callee_fn", payload=gtirb.ProxyBlock(module=m), module=m)
    var = gtirb.Symbol("gsym0", payload=d, module=m)
    return m, b, callee, var


m, b, callee, var = module(gtirb.Module.ISA.ARM64, gtirb.Module.FileFormat.ELF)
patch = CallPatch(callee, [-5])
text = patch.get_asm(gtirb_rewriting.InsertionContext(m, None, b, 0, stack_adjustment=0))
print(text)
try:
    a = Assembler(m)
    a.assemble(text, patch.constraints.x86_syntax)
    a.finalize()
except Exception as e:
    print("REPRODUCED:", type(e).__name__, e)
    sys.exit(0 if type(e).__name__ == "AsmSyntaxError" else 1)
print("assembled; not reproduced")
sys.exit(1)
