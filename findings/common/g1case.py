"""Shared by the findings/KF-*/repro.py scripts of the listing group: run one
small case through the real RewritingContext and print the observed facts."""
import json
import os
import sys

sys.path.insert(0, os.path.dirname(os.path.dirname(os.path.dirname(os.path.abspath(__file__)))))
from harness.g1.runner import run_case  # noqa: E402


def blk(kind, units, name, fn="", entry=False, esyms=(), cfi=()):
    return {"kind": kind, "units": units, "syms": [name], "esyms": list(esyms),
            "fn": fn, "entry": entry, "ann": [], "cfi": list(cfi)}


def run(blocks, reqs, **flags):
    case = {"id": "repro", "shape": {"sections": [{"name": ".text", "blocks": blocks}]},
            "reqs": reqs}
    case.update(flags)
    return run_case(case)


def edges(tr, key="post"):
    out = []
    for e in tr[key]["edges"]:
        out.append((tuple(e["s"][2:4]), e["ty"], tuple(e["t"][:4])))
    return sorted(out)


def show(tr, key="post"):
    for b in tr[key]["secs"][0]["blocks"]:
        print("   block @%d+%d" % (b["p"], b["n"]), [(u["k"], u["tg"]) for u in b["units"]],
              "labels", b["ss"], "end-labels", b["es"], "fn", b["fn"])
    for e in edges(tr, key):
        print("   edge", e)
    print("   symbols", [(s["n"], s["k"], s["p"]) for s in tr[key]["syms"]])
