"""KF-C20-2: BlockOrdering._primitive_insert (add_detached_blocks /
insert_blocks_after) iterates its `Iterable` argument twice and checks
duplicates only against the blocks that are already ordered.

(a) A list naming a new block twice raises no ValueError and corrupts the
    ordering: the block becomes its own predecessor, and after it is removed
    its neighbours still point at it.
(b) A one-shot iterator (the parameter is typed Iterable) is exhausted by the
    duplicate check: nothing is inserted, silently.

Found by the frontier replay of spec/Containers.tla ("bo"), confirmed here.

Candidate minimal fix (block_ordering.py, _primitive_insert):

    insert_blocks = tuple(insert_blocks)
    seen = set()
    for block in insert_blocks:
        if block in self.__order or block in seen:
            raise ValueError(f"{block} is already ordered")
        seen.add(block)
"""
import gtirb
from gtirb_rewriting._adt import BlockOrdering

b = [gtirb.ByteBlock() for _ in range(4)]
name = {id(x): i for i, x in enumerate(b)}


def adj(o, x):
    p, n = o.adjacent_blocks(x)
    return (None if p is None else name[id(p)], None if n is None else name[id(n)])


ok = True
o = BlockOrdering()
o.add_detached_blocks([b[0], b[1]])
try:
    o.insert_blocks_after(b[0], [b[2], b[2]])
    print("(a) REPRODUCED: no ValueError for [b2, b2]; adjacent(b2) =", adj(o, b[2]))
    o.remove_block(b[2])
    print("    after remove_block(b2): adjacent(b0) =", adj(o, b[0]), " adjacent(b1) =", adj(o, b[1]),
          "(still point at the removed block 2)")
except ValueError:
    print("(a) NOT REPRODUCED: ValueError")
    ok = False

o = BlockOrdering()
o.add_detached_blocks(iter([b[0], b[1]]))
try:
    adj(o, b[0])
    print("(b) NOT REPRODUCED: blocks were inserted")
    ok = False
except KeyError:
    print("(b) REPRODUCED: add_detached_blocks(iter([b0, b1])) inserted nothing and raised nothing")
raise SystemExit(0 if ok else 1)
