"""KF-C08-3: [data][code: startproc .. endproc][code outside any procedure]; one patch is
inserted at the very end of the procedure, another one replaces the first instruction of
the block behind it.  The second patch ends up in front of .cfi_endproc, i.e. inside the
procedure."""
import os, sys
sys.path.insert(0, os.path.dirname(os.path.dirname(os.path.abspath(__file__))))
from common.g1case import blk, run, show
S7 = [["cfi_startproc"], ["cfi_def_cfa", 7, 8]]
tr = run([blk("data", [["d", 3, 1]], "b1"),
          blk("code", [["op", 2, 2], ["op", 3, 3]], "b2", cfi=[[0, S7], [5, [["cfi_endproc"]]]]),
          blk("code", [["op", 2, 4], ["op", 3, 5]], "b3")],
         [{"op": "ins", "sec": 0, "blk": 1, "off": 5, "len": 0, "patch": {"kind": "plain2", "k": 1, "tgt": "b1"}},
          {"op": "rep", "sec": 0, "blk": 2, "off": 0, "len": 2, "patch": {"kind": "plain2", "k": 2, "tgt": "b1"}}])
print("exception:", tr["exc"] or "-")
pos = []
for b in tr["post"]["secs"][0]["blocks"]:
    for c in b["cfi"]:
        for d in c["v"]:
            pos.append((b["p"] + c["d"], d))
print("directives:", pos)
end = [p for p, d in pos if "endproc" in d]
if end and end[0] != 10:
    print("DEFECT: .cfi_endproc at", end[0], "- expected 10 (behind the first patch, in front of the second)")
    sys.exit(1)
print("ok")
