"""KF-C17-3 (property C17): on x86 CallPatch passes a Symbol argument as the
WORD STORED AT the symbol, not as the symbol's address: the Intel-syntax texts
`mov RDI, sym[rip]`, `mov RCX, sym`, `push sym` are memory loads for LLVM-MC.
(ARM64 emits adrp + add :lo12: and passes the address.)  (exit 0 = reproduced)"""
import sys
import capstone
import gtirb
import gtirb_rewriting
from gtirb_rewriting.assembler import Assembler
from gtirb_rewriting.patches import CallPatch

def module(isa, ff):
    ir = gtirb.IR()
    m = gtirb.Module(name="m", isa=isa, file_format=ff, ir=ir)
    s = gtirb.Section(name=".text", module=m,
                      flags={gtirb.Section.Flag.Readable, gtirb.Section.Flag.Executable,
                             gtirb.Section.Flag.Loaded, gtirb.Section.Flag.Initialized})
    bi = gtirb.ByteInterval(contents=b"\0" * 16, address=0x1000, section=s)
    b = gtirb.CodeBlock(offset=0, size=8, byte_interval=bi)
    d = gtirb.CodeBlock(offset=8, size=8, byte_interval=bi)
    callee = gtirb.Symbol("callee_fn", payload=gtirb.ProxyBlock(module=m), module=m)
    var = gtirb.Symbol("gsym0", payload=d, module=m)
    return m, b, callee, var


FF, ISA = gtirb.Module.FileFormat, gtirb.Module.ISA
loads = 0
for isa, ff, mode in ((ISA.X64, FF.ELF, capstone.CS_MODE_64), (ISA.X64, FF.PE, capstone.CS_MODE_64),
                      (ISA.IA32, FF.PE, capstone.CS_MODE_32)):
    m, b, callee, var = module(isa, ff)
    patch = CallPatch(callee, [var])
    text = patch.get_asm(gtirb_rewriting.InsertionContext(m, None, b, 0, stack_adjustment=0))
    a = Assembler(m)
    a.assemble(text, patch.constraints.x86_syntax)
    data = bytes(a.finalize().text_section.data)
    cs = capstone.Cs(capstone.CS_ARCH_X86, mode)
    cs.detail = True
    for insn in cs.disasm(data, 0):
        if insn.mnemonic in ("mov", "push") and "ptr [" in insn.op_str:
            print(isa.name, ff.name, repr(text.splitlines()[0]),
                  "->", insn.bytes.hex(), insn.mnemonic, insn.op_str, "(memory operand: a load)")
            loads += 1
if loads == 3:
    print("REPRODUCED: the callee receives *(sym), not &sym")
    sys.exit(0)
sys.exit(1)
