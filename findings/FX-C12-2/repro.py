"""KF-C12-2: an empty string literal (`.ascii ""`) makes Assembler.finalize()
fail with a bare AssertionError.

emit_bytes(b"") goes through _emit_value_with_encoding: it splits, appends
nothing, types the (still empty) block as ASCII and splits again.  finalize's
_remove_empty_blocks then meets a zero-sized block that has a block type and
trips `assert extra_block not in self._state.block_types`.

Property C12 (C12_Completes): supported vocabulary must assemble or be refused
with one of the documented errors (DESIGN appendix B); AssertionError is never
a legitimate refusal.

Run:  /venv/bin/python /verif/findings/KF-C12-2/repro.py
"""
import gtirb
from gtirb_test_helpers import create_test_module

from gtirb_rewriting.assembler import Assembler

_, m = create_test_module(gtirb.Module.FileFormat.ELF, gtirb.Module.ISA.X64)
a = Assembler(m)
a.assemble('nop\n.ascii ""\nnop\n')
try:
    a.finalize()
except AssertionError:
    print('REPRODUCED: `.ascii ""` -> AssertionError in finalize()')
else:
    raise SystemExit("not reproduced")
