"""KF-C15-3: `.cfi_rel_offset reg, n` is evaluated as "add n to reg's current
offset rule" (CFIStateError when reg has no offset rule).  GNU as and LLVM MC
define it as `.cfi_offset reg, n - <current CFA offset>`; the library's own
assembler records `.cfi_rel_offset` verbatim into cfiDirectives
(assembler.py emit_cfi_rel_offset), so the evaluator disagrees with what the
directive means when the module is assembled.  The canonical prologue
    push %rbp ; .cfi_def_cfa_offset 16 ; .cfi_rel_offset %rbp, 0
must give rbp = [CFA-16]; the evaluator raises CFIStateError.
(Checked here: `llvm-mc` + `llvm-dwarfdump --eh-frame`, and gcc/readelf, both give
 DW_CFA_offset: RBP -16, and for `.cfi_offset %rbx, 8 ; .cfi_rel_offset %rbx, 8`
 RBX -8, where the evaluator says +16.)
Run: /venv/bin/python repro.py   (exit 1 = defect present)"""
import sys

import gtirb
from gtirb_test_helpers import add_code_block, add_text_section, create_test_module

from gtirb_rewriting._auxdata import NULL_UUID
from gtirb_rewriting.dwarf.cfi_eval import CFIStateError, RegisterOffset, evaluate_cfi_directives


def evaluate(rows):
    _, m = create_test_module(gtirb.Module.FileFormat.ELF, gtirb.Module.ISA.X64)
    _, bi = add_text_section(m, address=0x1000)
    b = add_code_block(bi, b"\x90" * len(rows))
    for i, r in enumerate(rows):
        m.aux_data["cfiDirectives"].data[gtirb.Offset(b, i)] = [(n, a, NULL_UUID) for n, a in r]
    return [st for _, _, st in evaluate_cfi_directives(m, [b])]


bad = 0
try:
    st = evaluate([[(".cfi_startproc", []), (".cfi_def_cfa", [7, 8]), (".cfi_offset", [16, -8])],
                   [(".cfi_def_cfa_offset", [16]), (".cfi_rel_offset", [6, 0])]])[-1]
    print("prologue: rbp rule =", st.current.registers[6], "(as/llvm: offset -16)")
    bad += st.current.registers[6] != RegisterOffset(-16)
except CFIStateError as e:
    print("prologue: CFIStateError:", e, "(as/llvm: rbp = [CFA-16])")
    bad += 1
st = evaluate([[(".cfi_startproc", []), (".cfi_def_cfa", [7, 16])],
               [(".cfi_offset", [3, 8]), (".cfi_rel_offset", [3, 8])]])[-1]
print("offset 8 ; rel_offset 8 with CFA offset 16: rbx rule =", st.current.registers[3],
      "(as/llvm: offset -8)")
bad += st.current.registers[3] != RegisterOffset(-8)
if bad:
    print("DEFECT PRESENT: .cfi_rel_offset is not evaluated relative to the CFA offset")
    sys.exit(1)
print("not reproduced")
sys.exit(0)
