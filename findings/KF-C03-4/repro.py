"""KF-C03-4: a ret created by a patch in a function that has no return edges to
real return sites returns to a proxy although the function is called."""
import os, sys
sys.path.insert(0, os.path.dirname(os.path.dirname(os.path.abspath(__file__))))
from common.g1case import blk, run, show, edges
tr = run([blk("code", [["op", 3, 1], ["jcc", "b2"]], "b1", fn="b1", entry=True),
          blk("code", [["op", 2, 2], ["call", "b2"]], "b2", fn="b2", entry=True),
          blk("code", [["op", 2, 3], ["ijmp"]], "b3", fn="b2")],
         [{"op": "ins", "sec": 0, "blk": 2, "off": 4, "patch": {"kind": "ret", "k": 1}}])
show(tr)
rets = [e for e in edges(tr) if e[1] == "Return"]
if rets and all(e[2][0] == "proxy" for e in rets):
    print("DEFECT: the new ret of b2 returns to a proxy; b2 is called at 11 with return site 16")
    sys.exit(1)
print("ok")
