"""KF-C03-6: deleting a whole block that ends in a call to f drops f's return
edge to the return site the call slid onto although another call still returns there."""
import os, sys
sys.path.insert(0, os.path.dirname(os.path.dirname(os.path.abspath(__file__))))
from common.g1case import blk, run, show, edges
tr = run([blk("code", [["op", 2, 1], ["call", "b3"]], "b1", fn="b1", entry=True),
          blk("code", [["op", 2, 2], ["call", "b3"]], "b2", fn="b1"),
          blk("code", [["op", 1, 3], ["ret"]], "b3", fn="b1")],
         [{"op": "del", "sec": 0, "blk": 1, "off": 0, "len": 7}])
show(tr)
rets = [e for e in edges(tr) if e[1] == "Return"]
if all(e[2][0] == "proxy" for e in rets):
    print("DEFECT: ret returns to a proxy only; the call at 0..7 still returns to 7")
    sys.exit(1)
print("ok")
