"""FX-C02-2 (repaired by the fix commit named in known_findings.json): [code with
.cfi_startproc][data][code with .cfi_endproc]; the first block is deleted with
retarget_to_proxy=True.  It has to be kept as a zero-sized block for its CFI directives
(no code neighbour); its label must nevertheless go to the proxy."""
import os, sys
sys.path.insert(0, os.path.dirname(os.path.dirname(os.path.abspath(__file__))))
from common.g1case import blk, run, show
S7 = [["cfi_startproc"], ["cfi_def_cfa", 7, 8]]
tr = run([blk("code", [["op", 2, 1], ["op", 3, 2]], "b1", cfi=[[0, S7]]),
          blk("data", [["d", 3, 4]], "b2"),
          blk("code", [["op", 2, 5], ["op", 3, 6]], "b3", cfi=[[5, [["cfi_endproc"]]]])],
         [{"op": "del", "sec": 0, "blk": 0, "off": 0, "len": 5, "proxy": True}])
print("exception:", tr["exc"] or "-")
show(tr)
b1 = [s for s in tr["post"]["syms"] if s["n"] == "b1"][0]
if b1["k"] != "proxy":
    print("DEFECT: b1 is", b1["k"], "- expected a proxy")
    sys.exit(1)
print("ok")
