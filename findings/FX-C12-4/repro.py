"""FX-C12-4 (repaired by the fix commit named in known_findings.json; was KF-C12-4): on ARM64 and MIPS32 a direct branch or call whose target is a
constant (a literal address, or a name given a constant value earlier in the
same text) makes Assembler.assemble() fail with a bare AssertionError.

LLVM encodes the constant target directly, so the instruction comes without a
fixup and `_resolve_instruction_target` trips `assert len(fixups) == 1`.  On
x86 the same text is refused with UnsupportedAssemblyError ("unsupported
symbolic expression"), which is the documented refusal for a call / branch
target that is not a CFG element (DESIGN appendix B); AssertionError never is.

Run:  /venv/bin/python /verif/findings/KF-C12-4/repro.py
"""
import gtirb
from gtirb_test_helpers import create_test_module

from gtirb_rewriting.assembler import Assembler

ISA = gtirb.Module.ISA
seen = []
for isa, text in ((ISA.X64, "glob = 16\njmp glob\n"), (ISA.ARM64, "glob = 16\nb glob\n"),
                  (ISA.ARM64, "bl 16\n"), (ISA.MIPS32, ".set noreorder\nglob = 16\nj glob\nnop\n")):
    _, m = create_test_module(gtirb.Module.FileFormat.ELF, isa,
                              byte_order=gtirb.Module.ByteOrder.Big if isa == ISA.MIPS32 else None)
    a = Assembler(m)
    try:
        a.assemble(text)
        seen.append("ok")
    except Exception as e:  # noqa: BLE001
        seen.append(type(e).__name__)
    print(isa.name, repr(text), "->", seen[-1])
import sys
if "AssertionError" in seen:
    print("DEFECT: branch to a constant target -> AssertionError on ARM64 / MIPS32")
    sys.exit(1)
print("ok (repaired): every target refuses with UnsupportedAssemblyError")
