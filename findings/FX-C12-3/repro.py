"""KF-C12-3: two alignment requests at the same position: the later, weaker
request overwrites the earlier, stricter one.

_emit_alignment stores `alignment[current_block] = alignment` without taking
the maximum with a request already recorded for that block (finalize's
_remove_empty_blocks *does* take the maximum when it merges blocks, so the
intent is clear).  `.balign 16` followed by `.balign 4` leaves the block with
alignment 4; the rewriter may then place it at an address that is not
16-aligned.

Run:  /venv/bin/python /verif/findings/KF-C12-3/repro.py
"""
import gtirb
from gtirb_test_helpers import create_test_module

from gtirb_rewriting.assembler import Assembler


def alignments(text):
    _, m = create_test_module(gtirb.Module.FileFormat.ELF, gtirb.Module.ISA.X64)
    a = Assembler(m)
    a.assemble(text)
    r = a.finalize()
    s = r.text_section
    return [s.alignment.get(b, 0) for b in s.blocks]


up = alignments("nop\n.balign 4\n.balign 16\nnop\n")
down = alignments("nop\n.balign 16\n.balign 4\nnop\n")
print("4 then 16:", up, "  16 then 4:", down)
assert up == [0, 16]
assert down == [0, 4], down          # observed; the strictest request (16) is lost
print("REPRODUCED: .balign 16 followed by .balign 4 leaves alignment 4")
