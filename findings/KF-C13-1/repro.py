"""KF-C13-1: inserting a patch one of whose sections is empty crashes the rewrite.

 * a patch that only defines a label ("glob:")      -> AssertionError
       (_modify/edit.py insert(): `assert text_section.data`)
 * a patch that only has contents for another section
   (".data\n.byte 1") or only directives (".balign 4") -> IndexError
       (rewriting.py _invoke_patch(): `result.text_section.blocks[-1]` on a
        text section whose only, empty, block finalize() dropped)

 * a patch that switches to another section and leaves it empty
   ("nop\n.data")                                   -> IndexError
       (_modify/edit.py _add_other_section_contents(): `sect.blocks[-1]`)

All are accepted by the stand-alone Assembler.  Property C13 quantifies over
"all patches with temporary and global labels ... inserted any number of times
in one rewrite"; C13_Completes: nothing but a documented refusal may be raised.

Run:  /venv/bin/python /verif/findings/KF-C13-1/repro.py
"""
import gtirb
from gtirb_test_helpers import add_code_block, add_text_section, create_test_module

from gtirb_rewriting import Patch, RewritingContext, patch_constraints

seen = []
for text in ("glob:\n", ".data\n.byte 1\n", ".balign 4\n", "nop\n.data\n"):
    _, m = create_test_module(gtirb.Module.FileFormat.ELF, gtirb.Module.ISA.X64)
    _, bi = add_text_section(m, address=0x1000)
    b = add_code_block(bi, b"\x90")

    @patch_constraints()
    def fn(ctx, text=text):
        return text

    ctx = RewritingContext(m, [])
    ctx.insert_at(b, 0, Patch.from_function(fn))
    try:
        ctx.apply()
        seen.append("ok")
    except Exception as e:  # noqa: BLE001
        seen.append(type(e).__name__)
    print(repr(text), "->", seen[-1])
assert seen == ["AssertionError", "IndexError", "IndexError", "IndexError"], seen
print("REPRODUCED: patches with an empty section crash RewritingContext.apply()")
