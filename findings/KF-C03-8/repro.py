"""KF-C03-8: b1 falls through into b2; b2 (code) and b3 (data) are deleted in one
apply(); b4 (code) follows.  In the edited listing b1's last instruction is
followed by b4's first one, so b1 falls through into b4 - the library leaves the
fallthrough edge on a fresh proxy."""
import os, sys
sys.path.insert(0, os.path.dirname(os.path.dirname(os.path.abspath(__file__))))
from common.g1case import blk, run, show, edges
tr = run([blk("code", [["op", 2, 1], ["op", 3, 2]], "b1"),
          blk("code", [["op", 1, 3], ["ret"]], "b2", fn="b2", entry=True),
          blk("data", [["d", 3, 4]], "b3"),
          blk("code", [["op", 1, 5], ["ret"]], "b4", fn="b2")],
         [{"op": "del", "sec": 0, "blk": 1, "off": 0, "len": 2},
          {"op": "del", "sec": 0, "blk": 2, "off": 0, "len": 3}])
print("exception:", tr["exc"] or "-")
show(tr)
ft = [e for e in edges(tr) if e[1] == "Fallthrough" and e[0][0] == 0]
if not ft or ft[0][2][0] != "blk":
    print("DEFECT: b1's fallthrough edge goes to", ft[0][2] if ft else None, "- expected the block at offset 5 (b4)")
    sys.exit(1)
print("ok")
