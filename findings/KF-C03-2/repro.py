"""KF-C03-2: with function tables, a patch ending in `jmp` inserted in the middle
of a block leaves a fallthrough edge on the jmp."""
import os, sys
sys.path.insert(0, os.path.dirname(os.path.dirname(os.path.abspath(__file__))))
from common.g1case import blk, run, show, edges
tr = run([blk("code", [["op", 1, 1], ["op", 2, 2], ["ret"]], "b1", fn="b1", entry=True)],
         [{"op": "ins", "sec": 0, "blk": 0, "off": 1, "patch": {"kind": "loop", "k": 9}}])
show(tr)
bad = []
for b in tr["post"]["secs"][0]["blocks"]:
    if b["units"] and b["units"][-1]["k"] == "jmp":
        bad += [e for e in edges(tr) if e[0] == (b["p"], b["n"]) and e[1] == "Fallthrough"]
if bad:
    print("DEFECT: fallthrough edge out of an unconditional jmp:", bad)
    sys.exit(1)
print("ok")
