"""KF-C01-1: a patch that ends in a label, inserted at the end of a block that is
not followed by code -> AssertionError in _cleanup_modified_blocks."""
import os, sys
sys.path.insert(0, os.path.dirname(os.path.dirname(os.path.abspath(__file__))))
from common.g1case import blk, run, show
tr = run([blk("code", [["op", 1, 1], ["ret"]], "b1")],
         [{"op": "ins", "sec": 0, "blk": 0, "off": 2, "patch": {"kind": "fwd", "k": 1}}])
print("exception:", tr["exc"] or "(none)")
show(tr)
if tr["exc"] == "AssertionError":
    print("DEFECT: apply() failed with AssertionError")
    sys.exit(1)
print("ok")
