"""KF-C03-1: with function tables, deleting the trailing jmp of a block leaves
no fallthrough edge to the next block (fallthrough edges are never synthesized)."""
import os, sys
sys.path.insert(0, os.path.dirname(os.path.dirname(os.path.abspath(__file__))))
from common.g1case import blk, run, show, edges
tr = run([blk("code", [["op", 1, 1], ["op", 2, 2], ["jmp", "b2"]], "b1", fn="b1", entry=True),
          blk("code", [["op", 2, 3], ["op", 3, 4]], "b2", fn="b2", entry=True),
          blk("code", [["op", 1, 5], ["ret"]], "b3", fn="b2")],
         [{"op": "del", "sec": 0, "blk": 0, "off": 1, "len": 7}])
show(tr)
ft = [e for e in edges(tr) if e[0] == (0, 1) and e[1] == "Fallthrough"]
if not ft:
    print("DEFECT: [op] at 0 is followed by code at 1 but has no fallthrough edge")
    sys.exit(1)
print("ok")
