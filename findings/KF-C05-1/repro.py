"""KF-C05-1: [code with .cfi_startproc][data][code with .cfi_endproc]; the first code
block is deleted (kept as a zero-sized block for its CFI: no code neighbour - documented)
and the data block is deleted with retarget_to_proxy in the same apply().  The
zero-sized block stays in front of the remaining code block and keeps label b1."""
import os, sys
sys.path.insert(0, os.path.dirname(os.path.dirname(os.path.abspath(__file__))))
from common.g1case import blk, run, show
S7 = [["cfi_startproc"], ["cfi_def_cfa", 7, 8]]
tr = run([blk("code", [["op", 2, 1], ["op", 3, 2]], "b1", cfi=[[0, S7]]),
          blk("data", [["d", 3, 4]], "b2"),
          blk("code", [["op", 2, 5], ["op", 3, 6]], "b3", cfi=[[5, [["cfi_endproc"]]]])],
         [{"op": "del", "sec": 0, "blk": 0, "off": 0, "len": 5},
          {"op": "del", "sec": 0, "blk": 1, "off": 0, "len": 3, "proxy": True}])
print("exception:", tr["exc"] or "-")
show(tr)
bs = tr["post"]["secs"][0]["blocks"]
bad = [b for i, b in enumerate(bs) if b["n"] == 0 and i + 1 < len(bs) and bs[i + 1]["k"] == "code"]
if bad:
    print("DEFECT: a zero-sized block remains in front of a code block (labels", bad[0]["ss"], ")")
    sys.exit(1)
print("ok")
