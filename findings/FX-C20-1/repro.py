"""KF-C20-1: ReferenceCache.retarget_references(block, None, ...) is a no-op
when nothing refers to `block` -- unless an earlier retarget left a pair of
empty RefNode trees registered for the block, in which case it raises
AssertionError (`assert to_block`).  Whether the call succeeds depends on
invisible bookkeeping, not on the references.

The early return tests `block not in self._references`, but get_referent and
set_referent move symbols out of the trees without unregistering empty trees.

Found by TLC (spec/RefCache.tla, history retarget; set_referent; retarget to
None), confirmed here against the real code.

Candidate minimal fix (cache.py, retarget_references): when `to_block` is None
drain the (necessarily empty) entry instead of asserting, e.g.

    if to_block is None:
        assert not any(self.get_references(block))   # also drops an empty entry
        return
"""
import gtirb
from gtirb_rewriting._modify.cache import ReferenceCache

ir = gtirb.IR()
m = gtirb.Module(name="m", isa=gtirb.Module.ISA.X64, file_format=gtirb.Module.FileFormat.ELF)
m.ir = ir
sec = gtirb.Section(name=".text")
sec.module = m
bi = gtirb.ByteInterval(contents=b"\0\0", address=0x1000)
bi.section = sec
b1 = gtirb.DataBlock(offset=0, size=1)
b1.byte_interval = bi
b2 = gtirb.DataBlock(offset=1, size=1)
b2.byte_interval = bi
s1 = gtirb.Symbol("s1", payload=b1)
s1.module = m

fresh = ReferenceCache()
fresh.retarget_references(b2, None, False)          # nothing refers to b2: no-op
print("fresh cache: retarget_references(b2, None) is a no-op")

cache = ReferenceCache()
cache.retarget_references(b1, b2, False)            # s1 -> b2 (indirect)
cache.set_referent(s1, None, False)                 # s1 -> None; nothing refers to b1 or b2
assert not list(b2.references) and s1.referent is None
try:
    cache.retarget_references(b2, None, False)      # still nothing refers to b2
    print("NOT REPRODUCED: no exception")
    raise SystemExit(1)
except AssertionError:
    print("REPRODUCED: AssertionError although nothing refers to b2 "
          "(stale empty trees in cache._references)")
