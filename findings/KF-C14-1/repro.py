"""KF-C14-1 (C14_GtirbForm): Instruction.gtirb_encoding hands an operand >= 2^63 of a
non-escape directive to GTIRB, whose cfiDirectives operand type is int64 - the directive
cannot be saved.  The same instruction encodes / decodes fine (ULEB128 has no upper bound).
Run: /venv/bin/python repro.py   (exit 1 = defect present)"""
import io, sys
import gtirb
from gtirb_rewriting._auxdata import cfi_directives
from gtirb_rewriting.dwarf.cfi import InstDefCFA, parse_cfi_instructions

inst = InstDefCFA(7, 2**63)
raw = bytes(inst.encode("little", 8))
assert list(parse_cfi_instructions(raw, "little", 8)) == [inst]     # codec accepts it
ir = gtirb.IR()
m = gtirb.Module(name="m", isa=gtirb.Module.ISA.X64, file_format=gtirb.Module.FileFormat.ELF, ir=ir)
bi = gtirb.ByteInterval(contents=b"\x90", section=gtirb.Section(name=".text", module=m))
b = gtirb.CodeBlock(offset=0, size=1, byte_interval=bi)
cfi_directives.get_or_insert(m)[gtirb.Offset(b, 0)] = [inst.gtirb_encoding("little", 8)]
try:
    ir.save_protobuf_file(io.BytesIO())
    print("OK: directive", inst.gtirb_encoding("little", 8)[:2], "saved")
except OverflowError as e:
    print("DEFECT: gtirb_encoding ->", inst.gtirb_encoding("little", 8)[:2], "; save:", repr(e))
    sys.exit(1)
