"""KF-C16-3 (property C16): x86 align_stack without clobbers_flags.  The
prologue aligns the stack with `and $-0x10, %rsp`, which overwrites
OF/SF/ZF/PF/CF, and the flags are only saved when the patch declares
clobbers_flags.  A patch that leaves the flags alone (so it may sit between a
cmp and its jcc) is therefore not transparent.  (exit 0 = reproduced)"""
import sys
import gtirb_rewriting
from gtirb_rewriting.abi import _X86_64_ELF, _IA32_PE

ok = 0
for abi in (_X86_64_ELF(), _IA32_PE()):
    cons = gtirb_rewriting.Constraints(align_stack=True, clobbers_flags=False)
    regs = abi._allocate_patch_registers(cons)
    pro, epi, adj = abi._create_prologue_and_epilogue(cons, regs, False)
    p = [ln.strip() for s in pro for ln in s.code.strip().splitlines()]
    e = [ln.strip() for s in epi for ln in s.code.strip().splitlines()]
    print(type(abi).__name__, "prologue:", p, "epilogue:", e)
    has_and = any(x.split()[0] in ("and", "andq", "andl") for x in p)
    saves = any(x.split()[0].startswith("pushf") for x in p)
    restores = any(x.split()[0].startswith("popf") for x in e)
    ok += has_and and not saves and not restores
if ok == 2:
    print("REPRODUCED: `and` on the stack pointer clobbers the flags; no pushf/popf around it")
    sys.exit(0)
sys.exit(1)
