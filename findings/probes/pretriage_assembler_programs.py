import gtirb, gtirb_rewriting, sys, itertools, random
sys.path.insert(0,'/repo/tests')
from gtirb_test_helpers import create_test_module, add_code_block, add_symbol, add_text_section, add_proxy_block
from gtirb_rewriting.assembler import Assembler
def mkmod():
    ir, m = create_test_module(gtirb.Module.FileFormat.ELF, gtirb.Module.ISA.X64)
    _, bi = add_text_section(m, address=0x1000)
    b=add_code_block(bi,b"\xc3"); add_symbol(m,"ext",add_proxy_block(m)); add_symbol(m,"fn",b)
    return m
def show(r):
    for name,s in r.sections.items():
        print("  sect",name,"data",s.data.hex())
        for b in s.blocks:
            syms=[(x.name,x.at_end) for x in r.symbols if x.referent is b]
            oe=sorted(f"{e.label.type.name[:3]}{'c' if e.label.conditional else ''}{'' if e.label.direct else 'i'}->{('P' if isinstance(e.target,gtirb.ProxyBlock) else (e.target.offset if e.target in s.blocks else 'MOD'))}" for e in r.cfg.out_edges(b)) if isinstance(b,gtirb.CodeBlock) else '-'
            print("    ",type(b).__name__[:4],b.offset,b.size,syms,oe, s.alignment.get(b), s.block_types.get(b))
        print("     sx",{k:(type(v).__name__, [x.name for x in v.symbols], getattr(v,'offset',None), sorted(a.name for a in v.attributes)) for k,v in s.symbolic_expressions.items()}, s.symbolic_expression_sizes)
def asm(text, chunks=None, **kw):
    m=mkmod(); a=Assembler(m, **kw)
    try:
        if chunks:
            for c in chunks: a.assemble(c)
        else: a.assemble(text)
        return a.finalize()
    except Exception as ex:
        return ex
progs = {
 "call_label_bytes": "nop\ncall fn\n.Lx:\n.byte 1\n.byte 2\njmp .Lx\n.byte 3\n",
 "bytes_then_label_jmp": ".byte 0x90\n.La:\nnop\njne .La\nret\n.Lend:\n",
 "ret_then_bytes": "ret\n.byte 1,2\n.Lq:\n.quad ext+4\n",
 "empty_labels": ".La:\n.Lb:\nnop\n.Lc:\n",
 "align_mid": "nop\n.align 8\nnop\n.align 4\n.Lz:\nret",
 "data_section": "lea .Lmsg(%rip), %rax\n.data\n.Lmsg:\n.string \"hi\"\n.Lafter:\n",
}
for k,t in progs.items():
    print("==",k); r=asm(t, temp_symbol_suffix="_7"); 
    if isinstance(r,Exception): print("  EXC",type(r).__name__,r)
    else: show(r)
print("== chunked vs whole (call_label_bytes)")
t=progs["call_label_bytes"]; lines=t.splitlines(keepends=True)
def canon(r):
    if isinstance(r,Exception): return ("EXC",type(r).__name__)
    out=[]
    for name,s in r.sections.items():
        out.append((name,s.data.hex(),[(type(b).__name__,b.offset,b.size,sorted((x.name,x.at_end) for x in r.symbols if x.referent is b)) for b in s.blocks], sorted((e.source.offset, getattr(e.target,'offset','P'), e.label.type.name) for e in r.cfg if e.source in s.blocks)))
    return out
whole=canon(asm(t))
for i in range(1,len(lines)):
    c=canon(asm(None,chunks=["".join(lines[:i]),"".join(lines[i:])]))
    print("  split at",i, "same" if c==whole else ("DIFF", c if c[0]=="EXC" else ""))
