"""Throwaway mini-listing -> gtirb module builder + per-instruction CFG printer (x86-64)."""
import gtirb, gtirb_rewriting, sys, itertools
sys.path.insert(0,'/repo/tests')
from gtirb_test_helpers import create_test_module, add_code_block, add_data_block, add_symbol, add_text_section, add_edge, add_proxy_block
from helpers import literal_patch, add_function_object
from gtirb_capstone.instructions import GtirbInstructionDecoder
import capstone
E=gtirb.Edge.Type
ENC={'op1':b'\x90','op2':b'\x66\x90','op3':b'\x0f\x1f\x00','ret':b'\xc3','ijmp':b'\xff\xe0','icall':b'\xff\xd0'}
def build(listing, funcs=None):
    """listing: list of blocks; block = (name, [insn...]); insn = 'op1'|'op2'|'ret'|('jmp',L)|('jcc',L)|('call',L)|'ijmp'|'icall'
       funcs: {fname: [blocknames]} first is entry"""
    ir, m = create_test_module(gtirb.Module.FileFormat.ELF, gtirb.Module.ISA.X64)
    _, bi = add_text_section(m, address=0x1000)
    blocks={}; syms={}; pend=[]
    for name, insns in listing:
        data=b''; sx={}
        for ins in insns:
            if isinstance(ins,tuple):
                k,L=ins
                if k=='jmp': data+=b'\xe9'; sx[len(data)]=L; data+=b'\0\0\0\0'
                elif k=='call': data+=b'\xe8'; sx[len(data)]=L; data+=b'\0\0\0\0'
                elif k=='jcc': data+=b'\x0f\x84'; sx[len(data)]=L; data+=b'\0\0\0\0'
            else: data+=ENC[ins]
        b=add_code_block(bi,data); blocks[name]=b; syms[name]=add_symbol(m,name,b); pend.append((b,sx,insns))
    for b,sx,insns in pend:
        for off,L in sx.items(): bi.symbolic_expressions[b.offset+off]=gtirb.SymAddrConst(0,syms[L])
    names=[n for n,_ in listing]
    fobjs=[]; fof={}
    if funcs:
        for fn,bl in funcs.items():
            fobjs.append(add_function_object(m, syms[bl[0]], blocks[bl[0]], {blocks[x] for x in bl[1:]}))
            for x in bl: fof[x]=fn
    # CFG by listing rule
    rets={}  # fname -> list of blocks with ret
    for i,(name,insns) in enumerate(listing):
        b=blocks[name]; last=insns[-1]; nxt=blocks[names[i+1]] if i+1<len(names) else None
        k= last[0] if isinstance(last,tuple) else last
        if k in('op1','op2','op3') and nxt: add_edge(ir.cfg,b,nxt,E.Fallthrough)
        if k=='jmp': add_edge(ir.cfg,b,blocks[last[1]],E.Branch)
        if k=='jcc': add_edge(ir.cfg,b,blocks[last[1]],E.Branch,conditional=True); add_edge(ir.cfg,b,nxt,E.Fallthrough)
        if k=='call': add_edge(ir.cfg,b,blocks[last[1]],E.Call); add_edge(ir.cfg,b,nxt,E.Fallthrough)
        if k=='ijmp': add_edge(ir.cfg,b,add_proxy_block(m),E.Branch,direct=False)
        if k=='icall': add_edge(ir.cfg,b,add_proxy_block(m),E.Call,direct=False); add_edge(ir.cfg,b,nxt,E.Fallthrough)
    for i,(name,insns) in enumerate(listing):
        last=insns[-1]
        if last=='ret':
            f=fof.get(name); sites=[]
            if f:
                for j,(n2,i2) in enumerate(listing):
                    l2=i2[-1]
                    if isinstance(l2,tuple) and l2[0]=='call' and fof.get(l2[1])==f: sites.append(blocks[names[j+1]])
            if sites:
                for s in sites: add_edge(ir.cfg,blocks[name],s,E.Return)
            else: add_edge(ir.cfg,blocks[name],add_proxy_block(m),E.Return)
    return ir,m,bi,blocks,syms,fobjs
def dump(ir,m,bi):
    dec=GtirbInstructionDecoder(m.isa)
    blks=sorted(bi.blocks,key=lambda b:(b.offset,b.size!=0))
    pos={}
    out=[]
    symsat={}
    for s in m.symbols:
        r=s.referent
        if isinstance(r,gtirb.ByteBlock): symsat.setdefault(r.offset+(r.size if s.at_end else 0),[]).append(s.name)
    def nm(n):
        if isinstance(n,gtirb.ProxyBlock):
            ss=[s.name for s in m.symbols if s.referent is n]; return 'proxy'+(':'+','.join(ss) if ss else '')
        return f"@{n.offset}" + ("(Z)" if n.size==0 else "")
    for b in blks:
        ins=list(dec.get_instructions(b)) if isinstance(b,gtirb.CodeBlock) and b.size else []
        desc=" ".join(f"{i.mnemonic}" for i in ins)
        edges=sorted(f"{e.label.type.name[:3]}{'c' if e.label.conditional else ''}{'' if e.label.direct else 'i'}->{nm(e.target)}" for e in getattr(b,'outgoing_edges',[]))
        fb=m.aux_data.get('functionBlocks'); fn=''
        if fb:
            for u,bs in fb.data.items():
                if b in bs:
                    fn=m.aux_data['functionNames'].data[u].name + ('*' if b in m.aux_data['functionEntries'].data[u] else '')
        print(f"   {type(b).__name__[:4]}@{b.offset}+{b.size} [{desc}] fn={fn} syms={symsat.get(b.offset,[])} -> {edges}")
    print("   endsyms", {k:v for k,v in symsat.items() if k==bi.size})
