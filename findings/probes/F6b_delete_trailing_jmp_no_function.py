import gtirb, gtirb_rewriting, sys
sys.path.insert(0,'/repo/tests')
from gtirb_test_helpers import create_test_module, add_code_block, add_data_block, add_symbol, add_text_section, add_edge, add_proxy_block
from helpers import literal_patch, add_function_object
E=gtirb.Edge.Type
def show(ir):
    for e in sorted(ir.cfg, key=lambda e:(str(e.source.uuid))):
        def n(b): return f"{type(b).__name__[:5]}@{getattr(b,'address',None)}+{getattr(b,'size','')}"
        print("   ", n(e.source), "->", n(e.target), e.label.type.name, e.label.conditional, e.label.direct)
# delete a jmp terminator
ir, m = create_test_module(gtirb.Module.FileFormat.ELF, gtirb.Module.ISA.X64)
_, bi = add_text_section(m, address=0x1000)
b3 = None
b1 = add_code_block(bi, b"\x90\xeb\x01")   # nop; jmp +1 (to b3)
b2 = add_code_block(bi, b"\x90")
b3 = add_code_block(bi, b"\xc3")
add_edge(ir.cfg, b1, b3, E.Branch)
add_edge(ir.cfg, b2, b3, E.Fallthrough)
add_edge(ir.cfg, b3, add_proxy_block(m), E.Return)
ctx = gtirb_rewriting.RewritingContext(m, [])
ctx.delete_at(b1, 1, 2)
ctx.apply()
print("delete jmp:", bytes(bi.contents).hex(), [(b.offset,b.size) for b in sorted(bi.blocks,key=lambda b:b.offset)])
show(ir)
# insert at end of block that ends in ret (no fallthrough): patch 'nop'
ir, m = create_test_module(gtirb.Module.FileFormat.ELF, gtirb.Module.ISA.X64)
_, bi = add_text_section(m, address=0x1000)
b1 = add_code_block(bi, b"\xc3")
b2 = add_code_block(bi, b"\x90\xc3")
add_edge(ir.cfg, b1, add_proxy_block(m), E.Return)
add_edge(ir.cfg, b2, add_proxy_block(m), E.Return)
ctx = gtirb_rewriting.RewritingContext(m, [])
ctx.insert_at(b1, 1, literal_patch("nop"))
ctx.apply()
print("insert after ret:", bytes(bi.contents).hex(), [(b.offset,b.size,type(b).__name__) for b in sorted(bi.blocks,key=lambda b:b.offset)])
show(ir)
