from lst import *
def run(title, listing, funcs, edits):
    ir,m,bi,B,S,F = build(listing, funcs)
    ctx=gtirb_rewriting.RewritingContext(m,F)
    for e in edits:
        if e[0]=='ins': ctx.insert_at(B[e[1]], e[2], literal_patch(e[3]))
        if e[0]=='del': ctx.delete_at(B[e[1]], e[2], e[3])
        if e[0]=='delp': ctx.delete_at(B[e[1]], e[2], e[3], retarget_to_proxy=True)
    print("==",title)
    try:
        ctx.apply(); dump(ir,m,bi)
    except Exception as ex:
        print("   EXC", type(ex).__name__, ex)
L=[('main',['op1',('call','F')]),('m2',['op1','ret']),('F',['op2','ret']),('G',['op1','op1','ret'])]
FN={'main':['main','m2'],'F':['F'],'G':['G']}
run("baseline", L, FN, [])
run("P-a insert 'call F' mid G", L, FN, [('ins','G',1,'call F')])
run("P-b insert 'ret' mid F (called from main)", L, FN, [('ins','F',2,'ret')])
run("P-c delete the call in main", L, FN, [('del','main',1,5)])
run("P-d delete whole F to proxy", L, FN, [('delp','F',0,3)])
run("P-d2 delete whole F (slide)", L, FN, [('del','F',0,3)])
run("P-f insert 'jmp G' mid m2", L, FN, [('ins','m2',1,'jmp G')])
run("P-g insert 'call G' at end of G's op (before ret)", L, FN, [('ins','G',2,'call G')])
