import gtirb, gtirb_rewriting, sys
sys.path.insert(0,'/repo/tests')
from gtirb_test_helpers import create_test_module, add_code_block, add_data_block, add_symbol, add_text_section, add_edge, add_proxy_block
from helpers import literal_patch, add_function_object
E=gtirb.Edge.Type
names={}
def show(ir):
    for e in sorted(ir.cfg, key=lambda e:(names.get(e.source,'?'))):
        print("   ", names.get(e.source,'proxy'), "->", names.get(e.target,'proxy'), e.label.type.name)
ir, m = create_test_module(gtirb.Module.FileFormat.ELF, gtirb.Module.ISA.X64)
_, bi = add_text_section(m, address=0x1000)
# main: call A ; ret     A: ret     B: ret
foo=None
main1 = add_code_block(bi, b"\xe8\x00\x00\x00\x00"); names[main1]='main1'
main2 = add_code_block(bi, b"\xc3"); names[main2]='main2'
A = add_code_block(bi, b"\xc3"); names[A]='A'
B = add_code_block(bi, b"\xc3"); names[B]='B'
symA = add_symbol(m,"A",A); symB = add_symbol(m,"B",B)
bi.symbolic_expressions[1]=gtirb.SymAddrConst(0,symA)
add_edge(ir.cfg, main1, A, E.Call); add_edge(ir.cfg, main1, main2, E.Fallthrough)
add_edge(ir.cfg, main2, add_proxy_block(m), E.Return)
add_edge(ir.cfg, A, main2, E.Return)
add_edge(ir.cfg, B, add_proxy_block(m), E.Return)
fm = add_function_object(m,"main",main1,{main2}); fa=add_function_object(m,symA,A); fb=add_function_object(m,symB,B)
ctx = gtirb_rewriting.RewritingContext(m,[fm,fa,fb])
ctx.retarget_symbol_uses(symA, symB)
ctx.apply()
show(ir)
# S5 red zone
abi = gtirb_rewriting.abi._X86_64_ELF()
c = gtirb_rewriting.Constraints(align_stack=True)
r = abi._allocate_patch_registers(c)
p,e,adj = abi._create_prologue_and_epilogue(c,r,True)
print([s.code.split() for s in p][:1], adj)
