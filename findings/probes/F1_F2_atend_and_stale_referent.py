import gtirb, gtirb_rewriting, sys
sys.path.insert(0,'/repo/tests')
from gtirb_test_helpers import create_test_module, add_code_block, add_symbol, add_text_section
from helpers import literal_patch, add_function_object

def mk():
    ir, m = create_test_module(gtirb.Module.FileFormat.ELF, gtirb.Module.ISA.X64)
    _, bi = add_text_section(m)
    return ir, m, bi

# Probe A: partial delete at offset 0 with at_end symbol
ir, m, bi = mk()
b1 = add_code_block(bi, b"\x90\x90\x90")   # 3 nops
b2 = add_code_block(bi, b"\xc3")
ir.cfg.add(gtirb.Edge(b1,b2,gtirb.Edge.Label(gtirb.Edge.Type.Fallthrough)))
s_end = gtirb.Symbol("e1", payload=b1, at_end=True, module=m)
s_start = add_symbol(m, "s1", b1)
ctx = gtirb_rewriting.RewritingContext(m, [])
ctx.delete_at(b1, 0, 1)
ctx.apply()
print("A: bytes", bi.contents, "e1 ->", s_end.referent, s_end.at_end, "addr", s_end.referent.address + (s_end.referent.size if s_end.at_end else 0))
print("   blocks", sorted((b.offset,b.size,type(b).__name__) for b in bi.blocks))

# Probe B: delete whole block then jmp to its label in later patch
ir, m, bi = mk()
b1 = add_code_block(bi, b"\x90")
b2 = add_code_block(bi, b"\x90\x90")
b3 = add_code_block(bi, b"\xc3")
ir.cfg.add(gtirb.Edge(b1,b2,gtirb.Edge.Label(gtirb.Edge.Type.Fallthrough)))
ir.cfg.add(gtirb.Edge(b2,b3,gtirb.Edge.Label(gtirb.Edge.Type.Fallthrough)))
foo = add_symbol(m, "foo", b1)
ctx = gtirb_rewriting.RewritingContext(m, [])
ctx.delete_at(b1, 0, 1)
ctx.insert_at(b3, 0, literal_patch("jmp foo"))
try:
    ctx.apply()
    print("B: ok", bi.contents, foo.referent)
except Exception as e:
    print("B: EXC", type(e).__name__, e)
print("   foo.referent after:", foo.referent, "edges", len(ir.cfg))
