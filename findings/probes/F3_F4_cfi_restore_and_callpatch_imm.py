import gtirb, gtirb_rewriting, sys, time
sys.path.insert(0,'/repo/tests')
from gtirb_test_helpers import create_test_module, add_code_block, add_data_block, add_symbol, add_text_section, add_edge, add_proxy_block
from helpers import literal_patch, add_function_object
from gtirb_rewriting.dwarf.cfi_eval import evaluate_cfi_directives
import gtirb_rewriting._auxdata as ax
NULL=ax.NULL_UUID

# C15 probe: restore of a register with no rule
ir, m = create_test_module(gtirb.Module.FileFormat.ELF, gtirb.Module.ISA.X64)
_, bi = add_text_section(m, address=0x1000)
b = add_code_block(bi, b"\x90\x90")
ax.cfi_directives.get_or_insert(m).update({
  gtirb.Offset(b,0): [(".cfi_startproc",[],NULL)],
  gtirb.Offset(b,1): [(".cfi_restore",[3],NULL)],
  gtirb.Offset(b,2): [(".cfi_endproc",[],NULL)],
})
try:
    print(list(evaluate_cfi_directives(m,[b])))
except Exception as e:
    print("C15 EXC", type(e).__name__, repr(e))

# C17 probe: ARM64 negative small int
from gtirb_rewriting.patches import CallPatch
ir, m = create_test_module(gtirb.Module.FileFormat.ELF, gtirb.Module.ISA.ARM64)
_, bi = add_text_section(m, address=0x1000)
b = add_code_block(bi, b"\x1f\x20\x03\xd5")
foo = add_symbol(m, "foo", add_proxy_block(m))
p = CallPatch(foo, [-5, 70000, -70000])
ctx = gtirb_rewriting.InsertionContext(m, None, b, 0)
print(p.get_asm(ctx))
from gtirb_rewriting.assembler import Assembler
a = Assembler(m)
try:
    a.assemble(p.get_asm(ctx)); r=a.finalize(); print("arm ok", r.text_section.data.hex())
except Exception as e:
    print("C17 arm EXC", type(e).__name__, e)

# x64 big immediate on stack
ir, m = create_test_module(gtirb.Module.FileFormat.ELF, gtirb.Module.ISA.X64)
_, bi = add_text_section(m, address=0x1000)
b = add_code_block(bi, b"\x90")
foo = add_symbol(m, "foo", add_proxy_block(m))
p = CallPatch(foo, [1,2,3,4,5,6, 2**40, -1, 2**63, 2**31])
ctx = gtirb_rewriting.InsertionContext(m, None, b, 0, stack_adjustment=None)
asm = p.get_asm(ctx); print(asm)
a = Assembler(m)
try:
    a.assemble(asm, gtirb_rewriting.X86Syntax.INTEL); r=a.finalize(); print("x64 ok", r.text_section.data.hex())
except Exception as e:
    print("C17 x64 EXC", type(e).__name__, e)

# Timing: apply with 3 patches
t=time.time(); N=50
for i in range(N):
    ir, m = create_test_module(gtirb.Module.FileFormat.ELF, gtirb.Module.ISA.X64)
    _, bi = add_text_section(m, address=0x1000)
    b1 = add_code_block(bi, b"\x90\x90\x90"); b2 = add_code_block(bi, b"\xc3")
    add_edge(ir.cfg, b1, b2, gtirb.Edge.Type.Fallthrough)
    ctx = gtirb_rewriting.RewritingContext(m, [])
    ctx.insert_at(b1, 1, literal_patch("nop; nop"))
    ctx.delete_at(b1, 2, 1)
    ctx.insert_at(b2, 0, literal_patch("ud2"))
    ctx.apply()
print("per apply ms", (time.time()-t)/N*1000)
