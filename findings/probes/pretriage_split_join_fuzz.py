import gtirb, gtirb_rewriting, sys, random
sys.path.insert(0,'/repo/tests')
from gtirb_test_helpers import create_test_module, add_text_section, add_symbol
from gtirb_rewriting import split_byte_interval, join_byte_intervals
import gtirb_rewriting._auxdata as ax
def run(seed, full_init=True):
    rnd=random.Random(seed)
    ir, m = create_test_module(gtirb.Module.FileFormat.ELF, gtirb.Module.ISA.X64)
    sect, bi = add_text_section(m, address=0x1000)
    n=rnd.randint(1,8)
    bi.contents=bytes(rnd.randrange(1,255) for _ in range(n)); bi.size=n
    if not full_init:
        extra=rnd.randint(0,3); bi.size=n+extra
    blocks=[]
    for _ in range(rnd.randint(0,3)):
        off=rnd.randint(0,bi.size); sz=rnd.randint(0,bi.size-off)
        cls=rnd.choice([gtirb.CodeBlock,gtirb.DataBlock])
        b=cls(offset=off,size=sz); b.byte_interval=bi; blocks.append(b)
    sym=add_symbol(m,"s",gtirb.ProxyBlock(module=m))
    for _ in range(rnd.randint(0,2)):
        bi.symbolic_expressions[rnd.randrange(0,max(1,bi.size))]=gtirb.SymAddrConst(0,sym)
    com=ax.comments.get_or_insert(m)
    for _ in range(rnd.randint(0,2)):
        com[gtirb.Offset(bi,rnd.randint(0,bi.size))]=f"c{_}"
    pre_bytes=bytes(bi.contents); pre_size=bi.size; pre_init=bi.initialized_size
    pre_blocks={b:(b.address, bytes(b.contents), b.size) for b in blocks}
    pre_sx={bi.address+k:v for k,v in bi.symbolic_expressions.items()}
    pre_com={bi.address+o.displacement:v for o,v in com.items()}
    desc=(n,bi.size,[(type(b).__name__[:1],b.offset,b.size) for b in blocks],sorted(k-0x1000 for k in pre_sx),sorted(k-0x1000 for k in pre_com))
    try:
        parts=split_byte_interval(bi)
    except Exception as ex:
        return ("split EXC "+type(ex).__name__, desc, str(ex))
    # check split
    for b,(a,c,s) in pre_blocks.items():
        if b.address!=a: return ("split addr", desc, (b.address,a))
        if bytes(b.contents)!=c: return ("split bytes", desc, bytes(b.contents), c)
    sx2={}
    for p in parts:
        for k,v in p.symbolic_expressions.items():
            if not (0<=k<max(p.size,1)) and p.size>0: return ("split sx out of bounds", desc,(k,p.size))
            sx2[(p.address or 0)+k]=v
    if set(sx2)!=set(pre_sx): return ("split sx keys", desc, sorted(k-0x1000 for k in sx2))
    com2={ (o.element_id.address)+o.displacement:v for o,v in com.items()}
    if com2!=pre_com: return ("split comments", desc, com2)
    if sum(p.size for p in parts)!=pre_size: return ("split total size", desc, [p.size for p in parts])
    try:
        j=join_byte_intervals(parts, b"\x90", {})
    except Exception as ex:
        return ("join EXC "+type(ex).__name__, desc, str(ex))
    if full_init:
        if bytes(j.contents)!=pre_bytes or j.size!=pre_size: return ("join bytes", desc, bytes(j.contents), pre_bytes, j.size)
        for b,(a,c,s) in pre_blocks.items():
            if b.byte_interval is not j or b.address!=a or bytes(b.contents)!=c: return ("join block", desc)
        if {j.address+k for k in j.symbolic_expressions}!=set(pre_sx): return ("join sx", desc)
        if {o.element_id.address+o.displacement:v for o,v in com.items()}!=pre_com: return ("join comments", desc, {o.element_id.address+o.displacement-0x1000:v for o,v in com.items()})
    return None
for fi in (True, False):
    bad={}
    for seed in range(6000):
        try: r=run(seed, fi)
        except Exception as ex: r=("HARNESS EXC "+type(ex).__name__+str(ex)[:60],)
        if r: bad.setdefault(r[0],[]).append(r)
    print("full_init",fi, {k:len(v) for k,v in bad.items()})
    for k,v in bad.items(): print("   ",k, min(v,key=lambda r:str(r[1]) if len(r)>1 else '')[1:4])
