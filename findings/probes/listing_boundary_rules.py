import gtirb, gtirb_rewriting, sys
sys.path.insert(0,'/repo/tests')
from gtirb_test_helpers import create_test_module, add_code_block, add_data_block, add_symbol, add_text_section, add_edge, add_proxy_block
from helpers import literal_patch, add_function_object
import gtirb_rewriting._auxdata as ax
E=gtirb.Edge.Type; NULL=ax.NULL_UUID
def mk(fn=True):
    ir, m = create_test_module(gtirb.Module.FileFormat.ELF, gtirb.Module.ISA.X64)
    _, bi = add_text_section(m, address=0x1000)
    b = add_code_block(bi, b"\x90\x66\x90")      # nop; xchg ax,ax   (sizes 1,2)
    c = add_code_block(bi, b"\x90\xc3")          # nop; ret
    add_edge(ir.cfg,b,c,E.Fallthrough); add_edge(ir.cfg,c,add_proxy_block(m),E.Return)
    s = add_symbol(m,"s",b); e = gtirb.Symbol("e",payload=b,at_end=True,module=m); t = add_symbol(m,"t",c)
    fs = [add_function_object(m,"f",b,{c})] if fn else []
    return ir,m,bi,b,c,s,e,t,fs
def addr(sym): 
    r=sym.referent
    return None if not isinstance(r,gtirb.ByteBlock) else r.address+(r.size if sym.at_end else 0)-0x1000
def report(tag, m, bi, syms):
    print(tag, bytes(bi.contents).hex(), {x.name:addr(x) for x in syms},
          "blocks", [(b.offset,b.size) for b in sorted(bi.blocks,key=lambda b:(b.offset,b.size))])
for fn in (True, False):
    ir,m,bi,b,c,s,e,t,fs = mk(fn)
    ctx=gtirb_rewriting.RewritingContext(m,fs); ctx.insert_at(b,3,literal_patch("ud2")); ctx.apply()
    report(f"fn={fn} ins@(b,end):", m,bi,[s,e,t])
    ir,m,bi,b,c,s,e,t,fs = mk(fn)
    ctx=gtirb_rewriting.RewritingContext(m,fs); ctx.insert_at(c,0,literal_patch("ud2")); ctx.apply()
    report(f"fn={fn} ins@(c,0):  ", m,bi,[s,e,t])
    ir,m,bi,b,c,s,e,t,fs = mk(fn)
    ctx=gtirb_rewriting.RewritingContext(m,fs); ctx.delete_at(b,0,3); ctx.apply()
    report(f"fn={fn} del b:      ", m,bi,[s,e,t])
    ir,m,bi,b,c,s,e,t,fs = mk(fn)
    ctx=gtirb_rewriting.RewritingContext(m,fs); ctx.insert_at(b,0,literal_patch("ud2")); ctx.apply()
    report(f"fn={fn} ins@(b,0):  ", m,bi,[s,e,t])
# annotations at boundary
ir,m,bi,b,c,s,e,t,fs = mk(True)
com = ax.comments.get_or_insert(m); com[gtirb.Offset(b,1)]="at1"; com[gtirb.Offset(bi,1)]="bi1"; com[gtirb.Offset(b,3)]="atend"
cfi = ax.cfi_directives.get_or_insert(m)
cfi[gtirb.Offset(b,0)]=[(".cfi_startproc",[],NULL)]; cfi[gtirb.Offset(b,1)]=[(".cfi_def_cfa_offset",[16],NULL)]; cfi[gtirb.Offset(c,2)]=[(".cfi_endproc",[],NULL)]
ctx=gtirb_rewriting.RewritingContext(m,fs); ctx.insert_at(b,1,literal_patch("ud2")); ctx.apply()
print("ann:", bytes(bi.contents).hex())
for o,v in ax.comments.get(m).items(): print("   comment",(type(o.element_id).__name__, getattr(o.element_id,'address',0)-0x1000, o.displacement),v)
for k,v in sorted(((o.element_id.address-0x1000, o.displacement),[d[0] for d in v]) for o,v in ax.cfi_directives.get(m).items()): print("   cfi",k,v)
