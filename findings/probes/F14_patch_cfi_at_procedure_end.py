import gtirb, gtirb_rewriting, sys
sys.path.insert(0,'/repo/tests')
from gtirb_test_helpers import create_test_module, add_code_block, add_text_section, add_edge, add_proxy_block
from helpers import literal_patch, add_function_object
import gtirb_rewriting._auxdata as ax
NULL=ax.NULL_UUID; E=gtirb.Edge.Type
def run(off):
    ir, m = create_test_module(gtirb.Module.FileFormat.ELF, gtirb.Module.ISA.X64)
    _, bi = add_text_section(m, address=0x1000)
    b = add_code_block(bi, b"\x90\x90")
    add_edge(ir.cfg,b,add_proxy_block(m),E.Fallthrough) if False else None
    f = add_function_object(m,"f",b)
    cfi = ax.cfi_directives.get_or_insert(m)
    cfi[gtirb.Offset(b,0)]=[(".cfi_startproc",[],NULL),(".cfi_def_cfa",[7,8],NULL)]
    cfi[gtirb.Offset(b,2)]=[(".cfi_endproc",[],NULL)]
    ctx=gtirb_rewriting.RewritingContext(m,[f])
    ctx.insert_at(b,off,literal_patch("pushq %rax\n.cfi_adjust_cfa_offset 8\npopq %rax\n.cfi_adjust_cfa_offset -8\n"))
    ctx.apply()
    out=sorted(((o.element_id.address-0x1000+o.displacement),[(d[0],d[1]) for d in v]) for o,v in ax.cfi_directives.get(m).items())
    print("insert at",off, bytes(bi.contents).hex()); [print("    ",x) for x in out]
for off in (0,1,2): run(off)
