import gtirb, gtirb_rewriting, sys, random, itertools
sys.path.insert(0,'/repo/tests')
from gtirb_test_helpers import create_test_module, add_data_block, add_symbol, add_text_section
RC = gtirb_rewriting._modify.ReferenceCache
def run(seed, nblk=3, nsym=3, nops=8, verbose=False):
    rnd=random.Random(seed)
    _, m = create_test_module(isa=gtirb.Module.ISA.X64, file_format=gtirb.Module.FileFormat.ELF)
    _, bi = add_text_section(m, address=0x1000)
    blocks=[add_data_block(bi,b"\0") for _ in range(nblk)]
    syms=[]; model={}
    for i in range(nsym):
        b=rnd.choice(blocks); e=rnd.random()<0.4
        s=gtirb.Symbol(f"s{i}",payload=b,at_end=e,module=m); syms.append(s); model[s]=(b,e)
    cache=RC(); log=[]
    for step in range(nops):
        op=rnd.choice(["ret","ret","ret","get","set","refs","apply","partial"])
        if op=="ret":
            a=rnd.choice(blocks); t=rnd.choice(blocks); e=rnd.random()<0.5
            log.append((op,blocks.index(a),blocks.index(t),e))
            cache.retarget_references(a,t,e)
            for s,(b,_) in list(model.items()):
                if b is a: model[s]=(t,e)
        elif op=="get":
            s=rnd.choice(syms); log.append((op,s.name))
            r=cache.get_referent(s)
            if r is not model[s][0] or s.referent is not model[s][0] or s.at_end!=model[s][1]:
                return ("get mismatch", log, s.name, blocks.index(r) if r in blocks else r, s.at_end, blocks.index(model[s][0]), model[s][1])
        elif op=="set":
            s=rnd.choice(syms); t=rnd.choice(blocks); e=rnd.random()<0.5; log.append((op,s.name,blocks.index(t),e))
            cache.set_referent(s,t,e); model[s]=(t,e)
        elif op in("refs","partial"):
            b=rnd.choice(blocks); log.append((op,blocks.index(b)))
            it=cache.get_references(b)
            if op=="partial":
                got=list(itertools.islice(it,1)); 
                exp={s for s,(bb,_) in model.items() if bb is b}
                if not set(got)<=exp: return ("partial mismatch", log)
                for s in got:
                    if (s.referent,s.at_end)!=model[s]: return ("partial sym state mismatch", log, s.name)
                del it
            else:
                got=list(it); exp={s for s,(bb,_) in model.items() if bb is b}
                if set(got)!=exp or len(got)!=len(exp): return ("refs mismatch", log, [s.name for s in got],[s.name for s in exp])
                for s in got:
                    if (s.referent,s.at_end)!=model[s]: return ("refs sym state mismatch", log, s.name, s.at_end, model[s][1])
        elif op=="apply":
            log.append((op,)); cache.apply()
            for s in syms:
                if (s.referent,s.at_end)!=model[s]: return ("apply mismatch", log, s.name)
    try:
        cache.apply()
    except Exception as ex:
        return ("final apply exc", log, repr(ex))
    for s in syms:
        if (s.referent,s.at_end)!=model[s]: return ("final mismatch", log, s.name, s.at_end, model[s][1])
    return None
bad={}
for seed in range(20000):
    try:
        r=run(seed)
    except Exception as ex:
        r=("EXC "+type(ex).__name__+": "+str(ex)[:80],)
    if r:
        bad.setdefault(r[0],[]).append((seed,r))
for k,v in bad.items():
    print(k, len(v)); print("   e.g.", min(v,key=lambda x:len(x[1][1]) if len(x[1])>1 else 99)[1])
print("done")
