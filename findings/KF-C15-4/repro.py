"""KF-C15-4: the default return-address column of a fresh procedure state is
32 on ARM64 and on MIPS32 (abi.py default_dwarf_eh_return_column).  The CIEs
assemblers emit for these targets use 30 (x30 / LR) on AArch64 and 31 ($ra) on
MIPS o32:
    printf 'f:\n.cfi_startproc\nnop\n.cfi_endproc\n' | llvm-mc -triple=aarch64-linux-gnu \
        -filetype=obj -o t.o && llvm-dwarfdump --eh-frame t.o | grep 'Return address'
      -> Return address column: 30        (mips-linux-gnu -> 31, x86_64 -> 16)
A client that looks up the return-address rule as
state.current.registers[state.return_column] finds nothing, because the
directives taken from .eh_frame (`.cfi_offset 30, -8` ...) use the real column.
Run: /venv/bin/python repro.py   (exit 1 = defect present)"""
import shutil
import subprocess
import sys
import tempfile

import gtirb
from gtirb_test_helpers import add_code_block, add_text_section, create_test_module

from gtirb_rewriting._auxdata import NULL_UUID
from gtirb_rewriting.dwarf.cfi_eval import evaluate_cfi_directives

EXPECTED = {"arm64": (gtirb.Module.ISA.ARM64, "aarch64-linux-gnu", 30),
            "mips32": (gtirb.Module.ISA.MIPS32, "mips-linux-gnu", 31),
            "x64": (gtirb.Module.ISA.X64, "x86_64-linux-gnu", 16)}
bad = 0
for name, (isa, triple, col) in EXPECTED.items():
    _, m = create_test_module(gtirb.Module.FileFormat.ELF, isa)
    _, bi = add_text_section(m, address=0x1000)
    b = add_code_block(bi, b"\0\0\0\0")
    m.aux_data["cfiDirectives"].data[gtirb.Offset(b, 0)] = [(".cfi_startproc", [], NULL_UUID)]
    (_, _, st), = evaluate_cfi_directives(m, [b])
    ref = ""
    if shutil.which("llvm-mc") and shutil.which("llvm-dwarfdump"):
        with tempfile.TemporaryDirectory() as d:
            subprocess.run(["llvm-mc", f"-triple={triple}", "-filetype=obj", "-o", d + "/t.o"],
                           input=b"f:\n.cfi_startproc\nnop\n.cfi_endproc\n", check=True)
            out = subprocess.run(["llvm-dwarfdump", "--eh-frame", d + "/t.o"],
                                 capture_output=True, text=True).stdout
            ref = [ln.strip() for ln in out.splitlines() if "Return address column" in ln][0]
    print(f"{name}: evaluator default return column = {st.return_column}; expected {col}; llvm: {ref}")
    bad += st.return_column != col
if bad:
    print("DEFECT PRESENT: default DWARF EH return column differs from the target's CIE")
    sys.exit(1)
print("not reproduced")
sys.exit(0)
