"""KF-C18-2: on MIPS32 the operand of `jal` is not recognised as control
flow (capstone puts jal in neither CS_GRP_JUMP nor CS_GRP_CALL, which is what
_sym_expr_access_type tests), so retargeting `jal A` to B rewrites the
expression but leaves the Call edge on A's block; for the same reason
retargeting `jal A` into a data block is not refused with AmbiguousIRError.

Run:  /venv/bin/python /verif/findings/KF-C18-2/repro.py
Exits 1 while the defect is present, 0 otherwise.
"""
import sys

import gtirb
from gtirb_test_helpers import (add_code_block, add_edge, add_proxy_block,
                                add_symbol, add_text_section, create_test_module)

import gtirb_rewriting

E = gtirb.Edge.Type


def w(x):
    return x.to_bytes(4, "big")


def build(kind):
    ir, m = create_test_module(gtirb.Module.FileFormat.ELF, gtirb.Module.ISA.MIPS32,
                               byte_order=gtirb.Module.ByteOrder.Big)
    _, bi = add_text_section(m, address=0x1000)
    insn = {"jal": 0x0C000000, "j": 0x08000000}[kind]
    site = add_code_block(bi, w(insn) + w(0))          # jal/j A ; nop (delay slot)
    after = add_code_block(bi, w(0x03E00008) + w(0))   # jr $ra ; nop
    blkA = add_code_block(bi, w(0x03E00008) + w(0))
    blkB = add_code_block(bi, w(0x03E00008) + w(0))
    symA = add_symbol(m, "A", blkA)
    symB = add_symbol(m, "B", blkB)
    bi.symbolic_expressions[0] = gtirb.SymAddrConst(0, symA)
    add_edge(ir.cfg, site, blkA, E.Call if kind == "jal" else E.Branch)
    if kind == "jal":
        add_edge(ir.cfg, site, after, E.Fallthrough)
    ctx = gtirb_rewriting.RewritingContext(m, [])
    ctx.retarget_symbol_uses(symA, symB)
    ctx.apply()
    expr = bi.symbolic_expressions[0]
    tgt = [e.target for e in site.outgoing_edges if e.label.type in (E.Call, E.Branch)][0]
    return expr.symbol.name, ("A" if tgt is blkA else "B" if tgt is blkB else "?")


bad = False
for kind in ("j", "jal"):
    operand, edge = build(kind)
    print(f"{kind:4s} A  retargeted to B: operand now names {operand}, control-flow edge leads to {edge}")
    if operand == "B" and edge != "B":
        bad = True
if bad:
    print("DEFECT PRESENT: the call edge of `jal` did not follow the retargeted operand")
    sys.exit(1)
sys.exit(0)
