"""KF-C07-1: a scope that designates a zero-sized code block makes apply() crash.

AllBlocksScope / AllFunctionsScope match every code block (of the selected functions),
including zero-sized ones (GTIRB allows them, and gtirb-rewriting itself leaves
one behind, see doc/Deletion.md, e.g. when the only block of a section is
deleted while a label still points at it).  Resolving or applying the insertion for such a block fails:

 * BlockPosition.EXIT / ANYWHERE -> ValueError from capstone ("Buffer size too
   small") in _ModificationStore.resolve_offsets (decoding an empty block);
 * BlockPosition.ENTRY -> AssertionError (`assert block.size`) in
   _modify/edit.py:insert.

Neither is a documented refusal, and the module is left half rewritten (the
blocks before the empty one already carry their patches).

Run:  /venv/bin/python /verif/findings/KF-C07-1/repro.py      (exit 0 = reproduced)
"""
import sys

import gtirb
from gtirb_test_helpers import (
    add_code_block,
    add_section,
    add_text_section,
    create_test_module,
)

import gtirb_rewriting
from gtirb_rewriting import (
    AllBlocksScope,
    BlockPosition,
    Pass,
    PassManager,
    Patch,
    RewritingContext,
    patch_constraints,
)


def module_with_empty_block(via_rewriting: bool):
    ir, m = create_test_module(gtirb.Module.FileFormat.ELF, gtirb.Module.ISA.X64)
    _, bi = add_text_section(m, address=0x1000)
    b1 = add_code_block(bi, b"\x31\xc0\x31\xc9")  # xor eax,eax ; xor ecx,ecx
    if via_rewriting:
        # the library's own way of producing an empty block (doc/Deletion.md):
        # delete the only block of a section while a symbol refers to it
        _, bi2 = add_section(m, ".text.tail", address=0x2000)
        b2 = add_code_block(bi2, b"\x90")
        gtirb.Symbol("tail", payload=b2, module=m)
        ctx = RewritingContext(m, [])
        ctx.delete_at(b2, 0, b2.size)
        ctx.apply()
    else:
        b2 = gtirb.CodeBlock(offset=bi.size, size=0)
        bi.blocks.add(b2)
        gtirb.Symbol("tail", payload=b2, module=m)
        ir.cfg.add(gtirb.Edge(b1, b2, gtirb.Edge.Label(gtirb.Edge.Type.Fallthrough)))
    empties = [b for b in m.code_blocks if b.size == 0]
    return ir, m, empties


class P(Pass):
    def __init__(self, position):
        self.position = position
        self.calls = 0

    def begin_module(self, module, functions, rewriting_ctx):
        @patch_constraints()
        def marker(ctx):
            self.calls += 1
            return "nop"

        rewriting_ctx.register_insert(
            AllBlocksScope(self.position), Patch.from_function(marker)
        )


def attempt(via_rewriting, position):
    ir, m, empties = module_with_empty_block(via_rewriting)
    before = sum(len(bi.contents) for s in m.sections for bi in s.byte_intervals)
    pm = PassManager()
    p = P(position)
    pm.add(p)
    try:
        pm.run(ir)
        exc = None
    except BaseException as e:  # noqa
        exc = e
    after = sum(len(bi.contents) for s in m.sections for bi in s.byte_intervals)
    print(f"empty blocks via {'delete_at' if via_rewriting else 'IR'}: {len(empties)}; "
          f"{position.name}: {type(exc).__name__ if exc else 'ok'}"
          f"{' (' + str(exc)[:60] + ')' if exc else ''}; bytes {before} -> {after}; "
          f"patch invoked {p.calls}x")
    return len(empties), exc, before != after


def main():
    hits = 0
    for via in (False, True):
        for pos in (BlockPosition.ENTRY, BlockPosition.EXIT, BlockPosition.ANYWHERE):
            n, exc, changed = attempt(via, pos)
            if n and isinstance(exc, (AssertionError, ValueError)):
                hits += 1
    print("REPRODUCED" if hits else "not reproduced", hits)
    return 0 if hits else 1


if __name__ == "__main__":
    sys.exit(main())
