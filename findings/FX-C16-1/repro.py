"""KF-C16-1 (F5, property C16): x86-64 ELF, possibly-leaf function, align_stack
alone: the generated prologue does not skip the 128-byte red zone, its first
instruction `pushq %rax` stores at rsp-8, i.e. inside the red zone of the leaf
function.  Run: /venv/bin/python findings/KF-C16-1/repro.py   (exit 0 = reproduced)"""
import sys
import gtirb_rewriting
from gtirb_rewriting.abi import _X86_64_ELF

abi = _X86_64_ELF()
cons = gtirb_rewriting.Constraints(align_stack=True)
regs = abi._allocate_patch_registers(cons)
prologue, epilogue, adj = abi._create_prologue_and_epilogue(cons, regs, True)  # is_leaf_function
lines = [ln.strip() for s in prologue for ln in s.code.strip().splitlines()]
print("prologue:", lines)
first = lines[0]
skipped = first.startswith("leaq") and "-128(%rsp)" in first
# for comparison: with anything to save the skip is there
cons2 = gtirb_rewriting.Constraints(align_stack=True, clobbers_flags=True)
p2, _, _ = abi._create_prologue_and_epilogue(cons2, abi._allocate_patch_registers(cons2), True)
print("with clobbers_flags:", [ln.strip() for s in p2 for ln in s.code.strip().splitlines()][:2])
if not skipped and first.startswith("pushq"):
    print("REPRODUCED: first instruction of the prologue is", repr(first),
          "-> writes [rsp-8, rsp) which lies in the red zone [rsp-128, rsp)")
    sys.exit(0)
print("not reproduced")
sys.exit(1)
