"""KF-C02-1: no function tables; end-label e1 of block b1; the tail of b1 is
deleted and the next block is deleted with retarget_to_proxy -> e1 ends up on
the proxy (it should still mark the end of b1)."""
import os, sys
sys.path.insert(0, os.path.dirname(os.path.dirname(os.path.abspath(__file__))))
from common.g1case import blk, run, show
tr = run([blk("code", [["op", 2, 1], ["op", 3, 2]], "b1", esyms=["e1"]),
          blk("code", [["op", 2, 3], ["op", 3, 4]], "b2")],
         [{"op": "del", "sec": 0, "blk": 0, "off": 2, "len": 3},
          {"op": "del", "sec": 0, "blk": 1, "off": 0, "len": 5, "proxy": True}])
show(tr)
e1 = [s for s in tr["post"]["syms"] if s["n"] == "e1"][0]
if e1["k"] != "blk":
    print("DEFECT: e1 is", e1["k"], "- expected at the end of b1 (offset 2)")
    sys.exit(1)
# second trigger: function tables present, the edit at the end of b1 is a patch ending in a label
tr = run([blk("code", [["op", 2, 1], ["op", 3, 2]], "b1", fn="b1", entry=True, esyms=["e1"]),
          blk("code", [["op", 2, 3], ["op", 3, 4]], "b2", fn="b1"),
          blk("code", [["op", 2, 5], ["op", 3, 6]], "b3", fn="b1")],
         [{"op": "ins", "sec": 0, "blk": 0, "off": 5, "len": 0, "patch": {"kind": "fwd", "k": 1, "tgt": "b1"}},
          {"op": "del", "sec": 0, "blk": 1, "off": 0, "len": 5, "proxy": True}])
show(tr)
bad = [s for s in tr["post"]["syms"] if s["n"] in ("e1", ".Ly_1") and s["k"] != "blk"]
if bad:
    print("DEFECT:", [(s["n"], s["k"]) for s in bad], "- expected at the end of b1 / of the patch")
    sys.exit(1)
print("ok")
