"""KF-C18-1 (DESIGN 6.2 F7): retargeting `call A` to B moves the call edge
only; A's function still returns to the call site and B's function still
returns to a proxy.

Run:  /venv/bin/python /verif/findings/KF-C18-1/repro.py
Exits 1 (and prints the CFG) while the defect is present, 0 when the return
edges follow the call.
"""
import sys
import uuid

import gtirb
import gtirb_functions
from gtirb_test_helpers import (add_code_block, add_edge, add_proxy_block,
                                add_symbol, add_text_section, create_test_module)

import gtirb_rewriting

E = gtirb.Edge.Type
ir, m = create_test_module(gtirb.Module.FileFormat.ELF, gtirb.Module.ISA.X64)
_, bi = add_text_section(m, address=0x1000)
# main: call A ; ret        A: ret        B: ret
main1 = add_code_block(bi, b"\xe8\x00\x00\x00\x00")
main2 = add_code_block(bi, b"\xc3")
blkA = add_code_block(bi, b"\xc3")
blkB = add_code_block(bi, b"\xc3")
names = {main1: "main1", main2: "main2(return site)", blkA: "A", blkB: "B"}
symMain = add_symbol(m, "main", main1)
symA = add_symbol(m, "A", blkA)
symB = add_symbol(m, "B", blkB)
bi.symbolic_expressions[1] = gtirb.SymAddrConst(0, symA)
add_edge(ir.cfg, main1, blkA, E.Call)
add_edge(ir.cfg, main1, main2, E.Fallthrough)
add_edge(ir.cfg, main2, add_proxy_block(m), E.Return)
add_edge(ir.cfg, blkA, main2, E.Return)              # A returns to the call site
add_edge(ir.cfg, blkB, add_proxy_block(m), E.Return)  # nobody calls B yet
fns = []
for i, (sym, entry, blocks) in enumerate([(symMain, main1, {main1, main2}), (symA, blkA, {blkA}), (symB, blkB, {blkB})]):
    u = uuid.UUID(int=100 + i)
    m.aux_data["functionNames"].data[u] = sym
    m.aux_data["functionEntries"].data[u] = {entry}
    m.aux_data["functionBlocks"].data[u] = set(blocks)
    fns.append(gtirb_functions.Function(u, {entry}, set(blocks), [sym]))

ctx = gtirb_rewriting.RewritingContext(m, fns)
ctx.retarget_symbol_uses(symA, symB)
ctx.apply()

edges = sorted((names.get(e.source, "proxy"), e.label.type.name, names.get(e.target, "proxy")) for e in ir.cfg)
for e in edges:
    print("  %-20s %-12s %s" % e)
call_moved = ("main1", "Call", "B") in edges
b_returns = ("B", "Return", "main2(return site)") in edges
a_still_returns = ("A", "Return", "main2(return site)") in edges
print("call edge moved to B:", call_moved)
print("B returns to the call site:", b_returns)
print("A still returns to the call site:", a_still_returns)
if call_moved and (not b_returns or a_still_returns):
    print("DEFECT PRESENT: return edges did not follow the retargeted call")
    sys.exit(1)
sys.exit(0)
