"""FX-C11-1 (repaired by the fix commit named in known_findings.json): a module with an
empty code block at the address of the following block: [b1: op; ret][b2: (empty)][b3: op; op];
b3 is deleted with retarget_to_proxy.  Before the fix split_byte_interval sorted the blocks of
an interval by offset only, so whether the empty block got an interval of its own or shared
b3's depended on the iteration order of a set: under some PYTHONHASHSEED values label b2
ended up 3 bytes IN FRONT of the section (the empty block was shifted by the deletion)."""
import json, os, subprocess, sys
HERE = os.path.dirname(os.path.abspath(__file__))
PROG = r'''
import json, sys
sys.path.insert(0, %r)
from common.g1case import blk, run
tr = run([blk("code", [["op", 1, 11], ["ret"]], "b1"),
          {"kind": "code", "units": [], "syms": ["b2"], "esyms": [], "fn": "", "entry": False, "ann": [], "cfi": []},
          blk("code", [["op", 2, 31], ["op", 3, 32]], "b3")],
         [{"op": "del", "sec": 0, "blk": 2, "off": 0, "len": 5, "proxy": True}])
print(json.dumps([(s["n"], s["k"], s["p"]) for s in tr["post"]["syms"]]))
''' % os.path.dirname(HERE)
seen = {}
for hs in ("0", "1", "2", "3", "7", "13", "4242"):
    out = subprocess.run(["/venv/bin/python", "-c", PROG], capture_output=True, text=True,
                         env=dict(os.environ, PYTHONHASHSEED=hs, GTIRB_REWRITING_VERIF="1"))
    seen.setdefault(out.stdout.strip() or out.stderr[-200:], []).append(hs)
for k, v in seen.items():
    print("PYTHONHASHSEED", v, "->", k)
if len(seen) != 1:
    print("DEFECT: the result depends on the hash seed")
    sys.exit(1)
print("ok")
