#!/bin/sh
# Unbounded (in the number of contexts) safety of the leafFunctions table model: Apalache
# discharges the inductive invariant of spec/MC_LeafHistInd.tla.  Not part of a registered check.
cd "$(dirname "$0")/../spec" || exit 2
O=$(mktemp -d /tmp/apa-XXXX)
timeout 600 apalache-mc check --init=Init --inv=IndInv --length=0 --out-dir=$O MC_LeafHistInd.tla | grep -E "outcome|error|Checker reports" ; R1=$?
timeout 600 apalache-mc check --init=IndInit --inv=IndInv --length=1 --out-dir=$O MC_LeafHistInd.tla | grep -E "outcome|error|Checker reports"; R2=$?
rm -rf $O
