# development helper (tools/coverage_survey.sh): starts coverage.py in every python
# subprocess when COVERAGE_PROCESS_START is set.  Not used by any registered check.
import os
if os.environ.get("COVERAGE_PROCESS_START"):
    try:
        import coverage
        coverage.process_startup()
    except Exception:  # pragma: no cover
        pass
