#!/bin/sh
# development helper: which lines / branches of the library do the quick checks execute at all?
# usage: tools/coverage_survey.sh <outdir> <prop> [<prop> ...]
# Runs each check (quick tier) from a private snapshot with coverage.py active in every python
# subprocess; leaves <outdir>/<prop>.json (coverage json report, with branch data) and
# <outdir>/<prop>.log.  A line no check executes is a blind spot: no change there can be seen.
OUT=$1; shift
mkdir -p $OUT
for P in "$@"; do
  S=$(mktemp -d /tmp/cov-$P-XXXX)
  rsync -a --exclude .git --exclude replays --exclude seeded --exclude evidence /verif/ $S/
  cat > $S/.coveragerc <<EOC
[run]
branch = True
parallel = True
data_file = $S/.covdata/cov
source = /repo/src/gtirb_rewriting
EOC
  mkdir -p $S/.covdata
  (cd $S && COVERAGE_PROCESS_START=$S/.coveragerc PYTHONPATH=$S/tools/covsite VERIF_NO_EVIDENCE=1 ./check $P --tier quick) > $OUT/$P.log 2>&1
  echo "$P rc=$? $(tail -1 $OUT/$P.log | cut -c1-150)"
  (cd $S && /venv/bin/python -m coverage combine --rcfile=$S/.coveragerc -q >/dev/null 2>&1; \
   /venv/bin/python -m coverage json --rcfile=$S/.coveragerc --data-file=$S/.covdata/cov -o $OUT/$P.json -q >/dev/null 2>&1)
  rm -rf $S
done
