#!/bin/sh
# verify_seed.sh <property> <dir with patch.diff + demo.py> [check property ...]
# Confirms a seeded change in a scratch worktree (tests pass, demo fails with it and
# passes without), then runs the given checks (default: the property's own) against it.
# Nothing is applied to /repo; the checks see the mutant through PYTHONPATH.
P=$1; D=$2; shift 2
CHECKS="${*:-$P}"
W=/tmp/ver/$P-$(basename $D)
rm -rf $W; git -C /repo worktree prune; git -C /repo worktree add -q $W HEAD || exit 2
cp /repo/src/gtirb_rewriting/version.py $W/src/gtirb_rewriting/version.py
cd $W
PYTHONPATH=$W/src /venv/bin/python $D/demo.py > $W.demo0.log 2>&1; R0=$?
git apply $D/patch.diff || { echo "PATCH DOES NOT APPLY"; git -C /repo worktree remove --force $W; exit 2; }
PYTHONPATH=$W/src /venv/bin/python -m pytest -q -p no:cacheprovider tests --deselect tests/test_e2e.py > $W.tests.log 2>&1; RT=$?
PYTHONPATH=$W/src /venv/bin/python $D/demo.py > $W.demo1.log 2>&1; R1=$?
echo "demo_unchanged=$R0 tests_with_patch=$RT ($(tail -1 $W.tests.log)) demo_with_patch=$R1"
# run the checks from a snapshot of /verif, so that edits made meanwhile do not disturb them
SNAP=$W.verif
rm -rf $SNAP; mkdir -p $SNAP
rsync -a --exclude .git --exclude .work --exclude replays --exclude evidence --exclude seeded /verif/ $SNAP/
cd $SNAP
for C in $CHECKS; do
  VERIF_NO_EVIDENCE=1 PYTHONPATH=$W/src ./check $C --tier quick > /tmp/ver/check-$P-$(basename $D)-$C.log 2>&1; RC=$?
  echo "check $C rc=$RC violations=$(grep -c '^VIOLATION' /tmp/ver/check-$P-$(basename $D)-$C.log) $(grep '^VIOLATION' -A1 /tmp/ver/check-$P-$(basename $D)-$C.log | sed -n 2p | cut -c1-160)"
  tail -1 /tmp/ver/check-$P-$(basename $D)-$C.log | cut -c1-200
done
cd /verif; rm -rf $SNAP
git -C /repo worktree remove --force $W; rm -f $W.demo0.log $W.tests.log $W.demo1.log
