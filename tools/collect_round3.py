"""Collects the third round of seeded changes (sub-agents seed3-Cxx; outputs in
/tmp/seed3/out/<prop>-m<k>/, verification outputs of tools/verify_seed.sh in
/tmp/ver/first/res-<id>.txt (first verification) and /tmp/ver/res-<id>.txt (latest)) into
seeded/<id>/ and appends the round to seeded/README.md."""
import glob
import json
import os
import shutil
import sys

sys.path.insert(0, os.path.dirname(os.path.abspath(__file__)))
from collect_seeded import parse_result, VERIF  # noqa: E402

OUT = "/tmp/seed3/out"
VER = "/tmp/ver"
MARK = "\n## Round 3\n"


def main():
    root = os.path.join(VERIF, "seeded")
    rdir = os.path.join(root, "results")
    rows = []
    for d in sorted(glob.glob(os.path.join(OUT, "C*-m*"))):
        cid = os.path.basename(d)
        prop = cid.split("-")[0]
        first_p = os.path.join(VER, "first", f"res-{cid}.txt")
        last_p = os.path.join(VER, f"res-{cid}.txt")
        a = parse_result(first_p)
        b = parse_result(last_p) if os.path.exists(last_p) else a
        conf = b if b["demo_unchanged"] is not None else a
        confirmed = (conf["demo_unchanged"] == 0 and conf["tests_with_patch"] == 0
                     and conf["demo_with_patch"] == 1)
        dst = os.path.join(root, cid)
        os.makedirs(dst, exist_ok=True)
        for f in ("patch.diff", "demo.py", "notes.md"):
            if os.path.exists(os.path.join(d, f)):
                shutil.copy(os.path.join(d, f), os.path.join(dst, f))
        for src, tag in ((first_p, "first"), (last_p, "latest")):
            if os.path.exists(src):
                shutil.copy(src, os.path.join(rdir, f"r-{cid}.{tag}.txt"))
        notes = open(os.path.join(d, "notes.md")).read() if os.path.exists(os.path.join(d, "notes.md")) else ""
        checks = dict(a["checks"])
        checks.update(b["checks"])
        caught = sorted(c for c, r in checks.items() if r["rc"] == 1)
        missed = sorted(c for c, r in checks.items() if r["rc"] == 0)
        meta = {
            "property": prop, "round": 3,
            "what_it_breaks_and_needs": notes.strip()[:2500],
            "confirmed": {"demo_on_unchanged_tree_exit": conf["demo_unchanged"],
                          "repo_tests_with_patch": conf.get("tests_summary", ""),
                          "demo_with_patch_exit": conf["demo_with_patch"]},
            "ran": [f"tools/verify_seed.sh {prop} <dir> " + " ".join(sorted(checks))],
            "checks": checks, "checks_at_first_verification": a["checks"],
            "caught_by": caught, "not_caught_by": missed,
            "machinery_failure": sorted(c for c, r in checks.items() if r["rc"] not in (0, 1)),
        }
        with open(os.path.join(dst, "meta.json"), "w") as f:
            json.dump(meta, f, indent=1)
        first = notes.strip().splitlines()[0][:110] if notes.strip() else ""
        c0 = ", ".join(sorted(c for c, r in a["checks"].items() if r["rc"] == 1)) or "-"
        rows.append(f"| {cid} | {'confirmed' if confirmed else 'NOT CONFIRMED'} | {c0} | "
                    f"{', '.join(caught) or '-'} | {', '.join(missed) or '-'} | {first} |")
    readme = os.path.join(root, "README.md")
    text = open(readme).read()
    if MARK in text:
        text = text[: text.index(MARK)]
    text = text.rstrip("\n") + "\n" + MARK + (
        "\nThird round (one sub-agent per property, two changes each, told which changes already existed).\n\n"
        "| change | confirmed | caught first | caught now | not caught now | note |\n|---|---|---|---|---|---|\n"
        + "\n".join(rows) + "\n")
    with open(readme, "w") as f:
        f.write(text)
    print(len(rows), "changes of round 3 collected")


if __name__ == "__main__":
    main()
