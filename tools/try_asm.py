"""development helper: sample cases of one Asm.tla config (or an already generated case file),
run them through the real assembler and print the verdict summary (no evidence, no replays).
usage: PYTHONPATH=/verif /venv/bin/python tools/try_asm.py <cfg|cases.ndjson> <n> <C12|C13>"""
import collections, json, os, random, sys
from harness import core, tlc
from harness.props import c12

cfg, n, prop = sys.argv[1], int(sys.argv[2]), sys.argv[3]
wd = tlc.workdir("tryasm")
part = cfg
if not os.path.exists(cfg):
    part = os.path.join(wd, "part.ndjson")
    res = tlc.generate("Asm.tla", cfg, "CASE", part, timeout=1800)
    print("generated", res.get("emitted"), "states", res.get("distinct"))
cases = os.path.join(wd, "cases.ndjson")
with open(cases, "w") as out:
    c12.sample_cases(part, out, n, random.Random(1), prop, "quick", 0)
shards = core.split_file(cases, 8, wd, "cases")
traces = core.run_module_parallel("harness.asm.runner", shards, wd, "asm")
verdicts = tlc.validate_sharded("TraceAsm.tla", "TraceAsm.cfg", traces, jobs=8)
dom = collections.Counter(); failed = collections.Counter(); ex = {}; drift = collections.Counter()
for v in verdicts:
    for c in v["indomain"]: dom[c] += 1
    if v.get("drift"): drift[str(v["drift"][:2])[:80]] += 1
    for f in v["failed"]:
        key = (f["clause"], tuple(f.get("kf", [])))
        failed[key] += 1
        ex.setdefault(key, (v["id"], json.dumps(f.get("diff"))[:400]))
print("verdicts", len(verdicts), "drift", dict(drift))
for c, k in sorted(dom.items()): print("  dom", c, k)
for key, k in sorted(failed.items()): print("  FAILED", key, k, ex[key])
if "--keep" in sys.argv: print(wd)
else: tlc.cleanup(wd)
