"""development helper: generate the cases of one GenG1 config, run a seeded sample through the
real library and print the verdict summary (no evidence, no replays).
usage: PYTHONPATH=/verif /venv/bin/python tools/try_cfg.py <cfg> <n> [prop-prefix]"""
import collections, json, os, random, sys
from harness import core, tlc
from harness.props import g1

cfg, n = sys.argv[1], int(sys.argv[2])
pre = sys.argv[3] if len(sys.argv) > 3 else "C"
wd = tlc.workdir("try")
part = os.path.join(wd, "part.ndjson")
if os.path.exists(cfg):      # an already generated case file
    part = cfg
else:
    res = tlc.generate("GenG1.tla", cfg, "CASE", part, timeout=1800)
    print("generated", res.get("emitted"), "states", res.get("distinct"))
cases = os.path.join(wd, "cases.ndjson")
k = g1.sample_cases(part, cases, n, random.Random(1), "try")
shards = core.split_file(cases, 8, wd, "cases")
traces = core.run_module_parallel("harness.g1.runner", shards, wd, "g1")
verdicts = tlc.validate_sharded("TraceG1.tla", "TraceG1.cfg", traces, jobs=8)
dom = collections.Counter(); failed = collections.Counter(); ex = {}
excs = collections.Counter()
for v in verdicts:
    excs[v.get("exc", "")[:60]] += 1
    for c in v["indomain"]:
        if c.startswith(pre): dom[c] += 1
    for f in v["failed"]:
        if f["clause"].startswith(pre):
            key = (f["clause"], tuple(f.get("kf", [])))
            failed[key] += 1
            ex.setdefault(key, (v["id"], json.dumps(f.get("diff"))[:1800]))
print("verdicts", len(verdicts)); print("exceptions", dict(excs))
for c, k in sorted(dom.items()): print("  dom", c, k)
for key, k in sorted(failed.items()): print("  FAILED", key, k, ex[key])
if "--keep" not in sys.argv: tlc.cleanup(wd)
else: print(wd)
