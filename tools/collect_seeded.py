"""Collects the verified seeded changes into /verif/seeded/<prop>-<m>/ :
patch.diff, demo.py, notes.md (from the sub-agent), meta.json (what it breaks,
what it needs, what was run and which checks caught it) and writes
seeded/README.md.  Inputs: /tmp/seed/<prop>/out/<m>/ and /tmp/ver/r-<prop>-<m>.txt
(the output of tools/verify_seed.sh)."""
import glob
import json
import os
import re
import shutil
import sys

VERIF = os.path.dirname(os.path.dirname(os.path.abspath(__file__)))
SEED = "/tmp/seed"
VER = "/tmp/ver"


def parse_result(path):
    res = {"demo_unchanged": None, "tests_with_patch": None, "demo_with_patch": None, "checks": {}}
    if not os.path.exists(path):
        return res
    for line in open(path):
        m = re.match(r"demo_unchanged=(\d+) tests_with_patch=(\d+) \((.*?)\) demo_with_patch=(\d+)", line)
        if m:
            res["demo_unchanged"] = int(m.group(1))
            res["tests_with_patch"] = int(m.group(2))
            res["tests_summary"] = m.group(3)
            res["demo_with_patch"] = int(m.group(4))
        m = re.match(r"check (C\d+) rc=(\d+) violations=(\d+)\s*(.*)", line)
        if m:
            res["checks"][m.group(1)] = {"rc": int(m.group(2)), "violation_lines": int(m.group(3)),
                                         "first": m.group(4).strip()[:200]}
    return res


def merge_history(prop, m, out_root):
    """First recorded verification (seeded/results/r-<id>.first.txt, kept from the first
    collection on) and the latest one (/tmp/ver, copied to r-<id>.latest.txt)."""
    rdir = os.path.join(out_root, "results")
    os.makedirs(rdir, exist_ok=True)
    cur = os.path.join(VER, f"r-{prop}-{m}.txt")
    first = os.path.join(rdir, f"r-{prop}-{m}.first.txt")
    latest = os.path.join(rdir, f"r-{prop}-{m}.latest.txt")
    legacy = os.path.join(rdir, f"r-{prop}-{m}.txt")
    if os.path.exists(legacy) and not os.path.exists(first):
        os.rename(legacy, first)
    elif os.path.exists(legacy):
        os.remove(legacy)
    if os.path.exists(cur):
        if not os.path.exists(first):
            shutil.copy(cur, first)
        shutil.copy(cur, latest)
    a = parse_result(first)
    b = parse_result(latest) if os.path.exists(latest) else a
    res = dict(b)
    if res["demo_unchanged"] is None:
        for k in ("demo_unchanged", "tests_with_patch", "tests_summary", "demo_with_patch"):
            if k in a:
                res[k] = a[k]
    res["first_checks"] = a["checks"]
    merged = dict(a["checks"])
    merged.update({c: r for c, r in b["checks"].items() if r["rc"] in (0, 1) or c not in merged})
    res["checks"] = merged
    return res


def main():
    out_root = os.path.join(VERIF, "seeded")
    os.makedirs(out_root, exist_ok=True)
    rows = []
    for d in sorted(glob.glob(os.path.join(SEED, "C*", "out", "m*"))):
        prop = d.split("/")[3]
        m = os.path.basename(d)
        res = merge_history(prop, m, out_root)
        confirmed = (res["demo_unchanged"] == 0 and res["tests_with_patch"] == 0 and res["demo_with_patch"] == 1)
        if not confirmed:
            rows.append((prop, m, "NOT CONFIRMED", res, ""))
            continue
        dst = os.path.join(out_root, f"{prop}-{m}")
        os.makedirs(dst, exist_ok=True)
        for f in ("patch.diff", "demo.py", "notes.md"):
            if os.path.exists(os.path.join(d, f)):
                shutil.copy(os.path.join(d, f), os.path.join(dst, f))
        notes = open(os.path.join(d, "notes.md")).read() if os.path.exists(os.path.join(d, "notes.md")) else ""
        caught = sorted(c for c, r in res["checks"].items() if r["rc"] == 1)
        missed = sorted(c for c, r in res["checks"].items() if r["rc"] == 0)
        broken = sorted(c for c, r in res["checks"].items() if r["rc"] not in (0, 1))
        meta = {
            "property": prop,
            "what_it_breaks_and_needs": notes.strip()[:2500],
            "confirmed": {"demo_on_unchanged_tree_exit": res["demo_unchanged"],
                          "repo_tests_with_patch": res.get("tests_summary", ""),
                          "demo_with_patch_exit": res["demo_with_patch"]},
            "ran": [f"tools/verify_seed.sh {prop} <dir> " + " ".join(sorted(res["checks"]))],
            "checks": res["checks"],
            "checks_at_first_verification": res.get("first_checks", {}),
            "caught_by": caught, "not_caught_by": missed, "machinery_failure": broken,
        }
        with open(os.path.join(dst, "meta.json"), "w") as f:
            json.dump(meta, f, indent=1)
        first = notes.strip().splitlines()[0][:110] if notes.strip() else ""
        rows.append((prop, m, "confirmed", res, first))
    with open(os.path.join(out_root, "README.md"), "w") as f:
        f.write("# Seeded changes\n\nEach directory holds a change to gtirb-rewriting that breaks the named property while the\n"
                "331 pinned tests still pass, produced by a sub-agent that saw only the property text and a scratch\n"
                "worktree; `meta.json` records how it was confirmed (tools/verify_seed.sh) and which checks caught it\n"
                "(quick tier, mutant substituted through PYTHONPATH).\n\n"
                "`first` = the first verification of the change, `now` = the latest one (after the checks\n"
                "were strengthened where they had missed it).\n\n"
                "| change | confirmed | caught first | caught now | not caught now | note |\n|---|---|---|---|---|---|\n")
        for prop, m, status, res, first in rows:
            c0 = ", ".join(sorted(c for c, r in res.get("first_checks", {}).items() if r["rc"] == 1)) or "-"
            caught = ", ".join(sorted(c for c, r in res["checks"].items() if r["rc"] == 1)) or "-"
            missed = ", ".join(sorted(c for c, r in res["checks"].items() if r["rc"] == 0)) or "-"
            f.write(f"| {prop}-{m} | {status} | {c0} | {caught} | {missed} | {first} |\n")
    print(f"{len(rows)} seeded changes collected")


if __name__ == "__main__":
    main()
