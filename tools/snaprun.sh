#!/bin/sh
# development helper: run a check from a private snapshot of /verif so that the
# working copy can be edited meanwhile.  No evidence is written.
# usage: tools/snaprun.sh <prop> <tier> [extra args]   -> log on stdout
P=$1; T=$2; shift 2
S=$(mktemp -d /tmp/snap-$P-XXXX)
rsync -a --exclude .git --exclude replays --exclude seeded /verif/ $S/
(cd $S && VERIF_NO_EVIDENCE=1 ./check $P --tier $T "$@"); rc=$?
echo "rc=$rc"
if [ -d $S/replays/$P ]; then mkdir -p /tmp/snap-replays/$P; cp $S/replays/$P/* /tmp/snap-replays/$P/ 2>/dev/null; fi
rm -rf $S
exit $rc
