#!/bin/sh
# Offline setup: verifies the tools are present, parses every spec, compiles the harness.
set -e
cd "$(dirname "$0")"
command -v java >/dev/null
test -f /opt/veriftools/tla/tla2tools.jar
/venv/bin/python -c "import gtirb, gtirb_rewriting, capstone, mcasm" 
/venv/bin/python -m compileall -q harness >/dev/null
mkdir -p .work evidence replays
for f in spec/*.tla; do
  ( cd spec && java -cp /opt/veriftools/tla/tla2tools.jar:/opt/veriftools/tla/CommunityModules-deps.jar tla2sany.SANY "$(basename "$f")" ) > .work/sany.out 2>&1 || { cat .work/sany.out; exit 1; }
  if grep -q "Semantic errors\|Parse Error\|Could not\|Fatal errors" .work/sany.out; then cat .work/sany.out; exit 1; fi
done
rm -f .work/sany.out
echo "setup ok"
