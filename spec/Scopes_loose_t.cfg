SPECIFICATION Spec
CONSTANTS
  Isas = {"x64"}
  MaxBlocks = 3
  Templates = {"o23", "jmp", "call", "ret", "d3"}
  Layouts = {"head", "mid", "gap"}
  FnTables = {"present"}
  Names = {"fa", "fab", "xfa"}
  BothOrders = FALSE
  EntModes = {"first"}
  EpChoices = {0, 1}
  CfgModes = {"full"}
  AddrModes = {TRUE}
  TgtChoices = {0, 1}
  ScopeKinds = {"allfuncs", "allblocks"}
  Positions = {"ENTRY", "EXIT"}
  FPositions = {"ENTRY", "EXIT"}
  FilterKinds = {"none", "empty", "lit", "relit", "prefix", "any", "ep"}
  PatNames = {"fa"}
  MaxRegs = 1
  MaxPasses = 1
  Emit = TRUE
INVARIANT Inv
CHECK_DEADLOCK FALSE
