---------------------------- MODULE TraceCfiEval ----------------------------
(***************************************************************************)
(* Judge of observed runs of evaluate_cfi_directives (property C15).       *)
(* Every line of TRACE_FILE is one case: the token stream and, per ABI,    *)
(* what the real evaluator yielded (position, state projected at yield     *)
(* time, copy taken at yield time and projected after exhaustion) and the  *)
(* exception type.  Expected values are CfiRun(toks, abi) of CfiEvalOps.   *)
(*                                                                         *)
(* Clauses (a clause is judged on the runs in its domain; a run whose      *)
(* specification outcome is "Unsupported" - ABI without DWARF EH support - *)
(* is in no domain):                                                       *)
(*  C15_States            every yielded (position, state) equals the       *)
(*                        spec's; without an exception the whole sequence  *)
(*                        does (a state yielded where the spec has an      *)
(*                        error is a silently wrong state)                 *)
(*  C15_CopiesIndependent the same for the copies taken at yield time      *)
(*  C15_ErrorTypes        ill-formed input: exactly the spec's error type, *)
(*                        raised in the same group                         *)
(*  C15_Completes         well-formed input: no exception                  *)
(***************************************************************************)
EXTENDS CfiEvalOps, Json, IOUtils, TLC, TLCExt

Traces == ndJsonDeserialize(IOEnv.TRACE_FILE)
VARIABLE tid

ObsNow(run) == [i \in DOMAIN run.ys |-> [blk |-> run.ys[i].b, off |-> run.ys[i].o, st |-> run.ys[i].now]]
ObsCp(run) ==
  [i \in DOMAIN run.ys |-> [blk |-> run.ys[i].b, off |-> run.ys[i].o,
                            st |-> IF run.ys[i].cp.same THEN run.ys[i].now ELSE run.ys[i].cp.st]]

\* observed yields agree with the expected ones
YsAgree(obs, exp, exc) == IF exc = "" THEN obs = exp ELSE IsPrefix(obs, exp)
ErrAgree(run, E, nexp) == run.exc = E.err /\ Len(run.ys) = nexp

-----------------------------------------------------------------------------
(* Known findings: a deviation set explains a run when the specification   *)
(* with exactly these deviations switched on predicts completely what the  *)
(* clause looks at (exception and its place, and all yields: as yielded,   *)
(* or the copies for C15_CopiesIndependent).  The tags of a failing clause *)
(* of a run are the findings of a smallest explaining set; none if there   *)
(* is none.                                                                *)
KfOf(dev) == CASE dev = "restore" -> "KF-C15-1"
               [] dev = "order" -> "KF-C15-2"
               [] dev = "rel" -> "KF-C15-3"
               [] dev = "retcol" -> "KF-C15-4"
HasOp(toks, op) == \E i \in DOMAIN toks : toks[i].op = op
Relevant(toks, abi) ==
  (IF HasOp(toks, "restore") THEN {"restore"} ELSE {})
  \cup (IF HasOp(toks, "rel_offset") THEN {"rel"} ELSE {})
  \cup (IF abi.order = "big" /\ HasOp(toks, "escape") THEN {"order"} ELSE {})
  \cup (IF abi.name \in {"arm64-elf", "mips32-elf"} /\ HasOp(toks, "startproc") THEN {"retcol"} ELSE {})
VOf(S) == [d \in DevNames |-> d \in S]
\* which = "cp": the clause looks at the copies; otherwise at the states as yielded
Explains(toks, abi, run, S, which) ==
  LET EV == CfiRunV(toks, abi, VOf(S))
  IN  /\ run.exc = EV.err
      /\ (IF which = "cp" THEN ObsCp(run) ELSE ObsNow(run)) = CanonYs(EV.ys)
\* a smallest explaining set, searched by increasing size (most runs need one deviation)
RECURSIVE MinExplaining(_, _, _, _, _, _)
MinExplaining(toks, abi, run, which, R, k) ==
  IF k > Cardinality(R) THEN {}
  ELSE LET ok == {S \in SUBSET R : Cardinality(S) = k /\ Explains(toks, abi, run, S, which)}
       IN  IF ok # {} THEN CHOOSE S \in ok : TRUE
           ELSE MinExplaining(toks, abi, run, which, R, k + 1)
KfTagsRun(toks, abi, run, which) ==
  {KfOf(d) : d \in MinExplaining(toks, abi, run, which, Relevant(toks, abi), 1)}

FirstDiff(obs, exp) ==
  LET I == {i \in 1..Len(obs) : i > Len(exp) \/ obs[i] # exp[i]}
  IN  IF I = {} THEN Len(obs) + 1 ELSE CHOOSE i \in I : \A j \in I : i <= j
\* the first component in which an observed yield differs from the expected one
StateFields == <<"retcol", "pers", "lsda", "cur", "init", "stack">>
YieldDiff(obs, exp, i) ==
  IF i \notin DOMAIN obs THEN [field |-> "(missing yield)", exp |-> exp[i].st, obs |-> <<>>]
  ELSE IF i \notin DOMAIN exp THEN [field |-> "(extra yield)", exp |-> <<>>, obs |-> obs[i].st]
  ELSE IF <<obs[i].blk, obs[i].off>> # <<exp[i].blk, exp[i].off>>
       THEN [field |-> "(position)", exp |-> <<exp[i].blk, exp[i].off>>, obs |-> <<obs[i].blk, obs[i].off>>]
  ELSE IF ~(obs[i].st.proc /\ exp[i].st.proc)
       THEN [field |-> "proc", exp |-> exp[i].st.proc, obs |-> obs[i].st.proc]
  ELSE LET F == {k \in DOMAIN StateFields : obs[i].st[StateFields[k]] # exp[i].st[StateFields[k]]}
           k == CHOOSE k \in F : \A j \in F : k <= j
       IN  [field |-> StateFields[k], exp |-> exp[i].st[StateFields[k]], obs |-> obs[i].st[StateFields[k]]]

(* Judgement of one run. *)
Judge(toks, run) ==
  LET abi == AbiOf(run.abi)
      E == CfiRun(toks, abi)
      exp == CanonYs(E.ys)
      now == ObsNow(run)
      cp == ObsCp(run)
      dom == E.err # "Unsupported"
      illformed == dom /\ E.err # ""
      wellformed == dom /\ E.err = ""
      states == YsAgree(now, exp, run.exc)
      copies == YsAgree(cp, exp, run.exc)
      errtypes == ErrAgree(run, E, Len(exp))
      completes == run.exc = ""
      bad == dom /\ ~(states /\ copies /\ (illformed => errtypes) /\ (wellformed => completes))
      MkDiff(obs, which) ==
        LET k == FirstDiff(obs, exp)
        IN  [abi |-> run.abi, exc |-> run.exc, spec_err |-> E.err,
             yields |-> <<Len(run.ys), Len(exp)>>, at |-> k, which |-> which,
             d |-> IF k > Len(exp) /\ k > Len(obs) THEN <<>> ELSE <<YieldDiff(obs, exp, k)>>]
  IN  [abi |-> run.abi, dom |-> dom, illformed |-> illformed, wellformed |-> wellformed,
       states |-> states, copies |-> copies, errtypes |-> errtypes, completes |-> completes,
       tags |-> IF bad /\ ~(states /\ (illformed => errtypes) /\ (wellformed => completes))
                THEN KfTagsRun(toks, abi, run, "now") ELSE {},
       tagscp |-> IF dom /\ ~copies THEN KfTagsRun(toks, abi, run, "cp") ELSE {},
       diff |-> IF bad THEN MkDiff(now, "yielded") ELSE <<>>,
       diffcp |-> IF dom /\ ~copies THEN MkDiff(cp, "copy") ELSE <<>>]

Verdict(t) ==
  LET js == [i \in DOMAIN t.runs |-> Judge(t.toks, t.runs[i])]
      Dom(name, j) == CASE name = "C15_States" -> j.dom
                        [] name = "C15_CopiesIndependent" -> j.dom
                        [] name = "C15_ErrorTypes" -> j.illformed
                        [] name = "C15_Completes" -> j.wellformed
      Holds(name, j) == CASE name = "C15_States" -> j.states
                          [] name = "C15_CopiesIndependent" -> j.copies
                          [] name = "C15_ErrorTypes" -> j.errtypes
                          [] name = "C15_Completes" -> j.completes
      names == <<"C15_States", "C15_CopiesIndependent", "C15_ErrorTypes", "C15_Completes">>
      InDom(name) == \E i \in DOMAIN js : Dom(name, js[i])
      BadRuns(name) == {i \in DOMAIN js : Dom(name, js[i]) /\ ~Holds(name, js[i])}
      indom == SelectSeq(names, InDom)
      bad == SelectSeq(names, LAMBDA nm : BadRuns(nm) # {})
      TagsOf(name, j) == IF name = "C15_CopiesIndependent" THEN j.tagscp ELSE j.tags
      Tags(name) == IF \E i \in BadRuns(name) : TagsOf(name, js[i]) = {} THEN {}
                    ELSE UNION {TagsOf(name, js[i]) : i \in BadRuns(name)}
      Diffs(name) == LET un == {i \in BadRuns(name) : TagsOf(name, js[i]) = {}}
                         pool == IF un # {} THEN un ELSE BadRuns(name)
                         i == CHOOSE i \in pool : \A k \in pool : i <= k
                     IN  [runs |-> {js[k].abi : k \in BadRuns(name)},
                          first |-> IF name = "C15_CopiesIndependent" THEN js[i].diffcp ELSE js[i].diff]
      unsupported == {js[i].abi : i \in {k \in DOMAIN js : ~js[k].dom}}
      excs == [i \in DOMAIN t.runs |-> t.runs[i].exc]
  IN  [id |-> t.id,
       indomain |-> indom,
       failed |-> [i \in 1..Len(bad) |-> [clause |-> bad[i], diff |-> Diffs(bad[i]), kf |-> Tags(bad[i])]],
       outdomain |-> unsupported,
       exc |-> excs]

Init == tid = 1
Next == /\ tid <= Len(Traces)
        /\ PrintT("VERDICT " \o ToJson(Verdict(Traces[tid])))
        /\ tid' = tid + 1
AllConsumed == TLCGet("stats").diameter - 1 = Len(Traces)
=============================================================================
