------------------------------ MODULE CfiEval ------------------------------
(***************************************************************************)
(* The CFI evaluator as a state machine: one named action per `.cfi_*`     *)
(* directive and per position token, over the pure transition operators of *)
(* CfiEvalOps.  The state is the evaluator between two directives          *)
(*   m.st = None | [cur:[cfa, regs], init, stack, pers, lsda, retcol]      *)
(* plus the token history `toks` (so that every reachable state is one     *)
(* directive sequence = one test case) and counters used only by the       *)
(* sanity invariants.  An error (CFIStateError / ValueError / Unsupported) *)
(* ends the run: no action is enabled afterwards.                          *)
(*                                                                         *)
(* TLC explores all sequences up to MaxLen, checks the invariants below on *)
(* each and prints each as a case (Emit).                                  *)
(***************************************************************************)
EXTENDS CfiEvalOps, TLC, Json

CONSTANTS
  MaxLen,        \* maximal number of tokens
  Regs,          \* register numbers
  Offs,          \* offsets
  Cols,          \* return columns for .cfi_return_column
  PtrArgs,       \* set of <<encoding, symbol>> for personality / lsda
  Escapes,       \* names of EscCatalogue entries
  Ops,           \* enabled token kinds
  AbiSet,        \* ABIs model-checked
  EmitAbi,       \* cases are printed for this ABI's copy of the graph only
  Emit,          \* BOOLEAN
  EmitMinLen,    \* print only sequences at least this long (or erroneous)
  AllowErr       \* FALSE: only error-free steps (used for long simulations)

VARIABLES abi, toks, m, nstart, nend, nrem, nres
vars == <<abi, toks, m, nstart, nend, nrem, nres>>

-----------------------------------------------------------------------------
(* Catalogue of escapes (DWARF expressions kept as structural operations). *)
E_breg  == <<XOp("OpBReg", 7, 8)>>
E_deref == <<XOp("OpBReg", 6, -8), XOp("OpDeref", 0, 0)>>
E_c2    == <<XOp("OpConst2U", 4660, 0), XOp("OpPlus", 0, 0)>>     \* byte-order sensitive
E_addr  == <<XOp("OpAddr", 17, 0)>>                               \* pointer-size sensitive
E_lit   == <<XOp("OpLit", 5, 0), XOp("OpConst1U", 200, 0)>>
EscCatalogue(name) ==
  CASE name = "nop"   -> <<EscI("nop", 0, <<>>)>>
    [] name = "cfa"   -> <<EscI("def_cfa_expression", 0, E_breg)>>
    [] name = "cfa2"  -> <<EscI("def_cfa_expression", 0, E_c2)>>
    [] name = "exp1"  -> <<EscI("expression", 1, E_deref)>>
    [] name = "val2"  -> <<EscI("val_expression", 2, E_lit)>>
    [] name = "wide"  -> <<EscI("expression", 130, E_lit)>>           \* two-byte ULEB register
    [] name = "multi" -> <<EscI("nop", 0, <<>>), EscI("expression", 1, E_addr),
                           EscI("def_cfa_expression", 0, E_breg),
                           EscI("val_expression", 1, E_c2), EscI("nop", 0, <<>>)>>
AllEscapes == {EscCatalogue(n) : n \in {"nop", "cfa", "cfa2", "exp1", "val2", "wide", "multi"}}

-----------------------------------------------------------------------------
(* Values for the configuration files (cfg syntax has no tuples). *)
OffsDef == {0, 8, -8}
PtrArgsQ == {<<PeOmit, "">>, <<27, "p">>, <<27, "">>}              \* 27 = pcrel|sdata4
PtrArgsT == {<<PeOmit, "">>, <<PeOmit, "p">>, <<27, "p">>, <<27, "">>, <<27, "?">>, <<0, "q">>}
OpsAll == {"startproc", "endproc", "def_cfa", "def_cfa_register", "def_cfa_offset",
           "adjust_cfa_offset", "offset", "rel_offset", "val_offset", "register",
           "undefined", "same_value", "restore", "remember_state", "restore_state",
           "personality", "lsda", "return_column", "escape", "nextoff", "nextblk"}
\* long nested remember / restore runs
OpsNest == {"startproc", "endproc", "def_cfa", "def_cfa_offset", "adjust_cfa_offset", "offset",
            "undefined", "restore", "remember_state", "restore_state", "escape",
            "nextoff", "nextblk"}
\* small alphabet for deeper exhaustive exploration of remember / restore / yield interplay
OpsDeep == {"startproc", "endproc", "def_cfa", "offset", "restore", "remember_state",
            "restore_state", "escape", "nextoff"}
OffsOne == {8}

A == AbiOf(abi)

Do(d) ==
  /\ d.op \in Ops
  /\ Len(toks) < MaxLen
  /\ m.err = ""
  /\ LET m1 == Feed(m, d, A, Normative)
         ok == m1.err = ""
     IN  /\ AllowErr \/ ok
         /\ m' = m1
         /\ toks' = Append(toks, d)
         /\ nstart' = IF ok /\ d.op = "startproc" THEN nstart + 1 ELSE nstart
         /\ nend' = IF ok /\ d.op = "endproc" THEN nend + 1 ELSE nend
         /\ nrem' = IF ok /\ d.op = "startproc" THEN 0
                    ELSE IF ok /\ d.op = "remember_state" THEN nrem + 1 ELSE nrem
         /\ nres' = IF ok /\ d.op = "startproc" THEN 0
                    ELSE IF ok /\ d.op = "restore_state" THEN nres + 1 ELSE nres
         /\ UNCHANGED abi

StartProc == Do(D("startproc", 0, 0))
EndProc == Do(D("endproc", 0, 0))
DefCfa == \E r \in Regs, n \in Offs : Do(D("def_cfa", r, n))
DefCfaRegister == \E r \in Regs : Do(D("def_cfa_register", r, 0))
DefCfaOffset == \E n \in Offs : Do(D("def_cfa_offset", 0, n))
AdjustCfaOffset == \E n \in Offs : Do(D("adjust_cfa_offset", 0, n))
Offset == \E r \in Regs, n \in Offs : Do(D("offset", r, n))
RelOffset == \E r \in Regs, n \in Offs : Do(D("rel_offset", r, n))
ValOffset == \E r \in Regs, n \in Offs : Do(D("val_offset", r, n))
Register == \E r \in Regs, r2 \in Regs : Do(D("register", r, r2))
Undefined == \E r \in Regs : Do(D("undefined", r, 0))
SameValue == \E r \in Regs : Do(D("same_value", r, 0))
Restore == \E r \in Regs : Do(D("restore", r, 0))
RememberState == Do(D("remember_state", 0, 0))
RestoreState == Do(D("restore_state", 0, 0))
Personality == \E p \in PtrArgs : Do(DSym("personality", p[1], p[2]))
Lsda == \E p \in PtrArgs : Do(DSym("lsda", p[1], p[2]))
ReturnColumn == \E c \in Cols : Do(D("return_column", c, 0))
Escape == \E e \in Escapes : Do(DEsc(EscCatalogue(e)))
NextOffset == Do(D("nextoff", 0, 0))
NextBlock == Do(D("nextblk", 0, 0))

Init == /\ abi \in AbiSet
        /\ toks = <<>> /\ m = M0
        /\ nstart = 0 /\ nend = 0 /\ nrem = 0 /\ nres = 0
Next == \/ StartProc \/ EndProc \/ DefCfa \/ DefCfaRegister \/ DefCfaOffset
        \/ AdjustCfaOffset \/ Offset \/ RelOffset \/ ValOffset \/ Register
        \/ Undefined \/ SameValue \/ Restore \/ RememberState \/ RestoreState
        \/ Personality \/ Lsda \/ ReturnColumn \/ Escape \/ NextOffset \/ NextBlock
Spec == Init /\ [][Next]_vars

-----------------------------------------------------------------------------
(* Sanity of the specification. *)
ErrNames == {"", "CFIStateError", "ValueError", "Unsupported"}
TypeOK ==
  /\ m.err \in ErrNames                 \* KeyError exists only as a deviation
  /\ m.st.proc \in BOOLEAN
  /\ m.st.proc => /\ m.st.cur.cfa.k \in {"none", "regoff", "expression"}
                  /\ m.st.pers.set \in BOOLEAN /\ m.st.lsda.set \in BOOLEAN
                  /\ \A r \in DOMAIN m.st.cur.regs :
                        m.st.cur.regs[r].k \in {"undefined", "same_value", "offset", "val_offset",
                                                "register", "expression", "val_expression"}

NPos == Len(SelectSeq(toks, IsPosTok))
Live == m.err = ""

\* the pure evaluator, the evaluator over groups and the incremental machine agree
RunAgreement ==
  LET r == CfiRun(toks, A)
  IN  /\ r = Result(m)
      /\ CfiRunGroups(Groups(toks), A, Normative) = r
\* save stack depth = #remember - #restore_state of the current procedure
StackDepth == Live /\ m.st.proc => Len(m.st.stack) = nrem - nres
\* in a procedure iff one more startproc than endproc
InProcIff == Live => /\ nstart - nend \in {0, 1}
                     /\ m.st.proc <=> (nstart = nend + 1)
\* a new procedure starts from the ABI's fresh state whatever came before
ResetBetweenProcs ==
  Live /\ toks # <<>> /\ toks[Len(toks)].op = "startproc" => m.st = Fresh(A.retcol)
\* one yield per closed group, positions strictly increasing
YieldCount == IF Live THEN Len(m.ys) = NPos ELSE Len(m.ys) <= NPos
PositionsIncrease ==
  \A i, j \in DOMAIN m.ys : i < j =>
     \/ m.ys[i].blk < m.ys[j].blk
     \/ m.ys[i].blk = m.ys[j].blk /\ m.ys[i].off < m.ys[j].off
\* remember_state ; restore_state is the identity, restore is idempotent
RememberRestoreInverse ==
  Live /\ m.st.proc => DoRestoreState(DoRememberState(m.st).st) = Ok(m.st)
RestoreIdempotent ==
  Live /\ m.st.proc => \A r \in Regs :
     LET once == DoRestore(m.st, r, Normative) IN DoRestore(once.st, r, Normative) = once
\* every yielded state has a canonical form that determines it
CanonFaithful == \A i \in DOMAIN m.ys : Canon(m.ys[i].st).proc = m.ys[i].st.proc
\* unsupported ABIs never enter a procedure
UnsupportedNeverStarts == A.retcol < 0 => ~m.st.proc

CaseJson ==
  LET gs == Groups(toks)
  IN  [toks |-> toks,
       groups |-> [i \in DOMAIN gs |-> [blk |-> gs[i].blk, off |-> gs[i].off, idx |-> gs[i].idx]],
       esc |-> [i \in DOMAIN toks |->
                  IF toks[i].op = "escape"
                  THEN [a \in AbiNames |-> EscapeBytes(toks[i].insts, AbiOf(a))]
                  ELSE <<>>]]
EmitCase ==
  (Emit /\ abi = EmitAbi /\ (Len(toks) >= EmitMinLen \/ ~Live))
     => PrintT("CASE " \o ToJson(CaseJson))

Inv == /\ TypeOK /\ RunAgreement /\ StackDepth /\ InProcIff /\ ResetBetweenProcs
       /\ YieldCount /\ PositionsIncrease /\ RememberRestoreInverse /\ RestoreIdempotent
       /\ CanonFaithful /\ UnsupportedNeverStarts /\ EmitCase

\* the initial row is frozen once the group of the startproc is closed
InitFrozen ==
  [][(m.st.proc /\ m'.st.proc /\ m'.err = "" /\ ~m.started) => m'.st.init = m.st.init]_vars
=============================================================================
