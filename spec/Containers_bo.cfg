SPECIFICATION Spec
CONSTANTS
  Machine = "bo"
  N = 4
  Emit = TRUE
INVARIANTS TypeOK Refines EmitCase
VIEW View
CHECK_DEADLOCK FALSE
