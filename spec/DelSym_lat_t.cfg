SPECIFICATION Spec
CONSTANTS
  Mode = "lattice"
  Fmts = {"elf"}
  K1 = 4
  K2 = 0
  K3 = 0
  NVer = 3
  ReqNames = {}
  Emit = TRUE
INVARIANT Inv
CHECK_DEADLOCK FALSE
