SPECIFICATION Spec
CONSTANTS
  MaxBlocks = 2
  MaxReqs = 2
  Templates = {"o23", "o123", "ret", "d3"}
  PatchKinds = {"plain2", "cfi", "cfistate"}
  FnLayouts = {"one"}
  EndSyms = {FALSE}
  NoSyms = {FALSE}
  AnnModes = {"none"}
  WithProxyDel = TRUE
  CfiLayouts = {"proc_mid"}
  Isa = "x64"
  WithScopes = FALSE
  Fmts = {"elf"}
  WholeOnly = FALSE
  Leads = {0}
  DropFnTables = {FALSE}
  ExtraData = {FALSE}
  Retargets = {FALSE}
  AlignOpts = {0}
  Aliases = {FALSE}
  SharedRet = {FALSE}
  InsFns = {"none"}
  Emit = TRUE
INVARIANT Inv
CHECK_DEADLOCK FALSE
