SPECIFICATION CSpec
CONSTANTS
  GenAbis = {"x64elf", "x64pe", "ia32pe", "arm64", "mips32"}
  Wide = TRUE
  ScratchVals = {0}
  ArgCounts = {0, 1, 2, 3, 4, 5, 6, 7, 8, 9, 11, 16}
  SingleCounts = {1, 2, 4, 5, 7, 9, 11, 16}
  HistSites = {2, 3}
  RotStep = 2
  Hist16 = FALSE
  Emit = TRUE
  Strict = FALSE
INVARIANT CInv_TypeOK
INVARIANT CInv_Refusal
INVARIANT CInv_ArgsAtCall
INVARIANT CInv_ShadowReserved
INVARIANT CInv_AlignedAtCall
INVARIANT CInv_OneCall
INVARIANT CInv_BodyStackNeutral
INVARIANT CInv_SpRestored
INVARIANT CInv_NoWriteAtOrAboveOriginalSp
INVARIANT CInv_NoRedZoneWriteIfLeaf
INVARIANT CInv_ReadsOnlyOwnSlots
INVARIANT CInv_SpAlignedOnAccess
INVARIANT CInv_NoCollateral
INVARIANT CInv_FlagsRestoredIfDeclared
INVARIANT CInv_ReportedAdjustment
INVARIANT CInv_Progress
CHECK_DEADLOCK FALSE
