----------------------------- MODULE Containers -----------------------------
(***************************************************************************)
(* C20 -- the small internal containers as state machines whose abstract   *)
(* model is the property:                                                  *)
(*                                                                         *)
(*  "bo"  _adt.BlockOrdering      vs. a set of disjoint sequences          *)
(*        (Level B: the doubly linked LinkedListNodes, prev/next)          *)
(*  "om"  _adt.OffsetMapping      vs. a dictionary of dictionaries         *)
(*  "is"  _adt.IdentitySet        vs. a set of object identities           *)
(*  "re"  cache.ReturnEdgeCache   vs. {e \in cfg : e.type = Return}        *)
(*        (Level B: the two defaultdict indexes)                           *)
(*  "mc"  cache.make_return_cache vs. the exit contract: the caller's CFG  *)
(*        object is restored with the final edges even when the body       *)
(*        raises; CFGModifiedError when the original object was modified   *)
(*        or ir.cfg replaced (nested contexts included)                    *)
(*                                                                         *)
(* One machine is selected by the constant Machine.  The abstract          *)
(* semantics is a function                                                 *)
(*     XStep(st, op, pick) = [st |-> st', exc |-> "", val |-> v]           *)
(* (pick resolves `pop`), shared with the trace specification              *)
(* TraceContainers.tla, and XObs(st): everything the public queries        *)
(* return in st.  Operations are 4-tuples of integers <<code, a, b, c>>.   *)
(* The state spaces are finite, so no bound on the history is needed; hist *)
(* is hidden by the VIEW and each distinct state is emitted once with a    *)
(* witness history and the operations enabled in it (frontier replay).     *)
(***************************************************************************)
EXTENDS Integers, Sequences, FiniteSets, TLC, Json

CONSTANTS Machine,   \* "bo" | "om" | "is" | "re" | "mc"
          N,         \* size of the universe (blocks / objects / edges); see each machine
          Emit

VARIABLES st,        \* [a |-> abstract state, b |-> implementation-shaped state]
          hist       \* <<init, ops>>, hidden by the VIEW

B2I(x) == IF x THEN 1 ELSE 0
SetToSeq(S) == LET RECURSIVE f(_)
                   f(T) == IF T = {} THEN <<>> ELSE LET x == CHOOSE y \in T : TRUE IN <<x>> \o f(T \ {x})
               IN  f(S)
\* sorted sequence of a set of integers
RECURSIVE SortedSeq(_)
SortedSeq(S) == IF S = {} THEN <<>>
                ELSE LET m == CHOOSE x \in S : \A y \in S : x <= y IN <<m>> \o SortedSeq(S \ {m})
Range(f) == {f[i] : i \in DOMAIN f}
Bits(S) == LET RECURSIVE g(_)
               g(T) == IF T = {} THEN 0 ELSE LET x == CHOOSE y \in T : TRUE IN 2 ^ (x - 1) + g(T \ {x})
           IN  g(S)
OfBits(m, n) == {i \in 1..n : (m \div (2 ^ (i - 1))) % 2 = 1}
R(s, e, v) == [st |-> s, exc |-> e, val |-> v]

(***************************************************************************)
(* "bo"  BlockOrdering.  Blocks 1..N.  Abstract state: a set of non-empty  *)
(* duplicate-free sequences over disjoint sets of blocks.                  *)
(*   1 add_detached_blocks(<<b, c>>)     (0 = no block; b = 0 => c = 0)    *)
(*   2 insert_blocks_after(a, <<b, c>>)                                    *)
(*   3 remove_block(a)                                                     *)
(*   4 / 5 = 1 / 2 with the blocks passed as a one-shot iterator           *)
(* Duplicates (a block that is already ordered, or twice in the list)      *)
(* -> ValueError, nothing changes.  insert after / removal of an unordered *)
(* block is outside the domain (KeyError in the code) and not generated.   *)
(***************************************************************************)
BoList(b, c) == IF b = 0 THEN <<>> ELSE IF c = 0 THEN <<b>> ELSE <<b, c>>
BoOrdered(chains) == UNION {Range(ch) : ch \in chains}
BoChainOf(chains, a) == CHOOSE ch \in chains : a \in Range(ch)
BoIndex(ch, a) == CHOOSE i \in DOMAIN ch : ch[i] = a
BoDup(chains, L) == (\E i \in DOMAIN L : L[i] \in BoOrdered(chains))
                    \/ Cardinality(Range(L)) # Len(L)

BoStep(chains, op, pick) ==
  LET L == BoList(op[3], op[4])
      a == op[2]
  IN
  CASE op[1] \in {1, 4} ->
         IF BoDup(chains, L) THEN R(chains, "ValueError", 0)
         ELSE R(IF L = <<>> THEN chains ELSE chains \cup {L}, "", 0)
    [] op[1] \in {2, 5} ->
         IF BoDup(chains, L) THEN R(chains, "ValueError", 0)
         ELSE LET ch == BoChainOf(chains, a)
                  i == BoIndex(ch, a)
                  new == SubSeq(ch, 1, i) \o L \o SubSeq(ch, i + 1, Len(ch))
              IN  R((chains \ {ch}) \cup {new}, "", 0)
    [] op[1] = 3 ->
         LET ch == BoChainOf(chains, a)
             i == BoIndex(ch, a)
             new == SubSeq(ch, 1, i - 1) \o SubSeq(ch, i + 1, Len(ch))
         IN  R((chains \ {ch}) \cup (IF new = <<>> THEN {} ELSE {new}), "", 0)

\* adjacent_blocks of every block: <<prev, next>> (0 = None), <<-1, -1>> = KeyError
BoObs(chains) ==
  [a \in 1..N |->
     IF a \notin BoOrdered(chains) THEN <<-1, -1>>
     ELSE LET ch == BoChainOf(chains, a)
              i == BoIndex(ch, a)
          IN  <<IF i = 1 THEN 0 ELSE ch[i - 1], IF i = Len(ch) THEN 0 ELSE ch[i + 1]>>]

BoInDomain(chains, op) ==
  CASE op[1] \in {1, 4} -> TRUE
    [] op[1] \in {2, 3, 5} -> op[2] \in BoOrdered(chains)

BoLists == {<<0, 0>>} \cup {<<b, 0>> : b \in 1..N} \cup {<<b, c>> : b \in 1..N, c \in 1..N}
BoOps(chains) ==
  {<<1, 0, l[1], l[2]>> : l \in BoLists}
  \cup {<<2, a, l[1], l[2]>> : a \in BoOrdered(chains), l \in BoLists}
  \cup {<<3, a, 0, 0>> : a \in BoOrdered(chains)}
  \cup {<<4, 0, l[1], l[2]>> : l \in {m \in BoLists : m[1] # 0}}
  \cup {<<5, a, l[1], l[2]>> : a \in BoOrdered(chains), l \in {m \in BoLists : m[1] # 0}}

\* Level B: one LinkedListNode per ordered block (the node of block b is b;
\* a list that names a block twice is refused before any node is made).
\* _primitive_insert first copies its argument into a tuple, so a one-shot
\* iterator (codes 4, 5) behaves like a list.
BoInitB == [ord |-> {}, prev |-> [b \in 1..N |-> 0], nxt |-> [b \in 1..N |-> 0]]

\* LinkedListNode.insert_node_after(self = p, node = n)
BoInsertAfter(s, p, n) ==
  LET q == s.nxt[p]
      s1 == IF q # 0 THEN [s EXCEPT !.prev[q] = n, !.nxt[n] = q] ELSE s
  IN  [s1 EXCEPT !.prev[n] = p, !.nxt[p] = n]

RECURSIVE BoInsertLoop(_, _, _)
BoInsertLoop(s, prevEntry, L) ==
  IF L = <<>> THEN s
  ELSE LET n == Head(L)
           s0 == [s EXCEPT !.prev[n] = 0, !.nxt[n] = 0]              \* fresh node
           s1 == IF prevEntry # 0 THEN BoInsertAfter(s0, prevEntry, n) ELSE s0
       IN  BoInsertLoop([s1 EXCEPT !.ord = @ \cup {n}], n, Tail(L))

BoStepB(s, op) ==
  LET L == BoList(op[3], op[4])
  IN
  CASE op[1] \in {1, 2, 4, 5} ->
         \* for block in insert_blocks: if block in self.__order or block in seen
         IF \E i \in DOMAIN L : L[i] \in s.ord \/ (\E k \in 1..(i - 1) : L[k] = L[i])
         THEN [st |-> s, exc |-> "ValueError"]
         ELSE [st |-> BoInsertLoop(s, IF op[1] \in {2, 5} THEN op[2] ELSE 0, L), exc |-> ""]
    [] op[1] = 3 ->                                                   \* pop + unlink
         LET a == op[2]
             p == s.prev[a]
             q == s.nxt[a]
             s1 == IF p # 0 THEN [s EXCEPT !.nxt[p] = q] ELSE s
             s2 == IF q # 0 THEN [s1 EXCEPT !.prev[q] = p] ELSE s1
         IN  [st |-> [s2 EXCEPT !.prev[a] = 0, !.nxt[a] = 0, !.ord = @ \ {a}], exc |-> ""]

\* refinement mapping: the chains read off the next pointers from every head
RECURSIVE BoWalk(_, _, _)
BoWalk(s, a, fuel) == IF a = 0 \/ fuel = 0 THEN <<>> ELSE <<a>> \o BoWalk(s, s.nxt[a], fuel - 1)
BoAbs(s) == {BoWalk(s, h, N + 1) : h \in {a \in s.ord : s.prev[a] = 0}}

BoWF(s) ==
  /\ \A a \in 1..N : a \notin s.ord => s.prev[a] = 0 /\ s.nxt[a] = 0
  /\ \A a \in s.ord : /\ s.nxt[a] # 0 => s.nxt[a] \in s.ord /\ s.prev[s.nxt[a]] = a     \* inverse
                      /\ s.prev[a] # 0 => s.prev[a] \in s.ord /\ s.nxt[s.prev[a]] = a
                      /\ s.nxt[a] # a /\ s.prev[a] # a
  /\ BoOrdered(BoAbs(s)) = s.ord                                     \* acyclic: every node hangs off a head
  /\ \A ch \in BoAbs(s) : Len(ch) <= N /\ Cardinality(Range(ch)) = Len(ch)

(***************************************************************************)
(* "om"  OffsetMapping.  Elements 1..N, displacements 0..1, values 1..2.   *)
(* Abstract state: [elements -> [has, d : [0..1 -> 0 (absent) | value]]]   *)
(* i.e. a dictionary of dictionaries (an inner dictionary may be empty).   *)
(* A dictionary argument D is coded as D[0] + 3 * D[1].                    *)
(*   1 m[Offset(x, d)] = v            <<1, x, d, v>>                       *)
(*   2 m[x] = D                       <<2, x, D, 0>>                       *)
(*   3 del m[Offset(x, d)]            <<3, x, d, 0>>   KeyError if absent  *)
(*   4 del m[x]                       <<4, x, 0, 0>>   KeyError if absent  *)
(*   5 m.setdefault(Offset(x, d), v)  returns the value now stored         *)
(*   6 m.setdefault(x, D)             returns the dictionary now stored    *)
(*   7 m.pop(Offset(x, d))            value | KeyError                     *)
(*   8 m.pop(Offset(x, d), 0)         value | default (coded 0)            *)
(*   9 m.pop(x)                       dictionary | KeyError                *)
(*  10 m.pop(x, None)                 dictionary | default (coded -1)      *)
(*  11 m[x][d] = v   through the view returned by m[x] (x present)         *)
(*  12 m[x] = 7  (not a mapping)      ValueError                           *)
(***************************************************************************)
Disps == 0..1
Vals == 1..2
OmDict(code) == [d \in Disps |-> IF d = 0 THEN code % 3 ELSE code \div 3]
OmCode(D) == D[0] + 3 * D[1]
OmEmptyDict == [d \in Disps |-> 0]
OmAbsent == [has |-> FALSE, d |-> OmEmptyDict]
OmPresent(D) == [has |-> TRUE, d |-> D]
OmHas(m, x) == m[x].has
OmHasOff(m, x, d) == m[x].has /\ m[x].d[d] # 0
OmSetOff(m, x, d, v) == [m EXCEPT ![x] = OmPresent([m[x].d EXCEPT ![d] = v])]

OmStep(m, op, pick) ==
  LET x == op[2]
  IN
  CASE op[1] = 1 -> R(OmSetOff(m, x, op[3], op[4]), "", 0)
    [] op[1] = 2 -> R([m EXCEPT ![x] = OmPresent(OmDict(op[3]))], "", 0)
    [] op[1] = 3 -> IF OmHasOff(m, x, op[3]) THEN R(OmSetOff(m, x, op[3], 0), "", 0)
                    ELSE R(m, "KeyError", 0)
    [] op[1] = 4 -> IF OmHas(m, x) THEN R([m EXCEPT ![x] = OmAbsent], "", 0) ELSE R(m, "KeyError", 0)
    [] op[1] = 5 -> IF OmHasOff(m, x, op[3]) THEN R(m, "", m[x].d[op[3]])
                    ELSE R(OmSetOff(m, x, op[3], op[4]), "", op[4])
    [] op[1] = 6 -> IF OmHas(m, x) THEN R(m, "", OmCode(m[x].d))
                    ELSE R([m EXCEPT ![x] = OmPresent(OmDict(op[3]))], "", op[3])
    [] op[1] = 7 -> IF OmHasOff(m, x, op[3]) THEN R(OmSetOff(m, x, op[3], 0), "", m[x].d[op[3]])
                    ELSE R(m, "KeyError", 0)
    [] op[1] = 8 -> IF OmHasOff(m, x, op[3]) THEN R(OmSetOff(m, x, op[3], 0), "", m[x].d[op[3]])
                    ELSE R(m, "", 0)
    [] op[1] = 9 -> IF OmHas(m, x) THEN R([m EXCEPT ![x] = OmAbsent], "", OmCode(m[x].d)) ELSE R(m, "KeyError", 0)
    [] op[1] = 10 -> IF OmHas(m, x) THEN R([m EXCEPT ![x] = OmAbsent], "", OmCode(m[x].d)) ELSE R(m, "", -1)
    [] op[1] = 11 -> R(OmSetOff(m, x, op[3], op[4]), "", 0)
    [] op[1] = 12 -> R(m, "ValueError", 0)

OmOffsets(m) == {<<x, d>> \in (1..N) \X Disps : OmHasOff(m, x, d)}
\* every public query, over the whole universe of keys
OmObs(m) ==
  [len  |-> Cardinality(OmOffsets(m)),                                   \* __len__
   bool |-> B2I(OmOffsets(m) # {}),                                      \* __bool__
   keys |-> OmOffsets(m),                                                \* __iter__ (as a set)
   nk   |-> {x \in 1..N : OmHas(m, x)},                                  \* node_keys
   get  |-> [xd \in (1..N) \X Disps |-> IF OmHasOff(m, xd[1], xd[2]) THEN m[xd[1]].d[xd[2]] ELSE 0],
                                                        \* m.get(Offset), m[Offset] (0 = None / KeyError)
   has  |-> {xd \in (1..N) \X Disps : OmHasOff(m, xd[1], xd[2])},         \* Offset in m
   hasx |-> {x \in 1..N : OmHas(m, x)},                                  \* x in m
   getx |-> [x \in 1..N |-> IF OmHas(m, x) THEN OmCode(m[x].d) ELSE -1]]    \* m.get(x), m[x] (-1 = None / KeyError)

OmInDomain(m, op) == IF op[1] = 11 THEN OmHas(m, op[2]) ELSE TRUE
OmOps(m) ==
  {<<c, x, d, v>> : c \in {1, 5}, x \in 1..N, d \in Disps, v \in Vals}
  \cup {<<c, x, D, 0>> : c \in {2, 6}, x \in 1..N, D \in 0..8}
  \cup {<<c, x, d, 0>> : c \in {3, 7, 8}, x \in 1..N, d \in Disps}
  \cup {<<c, x, 0, 0>> : c \in {4, 9, 10, 12}, x \in 1..N}
  \cup {<<11, x, d, v>> : x \in {y \in 1..N : OmHas(m, y)}, d \in Disps, v \in Vals}

(***************************************************************************)
(* "is"  IdentitySet.  Objects 1..N; objects 2k-1 and 2k are equal (==)    *)
(* but distinct.  Abstract state: the set of object identities.  A list    *)
(* argument is coded as a bit mask.                                        *)
(*  1 add(o) 2 discard(o) 3 remove(o) (KeyError) 4 pop() (KeyError if      *)
(*  empty; returns and removes some element) 5 clear() 6 s |= L 7 s -= L   *)
(*  8 s &= L 9 s ^= L 10 s = IdentitySet(L)                                *)
(***************************************************************************)
IsStep(S, op, pick) ==
  LET o == op[2]
      L == OfBits(op[2], N)
  IN
  CASE op[1] = 1 -> R(S \cup {o}, "", 0)
    [] op[1] = 2 -> R(S \ {o}, "", 0)
    [] op[1] = 3 -> IF o \in S THEN R(S \ {o}, "", 0) ELSE R(S, "KeyError", 0)
    [] op[1] = 4 -> IF S = {} THEN R(S, "KeyError", 0)
                    ELSE IF pick \in S THEN R(S \ {pick}, "", pick)
                    ELSE R(S, "", -1)                               \* never matches an observed value
    [] op[1] = 5 -> R({}, "", 0)
    [] op[1] = 6 -> R(S \cup L, "", 0)
    [] op[1] = 7 -> R(S \ L, "", 0)
    [] op[1] = 8 -> R(S \cap L, "", 0)
    [] op[1] = 9 -> R((S \ L) \cup (L \ S), "", 0)
    [] op[1] = 10 -> R(L, "", 0)

IsObs(S) == [len |-> Cardinality(S), bool |-> B2I(S # {}), elems |-> S, has |-> S]
IsOps(S) ==
  {<<c, o, 0, 0>> : c \in 1..3, o \in 1..N}
  \cup {<<4, 0, 0, 0>>, <<5, 0, 0, 0>>}
  \cup {<<c, m, 0, 0>> : c \in 6..10, m \in 0..(2 ^ N - 1)}

(***************************************************************************)
(* "re"  ReturnEdgeCache (a gtirb.CFG).  Nodes: 1, 2 code blocks, 3 a      *)
(* proxy block.  Edge universe 1..6:                                       *)
(*   1: 1->3 Return   2: 1->2 Return   3: 1->2 Fallthrough                 *)
(*   4: 2->3 Return   5: 1->3 Branch   6: 1->2 (no label)                  *)
(* Abstract state: the set of edges; the cache queries must equal a scan.  *)
(*  1 add(e) 2 discard(e) 3 remove(e) (KeyError) 4 pop() 5 clear()         *)
(*  6 update(L) 7 c |= L 8 c -= L 9 c &= L 10 c = ReturnEdgeCache(L)       *)
(***************************************************************************)
ReSrc(e) == IF e = 4 THEN 2 ELSE 1
ReIsRet(e) == e \in {1, 2, 4}
ReToProxy(e) == e \in {1, 4, 5}
ReNodes == 1..3

ReStep(S, op, pick) ==
  LET e == op[2]
      L == OfBits(op[2], 6)
  IN
  CASE op[1] = 1 -> R(S \cup {e}, "", 0)
    [] op[1] = 2 -> R(S \ {e}, "", 0)
    [] op[1] = 3 -> IF e \in S THEN R(S \ {e}, "", 0) ELSE R(S, "KeyError", 0)
    [] op[1] = 4 -> IF S = {} THEN R(S, "KeyError", 0)
                    ELSE IF pick \in S THEN R(S \ {pick}, "", pick)
                    ELSE R(S, "", -1)
    [] op[1] = 5 -> R({}, "", 0)
    [] op[1] \in {6, 7} -> R(S \cup L, "", 0)
    [] op[1] = 8 -> R(S \ L, "", 0)
    [] op[1] = 9 -> R(S \cap L, "", 0)
    [] op[1] = 10 -> R(L, "", 0)

ReRet(S, n) == {e \in S : ReIsRet(e) /\ ReSrc(e) = n}
ReObs(S) ==
  [edges |-> S, len |-> Cardinality(S),
   any   |-> [n \in ReNodes |-> B2I(ReRet(S, n) # {})],                     \* any_return_edges
   ret   |-> [n \in ReNodes |-> ReRet(S, n)],                               \* block_return_edges
   pret  |-> [n \in ReNodes |-> {e \in ReRet(S, n) : ReToProxy(e)}]]         \* block_proxy_return_edges
ReOps(S) ==
  {<<c, e, 0, 0>> : c \in 1..3, e \in 1..6}
  \cup {<<4, 0, 0, 0>>, <<5, 0, 0, 0>>}
  \cup {<<c, m, 0, 0>> : c \in 6..10, m \in {Bits(T) : T \in {U \in SUBSET (1..6) : Cardinality(U) <= 2}}}

\* Level B: the CFG's edge set plus the two defaultdict(set) indexes; a key
\* may exist with an empty set only transiently (_dict_set_discard).
ReInitB == [cfg |-> {}, re |-> [n \in ReNodes |-> [has |-> FALSE, s |-> {}]],
            pre |-> [n \in ReNodes |-> [has |-> FALSE, s |-> {}]]]
ReDictDiscard(d, n, e) ==                       \* value_set = setdict[key] creates the key
  LET s == d[n].s \ {e} IN [d EXCEPT ![n] = IF s = {} THEN [has |-> FALSE, s |-> {}] ELSE [has |-> TRUE, s |-> s]]
ReDictAdd(d, n, e) == [d EXCEPT ![n] = [has |-> TRUE, s |-> d[n].s \cup {e}]]
ReAddB(s, e) ==
  LET s1 == [s EXCEPT !.cfg = @ \cup {e}]
  IN  IF ReIsRet(e)
      THEN LET s2 == [s1 EXCEPT !.re = ReDictAdd(@, ReSrc(e), e)]
           IN  IF ReToProxy(e) THEN [s2 EXCEPT !.pre = ReDictAdd(@, ReSrc(e), e)] ELSE s2
      ELSE s1
ReDiscardB(s, e) ==
  LET s1 == [s EXCEPT !.cfg = @ \ {e}]
  IN  IF ReIsRet(e)
      THEN LET s2 == [s1 EXCEPT !.re = ReDictDiscard(@, ReSrc(e), e)]
           IN  IF ReToProxy(e) THEN [s2 EXCEPT !.pre = ReDictDiscard(@, ReSrc(e), e)] ELSE s2
      ELSE s1
RECURSIVE ReAddAll(_, _)
ReAddAll(s, T) == IF T = {} THEN s ELSE LET x == CHOOSE y \in T : TRUE IN ReAddAll(ReAddB(s, x), T \ {x})
RECURSIVE ReDiscardAll(_, _)
ReDiscardAll(s, T) == IF T = {} THEN s ELSE LET x == CHOOSE y \in T : TRUE IN ReDiscardAll(ReDiscardB(s, x), T \ {x})
ReStepB(s, op, pick) ==
  LET e == op[2]
      L == OfBits(op[2], 6)
  IN
  CASE op[1] = 1 -> ReAddB(s, e)
    [] op[1] = 2 -> ReDiscardB(s, e)
    [] op[1] = 3 -> IF e \in s.cfg THEN ReDiscardB(s, e) ELSE s              \* MutableSet.remove
    [] op[1] = 4 -> IF pick \in s.cfg THEN ReDiscardB(s, pick) ELSE s        \* MutableSet.pop
    [] op[1] = 5 -> ReInitB
    [] op[1] \in {6, 7} -> ReAddAll(s, L)
    [] op[1] = 8 -> ReDiscardAll(s, L)
    [] op[1] = 9 -> ReDiscardAll(s, s.cfg \ L)                         \* MutableSet.__iand__
    [] op[1] = 10 -> ReAddAll(ReInitB, L)
ReObsB(s) ==
  [edges |-> s.cfg, len |-> Cardinality(s.cfg),
   any   |-> [n \in ReNodes |-> B2I(s.re[n].has)],
   ret   |-> [n \in ReNodes |-> IF s.re[n].has THEN s.re[n].s ELSE {}],
   pret  |-> [n \in ReNodes |-> IF s.pre[n].has THEN s.pre[n].s ELSE {}]]

(***************************************************************************)
(* "mc"  make_return_cache(ir).  CFG objects: 1 the caller's original,     *)
(* 2 the ReturnEdgeCache made for it, 3 a plain CFG the body assigns to    *)
(* ir.cfg, 4 the ReturnEdgeCache made for 3 by a nested context.  Edges:   *)
(* 1 = 1->3 Return, 2 = 1->2 Fallthrough.  init = the edges of object 1.   *)
(*  1 enter  `with make_return_cache(ir) as c:`                            *)
(*  2 exit   the innermost body ends normally                              *)
(*  3 mutate <<3, obj, 1 add | 2 discard, e>> on any existing object       *)
(*  4 replace <<4, obj, 0, 0>>  ir.cfg = obj  (3 is created empty)         *)
(*  5 raise  an exception is raised in the innermost body                  *)
(* An exception (injected, or CFGModifiedError raised by an exit) unwinds  *)
(* every open context; the state is then final.  So is the state after the *)
(* outermost context exits normally.                                       *)
(***************************************************************************)
McEdges == 1..2
McInit(E) == [edges |-> [o \in 1..4 |-> IF o = 1 THEN E ELSE {}], made |-> {1}, cur |-> 1,
              stack |-> <<>>, exc |-> "", final |-> FALSE]
McIsCache(o) == o \in {2, 4}

\* the `finally:` of a frame that made a cache
McRestore(s, fr) == [s EXCEPT !.edges[fr.old] = s.edges[fr.cache], !.cur = fr.old]

RECURSIVE McUnwind(_)
McUnwind(s) ==
  IF s.stack = <<>> THEN [s EXCEPT !.final = TRUE]
  ELSE LET fr == s.stack[Len(s.stack)]
           s1 == [s EXCEPT !.stack = SubSeq(s.stack, 1, Len(s.stack) - 1)]
       IN  McUnwind(IF fr.pass THEN s1 ELSE McRestore(s1, fr))

McStep(s, op, pick) ==
  CASE op[1] = 1 ->
         IF McIsCache(s.cur)
         THEN R([s EXCEPT !.stack = Append(@, [pass |-> TRUE, old |-> 0, cache |-> s.cur, snap |-> {}])], "", 0)
         ELSE LET k == IF s.cur = 1 THEN 2 ELSE 4
              IN  R([s EXCEPT !.edges[k] = s.edges[s.cur], !.made = @ \cup {k}, !.cur = k,
                              !.stack = Append(@, [pass |-> FALSE, old |-> s.cur, cache |-> k,
                                                   snap |-> s.edges[s.cur]])], "", 0)
    [] op[1] = 2 ->
         LET fr == s.stack[Len(s.stack)]
             s1 == [s EXCEPT !.stack = SubSeq(s.stack, 1, Len(s.stack) - 1)]
         IN  IF fr.pass THEN R(IF s1.stack = <<>> THEN [s1 EXCEPT !.final = TRUE] ELSE s1, "", 0)
             ELSE IF s.edges[fr.old] # fr.snap \/ s.cur # fr.cache
             THEN R(McUnwind([McRestore(s1, fr) EXCEPT !.exc = "CFGModifiedError"]), "CFGModifiedError", 0)
             ELSE LET s2 == McRestore(s1, fr)
                  IN  R(IF s2.stack = <<>> THEN [s2 EXCEPT !.final = TRUE] ELSE s2, "", 0)
    [] op[1] = 3 ->
         R([s EXCEPT !.edges[op[2]] = IF op[3] = 1 THEN @ \cup {op[4]} ELSE @ \ {op[4]}], "", 0)
    [] op[1] = 4 ->
         R([s EXCEPT !.cur = op[2], !.made = @ \cup {op[2]}], "", 0)
    [] op[1] = 5 ->
         R(McUnwind([s EXCEPT !.exc = "Injected"]), "Injected", 0)

\* what is visible: which object ir.cfg is, the edges of every object made so
\* far, and the return-edge queries (node 1) of the caches
McObs(s) ==
  [cur |-> s.cur, depth |-> Len(s.stack),
   edges |-> [o \in 1..4 |-> IF o \in s.made THEN s.edges[o] ELSE {}],
   made |-> s.made,
   ret |-> [o \in {2, 4} |-> IF o \in s.made THEN s.edges[o] \cap {1} ELSE {}]]

McMaxDepth == N
McOps(s) ==
  IF s.final THEN {}
  ELSE
    (IF Len(s.stack) < McMaxDepth /\ (McIsCache(s.cur) \/ (IF s.cur = 1 THEN 2 ELSE 4) \notin s.made)
     THEN {<<1, 0, 0, 0>>} ELSE {})
    \cup (IF s.stack # <<>> THEN {<<2, 0, 0, 0>>, <<5, 0, 0, 0>>} ELSE {})
    \cup (IF s.stack # <<>> THEN {<<3, o, a, e>> : o \in s.made, a \in 1..2, e \in McEdges} ELSE {})
    \cup (IF s.stack # <<>> THEN {<<4, o, 0, 0>> : o \in (s.made \cup {3}) \ {s.cur}} ELSE {})

\* The exit contract, as a property of the model itself: whenever everything
\* has been left, ir.cfg is the caller's object again and holds the edges the
\* outermost cache had when it was left.
McContract(s) == s.final => s.cur = 1 /\ (2 \in s.made => s.edges[1] = s.edges[2])

(***************************************************************************)
(* Dispatch                                                                *)
(***************************************************************************)
AStep(k, s, op, pick) ==
  CASE k = "bo" -> BoStep(s, op, pick) [] k = "om" -> OmStep(s, op, pick)
    [] k = "is" -> IsStep(s, op, pick) [] k = "re" -> ReStep(s, op, pick)
    [] k = "mc" -> McStep(s, op, pick)
AObs(k, s) ==
  CASE k = "bo" -> BoObs(s) [] k = "om" -> OmObs(s) [] k = "is" -> IsObs(s)
    [] k = "re" -> ReObs(s) [] k = "mc" -> McObs(s)
AOps(k, s) ==
  CASE k = "bo" -> BoOps(s) [] k = "om" -> OmOps(s) [] k = "is" -> IsOps(s)
    [] k = "re" -> ReOps(s) [] k = "mc" -> McOps(s)
\* abstract initial states and the `init` value that stands for them in a case
AInits(k) ==
  CASE k = "bo" -> {<<0, {}>>}
    [] k = "om" -> {<<0, [x \in 1..N |-> OmAbsent]>>}
    [] k = "is" -> {<<0, {}>>}
    [] k = "re" -> {<<0, {}>>}
    [] k = "mc" -> {<<Bits(E), McInit(E)>> : E \in SUBSET McEdges}
\* the elements a `pop` may return
Picks(k, s, op) == IF k \in {"is", "re"} /\ op[1] = 4 /\ s # {} THEN s ELSE {0}

BInit(k) == CASE k = "bo" -> BoInitB [] k = "re" -> ReInitB [] OTHER -> 0
BStep(k, b, op, pick) ==
  CASE k = "bo" -> BoStepB(b, op).st
    [] k = "re" -> ReStepB(b, op, pick)
    [] OTHER -> b

Init == \E i \in AInits(Machine) :
          /\ st = [a |-> i[2], b |-> BInit(Machine)]
          /\ hist = <<i[1], <<>>>>

Next == \E op \in AOps(Machine, st.a) :
          \E pick \in Picks(Machine, st.a, op) :
            LET r == AStep(Machine, st.a, op, pick)
            IN  /\ st' = [a |-> r.st, b |-> BStep(Machine, st.b, op, pick)]
                /\ hist' = <<hist[1], Append(hist[2], op)>>
                \* Level B raises exactly when Level A does
                /\ Machine = "bo" => Assert(BoStepB(st.b, op).exc = r.exc, <<"bo exc", op, r.exc>>)

Spec == Init /\ [][Next]_<<st, hist>>
View == st

\* Level B refines Level A and is well formed
Refines ==
  CASE Machine = "bo" -> BoAbs(st.b) = st.a /\ BoWF(st.b) /\ st.b.ord = BoOrdered(st.a)
    [] Machine = "re" -> ReObsB(st.b) = ReObs(st.a)
                         /\ \A n \in ReNodes : (st.b.re[n].has <=> st.b.re[n].s # {})
                                               /\ (st.b.pre[n].has <=> st.b.pre[n].s # {})
    [] Machine = "mc" -> McContract(st.a)
    [] OTHER -> TRUE

TypeOK ==
  CASE Machine = "bo" -> /\ \A ch \in st.a : ch # <<>> /\ Cardinality(Range(ch)) = Len(ch)
                         /\ \A c1, c2 \in st.a : c1 # c2 => Range(c1) \cap Range(c2) = {}
    [] Machine = "om" -> \A x \in 1..N : st.a[x].d \in [Disps -> 0..2] /\ (~st.a[x].has => st.a[x] = OmAbsent)
    [] Machine = "is" -> st.a \subseteq 1..N
    [] Machine = "re" -> st.a \subseteq 1..6
    [] Machine = "mc" -> st.a.cur \in st.a.made /\ Len(st.a.stack) <= McMaxDepth

EmitCase ==
  Emit => PrintT("CASE " \o ToJson([k |-> Machine, n |-> N, init |-> hist[1], wit |-> hist[2],
                                     en |-> AOps(Machine, st.a)]))
=============================================================================
