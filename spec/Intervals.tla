------------------------------ MODULE Intervals ------------------------------
(***************************************************************************)
(* C10: split_byte_interval / join_byte_intervals / the empty rewrite.     *)
(*                                                                         *)
(* A byte interval is abstract state                                       *)
(*    iv  = [id, addr (-1 = none), size, init, by, blocks, sx]             *)
(*    by      the initialized bytes (tokens), Len(by) = init <= size       *)
(*    blocks  <<[id, k ("c" code / "d" data), o, s]>> zero-sized,          *)
(*            overlapping and beyond-initialized blocks included; id 0 =   *)
(*            created by the library (padding)                             *)
(*    sx      <<[o, v]>> symbolic expressions                              *)
(*    st  = [ivs, items, al]                                               *)
(*    items   offset-keyed annotations [t, kk ("bi"/"blk"), own, d, v]     *)
(*    al      alignment requirements <<[b, a]>>                            *)
(* which is exactly what harness/intervals/runner.py projects.             *)
(*                                                                         *)
(* LEVEL A  (judges the real code, TraceIntervals.tla):                    *)
(*    C10_SplitPreserves  C10_JoinInverts  C10_AlignmentHolds              *)
(*    C10_PaddingLegal    C10_EmptyApplyIdentity  C10_Completes            *)
(*  written over projected states only; ties that the code breaks by the   *)
(*  iteration order of a set (equal block offsets) are existentially       *)
(*  quantified, so every tie-breaking is accepted.                         *)
(* LEVEL B  (mirrors intervalutils.py): SplitB, JoinB - groups of          *)
(*  overlapping blocks, reverse processing with the running `offset`, the  *)
(*  min/max clamps, `>= group.begin` transfers, `address`, `deltas`,       *)
(*  insert_padding with its padding blocks, PaddingError.                  *)
(* MODEL: Init enumerates the COMPLETE finite layout space of the          *)
(*  configuration; actions Split, Grow, Annotate, Join run Level B; the    *)
(*  invariants state that Level B satisfies Level A on every layout (U1)   *)
(*  and every layout is printed as a case (U3).                            *)
(***************************************************************************)
EXTENDS Integers, Sequences, FiniteSets, TLC, Json, SequencesExt, Functions, FiniteSetsExt

CONSTANTS MaxSize,     \* interval sizes 0..MaxSize
          MaxBlocks,   \* 0..MaxBlocks blocks, every (offset, size) inside the interval
          Inits,       \* "all": initialized_size in 0..size; "full": = size; "partial": < size
          KindMode,    \* "full": every code/data assignment; "alt": 3rd block copies the 1st;
                       \* "two": all code / all data; "one": all code
          AlignVals,   \* subset of {2, 4, 8}
          MaxAligned,  \* at most this many blocks carry an alignment
          ItemMode,    \* "none" | "dense" | "sparse"
          MaxItems,    \* sparse: at most this many annotated offsets
          Addrs,       \* subset of {"none", "4096", "4100"} (4100: a start address that is no multiple of the alignments): interval without / with an address
          Grows,       \* bytes appended to the first interval between split and join
          Lates,       \* BOOLEAN: model an annotation added to the last interval between split and join
          AddAligns,   \* alignments a rewrite may add (to a block of a later interval) between split and join
          OnlyTiled,   \* BOOLEAN: only layouts whose blocks are code and tile the interval (patch cases)
          NopKinds,    \* subset of {"1", "4", "u"}: nop size used by the model's Join
          VariantSet,  \* which call variants a case is run under (harness side)
          Rotate,      \* 0: all variants of the set; k: k of them, rotating with the layout
          Emit         \* print cases

(***************************************************************************)
(* Basics                                                                  *)
(***************************************************************************)
Min2(a, b) == IF a < b THEN a ELSE b
Max2(a, b) == IF a > b THEN a ELSE b
Sum(s) == FoldLeft(LAMBDA a, b : a + b, 0, s)
Zeros(k) == [i \in 1..k |-> 0]
Repeat(pat, k) == [i \in 1..(k * Len(pat)) |-> pat[((i - 1) % Len(pat)) + 1]]
AlignUp(x, a) == ((x + a - 1) \div a) * a          \* utils.align_address for a >= 1
NoBlock == [id |-> -1, k |-> "n", o |-> 0, s |-> 0]

DefaultTables == {"comments", "padding", "symbolicExpressionSizes"}
CustomTables == {"x:com", "x:pad", "x:sxs"}

AbiNop(isa) == CASE isa \in {"x64", "ia32"} -> <<144>>
                 [] isa = "arm64" -> <<31, 32, 3, 213>>
                 [] isa = "mips32" -> <<0, 0, 0, 0>>
                 [] OTHER -> <<>>

AlignOf(st, id) ==
  LET c == SelectSeq(st.al, LAMBDA e : e.b = id)
  IN  IF id <= 0 \/ c = <<>> THEN 0 ELSE c[1].a

Cum(ivs) == [j \in 1..Len(ivs) |-> Sum([i \in 1..(j - 1) |-> ivs[i].size])]
\* the interval an offset of the original interval belongs to after a split:
\* the last one that starts at or before it (the byte travels with its interval,
\* the end offset belongs to the last interval)
Home(cum, p) == CHOOSE j \in DOMAIN cum : cum[j] <= p /\ \A i \in DOMAIN cum : cum[i] <= p => i <= j

ByteAt(iv, i) == IF i < iv.init THEN iv.by[i + 1] ELSE -1
ByteMap(ivs) == FlattenSeq([j \in 1..Len(ivs) |-> [i \in 1..ivs[j].size |-> ByteAt(ivs[j], i - 1)]])
NBlocks(ivs) == Sum([j \in DOMAIN ivs |-> Len(ivs[j].blocks)])
BlockFacts(ivs) ==
  LET cum == Cum(ivs)
  IN  UNION {{[id |-> b.id, k |-> b.k, s |-> b.s, p |-> cum[j] + b.o] : b \in Range(ivs[j].blocks)} : j \in DOMAIN ivs}
SxFacts(ivs) ==
  UNION {{[iv |-> ivs[j].id, d |-> x.o, v |-> x.v] : x \in Range(ivs[j].sx)} : j \in DOMAIN ivs}
NSx(ivs) == Sum([j \in DOMAIN ivs |-> Len(ivs[j].sx)])

(***************************************************************************)
(* Overlap groups (vocabulary of the property statement)                   *)
(***************************************************************************)
Shares(x, y) == Max2(x.o, y.o) < Min2(x.o + x.s, y.o + y.s)        \* share a byte
Inside(z, y) == z.s = 0 /\ y.o < z.o /\ z.o < y.o + y.s            \* empty block strictly inside
Must(x, y) == Shares(x, y) \/ Inside(x, y) \/ Inside(y, x)
\* an empty block at the very start of another block may or may not be grouped
\* with it (the code decides by set iteration order)
Touch(z, y) == z.s = 0 /\ y.s > 0 /\ z.o = y.o
May(x, y) == Must(x, y) \/ Touch(x, y) \/ Touch(y, x)

MayClosure(bs) ==
  LET n == Cardinality(bs)
      E0 == {<<x.id, y.id>> : <<x, y>> \in {p \in bs \X bs : p[1].id = p[2].id \/ May(p[1], p[2])}}
      R[k \in 0..n] ==
        IF k = 0 THEN E0
        ELSE R[k - 1] \cup {<<p[1][1], p[2][2]>> : p \in {q \in R[k - 1] \X R[k - 1] : q[1][2] = q[2][1]}}
  IN  R[n]

(***************************************************************************)
(* LEVEL A: split                                                          *)
(***************************************************************************)
ExpSxSplit(iv, out) ==
  LET cum == Cum(out)
  IN  {[iv |-> out[Home(cum, x.o)].id, d |-> x.o - cum[Home(cum, x.o)], v |-> x.v] : x \in Range(iv.sx)}

ExpItemsSplit(pre, out, T) ==
  LET cum == Cum(out)
      iv == pre.ivs[1]
  IN  {IF it.kk = "bi" /\ it.own = iv.id /\ it.t \in T /\ it.d >= 0
       THEN [it EXCEPT !.own = out[Home(cum, it.d)].id, !.d = it.d - cum[Home(cum, it.d)]]
       ELSE it : it \in Range(pre.items)}

\* "ok" or the name of the first conjunct that fails
SplitDiag(pre, mid, T) ==
  LET iv == pre.ivs[1]
      out == mid.ivs
      cum == Cum(out)
      pb == Range(iv.blocks)
      loc == UNION {{<<b.id, j>> : b \in Range(out[j].blocks)} : j \in DOMAIN out}
      J(id) == CHOOSE j \in DOMAIN out : <<id, j>> \in loc
      cl == MayClosure(pb)
  IN  IF Len(out) < 1 \/ out[1].id # iv.id THEN "first_is_original"
      ELSE IF Cardinality({out[j].id : j \in DOMAIN out}) # Len(out) THEN "distinct_intervals"
      ELSE IF \E j \in DOMAIN out : out[j].addr # (IF iv.addr = -1 THEN -1 ELSE iv.addr + cum[j]) THEN "interval_address"
      ELSE IF \E j \in DOMAIN out : out[j].init > out[j].size THEN "initialized_size"
      ELSE IF ByteMap(out) # ByteMap(<<iv>>) THEN "bytes"
      ELSE IF BlockFacts(out) # BlockFacts(<<iv>>) \/ NBlocks(out) # Len(iv.blocks) THEN "block_kept"
      ELSE IF \E j \in 2..Len(out) : ~\E b \in Range(out[j].blocks) : b.o = 0 THEN "gap_goes_with_preceding"
      ELSE IF \E x, y \in pb : x.id # y.id /\ Must(x, y) /\ J(x.id) # J(y.id) THEN "overlapping_together"
      ELSE IF \E x, y \in pb : J(x.id) = J(y.id) /\ <<x.id, y.id>> \notin cl THEN "one_group_per_interval"
      ELSE IF SxFacts(out) # ExpSxSplit(iv, out) \/ NSx(out) # Len(iv.sx) THEN "symbolic_expressions"
      ELSE IF Range(mid.items) # ExpItemsSplit(pre, out, T) \/ Len(mid.items) # Len(pre.items) THEN "annotations"
      ELSE IF mid.al # pre.al THEN "alignment_table"
      ELSE "ok"

C10_SplitPreserves(pre, mid, T) == SplitDiag(pre, mid, T) = "ok"

(***************************************************************************)
(* Reference semantics of the split for a given processing order of the    *)
(* blocks (sorted by offset; the order among equal offsets is the          *)
(* parameter).  Used where the intermediate state is not observable (the   *)
(* empty rewrite) and as the model's cross-check of Level B.               *)
(***************************************************************************)
ProcOrder(bs) ==       \* stable sort by offset
  IF bs = <<>> THEN bs
  ELSE LET mx == Max({bs[i].o : i \in DOMAIN bs})
       IN  FlattenSeq([o \in 1..(mx + 1) |-> SelectSeq(bs, LAMBDA b : b.o = o - 1)])

\* the order split_byte_interval itself uses: sorted(key=(offset, size != 0)),
\* stable on the iteration order of the block set
ProcOrderB(bs) ==
  IF bs = <<>> THEN bs
  ELSE LET mx == Max({bs[i].o : i \in DOMAIN bs})
       IN  FlattenSeq([o \in 1..(mx + 1) |-> SelectSeq(bs, LAMBDA b : b.o = o - 1 /\ b.s = 0)
                                              \o SelectSeq(bs, LAMBDA b : b.o = o - 1 /\ b.s # 0)])

GroupsOf(bs) ==        \* bs in processing order
  LET F[i \in 0..Len(bs)] ==
        IF i = 0 THEN <<>>
        ELSE LET g == F[i - 1]
                 b == bs[i]
             IN  IF g = <<>> \/ g[Len(g)].end <= b.o
                 THEN Append(g, [begin |-> b.o, end |-> b.o + b.s, blocks |-> <<b>>])
                 ELSE [g EXCEPT ![Len(g)] = [begin |-> @.begin, end |-> Max2(@.end, b.o + b.s),
                                             blocks |-> Append(@.blocks, b)]]
  IN  F[Len(bs)]

SplitSpec(st, order, T) ==
  LET iv == st.ivs[1]
      gs == GroupsOf(order)
      K == Max2(Len(gs), 1)
      cut == [j \in 1..(K + 1) |-> IF j = 1 THEN 0 ELSE IF j = K + 1 THEN iv.size ELSE gs[j].begin]
      cum == [j \in 1..K |-> cut[j]]
      mk(j) ==
        [id |-> iv.id + j - 1,
         addr |-> IF iv.addr = -1 THEN -1 ELSE iv.addr + cut[j],
         size |-> cut[j + 1] - cut[j],
         init |-> Min2(Max2(iv.init - cut[j], 0), cut[j + 1] - cut[j]),
         by |-> SubSeq(iv.by, cut[j] + 1, Min2(iv.init, cut[j + 1])),
         blocks |-> IF gs = <<>> THEN <<>>
                    ELSE [i \in DOMAIN gs[j].blocks |-> [gs[j].blocks[i] EXCEPT !.o = @ - cut[j]]],
         sx |-> LET mine == SelectSeq(iv.sx, LAMBDA x : Home(cum, x.o) = j)
                IN  [i \in DOMAIN mine |-> [mine[i] EXCEPT !.o = @ - cut[j]]]]
      out == [j \in 1..K |-> mk(j)]
  IN  [ivs |-> out,
       items |-> [i \in DOMAIN st.items |->
                    LET it == st.items[i]
                    IN  IF it.kk = "bi" /\ it.own = iv.id /\ it.t \in T
                        THEN [it EXCEPT !.own = out[Home(cum, it.d)].id, !.d = it.d - cum[Home(cum, it.d)]]
                        ELSE it],
       al |-> st.al]

\* all processing orders (every tie-breaking among equal offsets)
Orders(bs) == {ProcOrder([i \in DOMAIN bs |-> bs[p[i]]]) : p \in Permutations(DOMAIN bs)}

\* equality of states up to the listing order of blocks / items
IvNorm(iv) == [iv EXCEPT !.blocks = Range(iv.blocks), !.sx = Range(iv.sx)]
SameIvs(a, b) == Len(a) = Len(b) /\ \A j \in DOMAIN a : IvNorm(a[j]) = IvNorm(b[j]) /\ Len(a[j].blocks) = Len(b[j].blocks)
SameState(a, b) == SameIvs(a.ivs, b.ivs) /\ Range(a.items) = Range(b.items) /\ Len(a.items) = Len(b.items)
                   /\ Range(a.al) = Range(b.al)

(***************************************************************************)
(* LEVEL B: split_byte_interval, line by line.  The listing order of       *)
(* iv.blocks is the iteration order of interval.blocks.                    *)
(***************************************************************************)
SplitB(st, T) ==
  LET iv == st.ivs[1]
      sorted == ProcOrderB(iv.blocks)                 \* sorted(interval.blocks, key=(offset, size != 0))
      groups == GroupsOf(sorted)
      rev == IF groups = <<>> THEN <<>> ELSE Front(Reverse(groups))    \* groups.reverse(); groups.pop()
      L[i \in 0..Len(rev)] ==
        IF i = 0 THEN [offset |-> iv.size, size |-> iv.size, by |-> iv.by, news |-> <<>>]
        ELSE LET a == L[i - 1]
                 g == rev[i]
                 nb == SubSeq(a.by, g.begin + 1, Len(a.by))                   \* interval.contents[group.begin:]
                 off2 == Min2(a.size, g.begin)
             IN  [offset |-> off2,
                  size |-> Min2(a.size, off2),
                  by |-> SubSeq(a.by, 1, Min2(Len(a.by), off2)),             \* initialized_size = min(.., offset)
                  news |-> Append(a.news,
                     [addr |-> IF iv.addr = -1 THEN -1 ELSE iv.addr + g.blocks[1].o,
                      size |-> Max2(a.offset - g.begin, 0), init |-> Len(nb), by |-> nb,
                      blocks |-> [q \in DOMAIN g.blocks |-> [g.blocks[q] EXCEPT !.o = @ - g.begin]]])]
      fin == L[Len(rev)]
      \* zip(groups, intervals): the first group (in decreasing order) whose begin is <= the offset takes it
      Dest(d) == LET c == {i \in DOMAIN rev : d >= rev[i].begin} IN IF c = {} THEN 0 ELSE Min(c)
      n == Len(rev)
      \* intervals.reverse(): original first, then the new ones by increasing offset
      newAt(j) == fin.news[n - j + 2]                                       \* j = 2..n+1
      revAt(j) == rev[n - j + 2]
      pos(i) == n - i + 2                                                    \* rev index -> position in result
      sxOf(j) == IF j = 1 THEN SelectSeq(iv.sx, LAMBDA x : Dest(x.o) = 0)
                 ELSE LET mine == SelectSeq(iv.sx, LAMBDA x : Dest(x.o) # 0 /\ pos(Dest(x.o)) = j)
                      IN  [q \in DOMAIN mine |-> [mine[q] EXCEPT !.o = @ - revAt(j).begin]]
      out == [j \in 1..(n + 1) |->
                IF j = 1 THEN [id |-> iv.id, addr |-> iv.addr, size |-> fin.size, init |-> Len(fin.by), by |-> fin.by,
                               blocks |-> IF groups = <<>> THEN <<>> ELSE groups[1].blocks, sx |-> sxOf(1)]
                ELSE [id |-> iv.id + j - 1, addr |-> newAt(j).addr, size |-> newAt(j).size, init |-> newAt(j).init,
                      by |-> newAt(j).by, blocks |-> newAt(j).blocks, sx |-> sxOf(j)]]
  IN  [ivs |-> out,
       items |-> [i \in DOMAIN st.items |->
                    LET it == st.items[i]
                    IN  IF it.kk = "bi" /\ it.own = iv.id /\ it.t \in T /\ Dest(it.d) # 0
                        THEN [it EXCEPT !.own = iv.id + pos(Dest(it.d)) - 1, !.d = it.d - rev[Dest(it.d)].begin]
                        ELSE it],
       al |-> st.al]

(***************************************************************************)
(* LEVEL A: join.  Reference semantics parameterized by the two choices    *)
(* the code makes by set iteration order / by policy:                      *)
(*   lastPick   the block that counts as "last" of an interval among those *)
(*              with the greatest offset (its kind selects nop / zero)     *)
(*   alignPick  the aligned block of an interval whose requirement the     *)
(*              padding establishes (the code: the first one; any is       *)
(*              accepted here, C10_AlignmentHolds judges the consequence)  *)
(***************************************************************************)
MaxOffBlocks(iv) ==
  LET bs == Range(iv.blocks)
  IN  {b.id : b \in {x \in bs : \A y \in bs : y.o <= x.o}}
AlignedBlocks(st, iv) == {b.id : b \in {x \in Range(iv.blocks) : AlignOf(st, x.id) > 0}}

OnePerInterval(cands) ==      \* cands: sequence of sets; all sets P with exactly one element of each non-empty one
  LET U == UNION {cands[j] : j \in DOMAIN cands}
  IN  {P \in SUBSET U : \A j \in DOMAIN cands : cands[j] # {} => Cardinality(P \cap cands[j]) = 1}

LastChoices(st) == OnePerInterval([j \in DOMAIN st.ivs |-> MaxOffBlocks(st.ivs[j])])
AlignChoices(st) == OnePerInterval([j \in DOMAIN st.ivs |-> IF j = 1 THEN {} ELSE AlignedBlocks(st, st.ivs[j])])

BlockById(iv, ids) == LET c == SelectSeq(iv.blocks, LAMBDA b : b.id \in ids) IN IF c = <<>> THEN NoBlock ELSE c[1]

JoinSpec(st, nop, T, lastPick, alignPick) ==
  LET ivs == st.ivs
      K == Len(ivs)
      base == IF ivs[1].addr = -1 THEN 0 ELSE ivs[1].addr
      Fill(a, len, grows) ==
        IF len = 0 THEN a
        ELSE IF a.lastk = "c" /\ (nop = <<>> \/ len % Len(nop) # 0) THEN [a EXCEPT !.exc = "PaddingError"]
        ELSE [a EXCEPT !.by = @ \o (IF a.lastk = "c" THEN Repeat(nop, len \div Len(nop)) ELSE Zeros(len)),
                       !.size = @ + (IF grows THEN len ELSE 0),
                       !.adds = Append(@, [from |-> Len(a.by), to |-> Len(a.by) + len, added |-> grows,
                                           k |-> IF a.lastk = "c" THEN "c" ELSE "d"])]
      A[j \in 1..K] ==
        IF j = 1
        THEN [by |-> ivs[1].by, size |-> ivs[1].size, lastk |-> BlockById(ivs[1], lastPick).k,
              deltas |-> <<0>>, adds |-> <<>>, exc |-> ""]
        ELSE LET a0 == A[j - 1] IN
             IF a0.exc # "" THEN a0 ELSE
             LET a1 == Fill(a0, a0.size - Len(a0.by), FALSE) IN      \* uninitialized bytes before a later interval
             IF a1.exc # "" THEN a1 ELSE
             LET nd == BlockById(ivs[j], alignPick)
                 pad == IF nd.id = -1 THEN 0
                        ELSE AlignUp(base + a1.size + nd.o, AlignOf(st, nd.id)) - (base + a1.size + nd.o)
                 a2 == Fill(a1, pad, TRUE)
             IN  IF a2.exc # "" THEN a2 ELSE
                 [by |-> a2.by \o ivs[j].by, size |-> a2.size + ivs[j].size,
                  lastk |-> IF ivs[j].blocks = <<>> THEN a2.lastk ELSE BlockById(ivs[j], lastPick).k,
                  deltas |-> Append(a2.deltas, Len(a2.by)), adds |-> a2.adds, exc |-> ""]
      fin == A[K]
      shiftB(j) == [i \in DOMAIN ivs[j].blocks |-> [ivs[j].blocks[i] EXCEPT !.o = @ + fin.deltas[j]]]
      shiftX(j) == [i \in DOMAIN ivs[j].sx |-> [ivs[j].sx[i] EXCEPT !.o = @ + fin.deltas[j]]]
      idx(id) == CHOOSE j \in DOMAIN ivs : ivs[j].id = id
      others == {ivs[j].id : j \in 2..K}
  IN  IF K < 2 THEN [exc |-> "", adds |-> <<>>, dest |-> ivs[1], items |-> st.items]
      ELSE IF fin.exc # "" THEN [exc |-> fin.exc, adds |-> <<>>, dest |-> ivs[1], items |-> st.items]
      ELSE [exc |-> "", adds |-> fin.adds,
            dest |-> [id |-> ivs[1].id, addr |-> ivs[1].addr, size |-> fin.size, init |-> Len(fin.by), by |-> fin.by,
                      blocks |-> FlattenSeq([j \in 1..K |-> shiftB(j)]),
                      sx |-> FlattenSeq([j \in 1..K |-> shiftX(j)])],
            items |-> [i \in DOMAIN st.items |->
                         LET it == st.items[i]
                         IN  IF it.kk = "bi" /\ it.own \in others /\ it.t \in T
                             THEN [it EXCEPT !.own = ivs[1].id, !.d = @ + fin.deltas[idx(it.own)]]
                             ELSE it]]

\* "ok" or the first difference between the observed result of a join and a
\* reference result r.  Blocks created by the library (id 0) are judged only by
\* what the statement says about them: they cover every byte added for alignment
\* with the right kind and end where a run of added / materialized bytes ends.
OldBlocks(iv) == {b \in Range(iv.blocks) : b.id # 0}
NewBlocks(iv) == {b \in Range(iv.blocks) : b.id = 0}
JoinDiag(post, ret, r) ==
  LET d == post.ivs[1]
      e == r.dest
      nb == NewBlocks(d)
  IN  IF ret # e.id \/ d.id # e.id \/ d.addr # e.addr THEN "destination"
      ELSE IF d.size # e.size THEN "size"
      ELSE IF d.init # e.init \/ d.by # e.by THEN "bytes"
      ELSE IF OldBlocks(d) # Range(e.blocks) \/ Cardinality(OldBlocks(d)) + Cardinality(nb) # Len(d.blocks) THEN "blocks"
      ELSE IF \E a \in {x \in Range(r.adds) : x.added} : \E p \in a.from..(a.to - 1) :
                 ~\E b \in Range(d.blocks) : (b.id # 0 \/ b.k = a.k) /\ b.o <= p /\ p < b.o + b.s THEN "padding_not_in_block"
      ELSE IF \E b \in nb : ~\E a \in Range(r.adds) : a.k = b.k /\ b.o + b.s = a.to /\ b.s > 0 THEN "padding_block_extent"
      ELSE IF Range(d.sx) # Range(e.sx) \/ Len(d.sx) # Len(e.sx) THEN "symbolic_expressions"
      ELSE IF Range(post.items) # Range(r.items) \/ Len(post.items) # Len(r.items) THEN "annotations"
      ELSE IF \E j \in 2..Len(post.ivs) : post.ivs[j].blocks # <<>> \/ post.ivs[j].init # 0 \/ post.ivs[j].sx # <<>>
           THEN "sources_emptied"
      ELSE "ok"

\* C10_PaddingLegal: the observed outcome (exception or final state) is the
\* reference outcome for some admissible choice.
PaddingLegal(mid, post, ret, exc, nop, T) ==
  \E lp \in LastChoices(mid) : \E ap \in AlignChoices(mid) :
     LET r == JoinSpec(mid, nop, T, lp, ap)
     IN  r.exc = exc /\ (exc = "" => JoinDiag(post, ret, r) = "ok")

\* the choice the code makes when no offsets tie (for the diff of a failure)
FirstChoice(cands) == {Min(cands[j]) : j \in {i \in DOMAIN cands : cands[i] # {}}}
PaddingDiff(mid, post, ret, exc, nop, T) ==
  LET lp == FirstChoice([j \in DOMAIN mid.ivs |-> MaxOffBlocks(mid.ivs[j])])
      firstAl(iv) == LET A == {b \in Range(iv.blocks) : AlignOf(mid, b.id) > 0}
                     IN  {b.id : b \in {x \in A : \A y \in A : x.o <= y.o}}
      ap == FirstChoice([j \in DOMAIN mid.ivs |-> IF j = 1 THEN {} ELSE firstAl(mid.ivs[j])])
      r == JoinSpec(mid, nop, T, lp, ap)
  IN  IF r.exc # exc THEN <<"exception", r.exc, exc>>
      ELSE <<JoinDiag(post, ret, r), r.dest.size, r.dest.by>>

\* C10_JoinInverts: for a fully initialized interval whose alignment requirements
\* hold, join(split(bi)) = bi exactly (no block is added, nothing moves).
RequirementHolds(st, base, p, id) == AlignOf(st, id) = 0 \/ (base + p) % AlignOf(st, id) = 0
Base(iv) == IF iv.addr = -1 THEN 0 ELSE iv.addr
Invertible(pre) ==
  LET iv == pre.ivs[1]
  IN  /\ iv.init = iv.size
      /\ \A b \in Range(iv.blocks) : RequirementHolds(pre, Base(iv), b.o, b.id)
InvertDiag(pre, post) ==
  LET a == pre.ivs[1]
      b == post.ivs[1]
  IN  IF IvNorm(a) # IvNorm(b) \/ Len(a.blocks) # Len(b.blocks) THEN "interval"
      ELSE IF Range(pre.items) # Range(post.items) \/ Len(pre.items) # Len(post.items) THEN "annotations"
      ELSE IF Range(pre.al) # Range(post.al) THEN "alignment_table"
      ELSE "ok"
C10_JoinInverts(pre, post) == InvertDiag(pre, post) = "ok"

\* C10_AlignmentHolds: a requirement that held before holds after.
PosOf(iv, id) == LET c == SelectSeq(iv.blocks, LAMBDA b : b.id = id) IN IF c = <<>> THEN -1 ELSE c[1].o
Broken(pre, post) ==
  LET a == pre.ivs[1]
      d == post.ivs[1]
  IN  {b.id : b \in {x \in Range(a.blocks) :
                        /\ AlignOf(pre, x.id) > 0
                        /\ (Base(a) + x.o) % AlignOf(pre, x.id) = 0
                        /\ (PosOf(d, x.id) = -1 \/ (Base(d) + PosOf(d, x.id)) % AlignOf(pre, x.id) # 0)}}
C10_AlignmentHolds(pre, post) == Broken(pre, post) = {}

\* The requirements of one overlap group can hold together (the blocks of a
\* group keep their distances): there is a shift that satisfies all of them.
GroupConsistent(st, g) ==
  \E sh \in 0..7 : \A b \in Range(g.blocks) : AlignOf(st, b.id) = 0 \/ (b.o + sh) % AlignOf(st, b.id) = 0
AlignConsistent(pre) ==
  \A order \in Orders(pre.ivs[1].blocks) : \A g \in Range(GroupsOf(order)) : GroupConsistent(pre, g)

(***************************************************************************)
(* LEVEL A: the empty rewrite.  RewritingContext(module).apply() without   *)
(* modifications: symbols, CFG, function tables, sections, entry point and *)
(* the other intervals are unchanged, the only new aux table is            *)
(* leafFunctions, and an interval that is fully initialized and aligned is *)
(* unchanged itself; what may happen to the other intervals is bounded by  *)
(* C10_PaddingLegal / C10_AlignmentHolds on split followed by join.        *)
(* x = the module-level observations of runner.module_extras.              *)
(***************************************************************************)
ExtDiag(a, b) ==
  IF a.syms # b.syms THEN "symbols"
  ELSE IF a.edges # b.edges THEN "cfg"
  ELSE IF a.fns # b.fns THEN "function_tables"
  ELSE IF a.secs # b.secs THEN "sections"
  ELSE IF a.entry # b.entry \/ a.nproxy # b.nproxy THEN "entry_or_proxies"
  ELSE IF Range(b.aux) # Range(a.aux) \cup {"leafFunctions"} THEN "aux_tables"
  ELSE "ok"
EmptyApplyDiag(pre1, post1, otherPre, otherPost, prex, postx) ==
  IF otherPost # otherPre THEN "other_interval"
  ELSE IF ExtDiag(prex, postx) # "ok" THEN ExtDiag(prex, postx)
  ELSE IF Invertible(pre1) THEN InvertDiag(pre1, post1)
  ELSE "ok"
C10_EmptyApplyIdentity(pre1, post1, otherPre, otherPost, prex, postx) ==
  EmptyApplyDiag(pre1, post1, otherPre, otherPost, prex, postx) = "ok"

(***************************************************************************)
(* LEVEL B: join_byte_intervals, line by line.                             *)
(***************************************************************************)
JoinB(st, nop, T) ==
  LET ivs == st.ivs
      K == Len(ivs)
      d0 == ivs[1]
      FirstMax(bs, default) ==            \* max(blocks, key=offset, default=..): the first maximum in iteration order
        IF bs = <<>> THEN default
        ELSE LET m == Max({bs[i].o : i \in DOMAIN bs}) IN bs[Min({i \in DOMAIN bs : bs[i].o = m})]
      FirstMinAligned(bs) ==              \* min((b for b in blocks if b in alignment), key=offset, default=interval)
        LET A == {i \in DOMAIN bs : AlignOf(st, bs[i].id) > 0}
        IN  IF A = {} THEN NoBlock
            ELSE LET m == Min({bs[i].o : i \in A}) IN bs[Min({i \in A : bs[i].o = m})]
      Pad(a, len) ==                      \* insert_padding(size)
        IF len = 0 THEN a
        ELSE IF a.last.k = "c" /\ nop = <<>> THEN [a EXCEPT !.exc = "PaddingError"]     \* cannot determine nop
        ELSE IF a.last.k = "c" /\ len % Len(nop) # 0 THEN [a EXCEPT !.exc = "PaddingError"]
        ELSE LET by2 == a.by \o (IF a.last.k = "c" THEN Repeat(nop, len \div Len(nop)) ELSE Zeros(len))
                 po == IF a.last.k = "n" THEN 0 ELSE a.last.o + a.last.s
                 ps == Len(by2) - po
             IN  [a EXCEPT !.by = by2,
                           !.blocks = IF ps > 0
                                      THEN Append(@, [id |-> 0, k |-> IF a.last.k = "c" THEN "c" ELSE "d", o |-> po, s |-> ps])
                                      ELSE @]
      A[j \in 1..K] ==
        IF j = 1
        THEN [by |-> d0.by, size |-> d0.size, address |-> Base(d0) + d0.size, blocks |-> d0.blocks,
              last |-> FirstMax(d0.blocks, NoBlock), deltas |-> <<0>>, exc |-> ""]
        ELSE LET a0 == A[j - 1] IN
             IF a0.exc # "" THEN a0 ELSE
             LET iv == ivs[j]
                 a1 == Pad(a0, a0.size - Len(a0.by)) IN
             IF a1.exc # "" THEN a1 ELSE
             LET node == FirstMinAligned(iv.blocks)
                 off == IF node.id = -1 THEN 0 ELSE node.o
                 bnd == IF node.id = -1 THEN 1 ELSE AlignOf(st, node.id)
                 sz == AlignUp(a1.address + off, bnd) - (a1.address + off)
                 a2 == Pad(a1, sz) IN
             IF a2.exc # "" THEN a2 ELSE
             LET delta == Len(a2.by)                                  \* deltas[interval] = len(destination.contents)
                 lastj == FirstMax(iv.blocks, a2.last)
             IN  [by |-> a2.by \o iv.by, size |-> a2.size + sz + iv.size,
                  address |-> a2.address + sz + iv.size,
                  blocks |-> a2.blocks \o [i \in DOMAIN iv.blocks |-> [iv.blocks[i] EXCEPT !.o = @ + delta]],
                  last |-> IF iv.blocks = <<>> THEN a2.last ELSE [lastj EXCEPT !.o = @ + delta],
                  deltas |-> Append(a2.deltas, delta), exc |-> ""]
      fin == A[K]
      idx(id) == CHOOSE j \in DOMAIN ivs : ivs[j].id = id
      others == {ivs[j].id : j \in 2..K}
      dest == [id |-> d0.id, addr |-> d0.addr, size |-> fin.size, init |-> Len(fin.by), by |-> fin.by,
               blocks |-> fin.blocks,
               sx |-> FlattenSeq([j \in 1..K |-> [i \in DOMAIN ivs[j].sx |-> [ivs[j].sx[i] EXCEPT !.o = @ + fin.deltas[j]]]])]
  IN  IF K < 2 THEN [exc |-> "", st |-> st]
      ELSE IF fin.exc # "" THEN [exc |-> fin.exc, st |-> st]
      ELSE [exc |-> "",
            st |-> [ivs |-> [j \in 1..K |-> IF j = 1 THEN dest
                                            ELSE [ivs[j] EXCEPT !.init = 0, !.by = <<>>, !.blocks = <<>>, !.sx = <<>>]],
                    items |-> [i \in DOMAIN st.items |->
                                 LET it == st.items[i]
                                 IN  IF it.kk = "bi" /\ it.own \in others /\ it.t \in T
                                     THEN [it EXCEPT !.own = d0.id, !.d = @ + fin.deltas[idx(it.own)]]
                                     ELSE it],
                    al |-> st.al]]

(***************************************************************************)
(* Known finding KF-C10-1 (see findings/KF-C10-1): join_byte_intervals     *)
(* aligns only the FIRST aligned block of an interval.  A block of the     *)
(* same overlap group with a stricter requirement, which held before,      *)
(* stops holding when the group is shifted by a distance that is not a     *)
(* multiple of its alignment.  Signature: every broken requirement belongs *)
(* to a block that is not the earliest aligned block of its group and is   *)
(* stricter than that one, in a group whose requirements are consistent.   *)
(***************************************************************************)
KF_C10_1(pre, post) ==
  LET iv == pre.ivs[1]
      br == Broken(pre, post)
      d == post.ivs[1]
  IN  /\ br # {}
      /\ \A id \in br :
            \E f \in Range(iv.blocks) :
               /\ f.id # id /\ AlignOf(pre, f.id) > 0
               /\ f.o <= PosOf(iv, id)
               /\ AlignOf(pre, f.id) < AlignOf(pre, id)
               /\ \E order \in Orders(iv.blocks) : \E g \in Range(GroupsOf(order)) :
                     {f.id, id} \subseteq {b.id : b \in Range(g.blocks)}
               \* the earlier block did get its alignment
               /\ PosOf(d, f.id) # -1 /\ (Base(d) + PosOf(d, f.id)) % AlignOf(pre, f.id) = 0

(***************************************************************************)
(* The layout space                                                        *)
(***************************************************************************)
Pairs(n) == {p \in (0..n) \X (0..n) : p[1] + p[2] <= n}
GeoSeqs(n) == UNION {{q \in [1..k -> Pairs(n)] : \A i \in 1..(k - 1) : q[i][1] <= q[i + 1][1]} : k \in 0..MaxBlocks}
KindSeqs(k) ==
  CASE KindMode = "one" -> {[i \in 1..k |-> "c"]}
    [] KindMode = "two" -> {[i \in 1..k |-> "c"], [i \in 1..k |-> "d"]}
    [] KindMode = "alt" -> {f \in [1..k -> {"c", "d"}] : k >= 3 => f[3] = f[1]}
    [] OTHER -> [1..k -> {"c", "d"}]
AlignSeqs(k) == {f \in [1..k -> {0} \cup AlignVals] : Cardinality({i \in 1..k : f[i] > 0}) <= MaxAligned}
InitSet(n) == CASE Inits = "all" -> 0..n [] Inits = "partial" -> 0..(n - 1) [] OTHER -> {n}

ItemCands(n) == {<<"sx", o>> : o \in 0..(n - 1)} \cup {<<"com", o>> : o \in 0..n}
ItemSets(n) ==
  CASE ItemMode = "none" -> {{}}
    [] ItemMode = "dense" -> {ItemCands(n) \cup {<<"pad", o>> : o \in 0..n} \cup {<<"blk", 0>>}}
    [] ItemMode = "sparse" -> {c \in SUBSET ItemCands(n) : Cardinality(c) <= MaxItems}

MkLayout(n, init, addr, q, kd, al, its) ==
  [n |-> n, init |-> init, addr |-> addr,
   blocks |-> [i \in DOMAIN q |-> [k |-> kd[i], o |-> q[i][1], s |-> q[i][2], a |-> al[i]]],
   sx |-> LET c == SelectSeq([i \in 1..n |-> i - 1], LAMBDA o : <<"sx", o>> \in its) IN c,
   items |-> LET all == [i \in 1..(2 * n + 2) |-> <<IF i % 2 = 1 THEN "com" ELSE "pad", (i - 1) \div 2>>]
                 biSeq == SelectSeq(all, LAMBDA c : c \in its)
                 blk == IF <<"blk", 0>> \in its THEN [i \in DOMAIN q |-> [t |-> "com", kk |-> "blk", b |-> i, d |-> 0]] ELSE <<>>
             IN  [i \in DOMAIN biSeq |-> [t |-> biSeq[i][1], kk |-> "bi", b |-> 0, d |-> biSeq[i][2]]] \o blk]

\* the projected state a layout renders to (default tables)
TableName(t) == CASE t = "com" -> "comments" [] t = "pad" -> "padding" [] OTHER -> "symbolicExpressionSizes"
StateOf(l) ==
  [ivs |-> << [id |-> 100, addr |-> l.addr, size |-> l.n, init |-> l.init,
               by |-> [i \in 1..l.init |-> 15 + i],
               blocks |-> [i \in DOMAIN l.blocks |-> [id |-> i, k |-> l.blocks[i].k, o |-> l.blocks[i].o, s |-> l.blocks[i].s]],
               sx |-> [i \in DOMAIN l.sx |-> [o |-> l.sx[i], v |-> "s"]]] >>,
   items |-> [i \in DOMAIN l.items |->
                [t |-> TableName(l.items[i].t), kk |-> l.items[i].kk,
                 own |-> IF l.items[i].kk = "bi" THEN 100 ELSE l.items[i].b, d |-> l.items[i].d, v |-> "v"]]
             \o << [t |-> "untouched", kk |-> "bi", own |-> 100, d |-> 0, v |-> "v"] >>,
   al |-> LET idx == SelectSeq([i \in DOMAIN l.blocks |-> i], LAMBDA i : l.blocks[i].a > 0)
          IN  [i \in DOMAIN idx |-> [b |-> idx[i], a |-> l.blocks[idx[i]].a]]]

NopBytes(kind) == CASE kind = "1" -> <<144>> [] kind = "4" -> <<31, 32, 3, 213>> [] OTHER -> <<>>

(***************************************************************************)
(* Call variants (harness side; see runner.py)                             *)
(***************************************************************************)
\* grow: bytes a rewrite appends to the first interval between split and join;
\* late: a rewrite annotates the last interval (a table entry appears on an
\* interval that is not the destination of the join)
\* ord: order in which the annotation entries are INSERTED into the offset tables
\* (aux data and custom tables are unordered containers): ascending, descending
\* or a seeded shuffle of the displacements
V(op, mod, fmt, tab, al, nop, grow, late, ord) ==
  [op |-> op, mod |-> mod, fmt |-> fmt, tab |-> tab, al |-> al, nop |-> nop, grow |-> grow, late |-> late,
   ord |-> ord]
ApplyVariants ==
  << V("apply", "x64", "elf", "default", "aux", "no", 0, 0, "desc"), V("apply", "x64", "pe", "default", "aux", "no", 0, 0, "shuf"),
     V("apply", "ia32", "pe", "default", "aux", "no", 0, 0, "asc"), V("apply", "arm64", "elf", "default", "aux", "no", 0, 0, "desc"),
     V("apply", "mips32", "elf", "default", "aux", "no", 0, 0, "shuf") >>
SjVariants ==
  CASE VariantSet = "geo" ->
         << V("sj", "x64", "elf", "default", "aux", "no", 0, 0, "desc"),
            V("sj", "none", "elf", "custom", "arg", "e4n1", 0, 1, "shuf"),
            V("sj", "arm64", "elf", "custom", "none", "no", 0, 0, "asc") >>
    [] VariantSet = "uninit" ->
         << V("sj", "x64", "elf", "default", "aux", "no", 0, 0, "desc"),    \* ABI nop of 1 byte
            V("sj", "arm64", "elf", "custom", "arg", "no", 0, 0, "shuf"),     \* ABI nop of 4 bytes
            V("sj", "none", "elf", "custom", "arg", "no", 0, 0, "asc") >>     \* no nop known
    [] VariantSet = "items" ->
         << V("sj", "x64", "elf", "default", "none", "n1", 0, 1, "desc"),
            V("sj", "none", "elf", "custom", "arg", "n4", 0, 0, "shuf"),
            V("sj", "arm64", "elf", "custom", "aux", "no", 0, 1, "desc"),
            V("sj", "x64", "elf", "default", "none", "n1", 0, 0, "asc") >>
    [] VariantSet = "align" ->
         << V("sj", "x64", "elf", "default", "aux", "no", 0, 0, "asc"),
            V("sj", "arm64", "elf", "default", "arg", "no", 1, 0, "asc"),
            V("sj", "none", "elf", "custom", "arg", "n4", 2, 0, "asc"),
            V("sj", "none", "elf", "custom", "arg", "no", 0, 0, "asc"),
            V("sj", "x64", "elf", "custom", "aux", "e1", 3, 0, "asc"),
            V("sj", "mips32", "elf", "default", "aux", "e4n1", 1, 1, "asc"),
            V("sj", "x64", "pe", "default", "aux", "n1", 2, 0, "asc") >>
    [] OTHER -> <<>>

\* Rotate = 0: every variant; otherwise Rotate of them, chosen by the layout
Pick(vs, l) ==
  IF Rotate = 0 \/ Rotate >= Len(vs) THEN vs
  ELSE LET h == l.n + l.init + Sum([i \in DOMAIN l.blocks |-> (i + 1) * (l.blocks[i].o + 2 * l.blocks[i].s + l.blocks[i].a)])
       IN  [i \in 1..Rotate |-> vs[((h + i) % Len(vs)) + 1]]
\* a patch with `.align n` after `pre` one-byte instructions, inserted at offset
\* `off` of the second block, into a module (x86-64, ELF / PE) whose alignment
\* table is absent / empty / has an entry for the first block
Tiled(l) ==
  /\ Len(l.blocks) = 3 /\ l.init = l.n /\ l.addr # -1 /\ l.sx = <<>> /\ l.items = <<>>
  /\ \A i \in 1..3 : l.blocks[i].k = "c" /\ l.blocks[i].s >= 1 /\ l.blocks[i].a = 0
  /\ l.blocks[1].o = 0 /\ l.blocks[2].o = l.blocks[1].s /\ l.blocks[3].o = l.blocks[2].o + l.blocks[2].s
  /\ l.blocks[3].o + l.blocks[3].s = l.n
AlPatchVariants(l) ==
  LET fmts == <<"elf", "pe">>
      tabs == <<"absent", "empty", "entries">>
      ns == <<4, 8, 16>>
  IN  FlattenSeq([f \in 1..2 |-> FlattenSeq([tb \in 1..3 |-> FlattenSeq([n \in 1..3 |->
        FlattenSeq([o \in 1..(l.blocks[2].s + 1) |-> [pr \in 1..2 |->
           [op |-> "alpatch", mod |-> "x64", fmt |-> fmts[f], altab |-> tabs[tb], n |-> ns[n],
            off |-> o - 1, pre |-> pr - 1]]])])])])
Variants(l) ==
  IF VariantSet = "alpatch" THEN (IF Tiled(l) THEN AlPatchVariants(l) ELSE <<>>)
  ELSE IF VariantSet = "apply" THEN (IF l.addr = -1 THEN <<>> ELSE Pick(ApplyVariants, l))
  ELSE Pick(SjVariants, l)

CaseOf(l) == [n |-> l.n, init |-> l.init, addr |-> l.addr, blocks |-> l.blocks, sx |-> l.sx,
              items |-> l.items, vs |-> Variants(l)]

(***************************************************************************)
(* The model                                                               *)
(***************************************************************************)
VARIABLES lay, phase, cur, mid, nopk, exc,
          added,   \* id of the block a rewrite gave an alignment between split and join (0: none)
          priv     \* prepare_for_rewriting chose a private empty dict as the alignment table at split
                   \* time (ELF module without an alignment table) instead of the module's table
vars == <<lay, phase, cur, mid, nopk, exc, added, priv>>

Init ==
  /\ \E n \in 0..MaxSize : \E i \in InitSet(n) : \E ad \in Addrs : \E q \in GeoSeqs(n) :
       \E kd \in KindSeqs(Len(q)) : \E al \in AlignSeqs(Len(q)) : \E its \in ItemSets(n) :
          lay = MkLayout(n, i, IF ad = "none" THEN -1 ELSE IF ad = "4100" THEN 4100 ELSE 4096, q, kd, al, its)
  /\ OnlyTiled => Tiled(lay)
  /\ added = 0
  /\ priv = FALSE
  /\ phase = "init"
  /\ cur = StateOf(lay)
  /\ mid = cur
  /\ nopk = "-"
  /\ exc = ""

Split ==
  /\ phase = "init"
  /\ cur' = SplitB(cur, DefaultTables)
  /\ mid' = cur'
  /\ phase' = "split"
  /\ priv' \in (IF AddAligns # {} /\ cur.al = <<>> THEN BOOLEAN ELSE {FALSE})
  /\ UNCHANGED <<lay, nopk, exc, added>>

\* a rewrite makes the first interval longer (bytes outside blocks at its end)
Grow(g) ==
  /\ phase = "split"
  /\ g > 0
  /\ cur.ivs[1].init = cur.ivs[1].size
  /\ cur' = [cur EXCEPT !.ivs[1].by = @ \o [i \in 1..g |-> 95 + i], !.ivs[1].size = @ + g, !.ivs[1].init = @ + g]
  /\ mid' = cur'
  /\ phase' = "grown"
  /\ UNCHANGED <<lay, nopk, exc, added, priv>>

\* a rewrite annotates the last interval
Annotate ==
  /\ phase = "split"
  /\ Lates
  /\ Len(cur.ivs) >= 2
  /\ cur' = [cur EXCEPT !.items = Append(@, [t |-> "comments", kk |-> "bi", own |-> cur.ivs[Len(cur.ivs)].id,
                                               d |-> 0, v |-> "late"])]
  /\ mid' = cur'
  /\ phase' = "grown"
  /\ UNCHANGED <<lay, nopk, exc, added, priv>>

\* a rewrite adds an alignment requirement (a patch with `.align`, whose block
\* insert() records in the module's alignment table) to a block of a later
\* interval that has none
AddAlignment(j, i, a) ==
  /\ phase \in {"split", "grown"}
  /\ added = 0
  /\ j \in 2..Len(cur.ivs) /\ i \in DOMAIN cur.ivs[j].blocks
  /\ AlignOf(cur, cur.ivs[j].blocks[i].id) = 0
  /\ cur' = [cur EXCEPT !.al = Append(@, [b |-> cur.ivs[j].blocks[i].id, a |-> a])]
  /\ mid' = cur'
  /\ added' = cur.ivs[j].blocks[i].id
  /\ phase' = "grown"
  /\ UNCHANGED <<lay, nopk, exc, priv>>

\* what join_byte_intervals is given as `alignment`: after the rewrite
\* prepare_for_rewriting resolves the module's table again, so the private dict
\* survives only when the rewrite did not create a table (FX-C10-2; before that
\* fix the private dict was kept and an added requirement was ignored)
Seen(st) == IF priv /\ added = 0 THEN [st EXCEPT !.al = <<>>] ELSE st

Join(kind) ==
  /\ phase \in {"split", "grown"}
  /\ LET r == JoinB(Seen(cur), NopBytes(kind), DefaultTables)
     IN  cur' = [r.st EXCEPT !.al = cur.al] /\ exc' = r.exc
  /\ nopk' = kind
  /\ phase' = IF phase = "split" THEN "joined" ELSE "joined_grown"
  /\ UNCHANGED <<lay, mid, added, priv>>

Next == \/ Split
        \/ \E g \in Grows : Grow(g)
        \/ Annotate
        \/ \E a \in AddAligns : \E j \in 1..(MaxBlocks + 1) : \E i \in 1..MaxBlocks :
              IF j <= Len(cur.ivs) /\ i <= Len(cur.ivs[j].blocks) THEN AddAlignment(j, i, a) ELSE FALSE
        \/ \E k \in NopKinds : Join(k)
Spec == Init /\ [][Next]_vars

(***************************************************************************)
(* Invariants: Level B satisfies Level A on the whole layout space         *)
(***************************************************************************)
Pre == StateOf(lay)

InvSplit ==
  phase = "split" =>
    /\ C10_SplitPreserves(Pre, cur, DefaultTables)
    /\ SameState(cur, SplitSpec(Pre, ProcOrderB(Pre.ivs[1].blocks), DefaultTables))

InvJoin ==
  phase \in {"joined", "joined_grown"} =>
    LET nop == NopBytes(nopk) IN
    /\ exc \in {"", "PaddingError"}
    /\ PaddingLegal(Seen(mid), cur, cur.ivs[1].id, exc, nop, DefaultTables)
    \* a requirement added by the rewrite holds after the join when it is the only one
    \* of its interval, in every table state (module table or private dict at split time)
    /\ (exc = "" /\ added # 0
           /\ \E j \in DOMAIN mid.ivs : AlignedBlocks(mid, mid.ivs[j]) = {added})
         => (Base(cur.ivs[1]) + PosOf(cur.ivs[1], added)) % AlignOf(mid, added) = 0
    /\ (phase = "joined" /\ Invertible(Pre)) => (exc = "" /\ C10_JoinInverts(Pre, cur))
    \* requirements that held before (those of the layout and the one the rewrite added)
    /\ LET PreA == [Pre EXCEPT !.al = mid.al]
       IN  (exc = "" /\ AlignConsistent(PreA)) => (C10_AlignmentHolds(PreA, cur) \/ KF_C10_1(PreA, cur))

EmitCase == (Emit /\ phase = "init") => PrintT("CASE " \o ToJson(CaseOf(lay)))

TypeOK == phase \in {"init", "split", "grown", "joined", "joined_grown"}
Inv == TypeOK /\ InvSplit /\ InvJoin /\ EmitCase
=============================================================================
