INIT TInit
NEXT TNext
POSTCONDITION AllConsumed
CHECK_DEADLOCK FALSE
CONSTANTS
  VocabName = "mini"
  MaxLen = 0
  MaxChunks = 0
  TUs = {}
  AUs = {}
  ICFIs = {}
  MSs = {}
  Emit = FALSE
  RwMaxOps = 0
  RwSites = 0
  RwEmit = FALSE
