SPECIFICATION Spec
CONSTANTS
  NB = 3
  NS = 3
  MaxLen = 3
  Symmetric = TRUE
  Inits = "diag"
  Emit = FALSE
INVARIANTS TypeOK WF Refines EmitCase Stat
VIEW View
CHECK_DEADLOCK FALSE
