------------------------------ MODULE TraceDet ------------------------------
(***************************************************************************)
(* C11: the result of a rewrite is a function of the input IR and of the   *)
(* sequence of registered modifications.  Every line of TRACE_FILE holds   *)
(* all runs of ONE case - fresh processes with different PYTHONHASHSEED    *)
(* values (set/dict iteration orders), fresh UUID draws, and admissible    *)
(* permutations of the registration order (those that keep the relative    *)
(* order of requests with the same block and offset) - as canonical,       *)
(* UUID-free final states including block boundaries, edge sets,           *)
(* temporary-label names and aux-data reference counts.                    *)
(***************************************************************************)
EXTENDS Sequences, Naturals, FiniteSets, Json, IOUtils, TLC, TLCExt

Traces == ndJsonDeserialize(IOEnv.TRACE_FILE)
VARIABLE tid

Fields == {"secs", "syms", "edges", "fns", "entry", "nproxies", "aux"}
Differs(a, b) == {f \in Fields : a.final[f] # b.final[f]}

\* first run that differs from run 1, and where
FirstDiff(t) ==
  LET bad == {i \in 2..Len(t.runs) : t.runs[i].final # t.runs[1].final \/ t.runs[i].exc # t.runs[1].exc}
  IN  IF bad = {} THEN <<>>
      ELSE LET i == CHOOSE x \in bad : \A y \in bad : x <= y
           IN  <<t.runs[1].variant, t.runs[1].hashseed, t.runs[i].variant, t.runs[i].hashseed,
                 Differs(t.runs[1], t.runs[i]), t.runs[1].exc, t.runs[i].exc>>

C11_SameResult(t) == \A i \in 2..Len(t.runs) : t.runs[i].final = t.runs[1].final
C11_SameOutcome(t) == \A i \in 2..Len(t.runs) : t.runs[i].exc = t.runs[1].exc

Verdict(t) ==
  LET dom == Len(t.runs) >= 2
      cs == << <<"C11_SameOutcome", dom, C11_SameOutcome(t)>>,
               <<"C11_SameResult", dom /\ C11_SameOutcome(t), C11_SameResult(t)>> >>
      bad == SelectSeq(cs, LAMBDA c : c[2] /\ ~c[3])
      indom == SelectSeq(cs, LAMBDA c : c[2])
  IN  [id |-> t.id,
       indomain |-> [i \in 1..Len(indom) |-> indom[i][1]],
       failed |-> [i \in 1..Len(bad) |-> [clause |-> bad[i][1], diff |-> FirstDiff(t), kf |-> {}]],
       exc |-> t.runs[1].exc]

Init == tid = 1
Next == /\ tid <= Len(Traces)
        /\ PrintT("VERDICT " \o ToJson(Verdict(Traces[tid])))
        /\ tid' = tid + 1
AllConsumed == TLCGet("stats").diameter - 1 = Len(Traces)
=============================================================================
