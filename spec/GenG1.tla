------------------------------- MODULE GenG1 -------------------------------
(***************************************************************************)
(* The space of small modules ("shapes") and edit batches, as a TLA+ state *)
(* machine.  TLC explores it exhaustively within the constants of the      *)
(* configuration; it                                                       *)
(*  (U1) checks design-level theorems of the listing semantics on every    *)
(*       reachable (shape, batch): conservation of bytes, labels and       *)
(*       annotations, and that applying a batch at once equals applying    *)
(*       its requests one at a time in address order (the spec-level       *)
(*       content of C09/C11);                                              *)
(*  (U3) emits every reachable (shape, batch) as a JSON case that the      *)
(*       harness replays into the real RewritingContext.                   *)
(* The shape record is exactly the renderer's input format.                *)
(***************************************************************************)
EXTENDS G1Clauses, Json, TLC, TLCExt

CONSTANTS MaxBlocks,      \* 1..3
          MaxReqs,        \* 0..3
          Templates,      \* subset of template names
          PatchKinds,     \* subset of patch kinds
          FnLayouts,      \* subset of {"none","one","split"}
          EndSyms,        \* BOOLEAN subset: may blocks carry at_end symbols
          NoSyms,         \* BOOLEAN subset: may a block have no start symbol
          AnnModes,       \* subset of {"none","blk","bi"}
          WithProxyDel,   \* BOOLEAN: generate retarget_to_proxy deletions
          CfiLayouts,     \* subset of {"none","proc_all","proc_each","proc_rs"}
          Isa,            \* "x64" | "ia32" | "arm64": instruction sizes of the rendered module
          WithScopes,     \* BOOLEAN: generate register_insert(AllBlocksScope(ENTRY), ..) requests
          Fmts,           \* file formats: subset of {"elf", "pe"}; a PE shape registers its first and last code blocks as safe exception handlers
          WholeOnly,      \* BOOLEAN: requests are whole-block deletions (and insertions at offset 0) only
          Leads,          \* set of numbers of uncovered filler bytes in front of the first block
          DropFnTables,   \* BOOLEAN subset: function-less modules may lack the three function tables
          ExtraData,      \* BOOLEAN subset: add an untouched .data section whose word refers to the target symbol
          Retargets,      \* BOOLEAN subset: also retarget_symbol_uses(target symbol -> another block's symbol)
          AlignOpts,      \* subset of {0, 4, 16}: alignment aux data on the first block (0 = none)
          Aliases,        \* BOOLEAN subset: the first two blocks carry a second start symbol (an alias)
          SharedRet,      \* BOOLEAN subset: returns without a known site share ONE proxy ("unknown caller")
          InsFns,         \* subset of {"none", "ret", "loop"}: register_insert_function("newfn", ..)
          Emit            \* BOOLEAN: print cases

VARIABLES shape, reqs, insfn, rt
vars == <<shape, reqs, insfn, rt>>

(***************************************************************************)
(* Block templates: unit sequences.  "X" is replaced by the target symbol. *)
(***************************************************************************)
TemplateUnits(tpl, i, tgt) ==
  CASE tpl = "o1"    -> << <<"op", 1, 10 * i + 1>> >>
    [] tpl = "o23"   -> << <<"op", 2, 10 * i + 1>>, <<"op", 3, 10 * i + 2>> >>
    [] tpl = "o123"  -> << <<"op", 1, 10 * i + 1>>, <<"op", 2, 10 * i + 2>>, <<"op", 3, 10 * i + 3>> >>
    [] tpl = "jmp"   -> << <<"op", 1, 10 * i + 1>>, <<"op", 2, 10 * i + 2>>, <<"jmp", tgt>> >>
    [] tpl = "jcc"   -> << <<"op", 3, 10 * i + 1>>, <<"jcc", tgt>> >>
    [] tpl = "call"  -> << <<"op", 2, 10 * i + 1>>, <<"call", tgt>> >>
    [] tpl = "ret"   -> << <<"op", 1, 10 * i + 1>>, <<"ret">> >>
    [] tpl = "ret1"  -> << <<"ret">> >>
    [] tpl = "ijmp"  -> << <<"op", 2, 10 * i + 1>>, <<"ijmp">> >>
    [] tpl = "icall" -> << <<"op", 2, 10 * i + 1>>, <<"icall">> >>
    [] tpl = "ref"   -> << <<"ref", tgt, 0>>, <<"op", 1, 10 * i + 1>> >>
    \* an empty code block (a label with nothing behind it); passive: no request names it
    [] tpl = "z0"    -> <<>>
    [] tpl = "d3"    -> << <<"d", 3, 10 * i + 1>> >>
    [] tpl = "dq"    -> << <<"d", 2, 10 * i + 1>>, <<"dq", tgt, 4>> >>
IsData(tpl) == tpl \in {"d3", "dq"}

UnitSize(un) ==
  IF Isa = "arm64" /\ un[1] \notin {"d", "dq"} THEN 4 ELSE
  CASE un[1] = "op" -> un[2]
    [] un[1] \in {"jmp", "call"} -> 5
    [] un[1] = "jcc" -> 6
    [] un[1] = "ret" -> 1
    [] un[1] \in {"ijmp", "icall"} -> 2
    [] un[1] = "ref" -> IF Isa = "ia32" THEN 6 ELSE 7
    [] un[1] = "d" -> un[2]
    [] un[1] = "dq" -> 8

BName(i) == CASE i = 1 -> "b1" [] i = 2 -> "b2" [] i = 3 -> "b3" [] i = 4 -> "b4" [] OTHER -> "bx"
EName(i) == CASE i = 1 -> "e1" [] i = 2 -> "e2" [] i = 3 -> "e3" [] i = 4 -> "e4" [] OTHER -> "ex"

FnOf(layout, i, nb) ==
  CASE layout = "none" -> ""
    [] layout = "one" -> "b1"
    \* one function with a second entry on its last block (a multi-entry function)
    [] layout = "one2" -> "b1"
    [] layout = "split" -> IF i = 1 THEN "b1" ELSE "b2"
    [] layout = "tail" -> IF i = 1 THEN "" ELSE "b2"
    \* every block a function of its own (callers and callees side by side)
    [] layout = "each" -> BName(i)

\* annotation spec: <<block, disp>> or <<0,0>>
\* CFI layouts (renderer format: <<disp, <<directive...>>>>, directive = <<name, operands...>>)
FirstBoundary(units) == UnitSize(units[1])
TotalSize(units) == LET f[i \in 0..Len(units)] == IF i = 0 THEN 0 ELSE f[i - 1] + UnitSize(units[i]) IN f[Len(units)]
Start7 == << <<"cfi_startproc">>, <<"cfi_def_cfa", 7, 8>> >>
CfiOf(cl, i, nb, units, isData) ==
  IF isData \/ cl = "none" \/ units = <<>> THEN <<>>
  ELSE LET n == TotalSize(units)
           o1 == FirstBoundary(units)
       IN CASE cl = "proc_each" -> << <<0, Start7>>, <<n, << <<"cfi_endproc">> >> >> >>
            [] cl = "proc_all" ->
                 (IF i = 1 THEN << <<0, Start7>> >> \o (IF o1 < n THEN << <<o1, << <<"cfi_def_cfa_offset", 16>> >> >> >> ELSE <<>>) ELSE <<>>)
                 \o (IF i = nb THEN << <<n, << <<"cfi_endproc">> >> >> >> ELSE <<>>)
            \* one procedure that ends INSIDE the last block (body and trailing padding in one block)
            [] cl = "proc_mid" ->
                 (IF i = 1 THEN << <<0, Start7>> >> ELSE <<>>)
                 \o (IF i = nb THEN << <<(IF o1 < n THEN o1 ELSE n), << <<"cfi_endproc">> >> >> >> ELSE <<>>)
            \* two procedures: A over all blocks but the last, B over the last block
            [] cl = "proc_split" ->
                 (IF i = 1 /\ nb > 1 THEN << <<0, Start7>> >> ELSE <<>>)
                 \o (IF i = nb - 1 THEN << <<n, << <<"cfi_endproc">> >> >> >> ELSE <<>>)
                 \o (IF i = nb THEN << <<0, Start7>>, <<n, << <<"cfi_endproc">> >> >> >> ELSE <<>>)
            [] cl = "proc_rs" ->
                 (IF i = 1 THEN << <<0, Start7>> >> \o (IF o1 < n THEN << <<o1, << <<"cfi_remember_state">>, <<"cfi_def_cfa_offset", 16>> >> >> >> ELSE <<>>) ELSE <<>>)
                 \o (IF i = 2 /\ nb >= 2 THEN << <<0, << <<"cfi_restore_state">> >> >> >> ELSE <<>>)
                 \o (IF i = nb THEN << <<n, (IF nb = 1 THEN << <<"cfi_restore_state">> >> ELSE <<>>) \o << <<"cfi_endproc">> >> >> >> ELSE <<>>)
\* merge entries with the same displacement (a one-unit block has o1 = n etc.)
MergeCfi(cs) ==
  LET ds == {cs[i][1] : i \in DOMAIN cs}
      sorted == SortSeq(SetToSeq(ds), LAMBDA a, b : a < b)
  IN  [k \in 1..Len(sorted) |->
         <<sorted[k], FlattenSeq([i \in 1..Len(SelectSeq(cs, LAMBDA c : c[1] = sorted[k])) |->
                                     SelectSeq(cs, LAMBDA c : c[1] = sorted[k])[i][2]])>>]

AName(i) == CASE i = 1 -> "a1" [] i = 2 -> "a2" [] OTHER -> "ax"
MkBlock(i, nb, tpl, tgtIdx, layout, endSym, annMode, annAt, cl0, noSym, al, ld, alias) ==
  LET units == TemplateUnits(tpl, i, BName(tgtIdx))
      \* "proc_first" arrives here as "proc_each" for the first code block and "none" for the rest
      cl == cl0
      f == IF IsData(tpl) THEN "" ELSE FnOf(layout, i, nb)
  IN  [kind |-> IF IsData(tpl) THEN "data" ELSE "code",
       units |-> units,
       syms |-> IF noSym THEN <<>> ELSE <<BName(i)>> \o (IF alias /\ i <= 2 THEN <<AName(i)>> ELSE <<>>),
       esyms |-> IF endSym THEN <<EName(i)>> ELSE <<>>,
       fn |-> f,
       entry |-> (f # "" /\ (f = BName(i) \/ (layout = "one2" /\ i = nb))),
       \* one annotation at the chosen place, and a second one at the start of the last
       \* block (two entries in one byte interval: insertion order is not address order)
       ann |-> (IF annMode # "none" /\ annAt[1] = i
                THEN << <<annAt[2], "comments", annMode, "c">> >> ELSE <<>>)
               \o (IF annMode # "none" /\ i = nb /\ annAt # <<nb, 0>>
                   THEN << <<0, "comments", annMode, "c2">> >> ELSE <<>>),
       cfi |-> MergeCfi(CfiOf(cl, i, nb, units, IsData(tpl))),
       align |-> IF i = 1 THEN al ELSE 0,
       \* bytes in front of the first block that no block covers
       lead |-> IF i = 1 THEN ld ELSE 0]

ShapeParams ==
  {p \in [nb : 1..MaxBlocks, tpl : [1..MaxBlocks -> Templates], tgt : 1..MaxBlocks,
          layout : FnLayouts, es : SUBSET (1..MaxBlocks), ns : SUBSET (1..MaxBlocks), am : AnnModes, cl : CfiLayouts, al : AlignOpts, xd : ExtraData, dft : DropFnTables, ld : Leads, fmt : Fmts, als : Aliases, sr : SharedRet,
          annAt : (1..MaxBlocks) \X (0..3)] :
     /\ \A i \in (p.nb + 1)..MaxBlocks : p.tpl[i] = CHOOSE x \in Templates : TRUE
     /\ p.tgt <= p.nb
     /\ ~IsData(p.tpl[p.tgt])
     \* functions, end symbols and CFI sit on non-empty blocks
     /\ (p.layout # "none" => \A i \in 1..p.nb : p.tpl[i] # "z0" \/ (i > 1 /\ p.layout \in {"one", "tail"}) \/ (i > 1 /\ i < p.nb /\ p.layout = "one2"))
     /\ \A i \in p.es : p.tpl[i] # "z0"
     /\ (p.cl # "none" => \A i \in 1..p.nb : p.tpl[i] # "z0")
     /\ (\E i \in 1..p.nb : p.tpl[i] # "z0")
     /\ p.es \subseteq 1..p.nb
     /\ (p.es # {} => TRUE \in EndSyms) /\ Cardinality(p.es) <= 1
     /\ p.ns \subseteq 1..p.nb /\ Cardinality(p.ns) <= 1 /\ p.tgt \notin p.ns
     /\ (p.ns # {} => TRUE \in NoSyms)
     /\ (p.dft => p.layout = "none")
     /\ (p.layout = "each" => p.ns = {} /\ \A i \in 1..p.nb : ~IsData(p.tpl[i]))
     /\ (p.layout # "none" => 1 \notin p.ns /\ 2 \notin p.ns)
     /\ (p.am = "none" => p.annAt = <<1, 0>>)
     /\ (p.am # "none" => p.annAt[1] <= p.nb)
     /\ (p.layout \in {"split", "tail"} => p.nb >= 2 /\ ~IsData(p.tpl[2]))
     /\ (p.layout \in {"one", "split", "one2"} => ~IsData(p.tpl[1]))
     /\ (p.layout = "one2" => p.nb >= 2 /\ ~IsData(p.tpl[p.nb]))
     /\ (p.cl \in {"proc_all", "proc_rs", "proc_mid"} => ~IsData(p.tpl[1]) /\ ~IsData(p.tpl[p.nb]))
     \* (sharing needs two returns)
     /\ (p.sr => Cardinality({i \in 1..p.nb : p.tpl[i] \in {"ret", "ret1"}}) >= 2)
     /\ (p.cl = "proc_split" => p.nb >= 2 /\ \A i \in 1..p.nb : ~IsData(p.tpl[i]))
     /\ (p.cl \in {"proc_each", "proc_first"} => \E i \in 1..p.nb : ~IsData(p.tpl[i]))
     /\ (p.cl = "proc_rs" /\ p.nb >= 2 => ~IsData(p.tpl[2]))}

DataSection(tgtIdx) ==
  [name |-> ".data",
   blocks |-> <<[kind |-> "data", units |-> << <<"d", 4, 90>>, <<"dq", BName(tgtIdx), 0>> >>,
                 syms |-> <<"dd">>, esyms |-> <<>>, fn |-> "", entry |-> FALSE,
                 ann |-> << <<1, "comments", "bi", "dc">> >>, cfi |-> <<>>, align |-> 0, lead |-> 0]>>]
MkShape(p) ==
  [isa |-> Isa, fmt |-> p.fmt, drop_fn_tables |-> p.dft, shared_ret |-> p.sr,
   seh |-> IF p.fmt = "pe" THEN SetToSeq({i \in {1, p.nb} : ~IsData(p.tpl[i])}) ELSE <<>>,
   sections |-> <<[name |-> ".text",
                   blocks |-> [i \in 1..p.nb |->
                       MkBlock(i, p.nb, p.tpl[i], p.tgt, p.layout, i \in p.es, p.am, p.annAt,
                               \* "proc_first": only the first code block (in address order) is a procedure
                               IF p.cl = "proc_first"
                               THEN (IF ~IsData(p.tpl[i]) /\ \A j \in 1..(i - 1) : IsData(p.tpl[j]) THEN "proc_each" ELSE "none")
                               ELSE p.cl,
                               i \in p.ns, p.al, p.ld, p.als)]]>>
                \o (IF p.xd THEN <<DataSection(p.tgt)>> ELSE <<>>)]

(***************************************************************************)
(* The abstract pre-state of a shape, in the projection's format, so that  *)
(* Flat / Edit / the fact operators apply to generated shapes unchanged.   *)
(***************************************************************************)
UnitOffsets(units) ==
  LET f[i \in 0..Len(units)] == IF i = 0 THEN 0 ELSE f[i - 1] + UnitSize(units[i])
  IN  f
KindOf(un) == IF un[1] \in {"d", "dq"} THEN "data" ELSE IF un[1] = "ref" THEN "op" ELSE un[1]
TargetOf(un) == IF un[1] \in {"jmp", "jcc", "call", "ref", "dq"} THEN un[2] ELSE ""
\* abstract bytes: each byte is a pair <<unit id, index>>, unique per unit
AbsBytes(b, j, un) == [x \in 1..UnitSize(un) |-> <<b, j, x>>]

\* data units are byte-granular in the projection; mirror that here
ExpandUnits(bi, units) ==
  LET offs == UnitOffsets(units)
      one(j) == LET un == units[j]
                IN  IF KindOf(un) = "data"
                    THEN [x \in 1..UnitSize(un) |->
                            [o |-> offs[j - 1] + x - 1, n |-> 1, k |-> "data",
                             tg |-> IF x = 1 THEN TargetOf(un) ELSE "", tgb |-> IF x = 1 THEN TargetOf(un) ELSE "",
                             by |-> <<<<bi, j, x>>>>]]
                    ELSE <<[o |-> offs[j - 1], n |-> UnitSize(un), k |-> KindOf(un),
                            tg |-> TargetOf(un), tgb |-> TargetOf(un), by |-> AbsBytes(bi, j, un)]>>
  IN  FlattenSeq([j \in 1..Len(units) |-> one(j)])

SxOf(units) ==
  LET offs == UnitOffsets(units)
      rel(un) == CASE un[1] \in {"jmp", "call"} -> 1 [] un[1] = "jcc" -> 2 [] un[1] = "ref" -> 3 [] OTHER -> 0
      add(un) == IF un[1] \in {"ref", "dq"} THEN un[3] ELSE 0
      hasx == SelectSeq([j \in 1..Len(units) |-> j], LAMBDA j : TargetOf(units[j]) # "")
  IN  [q \in 1..Len(hasx) |->
         [o |-> offs[hasx[q] - 1] + rel(units[hasx[q]]),
          d |-> <<"C", TargetOf(units[hasx[q]]), add(units[hasx[q]])>>, ok |-> TRUE]]

\* renderer directive <<"cfi_name", operands...>> -> projection record
AbsDir(d) ==
  LET nm == d[1]
      op == CASE nm = "cfi_startproc" -> "startproc" [] nm = "cfi_endproc" -> "endproc"
              [] nm = "cfi_def_cfa" -> "def_cfa" [] nm = "cfi_def_cfa_offset" -> "def_cfa_offset"
              [] nm = "cfi_adjust_cfa_offset" -> "adjust_cfa_offset"
              [] nm = "cfi_remember_state" -> "remember_state" [] nm = "cfi_restore_state" -> "restore_state"
              [] OTHER -> nm
  IN  [op |-> op, args |-> SubSeq(d, 2, Len(d)), sym |-> "", big |-> FALSE]

AbsState(sh) ==
  LET bs == sh.sections[1].blocks
      sizes == [i \in 1..Len(bs) |-> UnitOffsets(bs[i].units)[Len(bs[i].units)]]
      lead == bs[1].lead
      pos == LET f[i \in 0..Len(bs)] == IF i = 0 THEN lead ELSE f[i - 1] + sizes[i] IN f
      blk(i) == [u |-> i, k |-> bs[i].kind, p |-> pos[i - 1], n |-> sizes[i],
                 units |-> ExpandUnits(i, bs[i].units),
                 ss |-> bs[i].syms, es |-> bs[i].esyms,
                 fn |-> IF bs[i].fn = "" THEN <<>> ELSE <<bs[i].fn>>,
                 ent |-> IF bs[i].entry THEN <<bs[i].fn>> ELSE <<>>,
                 sx |-> SxOf(bs[i].units),
                 ann |-> LET a == SelectSeq(bs[i].ann, LAMBDA x : x[3] = "blk")
                         IN  [q \in 1..Len(a) |-> [d |-> a[q][1], t |-> a[q][2], v |-> a[q][4]]],
                 cfi |-> [q \in 1..Len(bs[i].cfi) |->
                            [d |-> bs[i].cfi[q][1],
                             ds |-> [z \in 1..Len(bs[i].cfi[q][2]) |-> AbsDir(bs[i].cfi[q][2][z])]]],
                 al |-> bs[i].align, inside |-> TRUE]
      iann == FlattenSeq([i \in 1..Len(bs) |->
                 LET a == SelectSeq(bs[i].ann, LAMBDA x : x[3] = "bi")
                 IN  [q \in 1..Len(a) |-> [p |-> pos[i - 1] + a[q][1], t |-> a[q][2], v |-> a[q][4], ok |-> TRUE]]])
      dsec == IF Len(sh.sections) < 2 THEN <<>>
              ELSE LET db == sh.sections[2].blocks[1]
                   IN  <<[name |-> ".data", size |-> 12,
                          blocks |-> <<[u |-> 100, k |-> "data", p |-> 0, n |-> 12,
                                        units |-> ExpandUnits(100, db.units), ss |-> db.syms, es |-> <<>>,
                                        fn |-> <<>>, ent |-> <<>>, sx |-> SxOf(db.units), ann |-> <<>>,
                                        cfi |-> <<>>, al |-> 0, inside |-> TRUE]>>,
                          iann |-> <<[p |-> 1, t |-> "comments", v |-> "dc", ok |-> TRUE]>>,
                          sxout |-> <<>>, gaps |-> <<>>, noaddr |-> 0]>>
  IN  [secs |-> <<[name |-> ".text", size |-> pos[Len(bs)], blocks |-> [i \in 1..Len(bs) |-> blk(i)],
                   iann |-> iann, sxout |-> <<>>,
                   gaps |-> IF lead = 0 THEN <<>> ELSE <<[u |-> 900000, p |-> 0, by |-> [x \in 1..lead |-> 204]]>>,
                   noaddr |-> 0]>> \o dsec,
       syms |-> <<>>, fns |-> <<>>]

(***************************************************************************)
(* Requests                                                                *)
(***************************************************************************)
\* abstract patch contents (sizes as the real assembler produces them for the
\* catalogue; checked against the real assembler by the trace clause
\* "Catalogue" of the harness)
AbsPatch0(kind, id) ==
  LET u(o, n, k, tg) == [o |-> o, n |-> n, k |-> k, tg |-> tg, tgb |-> tg,
                         by |-> [x \in 1..n |-> <<"patch", id, o + x>>]]
  IN CASE kind = "plain2" -> [units |-> <<u(0, 2, "op", "")>>, labels |-> <<>>, sx |-> <<>>, sxs |-> <<>>]
       [] kind = "plain7" -> [units |-> <<u(0, 2, "op", ""), u(2, 5, "op", "")>>, labels |-> <<>>, sx |-> <<>>, sxs |-> <<>>]
       [] kind = "loop"   -> [units |-> <<u(0, 2, "op", ""), u(2, 2, "jmp", ".Lx")>>,
                              labels |-> <<[nm |-> ".Lx", base |-> ".Lx", o |-> 0]>>,
                              sx |-> <<[o |-> 3, d |-> <<"C", ".Lx", 0>>]>>, sxs |-> <<>>]
       [] kind = "fwd"    -> [units |-> <<u(0, 2, "jcc", ".Ly"), u(2, 2, "op", "")>>,
                              labels |-> <<[nm |-> ".Ly", base |-> ".Ly", o |-> 4]>>,
                              sx |-> <<[o |-> 1, d |-> <<"C", ".Ly", 0>>]>>, sxs |-> <<>>]
       [] kind = "ret"    -> [units |-> <<u(0, 2, "op", ""), u(2, 1, "ret", "")>>, labels |-> <<>>, sx |-> <<>>, sxs |-> <<>>]
       [] kind = "jmpsym" -> [units |-> <<u(0, 2, "op", ""), u(2, 5, "jmp", "b1")>>, labels |-> <<>>,
                              sx |-> <<[o |-> 3, d |-> <<"C", "b1", 0>>]>>, sxs |-> <<>>]
       [] kind = "callsym" -> [units |-> <<u(0, 5, "call", "b1"), u(5, 2, "op", "")>>, labels |-> <<>>,
                              sx |-> <<[o |-> 1, d |-> <<"C", "b1", 0>>]>>, sxs |-> <<>>]
       [] kind = "ref"    -> [units |-> <<u(0, 7, "op", "b1")>>, labels |-> <<>>,
                              sx |-> <<[o |-> 3, d |-> <<"C", "b1", 0>>]>>, sxs |-> <<>>]
       [] kind = "resume" -> [units |-> <<u(0, 7, "op", ".Lr"), u(7, 2, "ijmp", "")>>,
                              labels |-> <<[nm |-> ".Lr", base |-> ".Lr", o |-> 9]>>,
                              sx |-> <<[o |-> 3, d |-> <<"C", ".Lr", 0>>]>>, sxs |-> <<>>]
       [] kind = "datasec" -> [units |-> <<u(0, 7, "op", ".Ld")>>, labels |-> <<>>,
                               sx |-> <<[o |-> 3, d |-> <<"C", ".Ld", 0>>]>>, sxs |-> <<>>]
       [] kind = "bytes"  -> [units |-> <<[o |-> 0, n |-> 1, k |-> "data", tg |-> "", tgb |-> "", by |-> <<<<"patch", id, 1>>>>],
                                          [o |-> 1, n |-> 1, k |-> "data", tg |-> "", tgb |-> "", by |-> <<<<"patch", id, 2>>>>]>>,
                              labels |-> <<>>, sx |-> <<>>, sxs |-> <<>>]
       [] OTHER -> [units |-> <<>>, labels |-> <<>>, sx |-> <<>>, sxs |-> <<>>]

PatchCfiOf(kind) ==
  LET dd(op, args) == [op |-> op, args |-> args, sym |-> "", big |-> FALSE]
  IN CASE kind = "cfi" -> <<[o |-> 0, ds |-> <<dd("adjust_cfa_offset", <<8>>)>>], [o |-> 2, ds |-> <<dd("adjust_cfa_offset", <<0 - 8>>)>>]>>
       [] kind = "cfistate" -> <<[o |-> 0, ds |-> <<dd("remember_state", <<>>), dd("def_cfa_offset", <<32>>)>>],
                                 [o |-> 2, ds |-> <<dd("restore_state", <<>>)>>]>>
       [] OTHER -> <<>>
AbsPatch(kind, id) ==
  LET p == AbsPatch0(IF kind \in {"cfi", "cfistate", "align"} THEN "plain2" ELSE kind, id)
      dunit(o, tg) == [o |-> o, n |-> 1, k |-> "data", tg |-> tg, tgb |-> tg, by |-> <<<<"chunk", id, o>>>>]
  IN  [units |-> p.units, labels |-> p.labels, sx |-> p.sx, sxs |-> p.sxs,
       other |-> IF kind = "datasec"
                 THEN <<[name |-> ".data", n |-> 9,
                         units |-> [x \in 1..9 |-> dunit(x - 1, IF x = 2 THEN "b1" ELSE "")],
                         labels |-> <<[nm |-> ".Ld", base |-> ".Ld", o |-> 0]>>,
                         sx |-> <<[o |-> 1, d |-> <<"C", "b1", 0>>]>>, sxs |-> <<[o |-> 1, v |-> 8]>>]>>
                 ELSE <<>>,
       nsec |-> IF kind = "datasec" THEN 2 ELSE 1,
       cfi |-> PatchCfiOf(kind),
       n |-> Sum([j \in 1..Len(p.units) |-> p.units[j].n])]

ShapeBoundaries(blk) ==
  LET f == UnitOffsets(blk.units)
      starts == {f[j - 1] : j \in {x \in DOMAIN blk.units : KindOf(blk.units[x]) # "data"}}
      datas == UNION {{f[j - 1] + x : x \in 0..(UnitSize(blk.units[j]) - 1)} :
                        j \in {x \in DOMAIN blk.units : KindOf(blk.units[x]) = "data"}}
  IN  starts \cup datas \cup {f[Len(blk.units)]}
ShapeSize(blk) == UnitOffsets(blk.units)[Len(blk.units)]

\* candidate requests
Candidates(sh) ==
  LET bs == sh.sections[1].blocks
  IN  UNION {
        LET b == bs[i]
            B == ShapeBoundaries(b)
            code == b.kind = "code"
        IN
          IF ShapeSize(b) = 0 THEN {}
          ELSE IF WholeOnly
          THEN {[op |-> "del", blk |-> i, off |-> 0, len |-> ShapeSize(b), proxy |-> px, pk |-> ""] :
                   px \in (IF WithProxyDel THEN {TRUE, FALSE} ELSE {FALSE})}
               \cup {[op |-> "ins", blk |-> i, off |-> 0, len |-> 0, proxy |-> FALSE, pk |-> k] :
                        k \in (IF code THEN PatchKinds \cap {"plain2"} ELSE {})}
          ELSE
          {[op |-> "ins", blk |-> i, off |-> o, len |-> 0, proxy |-> FALSE, pk |-> k] :
              o \in B, k \in (IF code THEN PatchKinds \ ({"bytes"} \cup (IF Len(sh.sections) >= 2 THEN {} ELSE {"datasec"}))
                                ELSE PatchKinds \cap {"bytes"})}
          \cup
          {[op |-> "del", blk |-> i, off |-> o[1], len |-> o[2] - o[1], proxy |-> FALSE, pk |-> ""] :
              o \in {x \in B \X B : x[1] < x[2]}}
          \cup
          (IF WithProxyDel THEN {[op |-> "del", blk |-> i, off |-> 0, len |-> ShapeSize(b), proxy |-> TRUE, pk |-> ""]} ELSE {})
          \cup
          {[op |-> "rep", blk |-> i, off |-> o[1], len |-> o[2] - o[1], proxy |-> FALSE, pk |-> k] :
              o \in {x \in B \X B : x[1] < x[2] /\ (code \/ x[2] - x[1] <= 2)},
              k \in (IF code THEN PatchKinds \cap {"plain2", "ret", "loop", "cfi"} ELSE PatchKinds \cap {"bytes"})}
        : i \in DOMAIN bs}

\* register_insert(AllBlocksScope(ENTRY), patch): one registration, one insertion at
\* offset 0 of every code block
ScopeCandidates == IF WithScopes THEN {[op |-> "insall", blk |-> 0, off |-> 0, len |-> 0, proxy |-> FALSE, pk |-> "plain2"]} ELSE {}

\* canonical (address, then registration) order key, to generate each batch once
Key(r) == <<r.blk, r.off, IF r.op = "ins" THEN 0 ELSE 1>>
Less(a, b) == \/ a.blk < b.blk
              \/ a.blk = b.blk /\ a.off < b.off
              \/ a.blk = b.blk /\ a.off = b.off /\ a.op = "ins" /\ b.op # "ins"
Compatible(rs, r) ==
  IF r.op = "insall" THEN rs = <<>>            \* only as the first element (the runner permutes registration)
  ELSE IF rs = <<>> \/ rs[Len(rs)].op = "insall" THEN TRUE
  ELSE LET l == rs[Len(rs)]
       IN  /\ IF Less(l, r) THEN TRUE
              ELSE (l.blk = r.blk /\ l.off = r.off /\ l.op = "ins" /\ r.op = "ins")
           /\ (l.blk = r.blk => l.off + l.len <= r.off)
           \* at most one patch of a batch adds a chunk to another section
           /\ ~(r.pk = "datasec" /\ \E q \in DOMAIN rs : rs[q].pk = "datasec")
           \* an insertion anchored in a block that the batch deletes wholesale has
           \* no surviving anchor (out of the properties' quantifier, DESIGN F9)
           /\ ~(r.op = "ins" /\ \E q \in DOMAIN rs : rs[q].blk = r.blk /\ rs[q].op \in {"del", "rep"} /\ rs[q].off = 0
                                                       /\ rs[q].len = ShapeSize(shape.sections[1].blocks[r.blk]))
           /\ ~(r.op \in {"del", "rep"} /\ r.off = 0 /\ r.len = ShapeSize(shape.sections[1].blocks[r.blk])
                 /\ \E q \in DOMAIN rs : rs[q].blk = r.blk /\ rs[q].op = "ins")

TraceReqs(st, rs) ==
  LET one(q) == [id |-> q - 1, op |-> rs[q].op, u |-> rs[q].blk, off |-> rs[q].off, len |-> rs[q].len,
                 proxy |-> rs[q].proxy, pk |-> rs[q].pk, patch |-> AbsPatch(rs[q].pk, q)]
      codeBlocks == SelectSeq([i \in 1..Len(st.secs[1].blocks) |-> i], LAMBDA i : st.secs[1].blocks[i].k = "code")
      expand(q) == IF rs[q].op = "insall"
                   THEN [j \in 1..Len(codeBlocks) |-> [one(q) EXCEPT !.op = "ins", !.u = codeBlocks[j]]]
                   ELSE <<one(q)>>
  IN  FlattenSeq([q \in 1..Len(rs) |-> expand(q)])

AbsTrace == [pre |-> AbsState(shape), reqs |-> TraceReqs(AbsState(shape), reqs), stage |-> "done", exc |-> ""]

(***************************************************************************)
(* Behaviour                                                               *)
(***************************************************************************)
\* old = the symbol the shape's control transfers / references name; new = the start
\* symbol of another code block
RetargetOf(sh) ==
  LET bs == sh.sections[1].blocks
      users == {<<i, j>> \in UNION {{<<i, j>> : j \in DOMAIN bs[i].units} : i \in DOMAIN bs} :
                  bs[i].units[j][1] \in {"jmp", "jcc", "call", "ref", "dq"}}
      olds == {bs[u[1]].units[u[2]][2] : u \in users}
      old == IF olds = {} THEN "" ELSE CHOOSE x \in olds : TRUE
      cands == {i \in DOMAIN bs : bs[i].kind = "code" /\ bs[i].syms # <<>> /\ bs[i].syms[1] # old}
  IN  IF old = "" \/ cands = {} THEN <<>>
      ELSE <<old, bs[CHOOSE i \in cands : \A k \in cands : i <= k].syms[1]>>
CaseJson ==
  [shape |-> shape, insfn |-> insfn, retarget |-> IF rt THEN RetargetOf(shape) ELSE <<>>,
   reqs |-> [q \in 1..Len(reqs) |->
               [op |-> reqs[q].op, sec |-> 0, blk |-> IF reqs[q].op = "insall" THEN 0 ELSE reqs[q].blk - 1, off |-> reqs[q].off,
                len |-> reqs[q].len, proxy |-> reqs[q].proxy,
                patch |-> IF reqs[q].pk = "bytes" THEN [kind |-> "bytes", k |-> q, tgt |-> "b1"]
                          ELSE [kind |-> reqs[q].pk, k |-> q, tgt |-> "b1"]]]]

Init == /\ shape \in {MkShape(p) : p \in ShapeParams}
        /\ reqs = <<>>
        /\ insfn \in InsFns
        /\ rt \in {r \in Retargets : r => RetargetOf(shape) # <<>>}
Next == /\ Len(reqs) < MaxReqs
        /\ \E r \in Candidates(shape) \cup ScopeCandidates :
              /\ Compatible(reqs, r)
              /\ reqs' = Append(reqs, r)
        /\ UNCHANGED <<shape, insfn, rt>>
Spec == Init /\ [][Next]_vars

EmitCase == Emit => PrintT("CASE " \o ToJson(CaseJson))

(***************************************************************************)
(* Design-level theorems of the listing semantics (checked on every state) *)
(***************************************************************************)
UnitsOf(L) == SelectSeq(L, LAMBDA it : it.t = "unit")
IsSubSeq(a, b) ==
  LET f[i \in 0..Len(a), j \in 0..Len(b)] ==
        IF i = 0 THEN TRUE
        ELSE IF j = 0 THEN FALSE
        ELSE IF a[i] = b[j] THEN f[i - 1, j - 1] ELSE f[i, j - 1]
  IN  f[Len(a), Len(b)]
OrigLabelNames(L) ==
  LET ls == SelectSeq(L, LAMBDA it : it.t = "lbl" /\ it.src = "orig")
  IN  [i \in 1..Len(ls) |-> ls[i].nm]
OrigAnns(L) ==
  UNION {{<<L[i].u, L[i].o, L[i].an[j]>> : j \in DOMAIN L[i].an} :
            i \in {k \in DOMAIN L : L[k].t = "unit" /\ L[k].src = "orig"}}

Theorems ==
  LET st == AbsState(shape)
      rs == TraceReqs(st, reqs)
      l0 == Flat(st.secs[1])
      le == Edit(st, rs, l0)
      u0 == UnitsOf(l0)
      ue == UnitsOf(le)
      plen(q) == Sum([j \in 1..Len(rs[q].patch.units) |-> rs[q].patch.units[j].n])
  IN  \* every surviving original unit appears exactly once and in order
      /\ SelectSeq(ue, LAMBDA it : it.src = "orig")
            = SelectSeq(u0, LAMBDA it : ~Covered(rs, it.u, it.o))
      \* every patch appears exactly once, contiguously and in registration order at equal anchors
      /\ \A q \in DOMAIN rs : rs[q].op \in {"ins", "rep"} =>
            Len(SelectSeq(ue, LAMBDA it : it.src = "patch" /\ it.rid = rs[q].id))
              = Len(rs[q].patch.units) * Cardinality({z \in DOMAIN rs : rs[z].id = rs[q].id})
      /\ Len(BytesOf(le)) = Len(BytesOf(l0)) + Sum([q \in 1..Len(rs) |-> plen(q)])
                              - Sum([q \in 1..Len(rs) |-> rs[q].len])
      \* labels never disappear unless their block is deleted with retarget_to_proxy,
      \* and they keep their relative order
      /\ \A i \in DOMAIN l0 : l0[i].t = "lbl" =>
            (((l0[i].k = "start" \/ WholeDeleted(st, rs, l0[i].u)) /\ LabelsToProxy(st, rs, l0[i].u))
               <=> ~\E j \in DOMAIN le : le[j].t = "lbl" /\ le[j].nm = l0[i].nm)
      /\ IsSubSeq(OrigLabelNames(le), OrigLabelNames(l0))
      \* annotations travel with their unit: an annotation survives iff its unit does
      /\ OrigAnns(le) = {a \in OrigAnns(l0) : ~Covered(rs, a[1], a[2])}

TypeOK == Len(reqs) <= MaxReqs
Inv == TypeOK /\ Theorems /\ EmitCase
=============================================================================
