SPECIFICATION Spec
CONSTANTS
  Abis = {"x64-elf", "arm64-elf"}
  MaxUses = 2
  Cat = "core"
  MapNames = {"AB", "AB_BC", "AB_BA", "AB_XB"}
  WithPatch = TRUE
  Emit = TRUE
INVARIANT Inv
CHECK_DEADLOCK FALSE
