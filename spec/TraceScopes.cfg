INIT TInit
NEXT TNext
POSTCONDITION AllConsumed
CHECK_DEADLOCK FALSE
CONSTANTS
  Isas = {"x64"}
  MaxBlocks = 1
  Templates = {"o23"}
  Layouts = {"none"}
  FnTables = {"present"}
  Names = {"fa"}
  BothOrders = FALSE
  EntModes = {"first"}
  EpChoices = {0}
  CfgModes = {"full"}
  AddrModes = {TRUE}
  TgtChoices = {0}
  ScopeKinds = {}
  Positions = {}
  FPositions = {}
  FilterKinds = {}
  PatNames = {}
  MaxRegs = 0
  MaxPasses = 1
  Emit = FALSE
