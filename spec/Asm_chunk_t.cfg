SPECIFICATION Spec
CONSTANTS
  VocabName = "chunk"
  MaxLen = 4
  MaxChunks = 4
  TUs = {TRUE, FALSE}
  AUs = {FALSE}
  ICFIs = {FALSE}
  MSs = {{"a"}}
  Emit = TRUE
INVARIANT Inv
CHECK_DEADLOCK FALSE
