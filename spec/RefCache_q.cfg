SPECIFICATION Spec
CONSTANTS
  NB = 3
  NS = 3
  MaxLen = 5
  Inits = "diag"
  Symmetric = TRUE
  Emit = TRUE
INVARIANTS TypeOK WF Refines KnownSound EmitCase
VIEW View
CHECK_DEADLOCK FALSE
