SPECIFICATION Spec
CONSTANTS
  MaxBlocks = 4
  MaxReqs = 2
  Templates = {"o23", "ret"}
  PatchKinds = {"plain2"}
  FnLayouts = {"none", "one"}
  EndSyms = {FALSE}
  NoSyms = {FALSE, TRUE}
  AnnModes = {"none"}
  WithProxyDel = TRUE
  CfiLayouts = {"none"}
  Isa = "x64"
  WithScopes = FALSE
  Fmts = {"elf"}
  WholeOnly = TRUE
  Leads = {0}
  DropFnTables = {FALSE}
  ExtraData = {FALSE}
  Retargets = {FALSE}
  AlignOpts = {0}
  Aliases = {TRUE}
  SharedRet = {FALSE}
  InsFns = {"none"}
  Emit = TRUE
INVARIANT Inv
CHECK_DEADLOCK FALSE
