SPECIFICATION Spec
CONSTANTS
  KS = {5, 6, 7, 8, 13, 14, 15, 16, 20, 21, 27, 28, 31, 32, 34, 35, 41, 42, 48, 49, 55, 56, 62, 63, 64}
  KPair = {7, 63}
  KStream = {7, 14}
  MaxSeq = 2
  NPads = 5
  Emit = TRUE
INVARIANT Inv
CHECK_DEADLOCK FALSE
