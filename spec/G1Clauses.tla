---------------------------- MODULE G1Clauses ----------------------------
(***************************************************************************)
(* Verdict clauses for the listing-refinement group of properties          *)
(* (C01 C02 C04 C06 ...), evaluated on one observed execution              *)
(*    t = [pre, reqs, post, exc, stage, ...]                               *)
(* Every clause compares FACTS (sets / sequences in the vocabulary of the  *)
(* property statements: section bytes, symbol positions, annotation        *)
(* positions, per-instruction function attribution) computed from the      *)
(* edited listing Edit(Flat(pre), reqs) with the same facts computed from  *)
(* the projected post-state.  Block boundaries, UUIDs and temp-label       *)
(* suffixes are invisible to the clauses.                                  *)
(***************************************************************************)
EXTENDS Listing

SecNames(st) == {st.secs[i].name : i \in DOMAIN st.secs}
SecByName(st, nm) ==
  LET c == SelectSeq(st.secs, LAMBDA s : s.name = nm)
  IN  c[1]

\* Context of one verdict: the trace plus, per section, the edited listing and
\* the byte position of each of its items, computed once (TLC caches LET
\* definitions, not operator applications).
\* register_insert_function(name, patch): the function's code is appended to the
\* text section; its symbol is the function's name and labels its entry
InsFnItems(t) ==
  IF "insfn" \notin DOMAIN t \/ t.insfn.name = "" THEN <<>>
  ELSE LET r == [id |-> 999, u |-> 0, off |-> 0, patch |-> t.insfn.patch]
       IN  <<Ent(0, t.insfn.name),
             [BlankItem EXCEPT !.t = "lbl", !.nm = t.insfn.name, !.base = t.insfn.name, !.src = "patch", !.rid = 999, !.k = "start"]>>
           \o PatchItems(r, <<t.insfn.name>>, "code")
\* Where the layout puts the new function's byte interval inside the text section
\* (front or back) is gtirb-layout's choice, not part of any property: observed.
InsFnInFront(t) ==
  \E i \in DOMAIN t.post.syms : t.post.syms[i].n = t.insfn.name /\ t.post.syms[i].k = "blk" /\ t.post.syms[i].p = 0
\* retarget_symbol_uses(old, new), applied after the block edits: every mention of
\* old in an operand or data word now names new (t.retarget = <<old, new>> or <<>>)
HasRetarget(t) == "retarget" \in DOMAIN t /\ t.retarget # <<>>
RetargetName(t, nm) == IF HasRetarget(t) /\ nm = t.retarget[1] THEN t.retarget[2] ELSE nm
RetargetItem(t, it) ==
  IF it.t # "unit" THEN it
  ELSE [it EXCEPT !.tg = RetargetName(t, it.tg), !.tgb = RetargetName(t, it.tgb),
                  !.sx = [j \in 1..Len(it.sx) |->
                            [it.sx[j] EXCEPT !.d = IF Len(it.sx[j].d) >= 2 /\ it.sx[j].d[1] = "C"
                                                   THEN [it.sx[j].d EXCEPT ![2] = RetargetName(t, it.sx[j].d[2])]
                                                   ELSE it.sx[j].d]]]
\* A patch may also contribute contents to other sections (`.section .data ...`):
\* each such chunk becomes a byte interval of its own in that section.  Where the
\* layout puts it (front or back) is observed through the chunk's first label.
PreSymNames0(t) == {t.pre.syms[i].n : i \in DOMAIN t.pre.syms}
HasOther(r) == "other" \in DOMAIN r.patch /\ r.patch.other # <<>>
ChunksFor(t, nm) ==
  LET rs == SortedById(SelectSeq(t.reqs, LAMBDA r : HasOther(r) /\ \E i \in DOMAIN r.patch.other : r.patch.other[i].name = nm))
      one(r) == LET cs == SelectSeq(r.patch.other, LAMBDA c : c.name = nm)
                IN  FlattenSeq([i \in 1..Len(cs) |->
                       PatchItems([r EXCEPT !.patch = [units |-> cs[i].units, labels |-> cs[i].labels, sx |-> cs[i].sx,
                                                       sxs |-> cs[i].sxs, cfi |-> <<>>, n |-> cs[i].n]],
                                  <<>>, "data")])
  IN  FlattenSeq([i \in 1..Len(rs) |-> one(rs[i])])
ChunkLabels(t, nm) ==
  UNION {UNION {{l.base : l \in {x \in Range(c.labels) : x.o = 0}} : c \in {y \in Range(r.patch.other) : y.name = nm}} :
            r \in {z \in Range(t.reqs) : HasOther(z)}}
ChunkInFront(t, nm) ==
  \E i \in DOMAIN t.post.syms : t.post.syms[i].b \in ChunkLabels(t, nm) /\ t.post.syms[i].k = "blk"
                                /\ t.post.syms[i].n \notin PreSymNames0(t)
                                /\ t.post.syms[i].s = nm /\ t.post.syms[i].p = 0
Ctx(t) ==
  LET E == [nm \in SecNames(t.pre) |->
              LET body0 == Edit(t.pre, t.reqs, Flat(SecByName(t.pre, nm)))
                  body1 == IF HasRetarget(t) THEN [i \in 1..Len(body0) |-> RetargetItem(t, body0[i])] ELSE body0
                  ch == ChunksFor(t, nm)
                  body == IF ch = <<>> THEN body1 ELSE IF ChunkInFront(t, nm) THEN ch \o body1 ELSE body1 \o ch
                  fnIt == IF nm = ".text" THEN InsFnItems(t) ELSE <<>>
              IN  IF fnIt # <<>> /\ InsFnInFront(t) THEN fnIt \o body ELSE body \o fnIt]
  IN  [t |-> t, E |-> E, P |-> [nm \in SecNames(t.pre) |-> PosSeq(E[nm])], reqs |-> t.reqs]

(***************************************************************************)
(* Domain                                                                  *)
(***************************************************************************)
UnitStarts(b) == {b.units[i].o : i \in DOMAIN b.units} \cup {b.n}

ReqWellPlaced(pre, r) ==
  LET b == BlockByU(pre, r.u)
  IN  /\ b.u # 0
      /\ r.off \in UnitStarts(b)
      /\ r.off + r.len \in UnitStarts(b)
      /\ (b.k = "code" => \A i \in DOMAIN b.units : b.units[i].k # "bad")

\* requests on one block sorted by (offset, id) must not overlap
NonOverlapping(reqs) ==
  \A i, j \in DOMAIN reqs :
     (i # j /\ reqs[i].u = reqs[j].u) =>
        LET a == reqs[i]  b == reqs[j]
        IN  (a.off < b.off \/ (a.off = b.off /\ a.id < b.id)) => a.off + a.len <= b.off

BlocksTile(st) ==
  \A i \in DOMAIN st.secs :
    LET bs == st.secs[i].blocks
    IN  /\ \A j \in DOMAIN bs : bs[j].inside
        /\ \A j \in 1..(Len(bs) - 1) : bs[j].p + bs[j].n <= bs[j + 1].p

\* patch units must decode completely, too
PatchesDecoded(reqs) ==
  \A i \in DOMAIN reqs :
     /\ \A j \in DOMAIN reqs[i].patch.units : reqs[i].patch.units[j].k # "bad"
     \* contents for other sections: data only, into an existing section, starting with a
     \* label (the placement is observed through it); see ChunksOk for the count
     /\ (HasOther(reqs[i]) =>
           \A j \in DOMAIN reqs[i].patch.other :
              LET c == reqs[i].patch.other[j]
              IN  /\ \A q \in DOMAIN c.units : c.units[q].k = "data"
                  /\ \E l \in Range(c.labels) : l.o = 0)
     /\ (~HasOther(reqs[i]) => reqs[i].patch.nsec <= 1)

\* The API forbids inserting into zero-sized blocks, and an insertion that is
\* anchored in a block which the same batch deletes entirely has no position
\* in the original listing that survives (see DESIGN 5/C01).
\* (the repository's own test_conflicting_insertion_replacement pins the refusal of
\* an insertion into a block that the same batch replaces entirely)
WholeCovered(pre, reqs, u) ==
  \E i \in DOMAIN reqs : /\ reqs[i].op \in {"del", "rep"} /\ reqs[i].u = u /\ reqs[i].off = 0
                          /\ reqs[i].len = BlockByU(pre, u).n /\ reqs[i].len > 0
\* ... also when several partial deletions / replacements cover every unit of the block
AllUnitsCoveredBy(pre, reqs, u) ==
  LET b == BlockByU(pre, u)
  IN  /\ b.units # <<>>
      /\ \A j \in DOMAIN b.units : Covered(reqs, u, b.units[j].o)
NoInsertIntoDeletedOrEmpty(pre, reqs) ==
  \A i \in DOMAIN reqs :
     reqs[i].op \in {"ins", "rep"} =>
        /\ BlockByU(pre, reqs[i].u).n > 0
        /\ (reqs[i].op = "ins" => ~WholeCovered(pre, reqs, reqs[i].u) /\ ~AllUnitsCoveredBy(pre, reqs, reqs[i].u))

NoAlignment(st) ==
  \A i \in DOMAIN st.secs : \A j \in DOMAIN st.secs[i].blocks : st.secs[i].blocks[j].al \in {0, 1}

\* positions are defined through addresses: every byte interval needs one
AllAddressed(st) == \A i \in DOMAIN st.secs : st.secs[i].noaddr = 0
\* several chunks for one section get byte intervals whose relative order is the
\* layout's choice: at most one chunk per section, and only into existing sections
ChunksOk(t) ==
  LET names == UNION {{c.name : c \in Range(r.patch.other)} : r \in {z \in Range(t.reqs) : HasOther(z)}}
  IN  /\ names \subseteq SecNames(t.pre) \ {".text"}
      /\ \A nm \in names :
            Cardinality({<<i, j>> \in UNION {{<<i, j>> : j \in DOMAIN t.reqs[i].patch.other} :
                                               i \in {k \in DOMAIN t.reqs : HasOther(t.reqs[k])}} :
                           t.reqs[i].patch.other[j].name = nm}) <= 1
DomG1(t) ==
  /\ AllAddressed(t.pre)
  /\ ChunksOk(t)
  /\ \A i \in DOMAIN t.reqs : ReqWellPlaced(t.pre, t.reqs[i])
  /\ NonOverlapping(t.reqs)
  /\ BlocksTile(t.pre)
  /\ PatchesDecoded(t.reqs)
  /\ NoInsertIntoDeletedOrEmpty(t.pre, t.reqs)
  /\ t.stage # "register"

Completed(t) == t.exc = ""

(***************************************************************************)
(* C01  bytes                                                              *)
(***************************************************************************)
PostBytes(sec) == sec.bytes
C01_Bytes(X) ==
  /\ SecNames(X.t.post) = SecNames(X.t.pre)
  /\ \A nm \in SecNames(X.t.pre) : BytesOf(X.E[nm]) = PostBytes(SecByName(X.t.post, nm))
C01_Diff(X) ==
  LET bad == {nm \in SecNames(X.t.pre) :
                 nm \notin SecNames(X.t.post) \/
                 BytesOf(X.E[nm]) # PostBytes(SecByName(X.t.post, nm))}
      nm == IF bad = {} THEN "" ELSE CHOOSE x \in bad : TRUE
  IN  IF nm = "" THEN <<"sections", SecNames(X.t.post)>>
      ELSE <<nm, BytesOf(X.E[nm]),
             IF nm \in SecNames(X.t.post) THEN PostBytes(SecByName(X.t.post, nm)) ELSE <<>> >>

(***************************************************************************)
(* C02  symbols                                                            *)
(***************************************************************************)
PreSymNames(X) == {X.t.pre.syms[i].n : i \in DOMAIN X.t.pre.syms}
\* integer-valued symbols are given block referents by gtirb-layout (assign_integral_symbols)
PreIntSyms(X) == {X.t.pre.syms[i].n : i \in {j \in DOMAIN X.t.pre.syms : X.t.pre.syms[j].k = "int"}}

\* expected facts about the labels of the edited listing
LabelFacts(X, nm, fromPatch) ==
  LET L == X.E[nm]
      P == X.P[nm]
  IN  {[n |-> (IF fromPatch THEN L[i].base ELSE L[i].nm), s |-> nm, p |-> P[i]] :
          i \in {j \in DOMAIN L : L[j].t = "lbl" /\ (L[j].src = "patch") = fromPatch}}

ExpOrigSymFacts(X) == UNION {LabelFacts(X, nm, FALSE) : nm \in SecNames(X.t.pre)}
ExpPatchSymFacts(X) == UNION {LabelFacts(X, nm, TRUE) : nm \in SecNames(X.t.pre)}

\* original block-attached symbols whose block is deleted with retarget_to_proxy
ExpProxied(X) ==
  {X.t.pre.syms[i].n : i \in {j \in DOMAIN X.t.pre.syms :
      /\ X.t.pre.syms[j].k = "blk"
      /\ \E b \in Range(AllBlocks(X.t.pre)) :
            \/ /\ X.t.pre.syms[j].n \in Range(b.ss)
               /\ LabelsToProxy(X.t.pre, X.t.reqs, b.u)
            \/ /\ X.t.pre.syms[j].n \in Range(b.es)
               /\ WholeDeleted(X.t.pre, X.t.reqs, b.u)
               /\ LabelsToProxy(X.t.pre, X.t.reqs, b.u)}}

ObsOrigSymFacts(X) ==
  {[n |-> X.t.post.syms[i].n, s |-> X.t.post.syms[i].s, p |-> X.t.post.syms[i].p] :
      i \in {j \in DOMAIN X.t.post.syms : X.t.post.syms[j].k = "blk" /\ X.t.post.syms[j].n \in PreSymNames(X) \ PreIntSyms(X)}}
ObsPatchSymFacts(X) ==
  {[n |-> X.t.post.syms[i].b, s |-> X.t.post.syms[i].s, p |-> X.t.post.syms[i].p] :
      i \in {j \in DOMAIN X.t.post.syms : X.t.post.syms[j].k = "blk" /\ X.t.post.syms[j].n \notin PreSymNames(X)}}
ObsProxied(X) ==
  {X.t.post.syms[i].n : i \in {j \in DOMAIN X.t.post.syms :
      X.t.post.syms[j].k = "proxy" /\ X.t.post.syms[j].n \in PreSymNames(X)}}
PreProxied(X) ==
  {X.t.pre.syms[i].n : i \in {j \in DOMAIN X.t.pre.syms : X.t.pre.syms[j].k = "proxy"}}

C02_Positions(X) == ObsOrigSymFacts(X) = ExpOrigSymFacts(X)
C02_Proxy(X) == ObsProxied(X) = ExpProxied(X) \cup PreProxied(X)
C02_PatchLabels(X) == ObsPatchSymFacts(X) = ExpPatchSymFacts(X)
C02_NoStranded(X) ==
  \A i \in DOMAIN X.t.post.syms :
     X.t.post.syms[i].k \in {"blk", "proxy", "int"}
     \/ (X.t.post.syms[i].k = "none" /\
           \E j \in DOMAIN X.t.pre.syms : X.t.pre.syms[j].n = X.t.post.syms[i].n /\ X.t.pre.syms[j].k = "none")
SetDiff(exp, obs) == [missing |-> exp \ obs, extra |-> obs \ exp]

(***************************************************************************)
(* C04  symbolic expressions and byte-keyed annotations                    *)
(***************************************************************************)
ExpSxFacts(X, nm) ==
  LET L == X.E[nm]
      P == X.P[nm]
  IN  UNION {{[s |-> nm, p |-> P[i] + L[i].sx[j].rel, d |-> L[i].sx[j].d, patch |-> L[i].src = "patch"] :
                 j \in DOMAIN L[i].sx} : i \in {k \in DOMAIN L : L[k].t = "unit"}}
\* expressions of patches are compared with temp-label suffixes stripped by
\* the projection (field d uses the base name there); original ones exactly.
ObsSxFacts(st, nm) ==
  LET sec == SecByName(st, nm)
  IN  UNION {{[s |-> nm, p |-> sec.blocks[i].p + sec.blocks[i].sx[j].o, d |-> sec.blocks[i].sx[j].d] :
                 j \in DOMAIN sec.blocks[i].sx} : i \in DOMAIN sec.blocks}
      \cup {[s |-> nm, p |-> sec.sxout[i].p, d |-> sec.sxout[i].d] : i \in DOMAIN sec.sxout}

ExpAnnFacts(X, nm) ==
  LET L == X.E[nm]
      P == X.P[nm]
  IN  UNION {{[s |-> nm, p |-> P[i] + L[i].an[j].rel, key |-> L[i].an[j].key, t |-> L[i].an[j].t, v |-> L[i].an[j].v] :
                 j \in DOMAIN L[i].an} : i \in {k \in DOMAIN L : L[k].t = "unit"}}
ObsAnnFacts(st, nm) ==
  LET sec == SecByName(st, nm)
  IN  UNION {{[s |-> nm, p |-> sec.blocks[i].p + sec.blocks[i].ann[j].d, key |-> "blk",
               t |-> sec.blocks[i].ann[j].t, v |-> sec.blocks[i].ann[j].v] :
                 j \in {k \in DOMAIN sec.blocks[i].ann : sec.blocks[i].ann[k].d < sec.blocks[i].n}} :
             i \in DOMAIN sec.blocks}
      \cup {[s |-> nm, p |-> sec.iann[i].p, key |-> "bi", t |-> sec.iann[i].t, v |-> sec.iann[i].v] :
              i \in {k \in DOMAIN sec.iann : sec.iann[k].t # "cfi" /\ sec.iann[k].p < sec.size}}

StripPatch(F) == {[s |-> f.s, p |-> f.p, d |-> f.d] : f \in F}
C04_Sx(X) == \A nm \in SecNames(X.t.pre) : StripPatch(ExpSxFacts(X, nm)) = ObsSxFacts(X.t.post, nm)
C04_Ann(X) == \A nm \in SecNames(X.t.pre) : ExpAnnFacts(X, nm) = ObsAnnFacts(X.t.post, nm)
\* nothing is left pointing outside its byte interval / block
C04_InBounds(X) ==
  \A i \in DOMAIN X.t.post.secs :
     LET sec == X.t.post.secs[i]
     IN  /\ sec.sxout = <<>>
         /\ \A j \in DOMAIN sec.iann : sec.iann[j].ok
         /\ \A j \in DOMAIN sec.blocks : \A k \in DOMAIN sec.blocks[j].ann :
               sec.blocks[j].ann[k].d <= sec.blocks[j].n
\* a zero-sized block has no bytes, so any byte annotation on it is stale
C04_NoStaleOnEmpty(X) ==
  \A i \in DOMAIN X.t.post.secs : \A j \in DOMAIN X.t.post.secs[i].blocks :
     X.t.post.secs[i].blocks[j].n = 0 => X.t.post.secs[i].blocks[j].ann = <<>>
\* expressions refer to module symbols by identity; no duplicate names appear
C04_SymIdentity(X) ==
  /\ \A i \in DOMAIN X.t.post.secs : \A j \in DOMAIN X.t.post.secs[i].blocks :
        \A k \in DOMAIN X.t.post.secs[i].blocks[j].sx : X.t.post.secs[i].blocks[j].sx[k].ok
  /\ \A i, j \in DOMAIN X.t.post.syms : i # j => X.t.post.syms[i].n # X.t.post.syms[j].n

(***************************************************************************)
(* C06  functions                                                          *)
(***************************************************************************)
ExpFnFacts(X, nm) ==
  LET L == X.E[nm]
      P == X.P[nm]
  IN  {[s |-> nm, p |-> P[i], fn |-> L[i].fn] : i \in {k \in DOMAIN L : L[k].t = "unit" /\ L[k].bk = "code"}}
ObsFnFacts(st, nm) ==
  LET sec == SecByName(st, nm)
  IN  UNION {{[s |-> nm, p |-> sec.blocks[i].p + sec.blocks[i].units[j].o, fn |-> sec.blocks[i].fn] :
                 j \in DOMAIN sec.blocks[i].units} :
             i \in {k \in DOMAIN sec.blocks : sec.blocks[k].k = "code"}}
C06_Attribution(X) == \A nm \in SecNames(X.t.pre) : ExpFnFacts(X, nm) = ObsFnFacts(X.t.post, nm)
C06_DataNever(X) ==
  \A i \in DOMAIN X.t.post.secs : \A j \in DOMAIN X.t.post.secs[i].blocks :
     X.t.post.secs[i].blocks[j].k = "data" =>
        X.t.post.secs[i].blocks[j].fn = <<>> /\ X.t.post.secs[i].blocks[j].ent = <<>>
C06_Partition(X) ==
  /\ \A i \in DOMAIN X.t.post.secs : \A j \in DOMAIN X.t.post.secs[i].blocks :
        /\ Len(X.t.post.secs[i].blocks[j].fn) <= 1
        /\ Range(X.t.post.secs[i].blocks[j].ent) \subseteq Range(X.t.post.secs[i].blocks[j].fn)
  /\ \A i \in DOMAIN X.t.post.fns :
        /\ X.t.post.fns[i].name \notin {"?missing", "?stale"}
        /\ X.t.post.fns[i].hasb /\ X.t.post.fns[i].hase /\ X.t.post.fns[i].hasn
        /\ X.t.post.fns[i].stale = 0
        /\ Range(X.t.post.fns[i].entries) \subseteq Range(X.t.post.fns[i].blocks)

\* function-entry markers slide like labels over wholly deleted blocks, but
\* only onto a block of the same function (and never with retarget_to_proxy)
EntryFacts(X, nm, strict) ==
  LET L == X.E[nm]
      P == X.P[nm]
      \* index of the next unit after item i (0 if none)
      nextUnit(i) == LET c == {k \in (i + 1)..Len(L) : L[k].t = "unit"}
                     IN  IF c = {} THEN 0 ELSE CHOOSE k \in c : \A k2 \in c : k <= k2
      ok(i) == LET k == nextUnit(i)
               IN  /\ k # 0 /\ L[k].bk = "code" /\ L[i].nm \in Range(L[k].fn)
                   \* every block the marker slid over was a wholly deleted code block of
                   \* the same function, not retargeted to a proxy
                   /\ \A q \in i..k : L[q].t = "pt" =>
                         LET b == BlockByU(X.t.pre, L[q].u)
                         IN  /\ ~ToProxy(X.t.reqs, b.u)
                             /\ IF b.k = "code" THEN L[i].nm \in Range(b.fn) ELSE ~strict
  IN  {[s |-> nm, p |-> P[i], fn |-> L[i].nm] : i \in {k \in DOMAIN L : L[k].t = "ent" /\ ok(k)}}
ExpEntryFacts(X, nm) == EntryFacts(X, nm, TRUE)
\* When the deleted entry block is followed by deleted DATA and then by code of the
\* same function, "the next block" of the statement is ambiguous: the data block at
\* the time of the deletion (no promotion), or the function's block in the edited
\* listing (promotion).  The library does either, depending on whether the entry
\* block had to be kept as a zero-sized block for a while; both are accepted.
MayEntryFacts(X, nm) == EntryFacts(X, nm, FALSE)
ObsEntryFacts(st, nm) ==
  LET sec == SecByName(st, nm)
  IN  UNION {{[s |-> nm, p |-> sec.blocks[i].p, fn |-> sec.blocks[i].ent[j]] : j \in DOMAIN sec.blocks[i].ent} :
             i \in {k \in DOMAIN sec.blocks : sec.blocks[k].n > 0}}
C06_Entries(X) ==
  \A nm \in SecNames(X.t.pre) :
     LET obs == ObsEntryFacts(X.t.post, nm)
     IN  ExpEntryFacts(X, nm) \subseteq obs /\ obs \subseteq MayEntryFacts(X, nm)
\* a function inserted with register_insert_function appears in all three tables
\* with its symbol as name and entry
C06_InsertedFunction(X) ==
  ("insfn" \in DOMAIN X.t /\ X.t.insfn.name # "") =>
     \E i \in DOMAIN X.t.post.fns :
        /\ X.t.post.fns[i].name = X.t.insfn.name
        /\ X.t.post.fns[i].hasb /\ X.t.post.fns[i].hase /\ X.t.post.fns[i].hasn
        /\ Len(X.t.post.fns[i].entries) = 1
        /\ \E j \in DOMAIN X.t.post.syms :
              /\ X.t.post.syms[j].n = X.t.insfn.name /\ X.t.post.syms[j].k = "blk"
              /\ <<X.t.post.syms[j].s, X.t.post.syms[j].p>> = X.t.post.fns[i].entries[1]
PreFnNames(X) == {X.t.pre.fns[i].name : i \in DOMAIN X.t.pre.fns}
ExpLiveFns(X) ==
  {f \in PreFnNames(X) : \E nm \in SecNames(X.t.pre) : \E x \in ExpFnFacts(X, nm) : f \in Range(x.fn)}
\* a function whose code is all gone disappears, unless the only thing left of
\* it is a documented zero-sized block (kept because labels have nowhere to go)
ObsFnNames(X) == {X.t.post.fns[i].name : i \in DOMAIN X.t.post.fns}
ObsZeroOnlyFns(X) ==
  {f \in ObsFnNames(X) :
     \A b \in Range(AllBlocks(X.t.post)) : f \in Range(b.fn) => b.n = 0}
C06_EmptyFunctionGone(X) ==
  /\ ExpLiveFns(X) \subseteq ObsFnNames(X)
  /\ (ObsFnNames(X) \cap PreFnNames(X)) \ ExpLiveFns(X) \subseteq ObsZeroOnlyFns(X)

=============================================================================
