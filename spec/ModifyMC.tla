------------------------------ MODULE ModifyMC ------------------------------
(***************************************************************************)
(* Model checking of the implementation-shaped model (Modify.tla: split /  *)
(* join / remove / insert / delete / cleanup, plus the offset bookkeeping  *)
(* of RewritingContext._apply_modifications mirrored below) against the    *)
(* Level-A listing semantics (Listing.tla, G1Cfg.tla), over the            *)
(* shape x batch space of GenG1.tla.  Every state (shape, batch) is one    *)
(* complete run of the model's apply(); the invariants compare its result  *)
(* with Edit(Flat(..)) on units, labels, functions and the per-instruction *)
(* CFG.  Because the model copies the code, a counterexample is a          *)
(* candidate defect of the code; the known ones are excused by the same    *)
(* narrow signatures as in the trace checks (G1Findings) and counted.      *)
(***************************************************************************)
EXTENDS GenG1, G1Findings
M == INSTANCE Modify

SEC == ".text"
\* TLC re-evaluates a state-level definition at every use, so everything below
\* takes the input blocks (B0) and facts (F0) as parameters and RunModel binds
\* them once per state in a LET.

(***************************************************************************)
(* the CFG of the input listing, at block level                            *)
(***************************************************************************)
W0(sec) == LET fl == Flat(sec) IN [E |-> [x \in {SEC} |-> fl], P |-> [x \in {SEC} |-> PosSeq(fl)], reqs |-> <<>>]
FactsOf(sec) == CfgFacts(W0(sec), {SEC}, {})
InitCfg(Blocks0, F0) ==
  LET NB == Len(Blocks0)
      LastPos(i) == Blocks0[i].p + Blocks0[i].units[Len(Blocks0[i].units)].o
      BlockAt(p) == CHOOSE i \in 1..NB : Blocks0[i].p = p /\ Blocks0[i].n > 0
      all == F0.ft \cup F0.bc \cup F0.ret
      inter == {e \in all : \E i \in 1..NB : Blocks0[i].k = "code" /\ Blocks0[i].units # <<>> /\ e.s[2] = LastPos(i)}
      seq == SetToSeq(inter)
      src(e) == CHOOSE i \in 1..NB : Blocks0[i].k = "code" /\ Blocks0[i].units # <<>> /\ e.s[2] = LastPos(i)
  IN  {[s |-> M!B(src(seq[k])),
        t |-> IF seq[k].d[1] = "i" THEN M!B(BlockAt(seq[k].d[3])) ELSE M!P(k),
        ty |-> seq[k].ty, c |-> seq[k].c, d |-> seq[k].dr] : k \in DOMAIN seq}
IrOfShape(sec, F0) ==
  LET Blocks0 == sec.blocks
      NB == Len(Blocks0)
      NInitProxies == Cardinality(F0.ft \cup F0.bc \cup F0.ret)
      names == UNION {Range(Blocks0[i].ss) \cup Range(Blocks0[i].es) : i \in 1..NB}
      ref(nm) == LET i == CHOOSE j \in 1..NB : nm \in Range(Blocks0[j].ss) \cup Range(Blocks0[j].es)
                 IN  [ref |-> M!B(i), e |-> nm \in Range(Blocks0[i].es), base |-> nm]
  IN  [order |-> [i \in 1..NB |-> i],
       units |-> [i \in 1..NB |-> [j \in 1..Len(Blocks0[i].units) |-> UnitItem(sec, Blocks0[i], Blocks0[i].units[j])]],
       kind |-> [i \in 1..NB |-> Blocks0[i].k],
       sym |-> [nm \in names |-> ref(nm)],
       cfg |-> InitCfg(Blocks0, F0),
       fn |-> [i \in 1..NB |-> IF Blocks0[i].fn = <<>> THEN "" ELSE Blocks0[i].fn[1]],
       ent |-> {i \in 1..NB : Blocks0[i].ent # <<>>},
       next |-> NB + 1, nextp |-> NInitProxies + 1]

(***************************************************************************)
(* the assembler's result for a catalogue patch, as Level-B blocks.        *)
(* (Block splitting after terminators / at labels, edge shapes and the     *)
(* trailing empty block of _invoke_patch; conformance of this table with   *)
(* the real assembler is the business of C12 and of the catalogue clause.) *)
(***************************************************************************)
PBase(rid) == 1000 + 10 * rid
PatchCode(ir, r, hostFn, hostKind) ==
  LET items == PatchItems(r, hostFn, hostKind)
      us == SelectSeq(items, LAMBDA it : it.t = "unit")
      b(j) == PBase(r.id) + j
      tgtNode == IF "b1" \in DOMAIN ir.sym THEN ir.sym["b1"].ref ELSE M!NoNode
      mk(blocks, units, cfg, syms, np) ==
        [blocks |-> blocks, units |-> units, kind |-> [x \in Range(blocks) |-> IF units[x] # <<>> /\ units[x][1].k = "data" THEN "data" ELSE "code"],
         cfg |-> cfg, syms |-> syms, nproxies |-> np]
      none == [x \in {} |-> 0]
      pk == r.pk
  IN  CASE pk \in {"plain2", "plain7", "ref", "cfi", "cfistate"} ->
             mk(<<b(1)>>, (b(1) :> us), {}, none, 0)
        [] pk = "bytes" ->
             [blocks |-> <<b(1)>>, units |-> (b(1) :> us), kind |-> (b(1) :> "data"), cfg |-> {}, syms |-> none, nproxies |-> 0]
        [] pk = "loop" ->
             mk(<<b(1), b(2)>>, (b(1) :> us) @@ (b(2) :> <<>>),
                {M!E(M!B(b(1)), M!B(b(1)), "Branch", FALSE, TRUE)},
                ((".Lx_" \o ToString(r.id)) :> [ref |-> M!B(b(1)), e |-> FALSE, base |-> ".Lx"]), 0)
        [] pk = "fwd" ->
             mk(<<b(1), b(2), b(3)>>, (b(1) :> <<us[1]>>) @@ (b(2) :> <<us[2]>>) @@ (b(3) :> <<>>),
                {M!E(M!B(b(1)), M!B(b(3)), "Branch", TRUE, TRUE), M!FT(M!B(b(1)), M!B(b(2))), M!FT(M!B(b(2)), M!B(b(3)))},
                ((".Ly_" \o ToString(r.id)) :> [ref |-> M!B(b(3)), e |-> FALSE, base |-> ".Ly"]), 0)
        [] pk = "ret" ->
             mk(<<b(1), b(2)>>, (b(1) :> us) @@ (b(2) :> <<>>),
                {M!Ret(M!B(b(1)), M!P(ir.nextp))}, none, 1)
        [] pk = "jmpsym" ->
             mk(<<b(1), b(2)>>, (b(1) :> us) @@ (b(2) :> <<>>),
                {M!E(M!B(b(1)), tgtNode, "Branch", FALSE, TRUE)}, none, 0)
        [] pk = "callsym" ->
             mk(<<b(1), b(2)>>, (b(1) :> <<us[1]>>) @@ (b(2) :> <<us[2]>>),
                {M!E(M!B(b(1)), tgtNode, "Call", FALSE, TRUE), M!FT(M!B(b(1)), M!B(b(2)))}, none, 0)
        [] OTHER -> mk(<<b(1)>>, (b(1) :> us), {}, none, 0)

\* the assembler reads Symbol.referent directly: a patch naming a label whose
\* block was deleted earlier in the batch cannot be assembled (KF-C09-1)
PatchAssembles(ir, r) ==
  r.pk \in {"jmpsym", "callsym"} => ("b1" \in DOMAIN ir.sym /\ ir.sym["b1"].ref # M!NoNode)

(***************************************************************************)
(* rewriting.py: _apply_modifications, with its byte-offset bookkeeping    *)
(***************************************************************************)
ByteSize(ir, id) == Sum([j \in 1..Len(ir.units[id]) |-> ir.units[id][j].n])
\* actual_block.offset - block.offset: the blocks between them share one byte interval
BlockDelta(ir, orig, actual) ==
  LET i == M!IdxOf(ir, orig)
      j == M!IdxOf(ir, actual)
  IN  Sum([q \in 1..(j - i) |-> ByteSize(ir, ir.order[i + q - 1])])
\* unit index k such that the first k units of the block take `off` bytes (-1: not a boundary)
UnitIndexAt(ir, id, off) ==
  LET us == ir.units[id]
      pre[k \in 0..Len(us)] == IF k = 0 THEN 0 ELSE pre[k - 1] + us[k].n
      c == {k \in 0..Len(us) : pre[k] = off}
  IN  IF c = {} THEN 0 - 1 ELSE CHOOSE k \in c : TRUE

RECURSIVE ApplyReqs(_, _, _, _, _, _)
\* acc = [ir, err (exception name)]
ApplyReqs(Blocks0, acc, orig, actual, total, rs) ==
  IF rs = <<>> \/ acc.err # "" THEN acc
  ELSE LET r == Head(rs)
           ir == acc.ir
       IN  IF actual = 0 \/ ~M!InOrder(ir, actual)
           THEN [acc EXCEPT !.err = "AssertionError"]      \* assert isinstance(actual_block, ByteBlock)
           ELSE
           LET delta == BlockDelta(ir, orig, actual)
               aoff == r.off + total - delta
               k == UnitIndexAt(ir, actual, aoff)
               k2 == UnitIndexAt(ir, actual, aoff + r.len)
           IN  IF k < 0 \/ k2 < 0 THEN [acc EXCEPT !.err = "ModelOffsetError"]
               ELSE IF r.op = "del"
               THEN LET res == M!Delete(ir, actual, k, k2 - k, r.proxy)
                    IN  ApplyReqs(Blocks0, [acc EXCEPT !.ir = res.ir, !.err = IF res.assertOk THEN "" ELSE "AssertionError"],
                                  orig, res.last, total - r.len, Tail(rs))
               ELSE IF ~PatchAssembles(ir, r) THEN [acc EXCEPT !.err = "UnsupportedAssemblyError"]
               ELSE IF ByteSize(ir, actual) = 0 THEN [acc EXCEPT !.err = "AssertionError"]   \* assert block.size
               ELSE LET b0 == Blocks0[orig]
                        code == PatchCode(ir, r, b0.fn, b0.k)
                        res == M!Insert(ir, actual, k, k2 - k, code)
                    IN  ApplyReqs(Blocks0, [acc EXCEPT !.ir = res.ir, !.err = IF res.assertOk THEN "" ELSE "AssertionError"],
                                  orig, res.last, total + r.patch.n - r.len, Tail(rs))

ReqsOfBlock(RS, i) == SortSeq(SelectSeq(RS, LAMBDA r : r.u = i), LAMBDA a, b : a.off < b.off \/ (a.off = b.off /\ a.id < b.id))
RECURSIVE ApplyBlocks(_, _, _, _)
ApplyBlocks(Blocks0, RS, acc, i) ==
  IF i > Len(Blocks0) \/ acc.err # "" THEN acc
  ELSE LET rs == ReqsOfBlock(RS, i)
       IN  ApplyBlocks(Blocks0, RS, IF rs = <<>> THEN acc ELSE ApplyReqs(Blocks0, acc, i, i, 0, rs), i + 1)

(***************************************************************************)
(* Level-B result -> the projection format, so that every Level-A clause   *)
(* and finding signature applies to the model exactly as to the code       *)
(***************************************************************************)
NodeDesc(ir, pos, n) ==
  IF M!IsB(n) THEN <<"blk", SEC, pos[n[2]], ByteSize(ir, n[2]), <<>> >>
  ELSE LET names == {s \in DOMAIN ir.sym : ir.sym[s].ref = n}
       IN  <<"proxy", "P:", 0, 0, SetToSeq(names)>>
ProjectB(ir) ==
  LET ord == ir.order
      pos == LET f[i \in 0..Len(ord)] == IF i = 0 THEN 0 ELSE f[i - 1] + ByteSize(ir, ord[i])
             IN  [id \in Range(ord) |-> f[M!IdxOf(ir, id) - 1]]
      unitsOf(id) == LET us == ir.units[id]
                         o == LET f[k \in 0..Len(us)] == IF k = 0 THEN 0 ELSE f[k - 1] + us[k].n IN f
                     IN  [k \in 1..Len(us) |-> [o |-> o[k - 1], n |-> us[k].n, k |-> us[k].k, tg |-> us[k].tg,
                                                tgb |-> us[k].tgb, by |-> us[k].by]]
      syms(id, atEnd) == SetToSeq({s \in DOMAIN ir.sym : ir.sym[s].ref = M!B(id) /\ ir.sym[s].e = atEnd})
      blk(id) == [u |-> id, k |-> ir.kind[id], p |-> pos[id], n |-> ByteSize(ir, id), units |-> unitsOf(id),
                  ss |-> syms(id, FALSE), es |-> syms(id, TRUE),
                  fn |-> IF ir.fn[id] = "" THEN <<>> ELSE <<ir.fn[id]>>,
                  ent |-> IF id \in ir.ent /\ ir.fn[id] # "" THEN <<ir.fn[id]>> ELSE <<>>,
                  sx |-> <<>>, ann |-> <<>>, cfi |-> <<>>, al |-> 0, inside |-> TRUE]
      alive == {e \in ir.cfg : (M!IsB(e.s) => M!InOrder(ir, e.s[2])) /\ (M!IsB(e.t) => M!InOrder(ir, e.t[2]))}
      es == SetToSeq(alive)
      fnames == {ir.fn[id] : id \in Range(ord)} \ {""}
      fseq == SetToSeq(fnames)
  IN  [secs |-> <<[name |-> SEC, size |-> Sum([i \in 1..Len(ord) |-> ByteSize(ir, ord[i])]),
                   bytes |-> FlattenSeq([i \in 1..Len(ord) |-> FlattenSeq([k \in 1..Len(ir.units[ord[i]]) |-> ir.units[ord[i]][k].by])]),
                   blocks |-> [i \in 1..Len(ord) |-> blk(ord[i])], iann |-> <<>>, sxout |-> <<>>, gaps |-> <<>>, noaddr |-> 0]>>,
       syms |-> LET ns == SetToSeq(DOMAIN ir.sym)
                IN  [i \in 1..Len(ns) |->
                       LET s == ir.sym[ns[i]]
                       IN  IF M!IsB(s.ref) /\ M!InOrder(ir, s.ref[2])
                           THEN [n |-> ns[i], b |-> s.base, k |-> "blk", s |-> SEC,
                                 p |-> pos[s.ref[2]] + (IF s.e THEN ByteSize(ir, s.ref[2]) ELSE 0), e |-> s.e]
                           ELSE IF M!IsP(s.ref) THEN [n |-> ns[i], b |-> s.base, k |-> "proxy", s |-> "", p |-> 0, e |-> FALSE]
                           ELSE [n |-> ns[i], b |-> s.base, k |-> "stale", s |-> "", p |-> 0, e |-> FALSE]],
       edges |-> [i \in 1..Len(es) |-> [s |-> NodeDesc(ir, pos, es[i].s), t |-> NodeDesc(ir, pos, es[i].t),
                                          ty |-> es[i].ty, c |-> es[i].c, d |-> es[i].d]],
       dead |-> Cardinality(ir.cfg \ alive),
       fns |-> [i \in 1..Len(fseq) |-> [name |-> fseq[i], hasb |-> TRUE, hase |-> TRUE, hasn |-> TRUE, stale |-> 0,
                                         blocks |-> <<>>, entries |-> <<>>]]]

(***************************************************************************)
(* one complete run of the model for (shape, reqs), judged by the Level-A  *)
(* clauses; computed once per state and kept in the variable `ver`         *)
(***************************************************************************)
RunModel(sh, rq) ==
  LET st0 == AbsState(sh)
      sec == st0.secs[1]
      f0 == FactsOf(sec)
      ir0 == IrOfShape(sec, f0)
      RS == TraceReqs(st0, rq)
      res == ApplyBlocks(sec.blocks, RS, [ir |-> ir0, err |-> ""], 1)
      p0 == ProjectB(ir0)
      T == [pre |-> [secs |-> st0.secs, syms |-> p0.syms, edges |-> p0.edges, fns |-> p0.fns],
            reqs |-> RS, post |-> ProjectB(res.ir), exc |-> res.err, stage |-> "apply"]
      X == Ctx(T)
      K == CfgK(X)
      Excused(clause) == KfTags(X, K, clause) # {}
      Done == T.exc = ""
  IN  [completes |-> (T.exc # "" => Excused("C01_Completes")) /\ T.exc # "ModelOffsetError",
       exc |-> T.exc,
       bytes |-> Done => C01_Bytes(X),
       syms |-> Done => /\ (C02_Positions(X) \/ Excused("C02_Positions"))
                        /\ (C02_Proxy(X) \/ Excused("C02_Proxy"))
                        /\ C02_PatchLabels(X),
       fn |-> Done => C06_Attribution(X) /\ C06_Entries(X),
       nodead |-> Done => T.post.dead = 0,
       precfg |-> f0.wellformed => K.preOk,
       cfgdom |-> Done /\ K.dom,
       cfg |-> (Done /\ K.dom) =>
                 /\ (C03_Fallthrough(K) \/ Excused("C03_Fallthrough"))
                 /\ C03_BranchCall(K)
                 /\ (C03_Returns(K) \/ Excused("C03_Returns"))
                 /\ C03_NoBuriedTerminator(X)]

VARIABLE ver
varsB == <<vars, ver>>
InitB == Init /\ ver = RunModel(shape, reqs)
NextB == Next /\ ver' = RunModel(shape', reqs')
SpecB == InitB /\ [][NextB]_varsB

Inv_Completes == ver.completes
Inv_Bytes == ver.bytes
Inv_Syms == ver.syms
Inv_Fn == ver.fn
Inv_NoDeadEdges == ver.nodead
Inv_PreCfg == ver.precfg
Inv_Cfg == ver.cfg
\* vacuity guards: some run completes and has a well-formed CFG (checked as the
\* negation being violated in a separate config is unnecessary: -coverage shows it)
=============================================================================
