SPECIFICATION Spec
CONSTANTS
  MaxBlocks = 2
  MaxReqs = 2
  Templates = {"o23", "jmp", "ret"}
  PatchKinds = {"plain2", "jmpsym", "callsym", "ref"}
  FnLayouts = {"none", "one"}
  EndSyms = {FALSE}
  NoSyms = {FALSE}
  AnnModes = {"none"}
  WithProxyDel = TRUE
  CfiLayouts = {"none"}
  Isa = "x64"
  WithScopes = FALSE
  ExtraData = {FALSE}
  Retargets = {TRUE, FALSE}
  AlignOpts = {0}
  InsFns = {"none"}
  Emit = TRUE
INVARIANT Inv
CHECK_DEADLOCK FALSE
