--------------------------- MODULE MC_LeafHistInd ---------------------------
(***************************************************************************)
(* The core of LeafHist.tla without its history variables, typed for       *)
(* Apalache: an INDUCTIVE invariant shows SkipIfMayBeLeaf for histories of *)
(* ANY number of RewritingContexts (TLC checks LeafHist.tla for <= 3-4     *)
(* contexts).  Three functions; one context patches up to two functions    *)
(* and adds a call to at most one other (a superset of LeafHist!OpSeqs).   *)
(*   apalache-mc check --init=Init    --inv=IndInv --length=0 MC_LeafHistInd.tla   *)
(*   apalache-mc check --init=IndInit --inv=IndInv --length=1 MC_LeafHistInd.tla   *)
(* (tools/apalache_leafhist.sh runs both.)                                 *)
(***************************************************************************)
EXTENDS Integers, FiniteSets

Fns == 1..3
Absent == 0 - 1

VARIABLES
  \* @type: Int -> Bool;
  orig,
  \* @type: Int -> Bool;
  calls,
  \* @type: Int -> Int;
  tab,
  \* @type: Bool;
  bad

\* RewritingContext.__init__ -> _update_leaf_functions
\* @type: (Int -> Int, Int -> Bool, Set(Int)) => (Int -> Int);
Seen(t, cl, known) ==
  [f \in Fns |-> IF f \in known /\ t[f] = Absent THEN (IF cl[f] THEN 0 ELSE 1) ELSE t[f]]
\* _invoke_patch
\* @type: (Int -> Int, Set(Int), Int) => Bool;
IsLeaf(t, known, b) == b \notin known \/ t[b] /= 0

Init ==
  /\ orig \in [Fns -> BOOLEAN]
  /\ calls = orig
  /\ tab = [f \in Fns |-> Absent]
  /\ bad = FALSE

\* one context: the functions it is given, the functions it patches, the function it adds a call to
\* @type: (Set(Int), Set(Int), Set(Int)) => Bool;
Context(known, P, A) ==
  /\ Cardinality(P) <= 2 /\ Cardinality(A) <= 1 /\ P \cap A = {} /\ P \cup A /= {}
  /\ LET t1 == Seen(tab, calls, known)
     IN  /\ tab' = t1
         /\ calls' = [f \in Fns |-> IF f \notin known /\ f \in P THEN FALSE
                                    ELSE calls[f] \/ (f \in known /\ f \in A)]
         \* a patch in a function that may be a leaf got no red-zone skip
         /\ bad' = (bad \/ \E b \in P : ~orig[b] /\ ~IsLeaf(t1, known, b))
  /\ UNCHANGED orig

Next == \E known \in SUBSET Fns : \E P \in SUBSET Fns : \E A \in SUBSET Fns : Context(known, P, A)

TypeOK ==
  /\ orig \in [Fns -> BOOLEAN] /\ calls \in [Fns -> BOOLEAN]
  /\ tab \in [Fns -> {Absent, 0, 1}] /\ bad \in BOOLEAN
\* an entry never says "not a leaf" for a function that may be one ...
TableIsOriginal == \A f \in Fns : tab[f] = 0 => orig[f]
\* ... and a possible leaf that has acquired a call was recorded before it did
RecordedBeforeCall == \A f \in Fns : (~orig[f] /\ calls[f]) => tab[f] = 1
IndInv == TypeOK /\ ~bad /\ TableIsOriginal /\ RecordedBeforeCall
IndInit == IndInv
=============================================================================
