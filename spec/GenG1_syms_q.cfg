SPECIFICATION Spec
CONSTANTS
  MaxBlocks = 2
  MaxReqs = 2
  Templates = {"o23", "ret", "d3"}
  PatchKinds = {"plain2", "loop", "resume"}
  FnLayouts = {"none", "one"}
  EndSyms = {TRUE, FALSE}
  NoSyms = {TRUE, FALSE}
  AnnModes = {"none"}
  WithProxyDel = TRUE
  CfiLayouts = {"none"}
  Isa = "x64"
  WithScopes = FALSE
  Fmts = {"elf", "pe"}
  WholeOnly = FALSE
  Leads = {0}
  DropFnTables = {FALSE}
  ExtraData = {FALSE}
  Retargets = {FALSE}
  AlignOpts = {0}
  Aliases = {FALSE}
  SharedRet = {FALSE}
  InsFns = {"none"}
  Emit = TRUE
INVARIANT Inv
CHECK_DEADLOCK FALSE
