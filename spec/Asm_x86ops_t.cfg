SPECIFICATION Spec
CONSTANTS
  VocabName = "x86ops"
  MaxLen = 4
  MaxChunks = 1
  TUs = {FALSE, TRUE}
  AUs = {FALSE}
  ICFIs = {FALSE}
  MSs = {{"a", "b"}}
  Emit = TRUE
INVARIANT Inv
CHECK_DEADLOCK FALSE
