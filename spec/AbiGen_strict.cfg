\* The model WITHOUT the exemption of the known finding KF-C16-1 (F5): TLC must
\* refute Inv_NoRedZoneWriteIfLeaf (x86-64 ELF, leaf, align_stack alone).
SPECIFICATION Spec
CONSTANTS
  GenAbis = {"x64elf"}
  Wide = FALSE
  ScratchVals = {0, 1}
  Emit = FALSE
  Strict = TRUE
INVARIANT Inv_NoRedZoneWriteIfLeaf
CHECK_DEADLOCK FALSE
