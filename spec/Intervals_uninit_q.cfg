SPECIFICATION Spec
CONSTANTS
  MaxSize = 3
  MaxBlocks = 3
  Inits = "partial"
  KindMode = "alt"
  AlignVals = {}
  MaxAligned = 0
  ItemMode = "dense"
  MaxItems = 0
  Addrs = {"4096"}
  Grows = {}
  Lates = FALSE
  AddAligns = {}
  OnlyTiled = FALSE
  NopKinds = {"1", "4", "u"}
  VariantSet = "uninit"
  Rotate = 2
  Emit = TRUE
INVARIANT Inv
CHECK_DEADLOCK FALSE
