SPECIFICATION Spec
CONSTANTS
  Mode = "versions"
  Fmts = {"elf"}
  K1 = 0
  K2 = 0
  K3 = 0
  NVer = 3
  ReqNames = {"1", "2f", "1_2", "12_3"}
  Emit = TRUE
INVARIANT Inv
CHECK_DEADLOCK FALSE
