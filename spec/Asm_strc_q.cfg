SPECIFICATION Spec
CONSTANTS
  VocabName = "strc"
  MaxLen = 3
  MaxChunks = 2
  TUs = {TRUE, FALSE}
  AUs = {FALSE}
  ICFIs = {FALSE}
  MSs = {{"a"}}
  Emit = TRUE
INVARIANT Inv
CHECK_DEADLOCK FALSE
