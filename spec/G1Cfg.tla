------------------------------- MODULE G1Cfg -------------------------------
(***************************************************************************)
(* C03: the CFG, flattened to instructions, is the control flow of the     *)
(* edited listing (DESIGN appendix D, rules G1-G6).                        *)
(*                                                                         *)
(* Nodes:  <<"i", sec, pos>>   the instruction at byte position pos        *)
(*         <<"z", sec, pos>>   a position that holds no code (kept         *)
(*                             zero-sized block / data / end of section)   *)
(*         <<"proxy", S, 0>>   the proxy of symbol S ("" = some anonymous  *)
(*                             proxy: proxies are compared modulo identity)*)
(* Edges:  [s |-> <<sec, pos>>, d |-> node, ty, c, dr]                     *)
(***************************************************************************)
EXTENDS G1Clauses

CanFT(k) == k \in {"op", "jcc", "call", "icall"}
IsXfer(k) == k \in {"jmp", "jcc", "call", "ret", "ijmp", "icall"}
MkEdge(sec, pos, node, ty, c, dr) == [s |-> <<sec, pos>>, d |-> node, ty |-> ty, c |-> c, dr |-> dr]

(***************************************************************************)
(* Observed: the block-level CFG of a projected state, per instruction.    *)
(***************************************************************************)
ObsNode(tgt, srcTg) ==
  CASE tgt[1] = "blk" -> IF tgt[4] > 0 THEN <<"i", tgt[2], tgt[3]>> ELSE <<"z", tgt[2], tgt[3]>>
    [] tgt[1] = "proxy" -> IF srcTg # "" /\ srcTg \in Range(tgt[5]) THEN <<"proxy", srcTg, 0>> ELSE <<"proxy", "", 0>>
    [] OTHER -> <<"stale", tgt[1], 0>>

ObsIntra(st) ==
  UNION {UNION {{MkEdge(st.secs[i].name, st.secs[i].blocks[j].p + st.secs[i].blocks[j].units[k].o,
                        <<"i", st.secs[i].name, st.secs[i].blocks[j].p + st.secs[i].blocks[j].units[k + 1].o>>,
                        "Fallthrough", FALSE, TRUE) :
                   k \in 1..(Len(st.secs[i].blocks[j].units) - 1)} :
                j \in {x \in DOMAIN st.secs[i].blocks : st.secs[i].blocks[x].k = "code"}} :
         i \in DOMAIN st.secs}

SrcBlock(st, e) ==
  LET sec == SecByName(st, e.s[2])
      c == SelectSeq(sec.blocks, LAMBDA b : b.p = e.s[3] /\ b.n = e.s[4])
  IN  IF c = <<>> THEN NoBlock ELSE c[1]

\* edges whose source is a real (non-empty) code block, attached to its last instruction
ObsInter(st) ==
  LET es == SelectSeq(st.edges, LAMBDA e : e.s[1] = "blk" /\ e.s[4] > 0 /\ e.s[2] \in SecNames(st))
      one(e) == LET b == SrcBlock(st, e)
                    last == IF b.units = <<>> THEN [o |-> 0, tgb |-> ""] ELSE b.units[Len(b.units)]
                IN  MkEdge(e.s[2], e.s[3] + last.o,
                           ObsNode(e.t, IF e.ty \in {"Branch", "Call"} /\ e.d THEN last.tgb ELSE ""),
                           e.ty, e.c, e.d)
  IN  {one(es[i]) : i \in DOMAIN es}

ObsInsnCFG(st) == ObsIntra(st) \cup ObsInter(st)

\* edges that start at something that is not a non-empty block of the module
ObsOddSources(st) ==
  {st.edges[i] : i \in {k \in DOMAIN st.edges :
      st.edges[k].s[1] # "blk" \/ (st.edges[k].s[4] = 0 /\ st.edges[k].ty # "Fallthrough")}}
ObsStale(st) ==
  {st.edges[i] : i \in {k \in DOMAIN st.edges :
      st.edges[k].s[1] \in {"stale", "stale_proxy"} \/ st.edges[k].t[1] \in {"stale", "stale_proxy"}}}
Buried(st) ==
  UNION {UNION {{<<st.secs[i].name, st.secs[i].blocks[j].p + st.secs[i].blocks[j].units[k].o>> :
                   k \in {x \in 1..(Len(st.secs[i].blocks[j].units) - 1) :
                            IsXfer(st.secs[i].blocks[j].units[x].k)}} :
                j \in {x \in DOMAIN st.secs[i].blocks : st.secs[i].blocks[x].k = "code"}} :
         i \in DOMAIN st.secs}

(***************************************************************************)
(* Expected: control flow of an edited listing.  W = [E, P] (functions of  *)
(* section names), proxied = names of symbols that live on proxies.        *)
(***************************************************************************)
NextUnitIdx(L, i) ==
  LET c == {k \in (i + 1)..Len(L) : L[k].t = "unit"}
  IN  IF c = {} THEN 0 ELSE CHOOSE k \in c : \A k2 \in c : k <= k2

\* where does the symbol that unit `it` names lead?
Resolve(W, secs, proxied, it) ==
  LET own == {<<nm, i>> \in UNION {{<<nm, i>> : i \in DOMAIN W.E[nm]} : nm \in secs} :
                 /\ W.E[nm][i].t = "lbl"
                 /\ IF it.src = "patch" /\ W.E[nm][i].src = "patch"
                    THEN W.E[nm][i].rid = it.rid /\ W.E[nm][i].base = it.tgb
                    ELSE W.E[nm][i].src = "orig" /\ W.E[nm][i].nm = it.tg}
      pick == CHOOSE x \in own : TRUE
  IN  IF own # {}
      THEN LET nm == pick[1]  i == pick[2]  k == NextUnitIdx(W.E[nm], i)
           IN  IF k # 0 /\ W.E[nm][k].bk = "code" /\ W.P[nm][k] = W.P[nm][i]
               THEN [node |-> <<"i", nm, W.P[nm][k]>>, fn |-> W.E[nm][k].fn]
               ELSE [node |-> <<"z", nm, W.P[nm][i]>>, fn |-> <<>>]
      ELSE IF it.tgb \in proxied THEN [node |-> <<"proxy", it.tgb, 0>>, fn |-> <<>>]
      ELSE [node |-> <<"unresolved", it.tgb, 0>>, fn |-> <<>>]

\* all code units of all sections as records with their position and successor.
\* px: a block deleted with retarget_to_proxy used to follow this instruction
\* (only wholly deleted blocks in between): its incoming control flow, the
\* fallthrough included, is redirected to the proxy (documented in delete_at).
ProxiedBetween(W, reqs, nm, i, k) ==
  \E q \in (i + 1)..(IF k = 0 THEN Len(W.E[nm]) ELSE k) :
     W.E[nm][q].t = "pt" /\ W.E[nm][q].o = 0 /\ ToProxy(reqs, W.E[nm][q].u)
UnitRecs(W, secs) ==
  UNION {{LET k == NextUnitIdx(W.E[nm], i)
          IN  [sec |-> nm, i |-> i, it |-> W.E[nm][i], p |-> W.P[nm][i], nx |-> k,
               px |-> ProxiedBetween(W, W.reqs, nm, i, k)] :
             i \in {k \in DOMAIN W.E[nm] : W.E[nm][k].t = "unit" /\ W.E[nm][k].bk = "code"}} : nm \in secs}

NextIsCode(W, u) == ~u.px /\ u.nx # 0 /\ W.E[u.sec][u.nx].bk = "code"
Succ(W, u) == IF u.px THEN <<"proxy", "", 0>> ELSE <<"i", u.sec, W.P[u.sec][u.nx]>>
HasSucc(W, u) == u.px \/ NextIsCode(W, u)

\* Everything the CFG clauses need about one listing, computed once:
\*   ft / bc / ret : expected fallthrough, branch+call, return edges
\*   wellformed    : no instruction falls into data/nothing, every direct target resolves to code or a proxy
CfgFacts(W, secs, proxied) ==
  LET U == UnitRecs(W, secs)
      xfer == {u \in U : u.it.k \in {"jmp", "jcc", "call"}}
      res == [u \in xfer |-> Resolve(W, secs, proxied, u.it)]
      ft == {MkEdge(u.sec, u.p, Succ(W, u), "Fallthrough", FALSE, TRUE) :
               u \in {x \in U : CanFT(x.it.k) /\ HasSucc(W, x)}}
      bc == {MkEdge(u.sec, u.p, res[u].node, IF u.it.k = "call" THEN "Call" ELSE "Branch", u.it.k = "jcc", TRUE) : u \in xfer}
            \cup
            {MkEdge(u.sec, u.p, <<"proxy", "", 0>>, IF u.it.k = "icall" THEN "Call" ELSE "Branch", FALSE, FALSE) :
               u \in {x \in U : x.it.k \in {"ijmp", "icall"}}}
      \* return sites of function f: the instruction after every direct call whose target is in f
      sites(f) == {Succ(W, u) :
                     u \in {x \in xfer : x.it.k = "call" /\ HasSucc(W, x) /\ f \in Range(res[x].fn)}}
      ret == UNION {LET ss == IF u.it.fn = <<>> THEN {} ELSE sites(u.it.fn[1])
                    IN  IF ss = {} THEN {MkEdge(u.sec, u.p, <<"proxy", "", 0>>, "Return", FALSE, TRUE)}
                        ELSE {MkEdge(u.sec, u.p, s, "Return", FALSE, TRUE) : s \in ss} :
                    u \in {x \in U : x.it.k = "ret"}}
  IN  [ft |-> ft, bc |-> bc, ret |-> ret,
       units |-> U, res |-> res,
       wellformed |-> /\ \A u \in U : CanFT(u.it.k) => HasSucc(W, u)
                      /\ \A u \in xfer : res[u].node[1] \in {"i", "proxy"}]

ByType(S, tys) == {e \in S : e.ty \in tys}

(***************************************************************************)
(* Clauses.  K = CfgK(X) is computed once per trace by the trace spec.     *)
(***************************************************************************)
\* the pre-state seen as a listing edited by nothing
Ctx0(t) ==
  LET E == [nm \in SecNames(t.pre) |-> Flat(SecByName(t.pre, nm))]
  IN  [E |-> E, P |-> [nm \in SecNames(t.pre) |-> PosSeq(E[nm])], reqs |-> <<>>]
PostProxied(X) == ExpProxied(X) \cup PreProxied(X)

CfgK(X) ==
  LET t == X.t
      secs == SecNames(t.pre)
      F0 == CfgFacts(Ctx0(t), secs, PreProxied(X))
      obs0 == ObsInsnCFG(t.pre)
      preOk == /\ Buried(t.pre) = {} /\ ObsStale(t.pre) = {} /\ ObsOddSources(t.pre) = {}
               /\ F0.wellformed
               /\ obs0 = F0.ft \cup F0.bc \cup F0.ret
      F == CfgFacts(X, secs, PostProxied(X))
  IN  [preOk |-> preOk,
       dom |-> IF preOk THEN F.wellformed ELSE FALSE,
       exp |-> IF preOk THEN F ELSE F0,
       obs |-> ObsInsnCFG(t.post)]

\* (returns do not follow a retargeted call: finding KF-C18-1 of C18; the Returns
\* clause of this group does not judge batches that retarget a call operand)
RetargetsACall(X) ==
  HasRetarget(X.t) /\ \E b \in Range(AllBlocks(X.t.pre)) : \E j \in DOMAIN b.units :
      b.units[j].k = "call" /\ b.units[j].tg = X.t.retarget[1]
C03_Fallthrough(K) == ByType(K.obs, {"Fallthrough"}) = K.exp.ft
C03_BranchCall(K) == ByType(K.obs, {"Branch", "Call"}) = K.exp.bc
C03_Returns(K) == ByType(K.obs, {"Return"}) = K.exp.ret
\* a fallthrough edge leads to the code that follows its source (or to a proxy): judged also
\* where the edited listing is not well formed (an instruction left falling off its section
\* or into data), where the exact edge set is not
ObsFarFallthrough(st) ==
  {st.edges[i] : i \in {k \in DOMAIN st.edges :
      /\ st.edges[k].ty = "Fallthrough" /\ st.edges[k].s[1] = "blk" /\ st.edges[k].t[1] = "blk"
      /\ ~(st.edges[k].t[2] = st.edges[k].s[2] /\ st.edges[k].t[3] = st.edges[k].s[3] + st.edges[k].s[4])}}
C03_FallthroughAdjacent(X) == ObsFarFallthrough(X.t.post) = {}
C03_NoBuriedTerminator(X) == Buried(X.t.post) = {}
C03_EndpointsAlive(X) == ObsStale(X.t.post) = {} /\ ObsOddSources(X.t.post) = {}
=============================================================================
