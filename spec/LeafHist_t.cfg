SPECIFICATION Spec
CONSTANTS
  NF = 2
  MaxCtx = 3
  WideClob = TRUE
  Emit = TRUE
INVARIANT Inv
PROPERTY FirstSeenSticks
CHECK_DEADLOCK FALSE
