---------------------------- MODULE G1Findings ----------------------------
(***************************************************************************)
(* Narrow signatures of the OPEN known findings of the listing group.  A   *)
(* failed clause is excused only when EVERY element of the difference      *)
(* between the expected and the observed facts is explained by the trigger *)
(* of an open finding (computed here from the pre-state, the requests and  *)
(* the edited listing); anything else of the same property is still a      *)
(* VIOLATION.  Ids refer to /verif/known_findings.json.                    *)
(***************************************************************************)
EXTENDS G1Cfg

NextBlockU(pre, u) ==
  LET sec == SecOfBlock(pre, u)
      j == IdxInSec(sec, u)
  IN  IF j < Len(sec.blocks) THEN sec.blocks[j + 1].u ELSE 0
PrevBlock(pre, u) ==
  LET sec == SecOfBlock(pre, u)
      j == IdxInSec(sec, u)
  IN  IF j > 1 THEN sec.blocks[j - 1] ELSE NoBlock

TouchesEnd(pre, reqs, u) ==
  LET b == BlockByU(pre, u)
  IN  \E i \in DOMAIN reqs : reqs[i].u = u /\ reqs[i].off + reqs[i].len = b.n

HasFns(X) == X.t.pre.fns # <<>>

UnitAt(X, nm, p) ==
  LET c == {i \in DOMAIN X.E[nm] : X.E[nm][i].t = "unit" /\ X.E[nm][i].bk = "code" /\ X.P[nm][i] = p}
  IN  IF c = {} \/ nm \notin DOMAIN X.E THEN BlankItem ELSE X.E[nm][CHOOSE i \in c : TRUE]
ReqById(X, id) ==
  LET c == SelectSeq(X.t.reqs, LAMBDA r : r.id = id)
  IN  IF c = <<>> THEN [id |-> 0 - 1, op |-> "", u |-> 0, off |-> 0, len |-> 0, patch |-> [units |-> <<>>]] ELSE c[1]
LastKind(b) == IF b.units = <<>> THEN "" ELSE b.units[Len(b.units)].k

(***************************************************************************)
(* KF-C02-1: no function tables; an end-of-block label of a block edited   *)
(* at its end is re-homed to the start of the next block (never re-joined: *)
(* in_same_function(None, None) is False) and then follows that block to a *)
(* proxy when it is deleted with retarget_to_proxy.  With function tables  *)
(* the same happens when the edit at the end is the insertion of a patch   *)
(* that ends in a label (the continuation is not re-joined then either);   *)
(* that label itself follows to the proxy as well (KF_C02_1_PatchLabels).  *)
(***************************************************************************)
TrailingLabelAtEndOf(X, b) ==
  \E r \in Range(X.t.reqs) : /\ r.op = "ins" /\ r.u = b.u /\ r.off = b.n
                              /\ \E l \in Range(r.patch.labels) : l.o = r.patch.n
KF_C02_1_Sym(X, name) ==
  \E b \in Range(AllBlocks(X.t.pre)) :
     /\ name \in Range(b.es)
     /\ (b.fn = <<>> \/ TrailingLabelAtEndOf(X, b)) /\ b.k = "code"
     /\ ~WholeDeleted(X.t.pre, X.t.reqs, b.u)
     /\ TouchesEnd(X.t.pre, X.t.reqs, b.u)
     /\ NextBlockU(X.t.pre, b.u) # 0
     /\ LabelsToProxy(X.t.pre, X.t.reqs, NextBlockU(X.t.pre, b.u))
     /\ name \in ObsProxied(X)

\* the trailing labels of patches inserted at the end of a block whose successor goes
\* to a proxy: [exp fact, base name]
KF_C02_1_PatchLabels(X) ==
  LET rs == {r \in Range(X.t.reqs) :
               /\ r.op = "ins" /\ r.off = BlockByU(X.t.pre, r.u).n
               /\ NextBlockU(X.t.pre, r.u) # 0
               /\ LabelsToProxy(X.t.pre, X.t.reqs, NextBlockU(X.t.pre, r.u))}
      facts(r) == LET nm == SecOfBlock(X.t.pre, r.u).name
                      L == X.E[nm]
                      P == X.P[nm]
                      tl == {l.nm : l \in {x \in Range(r.patch.labels) : x.o = r.patch.n}}
                  IN  {[n |-> L[k].base, s |-> nm, p |-> P[k]] :
                          k \in {j \in DOMAIN L : L[j].t = "lbl" /\ L[j].src = "patch" /\ L[j].rid = r.id /\ L[j].nm \in tl}}
  IN  UNION {facts(r) : r \in rs}
ObsProxiedPatchBases(X) ==
  {X.t.post.syms[i].b : i \in {j \in DOMAIN X.t.post.syms :
      X.t.post.syms[j].k = "proxy" /\ X.t.post.syms[j].n \notin PreSymNames(X)}}

(***************************************************************************)
(* KF-C02-2  Several insertions at the END of one block (offset = size):   *)
(* a label that ends an earlier patch becomes an end-of-block label of the *)
(* patch's last block, and the next insertion at the same point goes in    *)
(* front of end-of-block labels - the label ends up behind the later       *)
(* patches instead of at the end of its own.                               *)
(* TrailingMoved(X): [exp, moved] facts of exactly those labels.           *)
(***************************************************************************)
TrailingMoved(X) ==
  LET rs == X.t.reqs
      cand == {i \in DOMAIN rs :
                 /\ rs[i].op = "ins"
                 /\ rs[i].off = BlockByU(X.t.pre, rs[i].u).n
                 /\ \E j \in DOMAIN rs : j # i /\ rs[j].op = "ins" /\ rs[j].u = rs[i].u
                                           /\ rs[j].off = rs[i].off /\ rs[j].id > rs[i].id}
      shift(i) == Sum([j \in DOMAIN rs |->
                        IF j # i /\ rs[j].op = "ins" /\ rs[j].u = rs[i].u /\ rs[j].off = rs[i].off
                           /\ rs[j].id > rs[i].id THEN rs[j].patch.n ELSE 0])
      nm == SecOfBlock(X.t.pre, rs[CHOOSE i \in cand : TRUE].u).name
      L == X.E[nm]
      P == X.P[nm]
      facts(i) == LET r == rs[i]
                      tl == {l \in Range(r.patch.labels) : l.o = r.patch.n}
                      items == {k \in DOMAIN L : L[k].t = "lbl" /\ L[k].src = "patch" /\ L[k].rid = r.id
                                                  /\ \E l \in tl : l.nm = L[k].nm}
                  IN  {[exp |-> [n |-> L[k].base, s |-> nm, p |-> P[k]],
                        moved |-> [n |-> L[k].base, s |-> nm, p |-> P[k] + shift(i)]] : k \in items}
  IN  IF cand = {} THEN {} ELSE UNION {facts(i) : i \in {c \in cand : SecOfBlock(X.t.pre, rs[c].u).name = nm}}

(***************************************************************************)
(* CFG findings (all need function tables to be present)                   *)
(* KF-C03-1  fallthrough edges are only preserved, never synthesized: no   *)
(*           FT into a block whose original predecessor could not fall     *)
(*           through (its jmp/ret was deleted, or code was put after it).  *)
(* KF-C03-2  a patch that ends in jmp/ret/indirect jmp inserted inside a   *)
(*           block: its empty continuation is joined and its fallthrough   *)
(*           edge ends up on the terminator.                               *)
(* (KF-C03-3 was repaired in /repo, see known_findings.json FX-C03-3)      *)
(* KF-C03-4  a ret created by a patch in a function without return edges   *)
(*           to real return sites gets a proxy instead of the sites of the *)
(*           calls to the function.                                        *)
(* KF-C03-5  a patch with a ret that replaces a call, or is inserted right *)
(*           after one: the ret's return edges are copied from the         *)
(*           function before the edit, so sites the edit changes are stale *)
(***************************************************************************)
FirstSurvivingOfBlock(X, nm, p) ==
  LET y == UnitAt(X, nm, p)
  IN  /\ y.src = "orig"
      /\ ~\E i \in DOMAIN X.E[nm] : X.E[nm][i].t = "unit" /\ X.E[nm][i].src = "orig"
                                     /\ X.E[nm][i].u = y.u /\ X.P[nm][i] < p
\* the source lies in the extent of an original block that could not fall
\* through (jmp / indirect jmp / ret), and either that terminator is removed by
\* the batch or code was put behind it
KF_C03_1_Edge(X, e) ==
  /\ e.ty = "Fallthrough"
  /\ LET x == UnitAt(X, e.s[1], e.s[2])
         b == BlockByU(X.t.pre, x.au)
     IN  /\ LastKind(b) \in {"jmp", "ijmp", "ret"}
         /\ \/ Covered(X.t.reqs, b.u, b.units[Len(b.units)].o)
            \/ (x.src = "patch" /\ x.ao = b.n)
            \/ (e.d[1] = "i" /\ LET y == UnitAt(X, e.d[2], e.d[3])
                                IN  y.src = "patch" /\ y.au = b.u /\ y.ao = b.n)
KF_C03_2_Edge(X, e) ==
  /\ HasFns(X) /\ e.ty = "Fallthrough"
  /\ LET x == UnitAt(X, e.s[1], e.s[2])
     IN  x.src = "patch" /\ x.k \in {"jmp", "ijmp", "ret"}

PreHasRealReturns(X, f) ==
  \E i \in DOMAIN X.t.pre.edges :
     /\ X.t.pre.edges[i].ty = "Return" /\ X.t.pre.edges[i].t[1] = "blk"
     /\ f \in Range(SrcBlock(X.t.pre, X.t.pre.edges[i]).fn)
KF_C03_4_Edge(X, e) ==
  /\ HasFns(X) /\ e.ty = "Return"
  /\ LET x == UnitAt(X, e.s[1], e.s[2])
     IN  x.src = "patch" /\ x.k = "ret" /\ x.fn # <<>> /\ ~PreHasRealReturns(X, x.fn[1])
KF_C03_5_Edge(X, e) ==
  /\ HasFns(X) /\ e.ty = "Return"
  /\ LET x == UnitAt(X, e.s[1], e.s[2])
         r == ReqById(X, x.rid)
         b == BlockByU(X.t.pre, r.u)
     IN  /\ x.src = "patch" /\ x.k = "ret"
         /\ \/ /\ r.op = "rep"
               /\ \E j \in DOMAIN b.units : b.units[j].k = "call" /\ r.off <= b.units[j].o /\ b.units[j].o < r.off + r.len
            \/ r.off = b.n /\ LastKind(b) = "call"     \* inserted right after a call: its return site moves
            \* another request of the batch deletes / replaces a call to the function the ret is in
            \/ /\ x.fn # <<>>
               /\ \E q \in Range(X.t.reqs) :
                     /\ q.op \in {"del", "rep"}
                     /\ LET cb == BlockByU(X.t.pre, q.u)
                        IN  \E j \in DOMAIN cb.units :
                               /\ cb.units[j].k = "call" /\ q.off <= cb.units[j].o /\ cb.units[j].o < q.off + q.len
                               /\ \E tb \in Range(AllBlocks(X.t.pre)) :
                                     cb.units[j].tg \in Range(tb.ss) /\ x.fn[1] \in Range(tb.fn)
            \* another request of the batch deletes / replaces a `ret` of the function the patch ret
            \* is in: at insertion time the function has lost the return edges they are copied from
            \/ /\ x.fn # <<>>
               /\ \E q \in Range(X.t.reqs) :
                     /\ q.op \in {"del", "rep"}
                     /\ LET rb == BlockByU(X.t.pre, q.u)
                        IN  /\ x.fn[1] \in Range(rb.fn)
                            /\ \E j \in DOMAIN rb.units :
                                  rb.units[j].k = "ret" /\ q.off <= rb.units[j].o /\ rb.units[j].o < q.off + q.len

\* KF-C03-7: return edges do not follow a call whose target block is deleted
\* (the call slides to the next block or goes to the proxy, the returns stay).
KF_C03_7_Edge(X, e) ==
  /\ HasFns(X) /\ e.ty = "Return"
  /\ LET x == UnitAt(X, e.s[1], e.s[2])
     IN  /\ x.k = "ret" /\ x.src = "orig"
         /\ \E b \in Range(AllBlocks(X.t.pre)) :
               \* (by one request, or by several partial deletions that cover all its units)
               /\ (WholeDeleted(X.t.pre, X.t.reqs, b.u) \/ AllUnitsDeleted(X.t.pre, X.t.reqs, b.u))
               /\ \E c \in Range(AllBlocks(X.t.pre)) :
                     LastKind(c) = "call" /\ c.units[Len(c.units)].tg \in Range(b.ss)

\* KF-C03-6: deleting a whole block that ends in a call to f drops f's return
\* edge to the (slid) return site even when another call to f returns there.
KF_C03_6_Edge(X, K, e) ==
  /\ HasFns(X) /\ e.ty = "Return"
  /\ LET x == UnitAt(X, e.s[1], e.s[2])
     IN  /\ x.k = "ret" /\ x.fn # <<>>
         /\ \E b \in Range(AllBlocks(X.t.pre)) :
               /\ (WholeDeleted(X.t.pre, X.t.reqs, b.u) \/ AllUnitsDeleted(X.t.pre, X.t.reqs, b.u))
               /\ ~ToProxy(X.t.reqs, b.u)
               /\ LastKind(b) = "call"
               /\ LET cu == b.units[Len(b.units)]
                      tb == {c \in Range(AllBlocks(X.t.pre)) : cu.tg \in Range(c.ss)}
                  IN  \E c \in tb : x.fn[1] \in Range(c.fn)

\* KF-C03-8: a block falls through into a code block that the batch deletes, and
\* the data behind that block is deleted too: when the code block goes its
\* successor is still the data, so the fallthrough edge is parked on a fresh proxy;
\* deleting the data afterwards does not bring it back to the code that follows now.
KF_C03_8_Edge(X, e) ==
  /\ e.ty = "Fallthrough"
  /\ e.d[1] \in {"proxy", "i"}
  /\ LET x == UnitAt(X, e.s[1], e.s[2])
     IN  /\ x.src = "orig"
         /\ LET sec == SecOfBlock(X.t.pre, x.au)
                 i == IdxInSec(sec, x.au)
                 n == Len(sec.blocks)
                 gone(j) == WholeDeleted(X.t.pre, X.t.reqs, sec.blocks[j].u) /\ ~ToProxy(X.t.reqs, sec.blocks[j].u)
                 stop == CHOOSE j \in (i + 1)..(n + 1) :
                            (j = n + 1 \/ ~gone(j)) /\ \A q \in (i + 1)..(j - 1) : gone(q)
             IN  /\ i < n /\ gone(i + 1) /\ sec.blocks[i + 1].k = "code"
                 /\ \E q \in (i + 2)..(stop - 1) : sec.blocks[q].k = "data"

\* KF-C01-1: a patch that ends in a label, inserted at the end of a block that is
\* not followed by code: the trailing empty block keeps the label and
\* _cleanup_modified_blocks asserts (AssertionError).
KF_C01_1(X) ==
  /\ X.t.exc = "AssertionError"
  /\ \E r \in Range(X.t.reqs) :
        /\ r.op \in {"ins", "rep"}
        /\ \E j \in DOMAIN r.patch.labels : r.patch.labels[j].o = r.patch.n
        /\ LET b == BlockByU(X.t.pre, r.u)
               nb == NextBlockU(X.t.pre, r.u)
           IN  r.off + r.len = b.n /\ (nb = 0 \/ BlockByU(X.t.pre, nb).k # "code")

\* KF-C05-1: a code block with structural CFI directives and no code neighbour is
\* deleted and kept as a zero-sized block (documented); the data block behind it is
\* deleted WITH retarget_to_proxy in the same batch.  delete() tidies up a preceding
\* zero-sized block only when retarget_to_proxy is not set, so the zero-sized block
\* survives in front of code, with its labels.
KF_C05_1_Blocks(X) ==
  {a \in Range(AllBlocks(X.t.pre)) :
     /\ a.k = "code" /\ a.n > 0
     /\ \E c \in Range(a.cfi) : \E q \in DOMAIN c.ds : IsStructuralCfi(c.ds[q])
     /\ (WholeDeleted(X.t.pre, X.t.reqs, a.u) \/ AllUnitsDeleted(X.t.pre, X.t.reqs, a.u))
     /\ PrevBlock(X.t.pre, a.u).k # "code"
     /\ LET nb == NextBlockU(X.t.pre, a.u)
        IN  /\ nb # 0 /\ BlockByU(X.t.pre, nb).k = "data"
            /\ WholeDeleted(X.t.pre, X.t.reqs, nb) /\ ToProxy(X.t.reqs, nb)}
KF_C05_1_Names(X) == UNION {Range(a.ss) \cup Range(a.es) : a \in KF_C05_1_Blocks(X)}

\* KF-C01-2: a modification ending at offset x of a block (insertion at x, replacement
\* or deletion of bytes in front of x), deletion of [x, end of the block) and an
\* insertion at the block's end.  When the first modification leaves the tail
\* as a block of its own (patch with a label / terminator, or no function tables)
\* the deletion removes that whole block, delete() returns None and the next
\* modification of the same original block trips `assert isinstance(actual_block,
\* ByteBlock)` in _apply_modifications.
KF_C01_2(X) ==
  /\ X.t.exc = "AssertionError"
  /\ \E d \in Range(X.t.reqs) :
        LET b == BlockByU(X.t.pre, d.u)
        IN  /\ d.op = "del" /\ d.off > 0 /\ d.len > 0 /\ d.off + d.len = b.n
            /\ \E r1 \in Range(X.t.reqs) : r1 # d /\ r1.u = d.u /\ r1.off + r1.len = d.off
            /\ \E r3 \in Range(X.t.reqs) : r3.op = "ins" /\ r3.u = d.u /\ r3.off = b.n

\* KF-C09-1: a patch names a label whose block an earlier request of the same
\* batch deleted entirely: Symbol.referent is None while the reference is
\* indirect, and the assembler reads it directly.
KF_C09_1(X) ==
  \E r \in Range(X.t.reqs) :
     /\ r.op \in {"ins", "rep"}
     /\ \E j \in DOMAIN r.patch.units :
           LET nm == r.patch.units[j].tgb
           IN  /\ nm # ""
               /\ \E b \in Range(AllBlocks(X.t.pre)) :
                     /\ (nm \in Range(b.ss) \/ nm \in Range(b.es))
                     /\ (WholeDeleted(X.t.pre, X.t.reqs, b.u) \/ AllUnitsDeleted(X.t.pre, X.t.reqs, b.u))
                     /\ b.p < BlockByU(X.t.pre, r.u).p

Explained(X, K, clause, e) ==
  (IF clause = "C03_Fallthrough" /\ KF_C03_1_Edge(X, e) /\ e \in K.exp.ft THEN {"KF-C03-1"} ELSE {})
  \cup (IF clause = "C03_Fallthrough" /\ KF_C03_2_Edge(X, e) /\ e \notin K.exp.ft THEN {"KF-C03-2"} ELSE {})
  \cup (IF clause = "C03_Fallthrough" /\ KF_C03_8_Edge(X, e) THEN {"KF-C03-8"} ELSE {})
  \cup (IF clause = "C03_Returns" /\ KF_C03_4_Edge(X, e) THEN {"KF-C03-4"} ELSE {})
  \cup (IF clause = "C03_Returns" /\ KF_C03_5_Edge(X, e) THEN {"KF-C03-5"} ELSE {})
  \cup (IF clause = "C03_Returns" /\ KF_C03_7_Edge(X, e) THEN {"KF-C03-7"} ELSE {})
  \cup (IF clause = "C03_Returns" /\ KF_C03_6_Edge(X, K, e) THEN {"KF-C03-6"} ELSE {})

SDiff(a, b) == (a \ b) \cup (b \ a)
ExplainAll(X, K, clause, elems) ==
  IF elems # {} /\ \A e \in elems : Explained(X, K, clause, e) # {}
  THEN UNION {Explained(X, K, clause, e) : e \in elems} ELSE {}

KfTags(X, K, clause) ==
  CASE clause = "C02_Positions" ->
         IF /\ ObsOrigSymFacts(X) \subseteq ExpOrigSymFacts(X)
            /\ \A f \in ExpOrigSymFacts(X) \ ObsOrigSymFacts(X) : KF_C02_1_Sym(X, f.n)
         THEN {"KF-C02-1"}
         ELSE IF /\ KF_C05_1_Blocks(X) # {}
                 /\ \A f \in SDiff(ExpOrigSymFacts(X), ObsOrigSymFacts(X)) : f.n \in KF_C05_1_Names(X)
         THEN {"KF-C05-1"} ELSE {}
    [] clause = "C02_Proxy" ->
         IF /\ ExpProxied(X) \cup PreProxied(X) \subseteq ObsProxied(X)
            /\ \A n \in ObsProxied(X) \ (ExpProxied(X) \cup PreProxied(X)) : KF_C02_1_Sym(X, n)
         THEN {"KF-C02-1"}
         ELSE IF /\ KF_C05_1_Blocks(X) # {}
                 /\ SDiff(ExpProxied(X) \cup PreProxied(X), ObsProxied(X)) \subseteq KF_C05_1_Names(X)
         THEN {"KF-C05-1"} ELSE {}
    [] clause = "C05_ZeroSizedJustified" ->
         \* every unjustified zero-sized block of the result is such a kept CFI block
         IF /\ KF_C05_1_Blocks(X) # {}
            /\ \A i \in DOMAIN X.t.post.secs :
                  LET bs == X.t.post.secs[i].blocks
                  IN  \A j \in DOMAIN bs :
                        (bs[j].n = 0 /\ j < Len(bs) /\ bs[j + 1].k = "code") =>
                           (bs[j].k = "code" /\ bs[j].cfi # <<>>)
         THEN {"KF-C05-1"} ELSE {}
    [] clause = "C02_PatchLabels" ->
         LET tm == TrailingMoved(X)
             missing == ExpPatchSymFacts(X) \ ObsPatchSymFacts(X)
             extra == ObsPatchSymFacts(X) \ ExpPatchSymFacts(X)
             pl == KF_C02_1_PatchLabels(X)
         IN  IF /\ tm # {}
                /\ missing \subseteq {x.exp : x \in tm}
                /\ extra \subseteq {x.moved : x \in tm}
             THEN {"KF-C02-2"}
             ELSE IF /\ pl # {} /\ extra = {} /\ missing \subseteq pl
                     /\ \A f \in missing : f.n \in ObsProxiedPatchBases(X)
             THEN {"KF-C02-1"} ELSE {}
    \* KF-C02-2 seen through the CFG: a branch to the moved label lands behind the later patches
    [] clause = "C03_BranchCall" ->
         LET tm == TrailingMoved(X)
             obs == ByType(K.obs, {"Branch", "Call"})
             missing == K.exp.bc \ obs
             extra == obs \ K.exp.bc
             movedOf(m) == {[m EXCEPT !.d = <<"i", x.moved.s, x.moved.p>>] :
                              x \in {y \in tm : m.d = <<"i", y.exp.s, y.exp.p>>}}
         IN  IF /\ tm # {} /\ missing # {}
                /\ \A m \in missing : movedOf(m) \cap extra # {}
                /\ extra \subseteq UNION {movedOf(m) : m \in missing}
             THEN {"KF-C02-2"} ELSE {}
    [] clause = "C03_Fallthrough" ->
         ExplainAll(X, K, clause, SDiff(K.exp.ft, ByType(K.obs, {"Fallthrough"})))
    [] clause = "C03_Returns" ->
         ExplainAll(X, K, clause, SDiff(K.exp.ret, ByType(K.obs, {"Return"})))
    [] clause \in {"C01_Completes", "C03_Completes", "C05_Completes"} ->
         IF KF_C01_1(X) THEN {"KF-C01-1"}
         ELSE IF KF_C01_2(X) THEN {"KF-C01-2"}
         ELSE IF KF_C09_1(X) /\ X.t.exc = "UnsupportedAssemblyError" THEN {"KF-C09-1"} ELSE {}
    [] OTHER -> {}
=============================================================================
