---------------------------- MODULE G1Findings ----------------------------
(***************************************************************************)
(* Narrow signatures of the OPEN known findings of the listing group.  A   *)
(* failed clause is excused only when the whole difference between the     *)
(* expected and the observed facts is explained by the finding's trigger   *)
(* (computed here, from the pre-state and the requests); anything else of  *)
(* the same property is still a VIOLATION.  Ids refer to                   *)
(* /verif/known_findings.json.                                             *)
(***************************************************************************)
EXTENDS G1Clauses

NextBlockU(pre, u) ==
  LET sec == SecOfBlock(pre, u)
      j == IdxInSec(sec, u)
  IN  IF j < Len(sec.blocks) THEN sec.blocks[j + 1].u ELSE 0

TouchesEnd(pre, reqs, u) ==
  LET b == BlockByU(pre, u)
  IN  \E i \in DOMAIN reqs : reqs[i].u = u /\ reqs[i].off + reqs[i].len = b.n

\* KF-C02-1: no function tables; an end-of-block label of a block edited at
\* its end is re-homed to the start of the next block (never re-joined:
\* in_same_function(None, None) is False) and then follows that block to a
\* proxy when it is deleted with retarget_to_proxy.
KF_C02_1_Sym(X, name) ==
  \E b \in Range(AllBlocks(X.t.pre)) :
     /\ name \in Range(b.es)
     /\ b.fn = <<>> /\ b.k = "code"
     /\ ~WholeDeleted(X.t.pre, X.t.reqs, b.u)
     /\ TouchesEnd(X.t.pre, X.t.reqs, b.u)
     /\ NextBlockU(X.t.pre, b.u) # 0
     /\ LabelsToProxy(X.t.pre, X.t.reqs, NextBlockU(X.t.pre, b.u))
     /\ name \in ObsProxied(X)

KfTags(X, clause) ==
  (IF /\ clause = "C02_Positions"
      /\ ObsOrigSymFacts(X) \subseteq ExpOrigSymFacts(X)
      /\ \A f \in ExpOrigSymFacts(X) \ ObsOrigSymFacts(X) : KF_C02_1_Sym(X, f.n)
   THEN {"KF-C02-1"} ELSE {})
  \cup
  (IF /\ clause = "C02_Proxy"
      /\ ExpProxied(X) \cup PreProxied(X) \subseteq ObsProxied(X)
      /\ \A n \in ObsProxied(X) \ (ExpProxied(X) \cup PreProxied(X)) : KF_C02_1_Sym(X, n)
   THEN {"KF-C02-1"} ELSE {})
=============================================================================
