------------------------------- MODULE Dwarf -------------------------------
(***************************************************************************)
(* An independent DWARF v4 codec for expression operations (DW_OP_*,       *)
(* section 7.7.1, figure 24) and call frame instructions (DW_CFA_*,        *)
(* section 7.23, figure 40), written from the standard:                    *)
(*   - LEB128 (section 7.6, appendix C) on bit sequences,                  *)
(*   - fixed-width two's complement constants in both byte orders,         *)
(*   - target addresses of 4 or 8 bytes,                                   *)
(*   - opcodes that embed an operand (DW_OP_lit0..31, reg0..31,            *)
(*     breg0..31; DW_CFA_advance_loc / offset / restore, low six bits),    *)
(*   - expression blocks (DW_FORM_exprloc: ULEB128 length, operations),    *)
(*   - the shortest DW_OP that pushes a given constant.                    *)
(*                                                                         *)
(* Integers are not TLC integers (32 bit): a value is a record             *)
(*   [s |-> 0|1, m |-> little-endian magnitude bits without high zeros]    *)
(* so that the whole range [-2^64-1, 2^64+1] used below is exact.          *)
(*                                                                         *)
(* The state machine is an encoder/decoder session: from the idle state    *)
(* one item (operation or instruction) of any class with boundary operand  *)
(* values is encoded, or a raw byte string is decoded, or a constant is    *)
(* given to the chooser; an instruction stream grows by appending          *)
(* instructions of a small alphabet.  TLC checks the codec theorems on     *)
(* every state and (Emit) prints every state as a conformance case.        *)
(***************************************************************************)
EXTENDS Integers, Sequences, FiniteSets, TLC, Json, SequencesExt, Functions

CONSTANTS
  KS,        \* exponents k: boundary values +-(2^k - 1), +-2^k, +-(2^k + 1)
  KPair,     \* exponents for the other operand of two-operand classes
  KStream,   \* exponents for the operands of the stream alphabet
  MaxSeq,    \* maximal number of instructions of a stream
  NPads,     \* number of operand paddings used after each first byte (1..5)
  Emit       \* TRUE: print every state as a CASE line

VARIABLES kind, fam, bo, ps, xs, raw, val
vars == <<kind, fam, bo, ps, xs, raw, val>>

-----------------------------------------------------------------------------
(* Bit sequences and exact integers *)

Zero == [s |-> 0, m |-> <<>>]

RECURSIVE Trim(_)
Trim(b) == IF b = <<>> THEN <<>>
           ELSE IF b[Len(b)] = 1 THEN b ELSE Trim(SubSeq(b, 1, Len(b) - 1))

RECURSIVE Inc(_)
Inc(b) == IF b = <<>> THEN <<1>>
          ELSE IF b[1] = 0 THEN <<1>> \o Tail(b) ELSE <<0>> \o Inc(Tail(b))

RECURSIVE DecR(_)
DecR(b) == IF b[1] = 1 THEN <<0>> \o Tail(b) ELSE <<1>> \o DecR(Tail(b))
Dec(b) == Trim(DecR(b))                    \* b > 0

Pad(b, n, fill) == b \o [i \in 1..(n - Len(b)) |-> fill]
Flip(b) == [i \in 1..Len(b) |-> 1 - b[i]]

MkV(neg, mag) == LET m == Trim(mag) IN [s |-> IF neg /\ m # <<>> THEN 1 ELSE 0, m |-> m]
Pow2Bits(k) == [i \in 1..(k + 1) |-> IF i = k + 1 THEN 1 ELSE 0]

RECURSIVE NatBits(_)
NatBits(n) == IF n = 0 THEN <<>> ELSE <<n % 2>> \o NatBits(n \div 2)
RECURSIVE BitsNat(_)
BitsNat(b) == IF b = <<>> THEN 0 ELSE b[1] + 2 * BitsNat(Tail(b))
NatV(n) == [s |-> 0, m |-> NatBits(n)]
IsSmall(v) == v.s = 0 /\ Len(v.m) <= 24
Small(v) == BitsNat(v.m)

IsValue(v) == /\ DOMAIN v = {"s", "m"} /\ v.s \in {0, 1}
              /\ \A i \in DOMAIN v.m : v.m[i] \in {0, 1}
              /\ v.m = Trim(v.m) /\ (v.m = <<>> => v.s = 0)

\* number of bits of the shortest two's complement representation
SWidth(v) == (IF v.s = 0 THEN Len(v.m) ELSE Len(Dec(v.m))) + 1
FitsU(v, n) == v.s = 0 /\ Len(v.m) <= n
FitsS(v, n) == SWidth(v) <= n
TwosC(v, n) == IF v.s = 0 THEN Pad(v.m, n, 0) ELSE Flip(Pad(Dec(v.m), n, 0))
FromTwosC(bits, signed) ==
  IF signed /\ bits # <<>> /\ bits[Len(bits)] = 1
  THEN [s |-> 1, m |-> Trim(Inc(Flip(bits)))]
  ELSE [s |-> 0, m |-> Trim(bits)]

\* w-bit groups, least significant first
Group(bits, w) == [j \in 1..(Len(bits) \div w) |-> BitsNat(SubSeq(bits, w * (j - 1) + 1, w * j))]
Ungroup(gs, w) == [i \in 1..(w * Len(gs)) |-> (gs[((i - 1) \div w) + 1] \div (2 ^ ((i - 1) % w))) % 2]
CeilDiv(a, b) == (a + b - 1) \div b
MinOf(S) == CHOOSE x \in S : \A y \in S : x <= y

-----------------------------------------------------------------------------
(* Section 7.6: variable length data; fixed-size constants *)

LebBytes(bits) == LET g == Group(bits, 7)
                  IN  [j \in 1..Len(g) |-> g[j] + (IF j < Len(g) THEN 128 ELSE 0)]
ULEB(v) == LET n == IF v.m = <<>> THEN 1 ELSE CeilDiv(Len(v.m), 7)
           IN  LebBytes(Pad(v.m, 7 * n, 0))
SLEB(v) == LET n == CeilDiv(SWidth(v), 7) IN LebBytes(TwosC(v, 7 * n))

\* decodes a LEB128 number starting at index p of bytes
LebDec(bytes, p, signed) ==
  LET ends == {j \in p..Len(bytes) : bytes[j] < 128}
  IN  IF ends = {} THEN [ok |-> FALSE, v |-> Zero, n |-> 0]
      ELSE LET e == MinOf(ends)
               grp == [j \in 1..(e - p + 1) |-> bytes[p + j - 1] % 128]
           IN  [ok |-> TRUE, v |-> FromTwosC(Ungroup(grp, 7), signed), n |-> e - p + 1]

FixedEnc(v, nb, order) == LET le == Group(TwosC(v, 8 * nb), 8)
                          IN  IF order = "little" THEN le ELSE Reverse(le)
FixedDec(bytes, signed, order) ==
  FromTwosC(Ungroup(IF order = "little" THEN bytes ELSE Reverse(bytes), 8), signed)

\* DWARF v4 figures 22 and 23 (examples of LEB128 numbers) and the example of
\* appendix C (624485), as test vectors of the definitions above
IntV(i) == IF i < 0 THEN [s |-> 1, m |-> NatBits(-i)] ELSE NatV(i)
ASSUME /\ ULEB(IntV(2)) = <<2>> /\ ULEB(IntV(127)) = <<127>>
       /\ ULEB(IntV(128)) = <<128, 1>> /\ ULEB(IntV(129)) = <<129, 1>>
       /\ ULEB(IntV(130)) = <<130, 1>> /\ ULEB(IntV(12857)) = <<185, 100>>
       /\ ULEB(IntV(624485)) = <<229, 142, 38>> /\ ULEB(Zero) = <<0>>
ASSUME /\ SLEB(IntV(2)) = <<2>> /\ SLEB(IntV(-2)) = <<126>>
       /\ SLEB(IntV(127)) = <<255, 0>> /\ SLEB(IntV(-127)) = <<129, 127>>
       /\ SLEB(IntV(128)) = <<128, 1>> /\ SLEB(IntV(-128)) = <<128, 127>>
       /\ SLEB(IntV(129)) = <<129, 1>> /\ SLEB(IntV(-129)) = <<255, 126>>
       /\ SLEB(IntV(-123456)) = <<192, 187, 120>> /\ SLEB(Zero) = <<0>>
       /\ SLEB(IntV(63)) = <<63>> /\ SLEB(IntV(64)) = <<192, 0>>
       /\ SLEB(IntV(-64)) = <<64>> /\ SLEB(IntV(-65)) = <<191, 127>>
ASSUME /\ LebDec(<<229, 142, 38, 9>>, 1, FALSE) = [ok |-> TRUE, v |-> IntV(624485), n |-> 3]
       /\ LebDec(<<9, 192, 187, 120>>, 2, TRUE) = [ok |-> TRUE, v |-> IntV(-123456), n |-> 3]
       /\ LebDec(<<128, 128>>, 1, FALSE).ok = FALSE
ASSUME /\ FixedEnc(IntV(-2), 2, "little") = <<254, 255>>
       /\ FixedEnc(IntV(258), 4, "big") = <<0, 0, 1, 2>>
       /\ FixedDec(<<1, 2>>, FALSE, "big") = IntV(258)
       /\ FixedDec(<<255, 128>>, TRUE, "little") = IntV(-32513)

-----------------------------------------------------------------------------
(* Operand kinds *)

Width(k, psz) == CASE k \in {"u1", "s1"} -> 1 [] k \in {"u2", "s2"} -> 2
                   [] k \in {"u4", "s4"} -> 4 [] k \in {"u8", "s8"} -> 8
                   [] k = "addr" -> psz
IsFixed(k) == k \in {"u1", "s1", "u2", "s2", "u4", "s4", "u8", "s8", "addr"}
IsSignedKind(k) == k \in {"s1", "s2", "s4", "s8", "sleb"}

FieldOK(k, v, psz, span) ==
  CASE k = "fused" -> IsSmall(v) /\ Small(v) < span
    [] k = "uleb" -> v.s = 0
    [] k = "sleb" -> TRUE
    [] k \in {"s1", "s2", "s4", "s8"} -> FitsS(v, 8 * Width(k, psz))
    [] OTHER -> FitsU(v, 8 * Width(k, psz))

EncField(k, v, order, psz) ==
  CASE k = "fused" -> <<>>
    [] k = "uleb" -> ULEB(v)
    [] k = "sleb" -> SLEB(v)
    [] OTHER -> FixedEnc(v, Width(k, psz), order)

DecField(k, bytes, p, order, psz) ==
  IF IsFixed(k)
  THEN LET n == Width(k, psz)
       IN  IF p + n - 1 > Len(bytes) THEN [ok |-> FALSE, v |-> Zero, n |-> 0]
           ELSE [ok |-> TRUE, v |-> FixedDec(SubSeq(bytes, p, p + n - 1), IsSignedKind(k), order), n |-> n]
  ELSE LebDec(bytes, p, k = "sleb")

-----------------------------------------------------------------------------
(* The opcode tables.  n: name of the standard; code: first opcode byte;   *)
(* span: number of consecutive opcode bytes (operand = byte - code, kind   *)
(* "fused"); sig: operand kinds in order; blk: followed by an expression   *)
(* block; lib: modelled by the library under test (binding in the runner). *)

R(n, code, span, sig, blk, lib) ==
  [n |-> n, code |-> code, span |-> span, sig |-> sig, blk |-> blk, lib |-> lib]
P(n, code, sig) == R(n, code, 1, sig, FALSE, TRUE)     \* modelled, plain
U(n, code, sig) == R(n, code, 1, sig, FALSE, FALSE)    \* not modelled

\* DWARF v4, figure 24 (DWARF operation encodings)
OpTable == <<
  P("DW_OP_addr", 3, <<"addr">>),          \* 0x03
  P("DW_OP_deref", 6, <<>>),               \* 0x06
  P("DW_OP_const1u", 8, <<"u1">>),         \* 0x08
  P("DW_OP_const1s", 9, <<"s1">>),
  P("DW_OP_const2u", 10, <<"u2">>),
  P("DW_OP_const2s", 11, <<"s2">>),
  P("DW_OP_const4u", 12, <<"u4">>),
  P("DW_OP_const4s", 13, <<"s4">>),
  P("DW_OP_const8u", 14, <<"u8">>),
  P("DW_OP_const8s", 15, <<"s8">>),
  P("DW_OP_constu", 16, <<"uleb">>),       \* 0x10
  P("DW_OP_consts", 17, <<"sleb">>),
  P("DW_OP_dup", 18, <<>>),
  P("DW_OP_drop", 19, <<>>),
  P("DW_OP_over", 20, <<>>),
  P("DW_OP_pick", 21, <<"u1">>),
  P("DW_OP_swap", 22, <<>>),
  P("DW_OP_rot", 23, <<>>),
  P("DW_OP_xderef", 24, <<>>),
  P("DW_OP_abs", 25, <<>>),
  P("DW_OP_and", 26, <<>>),
  P("DW_OP_div", 27, <<>>),
  P("DW_OP_minus", 28, <<>>),
  P("DW_OP_mod", 29, <<>>),
  P("DW_OP_mul", 30, <<>>),
  P("DW_OP_neg", 31, <<>>),
  P("DW_OP_not", 32, <<>>),                \* 0x20
  P("DW_OP_or", 33, <<>>),
  P("DW_OP_plus", 34, <<>>),
  P("DW_OP_plus_uconst", 35, <<"uleb">>),
  P("DW_OP_shl", 36, <<>>),
  P("DW_OP_shr", 37, <<>>),
  P("DW_OP_shra", 38, <<>>),
  P("DW_OP_xor", 39, <<>>),
  P("DW_OP_bra", 40, <<"s2">>),            \* 0x28
  P("DW_OP_eq", 41, <<>>),
  P("DW_OP_ge", 42, <<>>),
  P("DW_OP_gt", 43, <<>>),
  P("DW_OP_le", 44, <<>>),
  P("DW_OP_lt", 45, <<>>),
  P("DW_OP_ne", 46, <<>>),
  P("DW_OP_skip", 47, <<"s2">>),           \* 0x2f
  R("DW_OP_lit", 48, 32, <<"fused">>, FALSE, TRUE),            \* 0x30..0x4f
  R("DW_OP_reg", 80, 32, <<"fused">>, FALSE, TRUE),            \* 0x50..0x6f
  R("DW_OP_breg", 112, 32, <<"fused", "sleb">>, FALSE, TRUE),  \* 0x70..0x8f
  P("DW_OP_regx", 144, <<"uleb">>),        \* 0x90
  U("DW_OP_fbreg", 145, <<"sleb">>),
  P("DW_OP_bregx", 146, <<"uleb", "sleb">>),
  U("DW_OP_piece", 147, <<"uleb">>),
  P("DW_OP_deref_size", 148, <<"u1">>),
  U("DW_OP_xderef_size", 149, <<"u1">>),
  U("DW_OP_nop", 150, <<>>),
  U("DW_OP_push_object_address", 151, <<>>),
  U("DW_OP_call2", 152, <<"u2">>),
  U("DW_OP_call4", 153, <<"u4">>),
  U("DW_OP_form_tls_address", 155, <<>>),  \* 0x9b
  U("DW_OP_call_frame_cfa", 156, <<>>),
  U("DW_OP_bit_piece", 157, <<"uleb", "uleb">>),
  U("DW_OP_stack_value", 159, <<>>) >>     \* 0x9f
\* assigned by the standard, operands not expressible here (DW_OP_call_ref:
\* offset size of the DWARF format; DW_OP_implicit_value: raw block), and the
\* vendor range DW_OP_lo_user..DW_OP_hi_user
OpSpecial == {154, 158} \cup (224..255)

\* DWARF v4, figure 40 (call frame instruction encodings)
CfaTable == <<
  R("DW_CFA_advance_loc", 64, 64, <<"fused">>, FALSE, FALSE),   \* high 2 bits 0x1
  R("DW_CFA_offset", 128, 64, <<"fused", "uleb">>, FALSE, TRUE),\* high 2 bits 0x2
  R("DW_CFA_restore", 192, 64, <<"fused">>, FALSE, TRUE),       \* high 2 bits 0x3
  P("DW_CFA_nop", 0, <<>>),
  U("DW_CFA_set_loc", 1, <<"addr">>),
  U("DW_CFA_advance_loc1", 2, <<"u1">>),
  U("DW_CFA_advance_loc2", 3, <<"u2">>),
  U("DW_CFA_advance_loc4", 4, <<"u4">>),
  P("DW_CFA_offset_extended", 5, <<"uleb", "uleb">>),
  P("DW_CFA_restore_extended", 6, <<"uleb">>),
  P("DW_CFA_undefined", 7, <<"uleb">>),
  P("DW_CFA_same_value", 8, <<"uleb">>),
  P("DW_CFA_register", 9, <<"uleb", "uleb">>),
  P("DW_CFA_remember_state", 10, <<>>),
  P("DW_CFA_restore_state", 11, <<>>),
  P("DW_CFA_def_cfa", 12, <<"uleb", "uleb">>),
  P("DW_CFA_def_cfa_register", 13, <<"uleb">>),
  P("DW_CFA_def_cfa_offset", 14, <<"uleb">>),
  R("DW_CFA_def_cfa_expression", 15, 1, <<>>, TRUE, TRUE),
  R("DW_CFA_expression", 16, 1, <<"uleb">>, TRUE, TRUE),
  P("DW_CFA_offset_extended_sf", 17, <<"uleb", "sleb">>),
  P("DW_CFA_def_cfa_sf", 18, <<"uleb", "sleb">>),
  P("DW_CFA_def_cfa_offset_sf", 19, <<"sleb">>),
  P("DW_CFA_val_offset", 20, <<"uleb", "uleb">>),
  P("DW_CFA_val_offset_sf", 21, <<"uleb", "sleb">>),
  R("DW_CFA_val_expression", 22, 1, <<"uleb">>, TRUE, TRUE) >>
CfaSpecial == 28..63                       \* DW_CFA_lo_user..DW_CFA_hi_user

Table(f) == IF f = "op" THEN OpTable ELSE CfaTable
Special(f) == IF f = "op" THEN OpSpecial ELSE CfaSpecial
Names(f) == {Table(f)[i].n : i \in DOMAIN Table(f)}
OpRow == [n \in Names("op") |-> CHOOSE r \in Range(OpTable) : r.n = n]
CfaRow == [n \in Names("inst") |-> CHOOSE r \in Range(CfaTable) : r.n = n]
Row(f, n) == IF f = "op" THEN OpRow[n] ELSE CfaRow[n]
OpByCode == [b \in 0..255 |-> {r \in Range(OpTable) : r.code <= b /\ b < r.code + r.span}]
CfaByCode == [b \in 0..255 |-> {r \in Range(CfaTable) : r.code <= b /\ b < r.code + r.span}]
ByCode(f) == IF f = "op" THEN OpByCode ELSE CfaByCode

\* integrity of the tables: names unique, first bytes prefix-free, and the
\* assigned bytes are exactly those of the standard
TablesOK ==
  /\ \A f \in {"op", "inst"} :
       /\ Cardinality(Names(f)) = Len(Table(f))
       /\ \A b \in 0..255 : Cardinality(ByCode(f)[b]) <= 1
       /\ \A b \in Special(f) : ByCode(f)[b] = {}
  /\ {b \in 0..255 : OpByCode[b] # {}} \cup {154, 158} = {3, 6} \cup (8..159)
  /\ {b \in 0..255 : CfaByCode[b] # {}} = (0..22) \cup (64..255)
ASSUME TablesOK

-----------------------------------------------------------------------------
(* Items: [c |-> class name, a |-> operand values, e |-> operations of the *)
(* expression block (instructions with a block only)]                      *)

Item(c, a, e) == [c |-> c, a |-> a, e |-> e]
IsFused(r) == r.sig # <<>> /\ r.sig[1] = "fused"

WfOp(x) == /\ x.c \in Names("op") /\ x.e = <<>>
           /\ Len(x.a) = Len(OpRow[x.c].sig)
           /\ \A i \in DOMAIN x.a : IsValue(x.a[i])
WfInst(x) == /\ x.c \in Names("inst")
             /\ Len(x.a) = Len(CfaRow[x.c].sig)
             /\ \A i \in DOMAIN x.a : IsValue(x.a[i])
             /\ (~CfaRow[x.c].blk => x.e = <<>>)
             /\ \A i \in DOMAIN x.e : WfOp(x.e[i])
Wf(f, x) == IF f = "op" THEN WfOp(x) ELSE WfInst(x)

ArgsOK(r, a, psz) == \A i \in DOMAIN a : FieldOK(r.sig[i], a[i], psz, r.span)
InRangeOp(x, psz) == ArgsOK(OpRow[x.c], x.a, psz)
InRangeInst(x, psz) == /\ ArgsOK(CfaRow[x.c], x.a, psz)
                       /\ \A i \in DOMAIN x.e : InRangeOp(x.e[i], psz)
InRange(f, x, psz) == IF f = "op" THEN InRangeOp(x, psz) ELSE InRangeInst(x, psz)
LibOp(x) == OpRow[x.c].lib
LibInst(x) == CfaRow[x.c].lib /\ \A i \in DOMAIN x.e : LibOp(x.e[i])

EncHead(r, a, order, psz) ==
  <<r.code + (IF IsFused(r) THEN Small(a[1]) ELSE 0)>>
  \o FlattenSeq([i \in 1..Len(r.sig) |-> EncField(r.sig[i], a[i], order, psz)])
EncOp(x, order, psz) == EncHead(OpRow[x.c], x.a, order, psz)
EncOps(es, order, psz) == FlattenSeq([i \in 1..Len(es) |-> EncOp(es[i], order, psz)])
EncInst(x, order, psz) ==
  LET r == CfaRow[x.c]
      body == EncOps(x.e, order, psz)
  IN  EncHead(r, x.a, order, psz)
      \o (IF r.blk THEN ULEB(NatV(Len(body))) \o body ELSE <<>>)
Enc(f, x, order, psz) == IF f = "op" THEN EncOp(x, order, psz) ELSE EncInst(x, order, psz)
EncAll(f, items, order, psz) == FlattenSeq([i \in 1..Len(items) |-> Enc(f, items[i], order, psz)])

-----------------------------------------------------------------------------
(* Decoding.  Result: st = "ok" | "invalid" (a byte that the standard does *)
(* not assign) | "special" (assigned, operands not expressible; vendor     *)
(* range) | "trunc" (the bytes end inside the item) | "malformed" (an      *)
(* operation crosses the end of its block); x: the item; n: bytes          *)
(* consumed; lib: only classes modelled by the library occur.              *)

NoItem == Item("", <<>>, <<>>)
Res(st) == [st |-> st, x |-> NoItem, n |-> 0, lib |-> TRUE]

RECURSIVE DecFields(_, _, _, _, _, _, _)
DecFields(sig, i, bytes, p, order, psz, acc) ==
  IF i > Len(sig) THEN [ok |-> TRUE, a |-> acc, p |-> p]
  ELSE LET d == DecField(sig[i], bytes, p, order, psz)
       IN  IF ~d.ok THEN [ok |-> FALSE, a |-> acc, p |-> p]
           ELSE DecFields(sig, i + 1, bytes, p + d.n, order, psz, Append(acc, d.v))

\* first byte and plain operands of an item of family f at index p
DecHead(f, bytes, p, order, psz) ==
  IF p > Len(bytes) THEN [st |-> "trunc"]
  ELSE LET b == bytes[p]
           rows == ByCode(f)[b]
       IN  IF rows = {} THEN [st |-> IF b \in Special(f) THEN "special" ELSE "invalid"]
           ELSE LET r == CHOOSE r \in rows : TRUE
                    fu == IsFused(r)
                    fl == DecFields(r.sig, IF fu THEN 2 ELSE 1, bytes, p + 1, order, psz,
                                    IF fu THEN <<NatV(b - r.code)>> ELSE <<>>)
                IN  IF ~fl.ok THEN [st |-> "trunc"]
                    ELSE [st |-> "ok", r |-> r, a |-> fl.a, p |-> fl.p]

DecOpAt(bytes, p, order, psz) ==
  LET h == DecHead("op", bytes, p, order, psz)
  IN  IF h.st # "ok" THEN Res(h.st)
      ELSE [st |-> "ok", x |-> Item(h.r.n, h.a, <<>>), n |-> h.p - p, lib |-> h.r.lib]

\* the operations in bytes[p .. end-1]
RECURSIVE DecOps(_, _, _, _, _, _, _)
DecOps(bytes, p, end, order, psz, acc, lib) ==
  IF p = end THEN [st |-> "ok", es |-> acc, lib |-> lib]
  ELSE LET d == DecOpAt(bytes, p, order, psz)
       IN  IF d.st # "ok" THEN [st |-> d.st, es |-> acc, lib |-> lib]
           ELSE IF p + d.n > end THEN [st |-> "malformed", es |-> acc, lib |-> lib]
           ELSE DecOps(bytes, p + d.n, end, order, psz, Append(acc, d.x), lib /\ d.lib)

DecInstAt(bytes, p, order, psz) ==
  LET h == DecHead("inst", bytes, p, order, psz)
  IN  IF h.st # "ok" THEN Res(h.st)
      ELSE IF ~h.r.blk
      THEN [st |-> "ok", x |-> Item(h.r.n, h.a, <<>>), n |-> h.p - p, lib |-> h.r.lib]
      ELSE LET l == LebDec(bytes, h.p, FALSE)
           IN  IF ~l.ok \/ ~IsSmall(l.v) THEN Res("trunc")
               ELSE LET start == h.p + l.n
                        end == start + Small(l.v)
                    IN  IF end - 1 > Len(bytes) THEN Res("trunc")
                        ELSE LET o == DecOps(bytes, start, end, order, psz, <<>>, TRUE)
                             IN  IF o.st # "ok" THEN Res(o.st)
                                 ELSE [st |-> "ok", x |-> Item(h.r.n, h.a, o.es),
                                       n |-> end - p, lib |-> h.r.lib /\ o.lib]

DecAt(f, bytes, p, order, psz) ==
  IF f = "op" THEN DecOpAt(bytes, p, order, psz) ELSE DecInstAt(bytes, p, order, psz)

\* all items of a byte string (parse_cfi_instructions)
RECURSIVE ParseFrom(_, _, _, _, _, _)
ParseFrom(f, bytes, p, order, psz, acc) ==
  IF p > Len(bytes) THEN [st |-> "ok", items |-> acc]
  ELSE LET d == DecAt(f, bytes, p, order, psz)
       IN  IF d.st # "ok" THEN [st |-> d.st, items |-> acc]
           ELSE ParseFrom(f, bytes, p + d.n, order, psz, Append(acc, d.x))
ParseAll(f, bytes, order, psz) == ParseFrom(f, bytes, 1, order, psz, <<>>)

-----------------------------------------------------------------------------
(* Constants: which operation pushes v, and the shortest one.  The generic *)
(* type is at most 64 bits: v in [-2^63, 2^64).                            *)

ConstClasses == {"DW_OP_lit", "DW_OP_const1u", "DW_OP_const1s", "DW_OP_const2u",
                 "DW_OP_const2s", "DW_OP_const4u", "DW_OP_const4s", "DW_OP_const8u",
                 "DW_OP_const8s", "DW_OP_constu", "DW_OP_consts"}
ConstRange(v) == IF v.s = 0 THEN Len(v.m) <= 64 ELSE FitsS(v, 64)
CanPush(c, v) == ConstRange(v) /\ InRangeOp(Item(c, <<v>>, <<>>), 8)
\* the value pushed by a constant operation is its operand
Pushed(x) == x.a[1]
ConstLen(c, v) == Len(EncOp(Item(c, <<v>>, <<>>), "little", 8))
MinConstLen(v) == MinOf({ConstLen(c, v) : c \in {c \in ConstClasses : CanPush(c, v)}})

\* constructive chooser (by magnitude): checked against MinConstLen by TLC
ChooseConst(v) ==
  IF v.s = 0
  THEN LET l == Len(v.m)
       IN  IF l <= 5 THEN "DW_OP_lit"              \* 0..31
           ELSE IF l <= 8 THEN "DW_OP_const1u"     \* 2 bytes
           ELSE IF l <= 16 THEN "DW_OP_const2u"    \* 3 bytes
           ELSE IF l <= 21 THEN "DW_OP_constu"     \* 1 + 3
           ELSE IF l <= 32 THEN "DW_OP_const4u"    \* 5 bytes
           ELSE IF l <= 49 THEN "DW_OP_constu"     \* 1 + at most 7
           ELSE "DW_OP_const8u"                    \* 9 bytes
  ELSE LET w == SWidth(v)
       IN  IF w <= 8 THEN "DW_OP_const1s"
           ELSE IF w <= 16 THEN "DW_OP_const2s"
           ELSE IF w <= 21 THEN "DW_OP_consts"
           ELSE IF w <= 32 THEN "DW_OP_const4s"
           ELSE IF w <= 49 THEN "DW_OP_consts"
           ELSE "DW_OP_const8s"

-----------------------------------------------------------------------------
(* The directive form of an instruction as the assembler reads it (GNU as  *)
(* CFI directives): the bytes a directive with integer operands stands for *)

DirBytes(dir, ops) ==
  LET n == Len(ops)
      nonneg == \A i \in 1..n : ops[i].s = 0
      lebs(code) == [ok |-> TRUE, by |-> <<code>> \o FlattenSeq([i \in 1..n |-> ULEB(ops[i])])]
      bad == [ok |-> FALSE, by |-> <<>>]
  IN  CASE dir = ".cfi_escape" ->
             IF \A i \in 1..n : IsSmall(ops[i]) /\ Small(ops[i]) < 256
             THEN [ok |-> TRUE, by |-> [i \in 1..n |-> Small(ops[i])]] ELSE bad
        [] dir = ".cfi_def_cfa" /\ n = 2 /\ nonneg -> lebs(12)
        [] dir = ".cfi_def_cfa_register" /\ n = 1 /\ nonneg -> lebs(13)
        [] dir = ".cfi_undefined" /\ n = 1 /\ nonneg -> lebs(7)
        [] dir = ".cfi_same_value" /\ n = 1 /\ nonneg -> lebs(8)
        [] dir = ".cfi_register" /\ n = 2 /\ nonneg -> lebs(9)
        [] dir = ".cfi_restore" /\ n = 1 /\ nonneg ->
             IF IsSmall(ops[1]) /\ Small(ops[1]) < 64
             THEN [ok |-> TRUE, by |-> <<192 + Small(ops[1])>>] ELSE lebs(6)
        [] dir = ".cfi_remember_state" /\ n = 0 -> lebs(10)
        [] dir = ".cfi_restore_state" /\ n = 0 -> lebs(11)
        [] OTHER -> bad

-----------------------------------------------------------------------------
(* Boundary values and the alphabets of the session *)

One == NatV(1)
Bound(k, d, neg) ==
  LET p == Pow2Bits(k)
  IN  MkV(neg, IF d = 0 THEN p ELSE IF d = 1 THEN Inc(p) ELSE Dec(p))
ValsOf(K) == {Zero, One, MkV(TRUE, <<1>>)}
             \cup {Bound(k, d, neg) : k \in K, d \in {-1, 0, 1}, neg \in BOOLEAN}
Vals == ValsOf(KS)
PairVals == ValsOf(KPair)

\* operand tuples of a class: every operand over the full set while the
\* others range over the small set
ArgTuples(n, full, small) ==
  IF n = 0 THEN {<<>>}
  ELSE IF n = 1 THEN {<<v>> : v \in full}
  ELSE {<<v, w>> : v \in full, w \in small} \cup {<<v, w>> : v \in small, w \in full}

LibRows(f) == {r \in Range(Table(f)) : r.lib}
PlainRows(f) == {r \in LibRows(f) : ~r.blk}
BlockRows == {r \in LibRows("inst") : r.blk}
\* the operand tuples of one item of class r in the single-item states
Args(r) == ArgTuples(Len(r.sig), Vals, PairVals)

\* the stream alphabet: per class one item per operand profile (all operands
\* 1, all operands 2^k + 1), in range for both address sizes
ProfVals == {One} \cup {Bound(k, 1, FALSE) : k \in KStream}
Uniform(r, v) == Item(r.n, [i \in 1..Len(r.sig) |-> v], <<>>)
StreamPlain(f) == {x \in {Uniform(r, v) : r \in PlainRows(f), v \in ProfVals} : InRange(f, x, 4)}
Op0(c) == Item(c, <<>>, <<>>)
Op1(c, v) == Item(c, <<v>>, <<>>)
\* 15 operations of 9 bytes: the length of the block needs two LEB128 bytes
LongExpr == [i \in 1..15 |-> Op1("DW_OP_const8u", Bound(63, 0, FALSE))]
StreamExprs ==
  {<<>>, <<Op1("DW_OP_lit", One)>>, <<Op1("DW_OP_addr", One)>>, LongExpr}
  \cup {<<Op1("DW_OP_const2s", v)>> : v \in ProfVals}
  \cup {<<Op0("DW_OP_dup"), Item("DW_OP_bregx", <<v, v>>, <<>>), Op0("DW_OP_plus")>> : v \in ProfVals}
BlockInsts(exprs, regs) ==
  UNION {{Item(r.n, a, e) : a \in ArgTuples(Len(r.sig), regs, regs), e \in exprs} : r \in BlockRows}
\* the small expressions in all block classes, register operand 0, 2^7, -1
SmallBlockInsts == BlockInsts(StreamExprs, {Zero, Bound(7, 0, FALSE), MkV(TRUE, <<1>>)})
StreamInsts == StreamPlain("inst") \cup BlockInsts(StreamExprs, {One})

Orders == {"little", "big"}
PtrSizes == {4, 8}
StreamConfigs == {<<"little", 8>>, <<"big", 4>>}

\* operand bytes placed after each first byte in the raw decoding states
Rep(n, b) == [i \in 1..n |-> b]
AllPads == << Rep(20, 1),
              <<2, 18, 19>> \o Rep(17, 0),
              <<5, 2, 18, 19>> \o Rep(16, 0),
              <<129, 128, 0, 255, 127>> \o Rep(15, 127),
              <<4, 8, 255, 49, 34>> \o Rep(15, 0) >>
Pads == {AllPads[i] : i \in 1..NPads}
Sentinel == <<128, 255>>

\* constants for the chooser: the boundary set and the limits of the range
ConstVals == Vals

-----------------------------------------------------------------------------
(* The session *)

Init == /\ kind = "idle" /\ fam = "op" /\ bo = "little" /\ ps = 8
        /\ xs = <<>> /\ raw = <<>> /\ val = Zero

EncodeOne(f, x, order, psz) ==
  /\ kind = "idle"
  /\ kind' = "enc" /\ fam' = f /\ bo' = order /\ ps' = psz /\ xs' = <<x>>
  /\ UNCHANGED <<raw, val>>

AppendInst(x) ==
  /\ kind = "enc" /\ fam = "inst" /\ Len(xs) < MaxSeq
  /\ <<bo, ps>> \in StreamConfigs
  /\ xs[1] \in StreamInsts
  /\ xs' = Append(xs, x)
  /\ UNCHANGED <<kind, fam, bo, ps, raw, val>>

DecodeRaw(f, bytes, order, psz) ==
  /\ kind = "idle"
  /\ kind' = "raw" /\ fam' = f /\ bo' = order /\ ps' = psz /\ raw' = bytes
  /\ UNCHANGED <<xs, val>>

MakeConst(v) ==
  /\ kind = "idle"
  /\ kind' = "const" /\ val' = v
  /\ UNCHANGED <<fam, bo, ps, xs, raw>>

\* Guards first: TLC enumerates the bound variables of \E before it
\* evaluates the body.
Next ==
  \/ /\ kind = "idle"
     /\ \E order \in Orders, psz \in PtrSizes :
          \* one item of every modelled class, operands over the boundary set
          \/ \E f \in {"op", "inst"} : \E r \in PlainRows(f) : \E a \in Args(r) :
               EncodeOne(f, Item(r.n, a, <<>>), order, psz)
          \* every operation with every boundary operand, nested in a block
          \/ /\ <<order, psz>> \in StreamConfigs
             /\ \E r \in PlainRows("op") : \E a \in Args(r) :
               EncodeOne("inst", Item("DW_CFA_def_cfa_expression", <<>>, <<Item(r.n, a, <<>>)>>),
                         order, psz)
          \/ \E x \in SmallBlockInsts : EncodeOne("inst", x, order, psz)
          \/ \E f \in {"op", "inst"}, b \in 0..255, pad \in Pads :
               DecodeRaw(f, <<b>> \o pad, order, psz)
  \/ /\ kind = "idle"
     /\ \E v \in ConstVals : MakeConst(v)
  \/ /\ kind = "enc" /\ fam = "inst" /\ Len(xs) < MaxSeq
     /\ <<bo, ps>> \in StreamConfigs
     /\ xs[1] \in StreamInsts
     /\ \E x \in StreamInsts : AppendInst(x)

Spec == Init /\ [][Next]_vars

-----------------------------------------------------------------------------
(* Theorems of the codec, checked on every state *)

TypeOK == /\ kind \in {"idle", "enc", "raw", "const"}
          /\ fam \in {"op", "inst"} /\ bo \in Orders /\ ps \in PtrSizes
          /\ \A i \in DOMAIN xs : Wf(fam, xs[i])
          /\ \A i \in DOMAIN raw : raw[i] \in 0..255
          /\ IsValue(val)

\* Decode(Encode(x) ++ anything) = <<x, Len(Encode(x))>>; the first byte
\* lies in the range of the class; an encoding is never empty
ThmRoundTrip ==
  kind = "enc" =>
    \A i \in DOMAIN xs :
      InRange(fam, xs[i], ps) =>
        LET by == Enc(fam, xs[i], bo, ps)
            d == DecAt(fam, by \o Sentinel, 1, bo, ps)
            d0 == DecAt(fam, by, 1, bo, ps)
            r == Row(fam, xs[i].c)
        IN  /\ d.st = "ok" /\ d.x = xs[i] /\ d.n = Len(by)
            /\ d0 = d
            /\ by[1] \in r.code..(r.code + r.span - 1)
            /\ \A j \in DOMAIN by : by[j] \in 0..255

\* a proper prefix of an encoding is not an encoding (prefix-freedom)
ThmPrefixFree ==
  kind = "enc" /\ Len(xs) = 1 /\ InRange(fam, xs[1], ps) =>
    LET by == Enc(fam, xs[1], bo, ps)
    IN  \A n \in 0..(Len(by) - 1) : DecAt(fam, SubSeq(by, 1, n), 1, bo, ps).st = "trunc"

\* ParseAll(Concat(encodings)) = items
ThmParseConcat ==
  kind = "enc" /\ (\A i \in DOMAIN xs : InRange(fam, xs[i], ps)) =>
    LET pr == ParseAll(fam, EncAll(fam, xs, bo, ps), bo, ps)
    IN  pr.st = "ok" /\ pr.items = xs

\* every first byte is classified; what decodes re-encodes to an encoding
\* that is not longer and decodes to the same item
ThmFirstByte ==
  kind = "raw" =>
    LET b == raw[1]
        rows == ByCode(fam)[b]
        d == DecAt(fam, raw, 1, bo, ps)
    IN  /\ Cardinality(rows) <= 1
        /\ (rows = {}) => (d.st = (IF b \in Special(fam) THEN "special" ELSE "invalid"))
        /\ (rows # {} /\ d.st \in {"invalid", "special", "malformed"}) =>
             (\A r \in rows : r.blk)
        /\ (d.st = "ok") =>
             /\ Wf(fam, d.x) /\ InRange(fam, d.x, ps)
             /\ d.n <= Len(raw)
             /\ Row(fam, d.x.c) \in rows
             /\ LET by == Enc(fam, d.x, bo, ps)
                    d2 == DecAt(fam, by, 1, bo, ps)
                IN  Len(by) <= d.n /\ d2.st = "ok" /\ d2.x = d.x /\ d2.n = Len(by)

\* the chooser pushes v with an encoding of minimal length, exactly on the
\* range of the generic type
ThmConstMinimal ==
  kind = "const" =>
    IF ConstRange(val)
    THEN LET c == ChooseConst(val)
         IN  /\ c \in ConstClasses /\ CanPush(c, val)
             /\ ConstLen(c, val) = MinConstLen(val)
             /\ Pushed(DecOpAt(EncOp(Item(c, <<val>>, <<>>), bo, ps), 1, bo, ps).x) = val
    ELSE \A c \in ConstClasses : ~CanPush(c, val)

\* the directive reading agrees with the instruction encodings: the bytes of
\* an instruction as .cfi_escape operands, and the directive of the same name
\* where GNU as has one with the same (unfactored, unsigned) operands
DirectiveOf ==
  [c \in {"DW_CFA_def_cfa", "DW_CFA_def_cfa_register", "DW_CFA_undefined",
          "DW_CFA_same_value", "DW_CFA_register", "DW_CFA_restore",
          "DW_CFA_restore_extended", "DW_CFA_remember_state", "DW_CFA_restore_state"} |->
     CASE c = "DW_CFA_def_cfa" -> ".cfi_def_cfa"
       [] c = "DW_CFA_def_cfa_register" -> ".cfi_def_cfa_register"
       [] c = "DW_CFA_undefined" -> ".cfi_undefined"
       [] c = "DW_CFA_same_value" -> ".cfi_same_value"
       [] c = "DW_CFA_register" -> ".cfi_register"
       [] c \in {"DW_CFA_restore", "DW_CFA_restore_extended"} -> ".cfi_restore"
       [] c = "DW_CFA_remember_state" -> ".cfi_remember_state"
       [] c = "DW_CFA_restore_state" -> ".cfi_restore_state"]
ThmDirective ==
  kind = "enc" /\ fam = "inst" /\ Len(xs) = 1 /\ InRange(fam, xs[1], ps) =>
    LET by == EncInst(xs[1], bo, ps)
        esc == DirBytes(".cfi_escape", [i \in 1..Len(by) |-> NatV(by[i])])
        \* .cfi_restore r with r < 64 is the short form
        short == xs[1].c = "DW_CFA_restore_extended" /\ FieldOK("fused", xs[1].a[1], ps, 64)
    IN  /\ esc.ok /\ esc.by = by
        /\ (xs[1].c \in DOMAIN DirectiveOf /\ ~short) =>
             LET d == DirBytes(DirectiveOf[xs[1].c], xs[1].a) IN d.ok /\ d.by = by

Theorems == /\ ThmRoundTrip /\ ThmPrefixFree /\ ThmParseConcat
            /\ ThmFirstByte /\ ThmConstMinimal /\ ThmDirective

CaseJson == [kind |-> kind, fam |-> fam, bo |-> bo, ps |-> ps, xs |-> xs,
             raw |-> raw, v |-> val, tail |-> Sentinel]
EmitCase == (Emit /\ kind # "idle") => PrintT("CASE " \o ToJson(CaseJson))

Inv == TypeOK /\ Theorems /\ EmitCase
=============================================================================
