SPECIFICATION Spec
CONSTANTS
  VocabName = "strc"
  MaxLen = 4
  MaxChunks = 3
  TUs = {TRUE, FALSE}
  AUs = {FALSE}
  ICFIs = {FALSE}
  MSs = {{"a"}}
  Emit = TRUE
INVARIANT Inv
CHECK_DEADLOCK FALSE
