SPECIFICATION Spec
CONSTANTS
  KS = {5, 6, 7, 8, 15, 16, 31, 32, 63, 64}
  KPair = {}
  KStream = {7}
  MaxSeq = 2
  NPads = 3
  Emit = TRUE
INVARIANT Inv
CHECK_DEADLOCK FALSE
