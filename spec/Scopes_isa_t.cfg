SPECIFICATION Spec
CONSTANTS
  Isas = {"arm64", "ia32"}
  MaxBlocks = 2
  Templates = {"o1", "o23", "jmp", "jmp1", "jcc", "call", "ret", "ret1", "ijmp", "icall", "d4"}
  Layouts = {"none", "one"}
  FnTables = {"present"}
  Names = {"fa"}
  BothOrders = FALSE
  EntModes = {"first"}
  EpChoices = {0}
  CfgModes = {"full"}
  AddrModes = {TRUE}
  TgtChoices = {0, 1}
  ScopeKinds = {"allblocks", "allfuncs", "single"}
  Positions = {"ENTRY", "EXIT", "ANYWHERE"}
  FPositions = {"ENTRY", "EXIT"}
  FilterKinds = {"none"}
  PatNames = {"fa"}
  MaxRegs = 2
  MaxPasses = 1
  Emit = TRUE
INVARIANT Inv
CHECK_DEADLOCK FALSE
