------------------------------- MODULE DelSym -------------------------------
(***************************************************************************)
(* C19 -- delete_symbol removes every trace of the symbol, and only that.  *)
(*                                                                         *)
(* The abstract module is a record of finite relations over symbol names:  *)
(*   syms   the symbols of the module                                      *)
(*   esi    elfSymbolInfo          {<<name, info>>}                        *)
(*   tix    elfSymbolTabIdxInfo    {<<name, entries>>}                     *)
(*   hasver, vents, vdefs, vreqs, vlibs   elfSymbolVersions:               *)
(*          entries {[s, id, h]}, definitions {[id, names, flags]},        *)
(*          requirements {[lib, id, v]}, libraries present                 *)
(*   fn     functionNames          {<<function, name>>}                    *)
(*   imp, exp   peImportedSymbols / peExportedSymbols (sequences)          *)
(*   fwd    symbolForwarding       {<<key, value>>}                        *)
(*   cfi    {[blk, d, i, dir, args, sym]}   (sym = "" is the null UUID)    *)
(*   sx     {[blk, o, f, s1, s2, add, at]}  symbolic expressions           *)
(*   rest   everything else, opaque                                        *)
(*                                                                         *)
(* Expected(D, del) is the module the property statement promises after    *)
(* deleting the symbols in del (all uses forced or absent); UsesError      *)
(* tells when the deletion must be refused instead.                        *)
(*                                                                         *)
(* The state machine enumerates which tables / directives / expressions    *)
(* each of a few symbols occurs in, how version ids are shared, and the    *)
(* deletion requests with their force flags; TLC checks the theorems of    *)
(* Expected on each (U1) and emits each as a case (U3).  TraceDelSym.tla   *)
(* applies the same Expected to observed modules (U2).                     *)
(***************************************************************************)
EXTENDS Naturals, Sequences, FiniteSets, TLC, Json

CONSTANTS Mode,      \* "tables" | "versions" | "lattice"
          Fmts,      \* subset of {"elf", "pe"}
          K1, K2, K3,\* tables mode: max number of features of s1, s2, s3 (lattice: K1 = #features)
          NVer,      \* versions mode: number of symbols with a free version id (2..4)
          ReqNames,  \* subset of the names of ReqsOf
          Emit

VARIABLES cfg, st
vars == <<cfg, st>>

(***************************************************************************)
(* Expected                                                                *)
(***************************************************************************)
OMIT == 255                      \* DW_EH_PE_omit
IsBase(d) == d.flags % 2 = 1     \* VER_FLG_BASE is bit 0 of vd_flags
EncodedPtrDirs == {".cfi_personality", ".cfi_lsda"}

Mentions(e) == {e.s1} \cup (IF e.f = "A" THEN {e.s2} ELSE {})
UsedIn(D, s) == \E e \in D.sx : s \in Mentions(e)

ExpCfiOne(del, c) ==
  IF c.sym \in del
  THEN [c EXCEPT !.sym = "", !.args = IF c.dir \in EncodedPtrDirs THEN <<OMIT>> ELSE @]
  ELSE c

Expected(D, del) ==
  LET ents == {e \in D.vents : e.s \notin del}
      used == {e.id : e \in ents}
      reqs == {r \in D.vreqs : r.id \in used}
      had(l) == \E r \in D.vreqs : r.lib = l
      has(l) == \E r \in reqs : r.lib = l
  IN  [D EXCEPT
        !.syms = @ \ del,
        !.esi = {p \in @ : p[1] \notin del},
        !.tix = {p \in @ : p[1] \notin del},
        !.fn = {p \in @ : p[2] \notin del},
        !.imp = SelectSeq(@, LAMBDA n : n \notin del),
        !.exp = SelectSeq(@, LAMBDA n : n \notin del),
        !.fwd = {p \in @ : p[1] \notin del /\ p[2] \notin del},
        !.cfi = {ExpCfiOne(del, c) : c \in @},
        !.sx = {e \in @ : Mentions(e) \cap del = {}},
        !.vents = IF D.hasver THEN ents ELSE @,
        !.vdefs = IF D.hasver THEN {d \in @ : d.id \in used \/ IsBase(d)} ELSE @,
        !.vreqs = IF D.hasver THEN reqs ELSE @,
        !.vlibs = IF D.hasver THEN {l \in @ : had(l) => has(l)} ELSE @]

\* requests: sequence of <<name, force>>; a symbol is forced iff every request for it is
Del(reqs) == {reqs[i][1] : i \in DOMAIN reqs}
Forced(reqs) == {s \in Del(reqs) : \A i \in DOMAIN reqs : reqs[i][1] = s => reqs[i][2]}
UsesError(D, reqs) == \E s \in Del(reqs) \ Forced(reqs) : UsedIn(D, s)
Outcome(D, reqs) ==
  IF \E s \in Del(reqs) : s \notin D.syms THEN "ValueError"
  ELSE IF UsesError(D, reqs) THEN "SymbolUsesRemainingError" ELSE ""

\* every name a module mentions anywhere
MentionedNames(D) ==
  {p[1] : p \in D.esi} \cup {p[1] : p \in D.tix} \cup {e.s : e \in D.vents}
  \cup {p[2] : p \in D.fn} \cup {D.imp[i] : i \in DOMAIN D.imp} \cup {D.exp[i] : i \in DOMAIN D.exp}
  \cup {p[1] : p \in D.fwd} \cup {p[2] : p \in D.fwd}
  \cup {c.sym : c \in D.cfi} \cup UNION {Mentions(e) : e \in D.sx}

VersionsWellFormed(D) ==
  /\ \A e \in D.vents : (\E d \in D.vdefs : d.id = e.id) \/ (\E r \in D.vreqs : r.id = e.id)
  /\ \A r \in D.vreqs : r.lib \in D.vlibs

(***************************************************************************)
(* Configurations                                                          *)
(***************************************************************************)
ElfFeats == {"esi", "tab", "fn", "fwdk", "fwdv", "fwdn", "pers", "lsda", "cfix", "dq", "ref", "dda", "ddb", "ddn"}
PeFeats == {"imp", "exp", "fn", "fwdk", "fwdv", "fwdn", "pers", "cfix", "dq", "ref", "dda", "ddb", "ddn"}
\* forwarding features of the modes "fwd" and "combo": a second forwarder to the symbol
\* (fwdv2: pv2_s -> s, so that several keys share one value), the symbol forwarding to
\* s1 (fwd1) or to the bystander keep (fwdkeep, which keep2 forwards to as well)
MoreFwd == {"fwdv2", "fwd1", "fwdkeep"}
Feats(fmt) == (IF fmt = "elf" THEN ElfFeats ELSE PeFeats) \cup MoreFwd
\* combo mode (retarget s1 -> s2 registered in the same context): no SymAddrAddr uses
ComboFeats(fmt) == (Feats(fmt) \ {"dda", "ddb", "ddn", "fwdn", "fwd1", "fwdkeep"})
\* lattice mode: K1 (3 or 4) representative features, one per kind of container
LatticeFeats(fmt) ==
  (IF fmt = "elf" THEN {"esi", "fwdv", "dq"} ELSE {"imp", "fwdv", "dq"})
  \cup (IF K1 >= 4 THEN (IF fmt = "elf" THEN {"pers"} ELSE {"fn"}) ELSE {})
UpTo(S, k) == {x \in SUBSET S : Cardinality(x) <= k}

\* the version universe of the renderer
VerDefs == {[id |-> 1, names |-> <<"libtest.so">>, flags |-> 1],
            [id |-> 2, names |-> <<"V1">>, flags |-> 0],
            [id |-> 3, names |-> <<"V2", "V1">>, flags |-> 0],
            [id |-> 7, names |-> <<"V3">>, flags |-> 2],
            [id |-> 8, names |-> <<"libtest.so">>, flags |-> 3]}
VerReqs == {[lib |-> "lib1.so", id |-> 4, v |-> "L1A"],
            [lib |-> "lib1.so", id |-> 5, v |-> "L1B"],
            [lib |-> "lib2.so", id |-> 6, v |-> "L2A"]}
VerIds == {0, 1, 2, 3, 4, 5, 6, 7}
Extras == {{}, {1}, {1, 3, 5}, {7, 2, 6}}

SymName(i) == "s" \o ToString(i)
S(n, f, v) == [n |-> n, f |-> f, ver |-> v]

ReqsOf(name) ==
  CASE name = "1"    -> << <<"s1", FALSE>> >>
    [] name = "1f"   -> << <<"s1", TRUE>> >>
    [] name = "2f"   -> << <<"s2", TRUE>> >>
    [] name = "1_2"  -> << <<"s1", FALSE>>, <<"s2", FALSE>> >>
    [] name = "1f_2" -> << <<"s1", TRUE>>, <<"s2", FALSE>> >>
    [] name = "1f_2f" -> << <<"s1", TRUE>>, <<"s2", TRUE>> >>
    [] name = "1f_1" -> << <<"s1", TRUE>>, <<"s1", FALSE>> >>
    [] name = "1_1f" -> << <<"s1", FALSE>>, <<"s1", TRUE>> >>
    [] name = "1f_1f" -> << <<"s1", TRUE>>, <<"s1", TRUE>> >>
    [] name = "3f_2f_1f" -> << <<"s3", TRUE>>, <<"s2", TRUE>>, <<"s1", TRUE>> >>
    [] name = "1_3" -> << <<"s1", FALSE>>, <<"s3", FALSE>> >>
    [] name = "12_3" -> << <<"s1", FALSE>>, <<"s2", FALSE>>, <<"s3", FALSE>> >>
    [] name = "1f_2f_3" -> << <<"s1", TRUE>>, <<"s2", TRUE>>, <<"s3", FALSE>> >>
    [] name = "4" -> << <<"s4", FALSE>> >>

\* lattice mode: every symbol independently kept / deleted / deleted with force
LatticeReqs ==
  {r \in [{"s1", "s2", "s3"} -> {"keep", "del", "force"}] : \E n \in DOMAIN r : r[n] # "keep"}
SeqOfChoice(r) ==
  LET a == IF r["s1"] = "keep" THEN <<>> ELSE << <<"s1", r["s1"] = "force">> >>
      b == IF r["s2"] = "keep" THEN <<>> ELSE << <<"s2", r["s2"] = "force">> >>
      c == IF r["s3"] = "keep" THEN <<>> ELSE << <<"s3", r["s3"] = "force">> >>
  IN  a \o b \o c

Configs ==
  CASE Mode = "tables" ->
         {[fmt |-> fmt, extra |-> IF fmt = "elf" THEN {1} ELSE {},
           syms |-> << S("s1", f1, IF fmt = "elf" THEN 2 ELSE 0),
                       S("s2", f2, IF fmt = "elf" THEN 2 ELSE 0),
                       S("s3", f3, IF fmt = "elf" THEN 4 ELSE 0) >>]
          : fmt \in Fmts, f1 \in UpTo(ElfFeats \cup PeFeats, K1), f2 \in UpTo(ElfFeats \cup PeFeats, K2),
            f3 \in UpTo(ElfFeats \cup PeFeats, K3)}
    [] Mode = "versions" ->
         {[fmt |-> "elf", extra |-> x,
           syms |-> [i \in 1..4 |-> S(SymName(i), IF i = 1 THEN {"esi"} ELSE {}, IF i <= NVer THEN v[i] ELSE 0)]]
          : x \in Extras, v \in [1..NVer -> VerIds]}
    [] Mode = "lattice" ->
         UNION {
           {[fmt |-> fmt, extra |-> {},
             syms |-> << S("s1", f1, 0), S("s2", f2, 0), S("s3", f3, 0) >>]
            : f1 \in SUBSET LatticeFeats(fmt), f2 \in SUBSET LatticeFeats(fmt),
              f3 \in SUBSET LatticeFeats(fmt)}
           : fmt \in Fmts}

    \* several symbolForwarding keys share one value; the shared value is s1 or keep
    [] Mode = "fwd" ->
         UNION {
           {[fmt |-> fmt, extra |-> {},
             syms |-> << S("s1", f1 \cup base, 0), S("s2", f2, 0), S("s3", f3, 0) >>]
            : f1 \in SUBSET {"fwdv", "fwdv2"}, base \in {{}, {IF fmt = "elf" THEN "esi" ELSE "imp"}},
              f2 \in {{}, {"fwd1"}, {"fwdkeep"}, {"fwdv"}, {"fwd1", "fwdv"}},
              f3 \in {{}, {"fwd1"}, {"fwdkeep"}}}
           : fmt \in Fmts}
    \* retarget s1 -> s2 and delete in one context
    [] Mode = "combo" ->
         UNION {
           {[fmt |-> fmt, extra |-> IF fmt = "elf" THEN {1} ELSE {},
             syms |-> << S("s1", f1, IF fmt = "elf" THEN 2 ELSE 0),
                         S("s2", f2, IF fmt = "elf" THEN 2 ELSE 0), S("s3", {}, 0) >>]
            : f1 \in UpTo(ComboFeats(fmt), K1),
              f2 \in UpTo({IF fmt = "elf" THEN "esi" ELSE "imp", "dq", "fwdv"}, K2)}
           : fmt \in Fmts}

\* one symbolForwarding entry per key (fwdk may be overridden by fwdn, as rendered)
ValidCfg(c) ==
  \A i \in DOMAIN c.syms :
     /\ c.syms[i].f \subseteq Feats(c.fmt)
     /\ Cardinality(c.syms[i].f \cap {"fwdk", "fwdn", "fwd1", "fwdkeep"}) <= 1
        \/ c.syms[i].f \cap {"fwdk", "fwdn", "fwd1", "fwdkeep"} = {"fwdk", "fwdn"}
     /\ (i = 1 => "fwd1" \notin c.syms[i].f)

(***************************************************************************)
(* The abstract module of a configuration (the renderer builds it for      *)
(* real; TraceDelSym compares the two)                                     *)
(***************************************************************************)
Mod(c) ==
  LET n == Len(c.syms)
      I == 1..n
      nm(i) == c.syms[i].n
      nxt(i) == c.syms[(i % n) + 1].n
      has(i, f) == f \in c.syms[i].f
      host(i) == "h_" \o nm(i)
      ids == {c.syms[i].ver : i \in {j \in I : c.syms[j].ver # 0}} \cup c.extra
      hasver == ids # {}
      vreqs == {r \in VerReqs : r.id \in ids}
      cfiOf(i) ==
        LET ds == <<[dir |-> ".cfi_startproc", args |-> <<>>, sym |-> ""]>>
                  \o (IF has(i, "pers") THEN <<[dir |-> ".cfi_personality", args |-> <<155>>, sym |-> nm(i)]>> ELSE <<>>)
                  \o (IF has(i, "lsda") THEN <<[dir |-> ".cfi_lsda", args |-> <<27>>, sym |-> nm(i)]>> ELSE <<>>)
                  \o (IF has(i, "cfix") THEN <<[dir |-> ".cfi_val_encoded_addr", args |-> <<16, 27>>, sym |-> nm(i)]>> ELSE <<>>)
        IN  IF Len(ds) = 1 THEN {}
            ELSE {[blk |-> host(i), d |-> 0, i |-> k - 1, dir |-> ds[k].dir, args |-> ds[k].args, sym |-> ds[k].sym]
                  : k \in 1..Len(ds)}
      sxOf(i) ==
        (IF has(i, "ref") THEN {[blk |-> host(i), o |-> 0, f |-> "C", s1 |-> nm(i), s2 |-> "", add |-> 0]} ELSE {})
        \cup (IF has(i, "dq") THEN {[blk |-> "w_dq_" \o nm(i), o |-> 0, f |-> "C", s1 |-> nm(i), s2 |-> "", add |-> 4]} ELSE {})
        \cup (IF has(i, "dda") THEN {[blk |-> "w_dda_" \o nm(i), o |-> 0, f |-> "A", s1 |-> nm(i), s2 |-> "keep", add |-> 0]} ELSE {})
        \cup (IF has(i, "ddb") THEN {[blk |-> "w_ddb_" \o nm(i), o |-> 0, f |-> "A", s1 |-> "keep", s2 |-> nm(i), add |-> 0]} ELSE {})
        \cup (IF has(i, "ddn") THEN {[blk |-> "w_ddn_" \o nm(i), o |-> 0, f |-> "A", s1 |-> nm(i), s2 |-> nxt(i), add |-> 0]} ELSE {})
      hosts == {i \in I : c.syms[i].f \cap {"ref", "pers", "lsda", "cfix"} # {}}
  IN  [ syms |-> {nm(i) : i \in I} \cup {"keep", "keep2"} \cup {host(i) : i \in hosts}
                 \cup {"pk_" \o nm(i) : i \in {j \in I : has(j, "fwdk")}}
                 \cup {"pv_" \o nm(i) : i \in {j \in I : has(j, "fwdv")}}
                 \cup {"pv2_" \o nm(i) : i \in {j \in I : has(j, "fwdv2")}},
        esi |-> {<<nm(i), "FUNC">> : i \in {j \in I : has(j, "esi")}}
                \cup (IF c.fmt = "elf" THEN {<<"keep", "FUNC">>} ELSE {}),
        tix |-> {<<nm(i), i>> : i \in {j \in I : has(j, "tab")}}
                \cup (IF c.fmt = "elf" THEN {<<"keep", 9>>} ELSE {}),
        hasver |-> hasver,
        vents |-> {[s |-> nm(i), id |-> c.syms[i].ver, h |-> (i % 2 = 0)] : i \in {j \in I : c.syms[j].ver # 0}},
        vdefs |-> {d \in VerDefs : d.id \in ids},
        vreqs |-> vreqs,
        vlibs |-> {r.lib : r \in vreqs},
        fn |-> {<<nm(i), nm(i)>> : i \in {j \in I : has(j, "fn")}}
               \cup {<<"keep", "keep">>} \cup {<<host(i), host(i)>> : i \in hosts},
        imp |-> (IF c.fmt = "pe" THEN <<"keep2">> ELSE <<>>)
                \o SelectSeq([i \in I |-> nm(i)], LAMBDA x : \E i \in I : nm(i) = x /\ has(i, "imp")),
        exp |-> (IF c.fmt = "pe" THEN <<"keep">> ELSE <<>>)
                \o SelectSeq([i \in I |-> nm(i)], LAMBDA x : \E i \in I : nm(i) = x /\ has(i, "exp")),
        fwd |-> {<<"keep2", "keep">>}
                \cup {<<nm(i), "pk_" \o nm(i)>> : i \in {j \in I : has(j, "fwdk") /\ ~has(j, "fwdn")}}
                \cup {<<nm(i), nxt(i)>> : i \in {j \in I : has(j, "fwdn")}}
                \cup {<<"pv_" \o nm(i), nm(i)>> : i \in {j \in I : has(j, "fwdv")}}
                \cup {<<"pv2_" \o nm(i), nm(i)>> : i \in {j \in I : has(j, "fwdv2")}}
                \cup {<<nm(i), nm(1)>> : i \in {j \in I : has(j, "fwd1")}}
                \cup {<<nm(i), "keep">> : i \in {j \in I : has(j, "fwdkeep")}},
        cfi |-> UNION {cfiOf(i) : i \in I},
        sx |-> UNION {sxOf(i) : i \in I}
               \cup {[blk |-> "w_keep", o |-> 0, f |-> "C", s1 |-> "keep", s2 |-> "", add |-> 0]},
        rest |-> <<>> ]

\* A retarget old -> new registered in the same RewritingContext is applied before
\* the deletions: every retargetable mention of old (SymAddrConst operand, CFI
\* directive, symbolForwarding value) names new when the deletions run (Retarget.tla).
Ret(D, old, new) ==
  [D EXCEPT
     !.sx = {IF e.f = "C" /\ e.s1 = old THEN [e EXCEPT !.s1 = new] ELSE e : e \in @},
     !.cfi = {IF c.sym = old THEN [c EXCEPT !.sym = new] ELSE c : c \in @},
     !.fwd = {IF p[2] = old THEN <<p[1], new>> ELSE p : p \in @}]
\* c.ret is <<>> or <<old, new>>
ModR(c) == IF c.ret = <<>> THEN Mod(c) ELSE Ret(Mod(c), c.ret[1], c.ret[2])

(***************************************************************************)
(* State machine                                                           *)
(***************************************************************************)
Init ==
  /\ cfg \in {[fmt |-> k.fmt, extra |-> k.extra, syms |-> k.syms, reqs |-> <<>>, rn |-> "",
               ret |-> IF Mode = "combo" THEN <<"s1", "s2">> ELSE <<>>] : k \in Configs}
  /\ ValidCfg(cfg)
  /\ st = [stage |-> "pre", out |-> "", pre |-> <<>>, mod |-> <<>>]

\* the operation under study: register the deletions (force flags merge), apply()
Delete(rn, reqs) ==
  /\ st.stage = "pre"
  /\ \A i \in DOMAIN reqs : \E j \in DOMAIN cfg.syms : cfg.syms[j].n = reqs[i][1]
  /\ LET D == ModR(cfg)
         out == Outcome(D, reqs)
     IN  /\ cfg' = [cfg EXCEPT !.reqs = reqs, !.rn = rn]
         /\ st' = [stage |-> "post", out |-> out, pre |-> D,
                   mod |-> IF out = "" THEN Expected(D, Del(reqs)) ELSE D]

Next ==
  /\ st.stage = "pre"
  /\ IF Mode = "lattice"
     THEN \E r \in LatticeReqs : Delete("lattice", SeqOfChoice(r))
     ELSE \E rn \in ReqNames : Delete(rn, ReqsOf(rn))

Spec == Init /\ [][Next]_vars

(***************************************************************************)
(* Theorems checked on every post state (U1)                               *)
(***************************************************************************)
Restrict(D, keep) ==
  [esi |-> {p \in D.esi : p[1] \in keep}, tix |-> {p \in D.tix : p[1] \in keep},
   vents |-> {e \in D.vents : e.s \in keep}, fn |-> {p \in D.fn : p[2] \in keep},
   imp |-> SelectSeq(D.imp, LAMBDA x : x \in keep), exp |-> SelectSeq(D.exp, LAMBDA x : x \in keep),
   fwd |-> {p \in D.fwd : p[1] \in keep /\ p[2] \in keep},
   cfi |-> {c \in D.cfi : c.sym \in keep},
   sx |-> {e \in D.sx : Mentions(e) \subseteq keep}]

Theorems(D, N, del) ==
  LET keep == D.syms \ del IN
  /\ N.syms = keep
  \* no trace of a deleted symbol
  /\ MentionedNames(N) \cap del = {}
  \* only that: what does not mention a deleted symbol is exactly what was there
  /\ Restrict(N, keep) = Restrict(D, keep)
  /\ {c \in D.cfi : c.sym = ""} \subseteq N.cfi
  /\ N.rest = D.rest
  \* directives are kept in place, with the null symbol
  /\ {<<c.blk, c.d, c.i, c.dir>> : c \in N.cfi} = {<<c.blk, c.d, c.i, c.dir>> : c \in D.cfi}
  /\ \A c \in D.cfi : c.sym \in del =>
        \E x \in N.cfi : x.blk = c.blk /\ x.d = c.d /\ x.i = c.i /\ x.sym = ""
                         /\ (c.dir \in EncodedPtrDirs => x.args = <<OMIT>>)
                         /\ (c.dir \notin EncodedPtrDirs => x.args = c.args)
  \* version garbage collection
  /\ D.hasver =>
       /\ \A d \in D.vdefs : IsBase(d) => d \in N.vdefs
       /\ \A d \in N.vdefs : IsBase(d) \/ \E e \in N.vents : e.id = d.id
       /\ \A r \in N.vreqs : \E e \in N.vents : e.id = r.id
       /\ \A d \in D.vdefs \ N.vdefs : ~\E e \in N.vents : e.id = d.id
       /\ \A r \in D.vreqs \ N.vreqs : ~\E e \in N.vents : e.id = r.id
       /\ \A l \in N.vlibs : (\E r \in D.vreqs : r.lib = l) => \E r \in N.vreqs : r.lib = l
       /\ (VersionsWellFormed(D) => VersionsWellFormed(N))
  /\ ~D.hasver => (N.vdefs = D.vdefs /\ N.vreqs = D.vreqs /\ N.vents = D.vents /\ N.vlibs = D.vlibs)
  \* deleting again, or in two steps, is the same
  /\ Expected(N, del) = N
  /\ \A a \in SUBSET del : Expected(Expected(D, a), del \ a) = N

\* retarget old -> new and delete in one context: D0 the module as rendered, D the
\* retargeted one (the pre-state of the deletions), N the final one
ComboTheorems(D0, D, N, old, new, del, out) ==
  \* nothing uses old any more, so deleting it (alone or with others) is not refused on its account
  /\ ~UsedIn(D, old)
  /\ (del = {old} => out = "")
  \* every former use of old names new in the final module (unless new was deleted too)
  /\ (out = "" /\ new \notin del) =>
        /\ \A e \in D0.sx : (e.f = "C" /\ e.s1 = old) => [e EXCEPT !.s1 = new] \in N.sx
        /\ \A c \in D0.cfi : c.sym = old => [c EXCEPT !.sym = new] \in N.cfi
        /\ \A p \in D0.fwd : (p[2] = old /\ p[1] \notin del) => <<p[1], new>> \in N.fwd
  /\ (out = "" /\ old \in del) => old \notin MentionedNames(N)

CaseJson ==
  [family |-> "delsym", fmt |-> cfg.fmt, extra |-> cfg.extra, syms |-> cfg.syms,
   reqs |-> cfg.reqs, rn |-> cfg.rn, mode |-> Mode, ret |-> cfg.ret]

PostOk ==
  st.stage = "post" =>
    LET D == st.pre
        del == Del(cfg.reqs)
    IN  /\ VersionsWellFormed(D)
        /\ st.out \in {"", "SymbolUsesRemainingError"}
        /\ (st.out = "SymbolUsesRemainingError") = (\E s \in del \ Forced(cfg.reqs) : UsedIn(D, s))
        /\ Forced(cfg.reqs) \subseteq del
        /\ (st.out = "" => Theorems(D, st.mod, del))
        /\ (st.out # "" => st.mod = D)
        /\ (cfg.ret # <<>> => ComboTheorems(Mod(cfg), D, st.mod, cfg.ret[1], cfg.ret[2], del, st.out))

EmitCase == (Emit /\ st.stage = "post") => PrintT("CASE " \o ToJson(CaseJson))

Inv == PostOk /\ EmitCase
=============================================================================
