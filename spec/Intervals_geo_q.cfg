SPECIFICATION Spec
CONSTANTS
  MaxSize = 5
  MaxBlocks = 3
  Inits = "full"
  KindMode = "one"
  AlignVals = {}
  MaxAligned = 0
  ItemMode = "dense"
  MaxItems = 0
  Addrs = {"4096"}
  Grows = {}
  Lates = TRUE
  AddAligns = {}
  OnlyTiled = FALSE
  NopKinds = {"1"}
  VariantSet = "geo"
  Rotate = 2
  Emit = TRUE
INVARIANT Inv
CHECK_DEADLOCK FALSE
