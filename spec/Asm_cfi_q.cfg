SPECIFICATION Spec
CONSTANTS
  VocabName = "cfi"
  MaxLen = 3
  MaxChunks = 1
  TUs = {TRUE, FALSE}
  AUs = {FALSE}
  ICFIs = {TRUE, FALSE}
  MSs = {{"a", "b"}}
  Emit = TRUE
INVARIANT Inv
CHECK_DEADLOCK FALSE
