SPECIFICATION Spec
CONSTANTS
  NF = 2
  MaxCtx = 3
  WideClob = FALSE
  Emit = TRUE
INVARIANT Inv
PROPERTY FirstSeenSticks
CHECK_DEADLOCK FALSE
