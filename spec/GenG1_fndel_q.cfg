SPECIFICATION Spec
CONSTANTS
  MaxBlocks = 4
  MaxReqs = 3
  Templates = {"o23", "ret", "d3"}
  PatchKinds = {"plain2"}
  FnLayouts = {"none", "one", "split", "tail", "one2"}
  EndSyms = {FALSE}
  NoSyms = {FALSE}
  AnnModes = {"none"}
  WithProxyDel = TRUE
  CfiLayouts = {"none"}
  Isa = "x64"
  WithScopes = FALSE
  Fmts = {"elf", "pe"}
  WholeOnly = TRUE
  Leads = {0}
  DropFnTables = {FALSE}
  ExtraData = {FALSE}
  Retargets = {FALSE}
  AlignOpts = {0}
  Aliases = {FALSE}
  SharedRet = {FALSE}
  InsFns = {"none"}
  Emit = TRUE
INVARIANT Inv
CHECK_DEADLOCK FALSE
