SPECIFICATION Spec
CONSTANTS
  Abis = {"x64-elf"}
  MaxUses = 2
  Cat = "full"
  MapNames = {"AB", "AB_BC"}
  WithPatch = FALSE
  Emit = TRUE
INVARIANT Inv
CHECK_DEADLOCK FALSE
