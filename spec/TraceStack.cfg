INIT TInit
NEXT TNext
CONSTANTS
  GenAbis = {"x64elf", "x64pe", "ia32pe", "arm64", "mips32"}
  Wide = FALSE
  ScratchVals = {0}
  ArgCounts = {0}
  SingleCounts = {}
  HistSites = {}
  RotStep = 1
  Hist16 = FALSE
  Emit = FALSE
  Strict = TRUE
POSTCONDITION AllConsumed
CHECK_DEADLOCK FALSE
