SPECIFICATION Spec
CONSTANTS
  MaxSize = 5
  MaxBlocks = 2
  Inits = "full"
  KindMode = "one"
  AlignVals = {}
  MaxAligned = 0
  ItemMode = "sparse"
  MaxItems = 2
  Addrs = {"none", "4096"}
  Grows = {}
  Lates = TRUE
  AddAligns = {}
  OnlyTiled = FALSE
  NopKinds = {"1"}
  VariantSet = "items"
  Rotate = 2
  Emit = TRUE
INVARIANT Inv
CHECK_DEADLOCK FALSE
