----------------------------- MODULE TraceStack -----------------------------
(***************************************************************************)
(* Trace specification for C16 / C17.  Every line of TRACE_FILE is what    *)
(* the real library did for one configuration (harness/abi/runner.py):     *)
(* the exception it raised, or the abstract events decoded from the bytes  *)
(* it assembled (prologue, body, epilogue), the reported stack adjustment  *)
(* and the scratch registers.  The events are replayed through the         *)
(* semantics of StackMachine (Eff) from every possible start alignment and *)
(* every property of StackMachine is evaluated on the resulting states     *)
(* (`written' and `badreads' are monotone, so the final state speaks for   *)
(* every step).  One step of this spec = one trace = one VERDICT line.     *)
(***************************************************************************)
EXTENDS CallGen, IOUtils, TLCExt, SequencesExt

Traces == ndJsonDeserialize(IOEnv.TRACE_FILE)
VARIABLE tid

IsCall(t) == t.cfg.kind = "c17"
Completed(t) == t.exc = "" /\ ~t.ood /\ t.stage = "done"

\* Observation of site number s (histories: ONE patch object used at several
\* insertion sites; the first site is at the top level of the trace).  Every
\* clause is evaluated on the code emitted at EVERY site.
NSites(t) == Len(t.cfg.sites)
Obs(t, s) == IF s = 1 THEN [pro |-> t.pro, body |-> t.body, epi |-> t.epi,
                            adjknown |-> t.adjknown, adj |-> t.adj, scratch |-> t.scratch,
                            cb |-> t.cb]
             ELSE t.more[s - 1]
ParamsOf(t, s, a) ==
  LET o == Obs(t, s) IN
  IF IsCall(t) THEN ParamsC17(At(t.cfg, s), a, o.adjknown, o.adj)
  ELSE ParamsC16(AtSite(t.cfg, s), a, o.scratch, o.adjknown, o.adj)
EventsOf(t, s) ==
  LET o == Obs(t, s) IN
  o.pro \o <<E0("bodyentry")>> \o (IF IsCall(t) THEN o.body ELSE <<E0("havoc")>>)
        \o <<E0("bodyexit")>> \o o.epi \o <<E0("end")>>
\* <<s, a>> |-> [P, S]: parameters and final machine state of the replay of
\* the code emitted at site s from the start address 1024 + a
Runs(t) ==
  [x \in (1..NSites(t)) \X RelevantAligns(t.cfg.abi, t.cfg.align) |->
     LET P == ParamsOf(t, x[1], x[2])
         evs == EventsOf(t, x[1])
     IN  [P |-> P, S |-> FoldLeft(LAMBDA S, e : Eff(P, S, e), InitState(P), evs)]]

All(R, Pr(_, _)) == \A a \in DOMAIN R : Pr(R[a].P, R[a].S)
AllCalls(R, Pr(_, _, _)) ==
  \A a \in DOMAIN R : \A k \in DOMAIN R[a].S.calls : Pr(R[a].P, R[a].S, R[a].S.calls[k])

\* C17 predicates on (P, S, call snapshot)
PArgRegs(P, S, c) == ArgRegsOK(P, c)
PStackArgs(P, S, c) == StackArgsOK(P, c)
PShadow(P, S, c) == ShadowReserved(P, S, c)
PAligned(P, S, c) == P.aligndom => AlignedAtCall(P, c)

\* at every site every argument callable was called with (a context equal
\* to) the context get_asm was given there, and nothing else was called
CallableOK(t) ==
  \A s \in 1..NSites(t) : \A i \in DOMAIN t.cfg.args :
     LET cb == Obs(t, s).cb
         recs == {j \in DOMAIN cb : cb[j].i = i - 1}
     IN  IF t.cfg.args[i].cb
         THEN recs # {} /\ \A j \in recs : cb[j].same /\ cb[j].isctx
         ELSE recs = {}
\* the value materialised at site s for a context dependent callable is
\* f(context of site s) (P.exp is computed from the site: CallGen!At)
CtxPositions(c) == {i \in DOMAIN c.args : IsCtxKind(c.args[i])}
CallableSeesItsContext(t, R) ==
  \A x \in DOMAIN R : \A k \in DOMAIN R[x].S.calls : \A i \in CtxPositions(t.cfg) :
     SeenArg(R[x].P, R[x].S.calls[k], i) = R[x].P.exp[i]
CallableSeesModuloSymLoad(t, R) ==
  \A x \in DOMAIN R : \A k \in DOMAIN R[x].S.calls : \A i \in CtxPositions(t.cfg) :
     ArgOKModuloSymLoad(R[x].P, R[x].S.calls[k], i)
ReachedGetAsm(t) == t.stage \in {"assemble", "decode", "done"}

(***************************************************************************)
(* Clauses: <<name, in domain, holds>>.                                    *)
(***************************************************************************)
Clauses16(t, R) ==
  LET c == t.cfg
      done == Completed(t)
  IN << <<"C16_Completes", TRUE, t.exc = "" \/ LegitRefusalC16(c, t.exc)>>,
        <<"C16_RefusesUnservable", Unallocatable(c), t.exc = "ValueError">>,
        <<"C16_NoWriteAtOrAboveOriginalSp", done, All(R, NoWriteAtOrAboveOriginalSp)>>,
        <<"C16_NoRedZoneWriteIfLeaf", done /\ RedZone(c.abi) > 0
                                      /\ \E s \in DOMAIN c.sites : c.sites[s].leaf,
                                      All(R, NoRedZoneWriteIfLeaf)>>,
        <<"C16_ReadsOnlyOwnSlots", done, All(R, ReadsOnlyOwnSlots)>>,
        <<"C16_SpAlignedOnAccess", done /\ c.abi = "arm64", All(R, SpAlignedOnAccess)>>,
        <<"C16_RestoredDeclared", done, All(R, RestoredDeclared)>>,
        <<"C16_NoCollateral", done, All(R, NoCollateral)>>,
        <<"C16_FlagsRestoredIfDeclared", done /\ c.flags /\ c.abi # "mips32",
                                         All(R, FlagsRestoredIfDeclared)>>,
        \* (x86 align_stack without clobbers_flags lets `and` overwrite the flags:
        \*  observed, but outside the statement of C16, which only covers declared
        \*  flags - DESIGN.md 6; FlagsUntouchedIfNotDeclared is kept as an operator)
        <<"C16_SpRestored", done, All(R, SpRestored)>>,
        <<"C16_ReportedAdjustment", done /\ t.adjknown, All(R, ReportedAdjustment)>>,
        <<"C16_AlignedIfAlignStack", done /\ c.align, All(R, AlignedIfAlignStack)>>,
        <<"C16_ScratchOK", done,
            done => \A s \in 1..NSites(t) : ScratchOK(c.abi, Obs(t, s).scratch, c.scratch,
                                              SeqToSet(c.reads) \cup SeqToSet(c.clob))>> >>

Clauses17(t, R) ==
  LET c == t.cfg
      done == Completed(t)
      conv == ConvOf(c)
  IN << <<"C17_Completes", TRUE, t.exc = "" \/ LegitRefusalC17(c, t.exc)>>,
        <<"C17_OneCall", done, All(R, OneCall)>>,
        <<"C17_ArgRegs", done /\ NRegs(c) > 0, AllCalls(R, PArgRegs)>>,
        <<"C17_StackArgs", done /\ NStack(c) > 0, AllCalls(R, PStackArgs)>>,
        <<"C17_ShadowReserved", done, AllCalls(R, PShadow)>>,
        <<"C17_AlignedAtCall", done /\ \E a \in DOMAIN R : R[a].P.aligndom, AllCalls(R, PAligned)>>,
        <<"C17_BodyStackNeutral", done, All(R, BodyStackNeutral)>>,
        <<"C17_SpRestored", done, All(R, SpRestored)>>,
        <<"C17_NoWriteAtOrAboveOriginalSp", done, All(R, NoWriteAtOrAboveOriginalSp)>>,
        <<"C17_NoRedZoneWriteIfLeaf", done /\ c.leaf /\ RedZone(c.abi) > 0,
                                      All(R, NoRedZoneWriteIfLeaf)>>,
        <<"C17_ReadsOnlyOwnSlots", done, All(R, ReadsOnlyOwnSlots)>>,
        <<"C17_SpAlignedOnAccess", done /\ c.abi = "arm64", All(R, SpAlignedOnAccess)>>,
        <<"C17_NoCollateral", done, All(R, NoCollateral)>>,
        <<"C17_FlagsRestoredIfDeclared", done /\ c.flags, All(R, FlagsRestoredIfDeclared)>>,
        <<"C17_ReportedAdjustment", done /\ t.adjknown, All(R, ReportedAdjustment)>>,
        <<"C17_CallableGetsContext", (done \/ (NSites(t) = 1 /\ ReachedGetAsm(t)))
                                     /\ \E i \in DOMAIN c.args : c.args[i].cb,
                                     CallableOK(t)>>,
        <<"C17_CallableSeesItsContext", done /\ CtxPositions(c) # {},
                                        CallableSeesItsContext(t, R)>> >>

(***************************************************************************)
(* OPEN known findings: narrow signatures (see known_findings.json).  The  *)
(* fixed ones (FX-C16-1, FX-C16-2, FX-C17-1) have no tag: a relapse is a   *)
(* VIOLATION.                                                              *)
(***************************************************************************)
KfTags(t, R, clause) ==
  LET c == t.cfg IN
  CASE clause = "C17_Completes" ->
         IF t.exc = "AsmSyntaxError" /\ t.stage = "assemble"
            /\ \E s \in 1..NSites(t) : KfX64Push(At(c, s))
         THEN {"KF-C17-2"} ELSE {}
    [] clause \in {"C17_ArgRegs", "C17_StackArgs"} ->
         IF \A a \in DOMAIN R : \A k \in DOMAIN R[a].S.calls :
               ArgsOKModuloSymLoad(R[a].P, R[a].S.calls[k])
         THEN {"KF-C17-3"} ELSE {}
    [] clause = "C17_CallableSeesItsContext" ->
         IF CallableSeesModuloSymLoad(t, R) THEN {"KF-C17-3"} ELSE {}
    [] OTHER -> {}

(***************************************************************************)
(* Diagnostics of a failed clause: the first start alignment, the final    *)
(* machine state in short, the argument values seen at the call.           *)
(***************************************************************************)
SetMax(S) == IF S = {} THEN 0 ELSE CHOOSE x \in S : \A y \in S : y <= x
Short(tok) == <<tok.k, tok.s, tok.b, tok.n>>
DiffState(t, R, a) ==
  LET S == R[a].S
      P == R[a].P
      o == Obs(t, a[1])
  IN  [site |-> a[1], a |-> a[2], sp0 |-> P.sp0, sp |-> S.sp, spBody |-> S.spBody, spExit |-> S.spExit,
       phase |-> S.phase, adjknown |-> o.adjknown, adj |-> o.adj,
       highest_write_end |-> SetMax({x + P.w : x \in S.written}),
       badreads |-> S.badreads, misaligned_sp_at_steps |-> S.misal, flags |-> S.flags.k,
       changed |-> {r \in DOMAIN S.regs : S.regs[r] # InitTok(r)},
       scratch |-> o.scratch,
       calls |-> [k \in DOMAIN S.calls |->
                    [sp |-> S.calls[k].sp, t |-> S.calls[k].t,
                     seen |-> [i \in DOMAIN P.exp |-> Short(SeenArg(P, S.calls[k], i))],
                     expected |-> [i \in DOMAIN P.exp |-> Short(P.exp[i])]]]]
\* a run on which the clause fails, if it is a clause about single runs
Unbalanced(R, x) == R[x].S.sp # R[x].P.sp0 \/ R[x].S.badreads # {}
                    \/ \E r \in DOMAIN R[x].S.regs \ R[x].P.may : R[x].S.regs[r] # InitTok(r)
Witness(R) == IF \E x \in DOMAIN R : Unbalanced(R, x) THEN CHOOSE x \in DOMAIN R : Unbalanced(R, x)
              ELSE
              IF \E x \in DOMAIN R : R[x].S.calls # <<>> /\
                    \E k \in DOMAIN R[x].S.calls : ~ArgsOKModuloSymLoad(R[x].P, R[x].S.calls[k])
              THEN CHOOSE x \in DOMAIN R : \E k \in DOMAIN R[x].S.calls :
                                              ~ArgsOKModuloSymLoad(R[x].P, R[x].S.calls[k])
              ELSE CHOOSE x \in DOMAIN R : \A y \in DOMAIN R : x[1] < y[1] \/ (x[1] = y[1] /\ x[2] <= y[2])
Diff(t, R, name) ==
  IF name \in {"C16_Completes", "C17_Completes"} THEN [exc |-> t.exc, stage |-> t.stage]
  ELSE IF name = "C17_CallableGetsContext"
       THEN [cb |-> [s \in 1..NSites(t) |-> Obs(t, s).cb]]
  ELSE IF DOMAIN R = {} THEN [exc |-> t.exc, stage |-> t.stage]
  ELSE DiffState(t, R, Witness(R))

\* Level B drift: the library no longer does what AbiGen / CallGen model
Drift(t) ==
  /\ ~t.ood
  /\ \E s \in 1..NSites(t) :
       LET \* histories of several contexts: the generator's leaf argument is what the table
           \* model of LeafHist.tla predicts (a function unknown to the context counts as a leaf)
           c16 == IF "mode" \in DOMAIN t.cfg /\ t.cfg.mode = "ctxs"
                  THEN [AtSite(t.cfg, s) EXCEPT !.leaf = t.cfg.sites[s].skip] ELSE AtSite(t.cfg, s)
           p == IF IsCall(t) THEN CallPredict(At(t.cfg, s)) ELSE Predict(c16)
           o == Obs(t, s)
       IN  \/ p.exc # t.exc
           \/ /\ t.exc = ""
              /\ \/ p.pro # o.pro \/ p.epi # o.epi
                 \/ (IsCall(t) /\ p.body # o.body)
                 \/ p.adjknown # o.adjknown \/ p.adj # o.adj \/ p.scratch # o.scratch

Verdict(t) ==
  LET R == IF Completed(t) THEN Runs(t) ELSE [a \in {} |-> 0]
      cs == IF IsCall(t) THEN Clauses17(t, R) ELSE Clauses16(t, R)
      bad == SelectSeq(cs, LAMBDA c : c[2] /\ ~c[3])
      indom == SelectSeq(cs, LAMBDA c : c[2])
  IN  [id |-> t.id,
       indomain |-> [i \in 1..Len(indom) |-> indom[i][1]],
       failed |-> [i \in 1..Len(bad) |->
                     [clause |-> bad[i][1], diff |-> Diff(t, R, bad[i][1]),
                      kf |-> KfTags(t, R, bad[i][1])]],
       exc |-> t.exc, ood |-> t.ood, drift |-> Drift(t)]

\* the variables of the composed specifications are not used here
Idle == /\ cfg = 0 /\ pred = 0 /\ prog = 0 /\ pc = 0 /\ par = 0 /\ sp = 0 /\ mem = 0
        /\ written = 0 /\ regs = 0 /\ flags = 0 /\ phase = 0 /\ aux = 0
TInit == tid = 1 /\ Idle
TNext == /\ tid <= Len(Traces)
         /\ PrintT("VERDICT " \o ToJson(Verdict(Traces[tid])))
         /\ tid' = tid + 1
         /\ UNCHANGED vars
AllConsumed == TLCGet("stats").diameter - 1 = Len(Traces)
=============================================================================
