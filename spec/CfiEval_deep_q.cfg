SPECIFICATION Spec
CONSTANTS
  MaxLen = 5
  Regs = {1}
  Offs <- OffsOne
  Cols = {17}
  PtrArgs <- PtrArgsQ
  Escapes = {"cfa"}
  Ops <- OpsDeep
  AbiSet = {"x64-elf"}
  EmitAbi = "x64-elf"
  Emit = TRUE
  EmitMinLen = 4
  AllowErr = TRUE
INVARIANT Inv
PROPERTY InitFrozen
CHECK_DEADLOCK FALSE
