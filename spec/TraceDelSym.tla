---------------------------- MODULE TraceDelSym ----------------------------
(***************************************************************************)
(* Trace specification of C19.  Every line of TRACE_FILE is one observed   *)
(* execution of RewritingContext.delete_symbol + apply():                  *)
(*   case  the configuration (as emitted by DelSym.tla)                    *)
(*   pre   projection of the module after apply() without the deletions    *)
(*   post  projection of the identically built module after apply() with   *)
(*         them; both include the result of a protobuf save/load           *)
(*   exc   exception type name ("" when none)                              *)
(* The expected module is D!Expected applied to the *observed* pre module. *)
(***************************************************************************)
EXTENDS Naturals, Sequences, FiniteSets, TLC, TLCExt, Json, IOUtils

D == INSTANCE DelSym WITH Mode <- "tables", Fmts <- {}, K1 <- 0, K2 <- 0, K3 <- 0, NVer <- 0,
                          ReqNames <- {}, Emit <- FALSE, cfg <- 0, st <- 0

Traces == ndJsonDeserialize(IOEnv.TRACE_FILE)
VARIABLE tid

Range(f) == {f[i] : i \in DOMAIN f}
SetDiff(exp, obs) == [missing |-> exp \ obs, extra |-> obs \ exp]

(***************************************************************************)
(* Abstraction of a projected module.  A name prefixed with "!" is a       *)
(* symbol object that is no longer in the module, "?uuid" a dangling UUID. *)
(***************************************************************************)
Abs(p) ==
  [ syms   |-> {s.n : s \in Range(p.syms)},
    esi    |-> {<<q[1], q[2]>> : q \in Range(p.esi)},
    tix    |-> {<<q[1], q[2]>> : q \in Range(p.tix)},
    hasver |-> p.ver.has,
    vents  |-> {[s |-> e.s, id |-> e.id, h |-> e.h] : e \in Range(p.ver.ents)},
    vdefs  |-> {[id |-> d.id, names |-> d.names, flags |-> d.flags] : d \in Range(p.ver.defs)},
    vreqs  |-> UNION {{[lib |-> r.lib, id |-> v.id, v |-> v.v] : v \in Range(r.vers)} : r \in Range(p.ver.reqs)},
    vlibs  |-> {r.lib : r \in Range(p.ver.reqs)},
    fn     |-> {<<f.u, f.name>> : f \in {x \in Range(p.fns) : x.hasn}},
    imp    |-> p.imp,
    exp    |-> p.exp,
    fwd    |-> {<<q[1], q[2]>> : q \in Range(p.fwd)},
    cfi    |-> {[blk |-> c.blk, d |-> c.d, i |-> c.i, dir |-> c.dir, args |-> c.args, sym |-> c.sym]
                : c \in Range(p.cfi)},
    sx     |-> {[blk |-> e.blk, o |-> e.o, f |-> e.f, s1 |-> e.s1, s2 |-> e.s2, add |-> e.add,
                 at |-> Range(e.at), sc |-> e.sc] : e \in Range(p.sx)},
    rest   |-> [blocks |-> p.blocks, edges |-> p.edges, aux |-> p.aux, tabs |-> p.tabs,
                nprox |-> p.nprox,
                fnbody |-> {<<f.u, f.ent, f.blk>> : f \in Range(p.fns)}] ]

SymFacts(p, keep) == {s \in Range(p.syms) : s.n \in keep}

CaseCfg(c) ==
  [fmt |-> c.fmt, extra |-> Range(c.extra), ret |-> c.ret,
   syms |-> [i \in DOMAIN c.syms |-> [n |-> c.syms[i].n, f |-> Range(c.syms[i].f), ver |-> c.syms[i].ver]]]

\* conformance of the rendered module with the abstract module of the case
Sig(M) ==
  [ syms |-> M.syms,
    esi |-> {p[1] : p \in M.esi}, tix |-> {p[1] : p \in M.tix},
    hasver |-> M.hasver, vents |-> M.vents, vdefs |-> M.vdefs, vreqs |-> M.vreqs, vlibs |-> M.vlibs,
    fn |-> {p[2] : p \in M.fn}, imp |-> M.imp, exp |-> M.exp, fwd |-> M.fwd,
    cfi |-> {<<c.dir, c.args, c.sym>> : c \in {x \in M.cfi : x.sym # ""}},
    sx |-> {<<e.f, e.s1, e.s2, e.add>> : e \in M.sx} ]

Ctx(t) ==
  LET M == Abs(t.pre)
      N == Abs(t.post)
      reqs == t.case.reqs
      del == D!Del(reqs)
      conf == /\ t.exc0 = ""
              /\ Sig(M) = Sig(D!ModR(CaseCfg(t.case)))
              /\ t.pre.ser.ok /\ t.pre.ser.dang = 0
              /\ del \subseteq M.syms
      out == IF conf THEN D!Outcome(M, reqs) ELSE "?"
  IN  [t |-> t, M |-> M, N |-> N, reqs |-> reqs, del |-> del, conf |-> conf, out |-> out,
       E |-> IF conf /\ out = "" THEN D!Expected(M, del) ELSE M,
       done |-> conf /\ out = "" /\ t.exc = ""]

(***************************************************************************)
(* Clauses                                                                 *)
(***************************************************************************)
Stale(n) == "!" \o n
Ghosts(X) == X.del \cup {Stale(n) : n \in X.del}
\* a mentioned name that is not a symbol of the module (stale object, dangling UUID)
IsGhostLike(X, n) == n \notin X.N.syms

C19_Gone(X) == X.N.syms \cap X.del = {} /\ X.t.post.ser.nsym = Cardinality(X.N.syms)

\* names mentioned by the symbol-keyed aux tables
TableNames(M) ==
  [esi |-> {p[1] : p \in M.esi}, tix |-> {p[1] : p \in M.tix}, ver |-> {e.s : e \in M.vents},
   fn |-> {p[2] : p \in M.fn}, imp |-> Range(M.imp), exp |-> Range(M.exp),
   fwdk |-> {p[1] : p \in M.fwd}, fwdv |-> {p[2] : p \in M.fwd}]
AllTableNames(M) ==
  LET tn == TableNames(M) IN tn.esi \cup tn.tix \cup tn.ver \cup tn.fn \cup tn.imp \cup tn.exp \cup tn.fwdk \cup tn.fwdv
C19_TablesClean(X) ==
  LET names == AllTableNames(X.N)
  IN  names \cap Ghosts(X) = {} /\ \A n \in names : ~IsGhostLike(X, n)
TablesDiff(X) ==
  LET tn == TableNames(X.N)
      bad(S) == {n \in S : n \in Ghosts(X) \/ IsGhostLike(X, n)}
  IN  [esi |-> bad(tn.esi), tix |-> bad(tn.tix), ver |-> bad(tn.ver), fn |-> bad(tn.fn),
       imp |-> bad(tn.imp), exp |-> bad(tn.exp), fwdk |-> bad(tn.fwdk), fwdv |-> bad(tn.fwdv)]

\* the directives that named a deleted symbol: in place, null symbol, omitted pointer encoding
CSite(c) == <<c.blk, c.d, c.i>>
NamedSites(X) == {CSite(c) : c \in {x \in X.M.cfi : x.sym \in X.del}}
ExpNulled(X) == {c \in X.E.cfi : CSite(c) \in NamedSites(X)}
ObsNulled(X) == {c \in X.N.cfi : CSite(c) \in NamedSites(X)}
C19_CfiNulled(X) == ObsNulled(X) = ExpNulled(X)

C19_UsesError(X) ==
  (X.t.exc = "SymbolUsesRemainingError") = (X.out = "SymbolUsesRemainingError")

C19_ForcedRemovesExactly(X) == X.N.sx = X.E.sx

Ver(M) == [ents |-> M.vents, defs |-> M.vdefs, reqs |-> M.vreqs, libs |-> M.vlibs, has |-> M.hasver]
C19_VersionGC(X) == Ver(X.N) = Ver(X.E)
VerDiff(X) ==
  [ents |-> SetDiff(X.E.vents, X.N.vents), defs |-> SetDiff(X.E.vdefs, X.N.vdefs),
   reqs |-> SetDiff(X.E.vreqs, X.N.vreqs), libs |-> SetDiff(X.E.vlibs, X.N.vlibs)]

\* everything not asked for: entries of the other symbols, the other symbols and their
\* referents, the directives that did not name a deleted symbol, blocks, CFG, other tables
Others(X, M, p) ==
  LET keep == X.M.syms \ X.del
      r == D!Restrict(M, keep)
  IN  [esi |-> r.esi, tix |-> r.tix, fn |-> r.fn, imp |-> r.imp, exp |-> r.exp, fwd |-> r.fwd,
       cfi |-> {c \in M.cfi : CSite(c) \notin NamedSites(X)},
       syms |-> SymFacts(p, keep), rest |-> M.rest]
C19_OthersUntouched(X) == Others(X, X.N, X.t.post) = Others(X, X.M, X.t.pre)
OthersDiff(X) ==
  LET a == Others(X, X.M, X.t.pre)  b == Others(X, X.N, X.t.post)
  IN  [esi |-> SetDiff(a.esi, b.esi), tix |-> SetDiff(a.tix, b.tix), fn |-> SetDiff(a.fn, b.fn),
       imp |-> <<a.imp, b.imp>>, exp |-> <<a.exp, b.exp>>, fwd |-> SetDiff(a.fwd, b.fwd),
       cfi |-> SetDiff(a.cfi, b.cfi), syms |-> SetDiff(a.syms, b.syms),
       blocks |-> a.rest.blocks = b.rest.blocks, edges |-> a.rest.edges = b.rest.edges,
       aux |-> a.rest.aux = b.rest.aux, tabs |-> a.rest.tabs = b.rest.tabs,
       fnbody |-> SetDiff(a.rest.fnbody, b.rest.fnbody)]

C19_Serializes(X) == X.t.post.ser.ok /\ X.t.post.ser.dang = 0
C19_Completes(X) == X.t.exc = ""

(***************************************************************************)
(* Verdict                                                                 *)
(***************************************************************************)
KfTags(X, clause) == {}

Clauses(X) ==
  LET dC == X.conf /\ X.out = ""
      dV == X.done /\ X.M.hasver
  IN
  << <<"C19_Completes", dC, IF dC THEN C19_Completes(X) ELSE TRUE>>,
     <<"C19_UsesError", X.conf, IF X.conf THEN C19_UsesError(X) ELSE TRUE>>,
     <<"C19_Gone", X.done, IF X.done THEN C19_Gone(X) ELSE TRUE>>,
     <<"C19_TablesClean", X.done, IF X.done THEN C19_TablesClean(X) ELSE TRUE>>,
     <<"C19_CfiNulled", X.done, IF X.done THEN C19_CfiNulled(X) ELSE TRUE>>,
     <<"C19_ForcedRemovesExactly", X.done, IF X.done THEN C19_ForcedRemovesExactly(X) ELSE TRUE>>,
     <<"C19_VersionGC", dV, IF dV THEN C19_VersionGC(X) ELSE TRUE>>,
     <<"C19_OthersUntouched", X.done, IF X.done THEN C19_OthersUntouched(X) ELSE TRUE>>,
     <<"C19_Serializes", X.done, IF X.done THEN C19_Serializes(X) ELSE TRUE>> >>

Diff(name, X) ==
  CASE name = "C19_Gone" -> [left |-> X.N.syms \cap X.del, nsym |-> X.t.post.ser.nsym]
    [] name = "C19_TablesClean" -> TablesDiff(X)
    [] name = "C19_CfiNulled" -> SetDiff(ExpNulled(X), ObsNulled(X))
    [] name = "C19_UsesError" -> [exc |-> X.t.exc, expected |-> X.out]
    [] name = "C19_ForcedRemovesExactly" -> SetDiff(X.E.sx, X.N.sx)
    [] name = "C19_VersionGC" -> VerDiff(X)
    [] name = "C19_OthersUntouched" -> OthersDiff(X)
    [] name = "C19_Serializes" -> X.t.post.ser
    [] OTHER -> [exc |-> X.t.exc, stage |-> X.t.stage]

Verdict(t) ==
  LET X == Ctx(t)
      cs == Clauses(X)
      bad == SelectSeq(cs, LAMBDA c : c[2] /\ ~c[3])
      indom == SelectSeq(cs, LAMBDA c : c[2])
  IN  [id |-> t.id,
       indomain |-> [i \in 1..Len(indom) |-> indom[i][1]],
       failed |-> [i \in 1..Len(bad) |->
                     [clause |-> bad[i][1], diff |-> Diff(bad[i][1], X), kf |-> KfTags(X, bad[i][1])]],
       conf |-> X.conf, ndel |-> Cardinality(X.del),
       nment |-> IF X.conf THEN Cardinality(D!MentionedNames(X.M) \cap X.del) ELSE 0,
       exc |-> t.exc]

Init == tid = 1
Next == /\ tid <= Len(Traces)
        /\ PrintT("VERDICT " \o ToJson(Verdict(Traces[tid])))
        /\ tid' = tid + 1
AllConsumed == TLCGet("stats").diameter - 1 = Len(Traces)
=============================================================================
