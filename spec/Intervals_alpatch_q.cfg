SPECIFICATION Spec
CONSTANTS
  MaxSize = 5
  MaxBlocks = 3
  Inits = "full"
  KindMode = "one"
  AlignVals = {}
  MaxAligned = 0
  ItemMode = "none"
  MaxItems = 0
  Addrs = {"4096", "4100"}
  Grows = {1, 2, 3}
  Lates = FALSE
  AddAligns = {4, 8, 16}
  OnlyTiled = TRUE
  NopKinds = {"1"}
  VariantSet = "alpatch"
  Rotate = 0
  Emit = TRUE
INVARIANT Inv
CHECK_DEADLOCK FALSE
