---------------------------- MODULE StackMachine ----------------------------
(***************************************************************************)
(* Abstract machine for the code gtirb-rewriting emits around a patch      *)
(* (prologue / epilogue, C16) and for CallPatch bodies (C17).              *)
(*                                                                         *)
(*   sp       concrete small integer (byte address), starts at 1024 + a    *)
(*            (regs is sparse: a register that was never assigned still    *)
(*            holds its initial token)                                     *)
(*   mem      address of a slot written by generated code -> token         *)
(*   written  start addresses of the slots written by generated code       *)
(*            (monotone; a slot is P.w bytes)                              *)
(*   regs     register -> token,  flags  token,  phase                     *)
(*                                                                         *)
(* Values are TOKENS (records of one uniform shape, TLC integers are 32    *)
(* bit): the initial value of a resource, a fresh value produced by the    *)
(* patch body / a callee, an integer given by its little-endian byte list, *)
(* the address of a symbol, the contents of the memory at a symbol, a      *)
(* stack-pointer value, garbage.                                           *)
(*                                                                         *)
(* The semantics of every abstract instruction event is the pure operator  *)
(* Eff(P, S, e); the named actions (Push, Pop, ... Call) of this module    *)
(* apply it to the variables.  The properties are predicates over          *)
(* (parameters P, machine state S) and are used both as TLC invariants     *)
(* (AbiGen / CallGen: model checking of the generators' design) and as     *)
(* the clauses of the trace specification (TraceStack: events decoded from *)
(* the bytes the real library assembled).                                  *)
(***************************************************************************)
EXTENDS Integers, Sequences, FiniteSets, TLC

SeqToSet(s) == {s[i] : i \in DOMAIN s}
Max2(a, b) == IF a > b THEN a ELSE b
Min2(a, b) == IF a < b THEN a ELSE b

(***************************************************************************)
(* ABI facts (psABI documents; independent of the implementation).         *)
(***************************************************************************)
Abis == {"x64elf", "x64pe", "ia32pe", "arm64", "mips32"}
IsX64(abi) == abi \in {"x64elf", "x64pe"}
IsX86(abi) == abi \in {"x64elf", "x64pe", "ia32pe"}

X64Regs == <<"rax", "rbx", "rcx", "rdx", "rsi", "rdi", "r8", "r9", "r10",
             "r11", "r12", "r13", "r14", "r15">>
IA32Regs == <<"eax", "ebx", "ecx", "edx", "esi", "edi">>
Arm64Regs == <<"x0", "x1", "x2", "x3", "x4", "x5", "x6", "x7", "x8", "x9",
               "x10", "x11", "x12", "x13", "x14", "x15", "x16", "x17", "x18",
               "x19", "x20", "x21", "x22", "x23", "x24", "x25", "x26", "x27",
               "x28", "x29", "x30">>
MipsRegs == <<"t0", "t1", "t2", "t3", "t4", "t5", "t6", "t7", "t8", "t9",
              "a0", "a1", "a2", "a3", "s0", "s1", "s2", "s3", "s4", "s5",
              "s6", "s7", "v0", "v1", "k0", "k1", "at", "zero", "gp", "sp",
              "fp", "ra">>

\* general purpose registers, in the order the library enumerates them
AllRegs(abi) == CASE IsX64(abi) -> X64Regs
                  [] abi = "ia32pe" -> IA32Regs
                  [] abi = "arm64" -> Arm64Regs
                  [] OTHER -> MipsRegs
SpName(abi) == CASE IsX64(abi) -> "rsp" [] abi = "ia32pe" -> "esp" [] OTHER -> "sp"
Slot(abi) == IF abi \in {"ia32pe", "mips32"} THEN 4 ELSE 8
RedZone(abi) == IF abi = "x64elf" THEN 128 ELSE 0      \* SysV AMD64 3.2.2
AbiStackAlign(abi) == CASE IsX64(abi) -> 16 [] abi = "ia32pe" -> 4
                        [] abi = "arm64" -> 16 [] OTHER -> 8
CallerSaved(abi) ==
  CASE abi = "x64elf" -> {"rax", "rcx", "rdx", "rsi", "rdi", "r8", "r9", "r10", "r11"}
    [] abi = "x64pe" -> {"rax", "rcx", "rdx", "r8", "r9", "r10", "r11"}
    [] abi = "ia32pe" -> {"eax", "ecx", "edx"}
    [] abi = "arm64" -> {Arm64Regs[i] : i \in 1..16} \cup {"x29", "x30"}
    [] OTHER -> {MipsRegs[i] : i \in 1..14} \cup {"v0", "v1"}
\* registers that must never be handed out as scratch registers
Reserved(abi) ==
  CASE abi = "arm64" -> {"x16", "x17", "x18", "x29", "x30"}
    [] abi = "mips32" -> {"t8", "t9", "k0", "k1", "at", "zero", "gp", "sp", "fp", "ra"}
    [] OTHER -> {}
\* registers that may be handed out as scratch registers (psABI: x86 general
\* purpose registers other than the stack / frame pointer; AArch64 x0-x15,
\* x19-x28 (x16/x17 intra-procedure-call, x18 platform, x29 fp, x30 lr are
\* reserved); MIPS o32: the temporaries $t0-$t7 ($t8/$t9 serve the assembler
\* and the PIC call sequence, $a/$s/$v carry arguments, saved values, results))
Candidates(abi) == IF abi = "mips32" THEN {MipsRegs[i] : i \in 1..8}
                   ELSE SeqToSet(AllRegs(abi)) \ (Reserved(abi) \cup {SpName(abi)})
\* stack pointer values modulo 16 that can occur at an insertion point
StartAligns(abi) == CASE IsX64(abi) -> {0, 8} [] abi = "ia32pe" -> {0, 4, 8, 12}
                      [] abi = "arm64" -> {0} [] OTHER -> {0, 4}
\* the default calling conventions (SysV AMD64, Microsoft x64, cdecl, AAPCS64)
DefaultConv(abi) ==
  CASE abi = "x64elf" -> [regs |-> <<"rdi", "rsi", "rdx", "rcx", "r8", "r9">>,
                          align |-> 16, shadow |-> 0, caller |-> TRUE]
    [] abi = "x64pe" -> [regs |-> <<"rcx", "rdx", "r8", "r9">>,
                         align |-> 16, shadow |-> 32, caller |-> TRUE]
    [] abi = "ia32pe" -> [regs |-> <<>>, align |-> 4, shadow |-> 0, caller |-> TRUE]
    [] abi = "arm64" -> [regs |-> <<"x0", "x1", "x2", "x3", "x4", "x5", "x6", "x7">>,
                         align |-> 16, shadow |-> 0, caller |-> TRUE]
    [] OTHER -> [regs |-> <<"a0", "a1", "a2", "a3">>, align |-> 8, shadow |-> 0,
                 caller |-> TRUE]

(***************************************************************************)
(* Tokens.                                                                 *)
(***************************************************************************)
Tok(k, s, b, n) == [k |-> k, s |-> s, b |-> b, n |-> n]
InitTok(r) == Tok("init", r, <<>>, 0)          \* value of r before the code
FreshTok(r, n) == Tok("fresh", r, <<>>, n)      \* produced by body / callee
GarbageTok(r, n) == Tok("garbage", r, <<>>, n)  \* by-product of generated code
IntTok(b) == Tok("int", "", b, 0)               \* integer, LE bytes
AddrTok(s) == Tok("addr", s, <<>>, 0)           \* address of symbol s
PageTok(s) == Tok("page", s, <<>>, 0)           \* 4 KiB page of symbol s (adrp)
ContentsTok(s) == Tok("contents", s, <<>>, 0)   \* word stored at symbol s
SpTok(n) == Tok("sp", "", <<>>, n)              \* the stack address n
UnknownTok(n) == Tok("unknown", "", <<>>, n)    \* slot never written by us

\* abstract instruction event (uniform shape; unused fields "" / 0 / <<>>)
Ev(op, r, r2, d, s, b) == [op |-> op, r |-> r, r2 |-> r2, d |-> d, s |-> s, b |-> b]

(***************************************************************************)
(* Parameters of one run (constant during the run)                         *)
(*   abi, w (slot size), sp0, spname, regset                               *)
(*   rz      red zone to be respected (0 if none / not a leaf)             *)
(*   D       registers the body may change (declared resources)            *)
(*   dflags  flags declared clobbered                                      *)
(*   cs      registers a callee may change                                 *)
(*   conv    [regs, align, shadow, caller], exp (expected argument tokens),*)
(*           nstack, target     (C17 only)                                 *)
(***************************************************************************)
EmptyMem == [x \in {} |-> InitTok("")]

InitState(P) ==
  [sp |-> P.sp0, mem |-> EmptyMem, written |-> {},
   regs |-> EmptyMem, flags |-> InitTok("flags"),
   phase |-> "pro", step |-> 0, badreads |-> {}, misal |-> {}, spBody |-> 0,
   spExit |-> 0, calls |-> <<>>]

MemSet(mem0, A, v, w) ==
  LET mem == mem0
      keep == {y \in DOMAIN mem : y <= A - w \/ y >= A + w}
  IN  [x \in keep \cup {A} |-> IF x = A THEN v ELSE mem[x]]
MemDropBelow(mem0, n) == LET mem == mem0 IN [x \in {y \in DOMAIN mem : y >= n} |-> mem[x]]

\* TLC re-evaluates an operator argument at every use (call by name) but
\* caches LET definitions: every operator below first binds its arguments.

\* moving sp up frees the slots below it (signal handlers may overwrite them)
SetSp(S0, n0) ==
  LET S == S0
      n == n0
  IN  [S EXCEPT !.sp = n, !.mem = IF n > S.sp THEN MemDropBelow(@, n) ELSE @]
RegVal(P, S0, r0) ==
  LET S == S0
      r == r0
  IN  IF r = P.spname THEN SpTok(S.sp)
      ELSE IF r \in DOMAIN S.regs THEN S.regs[r] ELSE InitTok(r)
SpOf(tok0) == LET tok == tok0 IN IF tok.k = "sp" THEN tok.n ELSE 0  \* 0: lost track of sp
SetReg(P, S0, r0, v0) ==
  LET S == S0
      r == r0
      v == v0
  IN  IF r = P.spname THEN SetSp(S, SpOf(v))
      ELSE [S EXCEPT !.regs = [x \in (DOMAIN S.regs) \cup {r} |->
                                 IF x = r THEN v ELSE S.regs[x]]]
\* store of one slot by generated code
Store(P, S0, A0, v0) ==
  LET S == S0
      A == A0
      v == v0
  IN  [S EXCEPT !.mem = MemSet(@, A, v, P.w),
                !.written = @ \cup {A}]
\* load of one slot: legitimate only from a live slot we wrote, not below sp
LoadVal(S0, A0) ==
  LET S == S0
      A == A0
  IN  IF A \in DOMAIN S.mem THEN S.mem[A] ELSE UnknownTok(A)
NoteLoad(S0, A0) ==
  LET S == S0
      A == A0
  IN  IF A \in DOMAIN S.mem /\ A >= S.sp THEN S
      ELSE [S EXCEPT !.badreads = @ \cup {<<S.step, A>>}]

IsPow2(n) == n \in {1, 2, 4, 8, 16, 32, 64, 128, 256, 512, 1024, 2048, 4096}
AlignDown(n, m) == n - (n % m)
AlignUp(n, m) == ((n + m - 1) \div m) * m

\* replace the two bytes of the 16-bit chunk at bit position sh
SetChunk(b, c, sh) == LET i == (sh \div 8) + 1
                      IN  [j \in DOMAIN b |-> IF j = i THEN c[1]
                                              ELSE IF j = i + 1 THEN c[2] ELSE b[j]]

(***************************************************************************)
(* Semantics of one event.                                                 *)
(***************************************************************************)
EffCore(P, S0, e0) ==
  LET S == S0
      e == e0
      w == P.w
      g == S.step
  IN
  CASE e.op = "push" ->                             \* push r
         LET v == RegVal(P, S, e.r) IN Store(P, SetSp(S, S.sp - w), S.sp - w, v)
    [] e.op = "pop" ->                              \* pop r
         LET S1 == NoteLoad(S, S.sp)
             v == LoadVal(S, S.sp)
         IN  IF e.r = P.spname THEN SetSp(S1, SpOf(v))
             ELSE SetSp(SetReg(P, S1, e.r, v), S.sp + w)
    [] e.op = "pushf" -> Store(P, SetSp(S, S.sp - w), S.sp - w, S.flags)
    [] e.op = "popf" ->
         LET S1 == NoteLoad(S, S.sp) IN
         SetSp([S1 EXCEPT !.flags = LoadVal(S, S.sp)], S.sp + w)
    [] e.op = "adjsp" -> SetSp(S, S.sp + e.d)       \* lea / addiu / add sp (no flags)
    [] e.op = "adjspf" ->                           \* x86 sub/add: writes flags
         [SetSp(S, S.sp + e.d) EXCEPT !.flags = GarbageTok("flags", g)]
    [] e.op = "movspto" -> SetReg(P, S, e.r, SpTok(S.sp))      \* mov r, sp
    [] e.op = "movtosp" -> SetSp(S, SpOf(RegVal(P, S, e.r)))   \* mov sp, r
    [] e.op = "andsp" ->                            \* and sp, m  (x86: writes flags)
         [SetSp(S, IF e.d < 0 /\ IsPow2(-e.d) THEN AlignDown(S.sp, -e.d) ELSE 0)
            EXCEPT !.flags = GarbageTok("flags", g)]
    [] e.op = "stppre" ->                           \* stp r, r2, [sp, #d]!
         LET A == S.sp + e.d
             v1 == RegVal(P, S, e.r)
             v2 == RegVal(P, S, e.r2)
         IN  Store(P, Store(P, SetSp(S, A), A, v1), A + w, v2)
    [] e.op = "ldppost" ->                          \* ldp r, r2, [sp], #d
         LET S1 == NoteLoad(NoteLoad(S, S.sp), S.sp + w)
             S2 == SetReg(P, SetReg(P, S1, e.r, LoadVal(S, S.sp)), e.r2, LoadVal(S, S.sp + w))
         IN  SetSp(S2, S.sp + e.d)
    [] e.op = "strpre" ->                           \* str r, [sp, #d]!
         LET A == S.sp + e.d
             v == RegVal(P, S, e.r)
         IN  Store(P, SetSp(S, A), A, v)
    [] e.op = "ldrpost" ->                          \* ldr r, [sp], #d
         SetSp(SetReg(P, NoteLoad(S, S.sp), e.r, LoadVal(S, S.sp)), S.sp + e.d)
    [] e.op = "mrs" -> SetReg(P, S, e.r, S.flags)
    [] e.op = "msr" -> [S EXCEPT !.flags = RegVal(P, S, e.r)]
    [] e.op \in {"sw", "storeslot"} ->              \* sw r, d(sp) / str r, [sp, #d]
         Store(P, S, S.sp + e.d, RegVal(P, S, e.r))
    [] e.op = "lw" ->                               \* lw r, d(sp)
         SetReg(P, NoteLoad(S, S.sp + e.d), e.r, LoadVal(S, S.sp + e.d))
    [] e.op = "movimm" -> SetReg(P, S, e.r, IntTok(e.b))
    [] e.op = "movk" ->                             \* movk r, #b, lsl #d
         LET v == RegVal(P, S, e.r) IN
         SetReg(P, S, e.r, IF v.k = "int" /\ Len(v.b) = 8 /\ e.d \in {0, 16, 32, 48}
                           THEN IntTok(SetChunk(v.b, e.b, e.d))
                           ELSE GarbageTok(e.r, g))
    [] e.op = "loadsym" -> SetReg(P, S, e.r, AddrTok(e.s))     \* lea r, sym / mov r, offset sym
    [] e.op = "loadmem" -> SetReg(P, S, e.r, ContentsTok(e.s)) \* mov r, [sym]
    [] e.op = "adrp" -> SetReg(P, S, e.r, PageTok(e.s))
    [] e.op = "addlo12" ->
         SetReg(P, S, e.r, IF RegVal(P, S, e.r2) = PageTok(e.s) THEN AddrTok(e.s)
                           ELSE GarbageTok(e.r, g))
    [] e.op = "pushimm" -> Store(P, SetSp(S, S.sp - w), S.sp - w, IntTok(e.b))
    [] e.op = "pushsym" -> Store(P, SetSp(S, S.sp - w), S.sp - w, AddrTok(e.s))
    [] e.op = "pushmem" -> Store(P, SetSp(S, S.sp - w), S.sp - w, ContentsTok(e.s))
    [] e.op = "call" ->
         \* the state the callee sees is recorded; afterwards everything the
         \* callee owns is unknown: caller-saved registers, flags, its
         \* argument area (shadow space included) and all that is below sp
         LET snap == [sp |-> S.sp, regs |-> S.regs, mem |-> S.mem, t |-> e.s,
                      phase |-> S.phase]
             area == P.conv.shadow + P.nstack * w
             pop == IF P.conv.caller THEN 0 ELSE P.nstack * w
         IN  [S EXCEPT !.calls = Append(@, snap),
                       !.regs = [r \in (DOMAIN S.regs) \cup P.cs |->
                                   IF r \in P.cs THEN FreshTok(r, g) ELSE S.regs[r]],
                       !.flags = FreshTok("flags", g),
                       !.mem = MemDropBelow(@, S.sp + area),
                       !.sp = S.sp + pop]
    [] e.op = "bodyentry" -> [S EXCEPT !.phase = "body", !.spBody = S.sp]
    [] e.op = "havoc" ->
         \* an arbitrary patch body: every declared resource gets a fresh
         \* value, sp is back where the body found it, anything below may
         \* have been overwritten
         [S EXCEPT !.regs = [r \in (DOMAIN S.regs) \cup P.D |->
                               IF r \in P.D THEN FreshTok(r, g) ELSE S.regs[r]],
                   !.flags = IF P.dflags THEN FreshTok("flags", g) ELSE @,
                   !.mem = MemDropBelow(@, S.sp)]
    [] e.op = "bodyexit" -> [S EXCEPT !.phase = "epi", !.spExit = S.sp]
    [] e.op = "end" -> [S EXCEPT !.phase = "done"]
    [] e.op = "clobber" -> SetReg(P, S, e.r, GarbageTok(e.r, g)) \* other register write
    [] e.op = "clobberf" -> [S EXCEPT !.flags = GarbageTok("flags", g)]
    [] OTHER -> S                                   \* nop

\* AArch64: sp must be a multiple of 16 whenever it is the base of a memory
\* access (SP alignment checking), and when the patch body / a callee starts
SpBasedAccess == {"stppre", "ldppost", "strpre", "ldrpost", "storeslot", "sw", "lw",
                  "bodyentry", "call"}
Eff(P, S0, e0) ==
  LET S == S0
      e == e0
      n == EffCore(P, S, e)
  IN  [n EXCEPT !.step = S.step + 1,
                !.misal = IF P.abi = "arm64" /\ e.op \in SpBasedAccess /\ S.sp % 16 # 0
                          THEN @ \cup {S.step} ELSE @]

(***************************************************************************)
(* The properties (C16).  `written' and `badreads' only grow, so a         *)
(* predicate that holds in a state held in every earlier state.            *)
(***************************************************************************)
Entered(S) == S.phase \in {"body", "epi", "done"}
AtEnd(S) == S.phase = "done"

NoWriteAtOrAboveOriginalSp(P, S) == \A x \in S.written : x + P.w <= P.sp0
NoRedZoneWriteIfLeaf(P, S) == P.rz > 0 => \A x \in S.written : x + P.w <= P.sp0 - P.rz
ReadsOnlyOwnSlots(P, S) == S.badreads = {}
SpAlignedOnAccess(P, S) == (P.sp0 % 16 = 0) => S.misal = {}
RestoredDeclared(P, S) ==
  AtEnd(S) => \A r \in P.D \cap DOMAIN S.regs : S.regs[r] = InitTok(r)
\* registers nobody declared keep their value, too (the generated code may
\* use temporaries only if it restores them); P.may: lost to a callee by choice
NoCollateral(P, S) ==
  AtEnd(S) => \A r \in (DOMAIN S.regs) \ (P.D \cup P.may) : S.regs[r] = InitTok(r)
FlagsRestoredIfDeclared(P, S) == (AtEnd(S) /\ P.dflags) => S.flags = InitTok("flags")
FlagsUntouchedIfNotDeclared(P, S) ==
  (AtEnd(S) /\ ~P.dflags /\ ~P.callsout) => S.flags = InitTok("flags")
SpRestored(P, S) == AtEnd(S) => S.sp = P.sp0
ReportedAdjustment(P, S) == (Entered(S) /\ P.adjknown) => P.sp0 - S.spBody = P.adj
AlignedIfAlignStack(P, S) ==
  (Entered(S) /\ P.alignreq) => S.spBody % AbiStackAlign(P.abi) = 0
BodyStackNeutral(P, S) == S.phase \in {"epi", "done"} => S.spExit = S.spBody

\* scratch registers handed to the patch (static); reads: the registers the
\* patch declared it reads or clobbers itself (by register identity, however
\* the patch spelled them)
ScratchOK(abi, scratch, requested, reads) ==
  /\ Len(scratch) = requested
  /\ Cardinality(SeqToSet(scratch)) = Len(scratch)
  /\ \A i \in DOMAIN scratch :
       /\ scratch[i] \notin reads
       /\ scratch[i] # SpName(abi)
       /\ scratch[i] \notin Reserved(abi)
       /\ scratch[i] \in Candidates(abi)

(***************************************************************************)
(* The properties at a call (C17); c is the snapshot taken by "call".      *)
(***************************************************************************)
NRegArgs(P) == Min2(Len(P.exp), Len(P.conv.regs))
SnapReg(c, r) == IF r \in DOMAIN c.regs THEN c.regs[r] ELSE InitTok(r)
ArgRegOK(P, c, i) == SnapReg(c, P.conv.regs[i]) = P.exp[i]
StackArgAddr(P, c, j) == c.sp + P.conv.shadow + P.w * (j - 1)
StackArgOK(P, c, j) == LET A == StackArgAddr(P, c, j)
                       IN  A \in DOMAIN c.mem /\ c.mem[A] = P.exp[NRegArgs(P) + j]
ArgRegsOK(P, c) == \A i \in 1..NRegArgs(P) : ArgRegOK(P, c, i)
StackArgsOK(P, c) == \A j \in 1..P.nstack : StackArgOK(P, c, j)
\* the shadow space lies between sp and the first stack argument, holds
\* nothing that is still needed and belongs to the area the body allocated
ShadowReserved(P, S, c) ==
  /\ \A A \in DOMAIN c.mem : ~(A + P.w > c.sp /\ A < c.sp + P.conv.shadow)
  /\ c.sp + P.conv.shadow + P.nstack * P.w <= S.spBody
AlignedAtCall(P, c) == c.sp % P.conv.align = 0
OneCall(P, S) == AtEnd(S) => (Len(S.calls) = 1 /\ S.calls[1].t = P.target
                              /\ S.calls[1].phase = "body")
CallsOK(P, S) ==
  \A k \in DOMAIN S.calls :
    LET c == S.calls[k] IN
    /\ ArgRegsOK(P, c) /\ StackArgsOK(P, c) /\ ShadowReserved(P, S, c)
    /\ (P.aligndom => AlignedAtCall(P, c))

(***************************************************************************)
(* The machine as a TLA+ state machine: one named action per event kind.   *)
(* `par' holds the parameters of the run (chosen in the initial state by   *)
(* the composing specification).                                           *)
(***************************************************************************)
VARIABLES par, sp, mem, written, regs, flags, phase, aux
mvars == <<par, sp, mem, written, regs, flags, phase, aux>>

\* record view of the variables
St == [sp |-> sp, mem |-> mem, written |-> written, regs |-> regs, flags |-> flags,
       phase |-> phase, step |-> aux.step, badreads |-> aux.badreads, misal |-> aux.misal,
       spBody |-> aux.spBody, spExit |-> aux.spExit, calls |-> aux.calls]

\* (TLC does not cache a LET at the action level: it would re-evaluate the
\* definition at every use; a bound variable of a singleton set is a value)
MInit(P0) ==
  \E P \in {P0} : \E S \in {InitState(P)} :
  /\ par = P /\ sp = S.sp /\ mem = S.mem /\ written = S.written /\ regs = S.regs
  /\ flags = S.flags /\ phase = S.phase
  /\ aux = [step |-> S.step, badreads |-> S.badreads, misal |-> S.misal, spBody |-> S.spBody,
            spExit |-> S.spExit, calls |-> S.calls]

\* (re)start the machine with parameters P, as an action
MLoad(P0) ==
  \E P \in {P0} : \E S \in {InitState(P)} :
  /\ par' = P /\ sp' = S.sp /\ mem' = S.mem /\ written' = S.written /\ regs' = S.regs
  /\ flags' = S.flags /\ phase' = S.phase
  /\ aux' = [step |-> S.step, badreads |-> S.badreads, misal |-> S.misal, spBody |-> S.spBody,
             spExit |-> S.spExit, calls |-> S.calls]

Apply(e) ==
  \E n \in {Eff(par, St, e)} :
  /\ sp' = n.sp /\ mem' = n.mem /\ written' = n.written /\ regs' = n.regs
  /\ flags' = n.flags /\ phase' = n.phase /\ par' = par
  /\ aux' = [step |-> n.step, badreads |-> n.badreads, misal |-> n.misal, spBody |-> n.spBody,
             spExit |-> n.spExit, calls |-> n.calls]

Push(r) == Apply(Ev("push", r, "", 0, "", <<>>))
Pop(r) == Apply(Ev("pop", r, "", 0, "", <<>>))
PushF == Apply(Ev("pushf", "", "", 0, "", <<>>))
PopF == Apply(Ev("popf", "", "", 0, "", <<>>))
AdjSp(d) == Apply(Ev("adjsp", "", "", d, "", <<>>))
AdjSpF(d) == Apply(Ev("adjspf", "", "", d, "", <<>>))
MovSpTo(r) == Apply(Ev("movspto", r, "", 0, "", <<>>))
MovToSp(r) == Apply(Ev("movtosp", r, "", 0, "", <<>>))
AndSp(m) == Apply(Ev("andsp", "", "", m, "", <<>>))
StpPre(r1, r2, d) == Apply(Ev("stppre", r1, r2, d, "", <<>>))
LdpPost(r1, r2, d) == Apply(Ev("ldppost", r1, r2, d, "", <<>>))
StrPre(r, d) == Apply(Ev("strpre", r, "", d, "", <<>>))
LdrPost(r, d) == Apply(Ev("ldrpost", r, "", d, "", <<>>))
Mrs(r) == Apply(Ev("mrs", r, "", 0, "", <<>>))
Msr(r) == Apply(Ev("msr", r, "", 0, "", <<>>))
Sw(r, o) == Apply(Ev("sw", r, "", o, "", <<>>))
Lw(r, o) == Apply(Ev("lw", r, "", o, "", <<>>))
StoreSlot(r, o) == Apply(Ev("storeslot", r, "", o, "", <<>>))
MovImm(r, v) == Apply(Ev("movimm", r, "", 0, "", v))
MovK(r, v, sh) == Apply(Ev("movk", r, "", sh, "", v))
LoadSym(r, s) == Apply(Ev("loadsym", r, "", 0, s, <<>>))
LoadMem(r, s) == Apply(Ev("loadmem", r, "", 0, s, <<>>))
Adrp(r, s) == Apply(Ev("adrp", r, "", 0, s, <<>>))
AddLo12(r, r2, s) == Apply(Ev("addlo12", r, r2, 0, s, <<>>))
PushImm(v) == Apply(Ev("pushimm", "", "", 0, "", v))
PushSym(s) == Apply(Ev("pushsym", "", "", 0, s, <<>>))
PushMem(s) == Apply(Ev("pushmem", "", "", 0, s, <<>>))
Call(t) == Apply(Ev("call", "", "", 0, t, <<>>))
BodyEntry == Apply(Ev("bodyentry", "", "", 0, "", <<>>))
Havoc == Apply(Ev("havoc", "", "", 0, "", <<>>))
BodyExit == Apply(Ev("bodyexit", "", "", 0, "", <<>>))
End == Apply(Ev("end", "", "", 0, "", <<>>))

\* the action that executes event e: dispatch to the named action
Exec(e) ==
  \/ e.op = "push" /\ Push(e.r)
  \/ e.op = "pop" /\ Pop(e.r)
  \/ e.op = "pushf" /\ PushF
  \/ e.op = "popf" /\ PopF
  \/ e.op = "adjsp" /\ AdjSp(e.d)
  \/ e.op = "adjspf" /\ AdjSpF(e.d)
  \/ e.op = "movspto" /\ MovSpTo(e.r)
  \/ e.op = "movtosp" /\ MovToSp(e.r)
  \/ e.op = "andsp" /\ AndSp(e.d)
  \/ e.op = "stppre" /\ StpPre(e.r, e.r2, e.d)
  \/ e.op = "ldppost" /\ LdpPost(e.r, e.r2, e.d)
  \/ e.op = "strpre" /\ StrPre(e.r, e.d)
  \/ e.op = "ldrpost" /\ LdrPost(e.r, e.d)
  \/ e.op = "mrs" /\ Mrs(e.r)
  \/ e.op = "msr" /\ Msr(e.r)
  \/ e.op = "sw" /\ Sw(e.r, e.d)
  \/ e.op = "lw" /\ Lw(e.r, e.d)
  \/ e.op = "storeslot" /\ StoreSlot(e.r, e.d)
  \/ e.op = "movimm" /\ MovImm(e.r, e.b)
  \/ e.op = "movk" /\ MovK(e.r, e.b, e.d)
  \/ e.op = "loadsym" /\ LoadSym(e.r, e.s)
  \/ e.op = "loadmem" /\ LoadMem(e.r, e.s)
  \/ e.op = "adrp" /\ Adrp(e.r, e.s)
  \/ e.op = "addlo12" /\ AddLo12(e.r, e.r2, e.s)
  \/ e.op = "pushimm" /\ PushImm(e.b)
  \/ e.op = "pushsym" /\ PushSym(e.s)
  \/ e.op = "pushmem" /\ PushMem(e.s)
  \/ e.op = "call" /\ Call(e.s)
  \/ e.op = "bodyentry" /\ BodyEntry
  \/ e.op = "havoc" /\ Havoc
  \/ e.op = "bodyexit" /\ BodyExit
  \/ e.op = "end" /\ End

MTypeOK ==
  /\ sp \in Int /\ phase \in {"pro", "body", "epi", "done"}
  /\ \A x \in DOMAIN mem : x \in Int
  /\ \A x \in written : x \in Int
  /\ \A r \in DOMAIN regs : regs[r].k \in {"init", "fresh", "garbage", "int", "addr",
                                          "page", "contents", "sp", "unknown"}
=============================================================================
