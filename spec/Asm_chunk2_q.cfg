SPECIFICATION Spec
CONSTANTS
  VocabName = "chunk2"
  MaxLen = 3
  MaxChunks = 3
  TUs = {FALSE}
  AUs = {TRUE, FALSE}
  ICFIs = {FALSE}
  MSs = {{"b"}}
  Emit = TRUE
INVARIANT Inv
CHECK_DEADLOCK FALSE
