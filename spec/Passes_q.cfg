SPECIFICATION Spec
CONSTANTS
  MaxMods = 2
  MaxPasses = 3
  MaxRegs = 1
  WithAbort = TRUE
INVARIANT TypeOK
INVARIANT CacheScoped
INVARIANT AppliedInOrder
INVARIANT AllBegunBeforeApply
INVARIANT UntouchedIfNothingRegistered
INVARIANT AtMostOneChange
PROPERTY RegOnlyInBegin
PROPERTY Frame
PROPERTY Terminates
CHECK_DEADLOCK FALSE
