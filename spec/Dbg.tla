---- MODULE Dbg ----
EXTENDS G1Cfi, Json, IOUtils, TLC, TLCExt
Traces == ndJsonDeserialize(IOEnv.TRACE_FILE)
VARIABLE x
t == Traces[1]
X == Ctx(t)
C == CfiK(X, FALSE)
S == C.S[".text"]
Init == x = 0 /\ PrintT(<<"known", S.known, "R0", S.R0.err, S.R0.ok, Len(S.R0.idx), Len(S.R0.st), "whole", DeletesWholeProc(X, ".text"), "grp", StopGroups(S.L0).groups>>)
Next == FALSE /\ x' = x
====
