---------------------------- MODULE TracePasses ----------------------------
(***************************************************************************)
(* Trace validation of PassManager.run.  Every line of TRACE_FILE is one   *)
(* observed run over an IR with several modules (harness/passes/runner.py):*)
(* the sequence of pass callbacks and apply() hooks, each with a digest of *)
(* every module's contents, plus one listing-group trace record per        *)
(* module.  The events of a run are consumed ONE PER STEP by the guard /   *)
(* effect operators of Passes.tla - the same operators that TLC model      *)
(* checks in Passes_q.cfg - together with the frame conditions on the      *)
(* digests; a run is accepted iff every event was consumed and the         *)
(* protocol reached `done` (or `aborted` when the run raised).  When a     *)
(* run is finished, each module's apply() is judged by the clauses of the  *)
(* listing group (G1Verdict) and the verdict is printed.                   *)
(***************************************************************************)
EXTENDS G1Verdict, Json, IOUtils, TLC, TLCExt

VARIABLES tid,    \* run being validated
          l,      \* next event of that run
          pst,    \* protocol state (Passes!st)
          dig,    \* digests seen last, per module
          rej     \* <<>> or <<rejection record>>
tvars == <<tid, l, pst, dig, rej>>

P == INSTANCE Passes WITH st <- pst, MaxMods <- 0, MaxPasses <- 0, MaxRegs <- 0, WithAbort <- TRUE

Runs == ndJsonDeserialize(IOEnv.TRACE_FILE)
NoRun == [id |-> "", np |-> 0, nm |-> 0, dig0 |-> <<>>, events |-> <<>>, mods |-> <<>>, nreg |-> <<>>, abort |-> ""]
Run == IF tid <= Len(Runs) THEN Runs[tid] ELSE NoRun
Start(r) == P!InitSt(r.nm, r.np)

\* frame conditions on the observed contents: a module's digest changes only
\* between its own apply_begin and the return of apply() (or the abort of the
\* run while it is being applied), and only if something was registered for it
FrameOk(s, e, d) ==
  \A i \in 1..s.nm :
     e.dig[i] # d[i] =>
        /\ s.phase = "applying" /\ i = s.m
        /\ e.ev \in {"apply_end", "run_abort"}
        /\ s.reg[i] > 0

Init == /\ tid = 1 /\ l = 1 /\ rej = <<>>
        /\ pst = Start(Run) /\ dig = Run.dig0

Consume ==
  /\ tid <= Len(Runs) /\ rej = <<>> /\ l <= Len(Run.events)
  /\ LET e == Run.events[l]
     IN  /\ P!Guard(pst, e) /\ FrameOk(pst, e, dig)
         /\ pst' = P!Effect(pst, e)
         /\ dig' = e.dig
  /\ l' = l + 1
  /\ UNCHANGED <<tid, rej>>

Reject ==
  /\ tid <= Len(Runs) /\ rej = <<>> /\ l <= Len(Run.events)
  /\ LET e == Run.events[l]
     IN  /\ ~(P!Guard(pst, e) /\ FrameOk(pst, e, dig))
         /\ rej' = <<[at |-> l, ev |-> e.ev, p |-> e.p, m |-> e.m,
                      why |-> IF ~P!Guard(pst, e) THEN "protocol" ELSE "frame",
                      phase |-> pst.phase, cur |-> pst.m, lastpass |-> pst.p]>>
  /\ UNCHANGED <<tid, l, pst, dig>>

RunVerdict ==
  LET r == Run
      ended == pst.phase \in {"done", "aborted"}
  IN  [id |-> r.id,
       accepted |-> rej = <<>> /\ ended,
       rej |-> rej,
       phase |-> pst.phase,
       consumed |-> l - 1, nevents |-> Len(r.events),
       \* the protocol's count of registrations equals what the passes registered
       regsOk |-> \A i \in 1..r.nm : pst.reg[i] = r.nreg[i],
       abortOk |-> (pst.phase = "aborted") = (r.abort # ""),
       applied |-> Cardinality(pst.applied),
       mods |-> [i \in 1..Len(r.mods) |-> Verdict(r.mods[i])]]

Finish ==
  /\ tid <= Len(Runs)
  /\ (rej # <<>> \/ l > Len(Run.events))
  /\ PrintT("VERDICT " \o ToJson(RunVerdict))
  /\ tid' = tid + 1
  /\ l' = 1 /\ rej' = <<>>
  /\ pst' = IF tid + 1 <= Len(Runs) THEN Start(Runs[tid + 1]) ELSE Start(NoRun)
  /\ dig' = IF tid + 1 <= Len(Runs) THEN Runs[tid + 1].dig0 ELSE <<>>
  /\ TLCSet(1, tid + 1)

Next == Consume \/ Reject \/ Finish
AllConsumed == TLCGet(1) = Len(Runs) + 1
=============================================================================
