SPECIFICATION Spec
CONSTANTS
  MaxBlocks = 3
  MaxReqs = 2
  Templates = {"call", "o23", "ret"}
  PatchKinds = {"callsym", "plain2"}
  FnLayouts = {"tail", "split"}
  EndSyms = {FALSE}
  NoSyms = {FALSE}
  AnnModes = {"none"}
  WithProxyDel = FALSE
  CfiLayouts = {"none"}
  Isa = "x64"
  WithScopes = FALSE
  Fmts = {"elf"}
  WholeOnly = FALSE
  Leads = {0}
  DropFnTables = {FALSE}
  ExtraData = {FALSE}
  Retargets = {FALSE}
  AlignOpts = {0}
  Aliases = {FALSE}
  SharedRet = {FALSE}
  InsFns = {"none"}
  Emit = TRUE
INVARIANT Inv
CHECK_DEADLOCK FALSE
