SPECIFICATION Spec
CONSTANTS
  MaxLen = 12
  Regs = {1, 2}
  Offs <- OffsDef
  Cols = {17}
  PtrArgs <- PtrArgsT
  Escapes = {"cfa", "val2", "wide"}
  Ops <- OpsNest
  AbiSet = {"x64-elf"}
  EmitAbi = "x64-elf"
  Emit = TRUE
  EmitMinLen = 12
  AllowErr = FALSE
INVARIANT Inv
CHECK_DEADLOCK FALSE
