------------------------------ MODULE G1Batch ------------------------------
(***************************************************************************)
(* C09: the rewrite caches are transparent.                                *)
(*  (a) one apply() of a batch gives the same module as applying the       *)
(*      requests one at a time, each in its own context (t.post2);         *)
(*  (b) at every linearization point (t.steps, recorded by the hook sink   *)
(*      after each insert/delete and before each patch is assembled) the   *)
(*      answers of the caches agree with the IR itself;                    *)
(*  (c) a component that reads the IR directly in mid-rewrite (the         *)
(*      assembler resolving the symbols a patch names) sees the referents  *)
(*      the cache would report.                                            *)
(***************************************************************************)
EXTENDS G1Whole

HasSteps(t) == "steps" \in DOMAIN t
HasSeq(t) == "post2" \in DOMAIN t

C09_OrderCoherent(t) == \A i \in DOMAIN t.steps : t.steps[i].ordc = t.steps[i].ordt
C09_FnCoherent(t) == \A i \in DOMAIN t.steps : t.steps[i].fnc = t.steps[i].fnt
C09_RetCoherent(t) == \A i \in DOMAIN t.steps : t.steps[i].retc = t.steps[i].rett /\ t.steps[i].cfg_is_cache
\* the cache never resolves a symbol to a block that left the module, and a
\* symbol that has a direct referent has the same one in the cache's view
C09_RefCoherent(t) ==
  \A i \in DOMAIN t.steps :
     LET s == t.steps[i]
     IN  /\ Len(s.refc) = Len(s.refd)
         /\ \A j \in DOMAIN s.refc :
              /\ s.refc[j][2] # 0 - 1
              /\ s.refd[j][2] # 0 => s.refd[j] = s.refc[j]
\* before a patch is assembled, every module symbol it names has, in the IR
\* itself, the referent the cache reports
C09_DirectView(t) ==
  \A i \in DOMAIN t.steps :
     t.steps[i].ev = "before_patch" =>
        \A j \in DOMAIN t.steps[i].refc :
           t.steps[i].refc[j][1] \in Range(t.steps[i].psyms) => t.steps[i].refc[j] \in Range(t.steps[i].refd)
DirectViewWitness(t) ==
  UNION {{t.steps[i].refc[j] : j \in {k \in DOMAIN t.steps[i].refc :
              /\ t.steps[i].ev = "before_patch"
              /\ t.steps[i].refc[k][1] \in Range(t.steps[i].psyms)
              /\ t.steps[i].refc[k] \notin Range(t.steps[i].refd)}} : i \in DOMAIN t.steps}

(***************************************************************************)
(* batch = sequential, on every Level-A observable                         *)
(***************************************************************************)
Seq2(X) == [X EXCEPT !.t = [X.t EXCEPT !.post = X.t.post2]]
SecBytes(st) == {<<st.secs[i].name, st.secs[i].bytes>> : i \in DOMAIN st.secs}
AllFacts(X) ==
  LET st == X.t.post
      secs == SecNames(st)
  IN  [bytes |-> SecBytes(st),
       syms |-> ObsOrigSymFacts(X), psyms |-> ObsPatchSymFacts(X), proxied |-> ObsProxied(X),
       sx |-> UNION {ObsSxFacts(st, nm) : nm \in secs},
       ann |-> UNION {ObsAnnFacts(st, nm) : nm \in secs},
       fn |-> UNION {ObsFnFacts(st, nm) : nm \in secs},
       ent |-> UNION {ObsEntryFacts(st, nm) : nm \in secs},
       cfg |-> ObsInsnCFG(st),
       fns |-> {st.fns[i].name : i \in DOMAIN st.fns}]
FactDiff(a, b) ==
  LET keys == {"bytes", "syms", "psyms", "proxied", "sx", "ann", "fn", "ent", "cfg", "fns"}
  IN  {<<k, a[k] \ b[k], b[k] \ a[k]>> : k \in {x \in keys : a[x] # b[x]}}
C09_SameOutcome(t) == (t.exc = "") = (t.exc2 = "")
\* The CFG is compared only where it has a defined meaning (the edited listing is
\* well formed: no instruction falls into data or off the end of its section).
C09_BatchEqSeq(X, K) ==
  LET a == AllFacts(X)
      b == AllFacts(Seq2(X))
  IN  /\ \A k \in {"bytes", "syms", "psyms", "proxied", "sx", "ann", "fn", "ent", "fns"} : a[k] = b[k]
      /\ K.dom => a.cfg = b.cfg
\* A batch/sequential difference is excused only if it is confined to CFG edges
\* and every differing edge is explained by an open CFG finding (the two runs
\* hit, or avoid, the same defect at different moments).
\* The one-at-a-time run re-uses the original anchors (inside a block by descending
\* offset, so that no re-anchoring is needed).  Two insertions at the SAME point are
\* then applied in reverse registration order; that reproduces the batch unless the
\* patch applied first starts with a label (the second insertion at "offset 0 / the
\* same offset" goes behind a start label).  Such batches are not comparable this way.
SeqComparable(t) ==
  \A i, j \in DOMAIN t.reqs :
     (i # j /\ t.reqs[i].op \in {"ins", "rep"} /\ t.reqs[j].op \in {"ins", "rep"}
      /\ t.reqs[i].u = t.reqs[j].u /\ t.reqs[i].off = t.reqs[j].off)
     => \A l \in Range(t.reqs[i].patch.labels) \cup Range(t.reqs[j].patch.labels) : l.o # 0
KfBatch(X, K) ==
  LET a == AllFacts(X)
      b == AllFacts(Seq2(X))
      keys == {"bytes", "syms", "psyms", "proxied", "sx", "ann", "fn", "ent", "fns"}
      elems == SDiff(a.cfg, b.cfg)
      cl(e) == IF e.ty = "Fallthrough" THEN "C03_Fallthrough" ELSE IF e.ty = "Return" THEN "C03_Returns" ELSE "none"
  IN  IF K.dom /\ elems # {} /\ (\A k \in keys : a[k] = b[k])
         /\ \A e \in elems : Explained(X, K, cl(e), e) # {}
      THEN UNION {Explained(X, K, cl(e), e) : e \in elems} ELSE {}

\* stronger reading (block boundaries too); reported as drift, not a verdict
BlockStructure(st) ==
  UNION {{<<st.secs[i].name, st.secs[i].blocks[j].p, st.secs[i].blocks[j].n, st.secs[i].blocks[j].k>> :
            j \in DOMAIN st.secs[i].blocks} : i \in DOMAIN st.secs}

=============================================================================
