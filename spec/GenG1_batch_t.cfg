SPECIFICATION Spec
CONSTANTS
  MaxBlocks = 2
  MaxReqs = 3
  Templates = {"o23", "ret", "call"}
  PatchKinds = {"plain2", "jmpsym", "callsym", "ref", "loop"}
  FnLayouts = {"none", "one"}
  EndSyms = {FALSE}
  NoSyms = {FALSE}
  AnnModes = {"none"}
  WithProxyDel = TRUE
  CfiLayouts = {"none"}
  Isa = "x64"
  WithScopes = FALSE
  Fmts = {"elf"}
  WholeOnly = FALSE
  Leads = {0, 2}
  DropFnTables = {FALSE}
  ExtraData = {FALSE}
  Retargets = {TRUE, FALSE}
  AlignOpts = {0}
  Aliases = {FALSE}
  SharedRet = {FALSE}
  InsFns = {"none"}
  Emit = TRUE
INVARIANT Inv
CHECK_DEADLOCK FALSE
