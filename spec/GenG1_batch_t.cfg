SPECIFICATION Spec
CONSTANTS
  MaxBlocks = 3
  MaxReqs = 3
  Templates = {"o23", "jmp", "ret", "call"}
  PatchKinds = {"plain2", "jmpsym", "callsym", "ref"}
  FnLayouts = {"none", "one"}
  EndSyms = {FALSE}
  AnnModes = {"none"}
  WithProxyDel = TRUE
  Emit = TRUE
INVARIANT Inv
CHECK_DEADLOCK FALSE
