SPECIFICATION Spec
CONSTANTS
  Abis = {"x64-elf"}
  MaxUses = 1
  Cat = "full"
  MapNames = {"AB", "AA", "AB_BC", "BC_AB", "AB_BA", "AB_XB", "AB_XC", "XC", "AB_AC", "AB_AB", "AF", "FB", "AN", "AB_FC"}
  WithPatch = TRUE
  Emit = TRUE
INVARIANT Inv
CHECK_DEADLOCK FALSE
