SPECIFICATION Spec
CONSTANTS
  Machine = "mc"
  N = 1
  Emit = TRUE
INVARIANTS TypeOK Refines EmitCase
VIEW View
CHECK_DEADLOCK FALSE
