------------------------------- MODULE Modify -------------------------------
(***************************************************************************)
(* Level-B (implementation-shaped) model of gtirb_rewriting._modify: the   *)
(* primitives split_block / join_blocks / remove_block and the glue        *)
(* insert() / delete() / _cleanup_modified_blocks, at the granularity of   *)
(* instructions ("units"), as PURE operators over an abstract IR           *)
(*                                                                         *)
(*   ir = [ order : Seq(BlockId)            blocks of the section in       *)
(*                                          address order (block_ordering) *)
(*          units : [BlockId -> Seq(Unit)]  the instructions / data bytes  *)
(*          kind  : [BlockId -> "code"|"data"]                              *)
(*          sym   : [Name -> [ref : Node, e : BOOLEAN]]   (referent,at_end)*)
(*          cfg   : SUBSET Edge                                            *)
(*          fn    : [BlockId -> Name | ""]  functionBlocks / cache         *)
(*          ent   : SUBSET BlockId          functionEntries                *)
(*          hasFn : BOOLEAN                 function tables present        *)
(*          next  : Nat, nextp : Nat ]      fresh block / proxy ids        *)
(*   Node = <<"b", id>> | <<"p", n>> | <<"none", 0>>                       *)
(*   Edge = [s : Node, t : Node, ty : STRING, c : BOOLEAN, d : BOOLEAN]    *)
(*                                                                         *)
(* Every operator mirrors one function of the code (named in the comment   *)
(* above it), defects included: the model is checked against the Level-A   *)
(* listing semantics by TLC (ModifyMC.tla) and against the real primitives *)
(* by replaying the hook events split_block / join_blocks / remove_block   *)
(* (TraceModify.tla).  Byte offsets, annotations and CFI are not modelled  *)
(* here; they are covered by the Level-A trace clauses.                    *)
(***************************************************************************)
EXTENDS Sequences, SequencesExt, Integers, FiniteSets, Functions, TLC

B(id) == <<"b", id>>
P(n) == <<"p", n>>
NoNode == <<"none", 0>>
IsB(n) == n[1] = "b"
IsP(n) == n[1] = "p"
E(s, t, ty, c, d) == [s |-> s, t |-> t, ty |-> ty, c |-> c, d |-> d]
FT(s, t) == E(s, t, "Fallthrough", FALSE, TRUE)
Ret(s, t) == E(s, t, "Return", FALSE, TRUE)

Size(ir, id) == Len(ir.units[id])
IsCode(ir, id) == ir.kind[id] = "code"
Out(ir, n) == {e \in ir.cfg : e.s = n}
In(ir, n) == {e \in ir.cfg : e.t = n}
IdxOf(ir, id) == CHOOSE i \in DOMAIN ir.order : ir.order[i] = id
InOrder(ir, id) == \E i \in DOMAIN ir.order : ir.order[i] = id
\* cache.adjacent_blocks
Prev(ir, id) == LET i == IdxOf(ir, id) IN IF i > 1 THEN B(ir.order[i - 1]) ELSE NoNode
NextB(ir, id) == LET i == IdxOf(ir, id) IN IF i < Len(ir.order) THEN B(ir.order[i + 1]) ELSE NoNode
\* references of a block (through the reference cache, which C20 shows transparent)
Refs(ir, n) == {s \in DOMAIN ir.sym : ir.sym[s].ref = n}
\* _block_fallthrough_targets
FTTargets(ir, id) == {e.t : e \in {x \in Out(ir, B(id)) : x.ty = "Fallthrough" /\ IsB(x.t)}}
FnBlocks(ir, f) == {id \in DOMAIN ir.fn : ir.fn[id] = f /\ f # ""}
ReturnEdges(ir, id) == {e \in Out(ir, B(id)) : e.ty = "Return"}

InsertAfter(order, id, new) ==
  LET i == CHOOSE k \in DOMAIN order : order[k] = id
  IN  SubSeq(order, 1, i) \o new \o SubSeq(order, i + 1, Len(order))
RemoveFromOrder(order, id) == SelectSeq(order, LAMBDA x : x # id)

\* ReferenceCache.retarget_references(block, to, at_end)
Retarget(ir, from, to, atEnd) ==
  [ir EXCEPT !.sym = [s \in DOMAIN ir.sym |->
      IF ir.sym[s].ref = from THEN [ir.sym[s] EXCEPT !.ref = to, !.e = atEnd] ELSE ir.sym[s]]]

\* update_edge(edge, cfg, source=..) / (target=..)
MoveSource(cfg, e, n) == (cfg \ {e}) \cup {[e EXCEPT !.s = n]}
MoveTarget(cfg, e, n) == (cfg \ {e}) \cup {[e EXCEPT !.t = n]}

(***************************************************************************)
(* edges.py                                                                *)
(***************************************************************************)
\* update_return_edges_from_changing_call_fallthrough(cache, call_edge, fallthrough_targets, new_fallthrough)
UpdReturnsForCall(ir, callEdge, oldTargets, newT) ==
  IF ~IsB(callEdge.t) THEN ir
  ELSE LET f == ir.fn[callEdge.t[2]]
       IN  IF f = "" THEN ir
           ELSE LET moved == {e \in ir.cfg : e.ty = "Return" /\ IsB(e.s) /\ e.s[2] \in FnBlocks(ir, f)
                                              /\ e.t \in oldTargets}
                IN  [ir EXCEPT !.cfg = (ir.cfg \ moved) \cup {[e EXCEPT !.t = newT] : e \in moved}]

\* update_fallthrough_target(cache, cfg, source, new_target)
UpdFallthroughTarget(ir, src, newT) ==
  LET old == FTTargets(ir, src)
      calls == {e \in Out(ir, B(src)) : e.ty = "Call"}
      \* the order of the set iteration does not matter: each call edge retargets
      \* the same return edges (those whose target is in `old`)
      ir1 == IF calls = {} THEN ir
             ELSE LET fs == {ir.fn[e.t[2]] : e \in {c \in calls : IsB(c.t)}} \ {""}
                      moved == {e \in ir.cfg : e.ty = "Return" /\ IsB(e.s) /\ ir.fn[e.s[2]] \in fs /\ e.t \in old}
                  IN  [ir EXCEPT !.cfg = (ir.cfg \ moved) \cup {[e EXCEPT !.t = B(newT)] : e \in moved}]
      noft == {e \in ir1.cfg : ~(e.s = B(src) /\ e.ty = "Fallthrough")}
  IN  [ir1 EXCEPT !.cfg = noft \cup {FT(B(src), B(newT))}]

\* add_return_edges_to_callee(cache, module, func_uuid, return_target, cfg=new_cfg):
\* returns the edges to add to new_cfg and removes the proxy return edges at once
AddReturnsToCallee(ir, f, retTarget) ==
  LET withRets == {id \in FnBlocks(ir, f) : ReturnEdges(ir, id) # {}}
      proxyRets == {e \in ir.cfg : e.ty = "Return" /\ IsB(e.s) /\ e.s[2] \in withRets /\ IsP(e.t)}
  IN  [ir |-> [ir EXCEPT !.cfg = ir.cfg \ proxyRets],
       add |-> {Ret(B(id), retTarget) : id \in withRets}]

\* remove_return_edges_from_callee(cache, call_edge, fallthrough_targets, cfg)
RemoveReturnsFromCallee(ir, callEdge, ftTargets) ==
  IF ~IsB(callEdge.t) THEN ir
  ELSE LET f == ir.fn[callEdge.t[2]]
       IN  IF f = "" THEN ir
           ELSE LET blocks == {id \in FnBlocks(ir, f) : ReturnEdges(ir, id) # {}}
                    drop == {e \in ir.cfg : e.ty = "Return" /\ IsB(e.s) /\ e.s[2] \in blocks /\ e.t \in ftTargets}
                    left(id) == ReturnEdges(ir, id) \ drop
                    needProxy == {id \in blocks : left(id) = {}}
                    \* one fresh proxy per block that lost all its return edges
                    ids == SetToSeq(needProxy)
                IN  [ir EXCEPT !.cfg = (ir.cfg \ drop) \cup {Ret(B(ids[k]), P(ir.nextp + k - 1)) : k \in DOMAIN ids},
                               !.nextp = ir.nextp + Len(ids)]

(***************************************************************************)
(* functions.py                                                            *)
(***************************************************************************)
AddFnBlock(ir, id, f) == [ir EXCEPT !.fn = (id :> f) @@ ir.fn]
RemoveFnBlock(ir, id) == [ir EXCEPT !.fn = (id :> "") @@ ir.fn, !.ent = ir.ent \ {id}]

(***************************************************************************)
(* split.py: split_block(cache, block, offset)  ->  [ir, new, addedFT]     *)
(***************************************************************************)
Split(ir, id, k) ==
  LET new == ir.next
      endSplit == k = Size(ir, id)
      ir0 == [ir EXCEPT !.next = ir.next + 1,
                        !.units = (new :> SubSeq(ir.units[id], k + 1, Size(ir, id)))
                                  @@ (id :> SubSeq(ir.units[id], 1, k)) @@ ir.units,
                        !.kind = (new :> ir.kind[id]) @@ ir.kind,
                        !.fn = (new :> "") @@ ir.fn,
                        \* at_end symbols follow the tail
                        !.sym = [s \in DOMAIN ir.sym |->
                                   IF ir.sym[s].ref = B(id) /\ ir.sym[s].e THEN [ir.sym[s] EXCEPT !.ref = B(new)]
                                   ELSE ir.sym[s]],
                        !.order = InsertAfter(ir.order, id, <<new>>)]
  IN  IF ~IsCode(ir, id) THEN [ir |-> ir0, new |-> new, ft |-> FALSE]
      ELSE
      LET outs == Out(ir0, B(id))
          fts == FTTargets(ir0, id)
          addFT == IF ~endSplit THEN TRUE ELSE fts # {}
          ir1 == IF ~endSplit
                 THEN [ir0 EXCEPT !.cfg = (ir0.cfg \ outs) \cup {[e EXCEPT !.s = B(new)] : e \in outs}]
                 ELSE LET calls == {e \in outs : e.ty = "Call"}
                          afterCalls == IF calls = {} THEN ir0
                                        ELSE LET fs == {ir0.fn[e.t[2]] : e \in {c \in calls : IsB(c.t)}} \ {""}
                                                 moved == {e \in ir0.cfg : e.ty = "Return" /\ IsB(e.s)
                                                                            /\ ir0.fn[e.s[2]] \in fs /\ e.t \in fts}
                                             IN  [ir0 EXCEPT !.cfg = (ir0.cfg \ moved) \cup {[e EXCEPT !.t = B(new)] : e \in moved}]
                          ftEdges == {e \in Out(afterCalls, B(id)) : e.ty = "Fallthrough"}
                      IN  [afterCalls EXCEPT !.cfg = (afterCalls.cfg \ ftEdges) \cup {[e EXCEPT !.s = B(new)] : e \in ftEdges}]
          ir2 == IF addFT THEN [ir1 EXCEPT !.cfg = ir1.cfg \cup {FT(B(id), B(new))}] ELSE ir1
          ir3 == IF ir.fn[id] # "" THEN AddFnBlock(ir2, new, ir.fn[id]) ELSE ir2
      IN  [ir |-> ir3, new |-> new, ft |-> addFT]

(***************************************************************************)
(* join.py                                                                 *)
(***************************************************************************)
\* cache.in_same_function: uuid1 == uuid2 is not None
InSameFunction(ir, a, b) == ir.fn[a] = ir.fn[b] /\ ir.fn[a] # ""
IsEntry(ir, id) == ir.fn[id] # "" /\ id \in ir.ent

\* are_joinable(cache, block1, block2) (alignment not modelled: always 1)
Joinable(ir, b1, b2) ==
  /\ ir.kind[b1] = ir.kind[b2]
  /\ NextB(ir, b1) = B(b2)
  /\ IF Size(ir, b1) = 0 THEN TRUE
     ELSE /\ ~\E s \in Refs(ir, B(b2)) : ~ir.sym[s].e
          /\ IF ~IsCode(ir, b1) THEN TRUE
             ELSE /\ ~((\E e \in Out(ir, B(b1)) : ~(e.ty = "Fallthrough" /\ e.t = B(b2))) /\ Size(ir, b2) # 0)
                  /\ ~\E e \in In(ir, B(b2)) : ~(e.ty = "Fallthrough" /\ e.s = B(b1))
                  /\ InSameFunction(ir, b1, b2)
                  /\ ~IsEntry(ir, b2)

\* join_blocks(cache, block1, block2), with the repaired symbol handling
\* (at_end symbols of block2 stay at the end when block1 is empty)
Join(ir, b1, b2) ==
  LET empty1 == Size(ir, b1) = 0
      ir0 == [ir EXCEPT !.sym = [s \in DOMAIN ir.sym |->
                 IF ir.sym[s].ref = B(b2)
                 THEN [ir.sym[s] EXCEPT !.ref = B(b1), !.e = IF empty1 THEN ir.sym[s].e ELSE TRUE]
                 ELSE ir.sym[s]]]
      ir1 == IF ~IsCode(ir, b2) THEN ir0
             ELSE LET c0 == {e \in ir0.cfg : ~(e.t = B(b2) /\ e.ty = "Fallthrough" /\ e.s = B(b1))}
                      ins == {e \in c0 : e.t = B(b2)}
                      c1 == IF empty1 THEN (c0 \ ins) \cup {[e EXCEPT !.t = B(b1)] : e \in ins}
                            ELSE c0 \ ins
                      outs == {e \in c1 : e.s = B(b2)}
                      c2 == (c1 \ outs) \cup {[e EXCEPT !.s = B(b1)] : e \in outs}
                  IN  RemoveFnBlock([ir0 EXCEPT !.cfg = c2], b2)
  IN  [ir1 EXCEPT !.units = (b1 :> ir.units[b1] \o ir.units[b2]) @@ (b2 :> <<>>) @@ ir1.units,
                  !.order = RemoveFromOrder(ir1.order, b2)]

(***************************************************************************)
(* remove.py: remove_block(cache, block, retarget_to_proxy) -> [ir, removed]*)
(***************************************************************************)
CanRemove(ir, id, toProxy) ==
  LET pv == Prev(ir, id)
      nx == NextB(ir, id)
      nxCode == IsB(nx) /\ IsCode(ir, nx[2])
  IN  /\ ~(Refs(ir, B(id)) # {} /\ pv = NoNode /\ nx = NoNode /\ ~toProxy)
      /\ ~(IsCode(ir, id) /\ (\E e \in In(ir, B(id)) : e.ty # "Fallthrough") /\ ~nxCode /\ ~toProxy)

RemoveBlk(ir, id, toProxy) ==
  LET pv == Prev(ir, id)
      nx == NextB(ir, id)
      can == CanRemove(ir, id, toProxy)
      proxy == P(ir.nextp)
      \* (the proxy of retarget_to_proxy is created up front)
      ir0 == IF toProxy THEN [ir EXCEPT !.nextp = ir.nextp + 1] ELSE ir
      ir1 == IF ~can THEN ir0
             ELSE LET symTarget == IF toProxy THEN proxy ELSE IF nx # NoNode THEN nx ELSE pv
                      a == IF Refs(ir0, B(id)) = {} THEN ir0
                           ELSE Retarget(ir0, B(id), symTarget, ~toProxy /\ nx = NoNode /\ symTarget = pv)
                      ins == In(a, B(id))
                      \* _retarget_incoming_edges: proxy / next CfgNode / a fresh proxy
                      b == IF ~IsCode(a, id) \/ ins = {} THEN a
                           ELSE IF toProxy THEN [a EXCEPT !.cfg = (a.cfg \ ins) \cup {[e EXCEPT !.t = proxy] : e \in ins}]
                           ELSE IF IsB(nx) /\ IsCode(a, nx[2])
                                THEN [a EXCEPT !.cfg = (a.cfg \ ins) \cup {[e EXCEPT !.t = nx] : e \in ins}]
                           ELSE [a EXCEPT !.cfg = (a.cfg \ ins) \cup {[e EXCEPT !.t = P(a.nextp)] : e \in ins},
                                          !.nextp = a.nextp + 1]
                      \* _update_functions_aux_data: promote the next block to entry
                      promote == /\ ~toProxy /\ IsCode(b, id) /\ b.fn[id] # "" /\ id \in b.ent
                                 /\ IsB(nx) /\ IsCode(b, nx[2]) /\ InSameFunction(b, id, nx[2])
                      c == IF IsCode(b, id) /\ b.fn[id] # ""
                           THEN RemoveFnBlock([b EXCEPT !.ent = IF promote THEN b.ent \cup {nx[2]} ELSE b.ent], id)
                           ELSE b
                  IN  c
      \* _remove_outgoing_edges (with the callee's return edges)
      ir2 == IF ~IsCode(ir1, id) THEN ir1
             ELSE LET fts == FTTargets(ir1, id)
                      outs == Out(ir1, B(id))
                      calls == SetToSeq({e \in outs : e.ty = "Call"})
                      afterCalls == FoldLeft(LAMBDA acc, ce : RemoveReturnsFromCallee(acc, ce, fts), ir1, calls)
                  IN  [afterCalls EXCEPT !.cfg = afterCalls.cfg \ {e \in afterCalls.cfg : e.s = B(id)}]
      ir3 == IF can
             THEN [ir2 EXCEPT !.order = RemoveFromOrder(ir2.order, id), !.units = (id :> <<>>) @@ ir2.units]
             ELSE LET z == [ir2 EXCEPT !.units = (id :> <<>>) @@ ir2.units]
                  IN  IF IsCode(z, id)
                      THEN [z EXCEPT !.cfg = z.cfg \cup {FT(B(id), P(z.nextp))}, !.nextp = z.nextp + 1]
                      ELSE z
  IN  [ir |-> ir3, removed |-> can]

(***************************************************************************)
(* edit.py: _cleanup_modified_blocks(cache, blocks) -> [ir, last]          *)
(***************************************************************************)
RECURSIVE CleanupLoop(_, _, _)
CleanupLoop(ir, blocks, i) ==
  \* i = index of `block` in the pairwise scan (pred = blocks[i-1])
  IF i > Len(blocks) THEN [ir |-> ir, blocks |-> blocks]
  ELSE LET pred == blocks[i - 1]
           blk == blocks[i]
       IN  IF Joinable(ir, pred, blk)
           THEN CleanupLoop(Join(ir, pred, blk), SubSeq(blocks, 1, i - 1) \o SubSeq(blocks, i + 1, Len(blocks)), 2)
           ELSE IF Size(ir, blk) = 0
           THEN LET r == RemoveBlk(ir, blk, FALSE)
                IN  IF r.removed
                    THEN CleanupLoop(r.ir, SubSeq(blocks, 1, i - 1) \o SubSeq(blocks, i + 1, Len(blocks)), 2)
                    ELSE CleanupLoop(r.ir, blocks, i + 1)
           ELSE CleanupLoop(ir, blocks, i + 1)

Cleanup(ir, blocks) ==
  LET r == CleanupLoop(ir, blocks, 2)
      first == r.blocks[1]
      r2 == IF Size(r.ir, first) = 0
            THEN LET q == RemoveBlk(r.ir, first, FALSE)
                 IN  IF q.removed THEN [ir |-> q.ir, blocks |-> Tail(r.blocks)] ELSE [ir |-> q.ir, blocks |-> r.blocks]
            ELSE r
  IN  [ir |-> r2.ir, last |-> IF r2.blocks = <<>> THEN 0 ELSE r2.blocks[Len(r2.blocks)],
       assertOk |-> r2.blocks # <<>> /\ \A j \in DOMAIN r2.blocks : Size(r2.ir, r2.blocks[j]) # 0]

(***************************************************************************)
(* edit.py: delete(cache, block, offset, length, retarget_to_proxy)        *)
(***************************************************************************)
Delete(ir, id, k, len, toProxy) ==
  IF len = 0 /\ Size(ir, id) # 0 THEN [ir |-> ir, last |-> id, assertOk |-> TRUE]
  ELSE IF len # Size(ir, id)
  THEN LET s1 == Split(ir, id, k)
           s2 == Split(s1.ir, s1.new, len)
           r == RemoveBlk(s2.ir, s1.new, FALSE)
       IN  Cleanup(r.ir, <<id, s2.new>>)
  ELSE LET pv == Prev(ir, id)
           nx == NextB(ir, id)
           r == RemoveBlk(ir, id, toProxy)
           ir1 == IF r.removed /\ pv # NoNode /\ nx # NoNode /\ Size(r.ir, pv[2]) = 0 /\ ~toProxy
                  THEN RemoveBlk(r.ir, pv[2], FALSE).ir ELSE r.ir
       IN  [ir |-> ir1, last |-> 0, assertOk |-> TRUE]

(***************************************************************************)
(* edit.py: insert(cache, block, offset, replacement_length, code)         *)
(* code = an assembled patch, already rebased onto fresh block ids:        *)
(*   [blocks : Seq(BlockId), units, kind, cfg, syms : [Name -> [ref, e]],  *)
(*    nproxies]   (patch proxies are P(ir.nextp) ... )                     *)
(***************************************************************************)
\* _add_return_edges_for_patch_calls (run after the splits, as repaired)
PatchCallReturns(ir, code) ==
  LET calls == SetToSeq({e \in code.cfg : e.ty = "Call" /\ IsB(e.t) /\ e.t[2] \in DOMAIN ir.fn})
      step(acc, ce) ==
        LET f == acc.ir.fn[ce.t[2]]
            fts == {e.t : e \in {x \in code.cfg : x.s = ce.s /\ x.ty = "Fallthrough"}}
        IN  IF f = "" \/ fts = {} THEN acc
            ELSE LET r == AddReturnsToCallee(acc.ir, f, CHOOSE t \in fts : TRUE)
                 IN  [ir |-> r.ir, add |-> acc.add \cup r.add]
  IN  FoldLeft(step, [ir |-> ir, add |-> {}], calls)

\* _update_patch_return_edges_to_match: patch returns go where the function's returns go
PatchReturnsToMatch(ir, id, code) ==
  LET pret == {e \in code.cfg : e.ty = "Return" /\ IsP(e.t)}
      f == ir.fn[id]
      targets == {e.t : e \in {x \in ir.cfg : x.ty = "Return" /\ IsB(x.s) /\ x.s[2] \in FnBlocks(ir, f) /\ ~IsP(x.t)}}
  IN  IF pret = {} \/ f = "" \/ targets = {} THEN code
      ELSE [code EXCEPT !.cfg = (code.cfg \ pret) \cup {Ret(e.s, t) : e \in pret, t \in targets}]

Insert(ir, id, k, replLen, code0) ==
  LET code1 == IF IsCode(ir, id) THEN PatchReturnsToMatch(ir, id, code0) ELSE code0
      s1 == Split(ir, id, k)
      afterRepl == IF replLen = 0 THEN [ir |-> s1.ir, endb |-> s1.new]
                   ELSE LET s2 == Split(s1.ir, s1.new, replLen)
                            r == RemoveBlk(s2.ir, s1.new, FALSE)
                        IN  [ir |-> r.ir, endb |-> s2.new]
      pc == PatchCallReturns(afterRepl.ir, code1)
      code == [code1 EXCEPT !.cfg = code1.cfg \cup pc.add]
      irA == pc.ir
      first == code.blocks[1]
      lastb == code.blocks[Len(code.blocks)]
      \* patch blocks become part of the module (needed by the edge helpers below)
      irB == [irA EXCEPT !.units = code.units @@ irA.units, !.kind = code.kind @@ irA.kind,
                         !.fn = [b \in Range(code.blocks) |-> ""] @@ irA.fn,
                         !.nextp = irA.nextp + code.nproxies]
      irC == IF s1.ft THEN UpdFallthroughTarget(irB, id, first) ELSE irB
      irD == IF IsCode(irC, afterRepl.endb) /\ code.kind[lastb] = "code"
             THEN UpdFallthroughTarget(irC, lastb, afterRepl.endb) ELSE irC
      irE == [irD EXCEPT !.order = InsertAfter(irD.order, id, code.blocks),
                         !.cfg = irD.cfg \cup code.cfg,
                         !.sym = code.syms @@ irD.sym]
      f == ir.fn[id]
      irF == IF IsCode(ir, id) /\ f # ""
             THEN [irE EXCEPT !.fn = [b \in {x \in Range(code.blocks) : code.kind[x] = "code"} |-> f] @@ irE.fn]
             ELSE irE
  IN  Cleanup(irF, <<id>> \o code.blocks \o <<afterRepl.endb>>)
=============================================================================
