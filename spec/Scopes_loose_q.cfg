SPECIFICATION Spec
CONSTANTS
  Isas = {"x64"}
  MaxBlocks = 3
  Templates = {"o23", "ret", "d3"}
  Layouts = {"head", "mid", "gap"}
  FnTables = {"present"}
  Names = {"fa", "fab"}
  BothOrders = FALSE
  EntModes = {"first"}
  EpChoices = {0}
  CfgModes = {"full"}
  AddrModes = {TRUE}
  TgtChoices = {0}
  ScopeKinds = {"allfuncs", "allblocks"}
  Positions = {"ENTRY", "EXIT"}
  FPositions = {"ENTRY", "EXIT"}
  FilterKinds = {"none", "lit", "prefix"}
  PatNames = {"fa"}
  MaxRegs = 1
  MaxPasses = 1
  Emit = TRUE
INVARIANT Inv
CHECK_DEADLOCK FALSE
