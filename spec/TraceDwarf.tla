---------------------------- MODULE TraceDwarf ----------------------------
(***************************************************************************)
(* Trace specification of C14: every line of TRACE_FILE is one case of     *)
(* Dwarf.tla together with what the real codec did with it                 *)
(* (harness/dwarf/runner.py).  The expected bytes, objects, lengths and    *)
(* refusals are computed here with the codec of Dwarf.tla; every step      *)
(* consumes one line and prints its verdict.                               *)
(*                                                                         *)
(* Trace fields.  Case: kind, fam, bo, ps, xs, raw, v, tail.  Observed,    *)
(* kind "enc", per item of xs (items[i]): cons/enc/dexc/gexc = exception   *)
(* type of construction / encode / decode / gtirb_encoding ("" = none),    *)
(* by = bytes of encode, dec = <<decoded item>>, n = returned length,      *)
(* pos = stream position after decoding by ++ tail, eq = Python equality   *)
(* of the decoded object, gdir/gops/guuid = the directive form, gser =     *)
(* exception type when GTIRB serializes that form; parsed/pexc = result of *)
(* parse_cfi_instructions on the concatenated bytes.  Kind "raw":          *)
(* rdec/rexc/rn/rpos.  Kind "const": cdec/cexc (make_const_op), cby/cenc   *)
(* (its encoding), ctor/ctorexc (OpConst(v)).                              *)
(***************************************************************************)
EXTENDS Dwarf, IOUtils, TLCExt

\* The session of Dwarf.tla stays idle; tid counts the consumed traces.
VARIABLE tid

Traces == ndJsonDeserialize(IOEnv.TRACE_FILE)
NullUuid == "00000000-0000-0000-0000-000000000000"
Refusal == "ValueError"        \* DESIGN appendix B: the legitimate refusal

\* judgement of item i of an "enc" trace
ItemJ(t, i) ==
  LET x == t.xs[i]
      o == t.items[i]
      inr == InRange(t.fam, x, t.ps)
      exp == IF inr THEN Enc(t.fam, x, t.bo, t.ps) ELSE <<>>
      built == o.cons = ""
      encoded == built /\ o.enc = ""
      decoded == encoded /\ o.dexc = ""
      gform == t.fam = "inst" /\ built /\ o.gexc = ""
      db == IF gform THEN DirBytes(o.gdir, o.gops) ELSE [ok |-> FALSE, by |-> <<>>]
      gbytes == db.ok /\ db.by = exp /\ o.guuid = NullUuid
  IN  [inr |-> inr, exp |-> exp, built |-> built, encoded |-> encoded,
       decoded |-> decoded, gform |-> gform,
       completes |-> decoded /\ (t.fam = "inst" => o.gexc = ""),
       bytes |-> o.by = exp,
       round |-> o.dec = <<x>> /\ o.eq,
       exact |-> o.n = Len(o.by) /\ o.pos = Len(o.by),
       rejects |-> \/ o.cons = Refusal
                   \/ /\ built /\ o.enc = Refusal /\ o.by = <<>>
                      /\ (t.fam = "inst" => o.gexc = Refusal),
       gok |-> gbytes /\ o.gser = "",
       \* KF-C14-1: the form is right, but an operand of a directive other
       \* than .cfi_escape exceeds GTIRB's int64 operand type
       kf1 |-> /\ gbytes /\ o.gser # "" /\ o.gdir # ".cfi_escape"
               /\ \E k \in DOMAIN o.gops : Len(o.gops[k].m) >= 64
               /\ \A k \in DOMAIN o.gops : o.gops[k].s = 0]

Ctx(t) ==
  LET isenc == t.kind = "enc" /\ t.xs # <<>> /\ \A i \in DOMAIN t.xs : Wf(t.fam, t.xs[i])
      J == IF isenc THEN [i \in DOMAIN t.xs |-> ItemJ(t, i)] ELSE <<>>
      israw == t.kind = "raw" /\ t.raw # <<>>
      isconst == t.kind = "const" /\ IsValue(t.v)
      crange == isconst /\ ConstRange(t.v)
      cgot == crange /\ t.cexc = "" /\ Len(t.cdec) = 1 /\ WfOp(t.cdec[1])
  IN  [t |-> t, isenc |-> isenc, J |-> J, I |-> DOMAIN J,
       inr |-> {i \in DOMAIN J : J[i].inr},
       outr |-> {i \in DOMAIN J : ~J[i].inr},
       israw |-> israw,
       D |-> IF israw THEN DecAt(t.fam, t.raw, 1, t.bo, t.ps) ELSE Res("none"),
       isconst |-> isconst, crange |-> crange, cgot |-> cgot,
       cin |-> cgot /\ InRangeOp(t.cdec[1], t.ps)]

\* sets of item indexes on which a clause is judged
EncIn(X) == {i \in X.inr : X.J[i].encoded}
DecIn(X) == {i \in X.inr : X.J[i].decoded}
FormIn(X) == {i \in X.inr : X.J[i].gform}
AllIn(X) == X.isenc /\ X.t.fam = "inst" /\ X.outr = {} /\ EncIn(X) = X.I
RawOK(X) == X.israw /\ X.D.st = "ok" /\ X.D.lib
RawInvalid(X) == X.israw /\ X.D.st = "invalid"

Bad(X, name) ==
  CASE name = "C14_Completes" -> {i \in X.inr : ~X.J[i].completes}
    [] name = "C14_Bytes" -> {i \in EncIn(X) : ~X.J[i].bytes}
    [] name = "C14_RoundTrip" -> {i \in DecIn(X) : ~X.J[i].round}
    [] name = "C14_ConsumesExactly" -> {i \in DecIn(X) : ~X.J[i].exact}
    [] name = "C14_RejectsOutOfRange" -> {i \in X.outr : ~X.J[i].rejects}
    [] name = "C14_GtirbForm" -> {i \in FormIn(X) : ~X.J[i].gok}
    [] OTHER -> {}

\* <<name, in-domain, holds>>
Clauses(X) ==
  LET t == X.t
      dCompletes == X.inr # {} \/ RawOK(X) \/ X.crange
      dBytes == EncIn(X) # {} \/ (X.cin /\ t.cenc = "")
      dReject == X.outr # {} \/ (X.isconst /\ ~X.crange)
      dParse == AllIn(X) /\ t.pexc = ""
      dFirst == RawOK(X) \/ RawInvalid(X)
  IN << <<"C14_Completes", dCompletes,
          IF ~dCompletes THEN TRUE ELSE
          /\ Bad(X, "C14_Completes") = {}
          /\ AllIn(X) => t.pexc = ""
          /\ RawOK(X) => t.rexc = ""
          /\ X.crange => t.cexc = "" /\ t.cenc = "" /\ t.ctorexc = "">>,
        <<"C14_Bytes", dBytes,
          IF ~dBytes THEN TRUE ELSE
          /\ Bad(X, "C14_Bytes") = {}
          /\ (X.cin /\ t.cenc = "") => t.cby = EncOp(t.cdec[1], t.bo, t.ps)>>,
        <<"C14_RoundTrip", DecIn(X) # {}, Bad(X, "C14_RoundTrip") = {}>>,
        <<"C14_ConsumesExactly", DecIn(X) # {}, Bad(X, "C14_ConsumesExactly") = {}>>,
        <<"C14_RejectsOutOfRange", dReject,
          IF ~dReject THEN TRUE ELSE
          /\ Bad(X, "C14_RejectsOutOfRange") = {}
          /\ (X.isconst /\ ~X.crange) => t.cexc = Refusal /\ t.ctorexc = Refusal>>,
        <<"C14_ParseInvertsConcat", dParse,
          IF ~dParse THEN TRUE ELSE t.parsed = t.xs>>,
        <<"C14_GtirbForm", FormIn(X) # {}, Bad(X, "C14_GtirbForm") = {}>>,
        <<"C14_FirstByte", dFirst,
          IF ~dFirst THEN TRUE
          ELSE IF RawOK(X)
          THEN t.rexc = "" => (t.rdec = <<X.D.x>> /\ t.rn = X.D.n /\ t.rpos = X.D.n)
          ELSE t.rexc = Refusal>>,
        <<"C14_ConstMinimal", X.cgot,
          IF ~X.cgot THEN TRUE ELSE
          /\ t.cdec[1].c \in ConstClasses
          /\ Pushed(t.cdec[1]) = t.v
          /\ CanPush(t.cdec[1].c, t.v)
          /\ t.cenc = "" => Len(t.cby) = MinConstLen(t.v)
          /\ t.ctorexc = "" => t.ctor = t.cdec>> >>

FirstBad(X, name) ==
  LET b == Bad(X, name) IN IF b = {} THEN 0 ELSE MinOf(b)

Diff(name, X) ==
  LET t == X.t
      i == FirstBad(X, name)
  IN  IF i > 0
      THEN [item |-> i, x |-> t.xs[i], expected_bytes |-> X.J[i].exp, observed |-> t.items[i]]
      ELSE CASE name = "C14_ParseInvertsConcat" -> [expected |-> t.xs, parsed |-> t.parsed]
             [] name = "C14_FirstByte" ->
                  [raw |-> t.raw, spec |-> X.D, rexc |-> t.rexc, rdec |-> t.rdec,
                   rn |-> t.rn, rpos |-> t.rpos]
             [] name \in {"C14_ConstMinimal", "C14_Bytes", "C14_RejectsOutOfRange"} ->
                  [v |-> t.v, cdec |-> t.cdec, cby |-> t.cby, cexc |-> t.cexc,
                   ctor |-> t.ctor, ctorexc |-> t.ctorexc,
                   minlen |-> IF X.crange THEN MinConstLen(t.v) ELSE 0]
             [] OTHER -> [pexc |-> t.pexc, rexc |-> t.rexc, cexc |-> t.cexc,
                          cenc |-> t.cenc, ctorexc |-> t.ctorexc]

\* a failed clause is excused only when every failing item carries the
\* narrow signature of an open finding (ids: /verif/known_findings.json)
KfTags(X, name) ==
  IF /\ name = "C14_GtirbForm"
     /\ \A i \in Bad(X, name) : X.J[i].kf1
  THEN {"KF-C14-1"} ELSE {}

ExcOf(t) ==
  LET es == SelectSeq([i \in DOMAIN t.items |->
                         IF t.items[i].cons # "" THEN t.items[i].cons
                         ELSE IF t.items[i].enc # "" THEN t.items[i].enc
                         ELSE t.items[i].dexc] \o <<t.pexc, t.rexc, t.cexc>>,
                      LAMBDA e : e # "")
  IN  IF es = <<>> THEN "" ELSE es[1]

Verdict(t) ==
  LET X == Ctx(t)
      cs == Clauses(X)
      bad == SelectSeq(cs, LAMBDA c : c[2] /\ ~c[3])
      indom == SelectSeq(cs, LAMBDA c : c[2])
  IN  [id |-> t.id,
       indomain |-> [i \in 1..Len(indom) |-> indom[i][1]],
       failed |-> [i \in 1..Len(bad) |-> [clause |-> bad[i][1], diff |-> Diff(bad[i][1], X),
                                           kf |-> KfTags(X, bad[i][1])]],
       exc |-> ExcOf(t)]

TInit == Init /\ tid = 1
TNext == /\ tid <= Len(Traces)
         /\ UNCHANGED vars
         /\ PrintT("VERDICT " \o ToJson(Verdict(Traces[tid])))
         /\ tid' = tid + 1
AllConsumed == TLCGet("stats").diameter - 1 = Len(Traces)
=============================================================================
