SPECIFICATION Spec
CONSTANTS
  MaxBlocks = 2
  MaxReqs = 1
  Templates = {"o23", "ret", "jmp"}
  PatchKinds = {"plain2", "loop", "ret"}
  FnLayouts = {"none", "one"}
  EndSyms = {TRUE, FALSE}
  AnnModes = {"none"}
  WithProxyDel = TRUE
  CfiLayouts = {"none"}
  Isa = "x64"
  Emit = FALSE
INVARIANT InvB
CHECK_DEADLOCK FALSE
