SPECIFICATION Spec
CONSTANTS
  MaxBlocks = 2
  MaxReqs = 2
  Templates = {"o23", "jmp", "call", "ret", "ref"}
  PatchKinds = {"plain2", "loop", "ret", "callsym", "ref"}
  FnLayouts = {"one", "split"}
  EndSyms = {FALSE}
  NoSyms = {FALSE}
  AnnModes = {"none"}
  WithProxyDel = TRUE
  CfiLayouts = {"none"}
  Isa = "ia32"
  WithScopes = FALSE
  Fmts = {"pe"}
  WholeOnly = FALSE
  Leads = {0}
  DropFnTables = {FALSE}
  ExtraData = {FALSE}
  Retargets = {FALSE}
  AlignOpts = {0}
  Aliases = {FALSE}
  SharedRet = {FALSE}
  InsFns = {"none"}
  Emit = TRUE
INVARIANT Inv
CHECK_DEADLOCK FALSE
