------------------------------- MODULE G1Cfi -------------------------------
(***************************************************************************)
(* C08 (and the CFI part of C04): rewriting preserves call-frame           *)
(* information.  The unwind state in effect at every instruction is        *)
(* computed by the specification's own evaluator (CfiEvalOps, shared with  *)
(* C15) over the directive stream of a listing - the edited listing for    *)
(* the expectation, the flattened post-state for the observation - so a    *)
(* defect of the library's evaluate_cfi_directives cannot mask a C08       *)
(* violation.                                                              *)
(***************************************************************************)
EXTENDS G1Batch
CE == INSTANCE CfiEvalOps

KnownCfiOps == {"startproc", "endproc", "def_cfa", "def_cfa_register", "def_cfa_offset",
                "adjust_cfa_offset", "offset", "rel_offset", "val_offset", "register",
                "undefined", "same_value", "restore", "remember_state", "restore_state",
                "personality", "lsda", "return_column"}
DirRec(d) == CE!DirOfArgs(d.op, d.args, d.sym)
NoDev == [dropEnd |-> FALSE, dropInit |-> FALSE, lateEnd |-> FALSE]
\* after CfiExpected the chosen directive list of every cfi item is in field v
CfiItemsOf(L) == SelectSeq(L, LAMBDA it : it.t = "cfi")
AllDirs(L) == FlattenSeq([i \in 1..Len(CfiItemsOf(L)) |-> CfiItemsOf(L)[i].v])
DirsKnown(L) == \A i \in DOMAIN AllDirs(L) : AllDirs(L)[i].op \in KnownCfiOps /\ ~AllDirs(L)[i].big

\* Stops = the places where a state is observed: every instruction and every
\* insertion point.  One evaluator group per stop, holding the directives
\* that precede it since the previous stop.
IsStop(it) == it.t = "pt" \/ (it.t = "unit" /\ it.bk = "code")
StopGroups(L) ==
  LET stops == SelectSeq([i \in 1..Len(L) |-> i], LAMBDA i : IsStop(L[i]))
      prev(k) == IF k = 1 THEN 0 ELSE stops[k - 1]
      dirs(k) == FlattenSeq([j \in 1..(stops[k] - prev(k) - 1) |->
                    IF L[prev(k) + j].t = "cfi"
                    THEN [q \in 1..Len(L[prev(k) + j].v) |-> DirRec(L[prev(k) + j].v[q])] ELSE <<>>])
      tailFrom == IF stops = <<>> THEN 0 ELSE stops[Len(stops)]
      tail == FlattenSeq([j \in 1..(Len(L) - tailFrom) |->
                    IF L[tailFrom + j].t = "cfi"
                    THEN [q \in 1..Len(L[tailFrom + j].v) |-> DirRec(L[tailFrom + j].v[q])] ELSE <<>>])
  IN  [idx |-> stops,
       groups |-> [k \in 1..Len(stops) |-> [blk |-> k, off |-> 0, dirs |-> dirs(k)]]
                  \o <<[blk |-> Len(stops) + 1, off |-> 0, dirs |-> tail]>>]

\* The compared state: everything but the initial row (directives inserted at a
\* procedure's first boundary join the initial row by the evaluator's grouping
\* convention; that only matters through a later .cfi_restore, which shows in cur)
View(st) == IF ~st.proc THEN st
            ELSE [proc |-> TRUE, retcol |-> st.retcol, pers |-> st.pers, lsda |-> st.lsda,
                  cur |-> st.cur, stack |-> st.stack]
\* run the evaluator over a listing: [err, st] with st[i] = canonical state at item index i
RunListing(L, abi) ==
  LET G == StopGroups(L)
      R == CE!CfiRunGroups(G.groups, abi, CE!Normative)
      n == Len(G.idx)
  IN  [err |-> R.err, ok |-> R.err = "" /\ Len(R.ys) = n + 1,
       idx |-> G.idx,
       st |-> [k \in 1..(IF Len(R.ys) < n THEN Len(R.ys) ELSE n) |-> View(CE!Canon(R.ys[k].st))],
       endst |-> IF Len(R.ys) = n + 1 THEN CE!Canon(R.ys[n + 1].st) ELSE CE!None]

AbiName(t) ==
  IF t.isa = "x64" THEN (IF t.fmt = "elf" THEN "x64-elf" ELSE "x64-pe")
  ELSE IF t.isa = "arm64" THEN "arm64-elf" ELSE IF t.isa = "mips32" THEN "mips32-elf" ELSE "ia32-pe"

\* state at the stop that is item i of listing L (given its run R)
StateAtItem(R, i) ==
  LET c == {k \in DOMAIN R.idx : R.idx[k] = i}
  IN  IF c = {} THEN CE!None
      ELSE LET k == CHOOSE x \in c : TRUE IN IF k \in DOMAIN R.st THEN R.st[k] ELSE CE!None

(***************************************************************************)
(* Expected listing for CFI: patch directives are kept iff the insertion   *)
(* point lies inside a procedure of the original listing (D10: startproc   *)
(* at or before it, endproc at or after it - "including at its very end"). *)
(***************************************************************************)
PtIndex(L, u, o) ==
  LET c == {i \in DOMAIN L : L[i].t = "pt" /\ L[i].u = u /\ L[i].o = o}
  IN  IF c = {} THEN 0 ELSE CHOOSE i \in c : TRUE
InProcAt(L0, R0, u, o) ==
  LET i == PtIndex(L0, u, o) IN IF i = 0 THEN FALSE ELSE StateAtItem(R0, i).proc

\* dropEnd = TRUE reproduces the deviation of finding KF-C08-1 (patch CFI is
\* dropped when the insertion point is the very end of the procedure)
AtProcEnd(L0, u, o) ==
  \E i \in DOMAIN L0 : L0[i].t = "cfi" /\ L0[i].u = u /\ L0[i].o = o /\ L0[i].k = "R"
                       /\ L0[i].v # <<>> /\ L0[i].v[1].op = "endproc"
\* lateEnd = TRUE reproduces the deviation of finding KF-C08-3: when the end of the
\* block that carries a procedure's .cfi_endproc is modified, the directive is re-homed
\* to offset 0 of the following code block, and a patch inserted at offset 0 of THAT
\* block in the same batch lands in front of it (inside the procedure).
MovesLate(X, it) ==
  /\ it.t = "cfi" /\ it.k = "R" /\ it.src # "patch"
  /\ LET b == BlockByU(X.t.pre, it.u)
         nb == NextBlockU(X.t.pre, it.u)
     IN  /\ it.o = b.n /\ b.n > 0
         /\ TouchesEnd(X.t.pre, X.t.reqs, it.u)
         /\ nb # 0 /\ BlockByU(X.t.pre, nb).k = "code"
         /\ \E r \in Range(X.t.reqs) : r.u = nb /\ r.off = 0 /\ r.op \in {"ins", "rep"}
RECURSIVE MoveLate(_, _, _)
MoveLate(X, L, cands) ==
  IF cands = {} THEN L
  ELSE LET i == CHOOSE x \in cands : \A y \in cands : y <= x       \* last candidate first
           nb == NextBlockU(X.t.pre, L[i].u)
           js == {j \in (i + 1)..Len(L) : L[j].t = "pt" /\ L[j].u = nb /\ L[j].o = 0}
       IN  IF js = {} THEN MoveLate(X, L, cands \ {i})
           ELSE LET j == CHOOSE x \in js : TRUE
                    \* the directives that sat at offset 0 of the following block (its own
                    \* .cfi_startproc ...) now come behind the re-homed .cfi_endproc, i.e. behind
                    \* the patch as well
                    as == {a \in (i + 1)..(j - 1) : L[a].t = "cfi" /\ L[a].k = "L" /\ L[a].u = nb /\ L[a].o = 0
                                                    /\ L[a].src # "patch"}
                    between == SubSeq([q \in 1..Len(L) |-> q], i + 1, j - 1)
                    rest == SelectSeq(between, LAMBDA q : q \notin as)
                    moved == SelectSeq(between, LAMBDA q : q \in as)
                    \* When the following block is replaced / deleted as a whole, its offset-0
                    \* group (now headed by the re-homed .cfi_endproc) goes into the removed middle
                    \* block, whose "balanced procedure" rule then drops the block's own procedure:
                    \* its .cfi_startproc group and its closing .cfi_endproc disappear.
                    nbn == BlockByU(X.t.pre, nb).n
                    opens == \E a \in as : \E q \in DOMAIN L[a].v : L[a].v[q].op = "startproc"
                    ends == {e \in j..Len(L) : L[e].t = "cfi" /\ L[e].k = "R" /\ L[e].u = nb /\ L[e].o = nbn
                                               /\ L[e].src # "patch" /\ L[e].v # <<>> /\ L[e].v[1].op = "endproc"}
                    swallow == AllUnitsCoveredBy(X.t.pre, X.t.reqs, nb) /\ opens /\ ends # {}
                    tailPart == IF ~swallow THEN SubSeq(L, j, Len(L))
                                ELSE LET e == CHOOSE x \in ends : TRUE
                                         cut == [L[e] EXCEPT !.v = Tail(L[e].v), !.v2 = Tail(L[e].v)]
                                     IN  SubSeq(L, j, e - 1) \o (IF cut.v = <<>> THEN <<>> ELSE <<cut>>) \o SubSeq(L, e + 1, Len(L))
                IN  MoveLate(X, SubSeq(L, 1, i - 1) \o [q \in 1..Len(rest) |-> L[rest[q]]] \o <<L[i]>>
                                \o (IF swallow THEN <<>> ELSE [q \in 1..Len(moved) |-> L[moved[q]]]) \o tailPart,
                             cands \ {i})
CfiExpected0(E, L0, R0, dev) ==
  LET kept == SelectSeq(E, LAMBDA it :
                 ~(it.t = "cfi" /\ it.src = "patch" /\
                     (~InProcAt(L0, R0, it.au, it.ao) \/ (dev.dropEnd /\ AtProcEnd(L0, it.au, it.ao)))))
      pick == [i \in 1..Len(kept) |->
                 IF kept[i].t = "cfi" /\ dev.dropInit THEN [kept[i] EXCEPT !.v = kept[i].v2] ELSE kept[i]]
  IN  SelectSeq(pick, LAMBDA it : ~(it.t = "cfi" /\ it.v = <<>>))
CfiExpected(X, E, L0, R0, dev) ==
  LET L == CfiExpected0(E, L0, R0, dev)
  IN  IF dev.lateEnd THEN MoveLate(X, L, {i \in DOMAIN L : MovesLate(X, L[i])}) ELSE L

\* the directive stream with byte positions: <<pos, directive>>
Stream(L) ==
  LET P == PosSeq(L)
      items == SelectSeq([i \in 1..Len(L) |-> i], LAMBDA i : L[i].t = "cfi")
  IN  FlattenSeq([k \in 1..Len(items) |->
         [q \in 1..Len(L[items[k]].v) |-> <<P[items[k]], L[items[k]].v[q].op, L[items[k]].v[q].args, L[items[k]].v[q].sym>>]])

\* per-instruction states of a listing: sequence of <<pos, state>> over its code units
InsnStates(L, R) ==
  LET P == PosSeq(L)
      us == SelectSeq([i \in 1..Len(L) |-> i], LAMBDA i : L[i].t = "unit" /\ L[i].bk = "code")
  IN  [k \in 1..Len(us) |-> <<P[us[k]], StateAtItem(R, us[k])>>]

\* everything C08 needs about one section, computed once
CfiSec(X, nm, dev) ==
  LET abi == CE!AbiOf(AbiName(X.t))
      L0 == Flat(SecByName(X.t.pre, nm))
      R0 == RunListing(L0, abi)
      Ex == CfiExpected(X, X.E[nm], L0, R0, dev)
      Re == RunListing(Ex, abi)
      Lp == Flat(SecByName(X.t.post, nm))
      Rp == RunListing(Lp, abi)
  IN  [L0 |-> L0, R0 |-> R0, Ex |-> Ex, Re |-> Re, Lp |-> Lp, Rp |-> Rp,
       known |-> DirsKnown(L0) /\ DirsKnown(Ex) /\ DirsKnown(Lp)]

HasCfi(st) == \E b \in Range(AllBlocks(st)) : b.cfi # <<>>
PatchCfi(t) == \E i \in DOMAIN t.reqs : t.reqs[i].patch.cfi # <<>>
NoDeletions(t) == \A i \in DOMAIN t.reqs : t.reqs[i].len = 0
\* the property speaks of patches that carry no or BALANCED CFI: the state right
\* behind the patch equals the state at the insertion point before the rewrite
PatchesBalanced(X, C) ==
  \A i \in DOMAIN X.t.reqs :
     X.t.reqs[i].patch.cfi # <<>> =>
        \E nm \in DOMAIN C.S :
           LET i0 == PtIndex(C.S[nm].L0, X.t.reqs[i].u, X.t.reqs[i].off)
               ie == PtIndex(C.S[nm].Ex, X.t.reqs[i].u, X.t.reqs[i].off)
           IN  i0 # 0 /\ ie # 0 /\ StateAtItem(C.S[nm].R0, i0) = StateAtItem(C.S[nm].Re, ie)
\* a deleted range that holds a whole procedure (startproc ... endproc) takes
\* the procedure with it; the structural clauses do not cover that case
DeletesWholeProc(X, nm) ==
  LET L0 == Flat(SecByName(X.t.pre, nm))
      inside == SelectSeq(L0, LAMBDA it : it.t = "cfi" /\ CfiInside(X.t.pre, X.t.reqs, it))
      ops == FlattenSeq([i \in 1..Len(inside) |-> [q \in 1..Len(inside[i].v) |-> inside[i].v[q].op]])
  IN  \E i, j \in DOMAIN ops : i < j /\ ops[i] = "startproc" /\ ops[j] = "endproc"

CfiK(X, dev) ==
  LET secs == SecNames(X.t.pre)
      S == [nm \in secs |-> CfiSec(X, nm, dev)]
  IN  [S |-> S,
       postOk |-> \A nm \in secs : (nm \in SecNames(X.t.post)) => S[nm].Rp.ok,
       relevant |-> HasCfi(X.t.pre) \/ PatchCfi(X.t),
       dom |-> /\ \A nm \in secs : S[nm].known /\ S[nm].R0.ok /\ ~DeletesWholeProc(X, nm)
               /\ SecNames(X.t.post) = secs]

Structural(s) == SelectSeq(s, LAMBDA e : e[2] \in {"startproc", "endproc", "remember_state", "restore_state"})
OpsOnly(s) == [i \in 1..Len(s) |-> s[i][2]]

C08_StillEvaluates(C) == \A nm \in DOMAIN C.S : C.S[nm].Rp.ok
\* procedures (and remember/restore) are still opened and closed once and in order
C08_Structure(C) ==
  \A nm \in DOMAIN C.S : OpsOnly(Structural(Stream(C.S[nm].Lp))) = OpsOnly(Structural(Stream(C.S[nm].Ex)))
\* the unwind state at every instruction of the output is the one the edited listing defines
C08_States(C) ==
  \A nm \in DOMAIN C.S : InsnStates(C.S[nm].Lp, C.S[nm].Rp) = InsnStates(C.S[nm].Ex, C.S[nm].Re)
\* CFI directives stay on the boundary they annotated (C04)
C04_Cfi(C) == \A nm \in DOMAIN C.S : Stream(C.S[nm].Lp) = Stream(C.S[nm].Ex)

\* property-literal clauses that do not depend on the deletion rules of Edit:
\* every surviving ORIGINAL instruction is in a procedure iff it was before, and
\* with no deletions its state is identical to before
OrigStates(L, R, full) ==
  LET us == SelectSeq([i \in 1..Len(L) |-> i], LAMBDA i : L[i].t = "unit" /\ L[i].bk = "code" /\ L[i].src = "orig")
  IN  {<<L[us[k]].u, L[us[k]].o, IF full THEN StateAtItem(R, us[k]) ELSE [proc |-> StateAtItem(R, us[k]).proc]>> :
          k \in DOMAIN us}
\* observed states keyed by position, mapped back to original units through the edited listing
PostOrigStates(C, nm, full) ==
  LET Ex == C.S[nm].Ex
      P == PosSeq(Ex)
      obs == InsnStates(C.S[nm].Lp, C.S[nm].Rp)
      us == SelectSeq([i \in 1..Len(Ex) |-> i], LAMBDA i : Ex[i].t = "unit" /\ Ex[i].bk = "code" /\ Ex[i].src = "orig")
      at(p) == LET c == {k \in DOMAIN obs : obs[k][1] = p} IN
               IF c = {} THEN CE!None ELSE obs[CHOOSE k \in c : TRUE][2]
  IN  {<<Ex[us[k]].u, Ex[us[k]].o, IF full THEN at(P[us[k]]) ELSE [proc |-> at(P[us[k]]).proc]>> : k \in DOMAIN us}
SurvivingOrig(X, S) == {s \in S : ~Covered(X.t.reqs, s[1], s[2])}
C08_Membership(X, C) ==
  \A nm \in DOMAIN C.S :
     PostOrigStates(C, nm, FALSE) = SurvivingOrig(X, OrigStates(C.S[nm].L0, C.S[nm].R0, FALSE))
C08_StatePreserved(X, C) ==
  \A nm \in DOMAIN C.S :
     PostOrigStates(C, nm, TRUE) = OrigStates(C.S[nm].L0, C.S[nm].R0, TRUE)
=============================================================================
