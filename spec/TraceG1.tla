------------------------------ MODULE TraceG1 ------------------------------
(***************************************************************************)
(* Trace specification for the listing-refinement group: every line of     *)
(* TRACE_FILE is one observed execution of RewritingContext.apply(); every *)
(* step of this spec consumes one line and prints its verdict.             *)
(***************************************************************************)
EXTENDS G1Batch, Json, IOUtils, TLC, TLCExt

Traces == ndJsonDeserialize(IOEnv.TRACE_FILE)
VARIABLE tid

\* <<name, in-domain, holds>>
Clauses(X, K) ==
  LET t == X.t
      dom == DomG1(t)
      done == dom /\ Completed(t)
  IN << <<"C01_Completes", dom, Completed(t)>>,
        <<"C01_Bytes", done /\ NoAlignment(t.pre), C01_Bytes(X)>>,
        <<"C02_Positions", done, C02_Positions(X)>>,
        <<"C02_Proxy", done, C02_Proxy(X)>>,
        <<"C02_PatchLabels", done, C02_PatchLabels(X)>>,
        <<"C02_NoStranded", dom, C02_NoStranded(X)>>,
        <<"C04_Sx", done, C04_Sx(X)>>,
        <<"C04_Ann", done, C04_Ann(X)>>,
        <<"C04_InBounds", done, C04_InBounds(X)>>,
        <<"C04_SymIdentity", done, C04_SymIdentity(X)>>,
        <<"C06_Attribution", done, C06_Attribution(X)>>,
        <<"C06_DataNever", done, C06_DataNever(X)>>,
        <<"C06_Partition", done, C06_Partition(X)>>,
        <<"C06_Entries", done, C06_Entries(X)>>,
        <<"C06_EmptyFunctionGone", done, C06_EmptyFunctionGone(X)>>,
        <<"C03_Completes", IF dom THEN K.preOk ELSE FALSE, Completed(t)>>,
        <<"C03_Fallthrough", IF done THEN K.dom ELSE FALSE, C03_Fallthrough(K)>>,
        <<"C03_BranchCall", IF done THEN K.dom ELSE FALSE, C03_BranchCall(K)>>,
        <<"C03_Returns", IF done THEN K.dom ELSE FALSE, C03_Returns(K)>>,
        <<"C03_NoBuriedTerminator", IF done THEN K.dom ELSE FALSE, C03_NoBuriedTerminator(X)>>,
        <<"C03_EndpointsAlive", done, C03_EndpointsAlive(X)>>,
        <<"C05_Completes", dom /\ t.fault = 0, Completed(t)>>,
        <<"C05_BlocksInside", dom, C05_BlocksInside(t)>>,
        <<"C05_NoOverlap", dom, C05_NoOverlap(t)>>,
        <<"C05_Closed", dom, C05_Closed(t)>>,
        <<"C05_ZeroSizedJustified", done, C05_ZeroSizedJustified(t)>>,
        <<"C05_Addresses", done, C05_Addresses(t)>>,
        <<"C05_Serializes", dom, C05_Serializes(t)>>,
        <<"C05_FailIsTheFault", dom /\ t.fault > 0 /\ t.fault <= t.ninv, C05_FailIsTheFault(t)>>,
        <<"C05_FailCfgObject", dom /\ t.exc # "", C05_FailCfgObject(t)>>,
        <<"C05_FailNoStranded", dom /\ t.exc # "", C05_FailNoStranded(t)>>,
        <<"C09_OrderCoherent", dom /\ HasSteps(t), C09_OrderCoherent(t)>>,
        <<"C09_FnCoherent", dom /\ HasSteps(t), C09_FnCoherent(t)>>,
        <<"C09_RetCoherent", dom /\ HasSteps(t), C09_RetCoherent(t)>>,
        <<"C09_RefCoherent", dom /\ HasSteps(t), C09_RefCoherent(t)>>,
        <<"C09_DirectView", dom /\ HasSteps(t), C09_DirectView(t)>>,
        <<"C09_SameOutcome", dom /\ HasSeq(t) /\ t.fault = 0, C09_SameOutcome(t)>>,
        <<"C09_BatchEqSeq", IF done /\ HasSeq(t) THEN t.exc2 = "" ELSE FALSE, C09_BatchEqSeq(X)>> >>

Diff(name, X, K) ==
  CASE name = "C01_Bytes" -> C01_Diff(X)
    [] name = "C02_Positions" -> SetDiff(ExpOrigSymFacts(X), ObsOrigSymFacts(X))
    [] name = "C02_Proxy" -> SetDiff(ExpProxied(X) \cup PreProxied(X), ObsProxied(X))
    [] name = "C02_PatchLabels" -> SetDiff(ExpPatchSymFacts(X), ObsPatchSymFacts(X))
    [] name = "C04_Sx" -> SetDiff(UNION {StripPatch(ExpSxFacts(X, nm)) : nm \in SecNames(X.t.pre)},
                                  UNION {ObsSxFacts(X.t.post, nm) : nm \in SecNames(X.t.pre)})
    [] name = "C04_Ann" -> SetDiff(UNION {ExpAnnFacts(X, nm) : nm \in SecNames(X.t.pre)},
                                   UNION {ObsAnnFacts(X.t.post, nm) : nm \in SecNames(X.t.pre)})
    [] name = "C06_Attribution" -> SetDiff(UNION {ExpFnFacts(X, nm) : nm \in SecNames(X.t.pre)},
                                           UNION {ObsFnFacts(X.t.post, nm) : nm \in SecNames(X.t.pre)})
    [] name = "C06_Entries" -> SetDiff(UNION {ExpEntryFacts(X, nm) : nm \in SecNames(X.t.pre)},
                                       UNION {ObsEntryFacts(X.t.post, nm) : nm \in SecNames(X.t.pre)})
    [] name = "C06_EmptyFunctionGone" -> SetDiff(ExpLiveFns(X), ObsFnNames(X) \cap PreFnNames(X))
    [] name = "C03_Fallthrough" -> SetDiff(K.exp.ft, ByType(K.obs, {"Fallthrough"}))
    [] name = "C03_BranchCall" -> SetDiff(K.exp.bc, ByType(K.obs, {"Branch", "Call"}))
    [] name = "C03_Returns" -> SetDiff(K.exp.ret, ByType(K.obs, {"Return"}))
    [] name = "C03_NoBuriedTerminator" -> Buried(X.t.post)
    [] name = "C03_EndpointsAlive" -> <<ObsStale(X.t.post), ObsOddSources(X.t.post)>>
    [] name = "C01_Completes" -> <<X.t.exc, X.t.stage>>
    [] name = "C03_Completes" -> <<X.t.exc, X.t.stage>>
    [] name = "C05_Completes" -> <<X.t.exc, X.t.stage>>
    [] name = "C09_BatchEqSeq" -> FactDiff(AllFacts(X), AllFacts(Seq2(X)))
    [] name = "C09_SameOutcome" -> <<X.t.exc, X.t.exc2>>
    [] name = "C09_DirectView" -> DirectViewWitness(X.t)
    [] name \in {"C09_OrderCoherent", "C09_FnCoherent", "C09_RetCoherent", "C09_RefCoherent"} ->
         SelectSeq(X.t.steps, LAMBDA st : st.ordc # st.ordt \/ st.fnc # st.fnt \/ st.retc # st.rett \/ ~st.cfg_is_cache
                                          \/ \E j \in DOMAIN st.refc : st.refc[j][2] = 0 - 1
                                                 \/ (st.refd[j][2] # 0 /\ st.refd[j] # st.refc[j]))
    [] name = "C05_Closed" -> <<ObsStale(X.t.post), SelectSeq(X.t.whole.aux, LAMBDA a : a.stale # 0),
                                 SelectSeq(X.t.post.syms, LAMBDA y : y.k \in {"stale", "stale_proxy"})>>
    [] name = "C05_Serializes" -> <<X.t.whole.ser_ok, X.t.whole.ser_err>>
    [] name \in {"C05_FailIsTheFault", "C05_FailCfgObject", "C05_FailNoStranded"} ->
         <<X.t.exc, X.t.whole.cfg_same_obj, X.t.whole.cfg_type>>
    [] OTHER -> <<>>

Verdict(t) ==
  LET X == Ctx(t)
      K == CfgK(X)
      cs == Clauses(X, K)
      bad == SelectSeq(cs, LAMBDA c : c[2] /\ ~c[3])
      indom == SelectSeq(cs, LAMBDA c : c[2])
  IN  [id |-> t.id,
       indomain |-> [i \in 1..Len(indom) |-> indom[i][1]],
       failed |-> [i \in 1..Len(bad) |-> [clause |-> bad[i][1], diff |-> Diff(bad[i][1], X, K), kf |-> IF bad[i][1] \in {"C09_DirectView", "C09_SameOutcome"}
                      THEN (IF KF_C09_1(X) /\ (bad[i][1] = "C09_DirectView" \/ X.t.exc = "UnsupportedAssemblyError")
                            THEN {"KF-C09-1"} ELSE {})
                      ELSE IF bad[i][1] = "C09_BatchEqSeq" THEN KfBatch(X, K)
                      ELSE KfTags(X, K, bad[i][1])]],
       exc |-> t.exc]

Init == tid = 1
Next == /\ tid <= Len(Traces)
        /\ PrintT("VERDICT " \o ToJson(Verdict(Traces[tid])))
        /\ tid' = tid + 1
AllConsumed == TLCGet("stats").diameter - 1 = Len(Traces)
=============================================================================
