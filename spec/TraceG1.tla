------------------------------ MODULE TraceG1 ------------------------------
(***************************************************************************)
(* Trace specification for the listing-refinement group: every line of     *)
(* TRACE_FILE is one observed execution of RewritingContext.apply(); every *)
(* step of this spec consumes one line and prints its verdict.             *)
(***************************************************************************)
EXTENDS G1Findings, Json, IOUtils, TLC, TLCExt

Traces == ndJsonDeserialize(IOEnv.TRACE_FILE)
VARIABLE tid

\* <<name, in-domain, holds>>
Clauses(X) ==
  LET t == X.t
      dom == DomG1(t)
      done == dom /\ Completed(t)
  IN << <<"C01_Completes", dom, Completed(t)>>,
        <<"C01_Bytes", done /\ NoAlignment(t.pre), C01_Bytes(X)>>,
        <<"C02_Positions", done, C02_Positions(X)>>,
        <<"C02_Proxy", done, C02_Proxy(X)>>,
        <<"C02_PatchLabels", done, C02_PatchLabels(X)>>,
        <<"C02_NoStranded", dom, C02_NoStranded(X)>>,
        <<"C04_Sx", done, C04_Sx(X)>>,
        <<"C04_Ann", done, C04_Ann(X)>>,
        <<"C04_InBounds", done, C04_InBounds(X)>>,
        <<"C04_SymIdentity", done, C04_SymIdentity(X)>>,
        <<"C06_Attribution", done, C06_Attribution(X)>>,
        <<"C06_DataNever", done, C06_DataNever(X)>>,
        <<"C06_Partition", done, C06_Partition(X)>>,
        <<"C06_Entries", done, C06_Entries(X)>>,
        <<"C06_EmptyFunctionGone", done, C06_EmptyFunctionGone(X)>> >>

Diff(name, X) ==
  CASE name = "C01_Bytes" -> C01_Diff(X)
    [] name = "C02_Positions" -> SetDiff(ExpOrigSymFacts(X), ObsOrigSymFacts(X))
    [] name = "C02_Proxy" -> SetDiff(ExpProxied(X) \cup PreProxied(X), ObsProxied(X))
    [] name = "C02_PatchLabels" -> SetDiff(ExpPatchSymFacts(X), ObsPatchSymFacts(X))
    [] name = "C04_Sx" -> SetDiff(UNION {StripPatch(ExpSxFacts(X, nm)) : nm \in SecNames(X.t.pre)},
                                  UNION {ObsSxFacts(X.t.post, nm) : nm \in SecNames(X.t.pre)})
    [] name = "C04_Ann" -> SetDiff(UNION {ExpAnnFacts(X, nm) : nm \in SecNames(X.t.pre)},
                                   UNION {ObsAnnFacts(X.t.post, nm) : nm \in SecNames(X.t.pre)})
    [] name = "C06_Attribution" -> SetDiff(UNION {ExpFnFacts(X, nm) : nm \in SecNames(X.t.pre)},
                                           UNION {ObsFnFacts(X.t.post, nm) : nm \in SecNames(X.t.pre)})
    [] name = "C06_Entries" -> SetDiff(UNION {ExpEntryFacts(X, nm) : nm \in SecNames(X.t.pre)},
                                       UNION {ObsEntryFacts(X.t.post, nm) : nm \in SecNames(X.t.pre)})
    [] name = "C06_EmptyFunctionGone" -> SetDiff(ExpLiveFns(X), ObsFnNames(X) \cap PreFnNames(X))
    [] name = "C01_Completes" -> <<X.t.exc, X.t.stage>>
    [] OTHER -> <<>>

Verdict(t) ==
  LET X == Ctx(t)
      cs == Clauses(X)
      bad == SelectSeq(cs, LAMBDA c : c[2] /\ ~c[3])
      indom == SelectSeq(cs, LAMBDA c : c[2])
  IN  [id |-> t.id,
       indomain |-> [i \in 1..Len(indom) |-> indom[i][1]],
       failed |-> [i \in 1..Len(bad) |-> [clause |-> bad[i][1], diff |-> Diff(bad[i][1], X), kf |-> KfTags(X, bad[i][1])]],
       exc |-> t.exc]

Init == tid = 1
Next == /\ tid <= Len(Traces)
        /\ PrintT("VERDICT " \o ToJson(Verdict(Traces[tid])))
        /\ tid' = tid + 1
AllConsumed == TLCGet("stats").diameter - 1 = Len(Traces)
=============================================================================
