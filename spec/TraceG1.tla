------------------------------ MODULE TraceG1 ------------------------------
(***************************************************************************)
(* Trace specification for the listing-refinement group: every line of     *)
(* TRACE_FILE is one observed execution of RewritingContext.apply(); every *)
(* step of this spec consumes one line and prints its verdict.             *)
(***************************************************************************)
EXTENDS G1Verdict, Json, IOUtils, TLC, TLCExt

Traces == ndJsonDeserialize(IOEnv.TRACE_FILE)
VARIABLE tid

Init == tid = 1
Next == /\ tid <= Len(Traces)
        /\ PrintT("VERDICT " \o ToJson(Verdict(Traces[tid])))
        /\ tid' = tid + 1
AllConsumed == TLCGet("stats").diameter - 1 = Len(Traces)
=============================================================================
