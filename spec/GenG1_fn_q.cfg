SPECIFICATION Spec
CONSTANTS
  MaxBlocks = 3
  MaxReqs = 2
  Templates = {"o23", "ret", "d3"}
  PatchKinds = {"plain2", "ret"}
  FnLayouts = {"none", "one", "split", "tail", "one2"}
  EndSyms = {FALSE}
  NoSyms = {FALSE}
  AnnModes = {"none"}
  WithProxyDel = TRUE
  CfiLayouts = {"none"}
  Isa = "x64"
  WithScopes = FALSE
  Fmts = {"elf"}
  WholeOnly = FALSE
  Leads = {0}
  DropFnTables = {TRUE, FALSE}
  ExtraData = {FALSE}
  Retargets = {FALSE}
  AlignOpts = {0}
  Aliases = {FALSE}
  SharedRet = {FALSE}
  InsFns = {"none", "ret", "callret"}
  Emit = TRUE
INVARIANT Inv
CHECK_DEADLOCK FALSE
