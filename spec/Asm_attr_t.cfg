SPECIFICATION Spec
CONSTANTS
  VocabName = "attr"
  MaxLen = 4
  MaxChunks = 3
  TUs = {FALSE}
  AUs = {TRUE, FALSE}
  ICFIs = {FALSE}
  MSs = {{"a", "b"}}
  Emit = TRUE
INVARIANT Inv
CHECK_DEADLOCK FALSE
