SPECIFICATION Spec
CONSTANTS
  Abis = {"x64-elf"}
  MaxUses = 2
  Cat = "core"
  MapNames = {"AB", "AB_BC", "AB_XC"}
  WithPatch = FALSE
  Emit = TRUE
INVARIANT Inv
CHECK_DEADLOCK FALSE
