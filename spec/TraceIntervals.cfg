INIT TInit
NEXT TNext
CONSTANTS
  MaxSize = 0
  MaxBlocks = 0
  Inits = "full"
  KindMode = "alt"
  AlignVals = {}
  MaxAligned = 0
  ItemMode = "none"
  MaxItems = 0
  Addrs = {"4096"}
  Grows = {}
  Lates = FALSE
  AddAligns = {}
  OnlyTiled = FALSE
  NopKinds = {}
  VariantSet = "none"
  Rotate = 0
  Emit = FALSE
POSTCONDITION AllConsumed
CHECK_DEADLOCK FALSE
