SPECIFICATION Spec
CONSTANTS
  Isas = {"x64"}
  MaxBlocks = 2
  Templates = {"o23", "jmp", "ret"}
  Layouts = {"one", "split1", "tail"}
  FnTables = {"present"}
  Names = {"fa", "fab", "xfa"}
  BothOrders = FALSE
  EntModes = {"first"}
  EpChoices = {0, 1, 2}
  CfgModes = {"full"}
  AddrModes = {TRUE}
  TgtChoices = {0, 1}
  ScopeKinds = {"allfuncs", "allblocks"}
  Positions = {"ENTRY", "EXIT"}
  FPositions = {"ENTRY", "EXIT"}
  FilterKinds = {"none", "empty", "lit", "prefix", "ep"}
  PatNames = {"fa"}
  MaxRegs = 1
  MaxPasses = 1
  Emit = TRUE
INVARIANT Inv
CHECK_DEADLOCK FALSE
