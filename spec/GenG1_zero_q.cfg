SPECIFICATION Spec
CONSTANTS
  MaxBlocks = 3
  MaxReqs = 2
  Templates = {"o23", "ret", "z0"}
  PatchKinds = {"plain2"}
  FnLayouts = {"none", "one"}
  EndSyms = {FALSE}
  NoSyms = {FALSE}
  AnnModes = {"none"}
  WithProxyDel = TRUE
  CfiLayouts = {"none"}
  Isa = "x64"
  WithScopes = FALSE
  Fmts = {"elf"}
  WholeOnly = TRUE
  Leads = {0}
  DropFnTables = {FALSE}
  ExtraData = {FALSE}
  Retargets = {FALSE}
  AlignOpts = {0}
  Aliases = {FALSE}
  SharedRet = {FALSE}
  InsFns = {"none"}
  Emit = TRUE
INVARIANT Inv
CHECK_DEADLOCK FALSE
