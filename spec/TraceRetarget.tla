--------------------------- MODULE TraceRetarget ---------------------------
(***************************************************************************)
(* Trace specification of C18.  Every line of TRACE_FILE is one observed   *)
(* execution of RewritingContext.retarget_symbol_uses + apply():           *)
(*   case  the configuration (as emitted by Retarget.tla)                  *)
(*   pre   projection of the module after apply() *without* the retargets  *)
(*   post  projection of the identically built module after apply() with   *)
(*         them (retargets are applied after the block edits)              *)
(*   exc   exception type name ("" when none)                              *)
(* The expected module is R!Expected applied to the *observed* pre module; *)
(* the clauses compare it with the observed post module.                   *)
(***************************************************************************)
EXTENDS Naturals, Sequences, FiniteSets, TLC, TLCExt, Json, IOUtils

R == INSTANCE Retarget WITH Abis <- {}, MaxUses <- 0, Cat <- "full", MapNames <- {},
                            WithPatch <- FALSE, Emit <- FALSE, cfg <- 0, st <- 0

\* DelSym!Expected judges the symbol tables of the retarget-then-delete history
D == INSTANCE DelSym WITH Mode <- "tables", Fmts <- {}, K1 <- 0, K2 <- 0, K3 <- 0, NVer <- 0,
                          ReqNames <- {}, Emit <- FALSE, cfg <- 0, st <- 0

Traces == ndJsonDeserialize(IOEnv.TRACE_FILE)
VARIABLE tid

Range(f) == {f[i] : i \in DOMAIN f}
SetDiff(exp, obs) == [missing |-> exp \ obs, extra |-> obs \ exp]

(***************************************************************************)
(* Abstraction of a projected module                                       *)
(***************************************************************************)
Acc(ik) == IF ik \in {"jmp", "jcc", "call", "ijmp", "icall", "ret"} THEN "cf"
           ELSE IF ik \in {"data", "none"} THEN "data" ELSE "ref"

Abs(p) ==
  [ syms  |-> {[n |-> s.n, k |-> s.k, r |-> s.r] : s \in Range(p.syms)},
    sx    |-> {[blk |-> e.blk, o |-> e.o, acc |-> Acc(e.ik), f |-> e.f, s1 |-> e.s1,
                s2 |-> e.s2, add |-> e.add, at |-> Range(e.at)] : e \in Range(p.sx)},
    cfi   |-> {[blk |-> c.blk, d |-> c.d, i |-> c.i, dir |-> c.dir, args |-> c.args, sym |-> c.sym]
               : c \in Range(p.cfi)},
    fwd   |-> {<<q[1], q[2]>> : q \in Range(p.fwd)},
    edges |-> Range(p.edges),
    fns   |-> {[name |-> f.name, ent |-> Range(f.ent), blk |-> Range(f.blk)] : f \in Range(p.fns)},
    rets  |-> {b.id : b \in {x \in Range(p.blocks) : x.term = "ret"}},
    rest  |-> [blocks |-> p.blocks, esi |-> p.esi, tix |-> p.tix, ver |-> p.ver, imp |-> p.imp,
               exp |-> p.exp, aux |-> p.aux, tabs |-> p.tabs, nprox |-> p.nprox,
               symsfull |-> p.syms, sxo |-> {<<e.blk, e.o, e.sc, e.nh>> : e \in Range(p.sx)}] ]

\* the same projection as a DelSym module (tables; mention relations are passed in)
AbsD(p, sx, cfi, fwd) ==
  [ syms   |-> {s.n : s \in Range(p.syms)},
    esi    |-> {<<q[1], q[2]>> : q \in Range(p.esi)},
    tix    |-> {<<q[1], q[2]>> : q \in Range(p.tix)},
    hasver |-> p.ver.has,
    vents  |-> {[s |-> e.s, id |-> e.id, h |-> e.h] : e \in Range(p.ver.ents)},
    vdefs  |-> {[id |-> d.id, names |-> d.names, flags |-> d.flags] : d \in Range(p.ver.defs)},
    vreqs  |-> UNION {{[lib |-> r.lib, id |-> v.id, v |-> v.v] : v \in Range(r.vers)} : r \in Range(p.ver.reqs)},
    vlibs  |-> {r.lib : r \in Range(p.ver.reqs)},
    fn     |-> {<<f.u, f.name>> : f \in {x \in Range(p.fns) : x.hasn}},
    imp    |-> p.imp, exp |-> p.exp,
    fwd    |-> fwd, cfi |-> cfi, sx |-> sx, rest |-> <<>> ]

CaseCfg(c) ==
  [abi |-> c.abi, pie |-> c.pie, kinds |-> c.kinds, reqs |-> c.reqs,
   uses |-> [i \in DOMAIN c.uses |-> [c.uses[i] EXCEPT !.at = Range(c.uses[i].at)]]]

(***************************************************************************)
(* Conformance of the rendered module with the abstract module of the      *)
(* configuration (binds Retarget!Mod to the real thing).  Node identities  *)
(* differ, so mentions are compared by what they say, and edges by the     *)
(* symbols of their targets.                                               *)
(***************************************************************************)
Core == {"A", "B", "C", "X"}
SymsAt(M, node) == {s.n : s \in {x \in M.syms : x.r = node /\ x.n \in Core}}
Sig(M) ==
  [ sx   |-> {<<e.acc, e.f, e.s1, e.s2, e.add>> : e \in M.sx},
    cfi  |-> {<<c.dir, c.sym>> : c \in {x \in M.cfi : x.sym # ""}},
    fwd  |-> M.fwd,
    sym  |-> {<<s.n, s.k, SymsAt(M, s.r)>> : s \in {x \in M.syms : x.n \in Core}},
    none |-> {s.n : s \in {x \in M.syms : x.k = "none"}},
    cf   |-> {<<e.ty, e.c, e.d, SymsAt(M, e.t)>> : e \in {x \in M.edges : x.ty \in {"Branch", "Call"}}} ]

\* well-formed pre-state: one control-flow operand per block, every expression
\* in exactly one block, return edges consistent with the calls (G4)
WellFormed(M, p) ==
  /\ \A e \in Range(p.sx) : e.nh = 1 /\ e.f \in {"C", "A"}
  /\ \A e1, e2 \in M.sx : (e1.blk = e2.blk /\ e1.acc = "cf" /\ e2.acc = "cf") => e1 = e2
  /\ \A e \in M.sx : e.s1 \in R!Names(M) /\ (e.f = "A" => e.s2 \in R!Names(M))
  /\ R!RetFacts(M.edges) = R!G4(M, R!NonRet(M.edges))

Ctx(t) ==
  LET M == Abs(t.pre)
      N == Abs(t.post)
      c == CaseCfg(t.case)
      reqs == t.case.reqs
      map == R!MapOf(reqs)
      rules == R!Rules(t.case.abi, t.case.pie)
      conf == t.exc0 = "" /\ Sig(M) = Sig(R!Mod(c)) /\ WellFormed(M, t.pre)
      dels == t.case.del                      \* <<name, force>> deletions registered after the retargets
      outs == IF conf THEN R!OutcomesD(M, reqs, rules, dels) ELSE {}
      ok == conf /\ outs = {""}
  IN  [t |-> t, M |-> M, N |-> N, reqs |-> reqs, map |-> map, rules |-> rules,
       dels |-> dels, del |-> R!DelSet(dels),
       conf |-> conf, outs |-> outs,
       \* E1: the retargeted module, E: the final module (retargets, then deletions)
       E1 |-> IF ok THEN R!Expected(M, map, rules) ELSE M,
       E |-> IF ok THEN R!Final(M, reqs, rules, dels) ELSE M,
       done |-> ok /\ t.exc = ""]

(***************************************************************************)
(* Clauses                                                                 *)
(***************************************************************************)
Site(e) == <<e.blk, e.o>>
CSite(c) == <<c.blk, c.d, c.i>>
KeySx(X) == {e \in X.M.sx : e.f = "C" /\ e.s1 \in R!Keys(X.map)}
KeyCfi(X) == {c \in X.M.cfi : c.sym \in R!Keys(X.map)}
KeyFwd(X) == {p \in X.M.fwd : p[2] \in R!Keys(X.map)}

\* what each former mention of a key must say now: symbol and addend (not attributes)
Say(e) == <<e.blk, e.o, e.f, e.s1, e.s2, e.add>>
\* (read off the expected final module X.E, so that a deletion registered in the same
\* context is accounted for; without deletions X.E = Retarget!Expected(X.M))
KeySay(X, M) ==
  [sx |-> {Say(e) : e \in {x \in M.sx : Site(x) \in {Site(k) : k \in KeySx(X)}}},
   cfi |-> {c \in M.cfi : CSite(c) \in {CSite(k) : k \in KeyCfi(X)}},
   fwd |-> {p \in M.fwd : p[1] \in {k[1] : k \in KeyFwd(X)}}]
ExpKeySay(X) == KeySay(X, X.E)
ObsKeySay(X) == KeySay(X, X.N)
C18_Complete(X) == ObsKeySay(X) = ExpKeySay(X)

\* attributes at the former mentions of keys
KeyAttrs(X, M) == {<<e.blk, e.o, e.at>> : e \in {x \in M.sx : Site(x) \in {Site(k) : k \in KeySx(X)}}}
ExpKeyAttrs(X) == KeyAttrs(X, X.E)
ObsKeyAttrs(X) == KeyAttrs(X, X.N)
C18_Attrs(X) == ObsKeyAttrs(X) = ExpKeyAttrs(X)

\* everything that is not a mention of a key, and is not an edge, is untouched
Others(X, M) ==
  [sx |-> {e \in M.sx : Site(e) \notin {Site(k) : k \in KeySx(X)}},
   cfi |-> {c \in M.cfi : CSite(c) \notin {CSite(k) : k \in KeyCfi(X)}},
   fwd |-> {p \in M.fwd : p[1] \notin {k[1] : k \in KeyFwd(X)}},
   syms |-> M.syms, fns |-> M.fns, rets |-> M.rets,
   \* with deletions the symbol tables are judged by C18_ThenDeleted instead
   rest |-> IF X.del = {} THEN M.rest
            ELSE [M.rest EXCEPT !.esi = <<>>, !.tix = <<>>, !.imp = <<>>, !.exp = <<>>, !.symsfull = <<>>,
                                \* scale/host facts of the expressions that are (still) there
                                !.sxo = {q \in @ : <<q[1], q[2]>> \in {Site(e) : e \in M.sx}}]]
C18_Precise(X) == Others(X, X.N) = Others(X, X.E)
PreciseDiff(X) ==
  LET a == Others(X, X.E)  b == Others(X, X.N)
  IN  [sx |-> SetDiff(a.sx, b.sx), cfi |-> SetDiff(a.cfi, b.cfi), fwd |-> SetDiff(a.fwd, b.fwd),
       syms |-> SetDiff(a.syms, b.syms), fns |-> a.fns = b.fns, rets |-> a.rets = b.rets,
       blocks |-> a.rest.blocks = b.rest.blocks, esi |-> a.rest.esi = b.rest.esi,
       aux |-> a.rest.aux = b.rest.aux, tabs |-> a.rest.tabs = b.rest.tabs,
       restall |-> a.rest = b.rest]

ExpNonRet(X) == R!NonRet(X.E.edges)
ObsNonRet(X) == R!NonRet(X.N.edges)
C18_Edges(X) == ObsNonRet(X) = ExpNonRet(X)

ExpRet(X) == R!RetFacts(X.E.edges)
ObsRet(X) == R!RetFacts(X.N.edges)
C18_Returns(X) == ObsRet(X) = ExpRet(X)

\* retarget, then delete: the whole final module, symbol tables included, is
\* DelSym!Expected applied to the retargeted module; it still serializes
ThenDeletedExp(X) ==
  LET d == D!Expected(AbsD(X.t.pre, X.E1.sx, X.E1.cfi, X.E1.fwd), X.del)
  IN  [d EXCEPT !.fn = {p[2] : p \in @}]
ThenDeletedObs(X) ==
  LET d == AbsD(X.t.post, X.N.sx, X.N.cfi, X.N.fwd)
  IN  [d EXCEPT !.fn = {p[2] : p \in @}]
C18_ThenDeleted(X) ==
  /\ ThenDeletedObs(X) = ThenDeletedExp(X)
  /\ X.t.post.ser.ok /\ X.t.post.ser.dang = 0
ThenDeletedDiff(X) ==
  LET a == ThenDeletedExp(X)  b == ThenDeletedObs(X)
  IN  [syms |-> SetDiff(a.syms, b.syms), esi |-> SetDiff(a.esi, b.esi), tix |-> SetDiff(a.tix, b.tix),
       fn |-> SetDiff(a.fn, b.fn), imp |-> <<a.imp, b.imp>>, exp |-> <<a.exp, b.exp>>,
       fwd |-> SetDiff(a.fwd, b.fwd), cfi |-> SetDiff(a.cfi, b.cfi), sx |-> SetDiff(a.sx, b.sx),
       ser |-> X.t.post.ser]

C18_Refusals(X) == X.t.exc \in X.outs
C18_Completes(X) == X.t.exc = ""

(***************************************************************************)
(* Narrow signatures of the open known findings (ids: known_findings.json) *)
(***************************************************************************)
CallKeyUse(X) == \E e \in KeySx(X) : e.acc = "cf" /\
                   \E g \in X.M.edges : g.s = e.blk /\ g.ty = "Call" /\ g.t = R!Ref(X.M, e.s1)
\* KF-C18-1 (F7): a retargeted call; the return edges were not touched at all
KF_C18_1(X) == CallKeyUse(X) /\ ObsRet(X) = R!RetFacts(X.M.edges)
\* KF-C18-2: MIPS32: capstone puts jal in neither the jump nor the call group, so the
\* operand of a call is not recognised as control flow: exactly the call edges stay behind
KF_C18_2(X) ==
  /\ X.t.case.abi = "mips32-elf"
  /\ ObsNonRet(X) = {IF e.ty = "Call" THEN e ELSE R!Moved(X.M, X.map, e) : e \in R!NonRet(X.M.edges)}
\* ... and, for the same reason, a call retargeted into data is not refused
KF_C18_2_Refusal(X) ==
  /\ X.t.case.abi = "mips32-elf"
  /\ X.t.exc = "" /\ X.outs = {"AmbiguousIRError"}
  /\ \A e \in R!NonRet(X.M.edges) :
        (R!Moves(X.M, X.map, e) /\ R!SymRec(X.M, R!To(X.map, CHOOSE k \in R!CfKeys(X.M, X.map, e.s) : R!Ref(X.M, k) = e.t)).k = "data")
           => e.ty = "Call"

KfTags(X, clause) ==
  (IF clause = "C18_Returns" /\ KF_C18_1(X) THEN {"KF-C18-1"} ELSE {})
  \cup (IF clause = "C18_Edges" /\ KF_C18_2(X) THEN {"KF-C18-2"} ELSE {})
  \cup (IF clause = "C18_Refusals" /\ KF_C18_2_Refusal(X) THEN {"KF-C18-2"} ELSE {})

(***************************************************************************)
(* Verdict                                                                 *)
(***************************************************************************)
\* <<name, in-domain, holds>>; the clause body is only evaluated in its domain
Clauses(X) ==
  LET dC == X.conf /\ X.outs = {""}
      dR == X.conf /\ X.outs # {""}
      dD == X.done /\ X.del # {}
  IN
  << <<"C18_Completes", dC, IF dC THEN C18_Completes(X) ELSE TRUE>>,
     <<"C18_Refusals",  dR, IF dR THEN C18_Refusals(X) ELSE TRUE>>,
     <<"C18_Complete",  X.done, IF X.done THEN C18_Complete(X) ELSE TRUE>>,
     <<"C18_Attrs",     X.done, IF X.done THEN C18_Attrs(X) ELSE TRUE>>,
     <<"C18_Precise",   X.done, IF X.done THEN C18_Precise(X) ELSE TRUE>>,
     <<"C18_Edges",     X.done, IF X.done THEN C18_Edges(X) ELSE TRUE>>,
     <<"C18_Returns",   X.done, IF X.done THEN C18_Returns(X) ELSE TRUE>>,
     <<"C18_ThenDeleted", dD, IF dD THEN C18_ThenDeleted(X) ELSE TRUE>> >>

Diff(name, X) ==
  CASE name = "C18_Complete" -> [exp |-> ExpKeySay(X), obs |-> ObsKeySay(X)]
    [] name = "C18_Attrs" -> SetDiff(ExpKeyAttrs(X), ObsKeyAttrs(X))
    [] name = "C18_Precise" -> PreciseDiff(X)
    [] name = "C18_Edges" -> SetDiff(ExpNonRet(X), ObsNonRet(X))
    [] name = "C18_Returns" -> SetDiff(ExpRet(X), ObsRet(X))
    [] name = "C18_ThenDeleted" -> ThenDeletedDiff(X)
    [] name = "C18_Refusals" -> [exc |-> X.t.exc, admissible |-> X.outs]
    [] OTHER -> [exc |-> X.t.exc, stage |-> X.t.stage]

Verdict(t) ==
  LET X == Ctx(t)
      cs == Clauses(X)
      bad == SelectSeq(cs, LAMBDA c : c[2] /\ ~c[3])
      indom == SelectSeq(cs, LAMBDA c : c[2])
  IN  [id |-> t.id,
       indomain |-> [i \in 1..Len(indom) |-> indom[i][1]],
       failed |-> [i \in 1..Len(bad) |->
                     [clause |-> bad[i][1], diff |-> Diff(bad[i][1], X), kf |-> KfTags(X, bad[i][1])]],
       conf |-> X.conf,
       nkeys |-> IF X.done THEN Cardinality(KeySx(X)) + Cardinality(KeyCfi(X)) + Cardinality(KeyFwd(X)) ELSE 0,
       exc |-> t.exc]

Init == tid = 1
Next == /\ tid <= Len(Traces)
        /\ PrintT("VERDICT " \o ToJson(Verdict(Traces[tid])))
        /\ tid' = tid + 1
AllConsumed == TLCGet("stats").diameter - 1 = Len(Traces)
=============================================================================
