INIT Init
NEXT Next
POSTCONDITION AllConsumed
CHECK_DEADLOCK FALSE
