SPECIFICATION Spec
CONSTANTS
  VocabName = "chunk2"
  MaxLen = 4
  MaxChunks = 4
  TUs = {FALSE}
  AUs = {TRUE, FALSE}
  ICFIs = {FALSE}
  MSs = {{"b"}}
  Emit = TRUE
INVARIANT Inv
CHECK_DEADLOCK FALSE
