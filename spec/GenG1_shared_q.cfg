SPECIFICATION Spec
CONSTANTS
  MaxBlocks = 3
  MaxReqs = 1
  Templates = {"o23", "call", "ret", "ret1"}
  PatchKinds = {"callsym", "callret", "plain2"}
  FnLayouts = {"split", "each"}
  EndSyms = {FALSE}
  NoSyms = {FALSE}
  AnnModes = {"none"}
  WithProxyDel = TRUE
  CfiLayouts = {"none"}
  Isa = "x64"
  WithScopes = FALSE
  Fmts = {"elf"}
  WholeOnly = FALSE
  Leads = {0}
  DropFnTables = {FALSE}
  ExtraData = {FALSE}
  Retargets = {FALSE}
  AlignOpts = {0}
  Aliases = {FALSE}
  SharedRet = {TRUE}
  InsFns = {"none"}
  Emit = TRUE
INVARIANT Inv
CHECK_DEADLOCK FALSE
