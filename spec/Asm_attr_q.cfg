SPECIFICATION Spec
CONSTANTS
  VocabName = "attr"
  MaxLen = 3
  MaxChunks = 2
  TUs = {FALSE}
  AUs = {TRUE, FALSE}
  ICFIs = {FALSE}
  MSs = {{"a", "b"}}
  Emit = TRUE
INVARIANT Inv
CHECK_DEADLOCK FALSE
