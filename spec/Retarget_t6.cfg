SPECIFICATION Spec
CONSTANTS
  Abis = {"x64-elf", "x64-pe", "arm64-elf"}
  MaxUses = 2
  Cat = "core"
  MapNames = {"AB/dA", "AB/dAf", "AB_BC/dA", "AB_BA/dA", "XC/dA", "AB_XB/dA_dX"}
  WithPatch = TRUE
  Emit = TRUE
INVARIANT Inv
CHECK_DEADLOCK FALSE
