SPECIFICATION Spec
CONSTANTS
  Abis = {"x64-elf", "x64-pe"}
  MaxUses = 1
  Cat = "full"
  MapNames = {"AB/dA", "AB/dAf", "AB/dB", "AB/dA_dB", "AB_BC/dA", "AB_BA/dA", "XC/dA", "XC/dAf", "AB_XB/dA_dX"}
  WithPatch = FALSE
  Emit = TRUE
INVARIANT Inv
CHECK_DEADLOCK FALSE
