SPECIFICATION Spec
CONSTANTS
  Abis = {"x64-elf"}
  MaxUses = 1
  Cat = "full"
  MapNames = {"AB/dA", "AB/dAf", "AB/dB", "AB_BA/dA", "XC/dA", "XC/dAf"}
  WithPatch = FALSE
  Emit = TRUE
INVARIANT Inv
CHECK_DEADLOCK FALSE
