SPECIFICATION Spec
CONSTANTS
  Isas = {"arm64", "ia32"}
  MaxBlocks = 2
  Templates = {"o23", "jmp", "ret", "call", "d4"}
  Layouts = {"none", "one"}
  FnTables = {"present"}
  Names = {"fa"}
  BothOrders = FALSE
  EntModes = {"first"}
  EpChoices = {0}
  CfgModes = {"full"}
  AddrModes = {TRUE}
  TgtChoices = {0, 1}
  ScopeKinds = {"allblocks", "allfuncs", "single"}
  Positions = {"ENTRY", "EXIT", "ANYWHERE"}
  FPositions = {"ENTRY", "EXIT"}
  FilterKinds = {"none"}
  PatNames = {"fa"}
  MaxRegs = 1
  MaxPasses = 1
  Emit = TRUE
INVARIANT Inv
CHECK_DEADLOCK FALSE
