SPECIFICATION Spec
CONSTANTS
  Abis = {"x64-elf"}
  MaxUses = 2
  Cat = "got"
  MapNames = {"AB", "AB_XC", "AB/dA"}
  WithPatch = FALSE
  Emit = TRUE
INVARIANT Inv
CHECK_DEADLOCK FALSE
