SPECIFICATION Spec
CONSTANTS
  Mode = "tables"
  Fmts = {"elf", "pe"}
  K1 = 2
  K2 = 1
  K3 = 1
  NVer = 3
  ReqNames = {"1f_2f_3", "3f_2f_1f", "1_3", "1f_1f", "1_1f"}
  Emit = TRUE
INVARIANT Inv
CHECK_DEADLOCK FALSE
