------------------------------- MODULE Scopes -------------------------------
(***************************************************************************)
(* C07 - "each registered insertion lands exactly once, exactly where      *)
(* asked".                                                                 *)
(*                                                                         *)
(* Part 1-3 (pure, Level A): scope resolution over an abstract module M    *)
(* (blocks with instruction tokens, out-edges, function partition with     *)
(* names and entry blocks, module entry point).  M is computed by ModOf    *)
(* from a state in the projection's format, so the very same operators     *)
(* judge generated shapes (here) and observed executions (TraceScopes).    *)
(*    Terminated, ExitOffset, AnywhereOffsets, Offsets                     *)
(*    PatMatches / FilterMatches  (tiny pattern language)                  *)
(*    Matches(M, scope, b), SitesOf(M, reg), AllSites, OrderAt             *)
(*    ExpectedPositions: byte position of every marker in the edited       *)
(*    listing (the insert-only instance of the listing semantics,          *)
(*    DESIGN.md appendix D: ... last unit of a | pt(a,size) | pt(c,0) ...) *)
(* The module is self-contained (standard + community modules only).       *)
(*                                                                         *)
(* Part 4 (generation): the space of small modules ("shapes").             *)
(*                                                                         *)
(* Part 5 (state machine): passes register (scope, patch) pairs one at a   *)
(* time on one shared store (Register / NewPass), a function scope on a    *)
(* module without functions is refused, then Apply resolves all sites the  *)
(* way the design prescribes: blocks in address order, per block the       *)
(* modifications registered by block then those registered by scope,       *)
(* first potential offset, stable sort by (offset, registration id).       *)
(* Invariants relate that operational result to the declarative property:  *)
(* ExactlyOncePerMatchingBlock, NoSiteInNonMatchingBlock,                  *)
(* NeverAfterTerminator, OrderIsRegistrationOrder, AppliedEqualsSites,     *)
(* ContextFunctionIsBlockFunction.                                         *)
(* Every terminal state (applied / refused) is emitted as a JSON case.     *)
(***************************************************************************)
EXTENDS Sequences, SequencesExt, Naturals, Integers, FiniteSets, Functions, Json, TLC, TLCExt

CONSTANTS Isas,         \* subset of {"x64","ia32","arm64"}
          MaxBlocks,    \* 1..4
          Templates,    \* block templates (terminator kinds)
          Layouts,      \* function layouts
          FnTables,     \* subset of {"present","empty","absent"}
          Names,        \* function names (subset of the name universe)
          BothOrders,   \* BOOLEAN: two functions may take their names in either order
          EntModes,     \* subset of {"first","all"}: entry blocks of a function
          EpChoices,    \* subset of 0..MaxBlocks: module entry point (0 = none)
          CfgModes,     \* subset of {"full","bare"}
          AddrModes,    \* subset of BOOLEAN: byte intervals with / without addresses
          TgtChoices,   \* subset of 0..MaxBlocks: target of direct jumps (0 = extern proxy)
          ScopeKinds,   \* subset of {"allblocks","allfuncs","single"}
          Positions,    \* subset of {"ENTRY","EXIT","ANYWHERE"}
          FPositions,   \* subset of {"ENTRY","EXIT"}
          FilterKinds,  \* subset of the filter kinds below
          PatNames,     \* names used inside patterns
          MaxRegs,      \* total registrations
          MaxPasses,    \* 1..3
          Emit

VARIABLES sp,        \* shape parameters
          mod,       \* the abstract module of the shape (constant along a behaviour)
          passes,    \* sequence (passes) of sequences of scopes, in registration order
          store,     \* [byblock : u -> seq of reg ids, byscope : seq of reg ids]
          phase,     \* "register" | "applied" | "refused"
          applied    \* sequence of [reg, u, off] in application order
vars == <<sp, mod, passes, store, phase, applied>>

(***************************************************************************)
(* Part 0.  A state in the projection's format (harness/g1/project.py):    *)
(*   st = [secs : seq of [name, blocks : seq of [u, k, p, n, units : seq   *)
(*               of [o, n, k], fn, ent]],                                  *)
(*         edges : seq of [s, t, ty], fns : seq, entry]                    *)
(* u = block id, k = "code"/"data", p = position in the section, n = size, *)
(* fn / ent = names of the functions the block belongs to / is entry of;   *)
(* CFG nodes are <<"blk", section, p, n>> or <<"proxy"|..., name, 0, 0>>.  *)
(***************************************************************************)
Sum(s) == FoldLeft(LAMBDA a, b : a + b, 0, s)
AllBlocks(st) == FlattenSeq([i \in 1..Len(st.secs) |-> st.secs[i].blocks])
NoBlock == [u |-> 0, n |-> 0, k |-> "", units |-> <<>>, p |-> 0, fn |-> <<>>, ent |-> <<>>]
BlockByU(st, u) ==
  LET c == SelectSeq(AllBlocks(st), LAMBDA b : b.u = u)
  IN  IF c = <<>> THEN NoBlock ELSE c[1]
SecNameOf(st, u) ==
  LET c == SelectSeq(st.secs, LAMBDA sec : \E j \in DOMAIN sec.blocks : sec.blocks[j].u = u)
  IN  IF c = <<>> THEN "" ELSE c[1].name
UnitStarts(b) == {b.units[i].o : i \in DOMAIN b.units} \cup {b.n}
BlocksTile(st) ==
  \A i \in DOMAIN st.secs :
    LET bs == st.secs[i].blocks
    IN  \A j \in 1..(Len(bs) - 1) : bs[j].p + bs[j].n <= bs[j + 1].p

(***************************************************************************)
(* Part 1.  The abstract module                                            *)
(***************************************************************************)
KeyedBlocks(st) ==
  FlattenSeq([i \in 1..Len(st.secs) |->
     [j \in 1..Len(st.secs[i].blocks) |->
        [key |-> <<st.secs[i].name, st.secs[i].blocks[j].p, st.secs[i].blocks[j].n>>,
         u |-> st.secs[i].blocks[j].u]]])

\* block id designated by a projected CFG node <<kind, section, position, size>>
UOfNode(kb, nd) ==
  IF nd[1] # "blk" THEN 0
  ELSE LET c == SelectSeq(kb, LAMBDA x : x.key = <<nd[2], nd[3], nd[4]>>)
       IN  IF c = <<>> THEN 0 ELSE c[1].u

ModOf(st) ==
  LET kb == KeyedBlocks(st)
      bs == AllBlocks(st)
      es == [i \in 1..Len(st.edges) |->
               [su |-> UOfNode(kb, st.edges[i].s), tu |-> UOfNode(kb, st.edges[i].t), ty |-> st.edges[i].ty]]
      us == {bs[i].u : i \in DOMAIN bs}
  IN  [blocks |-> bs,
       out |-> [u \in us |-> {[ty |-> es[i].ty, tu |-> es[i].tu] : i \in {k \in DOMAIN es : es[k].su = u}}],
       ep |-> UOfNode(kb, st.entry),
       hasfns |-> st.fns # <<>>]

MBlock(M, u) ==
  LET c == SelectSeq(M.blocks, LAMBDA b : b.u = u)
  IN  IF c = <<>> THEN NoBlock ELSE c[1]
FnOfBlock(b) == IF b.fn = <<>> THEN "" ELSE b.fn[1]
FnBlocks(M, f) == {M.blocks[i].u : i \in {k \in DOMAIN M.blocks : M.blocks[k].k = "code" /\ f \in Range(M.blocks[k].fn)}}
FnEntries(M, f) == {M.blocks[i].u : i \in {k \in DOMAIN M.blocks : f \in Range(M.blocks[k].ent)}}
\* exit blocks of a function (definition of gtirb-functions, the substrate):
\* a block with a return edge, or with a non-call edge leaving the function
FnExits(M, f) ==
  {u \in FnBlocks(M, f) :
     \E e \in M.out[u] : \/ e.ty \in {"Return", "Sysret"}
                         \/ (e.ty \notin {"Call", "Syscall"} /\ e.tu \notin FnBlocks(M, f))}

(***************************************************************************)
(* Part 2.  Positions inside a block                                       *)
(***************************************************************************)
Terminated(M, b) == \E e \in M.out[b.u] : e.ty # "Fallthrough"
NonTermUnits(M, b) ==
  IF Terminated(M, b) /\ b.units # <<>> THEN SubSeq(b.units, 1, Len(b.units) - 1) ELSE b.units
ExitOffset(M, b) ==
  LET nt == NonTermUnits(M, b) IN Sum([i \in 1..Len(nt) |-> nt[i].n])
\* instruction boundaries that are not after the terminator
AnywhereOffsets(M, b) ==
  LET x == ExitOffset(M, b)
  IN  {b.units[i].o : i \in {k \in DOMAIN b.units : b.units[k].o <= x}} \cup {x}
Offsets(M, pos, b) ==
  CASE pos = "ENTRY" -> {0}
    [] pos = "EXIT" -> {ExitOffset(M, b)}
    [] pos = "ANYWHERE" -> AnywhereOffsets(M, b)
    [] OTHER -> {}
SetMin(S) == CHOOSE x \in S : \A y \in S : x <= y
\* the code currently picks the first potential offset
FirstOffset(M, pos, b) == SetMin(Offsets(M, pos, b))

(***************************************************************************)
(* Part 3.  Names, patterns, scopes, sites                                 *)
(* A name is a sequence of one-character tokens; the runner sees its       *)
(* spelling.  Patterns:  lit n    the string n                             *)
(*                       relit n  the regular expression n                 *)
(*                       prefix n the regular expression n followed by     *)
(*                                dot-star                                 *)
(*                       any      the regular expression dot-star          *)
(*                       main     MAIN_NAME        ep   ENTRYPOINT_NAME    *)
(***************************************************************************)
NameUniverse ==
  { <<"m", "a", "i", "n">>, <<"f", "a">>, <<"f", "a", "b">>, <<"x", "f", "a">>, <<"g">> }
Spell(toks) == FoldLeft(LAMBDA a, b : a \o b, "", toks)
Tok(n) ==
  LET c == {t \in NameUniverse : Spell(t) = n}
  IN  IF c = {} THEN <<n>> ELSE CHOOSE t \in c : TRUE

PatMatches(M, f, p) ==
  CASE p.k = "lit" -> f = p.n
    [] p.k = "relit" -> f = p.n
    [] p.k = "prefix" -> IsPrefix(Tok(p.n), Tok(f))
    [] p.k = "any" -> TRUE
    [] p.k = "main" -> f = "main"
    [] p.k = "ep" -> M.ep # 0 /\ M.ep \in FnEntries(M, f)
    [] OTHER -> FALSE
FilterMatches(M, f, filt) == \E i \in DOMAIN filt.pats : PatMatches(M, f, filt.pats[i])

\* scope = [kind, pos, fpos, filt : [has, pats], blk]   (blk = block id, single only)
Matches(M, sc, b) ==
  CASE sc.kind = "allblocks" ->
         /\ b.k = "code"
         /\ (b.fn = <<>> \/ ~sc.filt.has \/ ~FilterMatches(M, FnOfBlock(b), sc.filt))
    [] sc.kind = "allfuncs" ->
         /\ b.k = "code" /\ b.fn # <<>>
         /\ (~sc.filt.has \/ FilterMatches(M, FnOfBlock(b), sc.filt))
         /\ IF sc.fpos = "ENTRY" THEN b.u \in FnEntries(M, FnOfBlock(b))
            ELSE b.u \in FnExits(M, FnOfBlock(b))
    [] sc.kind = "single" -> b.u = sc.blk
    [] OTHER -> FALSE
NeedsFunctions(sc) == sc.kind = "allfuncs"

\* reg = [id, pass, scope]
SitesOf(M, reg) ==
  {[reg |-> reg.id, u |-> M.blocks[i].u, pos |-> reg.scope.pos,
    off |-> FirstOffset(M, reg.scope.pos, M.blocks[i]),
    offs |-> Offsets(M, reg.scope.pos, M.blocks[i]),
    fn |-> FnOfBlock(M.blocks[i])] :
     i \in {k \in DOMAIN M.blocks : Matches(M, reg.scope, M.blocks[k])}}
AllSites(M, regs) == UNION {SitesOf(M, regs[i]) : i \in DOMAIN regs}
\* registrations that land on one location, in the order they must appear
OrderAt(sites, u, off) ==
  SortSeq(SetToSeq({s.reg : s \in {x \in sites : x.u = u /\ x.off = off}}), LAMBDA a, b : a < b)
Refused(M, regs) == ~M.hasfns /\ \E i \in DOMAIN regs : NeedsFunctions(regs[i].scope)

\* Placement.  In the edited listing a marker sits at its anchor's original
\* position shifted by the markers that precede it: those anchored in earlier
\* blocks of the section (blocks in address order, zero-sized ones first), at smaller offsets of the same block, or at the same
\* location with a smaller registration id (the end of a block precedes the
\* start of the next one).  A site needs [reg, u, off].
MarkerLen(isa) == IF isa = "arm64" THEN 4 ELSE 5
BlockIdx(st, u) ==
  LET bs == AllBlocks(st)
      c == {i \in DOMAIN bs : bs[i].u = u}
  IN  IF c = {} THEN 0 ELSE CHOOSE i \in c : TRUE
SiteBefore(st, a, b) ==
  /\ SecNameOf(st, a.u) = SecNameOf(st, b.u)
  /\ \/ BlockIdx(st, a.u) < BlockIdx(st, b.u)
         \/ (a.u = b.u /\ (a.off < b.off \/ (a.off = b.off /\ a.reg < b.reg)))
SitePos(st, sites, x, mlen) ==
  BlockByU(st, x.u).p + x.off + mlen * Cardinality({y \in sites : SiteBefore(st, y, x)})
\* set of [reg, u, s, p]
ExpectedPositions(st, sites, mlen) ==
  {[reg |-> x.reg, u |-> x.u, s |-> SecNameOf(st, x.u), p |-> SitePos(st, sites, x, mlen)] : x \in sites}

(***************************************************************************)
(* Part 4.  Shapes                                                         *)
(***************************************************************************)
TemplateUnits(tpl, i, tgt) ==
  CASE tpl = "o1"    -> << <<"op", 1, 10 * i + 1>> >>
    [] tpl = "o23"   -> << <<"op", 2, 10 * i + 1>>, <<"op", 3, 10 * i + 2>> >>
    [] tpl = "jmp"   -> << <<"op", 1, 10 * i + 1>>, <<"op", 2, 10 * i + 2>>, <<"jmp", tgt>> >>
    [] tpl = "jmp1"  -> << <<"jmp", tgt>> >>
    [] tpl = "jcc"   -> << <<"op", 3, 10 * i + 1>>, <<"jcc", tgt>> >>
    [] tpl = "call"  -> << <<"op", 2, 10 * i + 1>>, <<"call", tgt>> >>
    [] tpl = "ret"   -> << <<"op", 1, 10 * i + 1>>, <<"ret">> >>
    [] tpl = "ret1"  -> << <<"ret">> >>
    [] tpl = "ijmp"  -> << <<"op", 2, 10 * i + 1>>, <<"ijmp">> >>
    [] tpl = "icall" -> << <<"op", 2, 10 * i + 1>>, <<"icall">> >>
    \* a system call: the block ends with it (Syscall edge to a proxy) and control comes back
    \* behind it (Fallthrough) - a terminator that is none of branch / call / return
    [] tpl = "sysc"  -> << <<"op", 2, 10 * i + 1>>, <<"sysc">> >>
    [] tpl = "z0"    -> <<>>
    [] tpl = "d3"    -> << <<"d", 3, 10 * i + 1>> >>
    [] tpl = "d4"    -> << <<"d", 4, 10 * i + 1>> >>
IsData(tpl) == tpl \in {"d3", "d4"}
UsesTarget(tpl) == tpl \in {"jmp", "jmp1", "jcc", "call"}
LastKind(tpl) ==
  CASE tpl \in {"o1", "o23", "z0"} -> "op" [] tpl \in {"jmp", "jmp1"} -> "jmp" [] tpl \in {"d3", "d4"} -> "d" [] OTHER -> tpl
LastKindOf(tpl) == IF tpl = "ret1" THEN "ret" ELSE LastKind(tpl)
CanFallthrough(k) == k \in {"op", "jcc", "call", "icall", "sysc"}

UnitSize(isa, un) ==
  IF isa = "arm64" THEN (IF un[1] = "d" THEN un[2] ELSE 4) ELSE
  CASE un[1] = "op" -> un[2]
    [] un[1] \in {"jmp", "call"} -> 5
    [] un[1] = "jcc" -> 6
    [] un[1] = "ret" -> 1
    [] un[1] \in {"ijmp", "icall", "sysc"} -> 2
    [] un[1] = "d" -> un[2]
BName(i) == CASE i = 0 -> "ext" [] i = 1 -> "b1" [] i = 2 -> "b2" [] i = 3 -> "b3" [] i = 4 -> "b4" [] OTHER -> "bx"

\* function index (0 = none) of block i
FnIdx(p, i) ==
  IF IsData(p.tpl[i]) \/ p.fnt # "present" THEN 0
  ELSE CASE p.layout = "none" -> 0
         [] p.layout = "one" -> 1
         [] p.layout = "split1" -> IF i <= 1 THEN 1 ELSE 2
         [] p.layout = "split2" -> IF i <= 2 THEN 1 ELSE 2
         [] p.layout = "tail" -> IF i = 1 THEN 0 ELSE 2
         [] p.layout = "head" -> IF i = 1 THEN 1 ELSE 0
         \* a function-less block between two functions ("loose" code after a
         \* function's block: the function of a block must be looked up per block)
         [] p.layout = "mid" -> IF i = 1 THEN 1 ELSE IF i = 2 THEN 0 ELSE 2
         \* function, function-less block, same function again
         [] p.layout = "gap" -> IF i = 2 THEN 0 ELSE 1
FnName(p, k) == CASE k = 1 -> p.n1 [] k = 2 -> p.n2 [] OTHER -> ""
IsEntry(p, i) ==
  /\ FnIdx(p, i) # 0
  /\ (p.ents = "all" \/ \A j \in 1..(i - 1) : FnIdx(p, j) # FnIdx(p, i))

DefaultName == CHOOSE n \in Names : TRUE
NameOrder == <<"fa", "fab", "xfa", "main", "g">>
NameIdx(n) == IF \E i \in DOMAIN NameOrder : NameOrder[i] = n
              THEN CHOOSE i \in DOMAIN NameOrder : NameOrder[i] = n ELSE 0
\* dependent choices, so that only well-formed parameter records are enumerated
TgtValid(nb, tpl) ==
  IF \A i \in 1..nb : ~UsesTarget(tpl[i]) THEN {SetMin(TgtChoices)}
  ELSE {t \in TgtChoices : t <= nb /\ (t # 0 => ~IsData(tpl[t]))}
EpValid(nb, tpl) == {e \in EpChoices : e <= nb /\ (e # 0 => ~IsData(tpl[e]))}
LayoutFnt(nb) ==
  {lf \in Layouts \X FnTables :
     /\ (lf[2] # "present" => lf[1] = "none")
     /\ (lf[1] \in {"split1", "tail", "head"} => nb >= 2)
     /\ (lf[1] \in {"split2", "mid", "gap"} => nb >= 3)}
NameChoices(l) ==
  CASE l = "none" -> {<<DefaultName, DefaultName, "first">>}
    [] l \in {"one", "head", "gap"} -> {<<n, DefaultName, e>> : n \in Names, e \in EntModes}
    [] l = "tail" -> {<<DefaultName, n, e>> : n \in Names, e \in EntModes}
    [] OTHER -> {x \in {<<n, m, e>> : n \in Names, m \in Names, e \in EntModes} :
                    x[1] # x[2] /\ (BothOrders \/ NameIdx(x[1]) < NameIdx(x[2]))}
ParamsNb(nb) ==
  UNION {UNION {
      {[isa |-> isa, nb |-> nb, tpl |-> tpl, tgt |-> tg, layout |-> lf[1], fnt |-> lf[2],
        n1 |-> nn[1], n2 |-> nn[2], ents |-> nn[3], ep |-> ep, cfg |-> cm, addr |-> am] :
          am \in AddrModes, isa \in Isas, tg \in TgtValid(nb, tpl), ep \in EpValid(nb, tpl), nn \in NameChoices(lf[1]), cm \in CfgModes}
      : lf \in LayoutFnt(nb)}
    : tpl \in {x \in [1..nb -> Templates] : Cardinality({i \in 1..nb : x[i] = "z0"}) <= 1}}
ShapeParams == UNION {ParamsNb(nb) : nb \in 1..MaxBlocks}

\* CFG: [src, dst (0 = a proxy), px (proxy name), ty, c, d]
BlockEdges(p, i) ==
  LET k == LastKindOf(p.tpl[i])
      nxt == IF i < p.nb /\ ~IsData(p.tpl[i + 1]) THEN i + 1 ELSE 0
      e(dst, px, ty, c, d) == [src |-> i, dst |-> dst, px |-> px, ty |-> ty, c |-> c, d |-> d]
      tpx == IF p.tgt = 0 THEN "ext" ELSE ""
      own == "#" \o BName(i)
  IN  IF IsData(p.tpl[i]) \/ p.cfg = "bare" THEN <<>>
      ELSE (IF CanFallthrough(k) /\ nxt # 0 THEN <<e(nxt, "", "Fallthrough", FALSE, TRUE)>> ELSE <<>>)
        \o (CASE k = "jmp" -> <<e(p.tgt, tpx, "Branch", FALSE, TRUE)>>
              [] k = "jcc" -> <<e(p.tgt, tpx, "Branch", TRUE, TRUE)>>
              [] k = "call" -> <<e(p.tgt, tpx, "Call", FALSE, TRUE)>>
              [] k = "ijmp" -> <<e(0, own, "Branch", FALSE, FALSE)>>
              [] k = "icall" -> <<e(0, own, "Call", FALSE, FALSE)>>
              [] k = "ret" -> <<e(0, own, "Return", FALSE, TRUE)>>
              [] k = "sysc" -> <<e(0, own, "Syscall", FALSE, FALSE)>>
              [] OTHER -> <<>>)
EdgesOf(p) == FlattenSeq([i \in 1..p.nb |-> BlockEdges(p, i)])
\* the renderer's edge format: [src sec, src blk, dst, type, conditional, direct]
RenderEdge(e) ==
  IF e.dst = 0 THEN <<0, e.src - 1, <<"proxy", e.px>>, e.ty, e.c, e.d>>
  ELSE <<0, e.src - 1, <<0, e.dst - 1>>, e.ty, e.c, e.d>>

MkShape(p) ==
  LET es == EdgesOf(p) IN
  [isa |-> p.isa,
   addresses |-> p.addr,
   fmt |-> IF p.isa = "ia32" THEN "pe" ELSE "elf",
   sections |-> <<[name |-> ".text",
                   blocks |-> [i \in 1..p.nb |->
                      [kind |-> IF IsData(p.tpl[i]) THEN "data" ELSE "code",
                       units |-> TemplateUnits(p.tpl[i], i, BName(p.tgt)),
                       syms |-> <<BName(i)>>,
                       fn |-> FnName(p, FnIdx(p, i)),
                       entry |-> IsEntry(p, i)]]]>>,
   edges |-> [i \in 1..Len(es) |-> RenderEdge(es[i])],
   proxy_syms |-> <<"ext">>,
   functions |-> p.fnt = "present",
   fntables |-> p.fnt,
   entry_point |-> IF p.ep = 0 THEN <<>> ELSE <<0, p.ep - 1>>]

\* the pre-state of a shape in the projection's format
UnitOffsets(isa, units) ==
  LET f[i \in 0..Len(units)] == IF i = 0 THEN 0 ELSE f[i - 1] + UnitSize(isa, units[i])
  IN  f
ExpandUnits(isa, units) ==
  LET offs == UnitOffsets(isa, units)
      one(j) == LET un == units[j]
                IN  IF un[1] = "d"
                    THEN [x \in 1..UnitSize(isa, un) |-> [o |-> offs[j - 1] + x - 1, n |-> 1, k |-> "data"]]
                    ELSE <<[o |-> offs[j - 1], n |-> UnitSize(isa, un), k |-> un[1]]>>
  IN  FlattenSeq([j \in 1..Len(units) |-> one(j)])

AbsState(p) ==
  LET sh == MkShape(p)
      bs == sh.sections[1].blocks
      sizes == [i \in 1..Len(bs) |-> UnitOffsets(p.isa, bs[i].units)[Len(bs[i].units)]]
      pos == LET f[i \in 0..Len(bs)] == IF i = 0 THEN 0 ELSE f[i - 1] + sizes[i] IN f
      hasf(i) == bs[i].fn # ""
      blk(i) == [u |-> i, k |-> bs[i].kind, p |-> pos[i - 1], n |-> sizes[i],
                 units |-> ExpandUnits(p.isa, bs[i].units),
                 fn |-> IF hasf(i) THEN <<bs[i].fn>> ELSE <<>>,
                 ent |-> IF hasf(i) /\ bs[i].entry THEN <<bs[i].fn>> ELSE <<>>]
      node(i, px) == IF i = 0 THEN <<"proxy", "P:" \o px, 0, 0>>
                     ELSE <<"blk", ".text", pos[i - 1], sizes[i]>>
      fnames == {bs[i].fn : i \in {k \in DOMAIN bs : hasf(k)}}
      es == EdgesOf(p)
  IN  [secs |-> <<[name |-> ".text", blocks |-> [i \in 1..Len(bs) |-> blk(i)]]>>,
       fns |-> SetToSeq(fnames),
       edges |-> [i \in 1..Len(es) |->
                    [s |-> node(es[i].src, ""), t |-> node(es[i].dst, es[i].px), ty |-> es[i].ty]],
       entry |-> IF p.ep = 0 THEN <<"none", "", 0, 0>> ELSE node(p.ep, "")]

(***************************************************************************)
(* Part 5.  Registration and application                                   *)
(***************************************************************************)
NoFilter == [has |-> FALSE, pats |-> <<>>]
Pat(k, n) == [k |-> k, n |-> n]
Filters(p) ==
  (IF "none" \in FilterKinds THEN {NoFilter} ELSE {})
  \cup (IF "empty" \in FilterKinds THEN {[has |-> TRUE, pats |-> <<>>]} ELSE {})
  \cup {[has |-> TRUE, pats |-> <<Pat(k, n)>>] : k \in FilterKinds \cap {"lit", "relit", "prefix"}, n \in PatNames}
  \cup {[has |-> TRUE, pats |-> <<Pat(k, "")>>] : k \in FilterKinds \cap {"any", "main", "ep"}}
  \cup (IF "lit+ep" \in FilterKinds THEN {[has |-> TRUE, pats |-> <<Pat("lit", n), Pat("ep", "")>>] : n \in PatNames} ELSE {})
  \cup (IF "main+prefix" \in FilterKinds THEN {[has |-> TRUE, pats |-> <<Pat("main", ""), Pat("prefix", n)>>] : n \in PatNames} ELSE {})

ScopeChoices(p) ==
  (IF "allblocks" \in ScopeKinds
   THEN {[kind |-> "allblocks", pos |-> q, fpos |-> "", filt |-> f, blk |-> 0] : q \in Positions, f \in Filters(p)}
   ELSE {})
  \cup
  (IF "allfuncs" \in ScopeKinds
   THEN {[kind |-> "allfuncs", pos |-> q, fpos |-> fq, filt |-> f, blk |-> 0] :
            q \in Positions, fq \in FPositions, f \in Filters(p)}
   ELSE {})
  \cup
  \* (naming an empty block explicitly is the caller's error, like insert_at on it)
  (IF "single" \in ScopeKinds
   THEN {[kind |-> "single", pos |-> q, fpos |-> "", filt |-> NoFilter, blk |-> i] :
            q \in Positions, i \in {j \in 1..p.nb : ~IsData(p.tpl[j]) /\ p.tpl[j] # "z0"}}
   ELSE {})

\* registrations in registration order: ids run across passes
Regs(ps) ==
  LET flat == FlattenSeq([i \in 1..Len(ps) |-> [j \in 1..Len(ps[i]) |-> [pass |-> i, scope |-> ps[i][j]]]])
  IN  [k \in 1..Len(flat) |-> [id |-> k - 1, pass |-> flat[k].pass, scope |-> flat[k].scope]]
NRegs(ps) == Sum([i \in 1..Len(ps) |-> Len(ps[i])])
RegById(regs, id) == regs[id + 1]

EmptyStore == [byblock |-> [u \in 1..MaxBlocks |-> <<>>], byscope |-> <<>>]

Init == /\ sp \in ShapeParams
        /\ mod = ModOf(AbsState(sp))
        /\ passes = <<<<>>>>
        /\ store = EmptyStore
        /\ phase = "register"
        /\ applied = <<>>

\* a pass registers one (scope, patch) pair on the shared context
Register ==
  /\ phase = "register"
  /\ NRegs(passes) < MaxRegs
  /\ LET id == NRegs(passes)
         hasf == mod.hasfns
     IN  \E sc \in ScopeChoices(sp) :
           /\ passes' = [passes EXCEPT ![Len(passes)] = Append(@, sc)]
           /\ IF NeedsFunctions(sc) /\ ~hasf
              THEN phase' = "refused" /\ UNCHANGED store
              ELSE /\ phase' = "register"
                   /\ store' = IF sc.kind = "single"
                               THEN [store EXCEPT !.byblock[sc.blk] = Append(@, id)]
                               ELSE [store EXCEPT !.byscope = Append(@, id)]
  /\ UNCHANGED <<sp, mod, applied>>

NewPass ==
  /\ phase = "register"
  /\ Len(passes) < MaxPasses
  /\ passes' = Append(passes, <<>>)
  /\ UNCHANGED <<sp, mod, store, phase, applied>>

\* the design of apply(): blocks in address order; block-keyed then scope-keyed
\* modifications; first potential offset; sort by (offset, registration id)
ApplySeq(M, regs, st) ==
  FlattenSeq([i \in 1..Len(M.blocks) |->
     LET b == M.blocks[i]
         mods == (IF b.u \in DOMAIN st.byblock THEN st.byblock[b.u] ELSE <<>>)
                 \o SelectSeq(st.byscope, LAMBDA id : Matches(M, RegById(regs, id).scope, b))
         ev == [k \in 1..Len(mods) |->
                  [reg |-> mods[k], u |-> b.u, off |-> FirstOffset(M, RegById(regs, mods[k]).scope.pos, b),
                   \* the function handed to the patch is looked up for THIS block
                   \* ("" = none); nothing is carried over from the previous block
                   fn |-> FnOfBlock(b)]]
     IN  SortSeq(ev, LAMBDA x, y : x.off < y.off \/ (x.off = y.off /\ x.reg < y.reg))])

Apply ==
  /\ phase = "register"
  /\ phase' = "applied"
  /\ applied' = ApplySeq(mod, Regs(passes), store)
  /\ UNCHANGED <<sp, mod, passes, store>>

Next == Register \/ NewPass \/ Apply
Spec == Init /\ [][Next]_vars

(***************************************************************************)
(* Invariants (M = the module, regs = the registrations, ap = the          *)
(* applications in order)                                                  *)
(***************************************************************************)
TypeOK == /\ phase \in {"register", "applied", "refused"}
          /\ Len(passes) \in 1..MaxPasses
          /\ NRegs(passes) <= MaxRegs

ExactlyOncePerMatchingBlock(M, regs, ap) ==
  \A r \in DOMAIN regs : \A i \in DOMAIN M.blocks :
     Matches(M, regs[r].scope, M.blocks[i]) =>
        Cardinality({k \in DOMAIN ap : ap[k].reg = regs[r].id /\ ap[k].u = M.blocks[i].u}) = 1

NoSiteInNonMatchingBlock(M, regs, ap) ==
  \A k \in DOMAIN ap :
     /\ ap[k].reg \in 0..(Len(regs) - 1)
     /\ MBlock(M, ap[k].u).u # 0
     /\ Matches(M, RegById(regs, ap[k].reg).scope, MBlock(M, ap[k].u))

NeverAfterTerminator(M, regs, ap) ==
  \A k \in DOMAIN ap :
     LET b == MBlock(M, ap[k].u)
         pos == RegById(regs, ap[k].reg).scope.pos
     IN  /\ ap[k].off \in AnywhereOffsets(M, b)
         /\ ap[k].off <= ExitOffset(M, b)
         /\ ap[k].off \in Offsets(M, pos, b)
         /\ (Terminated(M, b) /\ b.units # <<>> => ap[k].off <= b.units[Len(b.units)].o)

\* same location => registration order (ids follow the passes), both in the
\* sequence of applications and in the edited listing
OrderIsRegistrationOrder(M, regs, ap) ==
  LET sites == {[reg |-> ap[k].reg, u |-> ap[k].u, off |-> ap[k].off] : k \in DOMAIN ap}
      shared == \E s1, s2 \in sites : s1 # s2 /\ s1.u = s2.u /\ s1.off = s2.off
  IN  /\ \A a, b \in DOMAIN regs : a < b => regs[a].pass <= regs[b].pass /\ regs[a].id < regs[b].id
      /\ \A k1, k2 \in DOMAIN ap :
            (k1 < k2 /\ ap[k1].u = ap[k2].u /\ ap[k1].off = ap[k2].off) => ap[k1].reg < ap[k2].reg
      /\ \A s \in sites :
            OrderAt(sites, s.u, s.off) =
               LET here == SelectSeq(ap, LAMBDA e : e.u = s.u /\ e.off = s.off)
               IN  [k \in 1..Len(here) |-> here[k].reg]
      \* ... and in the edited listing (evaluated when a location is shared)
      /\ shared =>
            LET exp == ExpectedPositions(AbsState(sp), sites, MarkerLen(sp.isa))
                posOf(s) == (CHOOSE e \in exp : e.reg = s.reg /\ e.u = s.u).p
            IN  /\ Cardinality({<<e.s, e.p>> : e \in exp}) = Cardinality(sites)
                /\ \A s1, s2 \in sites :
                      (s1.u = s2.u /\ s1.off = s2.off /\ s1.reg < s2.reg) => posOf(s1) < posOf(s2)

AppliedEqualsSites(M, regs, ap) ==
  {[reg |-> ap[k].reg, u |-> ap[k].u, off |-> ap[k].off, fn |-> ap[k].fn] : k \in DOMAIN ap}
    = {[reg |-> s.reg, u |-> s.u, off |-> s.off, fn |-> s.fn] : s \in AllSites(M, regs)}

\* the context names the function of the block itself: none for a block outside
\* every function, wherever it lies relative to function blocks
ContextFunctionIsBlockFunction(M, ap) ==
  \A k \in DOMAIN ap :
     LET b == MBlock(M, ap[k].u)
     IN  /\ (b.fn = <<>> <=> ap[k].fn = "")
         /\ (b.fn # <<>> => ap[k].fn = b.fn[1] /\ ap[k].u \in FnBlocks(M, ap[k].fn))

RefusalIsExact(M, regs) ==
  /\ (phase = "refused" => Refused(M, regs) /\ applied = <<>>)
  /\ (phase = "applied" => ~Refused(M, regs))

(***************************************************************************)
(* Case emission: every terminal state                                     *)
(***************************************************************************)
ScopeJson(sc) ==
  [kind |-> sc.kind, pos |-> sc.pos, fpos |-> sc.fpos, has |-> sc.filt.has, pats |-> sc.filt.pats,
   blk |-> sc.blk - 1]
CaseJson ==
  [shape |-> MkShape(sp),
   passes |-> [i \in 1..Len(passes) |-> [j \in 1..Len(passes[i]) |-> ScopeJson(passes[i][j])]]]
EmitCase == (Emit /\ phase \in {"applied", "refused"}) => PrintT("CASE " \o ToJson(CaseJson))

Inv == /\ TypeOK
       /\ (phase \in {"applied", "refused"} =>
             LET M == mod
                 regs == Regs(passes)
             IN  /\ RefusalIsExact(M, regs)
                 /\ (phase = "applied" =>
                       /\ ExactlyOncePerMatchingBlock(M, regs, applied)
                       /\ NoSiteInNonMatchingBlock(M, regs, applied)
                       /\ NeverAfterTerminator(M, regs, applied)
                       /\ OrderIsRegistrationOrder(M, regs, applied)
                       /\ AppliedEqualsSites(M, regs, applied)
                       /\ ContextFunctionIsBlockFunction(M, applied)))
       /\ EmitCase
=============================================================================
