------------------------------ MODULE TraceAsm ------------------------------
(***************************************************************************)
(* Trace specification of the assembler group (C12, C13).  Every line of   *)
(* TRACE_FILE is one case executed by harness/asm/runner.py: the token     *)
(* sequence, the options, and for the run "whole" (the text in one piece)  *)
(* and the run "chunks" (one assemble() call per chunk) the exception name *)
(* and the mechanical projection R of Assembler.Result, the token-guided   *)
(* capstone decoding, plus optional rewrites that insert the same text at  *)
(* N sites.  Every step consumes one line and prints its VERDICT.          *)
(*                                                                         *)
(* Verdict clauses are the Level A operators of Asm.tla, evaluated on the  *)
(* observed result.  The Level B model is run on the same tokens (with the *)
(* observed instruction sizes) and compared field by field: `drift` in the *)
(* verdict - never a violation.                                            *)
(***************************************************************************)
EXTENDS Asm, AsmRw, IOUtils

Traces == ndJsonDeserialize(IOEnv.TRACE_FILE)
VARIABLE tid

Pairs(seq) == [l \in {seq[i][1] : i \in DOMAIN seq} |-> (CHOOSE i \in DOMAIN seq : seq[i][1] = l)]
ParamsOf(t) ==
  LET ix == Pairs(t.names)
  IN  [tu |-> t.tu, au |-> t.au, icfi |-> t.icfi, sfx |-> t.sfx, ms |-> Range(t.ms),
       plt |-> t.pie /\ t.fmt = "elf" /\ t.isa \in {"x64", "ia32"},
       isa |-> t.isa, syn |-> t.syn, mips |-> t.isa = "mips32",
       rn |-> [l \in NameU |-> t.names[ix[l]][2]]]
\* tokens with the sizes the disassembler observed for the instructions
\* (nothing to observe after a refusal: the nominal sizes are kept)
ObsToks(t, run) ==
  [i \in DOMAIN t.toks |->
     [k |-> t.toks[i].k, l |-> t.toks[i].l, a |-> t.toks[i].a,
      n |-> IF t.toks[i].k \in InsnKinds /\ run.exc = "" THEN run.dec[i].n ELSE t.toks[i].n,
      ch |-> t.toks[i].ch, vc |-> t.toks[i].ch]]

Ctx(t) ==
  LET P == ParamsOf(t)
      W == t.runs[1]
      hasC == Len(t.runs) > 1
      C == IF hasC THEN t.runs[2] ELSE t.runs[1]
      wt0 == ObsToks(t, W)
      wt == Whole(wt0)
      ct == ObsToks(t, C)
  IN  [t |-> t, P |-> P, W |-> W, C |-> C, hasC |-> hasC,
       Vw |-> View(wt, P, W.R, W.exc),
       \* the chunked run is judged with the chunk numbers (label visibility)
       Vc |-> View(ct, P, C.R, C.exc),
       \* refusals of the whole text: labels of later chunks are visible
       wtoks |-> wt0, ctoks |-> ct]

Runs(X) == IF X.hasC THEN <<[V |-> X.Vw, r |-> X.W], [V |-> X.Vc, r |-> X.C]>>
           ELSE <<[V |-> X.Vw, r |-> X.W]>>
AllRuns(X, Cl(_, _)) == \A i \in DOMAIN Runs(X) : Runs(X)[i].V.exc = "" => Cl(Runs(X)[i].V, Runs(X)[i].r)
SomeOk(X) == \E i \in DOMAIN Runs(X) : Runs(X)[i].V.exc = ""

(***************************************************************************)
(* C13_UniqueNames: the same text inserted at N sites of one rewrite       *)
(***************************************************************************)
TempLabels(X) == {X.Vw.toks[i].l : i \in {j \in Idx(X.Vw) : X.Vw.toks[j].k = "label" /\ X.Vw.toks[j].l \in TempNames}}
GlobalLabels(X) == {X.Vw.toks[i].l : i \in {j \in Idx(X.Vw) : X.Vw.toks[j].k \in DefKinds /\ X.Vw.toks[j].l \notin TempNames}}
\* targets for which gtirb-rewriting has an ABI (anything else is refused
\* with NotImplementedError: outside the quantifier)
HasAbi(t) == <<t.isa, t.fmt>> \in {<<"x64", "elf">>, <<"x64", "pe">>, <<"ia32", "pe">>,
                                   <<"arm64", "elf">>, <<"mips32", "elf">>}
RwRuns(X) == X.t.rw # <<>> /\ X.W.exc = "" /\ HasAbi(X.t)
RwDomain(X) ==
  /\ RwRuns(X)
  /\ \A i \in Idx(X.Vw) : X.Vw.toks[i].k \notin ({"sec", "uleb", "align", "assign"} \cup CfiKinds)
  /\ \A i \in RefIdx(X.Vw) : ~Unresolved(X.Vw, i)
  /\ X.Vw.len["text"] > 0
\* legitimate refusals of a rewrite that inserts the text N times
RwAllowed(X, r) ==
  {""}
  \cup (IF r.n > 1 /\ GlobalLabels(X) # {} THEN {"MultipleDefinitionsError"} ELSE {})
  \cup (IF \E i \in Idx(X.Vw) : X.Vw.toks[i].k = "align" THEN {"PaddingError"} ELSE {})
  \cup (IF \E i \in RefIdx(X.Vw) : Unresolved(X.Vw, i) THEN {"UndefSymbolError"} ELSE {})
  \cup (IF \E i \in Idx(X.Vw) : X.Vw.toks[i].k \in CfiKinds
        THEN {"AsmSyntaxError", "UnsupportedAssemblyError"} ELSE {})
  \* documented: "Cannot create a zero-sized block with a label" in another section
  \* (a label at the very end of another section may be left on such a block)
  \cup (IF \E i \in Idx(X.Vw) : /\ X.Vw.toks[i].k = "label" /\ X.Vw.pos[i].sec # "text"
                                 /\ X.Vw.pos[i].o = X.Vw.len[X.Vw.pos[i].sec]
        THEN {"NotImplementedError"} ELSE {})
RwCompletes(X) == \A i \in DOMAIN X.t.rw : X.t.rw[i].exc \in RwAllowed(X, X.t.rw[i])
\* distances label - expression in the stand-alone result
Deltas(X, l) ==
  LET nm == ExpName(X.P, l)
      sy == SelectSeq(X.W.R.syms, LAMBDA y : y.nm = nm)
      p == IF sy = <<>> THEN 0 ELSE sy[1].o + (IF sy[1].e THEN sy[1].n ELSE 0)
  IN  {p - X.W.R.sx[j].o : j \in {q \in DOMAIN X.W.R.sx : X.W.R.sx[q].s1 = nm}}
NRefs(X, l) == Cardinality({q \in DOMAIN X.W.R.sx : X.W.R.sx[q].s1 = ExpName(X.P, l)})
RwOK(X, r) ==
  IF r.exc # ""
  THEN r.exc = "MultipleDefinitionsError" /\ r.n > 1 /\ GlobalLabels(X) # {}
  ELSE /\ (r.n > 1 => GlobalLabels(X) = {})
       \* no two symbols with one name
       /\ \A i, j \in DOMAIN r.syms : i # j => r.syms[i].nm # r.syms[j].nm
       \* one label per copy, each with the caller's suffix
       /\ \A l \in TempLabels(X) :
            LET c == SelectSeq(r.syms, LAMBDA y : y.b = X.P.rn[l])
            IN  /\ Len(c) = r.n
                /\ \A i \in DOMAIN c : c[i].nm # c[i].b /\ c[i].k = "blk"
       \* every copy's reference resolves to its own copy's label
       /\ \A l \in TempLabels(X) :
            LET c == SelectSeq(r.refs, LAMBDA y : y.b = X.P.rn[l])
            IN  /\ Len(c) = r.n * NRefs(X, l)
                /\ \A i \in DOMAIN c : /\ c[i].tk = "blk" /\ c[i].own /\ c[i].ts = c[i].sec
                                       /\ (c[i].tp - c[i].p) \in Deltas(X, l)
       \* module names keep binding to the module's objects
       /\ \A i \in DOMAIN r.refs : r.refs[i].own
C13_UniqueNames(X) == \A i \in DOMAIN X.t.rw : RwOK(X, X.t.rw[i])

(***************************************************************************)
(* Level B drift: the model run on the same tokens vs. the observation     *)
(***************************************************************************)
TokenStart(V, x) ==
  LET c == {i \in Idx(V) : V.pos[i].sec = x.sec /\ V.pos[i].o <= x.o /\ x.o < End(V, i)}
  IN  IF c = {} THEN 0 - 1 ELSE V.pos[CHOOSE i \in c : TRUE].o
SxKey(x, o) == [sec |-> x.sec, o |-> o, k |-> x.k, s1 |-> x.s1, s2 |-> x.s2, add |-> x.add, at |-> x.at]
\* the order of CFI instructions matters only at one and the same offset
CanonProc(p) ==
  [p EXCEPT !.ins = {<<p.ins[q].o, p.ins[q].d,
                       Cardinality({r \in 1..(q - 1) : p.ins[r].o = p.ins[q].o /\ p.ins[r].d = p.ins[q].d}),
                       p.ins[q].v>> : q \in DOMAIN p.ins}]
DriftOf(V, chunks, run) ==
  LET m == RunAll(V.P, chunks)
      M == IF m.err = "" THEN Canon(m, V.P) ELSE EmptyR
      R == run.R
  IN  IF m.err # run.exc THEN <<"exc", m.err>>
      ELSE IF m.err # "" THEN <<>>
      ELSE IF M.secs # R.secs THEN <<"blocks", ToString(M.secs)>>
      ELSE IF NormR(M).edges # NormR(R).edges THEN <<"edges", ToString(NormR(M).edges)>>
      ELSE IF Range(M.syms) # Range(R.syms) THEN <<"symbols", ToString(M.syms)>>
      ELSE IF {SxKey(M.sx[j], M.sx[j].o) : j \in DOMAIN M.sx}
                 # {SxKey(R.sx[j], TokenStart(V, R.sx[j])) : j \in DOMAIN R.sx} THEN <<"sx", ToString(M.sx)>>
      ELSE IF M.nprox # R.nprox THEN <<"proxies", ToString(M.nprox)>>
      ELSE IF Range(M.esa) # Range(R.esa) THEN <<"esa", ToString(M.esa)>>
      ELSE IF {CanonProc(M.cfi[j]) : j \in DOMAIN M.cfi} # {CanonProc(R.cfi[j]) : j \in DOMAIN R.cfi}
           THEN <<"cfi", ToString(M.cfi)>>
      ELSE <<>>
Drift(X) ==
  LET a == DriftOf(X.Vw, <<WholeChunk(X.wtoks)>>, X.W)
      b == IF X.hasC THEN DriftOf(X.Vc, ChunksOf(X.ctoks), X.C) ELSE <<>>
  IN  IF a # <<>> THEN <<"whole">> \o a ELSE IF b # <<>> THEN <<"chunks">> \o b ELSE <<>>

(***************************************************************************)
(* OPEN known findings (narrow signatures; ids of known_findings.json).    *)
(* Fixed findings have no signature here: a relapse is a VIOLATION.        *)
(***************************************************************************)
\* KF-C12-1: MIPS32 `jr $ra` (the return idiom, decoded as a return by the
\* disassembler) is given an indirect branch edge, not a return edge.
EdgeMismatch(V) == {i \in Idx(V) : V.toks[i].k \in Terminators /\ ObservedOut(V, i) # ExpectedOut(V, i)}
KF_C12_1(V) ==
  /\ V.P.mips /\ EdgeMismatch(V) # {} /\ FreshOK(V)
  /\ \A i \in EdgeMismatch(V) :
        V.toks[i].k = "ret" /\ ObservedOut(V, i) = {EL(FreshNode, "branch", FALSE, FALSE)}
  /\ \A e \in V.E : e.ty # "ft" =>
        \E i \in Idx(V) : V.toks[i].k \in Terminators /\ V.pos[i].sec = e.s.sec /\ End(V, i) = e.s.o + e.s.n
\* KF-C13-1: a patch one of whose sections is empty (text: labels only,
\* directives only, or contents for other sections only; another section:
\* switched to but left without contents) makes the rewrite crash.
KF_C13_1(X) ==
  /\ RwRuns(X) /\ \E sn \in X.Vw.used : X.Vw.len[sn] = 0
  /\ \A i \in DOMAIN X.t.rw :
        X.t.rw[i].exc \in RwAllowed(X, X.t.rw[i]) \cup {"AssertionError", "IndexError"}

KfTags(X, clause) ==
  (IF clause = "C12_EdgeShape"
      /\ \A i \in DOMAIN Runs(X) : Runs(X)[i].V.exc = "" =>
            (C12_EdgeShape(Runs(X)[i].V) \/ KF_C12_1(Runs(X)[i].V))
   THEN {"KF-C12-1"} ELSE {})
  \cup
  (IF clause = "C13_Completes" /\ Completes(X.Vc) /\ KF_C13_1(X) THEN {"KF-C13-1"} ELSE {})

(***************************************************************************)
(* Clauses  <<name, in-domain, holds>>                                     *)
(***************************************************************************)
Clauses(X) ==
  LET \* symbol-attribute directives are an ELF feature (on PE LLVM reports them as unsupported)
      dom == InDomain(X.Vw) /\ InDomain(X.Vc) /\ (AttrIdx(X.Vw) # {} => X.t.fmt = "elf")
      ok == dom /\ SomeOk(X)
  IN  << <<"C12_Completes", dom, Completes(X.Vw)>>,
         <<"C12_TargetsNoOffset", dom /\ HasTargetOffset(X.Vw), C12_TargetsNoOffset(X.Vw) /\ C12_TargetsNoOffset(X.Vc)>>,
         <<"C12_Decode", ok, AllRuns(X, LAMBDA V, r : C12_Decode(V, r.dec))>>,
         <<"C12_Tiling", ok, AllRuns(X, LAMBDA V, r : C12_Tiling(V))>>,
         <<"C12_TerminatorsEndBlocks", ok, AllRuns(X, LAMBDA V, r : C12_TerminatorsEndBlocks(V))>>,
         <<"C12_EdgeShape", ok, AllRuns(X, LAMBDA V, r : C12_EdgeShape(V))>>,
         <<"C12_Fallthrough", ok, AllRuns(X, LAMBDA V, r : C12_Fallthrough(V))>>,
         <<"C12_Labels", ok, AllRuns(X, LAMBDA V, r : C12_Labels(V))>>,
         <<"C12_DataConversion", ok /\ ~HasCfi(X.Vw), AllRuns(X, LAMBDA V, r : C12_DataConversion(V))>>,
         <<"C12_Operands", ok, AllRuns(X, LAMBDA V, r : C12_Operands(V, r.dec))>>,
         <<"C12_Alignment", ok, AllRuns(X, LAMBDA V, r : C12_Alignment(V))>>,
         <<"C12_Strings", ok, AllRuns(X, LAMBDA V, r : C12_Strings(V))>>,
         <<"C13_Assignments", ok, AllRuns(X, LAMBDA V, r : C13_Assignments(V))>>,
         <<"C13_SymAttrs", ok, AllRuns(X, LAMBDA V, r : C13_SymAttrs(V))>>,
         <<"C13_TempSuffix", ok, AllRuns(X, LAMBDA V, r : C13_TempSuffix(V))>>,
         <<"C13_Binding", ok, AllRuns(X, LAMBDA V, r : C13_Binding(V))>>,
         <<"C13_MultipleDefinitions", dom, C13_MultipleDefinitions(X.Vw) /\ C13_MultipleDefinitions(X.Vc)>>,
         <<"C13_Undef", dom, C13_Undef(X.Vw) /\ C13_Undef(X.Vc)>>,
         <<"C13_Chunking", dom /\ X.hasC /\ ChunkingDomain(X.Vc), C13_Chunking(X.Vc, X.W.R, X.W.exc)>>,
         <<"C13_UniqueNames", dom /\ RwDomain(X), C13_UniqueNames(X)>>,
         <<"C13_Completes", dom /\ (X.hasC \/ RwRuns(X)),
              Completes(X.Vc) /\ (RwRuns(X) => RwCompletes(X))>> >>

RunDiff(V, run) ==
  [mode |-> run.mode, exc |-> run.exc, stage |-> run.stage, allowed |-> AllowedRefusals(V)]
Diff(name, X) ==
  CASE name \in {"C12_Completes", "C13_MultipleDefinitions", "C13_Undef"} ->
         <<RunDiff(X.Vw, X.W), RunDiff(X.Vc, X.C)>>
    [] name = "C13_Completes" ->
         <<RunDiff(X.Vw, X.W), RunDiff(X.Vc, X.C)>>
            \o [i \in DOMAIN X.t.rw |-> [mode |-> "rewrite", exc |-> X.t.rw[i].exc, stage |-> ToString(X.t.rw[i].n),
                                          allowed |-> RwAllowed(X, X.t.rw[i])]]
    [] name = "C12_EdgeShape" ->
         [i \in DOMAIN Runs(X) |->
            LET V == Runs(X)[i].V
            IN  IF V.exc # "" THEN <<>>
                ELSE SetToSeq({<<i2, ObservedOut(V, i2), ExpectedOut(V, i2)>> : i2 \in EdgeMismatch(V)})]
    [] name = "C13_Chunking" -> <<X.W.exc, X.C.exc, X.W.R, X.C.R>>
    [] name = "C13_UniqueNames" -> X.t.rw
    [] OTHER -> [i \in DOMAIN Runs(X) |-> Runs(X)[i].r.R]

Verdict(t) ==
  LET X == Ctx(t)
      cs == Clauses(X)
      bad == SelectSeq(cs, LAMBDA c : c[2] /\ ~c[3])
      indom == SelectSeq(cs, LAMBDA c : c[2])
  IN  [id |-> t.id,
       indomain |-> [i \in 1..Len(indom) |-> indom[i][1]],
       failed |-> [i \in 1..Len(bad) |->
                     [clause |-> bad[i][1], diff |-> Diff(bad[i][1], X), kf |-> KfTags(X, bad[i][1])]],
       drift |-> Drift(X),
       exc |-> X.W.exc]

(***************************************************************************)
(* Traces of kind "rwx": several patches in one RewritingContext.apply()   *)
(* (AsmRw.tla); the symbol table of the rewritten module is judged.        *)
(***************************************************************************)
RwView(t) ==
  LET ix == Pairs(t.names)
  IN  [ops |-> t.ops, syms |-> t.syms, exc |-> t.exc, rn |-> [l \in RwTemp |-> t.names[ix[l]][2]]]
\* Level B drift: the suffix the model's numbering predicts for every operation
RwDrift(t) ==
  LET S == RwView(t)
      bad == {q \in DOMAIN t.mids :
                RwSuffixes(S, t.mids[q][1]) \notin {{}, {"_" \o ToString(t.mids[q][2])}}}
  IN  IF t.exc = "" /\ bad # {} THEN <<"rewrite", "suffix", ToString(t.syms)>> ELSE <<>>
VerdictRw(t) ==
  LET S == RwView(t)
      cs == << <<"C13_UniqueAcrossPatches",
                 \* (a symbol without referent is no call target: that rewrite is refused)
                 HasAbi(t) /\ ~(t.ext.pre = "none" /\ t.ext.ref = "call"),
                 C13_UniqueAcrossPatches(S)>>,
               <<"C13_ExternBinding", HasAbi(t) /\ t.ext.pre # "off", C13_ExternBinding(t.ext)>> >>
      bad == SelectSeq(cs, LAMBDA c : c[2] /\ ~c[3])
      indom == SelectSeq(cs, LAMBDA c : c[2])
      dom == HasAbi(t)
  IN  [id |-> t.id,
       indomain |-> [i \in 1..Len(indom) |-> indom[i][1]],
       failed |-> [i \in 1..Len(bad) |->
                     [clause |-> bad[i][1],
                      diff |-> [exc |-> t.exc, syms |-> t.syms, order |-> t.order, ext |-> t.ext], kf |-> {}]],
       drift |-> IF dom THEN RwDrift(t) ELSE <<>>,
       exc |-> t.exc]
VerdictOf(t) == IF t.kind = "rwx" THEN VerdictRw(t) ELSE Verdict(t)

TInit == /\ tid = 1
         /\ rwExt = [pre |-> "off", ref |-> ""] /\ rwSyms = {} /\ rwGot = 0 /\ rwOps = <<>>
         /\ rwPh = "trace" /\ rwPid = 0 /\ rwTodo = <<>> /\ rwMade = <<>>
         /\ par = [x |-> 0] /\ prog = <<>> /\ inp = <<>> /\ ph = "trace" /\ st = InitState /\ fin = InitState
TNext == /\ tid <= Len(Traces)
         /\ PrintT("VERDICT " \o ToJson(VerdictOf(Traces[tid])))
         /\ tid' = tid + 1
         /\ UNCHANGED vars /\ UNCHANGED rwVars
AllConsumed == TLCGet("stats").diameter - 1 = Len(Traces)
=============================================================================
