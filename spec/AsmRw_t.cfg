SPECIFICATION RwSpec
CONSTANTS
  RwMaxOps = 4
  RwSites = 2
  RwEmit = TRUE
INVARIANT RwInv
CHECK_DEADLOCK FALSE
