SPECIFICATION Spec
CONSTANTS
  Mode = "fwd"
  Fmts = {"elf", "pe"}
  K1 = 0
  K2 = 0
  K3 = 0
  NVer = 3
  ReqNames = {"1", "1f", "2f", "1_2", "1f_2f", "3f_2f_1f"}
  Emit = TRUE
INVARIANT Inv
CHECK_DEADLOCK FALSE
