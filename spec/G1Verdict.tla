----------------------------- MODULE G1Verdict -----------------------------
(***************************************************************************)
(* The judge of one observed RewritingContext.apply(): every clause of the *)
(* listing group with its domain, the witness of a failed clause and the   *)
(* signatures of the open findings that explain it.  Used by TraceG1 (one  *)
(* apply() per trace line) and by TracePasses (one apply() per module of a *)
(* PassManager run).                                                       *)
(***************************************************************************)
EXTENDS G1Cfi

\* <<name, in-domain, holds>>
\* a clause is evaluated only inside its domain (operator arguments are lazy)
Cl(name, d, h) == <<name, d, IF d THEN h ELSE TRUE>>
Clauses(X, K, C) ==
  LET t == X.t
      dom == DomG1(t)
      done == dom /\ Completed(t)
  IN << Cl("C01_Completes", dom, Completed(t)),
        Cl("C01_Bytes", done /\ NoAlignment(t.pre), C01_Bytes(X)),
        Cl("C02_Positions", done, C02_Positions(X)),
        Cl("C02_Proxy", done, C02_Proxy(X)),
        Cl("C02_PatchLabels", done, C02_PatchLabels(X)),
        Cl("C02_NoStranded", dom, C02_NoStranded(X)),
        Cl("C04_Sx", done, C04_Sx(X)),
        Cl("C04_Ann", done, C04_Ann(X)),
        Cl("C04_InBounds", done, C04_InBounds(X)),
        Cl("C04_SymIdentity", done, C04_SymIdentity(X)),
        Cl("C04_NoStaleOnEmpty", done, C04_NoStaleOnEmpty(X)),
        Cl("C06_Attribution", done, C06_Attribution(X)),
        Cl("C06_DataNever", done, C06_DataNever(X)),
        Cl("C06_Partition", done, C06_Partition(X)),
        Cl("C06_Entries", done, C06_Entries(X)),
        Cl("C06_EmptyFunctionGone", done, C06_EmptyFunctionGone(X)),
        Cl("C06_InsertedFunction", done, C06_InsertedFunction(X)),
        Cl("C03_Completes", IF dom THEN K.preOk ELSE FALSE, Completed(t)),
        Cl("C03_Fallthrough", IF done THEN K.dom ELSE FALSE, C03_Fallthrough(K)),
        Cl("C03_BranchCall", IF done THEN K.dom ELSE FALSE, C03_BranchCall(K)),
        Cl("C03_Returns", IF done THEN K.dom /\ ~RetargetsACall(X) ELSE FALSE, C03_Returns(K)),
        Cl("C03_NoBuriedTerminator", IF done THEN K.dom ELSE FALSE, C03_NoBuriedTerminator(X)),
        Cl("C03_EndpointsAlive", done, C03_EndpointsAlive(X)),
        Cl("C03_FallthroughAdjacent", IF done THEN K.preOk /\ ObsFarFallthrough(t.pre) = {} ELSE FALSE,
           C03_FallthroughAdjacent(X)),
        Cl("C05_Completes", dom /\ t.fault = 0, Completed(t)),
        Cl("C05_BlocksInside", dom, C05_BlocksInside(t)),
        Cl("C05_NoOverlap", dom, C05_NoOverlap(t)),
        Cl("C05_Closed", dom, C05_Closed(t)),
        Cl("C05_ZeroSizedJustified", done, C05_ZeroSizedJustified(t)),
        Cl("C05_Addresses", done, C05_Addresses(t)),
        Cl("C05_Serializes", dom, C05_Serializes(t)),
        Cl("C05_FailIsTheFault", dom /\ t.fault > 0 /\ t.fault <= t.ninv, C05_FailIsTheFault(t)),
        Cl("C05_FailCfgObject", dom /\ t.exc # "", C05_FailCfgObject(t)),
        Cl("C05_FailNoStranded", dom /\ t.exc # "", C05_FailNoStranded(t)),
        Cl("C09_OrderCoherent", dom /\ HasSteps(t), C09_OrderCoherent(t)),
        Cl("C09_FnCoherent", dom /\ HasSteps(t), C09_FnCoherent(t)),
        Cl("C09_RetCoherent", dom /\ HasSteps(t), C09_RetCoherent(t)),
        Cl("C09_RefCoherent", dom /\ HasSteps(t), C09_RefCoherent(t)),
        Cl("C09_DirectView", dom /\ HasSteps(t), C09_DirectView(t)),
        Cl("C09_SameOutcome", dom /\ HasSeq(t) /\ t.fault = 0, C09_SameOutcome(t)),
        Cl("C09_BatchEqSeq", IF done /\ HasSeq(t) THEN t.exc2 = "" /\ SeqComparable(t) ELSE FALSE, C09_BatchEqSeq(X, K)),
        Cl("C08_Completes", IF dom THEN C.relevant /\ C.dom ELSE FALSE, Completed(t)),
        Cl("C08_StillEvaluates", IF done THEN C.relevant /\ C.dom ELSE FALSE, C08_StillEvaluates(C)),
        Cl("C08_Structure", IF done THEN C.relevant /\ C.dom ELSE FALSE, C08_Structure(C)),
        Cl("C08_States", IF done THEN C.relevant /\ C.dom /\ C.postOk ELSE FALSE, C08_States(C)),
        Cl("C08_Membership", IF done THEN C.relevant /\ C.dom /\ C.postOk ELSE FALSE, C08_Membership(X, C)),
        Cl("C08_StatePreserved", IF done THEN C.relevant /\ C.dom /\ C.postOk /\ NoDeletions(t) /\ PatchesBalanced(X, C) ELSE FALSE, C08_StatePreserved(X, C)),
        Cl("C04_Cfi", IF done THEN C.relevant /\ C.dom ELSE FALSE, C04_Cfi(C)) >>

Diff(name, X, K, C) ==
  CASE name = "C01_Bytes" -> C01_Diff(X)
    [] name = "C02_Positions" -> SetDiff(ExpOrigSymFacts(X), ObsOrigSymFacts(X))
    [] name = "C02_Proxy" -> SetDiff(ExpProxied(X) \cup PreProxied(X), ObsProxied(X))
    [] name = "C02_PatchLabels" -> SetDiff(ExpPatchSymFacts(X), ObsPatchSymFacts(X))
    [] name = "C04_Sx" -> SetDiff(UNION {StripPatch(ExpSxFacts(X, nm)) : nm \in SecNames(X.t.pre)},
                                  UNION {ObsSxFacts(X.t.post, nm) : nm \in SecNames(X.t.pre)})
    [] name = "C04_Ann" -> SetDiff(UNION {ExpAnnFacts(X, nm) : nm \in SecNames(X.t.pre)},
                                   UNION {ObsAnnFacts(X.t.post, nm) : nm \in SecNames(X.t.pre)})
    [] name = "C06_Attribution" -> SetDiff(UNION {ExpFnFacts(X, nm) : nm \in SecNames(X.t.pre)},
                                           UNION {ObsFnFacts(X.t.post, nm) : nm \in SecNames(X.t.pre)})
    [] name = "C06_Entries" -> SetDiff(UNION {ExpEntryFacts(X, nm) : nm \in SecNames(X.t.pre)},
                                       UNION {ObsEntryFacts(X.t.post, nm) : nm \in SecNames(X.t.pre)})
    [] name = "C06_EmptyFunctionGone" -> SetDiff(ExpLiveFns(X), ObsFnNames(X) \cap PreFnNames(X))
    [] name = "C03_Fallthrough" -> SetDiff(K.exp.ft, ByType(K.obs, {"Fallthrough"}))
    [] name = "C03_BranchCall" -> SetDiff(K.exp.bc, ByType(K.obs, {"Branch", "Call"}))
    [] name = "C03_Returns" -> SetDiff(K.exp.ret, ByType(K.obs, {"Return"}))
    [] name = "C03_NoBuriedTerminator" -> Buried(X.t.post)
    [] name = "C03_FallthroughAdjacent" -> ObsFarFallthrough(X.t.post)
    [] name = "C03_EndpointsAlive" -> <<ObsStale(X.t.post), ObsOddSources(X.t.post)>>
    [] name = "C01_Completes" -> <<X.t.exc, X.t.stage>>
    [] name = "C03_Completes" -> <<X.t.exc, X.t.stage>>
    [] name = "C05_Completes" -> <<X.t.exc, X.t.stage>>
    [] name = "C08_Completes" -> <<X.t.exc, X.t.stage>>
    [] name \in {"C04_Cfi", "C08_Structure"} ->
         [nm \in DOMAIN C.S |-> [exp |-> Stream(C.S[nm].Ex), obs |-> Stream(C.S[nm].Lp)]]
    [] name = "C08_StillEvaluates" -> [nm \in DOMAIN C.S |-> C.S[nm].Rp.err]
    [] name = "C08_States" ->
         [nm \in DOMAIN C.S |-> SetDiff(Range(InsnStates(C.S[nm].Ex, C.S[nm].Re)), Range(InsnStates(C.S[nm].Lp, C.S[nm].Rp)))]
    [] name = "C08_Membership" ->
         [nm \in DOMAIN C.S |-> SetDiff(SurvivingOrig(X, OrigStates(C.S[nm].L0, C.S[nm].R0, FALSE)), PostOrigStates(C, nm, FALSE))]
    [] name = "C08_StatePreserved" ->
         [nm \in DOMAIN C.S |-> SetDiff(OrigStates(C.S[nm].L0, C.S[nm].R0, TRUE), PostOrigStates(C, nm, TRUE))]
    [] name = "C09_BatchEqSeq" -> FactDiff(AllFacts(X), AllFacts(Seq2(X)))
    [] name = "C09_SameOutcome" -> <<X.t.exc, X.t.exc2>>
    [] name = "C09_DirectView" -> DirectViewWitness(X.t)
    [] name \in {"C09_OrderCoherent", "C09_FnCoherent", "C09_RetCoherent", "C09_RefCoherent"} ->
         SelectSeq(X.t.steps, LAMBDA st : st.ordc # st.ordt \/ st.fnc # st.fnt \/ st.retc # st.rett \/ ~st.cfg_is_cache
                                          \/ \E j \in DOMAIN st.refc : st.refc[j][2] = 0 - 1
                                                 \/ (st.refd[j][2] # 0 /\ st.refd[j] # st.refc[j]))
    [] name = "C05_Closed" -> <<ObsStale(X.t.post), SelectSeq(X.t.whole.aux, LAMBDA a : a.stale # 0),
                                 SelectSeq(X.t.post.syms, LAMBDA y : y.k \in {"stale", "stale_proxy"})>>
    [] name = "C05_Serializes" -> <<X.t.whole.ser_ok, X.t.whole.ser_err>>
    [] name \in {"C05_FailIsTheFault", "C05_FailCfgObject", "C05_FailNoStranded"} ->
         <<X.t.exc, X.t.whole.cfg_same_obj, X.t.whole.cfg_type>>
    [] OTHER -> <<>>

Verdict(t) ==
  LET X == Ctx(t)
      K == CfgK(X)
      C == CfiK(X, NoDev)
      cs == Clauses(X, K, C)
      bad == SelectSeq(cs, LAMBDA c : c[2] /\ ~c[3])
      indom == SelectSeq(cs, LAMBDA c : c[2])
  IN  [id |-> t.id,
       indomain |-> [i \in 1..Len(indom) |-> indom[i][1]],
       failed |-> [i \in 1..Len(bad) |-> [clause |-> bad[i][1], diff |-> Diff(bad[i][1], X, K, C), kf |-> IF bad[i][1] \in {"C09_DirectView", "C09_SameOutcome"}
                      THEN (IF KF_C09_1(X) /\ (bad[i][1] = "C09_DirectView" \/ X.t.exc = "UnsupportedAssemblyError")
                            THEN {"KF-C09-1"} ELSE {})
                      ELSE IF bad[i][1] = "C09_BatchEqSeq" THEN KfBatch(X, K)
                      ELSE IF bad[i][1] \in {"C08_States", "C08_Structure", "C04_Cfi", "C08_StillEvaluates", "C08_Membership", "C08_Completes"}
                      THEN (LET C2 == CfiK(X, [dropEnd |-> FALSE, dropInit |-> TRUE, lateEnd |-> FALSE])
                                C3 == CfiK(X, [dropEnd |-> FALSE, dropInit |-> FALSE, lateEnd |-> TRUE])
                                fits(D) == /\ D.dom /\ C08_Structure(D) /\ C04_Cfi(D)
                                           /\ (D.postOk => C08_States(D))
                                           /\ (\A nm \in DOMAIN D.S : D.S[nm].Rp.err = D.S[nm].Re.err)
                            IN  IF fits(C2) THEN {"KF-C08-2"}
                                ELSE IF (\E nm \in DOMAIN C3.S : C3.S[nm].Ex # C.S[nm].Ex) /\ fits(C3) THEN {"KF-C08-3"}
                                ELSE {})
                      ELSE KfTags(X, K, bad[i][1])]],
       exc |-> t.exc]

=============================================================================
