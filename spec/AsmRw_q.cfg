SPECIFICATION RwSpec
CONSTANTS
  RwMaxOps = 3
  RwSites = 2
  RwEmit = TRUE
INVARIANT RwInv
CHECK_DEADLOCK FALSE
