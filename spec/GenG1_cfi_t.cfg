SPECIFICATION Spec
CONSTANTS
  MaxBlocks = 3
  MaxReqs = 2
  Templates = {"o23", "ret", "d3"}
  PatchKinds = {"plain2", "cfi", "cfistate", "loop"}
  FnLayouts = {"none", "one"}
  EndSyms = {FALSE}
  NoSyms = {FALSE}
  AnnModes = {"none"}
  WithProxyDel = TRUE
  CfiLayouts = {"none", "proc_all", "proc_each", "proc_rs"}
  Isa = "x64"
  WithScopes = FALSE
  Fmts = {"elf"}
  WholeOnly = FALSE
  Leads = {0}
  DropFnTables = {FALSE}
  ExtraData = {FALSE}
  Retargets = {FALSE}
  AlignOpts = {0}
  Aliases = {FALSE}
  SharedRet = {FALSE}
  InsFns = {"none"}
  Emit = TRUE
INVARIANT Inv
CHECK_DEADLOCK FALSE
