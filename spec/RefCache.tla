------------------------------ MODULE RefCache ------------------------------
(***************************************************************************)
(* C20 -- the reference cache of src/gtirb_rewriting/_modify/cache.py      *)
(* (ReferenceCache / RefNode) at two levels, in one state machine.         *)
(*                                                                         *)
(* Level A (the property): ref : Sym -> (Block \cup {None}) x BOOLEAN,     *)
(* "assigning Symbol.referent / Symbol.at_end directly".                   *)
(*                                                                         *)
(* Level B (implementation-shaped): the forest of RefNodes with separate   *)
(* parent pointers and children sets, the per-node symbol sets, the        *)
(* `_referents` and `_references` tables and the direct Symbol.referent /  *)
(* Symbol.at_end attributes.  Every action is written the way the code     *)
(* does it (retarget_references links the two source trees under the       *)
(* target's start/end node; get_referent compresses the path and prunes    *)
(* empty nodes; _make_direct_refs flattens subtrees under the root and is  *)
(* a generator that the consumer may abandon after k yields).              *)
(*                                                                         *)
(* TLC checks, for every history up to MaxLen operations:                  *)
(*   Refines   Abs(forest) = ref  after every action,                      *)
(*   WF        the forest is well formed (acyclic, parent/children         *)
(*             inverse, every root registered in `_references`,            *)
(*             `_referents[s]` is the node holding s, no symbol both       *)
(*             direct and indirect),                                       *)
(*   Results   every returned / yielded value equals the Level-A value     *)
(*             (Assert inside the actions: evaluated on every transition), *)
(*   Applied   Apply leaves nothing indirect and an empty cache.           *)
(* With Emit = TRUE every distinct state is printed as a case (shortest    *)
(* witness history + the operations enabled in it) for frontier replay     *)
(* into the real ReferenceCache.  `hist` is hidden by the VIEW.            *)
(*                                                                         *)
(* Encoding: blocks 1..NB, None = 0, symbols 1..NS, node ids 1.. ;         *)
(* a parent that is a block b is stored as -b.                             *)
(***************************************************************************)
EXTENDS Integers, Sequences, FiniteSets, TLC, Json

CONSTANTS NB,        \* number of blocks
          NS,        \* number of symbols
          MaxLen,    \* bound on the length of histories
          Inits,     \* "diag": s_i -> block i at start; "all": every ref map
          Symmetric, \* quotient the state space by block / symbol permutations
          Emit       \* print cases

Blocks == 1..NB
Syms == 1..NS
None == 0
KAll == 0            \* get_references consumed to exhaustion

VARIABLES ref,       \* Level A: [Syms -> [b : 0..NB, e : BOOLEAN]]
          F,         \* Level B record (see InitF)
          hist       \* <<init, ops>> -- hidden by the VIEW

B2I(x) == IF x THEN 1 ELSE 0

(***************************************************************************)
(* Level A                                                                 *)
(***************************************************************************)
ARefs(r, b) == {s \in Syms : r[s].b = b}
ARetarget(r, b, to, e) == [s \in Syms |-> IF r[s].b = b THEN [b |-> to, e |-> e] ELSE r[s]]
ASet(r, s, to, e) == [r EXCEPT ![s] = [b |-> to, e |-> e]]

(***************************************************************************)
(* Level B helpers                                                         *)
(***************************************************************************)
Nodes(f) == DOMAIN f.par
IsNode(p) == p > 0
NoPair == <<0, 0>>
NewId(used) == CHOOSE i \in 1..(Cardinality(used) + 1) : i \notin used

InitF(r) == [par  |-> <<>>,                           \* node -> node | -block
             ch   |-> <<>>,                           \* node -> set of nodes
             sy   |-> <<>>,                           \* node -> set of symbols
             rfts |-> [s \in Syms |-> 0],            \* _referents (0 = absent)
             rfcs |-> [b \in Blocks |-> NoPair],     \* _references
             dir  |-> [s \in Syms |-> r[s].b],       \* Symbol.referent
             ate  |-> [s \in Syms |-> r[s].e]]       \* Symbol.at_end

AddNode(f, n, b) == [f EXCEPT !.par = (n :> -b) @@ @, !.ch = (n :> {}) @@ @, !.sy = (n :> {}) @@ @]

\* Python's garbage collector: nodes that nothing refers to disappear.
RECURSIVE Closure(_, _)
Closure(f, S) ==
  LET T == S \cup UNION {f.ch[n] : n \in S} \cup {f.par[n] : n \in {m \in S : IsNode(f.par[m])}}
  IN  IF T = S THEN S ELSE Closure(f, T)

GC(f) ==
  LET roots == {f.rfcs[b][1] : b \in {x \in Blocks : f.rfcs[x] # NoPair}}
               \cup {f.rfcs[b][2] : b \in {x \in Blocks : f.rfcs[x] # NoPair}}
               \cup {f.rfts[s] : s \in {x \in Syms : f.rfts[x] # 0}}
      keep == Closure(f, roots \cap Nodes(f))
  IN  [f EXCEPT !.par = TLCEval([n \in keep |-> f.par[n]]),
                !.ch = TLCEval([n \in keep |-> f.ch[n]]),
                !.sy = TLCEval([n \in keep |-> f.sy[n]]),
                !.rfts = TLCEval(f.rfts), !.dir = TLCEval(f.dir), !.ate = TLCEval(f.ate),
                !.rfcs = TLCEval(f.rfcs)]

(***************************************************************************)
(* retarget_references(block, to_block, at_end), links the source trees    *)
(* under the target's start / end node (to_block # None).  The branch for  *)
(* to_block = None (`assert not any(self.get_references(block))`) needs    *)
(* the generator and is defined after it: BRetarget below.                 *)
(***************************************************************************)
BRetargetLink(f, b, to, e) ==
  LET drefs == {s \in Syms : f.dir[s] = b}            \* block.references
      has == f.rfcs[b] # NoPair
      n1 == IF has THEN f.rfcs[b][1] ELSE NewId(Nodes(f))
      n2 == IF has THEN f.rfcs[b][2] ELSE NewId(Nodes(f) \cup {n1})
      f1 == IF has THEN [f EXCEPT !.rfcs[b] = NoPair]          \* pop
            ELSE AddNode(AddNode(f, n1, b), n2, b)
      \* direct references become indirect
      ok2 == Assert(\A s \in drefs : f.rfts[s] = 0, "symbol has both direct and indirect references")
      f2 == [f1 EXCEPT !.sy[n1] = @ \cup {s \in drefs : ~f.ate[s]},
                       !.sy[n2] = @ \cup {s \in drefs : f.ate[s]},
                       !.rfts = TLCEval([s \in Syms |-> IF s \in drefs
                                                THEN (IF f.ate[s] THEN n2 ELSE n1)
                                                ELSE f.rfts[s]]),
                       !.dir = TLCEval([s \in Syms |-> IF s \in drefs THEN None ELSE f.dir[s]])]
      hasTo == f2.rfcs[to] # NoPair
      t1 == IF hasTo THEN f2.rfcs[to][1] ELSE NewId(Nodes(f2))
      t2 == IF hasTo THEN f2.rfcs[to][2] ELSE NewId(Nodes(f2) \cup {t1})
      f3 == IF hasTo THEN f2
            ELSE [AddNode(AddNode(f2, t1, to), t2, to) EXCEPT !.rfcs[to] = <<t1, t2>>]
      tgt == IF e THEN t2 ELSE t1
  IN  IF ok2
      THEN [f3 EXCEPT !.ch[tgt] = @ \cup {n1, n2}, !.par[n1] = tgt, !.par[n2] = tgt]
      ELSE f

(***************************************************************************)
(* get_referent(symbol): walk to the root, compressing and pruning         *)
(***************************************************************************)
RECURSIVE GRLoop(_, _, _)
GRLoop(f, r, p) ==
  IF ~IsNode(p) THEN <<f, r, p>>
  ELSE
    LET g == f.par[p]
        ok == Assert(r \in f.ch[p], "get_referent: parent.children.remove(ref) KeyError")
        f2 == IF f.ch[r] = {} /\ f.sy[r] = {}
              THEN [f EXCEPT !.ch[p] = @ \ {r}]
              ELSE IF IsNode(g)
                   THEN [f EXCEPT !.ch[p] = @ \ {r}, !.ch[g] = @ \cup {r}, !.par[r] = g]
                   ELSE f
    IN  IF ok THEN GRLoop(f2, p, g) ELSE <<f, r, p>>

\* <<f', returned block>>
BGetReferent(f, s) ==
  IF f.rfts[s] = 0 THEN <<f, f.dir[s]>>
  ELSE
    LET n0 == f.rfts[s]
        ok0 == Assert(s \in f.sy[n0], "get_referent: ref.symbols.remove KeyError")
        f1 == [f EXCEPT !.rfts[s] = 0, !.sy[n0] = @ \ {s}]
        w == GRLoop(f1, n0, f1.par[n0])
        f2 == w[1]
        blk == -w[3]
        ok == Assert(f2.rfcs[blk] # NoPair, "get_referent: self._references[parent] KeyError")
        f3 == [f2 EXCEPT !.dir[s] = blk, !.ate[s] = (w[2] = f2.rfcs[blk][2])]
    IN  IF ok0 /\ ok THEN <<GC(f3), blk>> ELSE <<f, -1>>

(***************************************************************************)
(* set_referent(symbol, referent, at_end)                                  *)
(***************************************************************************)
BSetReferent(f, s, to, e) ==
  LET f1 == IF f.rfts[s] # 0
            THEN [f EXCEPT !.sy[f.rfts[s]] = @ \ {s}, !.rfts[s] = 0]
            ELSE f
  IN  GC([f1 EXCEPT !.dir[s] = to, !.ate[s] = e])

(***************************************************************************)
(* get_references(block) / _make_direct_refs as a generator.               *)
(* A configuration c is the suspended generator: the cache state c.f, the  *)
(* phase, and its local variables.  Ev(c) runs it to the next yield (y =   *)
(* the symbol) or to its end (y = 0).  Iteration order of Python sets and  *)
(* the order of the work list are left open (all orders are explored).     *)
(***************************************************************************)
GenStart(f, b) == [f |-> f, b |-> b, ph |-> "d", dl |-> {s \in Syms : f.dir[s] = b},
                   wh |-> 0, root |-> 0, wl |-> {}, node |-> 0, sl |-> {}]

\* worklist.pop() = n; the children of n move under the root
AfterPop(c, n) ==
  LET f == c.f
      kids == f.ch[n]
      f1 == IF n = c.root
            THEN [f EXCEPT !.par = TLCEval([m \in DOMAIN f.par |-> IF m \in kids THEN c.root ELSE f.par[m]])]
            ELSE [f EXCEPT !.ch[n] = {}, !.ch[c.root] = @ \cup kids,
                           !.par = TLCEval([m \in DOMAIN f.par |-> IF m \in kids THEN c.root ELSE f.par[m]])]
  IN  [c EXCEPT !.f = f1, !.wl = (@ \ {n}) \cup kids, !.node = n, !.sl = f.sy[n], !.ph = "s"]

YieldSym(c, s) ==
  LET ok == Assert(c.f.rfts[s] # 0, "_make_direct_refs: del self._referents[symbol] KeyError")
  IN  IF ok THEN [c EXCEPT !.f.sy[c.node] = @ \ {s}, !.f.rfts[s] = 0,
                           !.f.dir[s] = c.b, !.f.ate[s] = (c.wh = 2), !.sl = @ \ {s}]
      ELSE c

FinishNode(c) ==
  IF c.f.par[c.node] = c.root
  THEN LET ok == Assert(c.f.ch[c.node] = {}, "cycle in reference tree")
           ok2 == Assert(c.node \in c.f.ch[c.root], "root.children.remove(node) KeyError")
       IN  IF ok /\ ok2 THEN [c EXCEPT !.f.ch[c.root] = @ \ {c.node}, !.ph = "pop"] ELSE c
  ELSE [c EXCEPT !.ph = "pop"]

StartTree(c, w) ==
  LET r == c.f.rfcs[c.b][w]
  IN  [c EXCEPT !.ph = "pop", !.wh = w, !.root = r, !.wl = {r}]

RECURSIVE Ev(_)
Ev(c) ==
  CASE c.ph = "d" ->
         IF c.dl # {} THEN {[y |-> s, c |-> [c EXCEPT !.dl = @ \ {s}]] : s \in c.dl}
         ELSE IF c.f.rfcs[c.b] = NoPair THEN {[y |-> 0, c |-> c]}
         ELSE Ev(StartTree(c, 1))
    [] c.ph = "pop" ->
         IF c.wl # {} THEN UNION {Ev(AfterPop(c, n)) : n \in c.wl}
         ELSE IF c.wh = 1 THEN Ev(StartTree(c, 2))
         ELSE {[y |-> 0, c |-> [c EXCEPT !.f.rfcs[c.b] = NoPair, !.ph = "fin"]]}
    [] c.ph = "s" ->
         IF c.sl # {} THEN {[y |-> s, c |-> YieldSym(c, s)] : s \in c.sl}
         ELSE Ev(FinishNode(c))

\* Outcomes of consuming at most k items: the cache state when the consumer
\* stops, the yields <<symbol, referent, at_end>> as seen when yielded, and
\* whether the generator ran to its end.
RECURSIVE Run(_, _)
Run(c, k) ==
  UNION { IF e.y = 0 THEN {[f |-> e.c.f, out |-> <<>>, fin |-> TRUE]}
          ELSE LET item == <<e.y, e.c.f.dir[e.y], e.c.f.ate[e.y]>>
               IN  IF k = 1 THEN {[f |-> e.c.f, out |-> <<item>>, fin |-> FALSE]}
                   ELSE {[o EXCEPT !.out = <<item>> \o @] : o \in Run(e.c, k - 1)}
        : e \in Ev(c) }

Limit == 2 * NS + 2
BGetReferences(f, b, k) == Run(GenStart(f, b), IF k = KAll THEN Limit ELSE k)

\* retarget_references: the set of possible resulting cache states.
\* to_block = None: `any(get_references(block))` must find nothing (else the
\* call is outside the domain: AssertionError); running the generator to its
\* end also drops a pair of empty trees left over from earlier retargets.
BRetarget(f, b, to, e) ==
  IF {s \in Syms : f.dir[s] = b} = {} /\ f.rfcs[b] = NoPair THEN {f}
  ELSE IF to = None
  THEN {LET ok == Assert(o.out = <<>> /\ o.fin, "retarget_references: assert not any(get_references(block))")
        IN  IF ok THEN o.f ELSE f : o \in Run(GenStart(f, b), 1)}
  ELSE {BRetargetLink(f, b, to, e)}

\* the generators that apply() consumes: only the indirect part of block b
BApplyBlock(f, b) ==
  IF f.rfcs[b] = NoPair THEN {f}
  ELSE {o.f : o \in Run(StartTree([GenStart(f, b) EXCEPT !.dl = {}], 1), Limit)}

\* apply() consumes both trees of every registered block but -- unlike
\* get_references -- deletes the entries only at the end (_references.clear()).
RECURSIVE BApplyFrom(_, _)
BApplyFrom(fs, b) ==
  IF b > NB THEN fs
  ELSE BApplyFrom(UNION {BApplyBlock(f, b) : f \in fs}, b + 1)

BApply(f) ==
  LET outs == BApplyFrom({f}, 1)
  IN  {LET ok == Assert(\A s \in Syms : g.rfts[s] = 0, "apply: assert not self._referents")
       IN  IF ok THEN GC([g EXCEPT !.rfcs = [b \in Blocks |-> NoPair]]) ELSE g : g \in outs}

(***************************************************************************)
(* Refinement mapping and invariants                                       *)
(***************************************************************************)
RECURSIVE RootOf(_, _, _)
\* <<root node, block>> of node n, <<0, 0>> if no root is reached in `fuel` steps
RootOf(f, n, fuel) ==
  IF n \notin Nodes(f) \/ fuel = 0 THEN <<0, 0>>
  ELSE IF IsNode(f.par[n]) THEN RootOf(f, f.par[n], fuel - 1)
  ELSE <<n, -f.par[n]>>

Abs(f) ==
  [s \in Syms |->
     IF f.rfts[s] = 0 THEN [b |-> f.dir[s], e |-> f.ate[s]]
     ELSE LET rt == RootOf(f, f.rfts[s], Cardinality(Nodes(f)) + 1)
          IN  IF rt[1] = 0 \/ f.rfcs[rt[2]] = NoPair THEN [b |-> -1, e |-> FALSE]
              ELSE [b |-> rt[2], e |-> rt[1] = f.rfcs[rt[2]][2]]]

WFf(f) ==
  LET N == Nodes(f)
      fuel == Cardinality(N) + 1
  IN
  /\ DOMAIN f.ch = N /\ DOMAIN f.sy = N
  /\ \A n \in N :
       /\ f.ch[n] \subseteq N
       /\ \A c \in f.ch[n] : f.par[c] = n                       \* children -> parent
       /\ IF IsNode(f.par[n])
          THEN f.par[n] \in N /\ n \in f.ch[f.par[n]]           \* parent -> children
          ELSE LET b == -f.par[n]                                \* roots are registered
               IN  b \in Blocks /\ f.rfcs[b] # NoPair /\ n \in {f.rfcs[b][1], f.rfcs[b][2]}
       /\ RootOf(f, n, fuel)[1] # 0                              \* acyclic
       /\ \A s \in f.sy[n] : f.rfts[s] = n
  /\ \A b \in Blocks : f.rfcs[b] # NoPair =>
       /\ f.rfcs[b][1] \in N /\ f.rfcs[b][2] \in N /\ f.rfcs[b][1] # f.rfcs[b][2]
       /\ f.par[f.rfcs[b][1]] = -b /\ f.par[f.rfcs[b][2]] = -b
  /\ \A s \in Syms :
       /\ f.rfts[s] # 0 => f.rfts[s] \in N /\ s \in f.sy[f.rfts[s]]
       /\ f.rfts[s] # 0 => f.dir[s] = None                       \* never both
WF == WFf(F)
Refines == Abs(F) = ref
NothingIndirect(f) == Nodes(f) = {} /\ (\A s \in Syms : f.rfts[s] = 0) /\ (\A b \in Blocks : f.rfcs[b] = NoPair)

TypeOK == /\ ref \in [Syms -> [b : 0..NB, e : BOOLEAN]]
          /\ \A s \in Syms : F.dir[s] \in 0..NB /\ F.ate[s] \in BOOLEAN /\ F.rfts[s] \in Nat
          /\ \A n \in Nodes(F) : F.par[n] \in (-NB..-1) \cup Nodes(F)

(***************************************************************************)
(* The VIEW: the state up to renaming of node ids (a node is the pair of   *)
(* its symbol set and the multiset of its subtrees) and -- with Symmetric  *)
(* = TRUE -- up to permutations of the blocks and of the symbols (the set  *)
(* of all permuted views is a canonical form of the orbit).  Every         *)
(* operator above treats block and symbol names uniformly, so equivalent   *)
(* states have equivalent futures.  Symbol.at_end of an indirect symbol is *)
(* dead (always overwritten before it is read) and masked.                 *)
(***************************************************************************)
RECURSIVE CanonP(_, _, _)
CanonP(f, n, ps) ==
  LET sub == TLCEval([c \in f.ch[n] |-> CanonP(f, c, ps)])
      kinds == {sub[c] : c \in f.ch[n]}
  IN  <<{ps[s] : s \in f.sy[n]}, {<<k, Cardinality({c \in f.ch[n] : sub[c] = k})>> : k \in kinds}>>

SymViews(sp, bps) ==
  LET ps == sp[1]
      qs == sp[2]
      trees == TLCEval([b \in Blocks |-> IF F.rfcs[b] = NoPair THEN <<>>
                                 ELSE <<CanonP(F, F.rfcs[b][1], ps), CanonP(F, F.rfcs[b][2], ps)>>])
      rr == TLCEval([t \in Syms |-> ref[qs[t]]])
      dd == TLCEval([t \in Syms |-> F.dir[qs[t]]])
      aa == TLCEval([t \in Syms |-> IF F.rfts[qs[t]] = 0 THEN F.ate[qs[t]] ELSE FALSE])
  IN  {LET pb == bp[1]
           qb == bp[2]
           P(x) == IF x \in Blocks THEN pb[x] ELSE x
       IN  <<[t \in Syms |-> <<P(rr[t].b), rr[t].e>>], [t \in Syms |-> P(dd[t])], aa,
             [c \in Blocks |-> trees[qb[c]]]>> : bp \in bps}

\* Permutation-invariant integer colours (one round of colour refinement):
\* only permutations that sort the colours need to be tried -- the set of
\* views over those is still a canonical form of the orbit, because the
\* colours of a permuted state are the permuted colours.
RECURSIVE SumOver(_, _)
SumOver(k, S) == IF S = {} THEN 0 ELSE LET x == CHOOSE y \in S : TRUE IN k[x] + SumOver(k, S \ {x})

\* p sorts the colours iff no inversion of p strictly decreases the colour
Inversions(p) == {xy \in (DOMAIN p) \X (DOMAIN p) : p[xy[1]] > p[xy[2]]}
Monotone(pp, key) == \A xy \in pp[3] : key[xy[1]] >= key[xy[2]]

Inv(p) == [y \in DOMAIN p |-> CHOOSE x \in DOMAIN p : p[x] = y]
Ident(S) == [x \in S |-> x]
BPairs == TLCEval(IF Symmetric THEN {<<p, TLCEval(Inv(p)), TLCEval(Inversions(p))>> : p \in Permutations(Blocks)} ELSE {<<TLCEval(Ident(Blocks)), TLCEval(Ident(Blocks)), {}>>})
SPairs == TLCEval(IF Symmetric THEN {<<p, TLCEval(Inv(p)), TLCEval(Inversions(p))>> : p \in Permutations(Syms)} ELSE {<<TLCEval(Ident(Syms)), TLCEval(Ident(Syms)), {}>>})

PermSets ==
    LET bk0 == TLCEval([b \in Blocks |-> Cardinality(ARefs(ref, b))
                                 + 4 * Cardinality({s \in ARefs(ref, b) : ref[s].e})
                                 + 16 * B2I(F.rfcs[b] # NoPair)
                                 + 32 * Cardinality({s \in Syms : F.dir[s] = b})])
        sk == TLCEval([s \in Syms |-> B2I(F.rfts[s] # 0) + 2 * B2I(ref[s].e) + 4 * B2I(ref[s].b = None)
                              + 8 * (IF ref[s].b = None THEN 0 ELSE bk0[ref[s].b])])
        bk == TLCEval([b \in Blocks |-> bk0[b] + 128 * SumOver(sk, ARefs(ref, b))])
        sps == IF Symmetric THEN {sp \in SPairs : Monotone(sp, sk)} ELSE SPairs
        bps == TLCEval(IF Symmetric THEN {bp \in BPairs : Monotone(bp, bk)} ELSE BPairs)
    IN  <<sps, bps>>

\* The length of the history is part of the view: TLC's parallel breadth-
\* first search is not strictly level-ordered, and a state first recorded with
\* a longer history than its shortest one would silently lose part of its
\* budget of MaxLen operations.  (Cost: a state is kept once per length at
\* which it is reachable.)
View ==
  <<Len(hist[2]),
    IF WF THEN LET pp == PermSets IN UNION {SymViews(sp, pp[2]) : sp \in pp[1]}
    ELSE {<<ref, F>>}>>


(***************************************************************************)
(* Operations.  <<code, x, y, z>>:                                         *)
(*   1 retarget_references(block x, to y, at_end z)                        *)
(*   2 get_referent(symbol x)                                              *)
(*   3 set_referent(symbol x, referent y, at_end z)                        *)
(*   4 get_references(block x), consume y items (0 = all)                  *)
(*   5 apply()                                                             *)
(*   6 client assigns Symbol.referent = y, at_end = z on direct symbol x   *)
(***************************************************************************)
OpRetarget == 1  OpGetReferent == 2  OpSetReferent == 3
OpGetReferences == 4  OpApply == 5  OpAssign == 6

\* The symbols a client KNOWS to be direct after a history, whatever order
\* the generators chose: made direct by get_referent / set_referent / its own
\* assignment / a get_references that yielded every reference / apply, and not
\* moved by a retarget since.  (After a partial get_references the real cache
\* may have converted other symbols than the model did.)
RECURSIVE Known(_, _, _, _)
Known(r, kn, ops, i) ==
  IF i > Len(ops) THEN kn
  ELSE LET op == ops[i] IN
    CASE op[1] = OpRetarget -> Known(ARetarget(r, op[2], op[3], op[4] = 1), kn \ ARefs(r, op[2]), ops, i + 1)
      [] op[1] = OpGetReferent -> Known(r, kn \cup {op[2]}, ops, i + 1)
      [] op[1] \in {OpSetReferent, OpAssign} -> Known(ASet(r, op[2], op[3], op[4] = 1), kn \cup {op[2]}, ops, i + 1)
      [] op[1] = OpGetReferences ->
           Known(r, IF op[3] = KAll \/ op[3] >= Cardinality(ARefs(r, op[2])) THEN kn \cup ARefs(r, op[2]) ELSE kn,
                 ops, i + 1)
      [] op[1] = OpApply -> Known(r, Syms, ops, i + 1)
KnownDirect == Known([s \in Syms |-> [b |-> hist[1][s][1], e |-> hist[1][s][2] = 1]], Syms, hist[2], 1)
KnownSound == \A s \in KnownDirect : F.rfts[s] = 0

\* enabled = in the domain of the property (Level A / public knowledge only)
EnabledOps ==
  {<<OpRetarget, b, to, e>> : b \in Blocks, to \in Blocks, e \in 0..1}
  \cup {<<OpRetarget, b, None, e>> : b \in {x \in Blocks : ARefs(ref, x) = {}}, e \in 0..1}
  \cup {<<OpGetReferent, s, 0, 0>> : s \in Syms}
  \cup {<<OpSetReferent, s, to, e>> : s \in Syms, to \in 0..NB, e \in 0..1}
  \cup {<<OpGetReferences, b, k, 0>> : b \in Blocks, k \in 0..NS}
  \cup {<<OpApply, 0, 0, 0>>}
AssignOps == {<<OpAssign, s, to, e>> : s \in KnownDirect, to \in 0..NB, e \in 0..1}

Log(op) == hist' = <<hist[1], Append(hist[2], op)>>

Retarget(b, to, e) ==
  /\ \E g \in BRetarget(F, b, to, e = 1) : F' = GC(g)
  /\ ref' = ARetarget(ref, b, to, e = 1)
  /\ Log(<<OpRetarget, b, to, e>>)

GetReferent(s) ==
  LET w == BGetReferent(F, s)
  IN  /\ Assert(w[2] = ref[s].b, <<"get_referent result", s, w[2], ref[s]>>)
      /\ F' = w[1]
      /\ Assert(F'.rfts[s] = 0, "get_referent leaves the symbol indirect")
      /\ UNCHANGED ref
      /\ Log(<<OpGetReferent, s, 0, 0>>)

SetReferent(s, to, e) ==
  /\ F' = BSetReferent(F, s, to, e = 1)
  /\ ref' = ASet(ref, s, to, e = 1)
  /\ Log(<<OpSetReferent, s, to, e>>)

YieldsOK(o, b, k) ==
  LET ys == {o.out[i][1] : i \in DOMAIN o.out}
  IN  /\ Cardinality(ys) = Len(o.out)                              \* no symbol twice
      /\ ys \subseteq ARefs(ref, b)
      /\ \A i \in DOMAIN o.out : o.out[i][2] = b /\ o.out[i][3] = ref[o.out[i][1]].e
      /\ IF o.fin THEN ys = ARefs(ref, b) ELSE k # KAll /\ Len(o.out) = k

GetReferences(b, k) ==
  \E o \in BGetReferences(F, b, k) :
    /\ Assert(YieldsOK(o, b, k), <<"get_references yields", b, k, o.out, o.fin>>)
    /\ F' = GC(o.f)
    /\ UNCHANGED ref
    /\ Log(<<OpGetReferences, b, k, 0>>)

Apply ==
  \E g \in BApply(F) :
    /\ F' = g
    /\ Assert(NothingIndirect(g), "apply leaves indirect references")
    /\ UNCHANGED ref
    /\ Log(<<OpApply, 0, 0, 0>>)

Assign(s, to, e) ==
  /\ F.rfts[s] = 0
  /\ F' = GC([F EXCEPT !.dir[s] = to, !.ate[s] = (e = 1)])
  /\ ref' = ASet(ref, s, to, e = 1)
  /\ Log(<<OpAssign, s, to, e>>)

Do(op) ==
  CASE op[1] = OpRetarget -> Retarget(op[2], op[3], op[4])
    [] op[1] = OpGetReferent -> GetReferent(op[2])
    [] op[1] = OpSetReferent -> SetReferent(op[2], op[3], op[4])
    [] op[1] = OpGetReferences -> GetReferences(op[2], op[3])
    [] op[1] = OpApply -> Apply
    [] op[1] = OpAssign -> Assign(op[2], op[3], op[4])

InitRefs ==
  IF Inits = "all" THEN [Syms -> [b : 0..NB, e : BOOLEAN]]
  ELSE {[s \in Syms |-> [b |-> ((s - 1) % NB) + 1, e |-> FALSE]]}

RefRows(r) == [s \in Syms |-> <<r[s].b, B2I(r[s].e)>>]

Init == \E r \in InitRefs :
          /\ ref = r
          /\ F = InitF(r)
          /\ hist = <<RefRows(r), <<>>>>

\* A client assignment (Assign) on a direct symbol is literally set_referent's
\* effect on a direct symbol (same successor), so Next leaves it out; AssignOps
\* are still emitted as enabled operations for the replay.  Self-loops carry
\* no information for the invariants (the Asserts on results are evaluated
\* before the guard).
Next == /\ Len(hist[2]) < MaxLen
        /\ \E op \in EnabledOps : Do(op)
        /\ <<ref', F'>> # <<ref, F>>

Spec == Init /\ [][Next]_<<ref, F, hist>>

(***************************************************************************)
(* Frontier replay: one case per distinct state.                           *)
(***************************************************************************)
SetToSeq(S) == LET RECURSIVE f(_)
                   f(T) == IF T = {} THEN <<>> ELSE LET x == CHOOSE y \in T : TRUE IN <<x>> \o f(T \ {x})
               IN  f(S)

EmitCase ==
  Emit => PrintT("CASE " \o ToJson([k |-> "rc", nb |-> NB, ns |-> NS, init |-> hist[1],
                                     wit |-> hist[2], en |-> EnabledOps \cup AssignOps,
                                     d |-> Len(hist[2])]))
=============================================================================
