------------------------------ MODULE Retarget ------------------------------
(***************************************************************************)
(* C18 -- retarget_symbol_uses is complete and precise.                    *)
(*                                                                         *)
(* The abstract module is a record of finite relations (who mentions which *)
(* symbol where, and which blocks are connected how):                      *)
(*                                                                         *)
(*   syms  : {[n, k, r]}   name, kind (code | data | ext | none), referent *)
(*   sx    : {[blk, o, acc, f, s1, s2, add, at]}  symbolic expressions:    *)
(*           site (block, offset), access kind (cf = operand of a jump or  *)
(*           call, ref = other code operand, data = data word), form       *)
(*           (C = SymAddrConst, A = SymAddrAddr), symbols, addend,         *)
(*           attribute set                                                 *)
(*   cfi   : {[blk, d, i, dir, args, sym]}   CFI directives                *)
(*   fwd   : {<<key, value>>}                symbolForwarding              *)
(*   edges : {[s, t, ty, c, d]}              block level CFG               *)
(*   fns   : {[name, ent, blk]}              functions                     *)
(*   rets  : blocks that end in a return instruction                       *)
(*   rest  : everything else, opaque (bytes, other aux tables, ...)        *)
(*                                                                         *)
(* Expected(M, map, rules) is the module the property statement promises   *)
(* after retargeting every key of map to its value *simultaneously*:       *)
(* every retargetable mention of a key is replaced once (chains A->B,      *)
(* B->C are not transitive), same addend, attributes converted by the      *)
(* unique matching rule of the ABI, exactly the branch/call edges of the   *)
(* instructions whose operand was a key follow, return edges follow the    *)
(* calls, everything else is identical.                                    *)
(*                                                                         *)
(* The state machine enumerates configurations (use kinds x symbol kinds x *)
(* ABI x PIE x 1-2 simultaneous retargets); TLC checks the sanity          *)
(* theorems of Expected on every one (U1) and emits every one as a case    *)
(* for the real library (U3).  TraceRetarget.tla instantiates this module  *)
(* and applies the same Expected to observed modules (U2).                 *)
(***************************************************************************)
EXTENDS Naturals, Sequences, FiniteSets, SequencesExt, TLC, Json

CONSTANTS Abis,        \* subset of {"x64-elf","x64-pe","ia32-pe","arm64-elf","mips32-elf"}
          MaxUses,     \* 1..3
          Cat,         \* "full" | "core" | "got": use catalogue
          MapNames,    \* subset of the names of ReqsOf
          WithPatch,   \* BOOLEAN: uses created by a patch inserted in the same apply()
          Emit         \* BOOLEAN: print cases

VARIABLES cfg, st
vars == <<cfg, st>>

(***************************************************************************)
(* Attribute conversion rules.  Written from the ABI documents, not from   *)
(* abi.py:                                                                 *)
(*  - x86-64 SysV psABI, position independent code: a call or jump to a    *)
(*    function that is not defined in the module goes through the PLT      *)
(*    (name@PLT), a local one is a plain pc-relative operand; the address  *)
(*    or value of a foreign object is loaded from its GOT slot             *)
(*    (name@GOTPCREL(%rip)), a local one is addressed directly.            *)
(*  - x86-64 SysV psABI, position dependent executables: the address of a  *)
(*    foreign function *is* its PLT entry, for calls/jumps and for         *)
(*    address-of alike (name@PLT); local: plain.                           *)
(*  - AArch64 ELF, PIC: adrp/ldr through the GOT for foreign objects       *)
(*    (:got: / :got_lo12:), adrp/add (:lo12:) for local ones; bl/b need no *)
(*    annotation (the linker inserts the veneer/PLT call).                 *)
(*  - PE/COFF (x64, ia32) has no PLT/GOT: no conversion.  MIPS32: none.    *)
(*  - Data words carry plain absolute relocations everywhere: none.        *)
(***************************************************************************)
Rules(abi, pie) ==
  CASE abi = "x64-elf" /\ pie ->
         { [acc |-> {"ref"}, int |-> {}, ext |-> {"GOT", "PCREL"}],
           [acc |-> {"cf"},  int |-> {}, ext |-> {"PLT"}] }
    [] abi = "x64-elf" /\ ~pie ->
         { [acc |-> {"cf", "ref"}, int |-> {}, ext |-> {"PLT"}] }
    [] abi = "arm64-elf" /\ pie ->
         { [acc |-> {"ref"}, int |-> {"LO12"}, ext |-> {"LO12", "GOT"}],
           [acc |-> {"ref"}, int |-> {},       ext |-> {"GOT"}] }
    [] OTHER -> {}

AllAbis == {"x64-elf", "x64-pe", "ia32-pe", "arm64-elf", "mips32-elf"}
Accs == {"cf", "ref", "data"}
Pies(abi) == IF abi \in {"x64-elf", "arm64-elf", "mips32-elf"} THEN {TRUE, FALSE} ELSE {FALSE}

Side(r, internal) == IF internal THEN r.int ELSE r.ext
Matching(rules, acc, at, internal) ==
  {r \in rules : acc \in r.acc /\ at = Side(r, internal)}

\* attributes of a mention after its symbol went from oldInt to newInt
Conv(rules, acc, at, oldInt, newInt) ==
  LET m == Matching(rules, acc, at, oldInt)
  IN  IF Cardinality(m) = 1 THEN Side(CHOOSE r \in m : TRUE, newInt) ELSE at

(***************************************************************************)
(* Lookups                                                                 *)
(***************************************************************************)
Names(M) == {s.n : s \in M.syms}
SymRec(M, n) == CHOOSE s \in M.syms : s.n = n
Ref(M, n) == SymRec(M, n).r
Internal(M, n) == SymRec(M, n).k \in {"code", "data"}

Keys(map) == {p[1] : p \in map}
Vals(map) == {p[2] : p \in map}
To(map, s) == (CHOOSE p \in map : p[1] = s)[2]
IsFunctional(map) == \A p, q \in map : p[1] = q[1] => p = q

NonRet(E) == {e \in E : e.ty # "Return"}
RetFacts(E) == {<<e.s, e.t>> : e \in {x \in E : x.ty = "Return"}}

(***************************************************************************)
(* Expected mentions                                                       *)
(***************************************************************************)
ExpSxOne(M, map, rules, e) ==
  IF e.f = "C" /\ e.s1 \in Keys(map)
  THEN LET new == To(map, e.s1)
       IN  [e EXCEPT !.s1 = new,
                     !.at = Conv(rules, e.acc, e.at, Internal(M, e.s1), Internal(M, new))]
  ELSE e
ExpSx(M, map, rules) == {ExpSxOne(M, map, rules, e) : e \in M.sx}

ExpCfi(M, map) ==
  {IF c.sym \in Keys(map) THEN [c EXCEPT !.sym = To(map, c.sym)] ELSE c : c \in M.cfi}

\* symbolForwarding: the *target* (value) of an entry is a use, the key is not
ExpFwd(M, map) ==
  {IF p[2] \in Keys(map) THEN <<p[1], To(map, p[2])>> ELSE p : p \in M.fwd}

(***************************************************************************)
(* Expected control flow.  A block's branch/call edges come from its       *)
(* control-flow instruction; when that instruction's operand was the key   *)
(* k, the edges that led to k's referent now lead to the referent of       *)
(* To(k).  Fallthrough edges, edges to other targets, edges of other       *)
(* blocks do not move.                                                     *)
(***************************************************************************)
CfKeys(M, map, b) ==
  {e.s1 : e \in {x \in M.sx : x.blk = b /\ x.acc = "cf" /\ x.f = "C" /\ x.s1 \in Keys(map)}}

Moves(M, map, e) ==
  e.ty \in {"Branch", "Call"} /\ \E k \in CfKeys(M, map, e.s) : Ref(M, k) = e.t

Moved(M, map, e) ==
  IF Moves(M, map, e)
  THEN LET k == CHOOSE k \in CfKeys(M, map, e.s) : Ref(M, k) = e.t
       IN  [e EXCEPT !.t = Ref(M, To(map, k))]
  ELSE e

ExpNonRet(M, map) == {Moved(M, map, e) : e \in NonRet(M.edges)}

(***************************************************************************)
(* Return edges (DESIGN appendix D, rule G4): the returns of function F    *)
(* lead to the fallthrough successors of the blocks that call an entry of  *)
(* F; a function nobody calls, and a return outside any function, return   *)
(* to an anonymous proxy.                                                  *)
(***************************************************************************)
AnonProxy == "P:"
FtOf(E, b) == {e.t : e \in {x \in E : x.s = b /\ x.ty = "Fallthrough"}}
CallSites(M, E, f) ==
  UNION {FtOf(E, e.s) : e \in {x \in E : x.ty = "Call" /\ x.t \in f.ent}}
G4(M, E) ==
  UNION { LET sites == UNION {CallSites(M, E, f) : f \in {g \in M.fns : r \in g.blk}}
          IN  IF sites = {} THEN {<<r, AnonProxy>>} ELSE {<<r, s>> : s \in sites}
          : r \in M.rets }

RetEdge(p) == [s |-> p[1], t |-> p[2], ty |-> "Return", c |-> FALSE, d |-> TRUE]

Expected(M, map, rules) ==
  LET nr == ExpNonRet(M, map)
  IN  [M EXCEPT !.sx = ExpSx(M, map, rules),
                !.cfi = ExpCfi(M, map),
                !.fwd = ExpFwd(M, map),
                !.edges = nr \cup {RetEdge(p) : p \in G4(M, nr)}]

(***************************************************************************)
(* Refusals.  reqs is the sequence of registered <<old, new>> pairs.       *)
(***************************************************************************)
RegRefused(M, reqs) ==
  \E i \in DOMAIN reqs :
     \/ reqs[i][1] \notin Names(M) \/ reqs[i][2] \notin Names(M)     \* foreign module
     \/ \E j \in 1..(i - 1) : reqs[j][1] = reqs[i][1]                \* retargeted twice
     \/ (reqs[i][2] \in Names(M) /\ SymRec(M, reqs[i][2]).k = "none") \* no referent

MapOf(reqs) == {<<reqs[i][1], reqs[i][2]>> : i \in DOMAIN reqs}

NeedsAddrAddr(M, map) ==
  \E e \in M.sx : e.f = "A" /\ ({e.s1, e.s2} \cap Keys(map) # {})
CfIntoData(M, map) ==
  \E e \in NonRet(M.edges) :
     /\ Moves(M, map, e)
     /\ \E k \in CfKeys(M, map, e.s) : Ref(M, k) = e.t /\ SymRec(M, To(map, k)).k = "data"

\* the set of admissible outcomes ("" = completes)
Outcomes(M, reqs) ==
  IF RegRefused(M, reqs) THEN {"ValueError"}
  ELSE LET map == MapOf(reqs)
           r == (IF NeedsAddrAddr(M, map) THEN {"NotImplementedError"} ELSE {})
                \cup (IF CfIntoData(M, map) THEN {"AmbiguousIRError"} ELSE {})
       IN  IF r = {} THEN {""} ELSE r

(***************************************************************************)
(* Retarget, then delete, in one RewritingContext.  apply() runs the block *)
(* edits, then the retargets, then the symbol deletions.  dels is the      *)
(* sequence of registered <<name, force>> deletions.  DeleteOn is          *)
(* DelSym!Expected projected onto the relations of this module (the        *)
(* symbol tables live in M.rest and are judged by TraceRetarget with       *)
(* DelSym!Expected itself).                                                *)
(***************************************************************************)
Mentions(e) == {e.s1} \cup (IF e.f = "A" THEN {e.s2} ELSE {})
DelSet(dels) == {dels[i][1] : i \in DOMAIN dels}
ForcedSet(dels) == {s \in DelSet(dels) : \A i \in DOMAIN dels : dels[i][1] = s => dels[i][2]}

DeleteOn(M, del) ==
  [M EXCEPT
     !.syms = {s \in @ : s.n \notin del},
     !.sx = {e \in @ : Mentions(e) \cap del = {}},
     !.cfi = {IF c.sym \in del
              THEN [c EXCEPT !.sym = "",
                             !.args = IF c.dir \in {".cfi_personality", ".cfi_lsda"} THEN <<255>> ELSE @]
              ELSE c : c \in @},
     !.fwd = {p \in @ : p[1] \notin del /\ p[2] \notin del},
     !.fns = {[f EXCEPT !.name = IF @ \in del THEN "" ELSE @] : f \in @}]

\* admissible outcomes of the combined history
OutcomesD(M, reqs, rules, dels) ==
  LET o == Outcomes(M, reqs) IN
  IF o # {""} \/ dels = <<>> THEN o
  ELSE LET E1 == Expected(M, MapOf(reqs), rules)
       IN  IF \E s \in DelSet(dels) : s \notin Names(M) THEN {"ValueError"}
           ELSE IF \E s \in DelSet(dels) \ ForcedSet(dels) : \E e \in E1.sx : s \in Mentions(e)
           THEN {"SymbolUsesRemainingError"} ELSE {""}

\* the final module of the combined history (when it completes)
Final(M, reqs, rules, dels) == DeleteOn(Expected(M, MapOf(reqs), rules), DelSet(dels))

(***************************************************************************)
(* Configurations                                                          *)
(***************************************************************************)
USyms == {"A", "B", "X"}
CfKinds == {"jmp", "jcc", "jccft", "call"}
\* control transfers *through the GOT slot* of the operand symbol (x86-64:
\* call *S@GOTPCREL(%rip), jmp *S@GOTPCREL(%rip)): the operand is S, the CFG edge
\* leads to S's referent but is labelled indirect (direct = FALSE)
GotKinds == {"icallg", "ijmpg"}
\* every kind whose instruction has a symbolic control-flow operand
CfLike == CfKinds \cup GotKinds
\* "ijmp" is the control: jmp *%rax, an indirect edge to the referent of its
\* symbol but *no* symbolic operand: it must never move
AttrCat(abi, k) ==
  IF k \in CfKinds
  THEN (IF abi \in {"x64-elf", "x64-pe"} THEN {{}, {"PLT"}} ELSE {{}})
  ELSE IF k = "ref"
  THEN CASE abi = "x64-elf" -> {{}, {"PLT"}, {"GOT", "PCREL"}}
         [] abi = "x64-pe" -> {{}, {"PLT"}}
         [] abi = "arm64-elf" -> {{}, {"LO12"}, {"GOT"}, {"GOT", "LO12"}}
         [] OTHER -> {{}}
  ELSE {{}}

U(k, s, s2, add, at, via) == [k |-> k, s |-> s, s2 |-> s2, add |-> add, at |-> at, via |-> via]

FullUses(abi) ==
  {U(k, s, "", 0, at, "ir") : k \in CfKinds, s \in USyms, at \in AttrCat(abi, "jmp")}
  \cup {U("ref", s, "", add, at, "ir") : s \in USyms, add \in {0, 4}, at \in AttrCat(abi, "ref")}
  \cup {U("dq", s, "", add, {}, "ir") : s \in USyms, add \in {0, 8}}
  \cup {U("dd", "A", "X", 0, {}, "ir"), U("dd", "X", "A", 0, {}, "ir"), U("dd", "X", "X", 2, {}, "ir")}
  \cup {U(k, s, "", 0, {}, "ir") : k \in {"pers", "lsda", "fwdv", "fwdk"}, s \in USyms}
  \cup {U("fwd", "A", "B", 0, {}, "ir"), U("fwd", "B", "A", 0, {}, "ir"),
        U("fwd", "X", "A", 0, {}, "ir"), U("fwd", "A", "X", 0, {}, "ir")}

CoreUses(abi) ==
  {U(k, "A", "", 0, {}, "ir") : k \in {"jmp", "call", "jccft", "dq", "pers", "fwdv", "fwdk"}}
  \cup {U("ref", "A", "", 4, {}, "ir"), U("call", "B", "", 0, {}, "ir"),
        U("jmp", "X", "", 0, {}, "ir"), U("jcc", "X", "", 0, {}, "ir"),
        U("ref", "X", "", 0, {}, "ir"), U("dq", "B", "", 8, {}, "ir"),
        U("lsda", "X", "", 0, {}, "ir"), U("fwd", "X", "A", 0, {}, "ir"),
        U("dd", "X", "A", 0, {}, "ir")}

PatchUses(abi) ==
  IF WithPatch /\ abi \in {"x64-elf", "arm64-elf"}
  THEN {U(k, s, "", 0, {}, "patch") : k \in {"jmp", "jcc", "call", "ref"}, s \in {"A", "X"}}
       \cup (IF abi = "x64-elf" THEN {U("call", "A", "", 0, {"PLT"}, "patch")} ELSE {})
  ELSE {}

GotUses(abi) ==
  IF abi # "x64-elf" THEN {}
  ELSE IF Cat = "full"
  THEN {U(k, s, "", 0, {"GOT", "PCREL"}, "ir") : k \in GotKinds, s \in {"A", "X"}}
       \cup {U("ijmp", s, "", 0, {}, "ir") : s \in {"A", "X"}}
  ELSE {U("icallg", "A", "", 0, {"GOT", "PCREL"}, "ir"), U("ijmpg", "A", "", 0, {"GOT", "PCREL"}, "ir"),
        U("ijmp", "A", "", 0, {}, "ir")}

\* catalogue "got": the indirect-through-GOT transfers, their direct counterparts and the
\* register-indirect control, so that every pair of them occurs in one module
GotCat(abi) ==
  {U(k, s, "", 0, {"GOT", "PCREL"}, "ir") : k \in GotKinds, s \in {"A", "X"}}
  \cup {U("ijmp", s, "", 0, {}, "ir") : s \in {"A", "X"}}
  \cup {U(k, "A", "", 0, {}, "ir") : k \in {"jmp", "call"}}

UseSet(abi) ==
  IF Cat = "got" THEN GotCat(abi)
  ELSE (IF Cat = "full" THEN FullUses(abi) ELSE CoreUses(abi)) \cup PatchUses(abi) \cup GotUses(abi)
CatSeq(abi) == SetToSeq(UseSet(abi))

ReqsOf(name) ==
  CASE name = "AB"    -> << <<"A", "B">> >>
    [] name = "AA"    -> << <<"A", "A">> >>
    [] name = "AB_BC" -> << <<"A", "B">>, <<"B", "C">> >>
    [] name = "BC_AB" -> << <<"B", "C">>, <<"A", "B">> >>
    [] name = "AB_BA" -> << <<"A", "B">>, <<"B", "A">> >>
    [] name = "AB_XB" -> << <<"A", "B">>, <<"X", "B">> >>
    [] name = "AB_XC" -> << <<"A", "B">>, <<"X", "C">> >>
    [] name = "XC"    -> << <<"X", "C">> >>
    [] name = "AB_AC" -> << <<"A", "B">>, <<"A", "C">> >>
    [] name = "AB_AB" -> << <<"A", "B">>, <<"A", "B">> >>
    [] name = "AF"    -> << <<"A", "F">> >>
    [] name = "FB"    -> << <<"F", "B">> >>
    [] name = "AN"    -> << <<"A", "N">> >>
    [] name = "AB_FC" -> << <<"A", "B">>, <<"F", "C">> >>
    \* the same, followed by delete_symbol in the same context
    [] name \in {"AB/dA", "AB/dAf", "AB/dB", "AB/dA_dB"} -> << <<"A", "B">> >>
    [] name = "AB_BC/dA" -> << <<"A", "B">>, <<"B", "C">> >>
    [] name = "AB_BA/dA" -> << <<"A", "B">>, <<"B", "A">> >>
    [] name \in {"XC/dA", "XC/dAf"} -> << <<"X", "C">> >>
    [] name = "AB_XB/dA_dX" -> << <<"A", "B">>, <<"X", "B">> >>

DelsOf(name) ==
  CASE name \in {"AB/dA", "AB_BC/dA", "AB_BA/dA", "XC/dA"} -> << <<"A", FALSE>> >>
    [] name \in {"AB/dAf", "XC/dAf"} -> << <<"A", TRUE>> >>
    [] name = "AB/dB" -> << <<"B", FALSE>> >>
    [] name = "AB/dA_dB" -> << <<"A", FALSE>>, <<"B", TRUE>> >>
    [] name = "AB_XB/dA_dX" -> << <<"A", FALSE>>, <<"X", FALSE>> >>
    [] OTHER -> <<>>

AllMapNames == {"AB", "AA", "AB_BC", "BC_AB", "AB_BA", "AB_XB", "AB_XC", "XC", "AB_AC",
                "AB_AB", "AF", "FB", "AN", "AB_FC"}

Universe == {"A", "B", "C", "X"}
UsesOf(c) == LET cs == CatSeq(c.abi) IN [i \in 1..Len(c.ui) |-> cs[c.ui[i]]]
Involved(uses, reqs, dels) ==
  ({uses[i].s : i \in DOMAIN uses} \cup {uses[i].s2 : i \in DOMAIN uses}
   \cup {reqs[i][1] : i \in DOMAIN reqs} \cup {reqs[i][2] : i \in DOMAIN reqs}
   \cup DelSet(dels)) \cap Universe

KindDom(n) == CASE n = "A" -> {"code", "ext", "data"}
                [] n = "B" -> {"code", "ext", "data"}
                [] n = "C" -> {"code", "ext"}
                [] n = "X" -> {"code", "ext", "aliasA"}
KindChoices(inv) ==
  LET K(n) == IF n \in inv THEN KindDom(n) ELSE {"ext"}
  IN  {[A |-> a, B |-> b, C |-> c, X |-> x] : a \in K("A"), b \in K("B"), c \in K("C"), x \in K("X")}

IsCodeLike(k) == k \in {"code", "aliasA"}
ValidKinds(abi, uses, kinds) ==
  /\ kinds["X"] = "aliasA" => kinds["A"] = "code"
  /\ \A i \in DOMAIN uses :
        LET u == uses[i] IN
        /\ u.k \in CfLike \cup {"ijmp"} => kinds[u.s] # "data"
        /\ u.k = "jccft" => IsCodeLike(kinds[u.s])
        /\ u.via = "patch" => kinds[u.s] # "data"

\* a symbolForwarding key occurs once; at most one fallthrough-into-target use
ValidUses(uses) ==
  /\ \A i, j \in DOMAIN uses :
        (i < j /\ uses[i].k \in {"fwdk", "fwd"} /\ uses[j].k \in {"fwdk", "fwd"})
           => uses[i].s # uses[j].s
  /\ Cardinality({i \in DOMAIN uses : uses[i].k = "jccft"}) <= 1

(***************************************************************************)
(* The abstract module of a configuration (the renderer of the harness     *)
(* builds the same module for real; TraceRetarget compares the two).       *)
(***************************************************************************)
Str(i) == ToString(i)
NodeU(i) == "U" \o Str(i)
NodeR(i) == "R" \o Str(i)
RefOfKind(kinds, n) ==
  LET c == IF kinds[n] = "aliasA" THEN "A" ELSE n
  IN  CASE kinds[c] = "code" -> "F_" \o c
        [] kinds[c] = "data" -> "D_" \o c
        [] OTHER -> "P:" \o c
AbsKind(k) == IF k = "aliasA" THEN "code" ELSE k

Mod(c) ==
  LET uses == c.uses
      kinds == c.kinds
      I == DOMAIN uses
      rf(n) == RefOfKind(kinds, n)
      codeSyms == {n \in Universe : kinds[n] = "code"}
      hasR(i) == uses[i].k \in {"jcc", "call", "icallg"} \/ (uses[i].via = "patch" /\ uses[i].k \in CfKinds \cup {"ref"})
      acc(k) == IF k \in CfLike THEN "cf" ELSE IF k = "ref" THEN "ref" ELSE "data"
      blkOf(i) == IF uses[i].k \in {"dq", "dd"} THEN "W" \o Str(i) ELSE NodeU(i)
      sx == {[blk |-> blkOf(i), o |-> 0, acc |-> acc(uses[i].k),
              f |-> IF uses[i].k = "dd" THEN "A" ELSE "C",
              s1 |-> uses[i].s, s2 |-> uses[i].s2, add |-> uses[i].add, at |-> uses[i].at]
             : i \in {j \in I : uses[j].k \in CfLike \cup {"ref", "dq", "dd"}}}
      cfi == {[blk |-> "C" \o Str(i), d |-> 0, i |-> 1,
               dir |-> IF uses[i].k = "pers" THEN ".cfi_personality" ELSE ".cfi_lsda",
               args |-> IF uses[i].k = "pers" THEN <<155>> ELSE <<27>>, sym |-> uses[i].s]
              : i \in {j \in I : uses[j].k \in {"pers", "lsda"}}}
      fwd == {<<"K" \o Str(i - 1), uses[i].s>> : i \in {j \in I : uses[j].k = "fwdv"}}
             \cup {<<uses[i].s, "V" \o Str(i - 1)>> : i \in {j \in I : uses[j].k = "fwdk"}}
             \cup {<<uses[i].s, uses[i].s2>> : i \in {j \in I : uses[j].k = "fwd"}}
      E(s, t, ty, cnd) == [s |-> s, t |-> t, ty |-> ty, c |-> cnd, d |-> TRUE]
      EI(s, t, ty) == [s |-> s, t |-> t, ty |-> ty, c |-> FALSE, d |-> FALSE]
      cfEdges == UNION {
         LET k == uses[i].k  t == rf(uses[i].s) IN
           CASE k = "jmp"   -> {E(NodeU(i), t, "Branch", FALSE)}
             [] k = "jcc"   -> {E(NodeU(i), t, "Branch", TRUE), E(NodeU(i), NodeR(i), "Fallthrough", FALSE)}
             [] k = "jccft" -> {E(NodeU(i), t, "Branch", TRUE), E(NodeU(i), t, "Fallthrough", FALSE)}
             [] k = "call"  -> {E(NodeU(i), t, "Call", FALSE), E(NodeU(i), NodeR(i), "Fallthrough", FALSE)}
             [] k = "icallg" -> {EI(NodeU(i), t, "Call"), E(NodeU(i), NodeR(i), "Fallthrough", FALSE)}
             [] k = "ijmpg" -> {EI(NodeU(i), t, "Branch")}
             [] k = "ijmp"  -> {EI(NodeU(i), t, "Branch")}
             [] OTHER -> {}
         : i \in I}
      fns == {[name |-> n, ent |-> {"F_" \o n}, blk |-> {"F_" \o n}] : n \in codeSyms}
             \cup {[name |-> "u" \o Str(i - 1), ent |-> {NodeU(i)},
                    blk |-> {NodeU(i)} \cup (IF hasR(i) THEN {NodeR(i)} ELSE {})]
                   : i \in {j \in I : uses[j].k \in CfLike \cup {"ref", "ijmp"}}}
             \cup {[name |-> "c" \o Str(i - 1), ent |-> {"C" \o Str(i)}, blk |-> {"C" \o Str(i)}]
                   : i \in {j \in I : uses[j].k \in {"pers", "lsda"}}}
      rets == {"F_" \o n : n \in codeSyms}
              \cup {NodeR(i) : i \in {j \in I : hasR(j)}}
              \cup {NodeU(i) : i \in {j \in I : uses[j].k = "ref" /\ uses[j].via = "ir"}}
              \cup {"C" \o Str(i) : i \in {j \in I : uses[j].k \in {"pers", "lsda"}}}
      syms == {[n |-> n, k |-> AbsKind(kinds[n]), r |-> rf(n)] : n \in Universe}
              \cup {[n |-> "N", k |-> "none", r |-> ""]}
      M0 == [syms |-> syms, sx |-> sx, cfi |-> cfi, fwd |-> fwd, edges |-> cfEdges,
             fns |-> fns, rets |-> rets, rest |-> <<>>]
  IN  [M0 EXCEPT !.edges = cfEdges \cup {RetEdge(p) : p \in G4(M0, cfEdges)}]

(***************************************************************************)
(* State machine                                                           *)
(***************************************************************************)
Init ==
  /\ cfg \in {[abi |-> a, pie |-> p, ui |-> <<>>, uses |-> <<>>, reqs |-> <<>>,
               kinds |-> [A |-> "ext", B |-> "ext", C |-> "ext", X |-> "ext"], map |-> "", dels |-> <<>>]
              : a \in Abis, p \in BOOLEAN}
  /\ cfg.pie \in Pies(cfg.abi)
  /\ st = [stage |-> "build", out |-> {}, pre |-> <<>>, mod |-> <<>>]

AddUse(k) ==
  /\ st.stage = "build"
  /\ Len(cfg.ui) < MaxUses
  /\ k \in 1..Len(CatSeq(cfg.abi))
  /\ (cfg.ui # <<>> => cfg.ui[Len(cfg.ui)] <= k)
  /\ LET c2 == [cfg EXCEPT !.ui = Append(cfg.ui, k)]
         us == UsesOf(c2)
     IN  /\ ValidUses(us)
         /\ cfg' = [c2 EXCEPT !.uses = us]
  /\ UNCHANGED st

\* the operation under study: register the requests (retargets, then possibly
\* deletions), then apply()
Retarget(name, kinds) ==
  /\ st.stage = "build"
  /\ Len(cfg.ui) >= 1
  /\ LET reqs == ReqsOf(name)
         dels == DelsOf(name)
         c2 == [cfg EXCEPT !.reqs = reqs, !.kinds = kinds, !.map = name, !.dels = dels]
         M == Mod(c2)
         rules == Rules(cfg.abi, cfg.pie)
         out == OutcomesD(M, reqs, rules, dels)
     IN  /\ ValidKinds(cfg.abi, cfg.uses, kinds)
         /\ cfg' = c2
         /\ st' = [stage |-> "post", out |-> out, pre |-> M,
                   mod |-> IF out = {""} THEN Final(M, reqs, rules, dels) ELSE M]

\* requests that are refused at registration do not depend on the kinds
ErrorMaps == {"AB_AC", "AB_AB", "AF", "FB", "AN", "AB_FC"}
KindsFor(name) ==
  LET inv == Involved(cfg.uses, ReqsOf(name), DelsOf(name))
  IN  IF name \in ErrorMaps
      THEN {[A |-> IF "A" \in inv THEN "code" ELSE "ext", B |-> IF "B" \in inv THEN "code" ELSE "ext",
             C |-> IF "C" \in inv THEN "code" ELSE "ext", X |-> IF "X" \in inv THEN "code" ELSE "ext"]}
      ELSE KindChoices(inv)

Next ==
  /\ st.stage = "build"
  /\ \/ \E k \in 1..Len(CatSeq(cfg.abi)) : AddUse(k)
     \/ \E name \in MapNames : \E kinds \in KindsFor(name) : Retarget(name, kinds)

Spec == Init /\ [][Next]_vars

(***************************************************************************)
(* Theorems checked on every post state (U1)                               *)
(***************************************************************************)
Site(e) == <<e.blk, e.o>>
CSite(c) == <<c.blk, c.d, c.i>>

RulesUnambiguous ==
  \A a \in AllAbis, p \in BOOLEAN, acc \in Accs, internal \in BOOLEAN :
     \A r1, r2 \in Rules(a, p) :
        (acc \in r1.acc /\ acc \in r2.acc /\ Side(r1, internal) = Side(r2, internal)) => r1 = r2

\* converting there and back restores the attributes
RulesInvertible ==
  \A a \in AllAbis, p \in BOOLEAN, acc \in Accs, i1 \in BOOLEAN, i2 \in BOOLEAN :
     \A r \in Rules(a, p) :
        acc \in r.acc =>
           Conv(Rules(a, p), acc, Conv(Rules(a, p), acc, Side(r, i1), i1, i2), i2, i1) = Side(r, i1)

Theorems(M, N, map, rules) ==
  LET K == Keys(map) IN
  \* identity on non-keys
  /\ \A e \in M.sx : (e.f = "A" \/ e.s1 \notin K) => e \in N.sx
  /\ \A c \in M.cfi : c.sym \notin K => c \in N.cfi
  /\ \A p \in M.fwd : p[2] \notin K => p \in N.fwd
  /\ N.syms = M.syms /\ N.fns = M.fns /\ N.rest = M.rest /\ N.rets = M.rets
  \* complete: every mention of a key is replaced exactly once, same addend
  /\ \A e \in M.sx : (e.f = "C" /\ e.s1 \in K) =>
        \E x \in N.sx : Site(x) = Site(e) /\ x.s1 = To(map, e.s1) /\ x.add = e.add /\ x.acc = e.acc /\ x.f = "C"
  /\ \A c \in M.cfi : c.sym \in K =>
        \E x \in N.cfi : CSite(x) = CSite(c) /\ x.sym = To(map, c.sym) /\ x.dir = c.dir /\ x.args = c.args
  /\ \A p \in M.fwd : p[2] \in K => <<p[1], To(map, p[2])>> \in N.fwd
  \* no key is mentioned any more unless it is also a value (chains, swaps)
  /\ \A k \in K \ Vals(map) :
        /\ \A x \in N.sx : x.f = "C" => x.s1 # k
        /\ \A x \in N.cfi : x.sym # k
        /\ \A p \in N.fwd : p[2] # k
  \* precise: no site appears or disappears
  /\ {Site(e) : e \in N.sx} = {Site(e) : e \in M.sx} /\ Cardinality(N.sx) = Cardinality(M.sx)
  /\ {CSite(c) : c \in N.cfi} = {CSite(c) : c \in M.cfi} /\ Cardinality(N.cfi) = Cardinality(M.cfi)
  /\ {p[1] : p \in N.fwd} = {p[1] : p \in M.fwd} /\ Cardinality(N.fwd) = Cardinality(M.fwd)
  \* edges: sources and labels are conserved, fallthroughs do not move, an edge
  \* that moved belongs to a block whose control-flow operand was a key
  /\ {<<e.s, e.ty, e.c, e.d>> : e \in NonRet(N.edges)} = {<<e.s, e.ty, e.c, e.d>> : e \in NonRet(M.edges)}
  /\ {e \in N.edges : e.ty = "Fallthrough"} = {e \in M.edges : e.ty = "Fallthrough"}
  /\ \A e \in NonRet(N.edges) \ NonRet(M.edges) : CfKeys(M, map, e.s) # {}
  /\ \A e \in NonRet(M.edges) \ NonRet(N.edges) : CfKeys(M, map, e.s) # {} /\ e.t \in {Ref(M, k) : k \in K}
  \* returns: consistent with the calls of the new module; every return block returns somewhere
  /\ RetFacts(N.edges) = G4(N, NonRet(N.edges))
  /\ \A r \in N.rets : \E p \in RetFacts(N.edges) : p[1] = r
  \* the same request again changes nothing once no key is mentioned any more
  /\ (K \cap Vals(map) = {}) => Expected(N, map, rules) = N
  /\ Expected(M, {}, rules) = M

\* theorems of the combined history: E1 is the retargeted module, N the final one
TheoremsD(M, E1, N, map, dels) ==
  LET del == DelSet(dels)
      gone == del \cap (Keys(map) \ Vals(map))     \* deleted symbols whose uses all moved away
  IN
  \* no trace of a deleted symbol
  /\ \A s \in N.syms : s.n \notin del
  /\ \A e \in N.sx : Mentions(e) \cap del = {}
  /\ \A c \in N.cfi : c.sym \notin del
  /\ \A p \in N.fwd : p[1] \notin del /\ p[2] \notin del
  \* every former use of a retargeted-and-deleted symbol now names its target
  /\ \A e \in M.sx : (e.f = "C" /\ e.s1 \in gone /\ To(map, e.s1) \notin del) =>
        \E x \in N.sx : Site(x) = Site(e) /\ x.s1 = To(map, e.s1) /\ x.add = e.add
  /\ \A c \in M.cfi : (c.sym \in gone /\ To(map, c.sym) \notin del) =>
        \E x \in N.cfi : CSite(x) = CSite(c) /\ x.sym = To(map, c.sym) /\ x.args = c.args
  /\ \A p \in M.fwd : (p[2] \in gone /\ To(map, p[2]) \notin del /\ p[1] \notin del) =>
        <<p[1], To(map, p[2])>> \in N.fwd
  \* the deletion removes nothing when every use moved away first
  /\ (del \subseteq gone /\ \A s \in del : \A p \in M.fwd : p[1] # s) =>
        (N.sx = E1.sx /\ N.fwd = E1.fwd /\ N.cfi = E1.cfi)
  \* the CFG is the retargeted one
  /\ N.edges = E1.edges /\ N.rets = E1.rets /\ N.rest = E1.rest

CaseJson ==
  [family |-> "retarget", abi |-> cfg.abi, pie |-> cfg.pie, kinds |-> cfg.kinds,
   uses |-> cfg.uses, reqs |-> cfg.reqs, map |-> cfg.map, del |-> cfg.dels]

PostOk ==
  st.stage = "post" =>
    LET M == st.pre
        map == MapOf(cfg.reqs)
        rules == Rules(cfg.abi, cfg.pie)
    IN  /\ RetFacts(M.edges) = G4(M, NonRet(M.edges))
        /\ st.out # {}
        /\ (st.out = {""} =>
              LET E1 == Expected(M, map, rules) IN
              /\ IsFunctional(map) /\ Theorems(M, E1, map, rules)
              /\ TheoremsD(M, E1, st.mod, map, cfg.dels)
              /\ (cfg.dels = <<>> => st.mod = E1))
        \* an unforced deletion of a symbol whose uses all move away is never refused
        /\ (DelSet(cfg.dels) \subseteq (Keys(map) \ Vals(map)) /\ Outcomes(M, cfg.reqs) = {""}) => st.out = {""}
        /\ (st.out # {""} => st.mod = M)

EmitCase == (Emit /\ st.stage = "post") => PrintT("CASE " \o ToJson(CaseJson))

ASSUME RulesUnambiguous /\ RulesInvertible

Inv == PostOk /\ EmitCase
=============================================================================
