SPECIFICATION Spec
CONSTANTS
  MaxBlocks = 2
  MaxReqs = 1
  Templates = {"o23", "ret"}
  PatchKinds = {"plain2"}
  FnLayouts = {"none"}
  EndSyms = {FALSE}
  NoSyms = {FALSE}
  AnnModes = {"none"}
  WithProxyDel = FALSE
  CfiLayouts = {"none"}
  Isa = "x64"
  WithScopes = FALSE
  Fmts = {"elf"}
  WholeOnly = FALSE
  Leads = {0}
  DropFnTables = {FALSE}
  ExtraData = {FALSE}
  Retargets = {FALSE}
  AlignOpts = {0}
  Aliases = {FALSE}
  SharedRet = {FALSE}
  InsFns = {"none"}
  Emit = FALSE
INVARIANT Inv
CHECK_DEADLOCK FALSE
