SPECIFICATION Spec
CONSTANTS
  VocabName = "cf"
  MaxLen = 5
  MaxChunks = 1
  TUs = {TRUE, FALSE}
  AUs = {FALSE}
  ICFIs = {FALSE}
  MSs = {{"a", "b"}}
  Emit = FALSE
INVARIANT Inv
CHECK_DEADLOCK FALSE
