SPECIFICATION CSpec
CONSTANTS
  GenAbis = {"x64elf", "x64pe", "ia32pe", "arm64", "mips32"}
  Wide = FALSE
  ScratchVals = {0}
  ArgCounts = {0, 1, 2, 4, 7, 9}
  SingleCounts = {1, 7, 9}
  HistSites = {2, 3}
  RotStep = 5
  Hist16 = FALSE
  Emit = TRUE
  Strict = FALSE
INVARIANT CInv_TypeOK
INVARIANT CInv_Refusal
INVARIANT CInv_ArgsAtCall
INVARIANT CInv_ShadowReserved
INVARIANT CInv_AlignedAtCall
INVARIANT CInv_OneCall
INVARIANT CInv_BodyStackNeutral
INVARIANT CInv_SpRestored
INVARIANT CInv_NoWriteAtOrAboveOriginalSp
INVARIANT CInv_NoRedZoneWriteIfLeaf
INVARIANT CInv_ReadsOnlyOwnSlots
INVARIANT CInv_SpAlignedOnAccess
INVARIANT CInv_NoCollateral
INVARIANT CInv_FlagsRestoredIfDeclared
INVARIANT CInv_ReportedAdjustment
INVARIANT CInv_Progress
CHECK_DEADLOCK FALSE
