SPECIFICATION Spec
CONSTANTS
  Isas = {"x64"}
  MaxBlocks = 2
  Templates = {"o23", "ret"}
  Layouts = {"none", "one"}
  FnTables = {"present", "empty", "absent"}
  Names = {"fa"}
  BothOrders = FALSE
  EntModes = {"first"}
  EpChoices = {0}
  CfgModes = {"full"}
  AddrModes = {TRUE}
  TgtChoices = {0}
  ScopeKinds = {"allblocks", "allfuncs", "single"}
  Positions = {"ENTRY", "ANYWHERE"}
  FPositions = {"ENTRY"}
  FilterKinds = {"none"}
  PatNames = {"fa"}
  MaxRegs = 2
  MaxPasses = 3
  Emit = TRUE
INVARIANT Inv
CHECK_DEADLOCK FALSE
