SPECIFICATION Spec
CONSTANTS
  MaxSize = 6
  MaxBlocks = 3
  Inits = "full"
  KindMode = "one"
  AlignVals = {}
  MaxAligned = 0
  ItemMode = "dense"
  MaxItems = 0
  Addrs = {"none", "4096"}
  Grows = {}
  Lates = TRUE
  NopKinds = {"1"}
  VariantSet = "geo"
  Rotate = 0
  Emit = TRUE
INVARIANT Inv
CHECK_DEADLOCK FALSE
