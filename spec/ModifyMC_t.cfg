SPECIFICATION SpecB
CONSTANTS
  MaxBlocks = 2
  MaxReqs = 2
  Templates = {"o23", "ret", "jmp"}
  PatchKinds = {"plain2", "loop", "ret"}
  FnLayouts = {"none", "one"}
  EndSyms = {TRUE, FALSE}
  NoSyms = {FALSE}
  AnnModes = {"none"}
  WithProxyDel = TRUE
  CfiLayouts = {"none"}
  Isa = "x64"
  WithScopes = FALSE
  Fmts = {"elf"}
  WholeOnly = FALSE
  Leads = {0}
  DropFnTables = {FALSE}
  ExtraData = {FALSE}
  Retargets = {FALSE}
  AlignOpts = {0}
  Aliases = {FALSE}
  SharedRet = {FALSE}
  InsFns = {"none"}
  Emit = FALSE
INVARIANT Inv_Completes
INVARIANT Inv_Bytes
INVARIANT Inv_Syms
INVARIANT Inv_Fn
INVARIANT Inv_NoDeadEdges
INVARIANT Inv_PreCfg
INVARIANT Inv_Cfg
CHECK_DEADLOCK FALSE
