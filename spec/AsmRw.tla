------------------------------- MODULE AsmRw -------------------------------
(***************************************************************************)
(* C13, "temporary labels receive the caller's UNIQUE suffix": the caller  *)
(* is RewritingContext.  One apply() assembles every patch with a fresh    *)
(* Assembler whose temp_symbol_suffix is "_" \o _patch_id; _patch_id       *)
(* numbers every assembled patch of the context - first the bodies of the  *)
(* functions added with register_insert_function (in registration order),  *)
(* then the ordinary modifications (by position).                          *)
(*                                                                         *)
(* LEVEL B: that numbering as a state machine over scenarios (sequences of *)
(*   ins(p, site): insert_at(site block, 0, patch p)                       *)
(*   fn(p):        register_insert_function(fresh name, patch p)           *)
(* where the patches of the catalogue define the same temporary labels).   *)
(* LEVEL A: C13_UniqueAcrossPatches over a symbol table (the model's, and  *)
(* in TraceAsm.tla the one projected from the rewritten module).           *)
(* Every finished scenario is emitted as a case for the real               *)
(* RewritingContext (harness/asm/runner.py run_rwx).                       *)
(***************************************************************************)
EXTENDS Sequences, SequencesExt, Naturals, Integers, FiniteSets, Functions, Json, TLC

CONSTANTS RwMaxOps,    \* operations registered in one context
          RwSites,     \* number of blocks of the module that can be insertion sites
          RwEmit       \* print cases

VARIABLES rwOps,    \* registered operations, in registration order
          rwPh,     \* "reg" | "fns" | "mods" | "done"
          rwPid,    \* RewritingContext._patch_id
          rwTodo,   \* operations still to assemble in the current phase
          rwMade    \* <<[op, id]>> : operation `op` was assembled with suffix "_id"
rwVars == <<rwOps, rwPh, rwPid, rwTodo, rwMade>>

RwT(k, l, a, n) == [k |-> k, l |-> l, a |-> a, n |-> n, ch |-> 1]
RwTemp == {"x", "y"}
\* patches that reuse the same temporary labels (tokens of Asm.tla)
RwCatalogue ==
  << <<RwT("label", "x", 0, 0), RwT("op", "", 0, 1), RwT("jmp", "x", 0, 2)>>,
     <<RwT("label", "x", 0, 0), RwT("op", "", 0, 1), RwT("label", "y", 0, 0), RwT("jcc", "y", 0, 2), RwT("jmp", "x", 0, 2)>>,
     <<RwT("jmp", "y", 0, 2), RwT("label", "y", 0, 0), RwT("op", "", 1, 5)>> >>
RwLabels(toks) == {toks[i].l : i \in {j \in DOMAIN toks : toks[j].k = "label" /\ toks[j].l \in RwTemp}}
RwAlphabet ==
  {[k |-> "ins", p |-> p, site |-> s] : p \in DOMAIN RwCatalogue, s \in 1..RwSites}
    \cup {[k |-> "fn", p |-> p, site |-> 0] : p \in DOMAIN RwCatalogue}

---------------------------------------------------------------------------
\* LEVEL A.  S = [ops : <<[k, p, site, toks]>>, syms : <<[nm, b, sfx, op]>>, rn, exc]
\*   syms: the symbol table after apply(); b / sfx: the name split at a
\*   trailing _<digits>; op: the operation whose patch defined the symbol (0: none)
RwSymsOf(S, j) == SelectSeq(S.syms, LAMBDA y : y.op = j)
RwSuffixes(S, j) == {RwSymsOf(S, j)[i].sfx : i \in DOMAIN RwSymsOf(S, j)}
C13_UniqueAcrossPatches(S) ==
  /\ S.exc = ""
  \* no two symbols of the module have one name
  /\ \A i, j \in DOMAIN S.syms : i # j => S.syms[i].nm # S.syms[j].nm
  \* every patch defined each of its temporary labels once, all with one suffix
  /\ \A j \in DOMAIN S.ops :
        LET c == RwSymsOf(S, j)
            ls == RwLabels(S.ops[j].toks)
        IN  /\ Len(c) = Cardinality(ls)
            /\ {c[i].b : i \in DOMAIN c} = {S.rn[l] : l \in ls}
            /\ \A i \in DOMAIN c : c[i].sfx # ""
            /\ Cardinality(RwSuffixes(S, j)) <= 1
  \* different patches got different suffixes
  /\ \A j, q \in DOMAIN S.ops :
        (j # q /\ RwSuffixes(S, j) # {} /\ RwSuffixes(S, q) # {}) => RwSuffixes(S, j) # RwSuffixes(S, q)

---------------------------------------------------------------------------
\* LEVEL B
RwWithToks(ops) == [j \in DOMAIN ops |-> [k |-> ops[j].k, p |-> ops[j].p, site |-> ops[j].site,
                                          toks |-> RwCatalogue[ops[j].p]]]
RwIdx(ops, kind) == SelectSeq([j \in DOMAIN ops |-> j], LAMBDA j : ops[j].k = kind)
\* ordinary modifications are applied by position (site), then registration order
RwModOrder(ops) ==
  SortSeq(RwIdx(ops, "ins"), LAMBDA a, b : ops[a].site < ops[b].site \/ (ops[a].site = ops[b].site /\ a < b))
RwModelSyms(ops, made) ==
  FlattenSeq([q \in DOMAIN made |->
     LET ls == RwLabels(RwCatalogue[ops[made[q].op].p])
     IN  [i \in 1..Cardinality(ls) |->
            LET l == SetToSeq(ls)[i]
            IN  [nm |-> l \o "_" \o ToString(made[q].id), b |-> l, sfx |-> "_" \o ToString(made[q].id),
                 op |-> made[q].op]]])
RwModelView(ops, made) ==
  [ops |-> RwWithToks(ops), syms |-> RwModelSyms(ops, made), rn |-> [l \in RwTemp |-> l], exc |-> ""]

RwInit == rwOps = <<>> /\ rwPh = "reg" /\ rwPid = 0 /\ rwTodo = <<>> /\ rwMade = <<>>
RwRegister ==          \* insert_at / register_insert_function
  /\ rwPh = "reg" /\ Len(rwOps) < RwMaxOps
  /\ \E o \in RwAlphabet : rwOps' = Append(rwOps, o)
  /\ UNCHANGED <<rwPh, rwPid, rwTodo, rwMade>>
RwBeginApply ==        \* apply(): function bodies first
  /\ rwPh = "reg" /\ Len(rwOps) >= 2
  /\ rwPh' = "fns" /\ rwTodo' = RwIdx(rwOps, "fn")
  /\ UNCHANGED <<rwOps, rwPid, rwMade>>
RwAssemble ==          \* _invoke_patch: _patch_id += 1; Assembler(temp_symbol_suffix = "_" + id)
  /\ rwPh \in {"fns", "mods"} /\ rwTodo # <<>>
  /\ rwPid' = rwPid + 1
  /\ rwMade' = Append(rwMade, [op |-> Head(rwTodo), id |-> rwPid + 1])
  /\ rwTodo' = Tail(rwTodo)
  /\ UNCHANGED <<rwOps, rwPh>>
RwFunctionsDone ==
  /\ rwPh = "fns" /\ rwTodo = <<>>
  /\ rwPh' = "mods" /\ rwTodo' = RwModOrder(rwOps)
  /\ UNCHANGED <<rwOps, rwPid, rwMade>>
RwApplyDone ==
  /\ rwPh = "mods" /\ rwTodo = <<>>
  /\ rwPh' = "done"
  /\ UNCHANGED <<rwOps, rwPid, rwTodo, rwMade>>
RwNext == RwRegister \/ RwBeginApply \/ RwAssemble \/ RwFunctionsDone \/ RwApplyDone
RwSpec == RwInit /\ [][RwNext]_rwVars

RwCase == [kind |-> "rwx", ops |-> RwWithToks(rwOps),
           mids |-> [q \in DOMAIN rwMade |-> <<rwMade[q].op, rwMade[q].id>>]]
RwInv ==
  /\ rwPid = Len(rwMade)
  /\ (rwPh = "done" =>
        /\ Len(rwMade) = Len(rwOps)
        /\ C13_UniqueAcrossPatches(RwModelView(rwOps, rwMade))
        /\ (RwEmit => PrintT("CASE " \o ToJson(RwCase))))
=============================================================================
