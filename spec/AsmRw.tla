------------------------------- MODULE AsmRw -------------------------------
(***************************************************************************)
(* C13, "temporary labels receive the caller's UNIQUE suffix": the caller  *)
(* is RewritingContext.  One apply() assembles every patch with a fresh    *)
(* Assembler whose temp_symbol_suffix is "_" \o _patch_id; _patch_id       *)
(* numbers every assembled patch of the context - first the bodies of the  *)
(* functions added with register_insert_function (in registration order),  *)
(* then the ordinary modifications (by position).                          *)
(*                                                                         *)
(* LEVEL B: that numbering as a state machine over scenarios (sequences of *)
(*   ins(p, site): insert_at(site block, 0, patch p)                       *)
(*   fn(p):        register_insert_function(fresh name, patch p)           *)
(* where the patches of the catalogue define the same temporary labels).   *)
(* LEVEL A: C13_UniqueAcrossPatches over a symbol table (the model's, and  *)
(* in TraceAsm.tla the one projected from the rewritten module).           *)
(* Every finished scenario is emitted as a case for the real               *)
(* RewritingContext (harness/asm/runner.py run_rwx).                       *)
(*                                                                         *)
(* C13, "a name that exists in the module always binds to that module's    *)
(* symbol object": scenarios may start with a name N in one of the states  *)
(*   code  - a symbol of the module on a code block                        *)
(*   fn    - a function just added with register_insert_function(N, ...)   *)
(*   none  - a symbol without referent       proxy - an extern symbol      *)
(*   new   - the name does not exist                                       *)
(* followed by get_or_insert_extern_symbol(N, lib) and a patch that calls  *)
(* (or takes the address of) N.  LEVEL B keeps the symbol table; LEVEL A   *)
(* is C13_ExternBinding.                                                   *)
(***************************************************************************)
EXTENDS Sequences, SequencesExt, Naturals, Integers, FiniteSets, Functions, Json, TLC

CONSTANTS RwMaxOps,    \* operations registered in one context
          RwSites,     \* number of blocks of the module that can be insertion sites
          RwEmit       \* print cases

VARIABLES rwExt,    \* [pre, ref]: state of the name N before, and how the last patch uses it ("off": no N)
          rwSyms,   \* symbol table of the module as far as N is concerned: {[nm, obj, kind]}
          rwGot,    \* object returned by get_or_insert_extern_symbol (0: not called)
          rwOps,    \* registered operations, in registration order
          rwPh,     \* "reg" | "fns" | "mods" | "done"
          rwPid,    \* RewritingContext._patch_id
          rwTodo,   \* operations still to assemble in the current phase
          rwMade    \* <<[op, id]>> : operation `op` was assembled with suffix "_id"
rwVars == <<rwExt, rwSyms, rwGot, rwOps, rwPh, rwPid, rwTodo, rwMade>>

RwT(k, l, a, n) == [k |-> k, l |-> l, a |-> a, n |-> n, ch |-> 1]
RwTemp == {"x", "y"}
\* patches that reuse the same temporary labels (tokens of Asm.tla)
RwCatalogue ==
  << <<RwT("label", "x", 0, 0), RwT("op", "", 0, 1), RwT("jmp", "x", 0, 2)>>,
     <<RwT("label", "x", 0, 0), RwT("op", "", 0, 1), RwT("label", "y", 0, 0), RwT("jcc", "y", 0, 2), RwT("jmp", "x", 0, 2)>>,
     <<RwT("jmp", "y", 0, 2), RwT("label", "y", 0, 0), RwT("op", "", 1, 5)>>,
     \* 4: body of the function named N; 5 / 6: the patch that calls N / takes its address
     <<RwT("op", "", 0, 1), RwT("ret", "", 0, 1)>>,
     <<RwT("label", "x", 0, 0), RwT("op", "", 0, 1), RwT("call", "n", 0, 5)>>,
     <<RwT("label", "x", 0, 0), RwT("lea", "n", 0, 7), RwT("op", "", 0, 1)>> >>
RwUserPatches == 1..3
RwLabels(toks) == {toks[i].l : i \in {j \in DOMAIN toks : toks[j].k = "label" /\ toks[j].l \in RwTemp}}
RwAlphabet ==
  {[k |-> "ins", p |-> p, site |-> s] : p \in RwUserPatches, s \in 1..RwSites}
    \cup {[k |-> "fn", p |-> p, site |-> 0] : p \in RwUserPatches}
RwExtChoices ==
  {[pre |-> "off", ref |-> ""]}
    \cup {[pre |-> pre, ref |-> ref] : pre \in {"code", "fn", "none", "proxy", "new"}, ref \in {"call", "lea"}}
\* the operations as registered: the function N first, the patch using N last
RwEff(ops, ext) ==
  (IF ext.pre = "fn" THEN <<[k |-> "fn", p |-> 4, site |-> 0]>> ELSE <<>>)
    \o ops
    \o (IF ext.pre # "off" THEN <<[k |-> "ins", p |-> IF ext.ref = "call" THEN 5 ELSE 6, site |-> 1]>> ELSE <<>>)

---------------------------------------------------------------------------
\* LEVEL A.  S = [ops : <<[k, p, site, toks]>>, syms : <<[nm, b, sfx, op]>>, rn, exc]
\*   syms: the symbol table after apply(); b / sfx: the name split at a
\*   trailing _<digits>; op: the operation whose patch defined the symbol (0: none)
RwSymsOf(S, j) == SelectSeq(S.syms, LAMBDA y : y.op = j)
RwSuffixes(S, j) == {RwSymsOf(S, j)[i].sfx : i \in DOMAIN RwSymsOf(S, j)}
C13_UniqueAcrossPatches(S) ==
  /\ S.exc = ""
  \* no two symbols of the module have one name
  /\ \A i, j \in DOMAIN S.syms : i # j => S.syms[i].nm # S.syms[j].nm
  \* every patch defined each of its temporary labels once, all with one suffix
  /\ \A j \in DOMAIN S.ops :
        LET c == RwSymsOf(S, j)
            ls == RwLabels(S.ops[j].toks)
        IN  /\ Len(c) = Cardinality(ls)
            /\ {c[i].b : i \in DOMAIN c} = {S.rn[l] : l \in ls}
            /\ \A i \in DOMAIN c : c[i].sfx # ""
            /\ Cardinality(RwSuffixes(S, j)) <= 1
  \* different patches got different suffixes
  /\ \A j, q \in DOMAIN S.ops :
        (j # q /\ RwSuffixes(S, j) # {} /\ RwSuffixes(S, q) # {}) => RwSuffixes(S, j) # RwSuffixes(S, q)

\* C13_ExternBinding.  X = what happened to the name N:
\*   [pre, ref, hadold, gotold, nnamed, kind, finalgot, libs, nrefs, refsgot, exc]
\*   hadold   a symbol named N existed before get_or_insert_extern_symbol
\*   gotold   the call returned that very object      finalgot  it is in the module afterwards
\*   nnamed   symbols named N after apply()           kind      what the returned symbol refers to
\*   libs     entries the call added to the libraries table
\*   nrefs / refsgot   expressions naming N after apply(), and whether all name the returned object
C13_ExternBinding(X) ==
  /\ X.exc = (IF X.pre = "none" /\ X.ref = "call" THEN "UnsupportedAssemblyError" ELSE "")
  /\ X.nnamed = 1 /\ X.finalgot
  /\ IF X.pre = "new"
     THEN ~X.hadold /\ X.kind = "proxy" /\ X.libs = 1
     ELSE /\ X.hadold /\ X.gotold /\ X.libs = 0
          /\ X.kind = (IF X.pre = "fn" THEN "code" ELSE X.pre)
  /\ (X.exc = "" => X.nrefs = 1 /\ X.refsgot)

---------------------------------------------------------------------------
\* LEVEL B
RwWithToks(ops) == [j \in DOMAIN ops |-> [k |-> ops[j].k, p |-> ops[j].p, site |-> ops[j].site,
                                          toks |-> RwCatalogue[ops[j].p]]]
RwIdx(ops, kind) == SelectSeq([j \in DOMAIN ops |-> j], LAMBDA j : ops[j].k = kind)
\* ordinary modifications are applied by position (site), then registration order
RwModOrder(ops) ==
  SortSeq(RwIdx(ops, "ins"), LAMBDA a, b : ops[a].site < ops[b].site \/ (ops[a].site = ops[b].site /\ a < b))
RwModelSyms(ops, made) ==
  FlattenSeq([q \in DOMAIN made |->
     LET ls == RwLabels(RwCatalogue[ops[made[q].op].p])
     IN  [i \in 1..Cardinality(ls) |->
            LET l == SetToSeq(ls)[i]
            IN  [nm |-> l \o "_" \o ToString(made[q].id), b |-> l, sfx |-> "_" \o ToString(made[q].id),
                 op |-> made[q].op]]])
RwModelView(ops, made) ==
  [ops |-> RwWithToks(ops), syms |-> RwModelSyms(ops, made), rn |-> [l \in RwTemp |-> l], exc |-> ""]

RwNamed(syms) == {y \in syms : y.nm = "n"}
RwInit ==
  /\ rwExt \in RwExtChoices
  /\ rwSyms = (IF rwExt.pre \in {"code", "none", "proxy"} THEN {[nm |-> "n", obj |-> 1, kind |-> rwExt.pre]} ELSE {})
  /\ rwGot = 0 /\ rwOps = <<>> /\ rwPh = (IF rwExt.pre = "off" THEN "reg" ELSE "pre")
  /\ rwPid = 0 /\ rwTodo = <<>> /\ rwMade = <<>>
RwRegisterExternFunction ==     \* register_insert_function(N, body): a new symbol on a new code block
  /\ rwPh = "pre" /\ rwExt.pre = "fn" /\ RwNamed(rwSyms) = {}
  /\ rwSyms' = rwSyms \cup {[nm |-> "n", obj |-> 1, kind |-> "code"]}
  /\ UNCHANGED <<rwExt, rwGot, rwOps, rwPh, rwPid, rwTodo, rwMade>>
RwGetOrInsertExtern ==          \* get_or_insert_extern_symbol(N, lib)
  /\ rwPh = "pre" /\ (rwExt.pre = "fn" => RwNamed(rwSyms) # {})
  /\ IF RwNamed(rwSyms) # {}
     THEN rwGot' = (CHOOSE y \in RwNamed(rwSyms) : TRUE).obj /\ rwSyms' = rwSyms
     ELSE rwGot' = 2 /\ rwSyms' = rwSyms \cup {[nm |-> "n", obj |-> 2, kind |-> "proxy"]}
  /\ rwPh' = "reg"
  /\ UNCHANGED <<rwExt, rwOps, rwPid, rwTodo, rwMade>>
RwRegister ==          \* insert_at / register_insert_function
  /\ rwPh = "reg" /\ Len(rwOps) < (IF rwExt.pre = "off" THEN RwMaxOps ELSE 1)
  /\ \E o \in RwAlphabet : rwOps' = Append(rwOps, o)
  /\ UNCHANGED <<rwExt, rwSyms, rwGot, rwPh, rwPid, rwTodo, rwMade>>
RwBeginApply ==        \* apply(): function bodies first
  /\ rwPh = "reg" /\ (rwExt.pre = "off" => Len(rwOps) >= 2)
  /\ rwPh' = "fns" /\ rwTodo' = RwIdx(RwEff(rwOps, rwExt), "fn")
  /\ UNCHANGED <<rwExt, rwSyms, rwGot, rwOps, rwPid, rwMade>>
RwAssemble ==          \* _invoke_patch: _patch_id += 1; Assembler(temp_symbol_suffix = "_" + id)
  /\ rwPh \in {"fns", "mods"} /\ rwTodo # <<>>
  /\ rwPid' = rwPid + 1
  /\ rwMade' = Append(rwMade, [op |-> Head(rwTodo), id |-> rwPid + 1])
  /\ rwTodo' = Tail(rwTodo)
  /\ UNCHANGED <<rwExt, rwSyms, rwGot, rwOps, rwPh>>
RwFunctionsDone ==
  /\ rwPh = "fns" /\ rwTodo = <<>>
  /\ rwPh' = "mods" /\ rwTodo' = RwModOrder(RwEff(rwOps, rwExt))
  /\ UNCHANGED <<rwExt, rwSyms, rwGot, rwOps, rwPid, rwMade>>
RwApplyDone ==
  /\ rwPh = "mods" /\ rwTodo = <<>>
  /\ rwPh' = "done"
  /\ UNCHANGED <<rwExt, rwSyms, rwGot, rwOps, rwPid, rwTodo, rwMade>>
RwNext == RwRegisterExternFunction \/ RwGetOrInsertExtern \/ RwRegister \/ RwBeginApply \/ RwAssemble
          \/ RwFunctionsDone \/ RwApplyDone
RwSpec == RwInit /\ [][RwNext]_rwVars

RwCase == [kind |-> "rwx", ops |-> RwWithToks(RwEff(rwOps, rwExt)), ext |-> rwExt,
           mids |-> [q \in DOMAIN rwMade |-> <<rwMade[q].op, rwMade[q].id>>]]
\* what the model says happened to N
RwModelExt ==
  LET got == {y \in rwSyms : y.obj = rwGot}
      refused == rwExt.pre = "none" /\ rwExt.ref = "call"     \* a symbol without referent is no call target
  IN  [pre |-> rwExt.pre, ref |-> rwExt.ref, hadold |-> rwExt.pre \in {"code", "fn", "none", "proxy"},
       gotold |-> rwGot = 1, nnamed |-> Cardinality(RwNamed(rwSyms)),
       kind |-> IF got = {} THEN "" ELSE (CHOOSE y \in got : TRUE).kind, finalgot |-> got # {},
       libs |-> IF rwGot = 2 THEN 1 ELSE 0, nrefs |-> IF refused THEN 0 ELSE 1, refsgot |-> TRUE,
       exc |-> IF refused THEN "UnsupportedAssemblyError" ELSE ""]
RwInv ==
  /\ rwPid = Len(rwMade)
  /\ (rwPh = "done" =>
        LET E == RwEff(rwOps, rwExt)
        IN  /\ Len(rwMade) = Len(E)
            /\ (RwModelExt.exc = "" => C13_UniqueAcrossPatches(RwModelView(E, rwMade)))
            /\ (rwExt.pre # "off" => C13_ExternBinding(RwModelExt))
            /\ (RwEmit => PrintT("CASE " \o ToJson(RwCase))))
=============================================================================
