SPECIFICATION Spec
CONSTANTS
  VocabName = "mini"
  MaxLen = 5
  MaxChunks = 5
  TUs = {TRUE, FALSE}
  AUs = {FALSE}
  ICFIs = {FALSE}
  MSs = {{"a"}}
  Emit = TRUE
INVARIANT Inv
CHECK_DEADLOCK FALSE
