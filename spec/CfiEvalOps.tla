---------------------------- MODULE CfiEvalOps ----------------------------
(***************************************************************************)
(* The DWARF call-frame machine as driven by `.cfi_*` assembler directives *)
(* (the table `cfiDirectives` of a gtirb module), as PURE operators.  This *)
(* module has no VARIABLES and no CONSTANTS: EXTEND it wherever unwind     *)
(* states have to be computed (CfiEval.tla: state machine + model          *)
(* checking; TraceCfiEval.tla: judge of observed runs; C08: unwind states  *)
(* before / after rewriting).                                              *)
(*                                                                         *)
(* DIRECTIVE RECORD (uniform: every field is always present)               *)
(*   [op    |-> STRING,  name without ".cfi_": "startproc" "endproc"       *)
(*                       "def_cfa" "def_cfa_register" "def_cfa_offset"     *)
(*                       "adjust_cfa_offset" "offset" "rel_offset"         *)
(*                       "val_offset" "register" "undefined" "same_value"  *)
(*                       "restore" "remember_state" "restore_state"        *)
(*                       "personality" "lsda" "return_column" "escape";    *)
(*                       position tokens (token streams only): "nextoff"   *)
(*                       "nextblk"                                         *)
(*    r     |-> Int,     1st operand: register / return column / pointer   *)
(*                       encoding byte (personality, lsda); 0 when unused  *)
(*    n     |-> Int,     2nd operand: offset / second register; for the    *)
(*                       one-operand offset directives (def_cfa_offset,    *)
(*                       adjust_cfa_offset) the offset is in n; 0 unused   *)
(*    sym   |-> STRING,  personality / lsda symbol name; "" = no symbol    *)
(*                       (null UUID), "?" = dangling UUID; "" when unused  *)
(*    insts |-> Seq(EscInst) ]   escape only, <<>> otherwise               *)
(*   EscInst = [k |-> "nop" | "def_cfa_expression" | "expression" |        *)
(*                    "val_expression", r |-> Int, e |-> Seq(ExprOp)]      *)
(*   ExprOp  = [o |-> "OpBReg" | "OpDeref" | "OpPlus" | "OpLit" |          *)
(*                    "OpConst1U" | "OpConst2U" | "OpAddr", a, b |-> Int]  *)
(*   D(op, r, n) / DSym / DEsc below build such records; DirOfArgs(op,     *)
(*   args, sym) builds one from the aux-data operand list.                 *)
(*                                                                         *)
(* INPUT forms                                                             *)
(*   groups : Seq([blk |-> Int, off |-> Int, dirs |-> Seq(Directive)]),    *)
(*            one entry per (block, offset) key of the table, in address   *)
(*            order (an entry with dirs = <<>> still yields);              *)
(*   tokens : Seq(Directive) with position tokens; Groups(tokens) starts   *)
(*            at (blk 0, off 0); "nextoff" -> (blk, off+1), "nextblk" ->   *)
(*            (blk+1, 0).                                                  *)
(*                                                                         *)
(* RESULT of CfiRunGroups(groups, abi, V) / CfiRun(tokens, abi):           *)
(*   [ys |-> Seq([blk, off, st]), err |-> "" | "CFIStateError" |           *)
(*           "ValueError" | "Unsupported" | "KeyError"(deviation only)]    *)
(*   ys: the state after the last directive of each group, for the groups  *)
(*   before the first error; st = None | procedure state (see Fresh).      *)
(*   abi = AbiOf(name);  V = Normative (or a deviation record, used only   *)
(*   for the narrow signatures of known findings).                         *)
(*   Canon(st) is the JSON-shaped form (register rules as a sequence       *)
(*   sorted by register) used to compare with observed states.             *)
(***************************************************************************)
EXTENDS Integers, Sequences, FiniteSets, SequencesExt

-----------------------------------------------------------------------------
(* ABIs.  The default return-address column is a PARAMETER of the library's *)
(* ABI description (ABI.default_dwarf_eh_return_column: 16 / 32 / 32); the  *)
(* evaluator is judged given that parameter.  (Observed, not a finding:    *)
(* llvm-mc CIEs for AArch64 / MIPS o32 use columns 30 (LR) / 31 ($ra).)     *)
(* retcol: return-address column of the CIE an assembler emits for  *)
(* the target (x86-64: 16 = RIP; AArch64: 30 = LR; MIPS o32: 31 = $ra;     *)
(* cross-checked with `llvm-mc -filetype=obj` + `llvm-dwarfdump            *)
(* --eh-frame`).  retcol = -1: the library documents no DWARF EH support   *)
(* for the ABI (NotImplementedError, a legitimate refusal).  order/ptr:    *)
(* byte order and pointer size of the target (MIPS32 = big endian: the     *)
(* library assembles for the triple mips-pc-linux).                        *)
AbiNames == {"x64-elf", "x64-pe", "ia32-pe", "arm64-elf", "mips32-elf"}
AbiOf(name) ==
  CASE name = "x64-elf"    -> [name |-> name, retcol |-> 16, ptr |-> 8, order |-> "little"]
    [] name = "x64-pe"     -> [name |-> name, retcol |-> -1, ptr |-> 8, order |-> "little"]
    [] name = "ia32-pe"    -> [name |-> name, retcol |-> -1, ptr |-> 4, order |-> "little"]
    [] name = "arm64-elf"  -> [name |-> name, retcol |-> 32, ptr |-> 8, order |-> "little"]
    [] name = "mips32-elf" -> [name |-> name, retcol |-> 32, ptr |-> 4, order |-> "big"]

(* Deviations from the normative rules; all "off" = the specification.     *)
(* Used only to recognise known findings exactly (TraceCfiEval.KfTags).    *)
Normative == [restore |-> FALSE, rel |-> FALSE, order |-> FALSE, retcol |-> FALSE]
DevNames == {"restore", "rel", "order", "retcol"}
\*  restore: restore of a register with no current and no initial rule raises KeyError
\*  rel    : rel_offset adds to the register's current offset rule instead of
\*           subtracting the CFA offset
\*  order  : escapes are decoded little endian whatever the target
\*  retcol : default return column 32 on arm64-elf / mips32-elf

-----------------------------------------------------------------------------
(* Constructors *)
D(op, r, n) == [op |-> op, r |-> r, n |-> n, sym |-> "", insts |-> <<>>]
DSym(op, enc, sym) == [op |-> op, r |-> enc, n |-> 0, sym |-> sym, insts |-> <<>>]
DEsc(insts) == [op |-> "escape", r |-> 0, n |-> 0, sym |-> "", insts |-> insts]
XOp(o, a, b) == [o |-> o, a |-> a, b |-> b]
EscI(k, r, e) == [k |-> k, r |-> r, e |-> e]

(* From the aux-data form (name without ".cfi_", operand list, symbol name) *)
(* of every directive except escape (escape: DEsc(EscapeOfBytes(..))).     *)
DirOfArgs(op, args, sym) ==
  CASE op \in {"def_cfa", "offset", "rel_offset", "val_offset", "register"} -> D(op, args[1], args[2])
    [] op \in {"def_cfa_offset", "adjust_cfa_offset"} -> D(op, 0, args[1])
    [] op \in {"personality", "lsda"} -> DSym(op, args[1], sym)
    [] op \in {"startproc", "endproc", "remember_state", "restore_state", "nextoff", "nextblk"} -> D(op, 0, 0)
    [] OTHER -> D(op, args[1], 0)   \* def_cfa_register undefined same_value restore return_column

PeOmit == 255                      \* DW_EH_PE_omit
IsPosTok(d) == d.op \in {"nextoff", "nextblk"}

(* Rules.  Uniform records; unused fields are 0 / <<>>. *)
Rule(k, n, e) == [k |-> k, n |-> n, e |-> e]
\* k: "undefined" "same_value" "offset" "val_offset" "register" "expression" "val_expression"
CfaNone == [k |-> "none", r |-> 0, n |-> 0, e |-> <<>>]
CfaRegOff(r, n) == [k |-> "regoff", r |-> r, n |-> n, e |-> <<>>]
CfaExpr(e) == [k |-> "expression", r |-> 0, n |-> 0, e |-> e]
PtrNone == [set |-> FALSE, enc |-> 0, sym |-> ""]
Ptr(enc, sym) == [set |-> TRUE, enc |-> enc, sym |-> sym]

EmptyRegs == <<>>                  \* function with empty domain
EmptyRow == [cfa |-> CfaNone, regs |-> EmptyRegs]
None == [proc |-> FALSE]
Fresh(retcol) ==
  [proc |-> TRUE, retcol |-> retcol, pers |-> PtrNone, lsda |-> PtrNone,
   cur |-> EmptyRow, init |-> EmptyRow, stack |-> <<>>]

SetReg(regs, r, rule) == [x \in (DOMAIN regs) \cup {r} |-> IF x = r THEN rule ELSE regs[x]]
DelReg(regs, r) == [x \in (DOMAIN regs) \ {r} |-> regs[x]]

Ok(st) == [st |-> st, err |-> ""]
Err(e) == [st |-> None, err |-> e]
ErrState == Err("CFIStateError")
ErrValue == Err("ValueError")

DefaultRetcol(abi, V) ==
  IF V.retcol /\ abi.name \in {"arm64-elf", "mips32-elf"} THEN 32 ELSE abi.retcol

-----------------------------------------------------------------------------
(* One operator per directive: state in a procedure -> outcome.            *)
WithCur(st, row) == Ok([st EXCEPT !.cur = row])
WithReg(st, r, rule) == WithCur(st, [st.cur EXCEPT !.regs = SetReg(st.cur.regs, r, rule)])

DoDefCfa(st, r, n) == WithCur(st, [st.cur EXCEPT !.cfa = CfaRegOff(r, n)])
DoDefCfaRegister(st, r) ==
  IF st.cur.cfa.k # "regoff" THEN ErrState
  ELSE WithCur(st, [st.cur EXCEPT !.cfa = CfaRegOff(r, st.cur.cfa.n)])
DoDefCfaOffset(st, n) ==
  IF st.cur.cfa.k # "regoff" THEN ErrState
  ELSE WithCur(st, [st.cur EXCEPT !.cfa = CfaRegOff(st.cur.cfa.r, n)])
DoAdjustCfaOffset(st, n) ==
  IF st.cur.cfa.k # "regoff" THEN ErrState
  ELSE WithCur(st, [st.cur EXCEPT !.cfa = CfaRegOff(st.cur.cfa.r, st.cur.cfa.n + n)])
DoOffset(st, r, n) == WithReg(st, r, Rule("offset", n, <<>>))
DoValOffset(st, r, n) == WithReg(st, r, Rule("val_offset", n, <<>>))
DoRegister(st, r, r2) == WithReg(st, r, Rule("register", r2, <<>>))
DoUndefined(st, r) == WithReg(st, r, Rule("undefined", 0, <<>>))
DoSameValue(st, r) == WithReg(st, r, Rule("same_value", 0, <<>>))
(* .cfi_rel_offset r, n == .cfi_offset r, n - (current CFA offset) (GNU as *)
(* and LLVM MC); meaningful only while the CFA is register+offset.         *)
DoRelOffset(st, r, n, V) ==
  IF V.rel
  THEN IF r \in DOMAIN st.cur.regs /\ st.cur.regs[r].k = "offset"
       THEN WithReg(st, r, Rule("offset", st.cur.regs[r].n + n, <<>>))
       ELSE ErrState
  ELSE IF st.cur.cfa.k # "regoff" THEN ErrState
       ELSE WithReg(st, r, Rule("offset", n - st.cur.cfa.n, <<>>))
(* DW_CFA_restore: the rule the initial instructions gave r, else no rule. *)
DoRestore(st, r, V) ==
  IF r \in DOMAIN st.init.regs THEN WithReg(st, r, st.init.regs[r])
  ELSE IF V.restore /\ r \notin DOMAIN st.cur.regs THEN Err("KeyError")
  ELSE WithCur(st, [st.cur EXCEPT !.regs = DelReg(st.cur.regs, r)])
DoRememberState(st) == Ok([st EXCEPT !.stack = Append(st.stack, st.cur)])
DoRestoreState(st) ==
  IF st.stack = <<>> THEN ErrState
  ELSE Ok([st EXCEPT !.cur = st.stack[Len(st.stack)],
                     !.stack = SubSeq(st.stack, 1, Len(st.stack) - 1)])
SymMissing(s) == s \in {"", "?"}
DoPersonality(st, enc, sym) ==
  IF enc = PeOmit THEN Ok([st EXCEPT !.pers = PtrNone])
  ELSE IF SymMissing(sym) THEN ErrValue ELSE Ok([st EXCEPT !.pers = Ptr(enc, sym)])
DoLsda(st, enc, sym) ==
  IF enc = PeOmit THEN Ok([st EXCEPT !.lsda = PtrNone])
  ELSE IF SymMissing(sym) THEN ErrValue ELSE Ok([st EXCEPT !.lsda = Ptr(enc, sym)])
DoReturnColumn(st, c) == Ok([st EXCEPT !.retcol = c])

EscStep(row, i) ==
  CASE i.k = "nop" -> row
    [] i.k = "def_cfa_expression" -> [row EXCEPT !.cfa = CfaExpr(i.e)]
    [] i.k = "expression" -> [row EXCEPT !.regs = SetReg(row.regs, i.r, Rule("expression", 0, i.e))]
    [] i.k = "val_expression" -> [row EXCEPT !.regs = SetReg(row.regs, i.r, Rule("val_expression", 0, i.e))]
RECURSIVE EscFold(_, _, _)
EscFold(row, insts, k) == IF k > Len(insts) THEN row ELSE EscFold(EscStep(row, insts[k]), insts, k + 1)

RECURSIVE Pow256(_)
Pow256(i) == IF i = 0 THEN 1 ELSE 256 * Pow256(i - 1)
(* Byte-order deviation: a fixed-width operand read with the wrong order.   *)
RECURSIVE RevBytes(_, _)
RevBytes(v, size) == IF size = 0 THEN 0 ELSE (v % 256) * Pow256(size - 1) + RevBytes(v \div 256, size - 1)
MisreadOp(x, abi) ==
  IF abi.order # "big" THEN x
  ELSE IF x.o = "OpConst2U" THEN [x EXCEPT !.a = RevBytes(x.a, 2)]
  ELSE IF x.o = "OpAddr" THEN [x EXCEPT !.a = RevBytes(x.a, abi.ptr)]
  ELSE x
MisreadInst(i, abi) == [i EXCEPT !.e = [j \in DOMAIN i.e |-> MisreadOp(i.e[j], abi)]]
DoEscape(st, insts, abi, V) ==
  LET seen == IF V.order THEN [j \in DOMAIN insts |-> MisreadInst(insts[j], abi)] ELSE insts
  IN  WithCur(st, EscFold(st.cur, seen, 1))

Step(st, d, abi, V) ==
  IF d.op = "startproc"
  THEN IF st.proc THEN ErrState
       ELSE IF DefaultRetcol(abi, V) < 0 THEN Err("Unsupported")
       ELSE Ok(Fresh(DefaultRetcol(abi, V)))
  ELSE IF ~st.proc THEN ErrState
  ELSE CASE d.op = "endproc" -> Ok(None)
         [] d.op = "def_cfa" -> DoDefCfa(st, d.r, d.n)
         [] d.op = "def_cfa_register" -> DoDefCfaRegister(st, d.r)
         [] d.op = "def_cfa_offset" -> DoDefCfaOffset(st, d.n)
         [] d.op = "adjust_cfa_offset" -> DoAdjustCfaOffset(st, d.n)
         [] d.op = "offset" -> DoOffset(st, d.r, d.n)
         [] d.op = "rel_offset" -> DoRelOffset(st, d.r, d.n, V)
         [] d.op = "val_offset" -> DoValOffset(st, d.r, d.n)
         [] d.op = "register" -> DoRegister(st, d.r, d.n)
         [] d.op = "undefined" -> DoUndefined(st, d.r)
         [] d.op = "same_value" -> DoSameValue(st, d.r)
         [] d.op = "restore" -> DoRestore(st, d.r, V)
         [] d.op = "remember_state" -> DoRememberState(st)
         [] d.op = "restore_state" -> DoRestoreState(st)
         [] d.op = "personality" -> DoPersonality(st, d.r, d.sym)
         [] d.op = "lsda" -> DoLsda(st, d.r, d.sym)
         [] d.op = "return_column" -> DoReturnColumn(st, d.r)
         [] d.op = "escape" -> DoEscape(st, d.insts, abi, V)

-----------------------------------------------------------------------------
(* The machine over a token stream.  m = evaluator between two directives: *)
(*   st      current state (None outside a procedure)                      *)
(*   started a startproc was seen in the open group                        *)
(*   blk,off position of the open group                                    *)
(*   ys      yields of the closed groups                                   *)
(*   err     "" or the error that ended the evaluation                     *)
M0 == [st |-> None, started |-> FALSE, blk |-> 0, off |-> 0, ys |-> <<>>, err |-> ""]

(* Closing a group: the directives at the offset of the startproc belong   *)
(* to the initial (CIE) row; then the state is yielded at the position.    *)
CloseSt(st, started) == IF started /\ st.proc THEN [st EXCEPT !.init = st.cur] ELSE st
Yield(m) == Append(m.ys, [blk |-> m.blk, off |-> m.off, st |-> CloseSt(m.st, m.started)])

Feed(m, d, abi, V) ==
  IF m.err # "" THEN m
  ELSE IF IsPosTok(d)
  THEN [m EXCEPT !.st = CloseSt(m.st, m.started), !.started = FALSE, !.ys = Yield(m),
                 !.blk = IF d.op = "nextblk" THEN m.blk + 1 ELSE m.blk,
                 !.off = IF d.op = "nextblk" THEN 0 ELSE m.off + 1]
  ELSE LET o == Step(m.st, d, abi, V)
       IN  IF o.err # "" THEN [m EXCEPT !.err = o.err]
           ELSE [m EXCEPT !.st = o.st, !.started = m.started \/ d.op = "startproc"]

Result(m) == IF m.err # "" THEN [ys |-> m.ys, err |-> m.err] ELSE [ys |-> Yield(m), err |-> ""]

RECURSIVE FeedAll(_, _, _, _, _)
FeedAll(m, toks, k, abi, V) ==
  IF k > Len(toks) THEN m ELSE FeedAll(Feed(m, toks[k], abi, V), toks, k + 1, abi, V)

CfiRunV(toks, abi, V) == Result(FeedAll(M0, toks, 1, abi, V))
CfiRun(toks, abi) == CfiRunV(toks, abi, Normative)

(* Groups of a token stream (positions as in Feed). *)
RECURSIVE GroupsFrom(_, _, _)
GroupsFrom(gs, toks, k) ==
  IF k > Len(toks) THEN gs
  ELSE LET d == toks[k]
           g == gs[Len(gs)]
       IN  IF IsPosTok(d)
           THEN GroupsFrom(Append(gs, [blk |-> IF d.op = "nextblk" THEN g.blk + 1 ELSE g.blk,
                                       off |-> IF d.op = "nextblk" THEN 0 ELSE g.off + 1,
                                       dirs |-> <<>>, idx |-> <<>>]), toks, k + 1)
           ELSE GroupsFrom([gs EXCEPT ![Len(gs)] = [g EXCEPT !.dirs = Append(g.dirs, d),
                                                            !.idx = Append(g.idx, k)]], toks, k + 1)
\* idx: indices into toks of the directives of the group (used by renderers)
Groups(toks) == GroupsFrom(<<[blk |-> 0, off |-> 0, dirs |-> <<>>, idx |-> <<>>]>>, toks, 1)

(* The evaluator over explicit groups (any blk / off values). *)
RECURSIVE DirsFrom(_, _, _, _, _)
DirsFrom(m, dirs, k, abi, V) ==
  IF k > Len(dirs) THEN m ELSE DirsFrom(Feed(m, dirs[k], abi, V), dirs, k + 1, abi, V)
RECURSIVE GroupsRun(_, _, _, _, _)
GroupsRun(m, groups, k, abi, V) ==
  IF k > Len(groups) \/ m.err # "" THEN m
  ELSE LET g == groups[k]
           m1 == DirsFrom([m EXCEPT !.blk = g.blk, !.off = g.off, !.started = FALSE], g.dirs, 1, abi, V)
       IN  GroupsRun(IF m1.err # "" THEN m1
                     ELSE [m1 EXCEPT !.st = CloseSt(m1.st, m1.started), !.ys = Yield(m1)],
                     groups, k + 1, abi, V)
CfiRunGroups(groups, abi, V) ==
  LET m == GroupsRun(M0, groups, 1, abi, V) IN [ys |-> m.ys, err |-> m.err]

-----------------------------------------------------------------------------
(* JSON-shaped canonical form of a state. *)
CanonRegs(regs) ==
  LET rs == SetToSortSeq(DOMAIN regs, <)
  IN  [i \in 1..Len(rs) |-> [r |-> rs[i], k |-> regs[rs[i]].k, n |-> regs[rs[i]].n, e |-> regs[rs[i]].e]]
CanonRow(row) == [cfa |-> row.cfa, regs |-> CanonRegs(row.regs)]
Canon(st) ==
  IF ~st.proc THEN st
  ELSE [proc |-> TRUE, retcol |-> st.retcol, pers |-> st.pers, lsda |-> st.lsda,
        cur |-> CanonRow(st.cur), init |-> CanonRow(st.init),
        stack |-> [i \in 1..Len(st.stack) |-> CanonRow(st.stack[i])]]
CanonYs(ys) == [i \in 1..Len(ys) |-> [blk |-> ys[i].blk, off |-> ys[i].off, st |-> Canon(ys[i].st)]]

-----------------------------------------------------------------------------
(* Encoding of escapes (spec -> bytes), for the operand ranges used here:  *)
(* ULEB128 of 0..16383, SLEB128 of -64..63.                                *)
Uleb(n) == IF n < 128 THEN <<n>> ELSE <<(n % 128) + 128, n \div 128>>
Sleb(n) == IF n >= 0 THEN <<n>> ELSE <<n + 128>>
RECURSIVE ByteAt(_, _)
ByteAt(v, j) == IF j = 0 THEN v % 256 ELSE ByteAt(v \div 256, j - 1)   \* no 32-bit overflow
FixedU(v, size, order) ==
  [i \in 1..size |-> ByteAt(v, IF order = "little" THEN i - 1 ELSE size - i)]
OpBytes(x, abi) ==
  CASE x.o = "OpBReg" -> <<112 + x.a>> \o Sleb(x.b)            \* DW_OP_breg0 + reg, SLEB offset
    [] x.o = "OpDeref" -> <<6>>
    [] x.o = "OpPlus" -> <<34>>
    [] x.o = "OpLit" -> <<48 + x.a>>
    [] x.o = "OpConst1U" -> <<8, x.a>>
    [] x.o = "OpConst2U" -> <<10>> \o FixedU(x.a, 2, abi.order)
    [] x.o = "OpAddr" -> <<3>> \o FixedU(x.a, abi.ptr, abi.order)
RECURSIVE ExprBytesFrom(_, _, _)
ExprBytesFrom(e, k, abi) == IF k > Len(e) THEN <<>> ELSE OpBytes(e[k], abi) \o ExprBytesFrom(e, k + 1, abi)
ExprBytes(e, abi) == ExprBytesFrom(e, 1, abi)
InstBytes(i, abi) ==
  LET eb == ExprBytes(i.e, abi)
  IN  CASE i.k = "nop" -> <<0>>
        [] i.k = "def_cfa_expression" -> <<15>> \o Uleb(Len(eb)) \o eb
        [] i.k = "expression" -> <<16>> \o Uleb(i.r) \o Uleb(Len(eb)) \o eb
        [] i.k = "val_expression" -> <<22>> \o Uleb(i.r) \o Uleb(Len(eb)) \o eb
RECURSIVE EscapeBytesFrom(_, _, _)
EscapeBytesFrom(insts, k, abi) ==
  IF k > Len(insts) THEN <<>> ELSE InstBytes(insts[k], abi) \o EscapeBytesFrom(insts, k + 1, abi)
EscapeBytes(insts, abi) == EscapeBytesFrom(insts, 1, abi)
(* Inverse over a candidate set (for checks that read escapes back). *)
EscapeOfBytes(bytes, abi, candidates) == CHOOSE c \in candidates : EscapeBytes(c, abi) = bytes
=============================================================================
