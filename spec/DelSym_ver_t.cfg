SPECIFICATION Spec
CONSTANTS
  Mode = "versions"
  Fmts = {"elf"}
  K1 = 0
  K2 = 0
  K3 = 0
  NVer = 4
  ReqNames = {"1", "2f", "1_2", "1_3", "12_3", "4", "1f_2f_3"}
  Emit = TRUE
INVARIANT Inv
CHECK_DEADLOCK FALSE
