SPECIFICATION Spec
CONSTANTS
  MaxBlocks = 3
  MaxReqs = 1
  Templates = {"o23", "jmp", "jcc", "call", "ret", "ijmp"}
  PatchKinds = {"plain2", "loop", "fwd", "ret", "jmpsym", "callsym"}
  FnLayouts = {"none", "one", "split"}
  EndSyms = {FALSE}
  NoSyms = {FALSE}
  AnnModes = {"none"}
  WithProxyDel = TRUE
  CfiLayouts = {"none"}
  Isa = "arm64"
  WithScopes = FALSE
  Fmts = {"elf"}
  WholeOnly = FALSE
  Leads = {0}
  DropFnTables = {FALSE}
  ExtraData = {FALSE}
  Retargets = {FALSE}
  AlignOpts = {0}
  Aliases = {FALSE}
  SharedRet = {FALSE}
  InsFns = {"none"}
  Emit = TRUE
INVARIANT Inv
CHECK_DEADLOCK FALSE
