SPECIFICATION Spec
CONSTANTS
  GenAbis = {"x64elf", "x64pe", "ia32pe", "arm64", "mips32"}
  Wide = TRUE
  ScratchVals = {0, 1, 2, 3, 7}
  Hist16 = TRUE
  Emit = TRUE
  Strict = FALSE
INVARIANT Inv_TypeOK
INVARIANT Inv_Refusal
INVARIANT Inv_RefusesUnservable
INVARIANT Inv_NoWriteAtOrAboveOriginalSp
INVARIANT Inv_NoRedZoneWriteIfLeaf
INVARIANT Inv_ReadsOnlyOwnSlots
INVARIANT Inv_SpAlignedOnAccess
INVARIANT Inv_RestoredDeclared
INVARIANT Inv_NoCollateral
INVARIANT Inv_FlagsRestoredIfDeclared
INVARIANT Inv_SpRestored
INVARIANT Inv_ReportedAdjustment
INVARIANT Inv_AlignedIfAlignStack
INVARIANT Inv_BodyStackNeutral
INVARIANT Inv_ScratchOK
INVARIANT Inv_Progress
CHECK_DEADLOCK FALSE
