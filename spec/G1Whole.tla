------------------------------ MODULE G1Whole ------------------------------
(***************************************************************************)
(* C05: whatever apply() leaves behind - after success or after a patch    *)
(* callback raised - is a closed, well-formed, serializable module.  The   *)
(* whole-IR facts (aux-data closure scan, addresses, protobuf round trip)  *)
(* are observed by the harness (t.whole); they are judged here.            *)
(***************************************************************************)
EXTENDS G1Findings

C05_BlocksInside(t) ==
  \A i \in DOMAIN t.post.secs : \A j \in DOMAIN t.post.secs[i].blocks : t.post.secs[i].blocks[j].inside
\* newly created blocks never overlap (the inputs of this group have none that do)
C05_NoOverlap(t) == BlocksTile(t.post)
C05_Closed(t) ==
  /\ ObsStale(t.post) = {}
  /\ \A i \in DOMAIN t.post.syms : t.post.syms[i].k \notin {"stale", "stale_proxy"}
  /\ \A i \in DOMAIN t.post.secs : \A j \in DOMAIN t.post.secs[i].blocks :
        \A k \in DOMAIN t.post.secs[i].blocks[j].sx : t.post.secs[i].blocks[j].sx[k].ok
  /\ \A i \in DOMAIN t.whole.aux : t.whole.aux[i].stale = 0
  /\ t.whole.proxies_in_cfg_not_in_module = 0
  /\ t.whole.sym_proxy_not_in_module = 0
  /\ t.post.entry[1] \notin {"stale", "stale_proxy"}
\* a zero-sized block is kept only when there is no code block after it to
\* take over its labels, directives or incoming edges (doc/Deletion.md)
C05_ZeroSizedJustified(t) ==
  \A i \in DOMAIN t.post.secs :
    LET bs == t.post.secs[i].blocks
    IN  \A j \in DOMAIN bs :
          (bs[j].n = 0 /\ j < Len(bs)) => bs[j + 1].k # "code"
C05_Addresses(t) == t.whole.noaddr = 0
C05_Serializes(t) == t.whole.ser_ok /\ t.whole.h1 = t.whole.h2

\* after a failure: the caller's CFG object is back, nothing is stranded
C05_FailCfgObject(t) == t.whole.cfg_same_obj /\ t.whole.cfg_type = "CFG"
PreNoneSyms(t) == {t.pre.syms[i].n : i \in {j \in DOMAIN t.pre.syms : t.pre.syms[j].k = "none"}}
C05_FailNoStranded(t) ==
  \A i \in DOMAIN t.post.syms :
     t.post.syms[i].k = "none" => t.post.syms[i].n \in PreNoneSyms(t)
\* the injected fault (and nothing else) is what came out
C05_FailIsTheFault(t) == t.exc \in {"InjectedFault", "AsmSyntaxError"}
=============================================================================
