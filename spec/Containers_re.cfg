SPECIFICATION Spec
CONSTANTS
  Machine = "re"
  N = 6
  Emit = TRUE
INVARIANTS TypeOK Refines EmitCase
VIEW View
CHECK_DEADLOCK FALSE
