SPECIFICATION Spec
CONSTANTS
  VocabName = "ops"
  MaxLen = 4
  MaxChunks = 1
  TUs = {FALSE}
  AUs = {FALSE}
  ICFIs = {FALSE}
  MSs = {{"a", "b"}}
  Emit = TRUE
INVARIANT Inv
CHECK_DEADLOCK FALSE
