SPECIFICATION Spec
CONSTANTS
  VocabName = "str"
  MaxLen = 3
  MaxChunks = 1
  TUs = {TRUE, FALSE}
  AUs = {FALSE}
  ICFIs = {FALSE}
  MSs = {{"a", "b"}}
  Emit = TRUE
INVARIANT Inv
CHECK_DEADLOCK FALSE
