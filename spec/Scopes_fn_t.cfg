SPECIFICATION Spec
CONSTANTS
  Isas = {"x64"}
  MaxBlocks = 3
  Templates = {"o23", "jmp", "ret"}
  Layouts = {"one", "split1", "split2", "tail", "head"}
  FnTables = {"present"}
  Names = {"fa", "xfa", "main"}
  BothOrders = FALSE
  EntModes = {"first", "all"}
  EpChoices = {0, 1, 2}
  CfgModes = {"full"}
  AddrModes = {TRUE}
  TgtChoices = {0, 3}
  ScopeKinds = {"allfuncs", "allblocks"}
  Positions = {"ENTRY", "EXIT"}
  FPositions = {"ENTRY", "EXIT"}
  FilterKinds = {"none", "empty", "lit", "relit", "prefix", "any", "main", "ep", "lit+ep", "main+prefix"}
  PatNames = {"fa"}
  MaxRegs = 1
  MaxPasses = 1
  Emit = TRUE
INVARIANT Inv
CHECK_DEADLOCK FALSE
