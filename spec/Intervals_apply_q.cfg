SPECIFICATION Spec
CONSTANTS
  MaxSize = 3
  MaxBlocks = 2
  Inits = "all"
  KindMode = "alt"
  AlignVals = {4}
  MaxAligned = 1
  ItemMode = "dense"
  MaxItems = 0
  Addrs = {"4096"}
  Grows = {}
  Lates = FALSE
  AddAligns = {}
  OnlyTiled = FALSE
  NopKinds = {"1", "4"}
  VariantSet = "apply"
  Rotate = 2
  Emit = TRUE
INVARIANT Inv
CHECK_DEADLOCK FALSE
