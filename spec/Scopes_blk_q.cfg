SPECIFICATION Spec
CONSTANTS
  Isas = {"x64"}
  MaxBlocks = 2
  Templates = {"o1", "o23", "jmp", "jmp1", "jcc", "call", "ret", "ret1", "ijmp", "icall", "sysc", "z0", "d3"}
  Layouts = {"none"}
  FnTables = {"empty"}
  Names = {"fa"}
  BothOrders = FALSE
  EntModes = {"first"}
  EpChoices = {0}
  CfgModes = {"full", "bare"}
  AddrModes = {TRUE}
  TgtChoices = {0, 1}
  ScopeKinds = {"allblocks", "single"}
  Positions = {"ENTRY", "EXIT", "ANYWHERE"}
  FPositions = {"ENTRY"}
  FilterKinds = {"none"}
  PatNames = {"fa"}
  MaxRegs = 1
  MaxPasses = 1
  Emit = TRUE
INVARIANT Inv
CHECK_DEADLOCK FALSE
