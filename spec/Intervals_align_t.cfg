SPECIFICATION Spec
CONSTANTS
  MaxSize = 3
  MaxBlocks = 3
  Inits = "full"
  KindMode = "alt"
  AlignVals = {2, 4, 8}
  MaxAligned = 2
  ItemMode = "none"
  MaxItems = 0
  Addrs = {"4096", "4100"}
  Grows = {1, 2, 3}
  Lates = FALSE
  AddAligns = {}
  OnlyTiled = FALSE
  NopKinds = {"1", "4"}
  VariantSet = "align"
  Rotate = 2
  Emit = TRUE
INVARIANT Inv
CHECK_DEADLOCK FALSE
