SPECIFICATION Spec
CONSTANTS
  Isas = {"x64"}
  MaxBlocks = 2
  Templates = {"o23", "jmp", "jcc", "ret"}
  Layouts = {"one", "split1", "tail", "head"}
  FnTables = {"present"}
  Names = {"fa", "fab", "xfa"}
  BothOrders = FALSE
  EntModes = {"first", "all"}
  EpChoices = {0, 1, 2}
  CfgModes = {"full"}
  AddrModes = {TRUE}
  TgtChoices = {0, 2}
  ScopeKinds = {"allfuncs", "allblocks"}
  Positions = {"ENTRY", "EXIT", "ANYWHERE"}
  FPositions = {"ENTRY", "EXIT"}
  FilterKinds = {"none", "empty", "lit", "relit", "prefix", "any", "main", "ep", "lit+ep", "main+prefix"}
  PatNames = {"fa", "main"}
  MaxRegs = 1
  MaxPasses = 1
  Emit = TRUE
INVARIANT Inv
CHECK_DEADLOCK FALSE
