SPECIFICATION Spec
CONSTANTS
  MaxSize = 3
  MaxBlocks = 3
  Inits = "full"
  KindMode = "two"
  AlignVals = {4}
  MaxAligned = 1
  ItemMode = "none"
  MaxItems = 0
  Addrs = {"4096"}
  Grows = {1, 2}
  Lates = FALSE
  AddAligns = {4, 8}
  OnlyTiled = FALSE
  NopKinds = {"1", "4"}
  VariantSet = "none"
  Rotate = 0
  Emit = TRUE
INVARIANT Inv
CHECK_DEADLOCK FALSE
