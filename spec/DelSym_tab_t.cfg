SPECIFICATION Spec
CONSTANTS
  Mode = "tables"
  Fmts = {"elf", "pe"}
  K1 = 3
  K2 = 1
  K3 = 0
  NVer = 3
  ReqNames = {"1", "1f", "1_2", "1f_2", "1f_2f", "1f_1", "3f_2f_1f"}
  Emit = TRUE
INVARIANT Inv
CHECK_DEADLOCK FALSE
