SPECIFICATION Spec
CONSTANTS
  MaxBlocks = 2
  MaxReqs = 2
  Templates = {"o23", "ref", "dq"}
  PatchKinds = {"plain2", "ref", "bytes", "datasec"}
  FnLayouts = {"none"}
  EndSyms = {FALSE}
  NoSyms = {FALSE}
  AnnModes = {"none", "blk", "bi"}
  WithProxyDel = FALSE
  CfiLayouts = {"none"}
  Isa = "x64"
  WithScopes = FALSE
  Fmts = {"elf"}
  WholeOnly = FALSE
  Leads = {0}
  DropFnTables = {FALSE}
  ExtraData = {TRUE, FALSE}
  Retargets = {FALSE}
  AlignOpts = {0}
  Aliases = {FALSE}
  SharedRet = {FALSE}
  InsFns = {"none"}
  Emit = TRUE
INVARIANT Inv
CHECK_DEADLOCK FALSE
