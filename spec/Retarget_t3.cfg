SPECIFICATION Spec
CONSTANTS
  Abis = {"x64-elf"}
  MaxUses = 3
  Cat = "core"
  MapNames = {"AB", "AB_XC"}
  WithPatch = FALSE
  Emit = TRUE
INVARIANT Inv
CHECK_DEADLOCK FALSE
