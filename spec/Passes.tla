------------------------------- MODULE Passes -------------------------------
(***************************************************************************)
(* The protocol of PassManager.run (src/gtirb_rewriting/passes.py): one    *)
(* return-edge cache around the whole run; for every module of the IR, in  *)
(* order, ONE RewritingContext; every pass's begin_module in registration  *)
(* order (this is where passes register their modifications), then ONE     *)
(* apply(), then every pass's end_module in the same order.                *)
(*                                                                         *)
(* The protocol state is a record `st`; every step is given as a guard and *)
(* an effect over (st, event), so that the model-checked next-state        *)
(* relation below and the trace specification (TracePasses.tla), which     *)
(* consumes events recorded from the real PassManager, are built from the  *)
(* same operators.                                                         *)
(*                                                                         *)
(*   event = [ev, p, m, k]   ev \in EventNames; p = pass index, m = module *)
(*                           index, k = number of modifications the pass   *)
(*                           registered in this begin_module               *)
(***************************************************************************)
EXTENDS Integers, Sequences, FiniteSets, TLC

EventNames == {"run_begin", "begin_module", "apply_begin", "apply_end", "end_module", "run_end", "run_abort"}
Phases == {"idle", "begin", "applying", "end", "finishing", "done", "aborted"}

\* nm modules, np passes
InitSt(nm, np) ==
  [phase |-> "idle", nm |-> nm, np |-> np,
   m |-> 0,                                 \* module being processed (1..nm)
   p |-> 0,                                 \* last pass whose callback of the current phase ran
   reg |-> [i \in 1..nm |-> 0],             \* modifications registered so far, per module
   applied |-> {},                          \* modules whose apply() returned
   ver |-> [i \in 1..nm |-> 0],             \* how often a module's contents changed
   cache |-> FALSE]                         \* the run-wide return-edge cache is open

\* what follows the last end_module of module st.m
Advance(st) ==
  IF st.m < st.nm THEN [st EXCEPT !.phase = "begin", !.m = st.m + 1, !.p = 0]
  ELSE [st EXCEPT !.phase = "finishing", !.p = 0]

Guard(st, e) ==
  CASE e.ev = "run_begin"    -> st.phase = "idle"
    [] e.ev = "begin_module" -> st.phase = "begin" /\ e.m = st.m /\ e.p = st.p + 1 /\ e.p <= st.np /\ e.k >= 0
    [] e.ev = "apply_begin"  -> st.phase = "begin" /\ e.m = st.m /\ st.p = st.np
    [] e.ev = "apply_end"    -> st.phase = "applying" /\ e.m = st.m
    [] e.ev = "end_module"   -> st.phase = "end" /\ e.m = st.m /\ e.p = st.p + 1 /\ e.p <= st.np
    [] e.ev = "run_end"      -> st.phase = "finishing"
    \* a pass callback or apply() raised: the exception leaves run()
    [] e.ev = "run_abort"    -> st.phase \in {"begin", "applying", "end"}
    [] OTHER -> FALSE

Effect(st, e) ==
  CASE e.ev = "run_begin" ->
         IF st.nm = 0 THEN [st EXCEPT !.phase = "finishing", !.cache = TRUE]
         ELSE [st EXCEPT !.phase = "begin", !.m = 1, !.p = 0, !.cache = TRUE]
    [] e.ev = "begin_module" -> [st EXCEPT !.p = e.p, !.reg[st.m] = @ + e.k]
    [] e.ev = "apply_begin" -> [st EXCEPT !.phase = "applying"]
    [] e.ev = "apply_end" ->
         LET s1 == [st EXCEPT !.phase = "end", !.p = 0, !.applied = @ \cup {st.m},
                              \* contents change only if something was registered
                              !.ver[st.m] = IF st.reg[st.m] > 0 THEN @ + 1 ELSE @]
         IN  IF st.np = 0 THEN Advance(s1) ELSE s1
    [] e.ev = "end_module" ->
         LET s1 == [st EXCEPT !.p = e.p]
         IN  IF e.p = st.np THEN Advance(s1) ELSE s1
    [] e.ev = "run_end" -> [st EXCEPT !.phase = "done", !.cache = FALSE]
    [] e.ev = "run_abort" -> [st EXCEPT !.phase = "aborted", !.cache = FALSE]
    [] OTHER -> st

(***************************************************************************)
(* Model checking: all behaviours for small bounds                         *)
(***************************************************************************)
CONSTANTS MaxMods, MaxPasses, MaxRegs, WithAbort
VARIABLE st
vars == <<st>>

Init == \E nm \in 0..MaxMods, np \in 0..MaxPasses : st = InitSt(nm, np)

Events(s) ==
  {[ev |-> n, p |-> p, m |-> m, k |-> k] :
     n \in EventNames \ (IF WithAbort THEN {} ELSE {"run_abort"}),
     p \in 0..MaxPasses, m \in 0..MaxMods, k \in 0..MaxRegs}

Next == \E e \in Events(st) : Guard(st, e) /\ st' = Effect(st, e)
Spec == Init /\ [][Next]_vars /\ WF_vars(Next)

TypeOK ==
  /\ st.phase \in Phases
  /\ st.m \in 0..st.nm /\ st.p \in 0..st.np
  /\ st.applied \subseteq 1..st.nm

\* the cache context spans exactly the run
CacheScoped == st.cache = (st.phase \notin {"idle", "done", "aborted"})
\* modules are processed in order, each applied at most once, all of them at the end
AppliedInOrder ==
  /\ st.phase \in {"begin", "applying"} => st.applied = 1..(st.m - 1)
  /\ st.phase = "end" => st.applied = 1..st.m
  /\ st.phase \in {"finishing", "done"} => st.applied = 1..st.nm
\* every pass's begin_module ran before the module's apply()
AllBegunBeforeApply == st.phase = "applying" => st.p = st.np
\* a module without registrations is never changed
UntouchedIfNothingRegistered == \A i \in 1..st.nm : st.reg[i] = 0 => st.ver[i] = 0
\* registrations are accepted only in the begin phase of the current module
RegOnlyInBegin ==
  [][\A i \in 1..st.nm : st'.reg[i] # st.reg[i] => (st.phase = "begin" /\ i = st.m /\ st'.phase = "begin")]_vars
\* frame condition: contents change only for the module being applied, once
Frame ==
  [][\A i \in 1..st.nm : st'.ver[i] # st.ver[i] =>
        (st.phase = "applying" /\ i = st.m /\ st'.ver[i] = st.ver[i] + 1)]_vars
AtMostOneChange == \A i \in 1..st.nm : st.ver[i] <= 1
\* every run ends
Terminates == <>(st.phase \in {"done", "aborted"})
=============================================================================
