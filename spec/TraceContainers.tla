-------------------------- MODULE TraceContainers --------------------------
(***************************************************************************)
(* Trace specification of C20.  Every line of TRACE_FILE is one case of    *)
(* the frontier replay (harness/containers/runner.py): a witness history   *)
(* and, for every operation enabled after it, one fresh replay of the      *)
(* witness followed by that operation, with everything the real container  *)
(* returned.  The operations are replayed here through the ABSTRACT models *)
(* (Level A of RefCache.tla, the XStep / XObs functions of Containers.tla) *)
(* and every recorded result is compared -- exact equalities: here the     *)
(* abstract model is the property.                                         *)
(*                                                                         *)
(* Clauses (one per container, domain = the kind of the case):             *)
(*   C20_RefCache C20_BlockOrdering C20_OffsetMapping C20_IdentitySet      *)
(*   C20_ReturnCache C20_ReturnCacheExit                                   *)
(*      every returned value and every observation equals the model's      *)
(*   C20_Completes                                                         *)
(*      an operation raises exactly when the model refuses it, with that   *)
(*      exception (KeyError / ValueError / CFGModifiedError / the injected *)
(*      one), and nothing else ever raises                                 *)
(* A run is judged up to its first divergence (the model cannot follow a   *)
(* diverged container).                                                    *)
(***************************************************************************)
EXTENDS Integers, Sequences, FiniteSets, TLC, Json, IOUtils, TLCExt

Traces == ndJsonDeserialize(IOEnv.TRACE_FILE)
VARIABLE tid

\* The abstract models, instantiated with the universe sizes of the generation
\* configurations (a case of another size is out of the domain, see SizeOK).
CBo == INSTANCE Containers WITH Machine <- "bo", N <- 4, Emit <- FALSE, st <- 0, hist <- 0
COm == INSTANCE Containers WITH Machine <- "om", N <- 2, Emit <- FALSE, st <- 0, hist <- 0
CIs == INSTANCE Containers WITH Machine <- "is", N <- 4, Emit <- FALSE, st <- 0, hist <- 0
CRe == INSTANCE Containers WITH Machine <- "re", N <- 6, Emit <- FALSE, st <- 0, hist <- 0
CMc == INSTANCE Containers WITH Machine <- "mc", N <- 2, Emit <- FALSE, st <- 0, hist <- 0
RC == INSTANCE RefCache WITH NB <- 3, NS <- 3, MaxLen <- 0, Inits <- "diag",
                             Symmetric <- FALSE, Emit <- FALSE, ref <- 0, F <- 0, hist <- 0
SizeOK(t) ==
  CASE t.k = "rc" -> t.nb = 3 /\ t.ns = 3
    [] t.k = "bo" -> t.n = 4 [] t.k = "om" -> t.n = 2 [] t.k = "is" -> t.n = 4
    [] t.k = "re" -> t.n = 6 [] t.k = "mc" -> t.n \in 1..2
    [] OTHER -> FALSE

AStep(k, s, op, pick) ==
  CASE k = "bo" -> CBo!BoStep(s, op, pick) [] k = "om" -> COm!OmStep(s, op, pick)
    [] k = "is" -> CIs!IsStep(s, op, pick) [] k = "re" -> CRe!ReStep(s, op, pick)
    [] k = "mc" -> CMc!McStep(s, op, pick)
AObs(k, s) ==
  CASE k = "bo" -> CBo!BoObs(s) [] k = "om" -> COm!OmObs(s) [] k = "is" -> CIs!IsObs(s)
    [] k = "re" -> CRe!ReObs(s) [] k = "mc" -> CMc!McObs(s)

AsSet(q) == {q[i] : i \in DOMAIN q}
NoDup(q) == Cardinality(AsSet(q)) = Len(q)
B2I(x) == IF x THEN 1 ELSE 0
RECURSIVE SortedSeq(_)
SortedSeq(S) == IF S = {} THEN <<>>
                ELSE LET m == CHOOSE x \in S : \A y \in S : x <= y IN <<m>> \o SortedSeq(S \ {m})

ClauseOf(k) ==
  CASE k = "rc" -> "C20_RefCache" [] k = "bo" -> "C20_BlockOrdering"
    [] k = "om" -> "C20_OffsetMapping" [] k = "is" -> "C20_IdentitySet"
    [] k = "re" -> "C20_ReturnCache" [] k = "mc" -> "C20_ReturnCacheExit"

(***************************************************************************)
(* Abstract initial state, abstract step and comparison of observations    *)
(***************************************************************************)
InitState(t) ==
  CASE t.k = "rc" -> [s \in 1..t.ns |-> [b |-> t.init[s][1], e |-> t.init[s][2] = 1]]
    [] t.k = "bo" -> {}
    [] t.k = "om" -> [x \in 1..t.n |-> COm!OmAbsent]
    [] t.k = "is" -> {}
    [] t.k = "re" -> {}
    [] t.k = "mc" -> CMc!McInit(CMc!OfBits(t.init, 2))

\* reference cache, Level A.  r = <<exc, val, <<d, e, ys>>>>
RcStep(t, ref, op, r) ==
  LET ys == r[3][3]
      got == {ys[i][1] : i \in DOMAIN ys}
      want == RC!ARefs(ref, op[2])
  IN
  CASE op[1] = 1 -> [st |-> RC!ARetarget(ref, op[2], op[3], op[4] = 1), exc |-> "", ok |-> TRUE]
    [] op[1] = 2 -> [st |-> ref, exc |-> "",
                     ok |-> r[2] = ref[op[2]].b /\ r[3][1] = ref[op[2]].b /\ r[3][2] = B2I(ref[op[2]].e)]
    [] op[1] \in {3, 6} -> [st |-> RC!ASet(ref, op[2], op[3], op[4] = 1), exc |-> "",
                            ok |-> r[3][1] = op[3] /\ r[3][2] = op[4]]
    [] op[1] = 4 -> [st |-> ref, exc |-> "",
                     ok |-> /\ NoDup(ys) /\ Cardinality(got) = Len(ys)
                            /\ got \subseteq want
                            /\ \A i \in DOMAIN ys : ys[i][2] = op[2] /\ ys[i][3] = B2I(ref[ys[i][1]].e)
                            /\ IF op[3] = 0 \/ Len(ys) < op[3] THEN got = want ELSE Len(ys) = op[3]]
    [] op[1] = 5 -> [st |-> ref, exc |-> "", ok |-> TRUE]

Rows(ref) == [s \in DOMAIN ref |-> <<ref[s].b, B2I(ref[s].e)>>]
RcFinOK(t, ref, fin) ==
  /\ fin.c = Rows(ref)                                    \* Symbol.referent / at_end after apply()
  /\ \A b \in 1..t.nb : fin.r[b] = SortedSeq(RC!ARefs(ref, b))  \* block.references after apply()
  /\ fin.m = 0 => fin.a = Rows(ref)                       \* get_referent of every symbol
  /\ fin.m = 2 => \A b \in 1..t.nb :                      \* get_references of every block
         /\ NoDup(fin.b[b])
         /\ AsSet(fin.b[b]) = {<<s, b, B2I(ref[s].e)>> : s \in RC!ARefs(ref, b)}

ObsEq(t, exp, o) ==
  LET n == t.n IN
  CASE t.k = "bo" -> \A a \in 1..n : o.adj[a] = exp[a]
    [] t.k = "om" ->
         LET U == [i \in 1..(2 * n) |-> <<((i - 1) \div 2) + 1, (i - 1) % 2>>]
         IN  /\ o.len = exp.len /\ o.bool = exp.bool
             /\ AsSet(o.keys) = exp.keys /\ NoDup(o.keys)
             /\ AsSet(o.nk) = exp.nk /\ NoDup(o.nk)
             /\ \A i \in 1..(2 * n) : o.get[i] = exp.get[U[i]] /\ o.gi[i] = exp.get[U[i]]
             /\ AsSet(o.has) = exp.has /\ AsSet(o.hasx) = exp.hasx
             /\ \A x \in 1..n : o.getx[x] = exp.getx[x] /\ o.gix[x] = exp.getx[x]
             /\ AsSet(o.items) = {<<xd[1], xd[2], exp.get[xd]>> : xd \in exp.keys} /\ NoDup(o.items)
    [] t.k = "is" -> /\ o.len = exp.len /\ o.bool = exp.bool
                     /\ AsSet(o.elems) = exp.elems /\ NoDup(o.elems)
                     /\ AsSet(o.has) = exp.has
    [] t.k = "re" -> /\ AsSet(o.edges) = exp.edges /\ NoDup(o.edges) /\ o.len = exp.len
                     /\ \A v \in 1..3 : /\ o.any[v] = exp.any[v]
                                        /\ AsSet(o.ret[v]) = exp.ret[v] /\ NoDup(o.ret[v])
                                        /\ AsSet(o.pret[v]) = exp.pret[v] /\ NoDup(o.pret[v])
    [] t.k = "mc" -> /\ o.cur = exp.cur /\ AsSet(o.made) = exp.made
                     /\ \A ob \in 1..4 : AsSet(o.edges[ob]) = exp.edges[ob] /\ NoDup(o.edges[ob])
                     /\ \A i \in 1..2 : /\ AsSet(o.ret[i]) = exp.ret[2 * i]
                                        /\ AsSet(o.pret[i]) = exp.ret[2 * i]
                                        /\ o.any[i] = B2I(exp.ret[2 * i] # {})

\* one recorded operation against the model: which clause (if any) it breaks
StepCheck(t, s, op, r) ==
  IF t.k = "rc"
  THEN LET a == RcStep(t, s, op, r)
       IN  [st |-> a.st,
            bad |-> IF r[1] # a.exc THEN "C20_Completes" ELSE IF ~a.ok THEN ClauseOf(t.k) ELSE "",
            exp |-> <<a.exc, a.st>>, stop |-> FALSE]
  ELSE LET a == AStep(t.k, s, op, r[2])
           e == AObs(t.k, a.st)
       IN  [st |-> a.st,
            bad |-> IF r[1] # a.exc THEN "C20_Completes"
                    ELSE IF r[2] # a.val \/ ~ObsEq(t, e, r[3]) THEN ClauseOf(t.k) ELSE "",
            exp |-> <<a.exc, a.val, e>>,
            stop |-> a.exc # ""]             \* the runner stops a run at an exception

\* replay ops[i..] with results res[j..] from state s
RECURSIVE Walk(_, _, _, _, _, _)
Walk(t, s, ops, res, i, j) ==
  IF i > Len(ops) THEN [bad |-> "", st |-> s, at |-> 0, pre |-> s, early |-> FALSE]
  ELSE IF j > Len(res) THEN [bad |-> "C20_Completes", st |-> s, at |-> i, pre |-> s, early |-> TRUE,
                             exp |-> "a result for every operation", got |-> "run ended early"]
  ELSE LET c == StepCheck(t, s, ops[i], res[j])
       IN  IF c.bad # "" THEN [bad |-> c.bad, st |-> s, at |-> i, pre |-> s, early |-> FALSE,
                                   exp |-> c.exp, got |-> res[j]]
           ELSE IF c.stop THEN [bad |-> "", st |-> c.st, at |-> 0, pre |-> s, early |-> FALSE]
           ELSE Walk(t, c.st, ops, res, i + 1, j + 1)

\* C20 has no open finding: nothing is excused (kf is always empty).
KfOf(t, w, ops) == {}

(***************************************************************************)
(* Verdict of one case                                                     *)
(***************************************************************************)
RunVerdict(t, base, run, idx) ==
  LET ops == IF run.x = <<>> THEN t.wit ELSE Append(t.wit, run.x)
      w == IF run.same = 1
           THEN (IF run.x = <<>> THEN base      \* identical to the first run
                 ELSE IF base.bad # "" THEN base
                 ELSE LET v == Walk(t, base.st, ops, run.res, Len(ops), 1)
                      IN  v)
           ELSE Walk(t, InitState(t), ops, run.res, 1, 1)
      finBad == IF t.k = "rc" /\ w.bad = ""
                THEN (IF run.fin.x # "" THEN "C20_Completes"
                      ELSE IF ~RcFinOK(t, w.st, run.fin) THEN "C20_RefCache" ELSE "")
                ELSE ""
  IN  IF w.bad # ""
      THEN [bad |-> w.bad, run |-> idx, at |-> w.at, op |-> ops[w.at], exp |-> w.exp, got |-> w.got,
            kf |-> KfOf(t, w, ops)]
      ELSE IF finBad # ""
      THEN [bad |-> finBad, run |-> idx, at |-> 0, op |-> run.x, exp |-> Rows(w.st), got |-> run.fin, kf |-> {}]
      ELSE [bad |-> "", run |-> idx, at |-> 0, op |-> <<>>, exp |-> <<>>, got |-> <<>>, kf |-> {}]

Verdict(t) ==
  LET base == Walk(t, InitState(t), t.wit, t.runs[1].res, 1, 1)
      vs == [i \in DOMAIN t.runs |-> RunVerdict(t, base, t.runs[i], i)]
      badIdx == {i \in DOMAIN vs : vs[i].bad # ""}
      clauses == {vs[i].bad : i \in badIdx}
      First(c) == vs[CHOOSE i \in badIdx : vs[i].bad = c /\ \A j \in badIdx : vs[j].bad = c => i <= j]
      Kf(c) == {}
      failed == {[clause |-> c,
                  diff |-> [run |-> First(c).run, at |-> First(c).at, op |-> First(c).op,
                            expected |-> First(c).exp, observed |-> First(c).got,
                            failing_runs |-> Cardinality({i \in badIdx : vs[i].bad = c})],
                  kf |-> Kf(c)] : c \in clauses}
      nops == Len(t.wit) * Len(t.runs) + Cardinality({i \in DOMAIN t.runs : t.runs[i].x # <<>>})
  IN  IF ~SizeOK(t)
      THEN [id |-> t.id, indomain |-> <<>>, failed |-> {}, exc |-> "", k |-> t.k, runs |-> 0, ops |-> 0]
      ELSE
      [id |-> t.id, indomain |-> <<ClauseOf(t.k), "C20_Completes">>,
       failed |-> failed, exc |-> "", k |-> t.k, runs |-> Len(t.runs), ops |-> nops]

\* All traces are judged while the initial predicate is evaluated (the bound
\* index keeps Traces[i] a constant-level argument, which SANY requires for
\* the recursive operators above); the behaviour itself is a single state.
Init == /\ tid = Len(Traces)
        /\ \A i \in 1..Len(Traces) : PrintT("VERDICT " \o ToJson(Verdict(Traces[i])))
Next == UNCHANGED tid
Spec == Init /\ [][Next]_tid
=============================================================================
