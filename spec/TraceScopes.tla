---------------------------- MODULE TraceScopes ----------------------------
(***************************************************************************)
(* Trace specification of C07: every line of TRACE_FILE is one observed    *)
(* run of PassManager.run() with 1-3 passes registering marker patches     *)
(* (harness/scopes/runner.py).  Each step consumes one line and prints its *)
(* verdict.  The expected sites, offsets, positions and order are computed *)
(* here, from the projected PRE-state and the registrations, with the      *)
(* operators of Scopes.tla (Sites, Offsets, ExpectedPositions).            *)
(*                                                                         *)
(*   t = [id, isa, pre, regs, invs, markers, postsecs, exc, stage, npass]  *)
(*   regs[i]    = [id, pass, kind, pos, fpos, has, pats, u]                *)
(*   invs[i]    = [inv, reg, u, off, fn, modok]  one per get_asm call      *)
(*   markers[i] = [inv, s, p, al]  a marker encoding found in the output   *)
(***************************************************************************)
EXTENDS Scopes, IOUtils

Traces == ndJsonDeserialize(IOEnv.TRACE_FILE)
VARIABLE tid

TraceRegs(t) ==
  [i \in 1..Len(t.regs) |->
     [id |-> t.regs[i].id, pass |-> t.regs[i].pass,
      scope |-> [kind |-> t.regs[i].kind, pos |-> t.regs[i].pos, fpos |-> t.regs[i].fpos,
                 filt |-> [has |-> t.regs[i].has, pats |-> t.regs[i].pats], blk |-> t.regs[i].u]]]
MLen(t) == MarkerLen(t.isa)

MarkersOf(t, inv) == SelectSeq(t.markers, LAMBDA m : m.inv = inv)
InvsAt(t, reg, u) == SelectSeq(t.invs, LAMBDA i : i.reg = reg /\ i.u = u)

\* Context of one verdict (everything heavy is computed once, in a LET)
C07Ctx(t) ==
  LET M == ModOf(t.pre)
      regs == TraceRegs(t)
      sites0 == AllSites(M, regs)
      \* ANYWHERE: the statement only asks for an instruction boundary not after
      \* the terminator; the placement is judged at the offset that was chosen
      chosen(s) == LET c == InvsAt(t, s.reg, s.u)
                   IN  IF s.pos = "ANYWHERE" /\ Len(c) = 1 /\ c[1].off \in s.offs THEN c[1].off ELSE s.off
      sites1 == {[reg |-> s.reg, u |-> s.u, pos |-> s.pos, off |-> chosen(s), offs |-> s.offs, fn |-> s.fn] : s \in sites0}
      \* a zero-sized code block has no instruction to instrument: a scope that
      \* designates blocks by a predicate may skip it (if it does not, the
      \* insertion is judged like any other)
      optional(s) == /\ BlockByU(t.pre, s.u).n = 0
                     /\ regs[s.reg + 1].scope.kind # "single"
                     /\ InvsAt(t, s.reg, s.u) = <<>>
      sites == {s \in sites1 : ~optional(s)}
      expPos == ExpectedPositions(t.pre, sites, MLen(t))
      \* where the observed contexts say the patches went
      ctxOk == \A i \in DOMAIN t.invs :
                  LET b == BlockByU(t.pre, t.invs[i].u)
                  IN  b.u # 0 /\ b.k = "code" /\ t.invs[i].off \in UnitStarts(b)
      ctxSites == {[reg |-> t.invs[i].reg, u |-> t.invs[i].u, off |-> t.invs[i].off, inv |-> t.invs[i].inv] :
                      i \in DOMAIN t.invs}
      ctxPos == IF ctxOk
                THEN {[inv |-> x.inv, s |-> SecNameOf(t.pre, x.u), p |-> SitePos(t.pre, ctxSites, x, MLen(t))] : x \in ctxSites}
                ELSE {}
  IN  [t |-> t, M |-> M, regs |-> regs, sites |-> sites, allsites |-> sites1, expPos |-> expPos,
       ctxOk |-> ctxOk, ctxPos |-> ctxPos, refused |-> Refused(M, regs)]

(***************************************************************************)
(* Domain                                                                  *)
(***************************************************************************)
DomC07(t) ==
  LET bs == AllBlocks(t.pre)
      kb == KeyedBlocks(t.pre)
  IN  /\ t.isa \in {"x64", "ia32", "arm64"}
      /\ BlocksTile(t.pre)
      /\ \A i \in DOMAIN bs :
            /\ bs[i].n >= 0
            /\ Len(bs[i].fn) <= 1
            /\ Range(bs[i].ent) \subseteq Range(bs[i].fn)
            /\ (bs[i].k = "code" => \A j \in DOMAIN bs[i].units : bs[i].units[j].k # "bad")
            /\ (bs[i].k = "data" => bs[i].fn = <<>>)
      /\ \A i, j \in DOMAIN kb : i # j => kb[i].key # kb[j].key /\ kb[i].u # kb[j].u
      /\ \A i, j \in DOMAIN t.pre.fns : i # j => t.pre.fns[i].name # t.pre.fns[j].name
      /\ \A i \in DOMAIN t.regs :
            /\ t.regs[i].id = i - 1
            /\ (t.regs[i].kind = "single" =>
                  BlockByU(t.pre, t.regs[i].u).k = "code" /\ BlockByU(t.pre, t.regs[i].u).n > 0)

C07PreBytes(t) == {[name |-> t.pre.secs[i].name, bytes |-> t.pre.secs[i].bytes] : i \in DOMAIN t.pre.secs}
C07PostBytes(t) == {[name |-> t.postsecs[i].name, bytes |-> t.postsecs[i].bytes] : i \in DOMAIN t.postsecs}

(***************************************************************************)
(* Clauses                                                                 *)
(***************************************************************************)
\* nothing but the legitimate refusal may be raised
C07_Completes(X) ==
  \/ X.t.exc = ""
  \/ (X.refused /\ X.t.exc = "UnresolvableScopeError")

\* a function scope on a module without functions is refused at registration,
\* before anything is changed; nothing else is refused
C07_Refusal(X) ==
  /\ X.refused <=> X.t.exc = "UnresolvableScopeError"
  /\ X.refused => /\ X.t.invs = <<>> /\ X.t.markers = <<>>
                  /\ X.t.stage = "register"
                  /\ C07PostBytes(X.t) = C07PreBytes(X.t)

\* every registered patch is invoked exactly once for each block its scope
\* designates, for no other block, at an admissible offset, with that
\* block's function
InvMissing(X) ==
  {[reg |-> s.reg, u |-> s.u, off |-> s.off, fn |-> s.fn, n |-> Len(InvsAt(X.t, s.reg, s.u))] :
      s \in {x \in X.sites : Len(InvsAt(X.t, x.reg, x.u)) # 1}}
InvExtra(X) ==
  {X.t.invs[i] : i \in {k \in DOMAIN X.t.invs :
      ~\E s \in X.sites : /\ s.reg = X.t.invs[k].reg /\ s.u = X.t.invs[k].u
                          /\ X.t.invs[k].off \in s.offs /\ X.t.invs[k].fn = s.fn}}
C07_Invocations(X) == InvMissing(X) = {} /\ InvExtra(X) = {}

\* the markers of registration r are found exactly at the positions of r's
\* sites in the edited listing; every invocation left exactly one marker, on
\* an instruction boundary
RegOfInv(X, inv) ==
  LET c == SelectSeq(X.t.invs, LAMBDA i : i.inv = inv)
  IN  IF c = <<>> THEN 0 - 1 ELSE c[1].reg
ObsRegPos(X) == {[reg |-> RegOfInv(X, X.t.markers[i].inv), s |-> X.t.markers[i].s, p |-> X.t.markers[i].p] : i \in DOMAIN X.t.markers}
ExpRegPos(X) == {[reg |-> e.reg, s |-> e.s, p |-> e.p] : e \in X.expPos}
MarkersWellFormed(X) ==
  /\ \A i \in DOMAIN X.t.invs : Len(MarkersOf(X.t, X.t.invs[i].inv)) = 1
  /\ \A i \in DOMAIN X.t.markers : X.t.markers[i].al /\ RegOfInv(X, X.t.markers[i].inv) >= 0
  /\ Len(X.t.markers) = Len(X.t.invs)
C07_Placement(X) == MarkersWellFormed(X) /\ ObsRegPos(X) = ExpRegPos(X)

\* same location => registration order (registration ids run across passes)
PosOfInv(X, inv) == MarkersOf(X.t, inv)[1]
OrderBad(X) ==
  LET I == DOMAIN X.t.invs
  IN  {<<X.t.invs[ij[1]], X.t.invs[ij[2]]>> : ij \in {pr \in I \X I :
         LET a == X.t.invs[pr[1]]  b == X.t.invs[pr[2]]
         IN  /\ a.u = b.u /\ a.off = b.off /\ a.reg < b.reg
             /\ ~(/\ Len(MarkersOf(X.t, a.inv)) = 1 /\ Len(MarkersOf(X.t, b.inv)) = 1
                  /\ PosOfInv(X, a.inv).s = PosOfInv(X, b.inv).s
                  /\ PosOfInv(X, a.inv).p < PosOfInv(X, b.inv).p)}}
C07_Order(X) == OrderBad(X) = {}

\* the InsertionContext names the module, an original code block, an
\* instruction boundary of it and its function - and the patch really went
\* where the context says
CtxBad(X) ==
  {X.t.invs[i] : i \in {k \in DOMAIN X.t.invs :
      LET v == X.t.invs[k]
          b == BlockByU(X.t.pre, v.u)
          ms == MarkersOf(X.t, v.inv)
      IN  ~(/\ v.modok
            /\ b.u # 0 /\ b.k = "code"
            /\ v.off \in UnitStarts(b)
            /\ v.fn = FnOfBlock(b)
            /\ X.ctxOk
            /\ Len(ms) = 1
            /\ [inv |-> v.inv, s |-> ms[1].s, p |-> ms[1].p] \in X.ctxPos)}}
C07_ContextNames(X) == CtxBad(X) = {}

\* the function in the context is the function of the named block: none ("")
\* for a block outside every function, also when it follows a function's block
CtxFnBad(X) ==
  {[inv |-> v.inv, reg |-> v.reg, u |-> v.u, got |-> v.fn, want |-> FnOfBlock(BlockByU(X.t.pre, v.u))] :
      v \in {X.t.invs[k] : k \in {i \in DOMAIN X.t.invs :
                 X.t.invs[i].fn # FnOfBlock(BlockByU(X.t.pre, X.t.invs[i].u))}}}
C07_ContextFunction(X) == CtxFnBad(X) = {}

\* KF-C07-1: an AllBlocksScope / AllFunctionsScope designates a zero-sized code block; apply() crashes on the
\* first such block in address order (ValueError from the decoder when one of
\* its modifications needs the disassembly, else AssertionError from insert()),
\* leaving the earlier blocks rewritten.
ZeroSites(X) == {s \in X.allsites : BlockByU(X.t.pre, s.u).n = 0}
KF_C07_1(X) ==
  /\ ZeroSites(X) # {}
  /\ X.t.stage = "apply"
  /\ LET first == CHOOSE s \in ZeroSites(X) : \A r \in ZeroSites(X) : BlockIdx(X.t.pre, s.u) <= BlockIdx(X.t.pre, r.u)
         needsDis == \E s \in ZeroSites(X) : s.u = first.u /\ s.pos # "ENTRY"
     IN  X.t.exc = (IF needsDis THEN "ValueError" ELSE "AssertionError")
C07KfTags(X, clause) ==
  IF clause = "C07_Completes" /\ ~X.refused /\ KF_C07_1(X) THEN {"KF-C07-1"} ELSE {}

\* <<name, in-domain, holds>>
C07Clauses(X) ==
  LET t == X.t
      dom == DomC07(t)
      done == dom /\ ~X.refused /\ t.exc = ""
  IN << <<"C07_Completes", dom, C07_Completes(X)>>,
        <<"C07_Refusal", dom, C07_Refusal(X)>>,
        <<"C07_Invocations", done, C07_Invocations(X)>>,
        <<"C07_Placement", done, C07_Placement(X)>>,
        <<"C07_Order", done, C07_Order(X)>>,
        <<"C07_ContextNames", done, C07_ContextNames(X)>>,
        <<"C07_ContextFunction", done, C07_ContextFunction(X)>> >>

C07Diff(name, X) ==
  CASE name = "C07_Completes" -> <<X.t.exc, X.t.stage>>
    [] name = "C07_Refusal" -> <<X.refused, X.t.exc, X.t.stage, Len(X.t.invs)>>
    [] name = "C07_Invocations" -> [missing |-> InvMissing(X), extra |-> InvExtra(X)]
    [] name = "C07_Placement" -> [missing |-> ExpRegPos(X) \ ObsRegPos(X), extra |-> ObsRegPos(X) \ ExpRegPos(X),
                                  markers |-> Len(X.t.markers), invs |-> Len(X.t.invs)]
    [] name = "C07_Order" -> OrderBad(X)
    [] name = "C07_ContextNames" -> CtxBad(X)
    [] name = "C07_ContextFunction" -> CtxFnBad(X)
    [] OTHER -> <<>>

C07Verdict(t) ==
  LET X == C07Ctx(t)
      cs == C07Clauses(X)
      bad == SelectSeq(cs, LAMBDA c : c[2] /\ ~c[3])
      indom == SelectSeq(cs, LAMBDA c : c[2])
  IN  [id |-> t.id,
       indomain |-> [i \in 1..Len(indom) |-> indom[i][1]],
       failed |-> [i \in 1..Len(bad) |-> [clause |-> bad[i][1], diff |-> C07Diff(bad[i][1], X), kf |-> C07KfTags(X, bad[i][1])]],
       nsites |-> Cardinality(X.sites),
       exc |-> t.exc]

TInit == /\ tid = 1
         /\ sp = <<>> /\ mod = <<>> /\ passes = <<>> /\ store = <<>> /\ phase = "trace" /\ applied = <<>>
TNext == /\ tid <= Len(Traces)
         /\ PrintT("VERDICT " \o ToJson(C07Verdict(Traces[tid])))
         /\ tid' = tid + 1
         /\ UNCHANGED vars
AllConsumed == TLCGet("stats").diameter - 1 = Len(Traces)
=============================================================================
