SPECIFICATION Spec
CONSTANTS
  Mode = "tables"
  Fmts = {"elf", "pe"}
  K1 = 1
  K2 = 1
  K3 = 0
  NVer = 3
  ReqNames = {"1", "1f", "1f_1"}
  Emit = TRUE
INVARIANT Inv
CHECK_DEADLOCK FALSE
