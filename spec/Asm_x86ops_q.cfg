SPECIFICATION Spec
CONSTANTS
  VocabName = "x86ops"
  MaxLen = 3
  MaxChunks = 1
  TUs = {FALSE}
  AUs = {FALSE}
  ICFIs = {FALSE}
  MSs = {{"a", "b"}}
  Emit = TRUE
INVARIANT Inv
CHECK_DEADLOCK FALSE
