INIT TInit
NEXT TNext
CONSTANTS
  KS = {}
  KPair = {}
  KStream = {}
  MaxSeq = 0
  NPads = 1
  Emit = FALSE
POSTCONDITION AllConsumed
CHECK_DEADLOCK FALSE
