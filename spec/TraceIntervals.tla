--------------------------- MODULE TraceIntervals ---------------------------
(***************************************************************************)
(* Trace specification of C10: every line of TRACE_FILE is one observed    *)
(* run of the real code on one layout (harness/intervals/runner.py):       *)
(*   op "sj"    split_byte_interval, optional growth of the first interval,*)
(*              join_byte_intervals under one call variant                 *)
(*              t = [v, pre, mid, (mid2), post, ret, exc, stage, nopb, encb,*)
(*              grown, late]                                               *)
(*   op "apply" RewritingContext(module).apply() with no modification      *)
(*              t = [v, pre, post, prex, postx, exc, stage]                *)
(* Every step consumes one line and prints its verdict.  The clauses are   *)
(* the Level A operators of Intervals.tla; `drift` reports where the       *)
(* line-by-line model (Level B) differs from the observation (information, *)
(* never a violation).                                                     *)
(***************************************************************************)
EXTENDS Intervals, IOUtils, TLCExt

Traces == ndJsonDeserialize(IOEnv.TRACE_FILE)
VARIABLE tid

Tables(t) == IF t.v.tab = "default" THEN DefaultTables ELSE CustomTables
NopOf(t) == IF t.v.op = "apply" THEN AbiNop(t.v.mod)
            ELSE IF t.encb # <<>> THEN t.encb          \* nop_encodings[Default] supersedes nop
            ELSE IF t.nopb # <<>> THEN t.nopb
            ELSE AbiNop(t.v.mod)                          \* ABI of the last block's module; none: unknown

WellFormed(st) ==
  /\ Len(st.ivs) >= 1
  /\ LET iv == st.ivs[1]
     IN  /\ iv.id = 100 /\ iv.init <= iv.size /\ Len(iv.by) = iv.init
         /\ \A b \in Range(iv.blocks) : b.id > 0 /\ b.o >= 0 /\ b.s >= 0 /\ b.o + b.s <= iv.size
         /\ Cardinality({b.id : b \in Range(iv.blocks)}) = Len(iv.blocks)

IvById(st, id) == LET c == SelectSeq(st.ivs, LAMBDA x : x.id = id) IN c[1]
HasIv(st, id) == \E j \in DOMAIN st.ivs : st.ivs[j].id = id

(***************************************************************************)
(* split + join                                                            *)
(***************************************************************************)
SjCtx(t) ==
  LET T == Tables(t)
      nop == NopOf(t)
      mid2 == IF t.grown > 0 \/ t.late > 0 THEN t.mid2 ELSE t.mid     \* what the join was given
      dom == WellFormed(t.pre) /\ Len(t.pre.ivs) = 1
      splitDone == dom /\ t.stage \in {"join", "done"}
      done == dom /\ t.stage = "done"
      sd == IF splitDone THEN SplitDiag(t.pre, t.mid, T) ELSE "-"
      legalExc == t.exc \in {"", "PaddingError"}
      pl == IF splitDone /\ legalExc THEN PaddingLegal(mid2, t.post, t.ret, t.exc, nop, T) ELSE TRUE
      inv == done /\ t.grown = 0 /\ t.late = 0 /\ Invertible(t.pre)
      id == IF inv THEN InvertDiag(t.pre, t.post) ELSE "-"
      ah == done /\ AlignConsistent(t.pre)
      br == IF ah THEN Broken(t.pre, t.post) ELSE {}
      sb == IF splitDone THEN SameState(SplitB(t.pre, T), t.mid) ELSE TRUE
      jb == IF splitDone /\ legalExc
            THEN LET r == JoinB(mid2, nop, T) IN r.exc = t.exc /\ (t.exc = "" => SameState(r.st, t.post))
            ELSE TRUE
  IN  [clauses |->
         << <<"C10_Completes", dom, legalExc /\ (t.exc = "PaddingError" => t.stage = "join"), <<t.exc, t.stage>>, {}>>,
            <<"C10_SplitPreserves", splitDone, sd \in {"ok", "-"}, <<sd>>, {}>>,
            <<"C10_PaddingLegal", splitDone /\ legalExc, pl,
              IF pl THEN <<>> ELSE PaddingDiff(mid2, t.post, t.ret, t.exc, nop, T), {}>>,
            <<"C10_JoinInverts", inv, id \in {"ok", "-"}, <<id>>, {}>>,
            <<"C10_AlignmentHolds", ah, br = {}, <<br>>,
              IF br # {} /\ KF_C10_1(t.pre, t.post) THEN {"KF-C10-1"} ELSE {}>> >>,
       drift |-> (IF sb THEN <<>> ELSE <<"split">>) \o (IF jb THEN <<>> ELSE <<"join">>)]

(***************************************************************************)
(* the empty rewrite                                                       *)
(***************************************************************************)
ApplyCtx(t) ==
  LET nop == NopOf(t)
      dom == /\ HasIv(t.pre, 100) /\ HasIv(t.pre, 200) /\ Len(t.pre.ivs) = 2
             /\ IvById(t.pre, 100).addr # -1
             /\ WellFormed([ivs |-> <<IvById(t.pre, 100)>>])
      st0 == [ivs |-> <<IvById(t.pre, 100)>>, items |-> t.pre.items, al |-> t.pre.al]
      legalExc == t.exc \in {"", "PaddingError"}
      done == dom /\ t.exc = "" /\ t.stage = "done"
      shape == done /\ Len(t.post.ivs) = 2 /\ HasIv(t.post, 100) /\ HasIv(t.post, 200)
      post1 == IF shape THEN [ivs |-> <<IvById(t.post, 100)>>, items |-> t.post.items, al |-> t.post.al] ELSE st0
      ed == IF ~done THEN "-"
            ELSE IF ~shape THEN "intervals"
            ELSE EmptyApplyDiag(st0, post1, IvById(t.pre, 200), IvById(t.post, 200), t.prex, t.postx)
      pl == IF dom /\ legalExc /\ (t.exc = "" => shape)
            THEN \E order \in Orders(st0.ivs[1].blocks) :
                    PaddingLegal(SplitSpec(st0, order, DefaultTables), post1, 100, t.exc, nop, DefaultTables)
            ELSE TRUE
      ah == shape /\ AlignConsistent(st0)
      br == IF ah THEN Broken(st0, post1) ELSE {}
  IN  [clauses |->
         << <<"C10_Completes", dom, legalExc /\ (t.exc # "" => t.stage = "apply"), <<t.exc, t.stage>>, {}>>,
            <<"C10_EmptyApplyIdentity", done, ed \in {"ok", "-"}, <<ed>>, {}>>,
            <<"C10_PaddingLegal", dom /\ legalExc /\ (t.exc = "" => shape), pl,
              IF pl THEN <<>>
              ELSE PaddingDiff(SplitSpec(st0, ProcOrder(st0.ivs[1].blocks), DefaultTables), post1, 100, t.exc, nop, DefaultTables), {}>>,
            <<"C10_AlignmentHolds", ah, br = {}, <<br>>,
              IF br # {} /\ KF_C10_1(st0, post1) THEN {"KF-C10-1"} ELSE {}>> >>,
       drift |-> <<>>]

(***************************************************************************)
(* a rewrite that adds an alignment requirement: a patch with `.align N`   *)
(* is inserted at offset p of the interval (inside the second block).      *)
(*   t = [v, pre, post, p, pp, pa, pn, tabpre, tabpost, alxpre, alx, ...]  *)
(* pp / pa: the patch bytes before / from the `.align` on (assembled on    *)
(* their own); alx: the blocks of the module's alignment table after the   *)
(* rewrite with their addresses.  Level A: every requirement of the table  *)
(* after the rewrite holds (those that held before, and those the patch    *)
(* added); the interval's bytes are the edited bytes plus one run of fewer *)
(* than N whole nops, placed at or before the aligned code, inside blocks. *)
(***************************************************************************)
\* (FX-C10-2: ELF modules without an alignment table used to ignore the entry
\* the patch adds; a relapse is a violation of C10_AlignmentHolds.)
AlPatchCtx(t) ==
  LET iv == t.pre.ivs[1]
      dom == /\ WellFormed(t.pre) /\ Len(t.pre.ivs) = 1 /\ iv.addr # -1 /\ iv.init = iv.size
             /\ t.pn \in {2, 4, 8, 16} /\ t.p >= 0 /\ t.p <= iv.size
             /\ \A e \in Range(t.alxpre) : e.addr >= 0 /\ e.addr % e.a = 0
      done == dom /\ t.exc = "" /\ t.stage = "done"
      shape == done /\ Len(t.post.ivs) = 1 /\ t.post.ivs[1].id = 100
      d == IF shape THEN t.post.ivs[1] ELSE iv
      edited == SubSeq(iv.by, 1, t.p) \o t.pp \o t.pa \o SubSeq(iv.by, t.p + 1, Len(iv.by))
      Padded(q, L) == SubSeq(edited, 1, q) \o Repeat(<<144>>, L) \o SubSeq(edited, q + 1, Len(edited))
      fits == {c \in (0..(t.p + Len(t.pp))) \X (0..(t.pn - 1)) :
                 /\ d.by = Padded(c[1], c[2])
                 /\ \A x \in c[1]..(c[1] + c[2] - 1) :
                       \E b \in Range(d.blocks) : b.k = "c" /\ b.o <= x /\ x < b.o + b.s}
      pl == shape /\ d.addr = iv.addr /\ d.size = Len(d.by) /\ d.init = d.size /\ fits # {}
      broken == {e \in Range(t.alx) : e.addr >= 0 /\ e.addr % e.a # 0}
      \* the block that received the aligned patch code (it may have been joined
      \* with the block it was inserted into)
      IsPatchReq(e) == e.a = t.pn /\ e.addr >= 0 /\ SubSeq(d.by, e.o + 1, e.o + Len(t.pa)) = t.pa
      newreq == {e \in Range(t.alx) : IsPatchReq(e)}
  IN  [clauses |->
         << <<"C10_Completes", dom, t.exc = "" /\ t.stage = "done", <<t.exc, t.stage>>, {}>>,
            <<"C10_PaddingLegal", done, pl, <<"bytes", d.by, edited>>, {}>>,
            <<"C10_AlignmentHolds", shape, broken = {} /\ newreq # {} /\ t.tabpost = "entries",
              <<broken, t.tabpre, t.tabpost>>, {}>> >>,
       drift |-> <<>>]

Verdict(t) ==
  LET X == IF t.v.op = "apply" THEN ApplyCtx(t) ELSE IF t.v.op = "alpatch" THEN AlPatchCtx(t) ELSE SjCtx(t)
      cs == X.clauses
      bad == SelectSeq(cs, LAMBDA c : c[2] /\ ~c[3])
      indom == SelectSeq(cs, LAMBDA c : c[2])
  IN  [id |-> t.id,
       indomain |-> [i \in 1..Len(indom) |-> indom[i][1]],
       failed |-> [i \in 1..Len(bad) |-> [clause |-> bad[i][1], diff |-> bad[i][4], kf |-> bad[i][5]]],
       drift |-> X.drift,
       groups |-> LET c == SelectSeq(t.pre.ivs, LAMBDA x : x.id = 100)
                  IN  IF c = <<>> THEN 0 ELSE Len(GroupsOf(ProcOrder(c[1].blocks))),
       exc |-> t.exc]

TInit == /\ tid = 1
         /\ lay = <<>> /\ phase = "trace" /\ cur = <<>> /\ mid = <<>> /\ nopk = "-" /\ exc = ""
         /\ added = 0 /\ priv = FALSE
TNext == /\ tid <= Len(Traces)
         /\ PrintT("VERDICT " \o ToJson(Verdict(Traces[tid])))
         /\ tid' = tid + 1
         /\ UNCHANGED vars
AllConsumed == TLCGet("stats").diameter - 1 = Len(Traces)
=============================================================================
