SPECIFICATION Spec
CONSTANTS
  Abis = {"x64-elf"}
  MaxUses = 1
  Cat = "core"
  MapNames = {"AB", "AB_BC"}
  WithPatch = FALSE
  Emit = TRUE
INVARIANT Inv
CHECK_DEADLOCK FALSE
