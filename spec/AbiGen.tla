------------------------------- MODULE AbiGen -------------------------------
(***************************************************************************)
(* Level B model of the prologue / epilogue generators of                  *)
(* gtirb_rewriting.abi (ABI._allocate_patch_registers and the five         *)
(* _create_prologue_and_epilogue), composed with StackMachine.             *)
(*                                                                         *)
(* TLC enumerates the configuration space (ABI x clobber subset x flags x  *)
(* align_stack x preserve_caller_saved x scratch count x reads x leaf x    *)
(* start alignment), runs the event sequence the generators are designed   *)
(* to emit through the machine and checks the C16 properties in every      *)
(* state.  A counterexample is a candidate defect of the code, confirmed   *)
(* (or refuted as model drift) by the replay of the same configuration     *)
(* into the real library (harness/abi/runner.py + TraceStack.tla).  The    *)
(* same run prints every configuration as a case.                          *)
(***************************************************************************)
EXTENDS StackMachine, Json

CONSTANTS GenAbis,      \* subset of Abis
          Wide,         \* BOOLEAN: larger register universes (thorough)
          ScratchVals,  \* set of requested scratch counts
          Hist16,       \* BOOLEAN: multi-site rewrite histories and pool-end requests
          Emit,         \* BOOLEAN: print the cases
          Strict        \* BOOLEAN: no exemption for the known findings

(***************************************************************************)
(* Level B: register allocation (mirrors _allocate_patch_registers).       *)
(***************************************************************************)
ScratchPool(abi) ==
  CASE abi = "arm64" -> SelectSeq(Arm64Regs, LAMBDA r : r \notin {"x16", "x17", "x18", "x29", "x30"})
    [] abi = "mips32" -> SubSeq(MipsRegs, 1, 8)
    [] OTHER -> AllRegs(abi)
Without(seq, set) == SelectSeq(seq, LAMBDA x : x \notin set)

Alloc(cfg) ==
  LET abi == cfg.abi
      clobset == SeqToSet(cfg.clob)
      reads == SeqToSet(cfg.reads)
      pool1 == Without(ScratchPool(abi), clobset)
      pool2 == Without(pool1, reads)     \* reads that are no candidates are ignored
      unable == cfg.scratch > Len(pool2)
      scratch == SubSeq(pool2, 1, Min2(cfg.scratch, Len(pool2)))
      clobbered == clobset \cup SeqToSet(scratch)
                   \cup (IF cfg.pcs THEN CallerSaved(abi) ELSE {})
  IN  [exc |-> IF unable THEN "ValueError" ELSE "",
       clobbered |-> SelectSeq(AllRegs(abi), LAMBDA r : r \in clobbered),
       scratch |-> scratch, avail |-> pool2]

(***************************************************************************)
(* Level B: the five generators.  Result: prologue and epilogue in         *)
(* execution order, the reported stack adjustment (adjknown / adj).        *)
(***************************************************************************)
E0(op) == Ev(op, "", "", 0, "", <<>>)
ER(op, r) == Ev(op, r, "", 0, "", <<>>)
ED(op, d) == Ev(op, "", "", d, "", <<>>)
Rev(s) == [i \in 1..Len(s) |-> s[Len(s) + 1 - i]]
Cat(ss) == IF Len(ss) = 0 THEN <<>>
           ELSE LET F[i \in 1..Len(ss)] == IF i = 1 THEN ss[1] ELSE F[i - 1] \o ss[i]
                IN  F[Len(ss)]

X86Gen(cfg, al) ==
  LET abi == cfg.abi
      w == Slot(abi)
      ax == IF IsX64(abi) THEN "rax" ELSE "eax"
      n == Len(al.clobbered)
      skip == IF (n > 0 \/ cfg.flags \/ cfg.align) /\ RedZone(abi) > 0 /\ cfg.leaf
              THEN RedZone(abi) ELSE 0
      proRz == IF skip > 0 THEN <<ED("adjsp", -skip)>> ELSE <<>>
      epiRz == IF skip > 0 THEN <<ED("adjsp", skip)>> ELSE <<>>
      proF == IF cfg.flags THEN <<E0("pushf")>> ELSE <<>>
      epiF == IF cfg.flags THEN <<E0("popf")>> ELSE <<>>
      proR == [i \in 1..n |-> ER("push", al.clobbered[i])]
      epiR == [i \in 1..n |-> ER("pop", al.clobbered[n + 1 - i])]
      proA == IF cfg.align
              THEN <<ER("push", ax), ER("movspto", ax), ED("adjsp", -128),
                     ED("andsp", -16), ER("push", ax), ER("push", ax)>>
              ELSE <<>>
      epiA == IF cfg.align THEN <<ER("pop", ax), ER("movtosp", ax), ER("pop", ax)>> ELSE <<>>
  IN  [exc |-> "", pro |-> proRz \o proF \o proR \o proA,
       epi |-> epiA \o epiR \o epiF \o epiRz,
       adjknown |-> ~cfg.align,
       adj |-> IF cfg.align THEN 0 ELSE skip + (IF cfg.flags THEN w ELSE 0) + n * w]

Arm64Gen(cfg, al) ==
  LET needtmp == cfg.flags /\ Len(al.scratch) = 0
      freg == IF ~cfg.flags THEN ""
              ELSE IF Len(al.scratch) > 0 THEN al.scratch[1]
              ELSE IF Len(al.avail) > 0 THEN al.avail[1] ELSE ""
      L == IF needtmp /\ freg # "" THEN Append(al.clobbered, freg) ELSE al.clobbered
      np == (Len(L) + 1) \div 2
      proP == [k \in 1..np |->
                 IF 2 * k <= Len(L) THEN Ev("stppre", L[2 * k - 1], L[2 * k], -16, "", <<>>)
                 ELSE Ev("strpre", L[2 * k - 1], "", -16, "", <<>>)]
      epiP == [k \in 1..np |->
                 LET j == np + 1 - k IN
                 IF 2 * j <= Len(L) THEN Ev("ldppost", L[2 * j - 1], L[2 * j], 16, "", <<>>)
                 ELSE Ev("ldrpost", L[2 * j - 1], "", 16, "", <<>>)]
      proF == IF cfg.flags THEN <<ER("mrs", freg), Ev("strpre", freg, "", -16, "", <<>>)>> ELSE <<>>
      epiF == IF cfg.flags THEN <<Ev("ldrpost", freg, "", 16, "", <<>>), ER("msr", freg)>> ELSE <<>>
  IN  [exc |-> IF cfg.flags /\ freg = "" THEN "IndexError" ELSE "",
       pro |-> proP \o proF, epi |-> epiF \o epiP, adjknown |-> TRUE,
       adj |-> 16 * np + (IF cfg.flags THEN 16 ELSE 0)]

MipsGen(cfg, al) ==
  LET n == Len(al.clobbered)
      a == 4 * n
  IN  IF cfg.align
      THEN [exc |-> "NotImplementedError", pro |-> <<>>, epi |-> <<>>, adjknown |-> TRUE, adj |-> 0]
      ELSE [exc |-> "",
            pro |-> (IF a # 0 THEN <<ED("adjsp", -a)>> ELSE <<>>)
                    \o [i \in 1..n |-> Ev("sw", al.clobbered[i], "", 4 * (i - 1), "", <<>>)],
            epi |-> [i \in 1..n |-> Ev("lw", al.clobbered[n + 1 - i], "", 4 * (n - i), "", <<>>)]
                    \o (IF a # 0 THEN <<ED("adjsp", a)>> ELSE <<>>),
            adjknown |-> TRUE, adj |-> a]

\* what the code is designed to do for a constraints value
Predict(cfg) ==
  LET al == Alloc(cfg) IN
  IF al.exc # ""
  THEN [exc |-> al.exc, pro |-> <<>>, epi |-> <<>>, adjknown |-> TRUE, adj |-> 0,
        scratch |-> <<>>]
  ELSE LET g == CASE IsX86(cfg.abi) -> X86Gen(cfg, al)
                  [] cfg.abi = "arm64" -> Arm64Gen(cfg, al)
                  [] OTHER -> MipsGen(cfg, al)
       IN  [exc |-> g.exc, pro |-> g.pro, epi |-> g.epi, adjknown |-> g.adjknown,
            adj |-> g.adj, scratch |-> IF g.exc = "" THEN al.scratch ELSE <<>>]

(***************************************************************************)
(* Level A: parameters of a run, refusals the property allows.  (No open   *)
(* finding of C16: FX-C16-1, FX-C16-2 are fixed and excuse nothing.)       *)
(***************************************************************************)
\* registers the patch body may change, given the scratch registers it got
Declared(cfg, scratch) ==
  SeqToSet(cfg.clob) \cup SeqToSet(scratch)
  \cup (IF cfg.pcs THEN CallerSaved(cfg.abi) ELSE {})

ParamsC16(cfg, a, scratch, adjknown, adj) ==
  [abi |-> cfg.abi, w |-> Slot(cfg.abi), sp0 |-> 1024 + a, spname |-> SpName(cfg.abi),
   rz |-> IF cfg.leaf THEN RedZone(cfg.abi) ELSE 0,
   D |-> Declared(cfg, scratch), dflags |-> cfg.flags /\ cfg.abi # "mips32", cs |-> CallerSaved(cfg.abi),
   may |-> {}, callsout |-> FALSE,
   adjknown |-> adjknown, adj |-> adj,
   alignreq |-> cfg.align /\ (1024 + a) % Slot(cfg.abi) = 0
                /\ (cfg.abi = "arm64" => a = 0),
   aligndom |-> FALSE,
   conv |-> DefaultConv(cfg.abi), exp |-> <<>>, nstack |-> 0, target |-> ""]

\* the request cannot be satisfied: fewer registers left than requested
\* (Candidates: StackMachine, from the psABI, not from the library)
Available(cfg) == Candidates(cfg.abi) \ (SeqToSet(cfg.clob) \cup SeqToSet(cfg.reads))
Unallocatable(cfg) ==
  cfg.scratch > Cardinality(Available(cfg))
LegitRefusalC16(cfg, exc) ==
  \/ exc = "ValueError" /\ Unallocatable(cfg)
  \/ exc = "NotImplementedError" /\ cfg.abi = "mips32" /\ cfg.align

\* (not part of the statement of C16, not judged: x86 align_stack uses `and',
\* flags that are not declared clobbered are not saved)
KfAlignFlags(cfg) == IsX86(cfg.abi) /\ cfg.align /\ ~cfg.flags

(***************************************************************************)
(* Configuration space.                                                    *)
(***************************************************************************)
ClobUniverse(abi) ==       \* first, last, a caller-saved, a callee-saved (+2)
  CASE IsX64(abi) -> IF Wide THEN <<"rax", "rbx", "rcx", "rdi", "r11", "r15">>
                     ELSE <<"rax", "rbx", "rdi", "r15">>
    [] abi = "ia32pe" -> IF Wide THEN <<"eax", "ebx", "ecx", "esi", "edi">>
                         ELSE <<"eax", "ebx", "ecx", "edi">>
    [] abi = "arm64" -> IF Wide THEN <<"x0", "x1", "x9", "x19", "x29", "x30">>
                        ELSE <<"x0", "x9", "x19", "x30">>
    [] OTHER -> IF Wide THEN <<"t0", "t1", "a0", "s0", "v0", "ra">>
                ELSE <<"t0", "a0", "s0", "ra">>
\* reads_registers: none; a scratch candidate outside the clobber universe;
\* the first scratch candidate (also in the clobber universe) plus another;
\* (Wide: a register that is not a scratch candidate)
ReadChoices(abi) ==
  CASE IsX64(abi) -> IF Wide THEN {<<>>, <<"rdx">>, <<"rsi", "r8">>, <<"rax", "rdx">>}
                     ELSE {<<>>, <<"rcx">>, <<"rax", "rdx">>}
    [] abi = "ia32pe" -> {<<>>, <<"edx">>, <<"eax", "esi">>} \cup (IF Wide THEN {<<"esi">>} ELSE {})
    [] abi = "arm64" -> {<<>>, <<"x1">>, <<"x0", "x2">>}
                        \cup (IF Wide THEN {<<"x2">>, <<"x3", "x4">>, <<"x16">>} ELSE {})
    [] OTHER -> {<<>>, <<"t1">>, <<"t0", "t2">>}
                \cup (IF Wide THEN {<<"t2">>, <<"t3", "t4">>, <<"a1">>} ELSE {})
SubSeqs(u) == {SelectSeq(u, LAMBDA r : r \in s) : s \in SUBSET SeqToSet(u)}

\* the space is enumerated in two stages so that the expensive part (the
\* prediction, the emission) is done by the workers, not by Init
BaseConfigs ==
  {[kind |-> "c16", abi |-> abi, clob |-> c, flags |-> f, align |-> al, pcs |-> p,
    scratch |-> 0, reads |-> <<>>, leaf |-> TRUE,
    spell |-> "lower", clobsp |-> c, readsp |-> <<>>,
    sites |-> <<[blk |-> 0, leaf |-> TRUE]>>, mode |-> "single"] :
     abi \in GenAbis, c \in UNION {SubSeqs(ClobUniverse(x)) : x \in GenAbis},
     f \in BOOLEAN, al \in BOOLEAN, p \in BOOLEAN}
Leafs(abi) == IF abi = "x64elf" \/ (Wide /\ abi = "x64pe") THEN BOOLEAN ELSE {TRUE}

(***************************************************************************)
(* Spelling of register names in clobbers_registers / reads_registers.     *)
(* clob / reads name the registers by identity (canonical name); clobsp /  *)
(* readsp are what the patch author wrote: ABI.get_register is case        *)
(* insensitive and accepts sub-register names (the library's own tables    *)
(* say "RCX", "EAX", ...).  Allocation is by identity, whatever the         *)
(* spelling.  <<upper, sub-register, mixed case>> per register:            *)
(***************************************************************************)
SpellTab ==
  [rax |-> <<"RAX", "eax", "Rax">>, rbx |-> <<"RBX", "bx", "rBx">>, rcx |-> <<"RCX", "cl", "Ecx">>,
   rdx |-> <<"RDX", "dh", "eDX">>, rsi |-> <<"RSI", "sil", "Esi">>, rdi |-> <<"RDI", "di", "rDi">>,
   r8 |-> <<"R8", "r8d", "R8b">>, r11 |-> <<"R11", "r11b", "R11D">>, r15 |-> <<"R15", "r15w", "r15D">>,
   eax |-> <<"EAX", "al", "Eax">>, ebx |-> <<"EBX", "bh", "eBx">>, ecx |-> <<"ECX", "cx", "eCX">>,
   edx |-> <<"EDX", "dl", "Dx">>, esi |-> <<"ESI", "si", "Esi">>, edi |-> <<"EDI", "dil", "eDi">>,
   x0 |-> <<"X0", "w0", "W0">>, x1 |-> <<"X1", "w1", "W1">>, x2 |-> <<"X2", "w2", "W2">>,
   x3 |-> <<"X3", "w3", "W3">>, x4 |-> <<"X4", "w4", "W4">>, x9 |-> <<"X9", "w9", "W9">>,
   x16 |-> <<"X16", "w16", "W16">>, x19 |-> <<"X19", "w19", "W19">>,
   x29 |-> <<"X29", "fp", "Fp">>, x30 |-> <<"X30", "lr", "LR">>,
   t0 |-> <<"T0", "t0", "T0">>, t1 |-> <<"T1", "t1", "T1">>, t2 |-> <<"T2", "t2", "T2">>,
   t3 |-> <<"T3", "t3", "T3">>, t4 |-> <<"T4", "t4", "T4">>, a0 |-> <<"A0", "a0", "A0">>,
   a1 |-> <<"A1", "a1", "A1">>, s0 |-> <<"S0", "s0", "S0">>, v0 |-> <<"V0", "v0", "V0">>,
   ra |-> <<"RA", "ra", "Ra">>]
Spellings == {"lower", "upper", "sub", "mixed"}
Spell(r, mode) ==
  IF mode = "lower" \/ r \notin DOMAIN SpellTab THEN r
  ELSE SpellTab[r][CASE mode = "upper" -> 1 [] mode = "sub" -> 2 [] OTHER -> 3]
SpellSeq(rs, mode) == [i \in DOMAIN rs |-> Spell(rs[i], mode)]
\* the spelled variants ask for so many scratch registers that every register
\* of the read / clobber choices would be handed out if it were not excluded
SpellScratch == 4

(***************************************************************************)
(* Composition: choose a configuration and a start alignment, execute the  *)
(* designed event sequence on the machine.                                 *)
(***************************************************************************)
VARIABLES cfg, pred, prog, pc
vars == <<cfg, pred, prog, pc, mvars>>

\* what the invariants need to know about the prediction
Meta(p) == [exc |-> p.exc, scratch |-> p.scratch]
NoPred == [exc |-> "", scratch |-> <<>>]
\* Without align_stack no event depends on the value of sp (no `and'): the
\* machine is invariant under translation and one start alignment suffices.
RelevantAligns(abi, align) ==
  IF align THEN StartAligns(abi) ELSE {CHOOSE a \in StartAligns(abi) : \A b \in StartAligns(abi) : a <= b}
Program(p) == IF p.exc # "" THEN <<>>
              ELSE p.pro \o <<E0("bodyentry"), E0("havoc"), E0("bodyexit")>> \o p.epi \o <<E0("end")>>

Init ==
  /\ cfg \in {c \in BaseConfigs : c.clob \in SubSeqs(ClobUniverse(c.abi))}
  /\ pred = NoPred
  /\ prog = <<>>
  /\ pc = 0
  /\ MInit(ParamsC16(cfg, 0, <<>>, TRUE, 0))

\* stage 2: complete the configuration, predict, start the machine
\* the spelling dimension is crossed with the allocation-relevant part of the
\* space only (it cannot influence anything else)
SpellOK(c, n, rd, md) ==
  \/ md = "lower" /\ n \in ScratchVals
  \/ /\ n = SpellScratch /\ n \notin ScratchVals /\ ~c.flags /\ ~c.align /\ ~c.pcs
     /\ (Len(c.clob) > 0 \/ Len(rd) > 0)
MainChoices(c0) ==
  {[c0 EXCEPT !.scratch = n, !.reads = rd, !.leaf = lf, !.spell = md,
              !.clobsp = SpellSeq(c0.clob, md), !.readsp = SpellSeq(rd, md),
              !.sites = <<[blk |-> 0, leaf |-> lf]>>] :
     n \in ScratchVals \cup {SpellScratch}, rd \in ReadChoices(c0.abi),
     lf \in Leafs(c0.abi), md \in Spellings}

\* The END of the scratch pool: requests of exactly what is available, one
\* more (must be refused), the whole pool and the whole pool plus one.
Plain(c) == ~c.flags /\ ~c.align /\ ~c.pcs
PoolChoices(c0) ==
  IF ~Hist16 \/ ~Plain(c0) THEN {}
  ELSE UNION {LET x == [c0 EXCEPT !.reads = rd, !.readsp = rd]
                  av == Cardinality(Available(x))
                  all == Cardinality(Candidates(c0.abi))
              IN  {[x EXCEPT !.scratch = n] : n \in {av, av + 1, all, all + 1}}
              : rd \in ReadChoices(c0.abi)}

\* Histories: ONE Patch object (body `nop') is inserted at 2-3 sites in a
\* single RewritingContext.apply():  mode "loop" = insert_at per site (a
\* possibly-leaf site is a block outside any function), "blocks" =
\* AllBlocksScope(ENTRY), "funcs" = AllFunctionsScope(ENTRY, ENTRY) (every
\* site is a function; a non-leaf one contains a call).  Site s is judged
\* like a single insertion with leaf = sites[s].leaf.
Sites16(ls) == [i \in DOMAIN ls |-> [blk |-> i - 1, leaf |-> ls[i]]]
HistCombos(abi) ==
  {<<"loop", <<TRUE, FALSE, TRUE>>>>, <<"funcs", <<TRUE, FALSE>>>>}
  \cup (IF abi = "x64elf" \/ Wide
        THEN {<<"loop", <<TRUE, TRUE>>>>, <<"loop", <<FALSE, FALSE>>>>,
              <<"blocks", <<FALSE, TRUE, FALSE>>>>}
        ELSE {})
HistClobs(abi) == LET u == ClobUniverse(abi) IN {<<>>, <<u[1]>>, SubSeq(u, 2, Len(u)), u}
HistChoices(c0) ==
  IF ~Hist16 \/ c0.clob \notin HistClobs(c0.abi) THEN {}
  ELSE {[c0 EXCEPT !.scratch = n, !.mode = hc[1], !.sites = Sites16(hc[2]), !.leaf = hc[2][1]] :
          n \in {0, 1}, hc \in HistCombos(c0.abi)}
\* the configuration as site number s sees it
AtSite(c, s) == [c EXCEPT !.leaf = c.sites[s].leaf]

LoadChoices(c0) ==
  {x \in MainChoices(c0) : SpellOK(x, x.scratch, x.reads, x.spell)}
  \cup PoolChoices(c0) \cup HistChoices(c0)

Load ==
  /\ pc = 0
  /\ \E c \in LoadChoices(cfg) : \E s \in DOMAIN c.sites :
        \E a \in RelevantAligns(cfg.abi, cfg.align) :
        \E r \in {AtSite(c, s)} :                \* Level B is stateless: site s alone
        \E p \in {Predict(r)} :
            /\ cfg' = c
            /\ pred' = [exc |-> p.exc, scratch |-> p.scratch, site |-> s]
            /\ prog' = Program(p)
            /\ pc' = 1
            /\ MLoad(ParamsC16(r, a, p.scratch, p.adjknown, p.adj))
            /\ (Emit /\ s = 1 /\ \A b \in RelevantAligns(c.abi, c.align) : a <= b)
                 => PrintT("CASE " \o ToJson(c))

Step ==
  /\ pc >= 1 /\ pc <= Len(prog)
  /\ Exec(prog[pc])
  /\ pc' = pc + 1
  /\ UNCHANGED <<cfg, pred, prog>>

Next == Load \/ Step
Spec == Init /\ [][Next]_vars

(***************************************************************************)
(* Invariants = the property (an OPEN finding is exempted under its narrow  *)
(* signature unless Strict; C16 has none, CallGen uses Ex for C17).        *)
(***************************************************************************)
Ex(kf) == ~Strict /\ kf
NSc == Len(pred.scratch)

Inv_TypeOK == MTypeOK
Inv_Refusal == pred.exc # "" => LegitRefusalC16(cfg, pred.exc)
Inv_NoWriteAtOrAboveOriginalSp == NoWriteAtOrAboveOriginalSp(par, St)
Inv_NoRedZoneWriteIfLeaf == NoRedZoneWriteIfLeaf(par, St)
Inv_ReadsOnlyOwnSlots == ReadsOnlyOwnSlots(par, St)
Inv_SpAlignedOnAccess == SpAlignedOnAccess(par, St)
Inv_RestoredDeclared == RestoredDeclared(par, St)
Inv_NoCollateral == NoCollateral(par, St)
Inv_FlagsRestoredIfDeclared == FlagsRestoredIfDeclared(par, St)
Inv_FlagsUntouchedIfNotDeclared == FlagsUntouchedIfNotDeclared(par, St) \/ Ex(KfAlignFlags(cfg))
Inv_SpRestored == SpRestored(par, St)
Inv_ReportedAdjustment == ReportedAdjustment(par, St)
Inv_AlignedIfAlignStack == AlignedIfAlignStack(par, St)
Inv_BodyStackNeutral == BodyStackNeutral(par, St)
Inv_ScratchOK == (pc > 0 /\ pred.exc = "") => ScratchOK(cfg.abi, pred.scratch, cfg.scratch, SeqToSet(cfg.reads) \cup SeqToSet(cfg.clob))
\* a request that cannot be served is refused
Inv_RefusesUnservable == (pc > 0 /\ Unallocatable(cfg)) => pred.exc = "ValueError"
\* every run that is not refused reaches the end
Inv_Progress == (pc > Len(prog) /\ pc > 0 /\ pred.exc = "") => phase = "done"
=============================================================================
