SPECIFICATION Spec
CONSTANTS
  NB = 3
  NS = 3
  MaxLen = 5
  Symmetric = TRUE
  Inits = "diag"
  Emit = FALSE
INVARIANTS TypeOK WF Refines EmitCase
VIEW View
CHECK_DEADLOCK FALSE
