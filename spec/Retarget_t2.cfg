SPECIFICATION Spec
CONSTANTS
  Abis = {"x64-pe", "ia32-pe", "arm64-elf", "mips32-elf"}
  MaxUses = 2
  Cat = "full"
  MapNames = {"AB"}
  WithPatch = TRUE
  Emit = TRUE
INVARIANT Inv
CHECK_DEADLOCK FALSE
