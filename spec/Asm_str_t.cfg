SPECIFICATION Spec
CONSTANTS
  VocabName = "str"
  MaxLen = 4
  MaxChunks = 1
  TUs = {TRUE, FALSE}
  AUs = {FALSE}
  ICFIs = {FALSE}
  MSs = {{"a", "b"}}
  Emit = TRUE
INVARIANT Inv
CHECK_DEADLOCK FALSE
