SPECIFICATION Spec
CONSTANTS
  VocabName = "asg"
  MaxLen = 3
  MaxChunks = 3
  TUs = {FALSE}
  AUs = {TRUE, FALSE}
  ICFIs = {FALSE}
  MSs = {{}, {"a"}}
  Emit = TRUE
INVARIANT Inv
CHECK_DEADLOCK FALSE
