SPECIFICATION Spec
CONSTANTS
  MaxBlocks = 2
  MaxReqs = 2
  Templates = {"o23", "jmp", "d3"}
  PatchKinds = {"plain2", "plain7", "bytes", "datasec"}
  FnLayouts = {"none"}
  EndSyms = {FALSE}
  NoSyms = {FALSE}
  AnnModes = {"none"}
  WithProxyDel = FALSE
  CfiLayouts = {"none"}
  Isa = "x64"
  WithScopes = TRUE
  Fmts = {"elf"}
  WholeOnly = FALSE
  Leads = {0, 2}
  DropFnTables = {FALSE}
  ExtraData = {TRUE, FALSE}
  Retargets = {FALSE}
  AlignOpts = {0}
  Aliases = {FALSE}
  SharedRet = {FALSE}
  InsFns = {"none"}
  Emit = TRUE
INVARIANT Inv
CHECK_DEADLOCK FALSE
