SPECIFICATION Spec
CONSTANTS
  MaxLen = 3
  Regs = {1, 2}
  Offs <- OffsDef
  Cols = {17}
  PtrArgs <- PtrArgsQ
  Escapes = {"nop", "cfa", "exp1", "multi"}
  Ops <- OpsAll
  AbiSet = {"x64-elf", "x64-pe", "ia32-pe", "arm64-elf", "mips32-elf"}
  EmitAbi = "x64-elf"
  Emit = TRUE
  EmitMinLen = 0
  AllowErr = TRUE
INVARIANT Inv
PROPERTY InitFrozen
CHECK_DEADLOCK FALSE
