------------------------------- MODULE CallGen -------------------------------
(***************************************************************************)
(* Level B model of gtirb_rewriting.patches.CallPatch (_CallPatchX86 and   *)
(* _CallPatchARM64: constraints they declare, padding / shadow / cleanup   *)
(* arithmetic, immediate and symbol loading) on top of the prologue and    *)
(* epilogue model of AbiGen, composed with StackMachine.                   *)
(*                                                                         *)
(* TLC enumerates argument lists (count, kind and value class per          *)
(* position), calling conventions (default and custom), the constraint     *)
(* overrides (which determine every prologue stack adjustment) and the     *)
(* start alignments, executes the designed event sequence and checks, at   *)
(* the call: argument registers, stack arguments, shadow space, alignment; *)
(* at the end: stack neutrality and transparency (C17).                    *)
(***************************************************************************)
EXTENDS AbiGen

CONSTANTS ArgCounts,     \* set of argument counts
          SingleCounts,  \* argument counts of the lists with one special value
          RotStep,       \* rotations of the kind table: offsets 0, RotStep, ...
          HistSites      \* numbers of insertion sites of the history cases ({} = none)

(***************************************************************************)
(* Argument values.  b: little-endian bytes of the machine word, sg: the   *)
(* Python integer is the signed reading of b.                              *)
(***************************************************************************)
IntArg(b, sg) == [k |-> "int", cb |-> FALSE, b |-> b, sg |-> sg, s |-> ""]
SymArg(s) == [k |-> "sym", cb |-> FALSE, b |-> <<>>, sg |-> FALSE, s |-> s]
Cb(a) == [a EXCEPT !.cb = TRUE]
Z == 0
F == 255
Kind64(name, i) ==
  CASE name = "small" -> IntArg(<<i, Z, Z, Z, Z, Z, Z, Z>>, TRUE)
    [] name = "zero" -> IntArg(<<Z, Z, Z, Z, Z, Z, Z, Z>>, TRUE)
    [] name = "neg" -> IntArg(<<256 - i, F, F, F, F, F, F, F>>, TRUE)          \* -i
    [] name = "i32max" -> IntArg(<<F, F, F, 127, Z, Z, Z, Z>>, TRUE)
    [] name = "i32min" -> IntArg(<<Z, Z, Z, 128, F, F, F, F>>, TRUE)
    [] name = "u31" -> IntArg(<<Z, Z, Z, 128, Z, Z, Z, Z>>, TRUE)            \* 2^31
    [] name = "big" -> IntArg(<<i, Z, Z, Z, Z, 1, Z, Z>>, TRUE)              \* 2^40 + i
    [] name = "negbig" -> IntArg(<<Z, Z, Z, Z, Z, F, F, F>>, TRUE)           \* -2^40
    [] name = "u64max" -> IntArg(<<F, F, F, F, F, F, F, F>>, FALSE)          \* 2^64 - 1
    [] name = "i64min" -> IntArg(<<Z, Z, Z, Z, Z, Z, Z, 128>>, TRUE)
    [] name = "a16" -> IntArg(<<F, F, Z, Z, Z, Z, Z, Z>>, TRUE)              \* 0xFFFF
    [] name = "a17" -> IntArg(<<Z, Z, 1, Z, Z, Z, Z, Z>>, TRUE)              \* 0x10000
    [] name = "an16" -> IntArg(<<1, Z, F, F, F, F, F, F>>, TRUE)             \* -0xFFFF
    [] name = "an17" -> IntArg(<<Z, Z, F, F, F, F, F, F>>, TRUE)             \* -0x10000
    [] name = "sym" -> SymArg("gsym0")
    [] name = "sym2" -> SymArg("gsym1")
    [] name = "cbint" -> Cb(IntArg(<<100 + i, Z, Z, Z, Z, Z, Z, Z>>, TRUE))
    [] name = "cbneg" -> Cb(IntArg(<<256 - i, F, F, F, F, F, F, F>>, TRUE))
    [] OTHER -> Cb(SymArg("gsym0"))                                          \* cbsym
Kind32(name, i) ==
  CASE name = "small" -> IntArg(<<i, Z, Z, Z>>, TRUE)
    [] name = "zero" -> IntArg(<<Z, Z, Z, Z>>, TRUE)
    [] name = "neg" -> IntArg(<<256 - i, F, F, F>>, TRUE)
    [] name = "i32max" -> IntArg(<<F, F, F, 127>>, TRUE)
    [] name = "i32min" -> IntArg(<<Z, Z, Z, 128>>, TRUE)
    [] name = "u31" -> IntArg(<<Z, Z, Z, 128>>, FALSE)
    [] name = "u64max" -> IntArg(<<F, F, F, F>>, FALSE)                      \* 2^32 - 1
    [] name = "a16" -> IntArg(<<F, F, Z, Z>>, TRUE)
    [] name = "sym" -> SymArg("gsym0")
    [] name = "sym2" -> SymArg("gsym1")
    [] name = "cbint" -> Cb(IntArg(<<100 + i, Z, Z, Z>>, TRUE))
    [] OTHER -> Cb(SymArg("gsym0"))
KindArg(abi, name, i) == IF Slot(abi) = 8 THEN Kind64(name, i) ELSE Kind32(name, i)

\* kinds used in rotation, and kinds placed singly among plain small integers
RotKinds(abi) ==
  CASE IsX64(abi) -> <<"small", "neg", "sym", "i32max", "zero", "cbint", "i32min", "a17",
                       "u64max", "sym2", "an16", "a16", "cbsym", "an17">>
    [] abi = "arm64" -> <<"small", "big", "sym", "i32max", "zero", "cbint", "i32min", "a17",
                          "u64max", "sym2", "negbig", "a16", "cbsym", "an17", "u31", "i64min">>
    [] OTHER -> <<"small", "neg", "sym", "i32max", "zero", "cbint", "i32min", "u31",
                  "u64max", "sym2", "a16", "cbsym">>
SingleKinds(abi) ==
  CASE IsX64(abi) -> <<"u31", "big", "negbig", "i64min">>
    [] abi = "arm64" -> <<"neg", "an16", "cbneg">>
    [] OTHER -> <<>>

RotList(abi, n, o) ==
  LET K == RotKinds(abi) IN [i \in 1..n |-> KindArg(abi, K[((i - 1 + o) % Len(K)) + 1], i)]
SingleList(abi, n, name, p) ==
  [i \in 1..n |-> IF i = p THEN KindArg(abi, name, i) ELSE KindArg(abi, "small", i)]

(***************************************************************************)
(* Histories: ONE CallPatch object is used at several insertion sites.     *)
(* A site is an InsertionContext (block, offset); blocks blk0, blk1, ...   *)
(* are 16 nops at 4096 + 64 * blk, each carries the symbol of that name.   *)
(* Context dependent argument callables:                                   *)
(*   ctxoff   lambda ctx: 512 + ctx.offset                                 *)
(*   ctxaddr  lambda ctx: ctx.block.address                                *)
(*   ctxsym   lambda ctx: the symbol of ctx.block                          *)
(* The value expected at site s is f(context of s): ResolveArg.            *)
(***************************************************************************)
CtxArg(kind) == [k |-> kind, cb |-> TRUE, b |-> <<>>, sg |-> TRUE, s |-> ""]
IsCtxKind(a) == a.k \in {"ctxoff", "ctxaddr", "ctxsym"}
NopSize(abi) == IF abi = "arm64" THEN 4 ELSE 1
Site(blk, off) == [blk |-> blk, off |-> off, addr |-> 4096 + 64 * blk,
                   sym |-> <<"blk0", "blk1", "blk2">>[blk + 1]]
DefaultSites == <<Site(0, 0)>>
Word(abi, lo, hi) == IF Slot(abi) = 8 THEN <<lo, hi, Z, Z, Z, Z, Z, Z>> ELSE <<lo, hi, Z, Z>>
ResolveArg(abi, a, site) ==
  CASE a.k = "ctxoff" -> Cb(IntArg(Word(abi, site.off, 2), TRUE))
    [] a.k = "ctxaddr" -> Cb(IntArg(Word(abi, site.addr % 256, site.addr \div 256), TRUE))
    [] a.k = "ctxsym" -> Cb(SymArg(site.sym))
    [] OTHER -> a
\* the configuration as site number s sees it (every callable evaluated)
At(c, s) == [c EXCEPT !.args = [i \in DOMAIN c.args |-> ResolveArg(c.abi, c.args[i], c.sites[s])]]

HistKinds == <<"ctxoff", "ctxsym", "small", "ctxaddr">>
HistList(abi, n, o) ==
  [i \in 1..n |-> LET kd == HistKinds[((i - 1 + o) % 4) + 1]
                 IN  IF kd = "small" THEN KindArg(abi, "small", i) ELSE CtxArg(kd)]
\* argument lists: in registers only, and reaching onto the stack
HistLists(abi) ==
  {HistList(abi, n, o) : n \in {2, Len(DefaultConv(abi).regs) + 3}, o \in {0, 1, 3}}
SiteSeqs(abi) ==
  (IF 2 \in HistSites THEN {<<Site(0, 0), Site(1, NopSize(abi))>>} ELSE {})
  \cup (IF 3 \in HistSites THEN {<<Site(1, 2 * NopSize(abi)), Site(0, 0), Site(2, NopSize(abi))>>} ELSE {})

(***************************************************************************)
(* Level B: CallPatch.                                                     *)
(***************************************************************************)
ConvOf(c) == IF c.custom
             THEN [regs |-> c.cregs, align |-> c.calign, shadow |-> c.cshadow,
                   caller |-> c.ccaller]
             ELSE DefaultConv(c.abi)
NRegs(c) == Min2(Len(c.args), Len(ConvOf(c).regs))
NStack(c) == Len(c.args) - NRegs(c)

B0(b) == \A i \in DOMAIN b : b[i] = 0
\* bytes 5..8 are the sign extension of bit 31
SImm32(b) == IF b[4] < 128 THEN \A i \in 5..8 : b[i] = 0 ELSE \A i \in 5..8 : b[i] = 255
\* -0xFFFF <= v <= -1
SmallNeg(a) == a.sg /\ (\A i \in 3..8 : a.b[i] = 255) /\ ~(a.b[1] = 0 /\ a.b[2] = 0)
SmallNonNeg(a) == \A i \in 3..8 : a.b[i] = 0

\* constraints CallPatch declares (then overridden by the keyword arguments)
CallClobbers(c) ==
  LET conv == ConvOf(c)
      argregs == {conv.regs[i] : i \in 1..NRegs(c)}
  IN  IF c.abi = "arm64"
      THEN argregs \cup {"x30"} \cup (IF NStack(c) > 0 THEN {"x0"} ELSE {})
      ELSE argregs
\* the constraints as a C16 configuration
ConsCfg(c) ==
  [kind |-> "c16", abi |-> c.abi,
   clob |-> SelectSeq(AllRegs(c.abi), LAMBDA r : r \in CallClobbers(c)),
   flags |-> c.flags, align |-> c.align, pcs |-> c.pcs, scratch |-> c.scratch,
   reads |-> <<>>, leaf |-> c.leaf]

X86Body(c, adjknown, adj) ==
  LET w == Slot(c.abi)
      conv == ConvOf(c)
      n == Len(c.args)
      nr == NRegs(c)
      argsz == NStack(c) * w
      total == (IF adjknown THEN adj ELSE 0) + argsz
      padding == AlignUp(total, conv.align) - total
      One(i) == LET a == c.args[i] IN
                IF i <= nr
                THEN IF a.k = "sym" THEN Ev("loadmem", conv.regs[i], "", 0, a.s, <<>>)
                     ELSE Ev("movimm", conv.regs[i], "", 0, "", a.b)
                ELSE IF a.k = "sym" THEN Ev("pushmem", "", "", 0, a.s, <<>>)
                     ELSE Ev("pushimm", "", "", 0, "", a.b)
      cleanup == conv.shadow + padding + (IF conv.caller THEN argsz ELSE 0)
      badpush == IsX64(c.abi) /\ \E i \in (nr + 1)..n : c.args[i].k = "int" /\ ~SImm32(c.args[i].b)
  IN  [exc |-> IF badpush THEN "AsmSyntaxError" ELSE "",
       body |-> (IF padding > 0 THEN <<ED("adjspf", -padding)>> ELSE <<>>)
                \o [j \in 1..n |-> One(n + 1 - j)]
                \o (IF conv.shadow > 0 THEN <<ED("adjspf", -conv.shadow)>> ELSE <<>>)
                \o <<Ev("call", "", "", 0, "callee_fn", <<>>)>>
                \o (IF cleanup > 0 THEN <<ED("adjspf", cleanup)>> ELSE <<>>)]

\* _load_immediate / _load_symbol
ArmLoad(r, a) ==
  IF a.k = "sym"
  THEN <<Ev("adrp", r, "", 0, a.s, <<>>), Ev("addlo12", r, r, 0, a.s, <<>>)>>
  ELSE IF SmallNonNeg(a) \/ SmallNeg(a)        \* one mov (movz / movn alias)
       THEN <<Ev("movimm", r, "", 0, "", a.b)>>
  ELSE <<Ev("movimm", r, "", 0, "", <<a.b[1], a.b[2], 0, 0, 0, 0, 0, 0>>)>>
       \o Cat([k \in 1..3 |-> IF a.b[2 * k + 1] = 0 /\ a.b[2 * k + 2] = 0 THEN <<>>
                              ELSE <<Ev("movk", r, "", 16 * k, "", <<a.b[2 * k + 1], a.b[2 * k + 2]>>)>>])
Arm64Body(c) ==
  LET conv == ConvOf(c)
      n == Len(c.args)
      nr == NRegs(c)
      ns == NStack(c)
      sa == AlignUp(ns * 8, conv.align)
  IN  [exc |-> "",
       body |-> (IF sa > 0 THEN <<ED("adjsp", -sa)>> ELSE <<>>)
                \o Cat([j \in 1..ns |->
                          LET p == n + 1 - j IN
                          ArmLoad("x0", c.args[p])
                          \o <<Ev("storeslot", "x0", "", (p - nr - 1) * 8, "", <<>>)>>])
                \o Cat([j \in 1..nr |-> ArmLoad(conv.regs[nr + 1 - j], c.args[nr + 1 - j])])
                \o <<Ev("call", "", "", 0, "callee_fn", <<>>)>>
                \o (IF sa > 0 THEN <<ED("adjsp", sa)>> ELSE <<>>)]

NoCallPred(exc) == [exc |-> exc, pro |-> <<>>, body |-> <<>>, epi |-> <<>>,
                    adjknown |-> TRUE, adj |-> 0, scratch |-> <<>>]
CallPredict(c) ==
  LET conv == ConvOf(c) IN
  IF c.abi = "mips32" THEN NoCallPred("NotImplementedError")
  ELSE IF c.abi = "arm64" /\ (conv.shadow # 0 \/ conv.align # 16) THEN NoCallPred("ValueError")
  ELSE
    LET p == Predict(ConsCfg(c)) IN
    IF p.exc # "" THEN NoCallPred(p.exc)
    ELSE LET b == IF c.abi = "arm64" THEN Arm64Body(c) ELSE X86Body(c, p.adjknown, p.adj)
         IN  IF b.exc # "" THEN [NoCallPred(b.exc) EXCEPT !.adjknown = p.adjknown,
                                                          !.adj = p.adj, !.scratch = p.scratch]
             ELSE [exc |-> "", pro |-> p.pro, body |-> b.body, epi |-> p.epi,
                   adjknown |-> p.adjknown, adj |-> p.adj, scratch |-> p.scratch]

(***************************************************************************)
(* Level A: parameters of a C17 run, refusals, signatures of the findings. *)
(***************************************************************************)
ExpTok(abi, a) == IF a.k = "sym" THEN AddrTok(a.s) ELSE IntTok(a.b)

ParamsC17(c, a, adjknown, adj) ==
  LET conv == ConvOf(c) IN
  [abi |-> c.abi, w |-> Slot(c.abi), sp0 |-> 1024 + a, spname |-> SpName(c.abi),
   rz |-> IF c.leaf THEN RedZone(c.abi) ELSE 0,
   D |-> {}, dflags |-> c.flags, cs |-> CallerSaved(c.abi),
   may |-> IF c.pcs THEN {} ELSE CallerSaved(c.abi), callsout |-> TRUE,
   adjknown |-> adjknown, adj |-> adj, alignreq |-> FALSE,
   \* the promise about alignment at the call: the patch asked for an aligned
   \* stack (and the ABI alignment serves the convention), or the insertion
   \* point was aligned and the displacement of the prologue is known
   aligndom |-> IF c.align /\ IsX86(c.abi) THEN AbiStackAlign(c.abi) % conv.align = 0
                ELSE (1024 + a) % conv.align = 0 /\ adjknown,
   conv |-> conv, exp |-> [i \in 1..Len(c.args) |-> ExpTok(c.abi, c.args[i])],
   nstack |-> NStack(c), target |-> "callee_fn"]

LegitRefusalC17(c, exc) ==
  \/ exc = "NotImplementedError" /\ c.abi = "mips32"
  \/ exc = "ValueError" /\ c.abi = "arm64" /\ c.custom /\ (c.cshadow # 0 \/ c.calign # 16)

\* (FX-C17-1, ARM64 integers in [-0xFFFF, -1], is fixed and excuses nothing)
\* KF-C17-2 (F4): x86-64, a stack-passed integer that is not a sign-extended imm32
KfX64Push(c) ==
  IsX64(c.abi) /\ \E i \in (NRegs(c) + 1)..Len(c.args) :
                     c.args[i].k = "int" /\ ~SImm32(c.args[i].b)
\* KF-C17-3: x86, a symbol argument is passed as the word stored at the symbol
\* (`mov reg, sym[rip]' / `push sym' are loads) instead of its address
KfX86SymLoad(P, i, tok) == IsX86(P.abi) /\ P.exp[i].k = "addr" /\ tok = ContentsTok(P.exp[i].s)

\* argument i as the callee sees it in snapshot s
SeenArg(P, s, i) ==
  IF i <= NRegArgs(P) THEN SnapReg(s, P.conv.regs[i])
  ELSE LET A == StackArgAddr(P, s, i - NRegArgs(P))
       IN  IF A \in DOMAIN s.mem THEN s.mem[A] ELSE UnknownTok(A)
ArgOKModuloSymLoad(P, s, i) == SeenArg(P, s, i) = P.exp[i] \/ KfX86SymLoad(P, i, SeenArg(P, s, i))
ArgsOKModuloSymLoad(P, s) == \A i \in DOMAIN P.exp : ArgOKModuloSymLoad(P, s, i)

(***************************************************************************)
(* Configuration space.                                                    *)
(***************************************************************************)
CallAbis == GenAbis \ {"mips32"}
ArgLists(abi) ==
  {RotList(abi, n, o) : n \in ArgCounts,
                        o \in {x \in 0..(Len(RotKinds(abi)) - 1) : x % RotStep = 0}}
  \cup UNION {{SingleList(abi, n, SingleKinds(abi)[k], p) :
                   k \in DOMAIN SingleKinds(abi),
                   p \in {q \in {1, Len(DefaultConv(abi).regs), Len(DefaultConv(abi).regs) + 1, n} :
                            q >= 1 /\ q <= n}}
                : n \in SingleCounts}

\* calling conventions: the default and custom ones
CustomRegs(abi) ==
  CASE IsX64(abi) -> <<"rdi", "rbx", "rsi", "r10", "rdx", "rcx", "r8", "r9">>
    [] abi = "ia32pe" -> <<"ecx", "edx">>
    [] OTHER -> <<"x1", "x0", "x2", "x3", "x4", "x19", "x6", "x7">>
Conv(custom, rg, al, sh, caller) ==
  [custom |-> custom, cregs |-> rg, calign |-> al, cshadow |-> sh, ccaller |-> caller]
Convs(abi) ==
  {Conv(FALSE, <<>>, 16, 0, TRUE)}
  \cup (IF abi = "arm64"
        THEN {Conv(TRUE, SubSeq(CustomRegs(abi), 1, 2), 16, 0, TRUE),
              Conv(TRUE, CustomRegs(abi), 16, 0, TRUE)}
             \cup (IF Wide THEN {Conv(TRUE, <<>>, 16, 0, TRUE), Conv(TRUE, <<"x0">>, 16, 32, TRUE),
                                 Conv(TRUE, <<"x0">>, 8, 0, TRUE)} ELSE {})
        ELSE {Conv(TRUE, SubSeq(CustomRegs(abi), 1, 2), 16, 0, FALSE),
              Conv(TRUE, CustomRegs(abi), 32, 32, TRUE),
              Conv(TRUE, <<>>, 8, 0, TRUE)}
             \cup (IF Wide THEN {Conv(TRUE, SubSeq(CustomRegs(abi), 1, 1), 4, 32, FALSE),
                                 Conv(TRUE, <<>>, 16, 32, TRUE),
                                 Conv(TRUE, SubSeq(CustomRegs(abi), 1, 2), 8, 0, TRUE)} ELSE {}))
\* constraint overrides <<dflt, flags, align, pcs, scratch, leaf>>
Cons(abi) ==
  LET al == IsX86(abi) IN
  {<<TRUE, TRUE, al, TRUE, 0, TRUE>>, <<TRUE, TRUE, al, TRUE, 0, FALSE>>,
   <<FALSE, FALSE, FALSE, FALSE, 0, FALSE>>, <<FALSE, TRUE, FALSE, TRUE, 1, TRUE>>,
   <<FALSE, FALSE, TRUE, FALSE, 2, FALSE>>, <<FALSE, TRUE, FALSE, FALSE, 0, TRUE>>,
   <<FALSE, FALSE, FALSE, TRUE, 0, FALSE>>}
  \cup (IF Wide THEN {<<FALSE, TRUE, FALSE, TRUE, 0, FALSE>>, <<FALSE, FALSE, FALSE, FALSE, 1, TRUE>>,
                      <<FALSE, TRUE, TRUE, TRUE, 3, TRUE>>, <<FALSE, FALSE, FALSE, TRUE, 2, TRUE>>,
                      <<FALSE, TRUE, FALSE, FALSE, 3, FALSE>>} ELSE {})

\* mode: "direct" = get_asm is called once per site on ONE CallPatch object;
\*       "rewrite" = the ONE object is inserted at every site by a real
\*       RewritingContext (insert_at ... apply)
MkCall(abi, args, cv, k) ==
  [kind |-> "c17", abi |-> abi, args |-> args, sites |-> DefaultSites, mode |-> "direct",
   custom |-> cv.custom, cregs |-> cv.cregs,
   calign |-> cv.calign, cshadow |-> cv.cshadow, ccaller |-> cv.ccaller,
   dflt |-> k[1], flags |-> k[2], align |-> k[3], pcs |-> k[4], scratch |-> k[5],
   leaf |-> k[6], clob |-> <<>>, reads |-> <<>>]

\* stage 1 (Init): ABI x argument list;  stage 2 (CLoad): convention x constraints x alignment
CallBase == UNION {{MkCall(abi, args, Conv(FALSE, <<>>, 16, 0, TRUE),
                           <<TRUE, TRUE, IsX86(abi), TRUE, 0, TRUE>>) : args \in ArgLists(abi)}
                   : abi \in CallAbis}
          \cup (IF "mips32" \in GenAbis
                THEN {MkCall("mips32", <<>>, Conv(FALSE, <<>>, 16, 0, TRUE),
                             <<TRUE, TRUE, FALSE, TRUE, 0, TRUE>>)} ELSE {})
          \cup UNION {{[MkCall(abi, args, Conv(FALSE, <<>>, 16, 0, TRUE),
                               <<TRUE, TRUE, IsX86(abi), TRUE, 0, TRUE>>)
                          EXCEPT !.sites = ss, !.mode = md] :
                         args \in HistLists(abi), ss \in SiteSeqs(abi), md \in {"direct", "rewrite"}}
                       : abi \in CallAbis}
IsHist(c) == Len(c.sites) > 1
\* conventions / constraint overrides of the history cases (possibly-leaf
\* only: blocks outside functions are treated as leaf code by the rewriter)
HConvs(abi) == {Conv(FALSE, <<>>, 16, 0, TRUE),
                IF abi = "arm64" THEN Conv(TRUE, SubSeq(CustomRegs(abi), 1, 2), 16, 0, TRUE)
                ELSE Conv(TRUE, SubSeq(CustomRegs(abi), 1, 2), 16, 0, FALSE)}
HCons(abi) == {<<TRUE, TRUE, IsX86(abi), TRUE, 0, TRUE>>, <<FALSE, TRUE, FALSE, TRUE, 1, TRUE>>}

CProgram(p) == IF p.exc # "" THEN <<>>
               ELSE p.pro \o <<E0("bodyentry")>> \o p.body \o <<E0("bodyexit")>> \o p.epi \o <<E0("end")>>

CInit ==
  /\ cfg \in CallBase
  /\ pred = NoPred
  /\ prog = <<>>
  /\ pc = 0
  /\ MInit(ParamsC17(At(cfg, 1), 0, TRUE, 0))

CLoad ==
  /\ pc = 0
  /\ \E cv \in (IF cfg.abi = "mips32" THEN {Conv(FALSE, <<>>, 16, 0, TRUE)}
                 ELSE IF IsHist(cfg) THEN HConvs(cfg.abi) ELSE Convs(cfg.abi)),
        k \in (IF cfg.abi = "mips32" THEN {<<TRUE, TRUE, FALSE, TRUE, 0, TRUE>>}
               ELSE IF IsHist(cfg) THEN HCons(cfg.abi) ELSE Cons(cfg.abi)),
        s \in DOMAIN cfg.sites :
        \* (without align_stack only the aligned start is in the domain of the
        \* alignment clause and everything else is translation invariant)
        \E a \in RelevantAligns(cfg.abi, k[3]) :
        \E c \in {[MkCall(cfg.abi, cfg.args, cv, k) EXCEPT !.sites = cfg.sites, !.mode = cfg.mode]} :
        \E r \in {At(c, s)} :                 \* Level B is stateless: site s alone
        \E p \in {CallPredict(r)} :
            /\ cfg' = c
            /\ pred' = [exc |-> p.exc, scratch |-> p.scratch, site |-> s]
            /\ prog' = CProgram(p)
            /\ pc' = 1
            /\ MLoad(ParamsC17(r, a, p.adjknown, p.adj))
            /\ (Emit /\ s = 1 /\ \A b \in RelevantAligns(c.abi, c.align) : a <= b)
                 => PrintT("CASE " \o ToJson(c))

CNext == CLoad \/ Step
CSpec == CInit /\ [][CNext]_vars

(***************************************************************************)
(* Invariants = the property.                                              *)
(***************************************************************************)
CInv_TypeOK == MTypeOK
CInv_Refusal ==
  (pc > 0 /\ pred.exc # "") =>
     \/ LegitRefusalC17(cfg, pred.exc)
     \/ pred.exc = "AsmSyntaxError" /\ Ex(KfX64Push(At(cfg, pred.site)))
CInv_ArgsAtCall ==
  \A k \in DOMAIN aux.calls :
     IF Strict THEN ArgRegsOK(par, aux.calls[k]) /\ StackArgsOK(par, aux.calls[k])
     ELSE ArgsOKModuloSymLoad(par, aux.calls[k])
CInv_ShadowReserved == \A k \in DOMAIN aux.calls : ShadowReserved(par, St, aux.calls[k])
CInv_AlignedAtCall == \A k \in DOMAIN aux.calls : par.aligndom => AlignedAtCall(par, aux.calls[k])
CInv_OneCall == OneCall(par, St)
CInv_BodyStackNeutral == BodyStackNeutral(par, St)
CInv_SpRestored == SpRestored(par, St)
CInv_NoWriteAtOrAboveOriginalSp == NoWriteAtOrAboveOriginalSp(par, St)
CInv_NoRedZoneWriteIfLeaf == NoRedZoneWriteIfLeaf(par, St)
CInv_ReadsOnlyOwnSlots == ReadsOnlyOwnSlots(par, St)
CInv_SpAlignedOnAccess == SpAlignedOnAccess(par, St)
CInv_NoCollateral == NoCollateral(par, St)
CInv_FlagsRestoredIfDeclared == FlagsRestoredIfDeclared(par, St)
CInv_ReportedAdjustment == ReportedAdjustment(par, St)
CInv_Progress == (pc > Len(prog) /\ pc > 0 /\ pred.exc = "") => phase = "done"
=============================================================================
