SPECIFICATION Spec
CONSTANTS
  MaxSize = 2
  MaxBlocks = 3
  Inits = "all"
  KindMode = "two"
  AlignVals = {2, 4, 8}
  MaxAligned = 3
  ItemMode = "none"
  MaxItems = 0
  Addrs = {"none"}
  Grows = {1}
  Lates = FALSE
  AddAligns = {}
  OnlyTiled = FALSE
  NopKinds = {"1", "4"}
  VariantSet = "align"
  Rotate = 1
  Emit = TRUE
INVARIANT Inv
CHECK_DEADLOCK FALSE
