----------------------------- MODULE TraceModify -----------------------------
(***************************************************************************)
(* Level-B binding: every line of TRACE_FILE is ONE execution of a         *)
(* primitive of gtirb_rewriting._modify (split_block / join_blocks /       *)
(* remove_block) inside a real rewrite, recorded by the entry and exit     *)
(* hooks as the unit-granular IR right before and right after it           *)
(* (harness/g1/levelb.py).  The trace spec applies the TLA+ model of the   *)
(* primitive (Modify.tla) to the observed pre-state and compares the       *)
(* result with the observed post-state, exactly (block order, block sizes, *)
(* symbol referents, edges, function membership, entries; fresh proxies    *)
(* are compared modulo identity).  A mismatch is DRIFT between model and   *)
(* code - it keeps the model honest; it is never a property verdict.       *)
(* Lines with op "insert" / "delete" are whole executions of edit.insert   *)
(* and edit.delete (hooks insert_begin/_end, delete_begin/_end): there the *)
(* model's composition of the primitives, its stitching of the patch's     *)
(* blocks, edges and symbols and its clean-up loop are compared with the   *)
(* code, modulo block identity (blocks are named by their position).       *)
(***************************************************************************)
EXTENDS Sequences, SequencesExt, Integers, FiniteSets, Functions, Json, IOUtils, TLC, TLCExt
M == INSTANCE Modify

Traces == ndJsonDeserialize(IOEnv.TRACE_FILE)
VARIABLE tid

FreshBase == 1000000
Node(n) == <<n[1], n[2]>>
IrOf(s, next) ==
  LET ids == {s.order[i] : i \in DOMAIN s.order}
      unitsOf(id) == LET c == SelectSeq(s.units, LAMBDA u : u[1] = id) IN
                     IF c = <<>> THEN <<>> ELSE [j \in 1..Len(c[1][2]) |-> [n |-> c[1][2][j][1], k |-> c[1][2][j][2]]]
      kindOf(id) == LET c == SelectSeq(s.kind, LAMBDA u : u[1] = id) IN c[1][2]
      fnOf(id) == LET c == SelectSeq(s.fn, LAMBDA u : u[1] = id) IN IF c = <<>> THEN "" ELSE c[1][2]
      names == {s.sym[i][1] : i \in DOMAIN s.sym}
      symOf(nm) == LET c == SelectSeq(s.sym, LAMBDA u : u[1] = nm) IN [ref |-> Node(c[1][2]), e |-> c[1][3], base |-> nm]
      allIds == ids \cup {next}
  IN  [order |-> s.order,
       units |-> [id \in allIds |-> IF id \in ids THEN unitsOf(id) ELSE <<>>],
       kind |-> [id \in allIds |-> IF id \in ids THEN kindOf(id) ELSE "code"],
       sym |-> [nm \in names |-> symOf(nm)],
       cfg |-> {M!E(Node(s.cfg[i][1]), Node(s.cfg[i][2]), s.cfg[i][3], s.cfg[i][4], s.cfg[i][5]) : i \in DOMAIN s.cfg},
       fn |-> [id \in allIds |-> IF id \in ids THEN fnOf(id) ELSE ""],
       ent |-> {s.ent[i] : i \in DOMAIN s.ent},
       next |-> next, nextp |-> FreshBase]

\* proxies known before the primitive ran
KnownProxies(s) ==
  {s.cfg[i][1][2] : i \in {j \in DOMAIN s.cfg : s.cfg[j][1][1] = "p"}}
  \cup {s.cfg[i][2][2] : i \in {j \in DOMAIN s.cfg : s.cfg[j][2][1] = "p"}}
  \cup {s.sym[i][2][2] : i \in {j \in DOMAIN s.sym : s.sym[j][2][1] = "p"}}
Anon(known, n) == IF n[1] = "p" /\ n[2] \notin known THEN <<"p", 0>> ELSE n

Norm(ir, known) ==
  LET ord == ir.order
      ids == {ord[i] : i \in DOMAIN ord}
  IN  [order |-> ord,
       sizes |-> [i \in 1..Len(ord) |-> [j \in 1..Len(ir.units[ord[i]]) |-> ir.units[ord[i]][j].n]],
       kind |-> [i \in 1..Len(ord) |-> ir.kind[ord[i]]],
       sym |-> {<<nm, Anon(known, ir.sym[nm].ref), ir.sym[nm].e>> : nm \in DOMAIN ir.sym},
       cfg |-> {<<Anon(known, e.s), Anon(known, e.t), e.ty, e.c, e.d>> :
                  e \in {x \in ir.cfg : (x.s[1] = "b" => x.s[2] \in ids) /\ (x.t[1] = "b" => x.t[2] \in ids)}},
       fn |-> {<<id, ir.fn[id]>> : id \in {x \in ids : ir.fn[x] # ""}},
       ent |-> {id \in ir.ent : id \in ids /\ ir.fn[id] # ""}]

\* the assembled patch handed to insert(), as the model's `code` record
CodeOf(c) ==
  LET ids == {c.blocks[i] : i \in DOMAIN c.blocks}
      unitsOf(id) == LET x == SelectSeq(c.units, LAMBDA u : u[1] = id) IN
                     IF x = <<>> THEN <<>> ELSE [j \in 1..Len(x[1][2]) |-> [n |-> x[1][2][j][1], k |-> x[1][2][j][2]]]
      kindOf(id) == LET x == SelectSeq(c.kind, LAMBDA u : u[1] = id) IN x[1][2]
      names == {c.syms[i][1] : i \in DOMAIN c.syms}
      symOf(nm) == LET x == SelectSeq(c.syms, LAMBDA u : u[1] = nm) IN [ref |-> Node(x[1][2]), e |-> x[1][3], base |-> nm]
  IN  [blocks |-> c.blocks,
       units |-> [id \in ids |-> unitsOf(id)],
       kind |-> [id \in ids |-> kindOf(id)],
       cfg |-> {M!E(Node(c.cfg[i][1]), Node(c.cfg[i][2]), c.cfg[i][3], c.cfg[i][4], c.cfg[i][5]) : i \in DOMAIN c.cfg},
       syms |-> [nm \in names |-> symOf(nm)],
       nproxies |-> 0]

\* comparison modulo block identity: a block is named by its position
NormPos(ir, known, last) ==
  LET ord == ir.order
      ids == {ord[i] : i \in DOMAIN ord}
      rk == [id \in ids |-> CHOOSE i \in DOMAIN ord : ord[i] = id]
      nn(n) == IF n[1] = "b" THEN (IF n[2] \in ids THEN <<"b", rk[n[2]]>> ELSE <<"b", 0>>) ELSE Anon(known, n)
  IN  [order |-> Len(ord),
       sizes |-> [i \in 1..Len(ord) |-> [j \in 1..Len(ir.units[ord[i]]) |-> ir.units[ord[i]][j].n]],
       kind |-> [i \in 1..Len(ord) |-> ir.kind[ord[i]]],
       sym |-> {<<nm, nn(ir.sym[nm].ref), ir.sym[nm].e>> : nm \in DOMAIN ir.sym},
       cfg |-> {<<nn(e.s), nn(e.t), e.ty, e.c, e.d>> :
                  e \in {x \in ir.cfg : (x.s[1] = "b" => x.s[2] \in ids) /\ (x.t[1] = "b" => x.t[2] \in ids)}},
       fn |-> {<<rk[id], ir.fn[id]>> : id \in {x \in ids : ir.fn[x] # ""}},
       ent |-> {rk[id] : id \in {x \in ir.ent : x \in ids /\ ir.fn[x] # ""}},
       last |-> IF last \in ids THEN rk[last] ELSE 0]

UnitIndexAt(ir, id, off) ==
  LET us == ir.units[id]
      pre[k \in 0..Len(us)] == IF k = 0 THEN 0 ELSE pre[k - 1] + us[k].n
      c == {k \in 0..Len(us) : pre[k] = off}
  IN  IF c = {} THEN 0 - 1 ELSE CHOOSE k \in c : TRUE

Predicted(t) ==
  LET pre == IrOf(t.pre, IF t.op = "split_block" THEN t.args.new ELSE 500000)
  IN  CASE t.op = "split_block" ->
             LET k == UnitIndexAt(pre, t.args.b, t.args.off)
             IN  IF k < 0 THEN [ir |-> pre, ok |-> FALSE, removed |-> TRUE]
                 ELSE [ir |-> M!Split(pre, t.args.b, k).ir, ok |-> TRUE, removed |-> TRUE]
        [] t.op = "join_blocks" ->
             \* join_blocks itself has no precondition beyond adjacency: insert() joins the
             \* patch's first block into its host unconditionally; Joinable guards the clean-up only
             [ir |-> M!Join(pre, t.args.b, t.args.b2), ok |-> TRUE, removed |-> TRUE]
        [] t.op = "delete" ->
             LET k == UnitIndexAt(pre, t.args.b, t.args.off)
                 k2 == UnitIndexAt(pre, t.args.b, t.args.off + t.args.len)
             IN  IF k < 0 \/ k2 < 0 THEN [ir |-> pre, ok |-> FALSE, removed |-> TRUE, last |-> 0]
                 ELSE LET r == M!Delete(pre, t.args.b, k, k2 - k, t.args.proxy)
                      IN  [ir |-> r.ir, ok |-> r.assertOk, removed |-> TRUE, last |-> r.last]
        [] t.op = "insert" ->
             LET k == UnitIndexAt(pre, t.args.b, t.args.off)
                 k2 == UnitIndexAt(pre, t.args.b, t.args.off + t.args.repl)
             IN  IF k < 0 \/ k2 < 0 THEN [ir |-> pre, ok |-> FALSE, removed |-> TRUE, last |-> 0]
                 ELSE LET r == M!Insert(pre, t.args.b, k, k2 - k, CodeOf(t.args.code))
                      IN  [ir |-> r.ir, ok |-> r.assertOk, removed |-> TRUE, last |-> r.last]
        [] t.op = "remove_block" ->
             LET r == M!RemoveBlk(pre, t.args.b, t.args.proxy)
             IN  [ir |-> r.ir, ok |-> TRUE, removed |-> r.removed]

DiffFields(a, b) == {f \in DOMAIN a : a[f] # b[f]}
Composite(t) == t.op \in {"insert", "delete"}

Verdict(t) ==
  LET known == KnownProxies(t.pre)
      p == Predicted(t)
      exp == IF Composite(t) THEN NormPos(p.ir, known, p.last) ELSE Norm(p.ir, known)
      obs == IF Composite(t) THEN NormPos(IrOf(t.post, 0), known, t.args.last) ELSE Norm(IrOf(t.post, 0), known)
      same == p.ok /\ exp = obs /\ (t.op = "remove_block" => p.removed = t.args.removed)
  IN  [id |-> t.id, op |-> t.op, drift |-> ~same,
       fields |-> IF same THEN {} ELSE DiffFields(exp, obs),
       detail |-> IF same THEN <<>>
                  ELSE <<[f \in DiffFields(exp, obs) |-> [exp |-> exp[f], obs |-> obs[f]]]>>]

Init == tid = 1
Next == /\ tid <= Len(Traces)
        /\ PrintT("VERDICT " \o ToJson(Verdict(Traces[tid])))
        /\ tid' = tid + 1
AllConsumed == TLCGet("stats").diameter - 1 = Len(Traces)
=============================================================================
