-------------------------------- MODULE Asm --------------------------------
(***************************************************************************)
(* The streaming assembler of gtirb-rewriting (assembler/assembler.py) as  *)
(* a state machine over TOKENS, and the properties C12 / C13 over it.      *)
(*                                                                         *)
(*  Part 1  tokens and vocabularies                                        *)
(*  Part 2  LEVEL A: the property clauses C12_* / C13_*, written over a    *)
(*          VIEW  V = [toks, P, R, exc]  (token sequence, options, result  *)
(*          in the projection format, exception name).  The same operators *)
(*          judge the model's results (invariants below) and the results   *)
(*          of the real Assembler (TraceAsm.tla).  They are declarative:   *)
(*          positions are sums of token sizes, block boundaries / edges /  *)
(*          symbols are stated per token, nothing is executed.             *)
(*  Part 3  LEVEL B: the state machine.  `st` mirrors assembler._State;    *)
(*          one operator per streamer callback (DoLabel = emit_label,      *)
(*          DoInsn = emit_instruction, DoBytes = emit_bytes/emit_int_value,*)
(*          DoValue = emit_value_impl, DoEncoded = _emit_value_with_       *)
(*          encoding, DoAlign = _emit_alignment, ChangeSection, CFI ...),  *)
(*          PreCreate = the _SymbolCreator pass, Finalize = the three      *)
(*          passes of Assembler.finalize.  Defects of the code are         *)
(*          mirrored (Level B follows the code, Level A the property).     *)
(*  Part 4  behaviour: Assemble(chunk) ; Emit* ; EndChunk ; ... ; Finalize *)
(*          and the invariants = Level A clauses on the model's result,    *)
(*          plus C13_Chunking (chunked emission = whole emission).         *)
(***************************************************************************)
EXTENDS Sequences, SequencesExt, Naturals, Integers, FiniteSets, FiniteSetsExt, Functions, Folds, Json, TLC, TLCExt

CONSTANTS VocabName,   \* name of the token vocabulary (VocabOf)
          MaxLen,      \* total number of tokens
          MaxChunks,   \* number of assemble() calls
          TUs,         \* subset of BOOLEAN: trivially_unreachable
          AUs,         \* subset of BOOLEAN: allow_undef_symbols
          ICFIs,       \* subset of BOOLEAN: implicit_cfi_procedure
          MSs,         \* set of module symbol sets, each a subset of {"a","b"}
          Emit         \* print cases

VARIABLES par,    \* options of this Assembler instance
          prog,   \* chunks handed to assemble() so far (sequence of token sequences)
          inp,    \* rest of the chunk being streamed
          ph,     \* "idle" | "stream" | "done"
          st,     \* _State
          fin     \* result of finalize (a state record) once ph = "done"
vars == <<par, prog, inp, ph, st, fin>>

SumSeq(s) == FoldLeft(LAMBDA a, b : a + b, 0, s)
Max2(a, b) == IF a > b THEN a ELSE b

(***************************************************************************)
(* Part 1.  Tokens                                                         *)
(*   k  kind      l  symbol / section name     a  integer argument         *)
(*   n  size in bytes (instructions: nominal here, observed in traces)     *)
(*   ch chunk number (1-based) - added when a program is flattened;        *)
(*   vc the chunk number that governs label visibility (1 = one text)      *)
(***************************************************************************)
T(k, l, a, n) == [k |-> k, l |-> l, a |-> a, n |-> n]

NameU == {"x", "y", "g", "a", "b", "u"}   \* x,y temporary (.Lx); g global label;
TempNames == {"x", "y"}                    \* a,b possibly module symbols; u never defined
ModNames == {"a", "b"}                     \* a: code block of the module, b: proxy of the module
SecNames == {"text", "data"}

\* ordinary instructions with one symbolic operand, by the form of the operand:
\*   lea    address of L+K        (x86 lea, ARM64 adr, MIPS lui %hi)
\*   ldlit  PC-relative literal load of L+K (ARM64 ldr x0, L+K; MIPS lw %lo(L+K)(r))
\*   pg     page / high part      (ARM64 adrp L+K; MIPS lui %hi(L+K))
\*   lo     low part              (ARM64 add :lo12:L+K; MIPS addiu %lo(L+K))
\*   got    GOT page / GOT entry  (ARM64 adrp :got:L+K; MIPS lw %got(L+K)(gp))
\*   gotlo  GOT low part / call   (ARM64 ldr [x, :got_lo12:L+K]; MIPS lw %call16(L+K)(gp))
\* The addend and the modifier change no byte of the encoding: they live only
\* in the symbolic expression.
RefOpKinds == {"lea", "ldlit", "pg", "lo", "got", "gotlo"}
InsnKinds == {"op", "jmp", "jcc", "call", "ret", "ijmp", "icall"} \cup RefOpKinds
Terminators == {"jmp", "jcc", "call", "ret", "ijmp", "icall"}
DataKinds == {"byte", "quad", "zero", "string", "ascii", "uleb"}
EncodedKinds == {"string", "ascii", "uleb"}
CfiKinds == {"cfistart", "cfiend", "cfidef"}
DirectKinds == {"jmp", "jcc", "call"}
\* control can run off the end of a unit of this kind
Falls(k) == k \in {"op", "jcc", "call", "icall", "byte", "quad", "zero"} \cup RefOpKinds
HasRef(t) == t.k \in {"jmp", "jcc", "call", "quad"} \cup RefOpKinds \/ (t.k = "uleb" /\ t.l # "")
ClassOf(k) == IF k \in RefOpKinds THEN "op" ELSE k
\* attribute set of the operand form on each ISA (sorted names)
AttrsOf(isa, k) ==
  IF isa = "arm64"
  THEN CASE k = "lo" -> <<"LO12">> [] k = "got" -> <<"GOT">> [] k = "gotlo" -> <<"GOT", "LO12">> [] OTHER -> <<>>
  ELSE IF isa = "mips32"
  THEN CASE k \in {"lea", "pg"} -> <<"HI">> [] k \in {"lo", "ldlit"} -> <<"LO">>
         [] k \in {"got", "gotlo"} -> <<"GOT">> [] OTHER -> <<>>
  ELSE <<>>

Op == T("op", "", 0, 1)
Op5 == T("op", "", 1, 5)
Jmp(l) == T("jmp", l, 0, 2)
JmpOff(l) == T("jmp", l, 4, 2)
Jcc(l) == T("jcc", l, 0, 2)
Call(l) == T("call", l, 0, 5)
Ret == T("ret", "", 0, 1)
IJmp == T("ijmp", "", 0, 2)
ICall == T("icall", "", 0, 2)
Lea(l, a) == T("lea", l, a, 7)
RefOp(k, l, a) == T(k, l, a, 4)
JccOff(l) == T("jcc", l, 4, 2)
CallOff(l) == T("call", l, 8, 5)
Label(l) == T("label", l, 0, 0)
Byte(n) == T("byte", "", n, n)
Quad(l, a) == T("quad", l, a, 8)
Str == T("string", "", 0, 3)
Ascii == T("ascii", "", 0, 2)
Ascii0 == T("ascii", "", 0, 0)
\* string directives whose only output is a NUL: .string "" / .asciz "" / .ascii "\0"
StrEmpty == T("string", "", 0, 1)
AscizEmpty == T("string", "", 1, 1)
AsciiNul == T("ascii", "", 1, 1)
IsNul(t) == (t.k = "string" /\ t.n = 1) \/ (t.k = "ascii" /\ t.n = 1 /\ t.a = 1)
\* name = value / .set name, value  (a constant assignment defines the name;
\* values are multiples of 4 so that they are encodable branch offsets everywhere)
Assign(l, v) == T("assign", l, v, 0)
DefKinds == {"label", "assign"}
Zero(n) == T("zero", "", n, n)
Align(n) == T("align", "", n, 0)
Uleb(l) == T("uleb", l, 0, 1)
Sec(l) == T("sec", l, 0, 0)
\* symbol-attribute directives (ELF): a = 0 .weak L | 1 .globl L | 2 .hidden L | 3 .type L, @object.
\* The directive NAMES a symbol (it resolves like any other mention: an unknown name is refused
\* unless undefined symbols are allowed) and records binding / visibility / type for it.
Attr(l, a) == T("attr", l, a, 0)
AttrField(a) == CASE a \in {0, 1} -> "b" [] a = 2 -> "v" [] OTHER -> "t"
AttrValue(a) == CASE a = 0 -> "WEAK" [] a = 1 -> "GLOBAL" [] a = 2 -> "HIDDEN" [] OTHER -> "OBJECT"
NoEsa == [b |-> "LOCAL", v |-> "DEFAULT", t |-> "NOTYPE"]
SetEsa(r, a) == CASE AttrField(a) = "b" -> [r EXCEPT !.b = AttrValue(a)]
                  [] AttrField(a) = "v" -> [r EXCEPT !.v = AttrValue(a)]
                  [] OTHER -> [r EXCEPT !.t = AttrValue(a)]
CfiStart == T("cfistart", "", 0, 0)
CfiEnd == T("cfiend", "", 0, 0)
CfiDef == T("cfidef", "", 16, 0)

VocabOf(v) ==
  CASE v = "cf"    -> <<Op, Jmp("x"), Jcc("x"), Call("a"), Ret, IJmp, ICall, Label("x"), Label("y"),
                        Byte(1), Jmp("y"), Align(4)>>
    [] v = "data"  -> <<Op5, Ret, Jmp("x"), Label("x"), Byte(2), Quad("a", 4), Str, Ascii, Zero(2),
                        Align(4), Align(16), Sec("data"), Sec("text")>>
    [] v = "enc"   -> <<Op, Ret, Jmp("x"), Label("x"), Byte(1), Ascii, Ascii0, Uleb("x"), Uleb(""),
                        Quad("x", 0), Sec("data"), Align(8)>>
    [] v = "sym"   -> <<Op, Label("x"), Label("g"), Label("a"), Jmp("x"), Jcc("g"), Call("a"), Call("b"),
                        Quad("a", 4), Lea("x", 0), Jmp("u"), Quad("b", 0)>>
    [] v = "cfi"   -> <<Op, Ret, Jmp("x"), Label("x"), Byte(1), CfiStart, CfiEnd, CfiDef, Call("a"),
                        Sec("data"), Sec("text")>>
    [] v = "chunk" -> <<Op, Jmp("x"), Label("x"), Byte(1), Ret, Call("a"), Quad("x", 0), Jcc("y"), Label("y")>>
    [] v = "chunk2" -> <<Lea("b", 4), Jmp("x"), Label("x"), Str, Ret, Sec("data"), Align(4), Label("g"), Jmp("g")>>
    \* strings: when does a stand-alone NUL terminate the previous ASCII block
    [] v = "str"   -> <<Ret, Op, Ascii, Str, StrEmpty, AscizEmpty, AsciiNul, Ascii0, Byte(1), Quad("a", 0),
                        Zero(2), Label("x"), Sec("data"), Sec("text"), Align(4)>>
    [] v = "strc"  -> <<Ret, Op, Ascii, StrEmpty, AsciiNul, Byte(1), Label("x"), Sec("data")>>
    \* constant assignments against labels and uses, across chunks
    [] v = "asg"   -> <<Op, Label("x"), Label("g"), Label("a"), Assign("g", 16), Assign("g", 20), Assign("x", 16),
                        Assign("a", 20), Jmp("g"), Jmp("x")>>
    \* operand forms whose addend / modifier is invisible in the bytes (ARM64, MIPS32),
    \* and transfers whose target has an addend (refused)
    [] v = "ops"   -> <<Op, Label("x"), RefOp("ldlit", "a", 8), RefOp("ldlit", "x", 0), RefOp("pg", "a", 8),
                        RefOp("pg", "b", 0), RefOp("lo", "a", 8), RefOp("lo", "x", 4), RefOp("got", "a", 0),
                        RefOp("got", "b", 4), RefOp("gotlo", "a", 0), RefOp("lea", "a", 8),
                        RefOp("ldlit", "b", 4),
                        JmpOff("a"), JccOff("x"), CallOff("b")>>
    \* symbol-attribute directives against labels, module symbols, unknown names and uses
    [] v = "attr"  -> <<Op, Label("g"), Attr("g", 0), Attr("g", 1), Attr("g", 2), Attr("g", 3),
                        Attr("u", 0), Attr("u", 2), Attr("a", 2), Attr("b", 1), Jmp("u"), Jmp("g")>>
    \* x86 operands: address-of forms against labels, module symbols and proxies, next to
    \* transfers (rendered with and without a trailing immediate behind the PC-relative field)
    [] v = "x86ops" -> <<Op, Label("x"), Lea("a", 4), Lea("x", 0), Lea("b", 0), Lea("x", 8), Quad("a", 4),
                         Jmp("x"), Call("a"), Ret>>
    [] v = "mini"  -> <<Op, Jmp("x"), Label("x"), Byte(1), Ret>>
Vocab == VocabOf(VocabName)

\* a program is a sequence of chunks; Flat numbers the tokens with their chunk
Flat(chunks) ==
  FlattenSeq([c \in 1..Len(chunks) |->
      [i \in 1..Len(chunks[c]) |->
         [k |-> chunks[c][i].k, l |-> chunks[c][i].l, a |-> chunks[c][i].a, n |-> chunks[c][i].n,
          ch |-> c, vc |-> c]]])
\* the same program handed over in one piece: every chunk of the real
\* assembler starts in the text section, so the concatenation has a section
\* switch at the former boundaries (ch is kept: positions), but all labels
\* are visible everywhere (vc = 1: visibility)
Whole(toks) == [i \in DOMAIN toks |-> [toks[i] EXCEPT !.vc = 1]]

(***************************************************************************)
(* Options   P = [tu, au, icfi, sfx, ms, plt, mips, rn]                    *)
(*   rn : NameU -> the name as written in the text (identity in the model) *)
(***************************************************************************)
IdNames == [l \in NameU |-> l]
ExpName(P, l) == IF l \in TempNames THEN P.rn[l] \o P.sfx ELSE P.rn[l]

(***************************************************************************)
(* Part 2.  LEVEL A                                                        *)
(*                                                                         *)
(* Result format R (harness/asm/runner.py project_result, and Canon below) *)
(*  R.secs  <<[name, len, blocks : <<[o, n, code, ty, al]>>]>>             *)
(*  R.edges <<[s : node, t : node, ty, c, d]>>                             *)
(*     node = [k : "blk"|"fresh"|"symp"|"mod"|"stale", sec, o, n, nm, id]  *)
(*  R.syms  <<[nm, k : "blk"|"proxy"|"stale", sec, o, n, e]>>              *)
(*  R.sx    <<[sec, o, k : "C"|"A", s1, s2, add, at, sz, m1, l1, m2, l2]>> *)
(*  R.nprox number of proxies of the result                                *)
(*  R.esa   <<[nm, b, v, t]>> ELF symbol attributes recorded by directives *)
(***************************************************************************)
\* position of every token: section and offset = sum of the sizes before it
\* in that section; a new chunk starts in the text section
TokPos(toks) ==
  LET f[i \in 0..Len(toks)] ==
        IF i = 0 THEN [cur |-> "text", ch |-> 1, len |-> [s \in SecNames |-> 0], out |-> <<>>]
        ELSE LET p == f[i - 1]
                 t == toks[i]
                 cur0 == IF t.ch # p.ch THEN "text" ELSE p.cur
                 cur1 == IF t.k = "sec" THEN t.l ELSE cur0
             IN  [cur |-> cur1, ch |-> t.ch,
                  len |-> [p.len EXCEPT ![cur1] = @ + t.n],
                  out |-> Append(p.out, [sec |-> cur1, o |-> p.len[cur1]])]
  IN  f[Len(toks)]

RSec(R, s) == SelectSeq(R.secs, LAMBDA x : x.name = s)
RBlocks(R, s) == LET c == RSec(R, s) IN IF c = <<>> THEN <<>> ELSE c[1].blocks
RLen(R, s) == LET c == RSec(R, s) IN IF c = <<>> THEN 0 ELSE c[1].len
NormNode(nd) == IF nd.k = "fresh" THEN [nd EXCEPT !.id = 0] ELSE nd
Edges(R) == Range(R.edges)

\* everything the clauses need, computed once per view
View(toks, P, R, exc) ==
  LET tp == TokPos(toks)
  IN  [toks |-> toks, P |-> P, R |-> R, exc |-> exc, pos |-> tp.out, len |-> tp.len,
       used |-> {"text"} \cup {tp.out[i].sec : i \in DOMAIN toks},
       \* (computed once: TLC caches values, not operator applications)
       E |-> Range(R.edges),
       B |-> [s \in SecNames \cup {""} |-> RBlocks(R, s)]]

\* blocks of section s in view V (s = "" : none)
VB(V, s) == IF s \in DOMAIN V.B THEN V.B[s] ELSE <<>>
\* the node description of the block of section s starting at o
BlkNodeV(V, s, o) ==
  LET c == SelectSeq(VB(V, s), LAMBDA b : b.o = o)
  IN  [k |-> "blk", sec |-> s, o |-> o, n |-> IF c = <<>> THEN 0 - 1 ELSE Last(c).n, nm |-> "", id |-> 0]

Idx(V) == DOMAIN V.toks
Sized(V, i) == V.toks[i].n > 0
End(V, i) == V.pos[i].o + V.toks[i].n
LabelIdx(V, l) == {i \in Idx(V) : V.toks[i].k = "label" /\ V.toks[i].l = l}
\* tokens that define the name l (labels and constant assignments)
DefIdx(V, l) == {i \in Idx(V) : V.toks[i].k \in DefKinds /\ V.toks[i].l = l}
AssignIdx(V, l) == {i \in Idx(V) : V.toks[i].k = "assign" /\ V.toks[i].l = l}
\* kind of the last sized token of section s ending at p / first starting at p
PrevKind(V, s, p) ==
  LET c == {i \in Idx(V) : V.pos[i].sec = s /\ Sized(V, i) /\ End(V, i) = p}
  IN  IF c = {} THEN "none" ELSE V.toks[CHOOSE i \in c : TRUE].k
NextKind(V, s, p) ==
  LET c == {i \in Idx(V) : V.pos[i].sec = s /\ Sized(V, i) /\ V.pos[i].o = p}
  IN  IF c = {} THEN "none" ELSE V.toks[CHOOSE i \in c : TRUE].k
\* a label or an alignment request sits at position p of section s
SplitCause(V, s, p) ==
  \E i \in Idx(V) : V.pos[i].sec = s /\ V.pos[i].o = p /\ V.toks[i].k \in {"label", "align"}

---------------------------------------------------------------------------
\* C12_Decode: the decoded classes are the written ones and the sizes add up
C12_Decode(V, dec) ==
  /\ \A i \in Idx(V) : V.toks[i].k \in InsnKinds =>
        /\ dec[i].k = ClassOf(V.toks[i].k)
        /\ dec[i].n = V.toks[i].n /\ dec[i].n > 0
  /\ \A s \in SecNames : RLen(V.R, s) = V.len[s]
  /\ \A j \in DOMAIN V.R.secs : V.R.secs[j].name \in V.used

\* C12_Tiling
TilesSection(sec) ==
  LET bs == sec.blocks
  IN  /\ (bs # <<>> => bs[1].o = 0 /\ Last(bs).o + Last(bs).n = sec.len)
      /\ (bs = <<>> => sec.len = 0)
      /\ \A j \in 1..(Len(bs) - 1) : bs[j].o + bs[j].n = bs[j + 1].o /\ bs[j].n > 0
      /\ \A j \in DOMAIN bs : bs[j].n >= 0
C12_Tiling(V) ==
  /\ \A j \in DOMAIN V.R.secs : TilesSection(V.R.secs[j])
  /\ \A j, q \in DOMAIN V.R.secs : j # q => V.R.secs[j].name # V.R.secs[q].name
  /\ V.R.secs # <<>> /\ V.R.secs[1].name = "text"

\* the observed block that ends with token i
EndingBlocks(V, i) ==
  SelectSeq(VB(V, V.pos[i].sec),
            LAMBDA b : b.code /\ b.o <= V.pos[i].o /\ b.o + b.n = End(V, i))
C12_TerminatorsEndBlocks(V) ==
  \A i \in Idx(V) : V.toks[i].k \in Terminators => Len(EndingBlocks(V, i)) = 1

\* where a direct transfer to the name l must lead
TargetNode(V, l) ==
  LET ls == LabelIdx(V, l)
  IN  IF ls # {} THEN LET i == CHOOSE i \in ls : TRUE IN BlkNodeV(V, V.pos[i].sec, V.pos[i].o)
      ELSE IF l \in V.P.ms THEN [k |-> "mod", sec |-> "", o |-> 0, n |-> 0, nm |-> V.P.rn[l], id |-> 0]
      ELSE [k |-> "symp", sec |-> "", o |-> 0, n |-> 0, nm |-> V.P.rn[l], id |-> 0]
FreshNode == [k |-> "fresh", sec |-> "", o |-> 0, n |-> 0, nm |-> "", id |-> 0]
EL(t, ty, c, d) == [t |-> t, ty |-> ty, c |-> c, d |-> d]
ExpectedOut(V, i) ==
  LET t == V.toks[i]
      nxt == BlkNodeV(V, V.pos[i].sec, End(V, i))
      ft == EL(nxt, "ft", FALSE, TRUE)
  IN  CASE t.k = "jmp"   -> {EL(TargetNode(V, t.l), "branch", FALSE, TRUE)}
        [] t.k = "jcc"   -> {EL(TargetNode(V, t.l), "branch", TRUE, TRUE), ft}
        [] t.k = "call"  -> {EL(TargetNode(V, t.l), "call", FALSE, TRUE), ft}
        [] t.k = "ret"   -> {EL(FreshNode, "ret", FALSE, TRUE)}
        [] t.k = "ijmp"  -> {EL(FreshNode, "branch", FALSE, FALSE)}
        [] t.k = "icall" -> {EL(FreshNode, "call", FALSE, FALSE), ft}
OutOf(V, nd) == {EL(NormNode(e.t), e.ty, e.c, e.d) : e \in {x \in V.E : x.s = nd}}
ObservedOut(V, i) ==
  LET bs == EndingBlocks(V, i)
  IN  IF Len(bs) # 1 THEN {}
      ELSE OutOf(V, [k |-> "blk", sec |-> V.pos[i].sec, o |-> bs[1].o, n |-> bs[1].n, nm |-> "", id |-> 0])
\* every "fresh" proxy is a proxy of the result used by exactly one edge and
\* named by nobody; symbol-backed proxies and fresh ones make up R.nprox
FreshOK(V) ==
  LET fr == SelectSeq(V.R.edges, LAMBDA e : e.t.k = "fresh")
      ids == {fr[j].t.id : j \in DOMAIN fr}
      sp == {V.R.syms[j].nm : j \in {q \in DOMAIN V.R.syms : V.R.syms[q].k = "proxy"}}
  IN  /\ Cardinality(ids) = Len(fr)
      /\ V.R.nprox = Len(fr) + Cardinality(sp)
      /\ \A e \in V.E : e.s.k = "blk" /\ e.t.k # "stale"
C12_EdgeShape(V) ==
  /\ \A i \in Idx(V) : V.toks[i].k \in Terminators => ObservedOut(V, i) = ExpectedOut(V, i)
  /\ FreshOK(V)
  \* nothing but fallthrough leaves a block that does not end in a transfer
  /\ \A e \in V.E : e.ty # "ft" =>
        \E i \in Idx(V) : /\ V.toks[i].k \in Terminators /\ V.pos[i].sec = e.s.sec
                          /\ End(V, i) = e.s.o + e.s.n

\* C12_Fallthrough (part of the CFG shape): fallthrough edges join
\* consecutive code blocks, exactly where control can run from one into the
\* other
FlowsInto(V, s, j) ==      \* into block j of section s from the block before it
  LET bs == VB(V, s)
      p == bs[j].o
      pk == PrevKind(V, s, p)
  IN  /\ j > 1 /\ bs[j - 1].code /\ Falls(pk)
      /\ (pk \in {"jcc", "call", "icall"} \/ SplitCause(V, s, p))
C12_Fallthrough(V) ==
  /\ \A e \in V.E : e.ty = "ft" =>
        /\ e.t.k = "blk" /\ e.t.sec = e.s.sec /\ e.t.o = e.s.o + e.s.n /\ e.s.n > 0
        /\ ~e.c /\ e.d
        /\ PrevKind(V, e.s.sec, e.t.o) \notin {"jmp", "ret", "ijmp"}
        /\ \E j \in DOMAIN VB(V, e.s.sec) :
              /\ VB(V, e.s.sec)[j].o = e.s.o /\ VB(V, e.s.sec)[j].code
        /\ \A j \in DOMAIN VB(V, e.t.sec) :
              (VB(V, e.t.sec)[j].o = e.t.o /\ VB(V, e.t.sec)[j].n = e.t.n)
                  => VB(V, e.t.sec)[j].code
  /\ \A q \in DOMAIN V.R.secs :
        LET s == V.R.secs[q].name
            bs == V.R.secs[q].blocks
        IN  \A j \in 2..Len(bs) :
              (bs[j].code /\ FlowsInto(V, s, j)
                 /\ NextKind(V, s, bs[j].o) \notin EncodedKinds) =>
                \E e \in V.E :
                   /\ e.ty = "ft" /\ e.s.k = "blk" /\ e.s.sec = s /\ e.s.o = bs[j - 1].o
                   /\ e.t.k = "blk" /\ e.t.sec = s /\ e.t.o = bs[j].o /\ e.t.n = bs[j].n

\* C12_Labels
LabelOK(V, i) ==
  LET nm == ExpName(V.P, V.toks[i].l)
      s == V.pos[i].sec
      p == V.pos[i].o
      bs == VB(V, s)
      c == SelectSeq(V.R.syms, LAMBDA y : y.nm = nm)
  IN  /\ Len(c) = 1
      /\ c[1].k = "blk" /\ c[1].sec = s
      /\ IF p < V.len[s]
         THEN c[1].o = p /\ ~c[1].e /\ c[1].n > 0
         ELSE \/ c[1].o = p /\ c[1].n = 0 /\ ~c[1].e
              \/ /\ c[1].e /\ c[1].o + c[1].n = p /\ c[1].n > 0
                 /\ bs # <<>> /\ Last(bs).n > 0
C12_Labels(V) ==
  /\ \A i \in Idx(V) : V.toks[i].k = "label" => LabelOK(V, i)
  /\ \A j \in DOMAIN V.R.syms :
        V.R.syms[j].k # "proxy" =>
           /\ V.R.syms[j].k \in {"blk", "int"}
           /\ \E i \in Idx(V) : /\ V.toks[i].k = (IF V.R.syms[j].k = "blk" THEN "label" ELSE "assign")
                                 /\ ExpName(V.P, V.toks[i].l) = V.R.syms[j].nm

\* C12_DataConversion
HasCfi(V) == V.P.icfi \/ \E i \in Idx(V) : V.toks[i].k \in CfiKinds
BytesOnly(V, s, b) ==
  \A i \in Idx(V) : (V.pos[i].sec = s /\ V.toks[i].k \in InsnKinds) =>
        ~(b.o <= V.pos[i].o /\ V.pos[i].o < b.o + b.n)
TransferTarget(V, s, p) ==
  \E i \in Idx(V) : /\ V.toks[i].k \in DirectKinds
                    /\ \E q \in LabelIdx(V, V.toks[i].l) : V.pos[q].sec = s /\ V.pos[q].o = p
ExpData(V, s, j) ==
  LET b == VB(V, s)[j]
  IN  /\ BytesOnly(V, s, b)
      /\ ~TransferTarget(V, s, b.o)
      /\ ~FlowsInto(V, s, j)
      /\ (s # "text" \/ j # 1 \/ V.P.tu)
C12_DataConversion(V) ==
  \A q \in DOMAIN V.R.secs :
     \A j \in DOMAIN V.R.secs[q].blocks :
        LET b == V.R.secs[q].blocks[j]
        IN  /\ (b.n > 0 => (b.code <=> ~ExpData(V, V.R.secs[q].name, j)))
            /\ (b.n = 0 => b.code)
            /\ (b.ty # "" => ~b.code)

\* C12_Strings: block kinds around string literals.  Every string literal is a
\* block of its own (typed ascii, or string when NUL-terminated); a directive
\* whose only output is a NUL terminates the ASCII literal before it when
\* nothing was emitted or requested in between in that section (no byte, no
\* instruction, no label, no alignment), and is an ASCII literal of its own otherwise.  head[i] = the token
\* that starts the block of string token i (0 for other tokens).
StrHeads(V) ==
  LET f[i \in 0..Len(V.toks)] ==
        IF i = 0 THEN [open |-> [s \in SecNames |-> 0], head |-> <<>>]
        ELSE LET p == f[i - 1]
                 t == V.toks[i]
                 s == V.pos[i].sec
             IN  IF t.k \in {"ascii", "string"} /\ t.n > 0
                 THEN IF IsNul(t) /\ p.open[s] # 0
                      THEN [open |-> [p.open EXCEPT ![s] = 0], head |-> Append(p.head, p.open[s])]
                      ELSE [open |-> [p.open EXCEPT ![s] = IF t.k = "ascii" \/ IsNul(t) THEN i ELSE 0],
                            head |-> Append(p.head, i)]
                 \* (an alignment request in between applies to the NUL: no merge)
                 ELSE IF t.n > 0 \/ t.k \in {"label", "align"}
                 THEN [open |-> [p.open EXCEPT ![s] = 0], head |-> Append(p.head, 0)]
                 ELSE [open |-> p.open, head |-> Append(p.head, 0)]
  IN  f[Len(V.toks)].head
C12_Strings(V) ==
  LET hd == StrHeads(V)
      heads == {i \in Idx(V) : hd[i] = i}
      members(h) == {i \in Idx(V) : hd[i] = h}
      size(h) == SumSeq([i \in Idx(V) |-> IF hd[i] = h THEN V.toks[i].n ELSE 0])
      ty(h) == IF Cardinality(members(h)) > 1 \/ (V.toks[h].k = "string" /\ V.toks[h].n > 1)
               THEN "string" ELSE "ascii"
      ulebs == {i \in Idx(V) : V.toks[i].k = "uleb"}
  IN  /\ \A h \in heads :
            \E q \in DOMAIN VB(V, V.pos[h].sec) :
               LET b == VB(V, V.pos[h].sec)[q]
               IN  b.o = V.pos[h].o /\ b.n = size(h) /\ (~b.code => b.ty = ty(h))
      /\ \A u \in ulebs :
            \E q \in DOMAIN VB(V, V.pos[u].sec) :
               LET b == VB(V, V.pos[u].sec)[q]
               IN  b.o = V.pos[u].o /\ b.n = 1 /\ ~b.code /\ b.ty = "uleb128"
      \* nothing else is typed
      /\ \A q \in DOMAIN V.R.secs : \A j \in DOMAIN V.R.secs[q].blocks :
            V.R.secs[q].blocks[j].ty # "" =>
               \E i \in heads \cup ulebs : /\ V.pos[i].sec = V.R.secs[q].name
                                           /\ V.pos[i].o = V.R.secs[q].blocks[j].o

\* C12_Alignment: a block carries the strictest alignment requested at its
\* position, and nothing else
AlignIdx(V, s, p) == {i \in Idx(V) : V.toks[i].k = "align" /\ V.pos[i].sec = s /\ V.pos[i].o = p}
AlignOK(V, s, b) ==
  LET rq == AlignIdx(V, s, b.o)
  IN  IF rq = {} THEN b.al = 0 ELSE b.al = Max({V.toks[i].a : i \in rq})
C12_Alignment(V) ==
  \A q \in DOMAIN V.R.secs : \A j \in DOMAIN V.R.secs[q].blocks :
     AlignOK(V, V.R.secs[q].name, V.R.secs[q].blocks[j])

\* C12_Operands.  fo/fs: where the independent disassembler places the
\* displacement / immediate fields of the instruction (x86); <<>> = unknown
ExpAttrs(V, t, tgt) ==
  IF V.P.plt /\ t.k \in DirectKinds /\ tgt.k \in {"mod", "symp"} /\ (tgt.k = "symp" \/ t.l = "b")
  THEN <<"PLT">>
  ELSE IF t.k \in RefOpKinds THEN AttrsOf(V.P.isa, t.k) ELSE <<>>
ExpNameOrRaw(V, l) == IF DefIdx(V, l) # {} THEN ExpName(V.P, l) ELSE V.P.rn[l]
OperandOK(V, dec, i) ==
  LET t == V.toks[i]
      s == V.pos[i].sec
      o == V.pos[i].o
      c == SelectSeq(V.R.sx, LAMBDA x : x.sec = s /\ o <= x.o /\ x.o < o + t.n)
  IN  IF ~HasRef(t) THEN c = <<>>
      ELSE /\ Len(c) = 1
           /\ IF t.k = "uleb"
              THEN c[1].k = "A" /\ c[1].s1 = ExpNameOrRaw(V, t.l) /\ c[1].s2 = c[1].s1 /\ c[1].o = o /\ c[1].sz = 1
              ELSE /\ c[1].k = "C" /\ c[1].s1 = ExpNameOrRaw(V, t.l) /\ c[1].add = t.a
                   /\ c[1].at = ExpAttrs(V, t, TargetNode(V, t.l))
                   /\ IF t.k = "quad" THEN c[1].o = o /\ c[1].sz = 8
                      ELSE /\ c[1].sz >= 0 /\ c[1].o + c[1].sz <= o + t.n
                           /\ IF dec[i].fo = <<>> THEN c[1].o = o
                              ELSE \E q \in DOMAIN dec[i].fo :
                                      c[1].o = o + dec[i].fo[q] /\ c[1].sz = dec[i].fs[q]
C12_Operands(V, dec) ==
  /\ \A i \in Idx(V) : Sized(V, i) => OperandOK(V, dec, i)
  \* an expression never straddles two blocks
  /\ \A j \in DOMAIN V.R.sx :
        \E q \in DOMAIN VB(V, V.R.sx[j].sec) :
           LET b == VB(V, V.R.sx[j].sec)[q]
           IN  b.o <= V.R.sx[j].o /\ V.R.sx[j].o + V.R.sx[j].sz <= b.o + b.n
  /\ \A j \in DOMAIN V.R.sx :
        \E i \in Idx(V) : /\ HasRef(V.toks[i]) /\ V.pos[i].sec = V.R.sx[j].sec
                          /\ V.pos[i].o <= V.R.sx[j].o /\ V.R.sx[j].o < End(V, i)

---------------------------------------------------------------------------
\* Refusals (DESIGN appendix B), per chunk visibility of labels:
\* a reference in chunk c sees the labels of chunks <= c (the pre-pass
\* creates the labels of a whole chunk before anything is streamed).
DefinedBy(V, l, c) == \E i \in DefIdx(V, l) : V.toks[i].vc <= c
\* tokens that mention a symbol by name (operands, data words, attribute directives)
RefIdx(V) == {i \in Idx(V) : HasRef(V.toks[i]) \/ V.toks[i].k = "attr"}
Unresolved(V, i) == /\ V.toks[i].l \notin V.P.ms /\ ~DefinedBy(V, V.toks[i].l, V.toks[i].vc)
Conflict(V, i) ==      \* label token i defines an existing name
  LET l == V.toks[i].l
  IN  \/ l \in V.P.ms
      \/ \E j \in DefIdx(V, l) : j < i
      \/ /\ V.P.au
         /\ \E j \in RefIdx(V) : /\ V.toks[j].l = l /\ V.toks[j].vc < V.toks[i].vc /\ Unresolved(V, j)
HasConflict(V) == \E i \in Idx(V) : V.toks[i].k \in DefKinds /\ Conflict(V, i)
HasUndef(V) == ~V.P.au /\ \E i \in RefIdx(V) : Unresolved(V, i)
\* CFI directives are well formed when, chunk by chunk, frames are opened,
\* used and closed in order (with an implicit procedure the frame is open
\* from the start of each chunk and cannot be opened or closed)
CfiWellFormed(V) ==
  LET f[i \in 0..Len(V.toks)] ==
        IF i = 0 THEN [ok |-> TRUE, open |-> V.P.icfi, ch |-> 1]
        ELSE LET p == f[i - 1]
                 t == V.toks[i]
                 nc == t.vc # p.ch
                 okb == p.ok /\ (nc => (V.P.icfi \/ ~p.open))
                 op0 == IF nc THEN V.P.icfi ELSE p.open
             IN  CASE t.k = "cfistart" -> [ok |-> okb /\ ~op0, open |-> TRUE, ch |-> t.vc]
                   [] t.k = "cfiend"   -> [ok |-> okb /\ op0 /\ ~V.P.icfi, open |-> FALSE, ch |-> t.vc]
                   [] t.k = "cfidef"   -> [ok |-> okb /\ op0, open |-> op0, ch |-> t.vc]
                   [] OTHER            -> [ok |-> okb, open |-> op0, ch |-> t.vc]
      e == f[Len(V.toks)]
  IN  e.ok /\ (V.P.icfi \/ ~e.open)
\* a direct transfer to a name that a constant assignment earlier in the same
\* assembled text defines (LLVM folds it into a constant target)
FoldedTarget(V) ==
  \E i \in Idx(V) : /\ V.toks[i].k \in DirectKinds
                    /\ \E j \in AssignIdx(V, V.toks[i].l) : j < i /\ V.toks[j].vc = V.toks[i].vc
HasUnsupported(V) ==
  \E i \in Idx(V) : \/ V.toks[i].k = "uleb"
                    \/ V.toks[i].k \in DirectKinds /\ V.toks[i].a # 0
                    \/ V.toks[i].k \in DirectKinds /\ AssignIdx(V, V.toks[i].l) # {}   \* a constant is no CFG node
                    \/ V.toks[i].k = "cfiend" /\ V.P.icfi
AllowedRefusals(V) ==
  (IF HasConflict(V) THEN {"MultipleDefinitionsError"} ELSE {})
  \cup (IF HasUndef(V) THEN {"UndefSymbolError"} ELSE {})
  \cup (IF HasUnsupported(V) THEN {"UnsupportedAssemblyError"} ELSE {})
  \cup (IF ~CfiWellFormed(V) THEN {"AsmSyntaxError"} ELSE {})
  \* a constant transfer target may already be rejected by the parser
  \cup (IF FoldedTarget(V) THEN {"AsmSyntaxError"} ELSE {})
\* Inputs the properties quantify over: a CFI frame is opened, used and closed
\* inside one section (anything else is not meaningful assembly)
CfiInOneSection(V) ==
  \A i \in Idx(V) : V.toks[i].k \in {"cfiend", "cfidef"} =>
     LET st0 == {j \in 1..(i - 1) : V.toks[j].k = "cfistart" /\ V.toks[j].vc = V.toks[i].vc}
     IN  IF st0 = {} THEN (V.P.icfi => V.pos[i].sec = "text")
         ELSE V.pos[Max(st0)].sec = V.pos[i].sec
InDomain(V) == CfiInOneSection(V)
Completes(V) == V.exc = "" \/ V.exc \in AllowedRefusals(V)
\* C12_TargetsNoOffset: a call or branch whose target carries an addend is
\* refused (the CFG cannot express it), never assembled to an edge
HasTargetOffset(V) == \E i \in Idx(V) : V.toks[i].k \in DirectKinds /\ V.toks[i].a # 0
C12_TargetsNoOffset(V) ==
  /\ (HasTargetOffset(V) => V.exc # "")
  /\ (HasTargetOffset(V) /\ AllowedRefusals(V) = {"UnsupportedAssemblyError"}
        => V.exc = "UnsupportedAssemblyError")
\* C13 error discipline
C13_MultipleDefinitions(V) ==
  /\ (V.exc = "MultipleDefinitionsError" => HasConflict(V))
  /\ (HasConflict(V) => V.exc # "")
  /\ (AllowedRefusals(V) = {"MultipleDefinitionsError"} => V.exc = "MultipleDefinitionsError")
C13_Undef(V) ==
  /\ (V.exc = "UndefSymbolError" => HasUndef(V))
  /\ (HasUndef(V) => V.exc # "")
  /\ (AllowedRefusals(V) = {"UndefSymbolError"} => V.exc = "UndefSymbolError")
  \* allowed: exactly one proxy-backed symbol per unknown name
  /\ (V.exc = "" /\ V.P.au =>
        \A l \in {V.toks[i].l : i \in {j \in RefIdx(V) : Unresolved(V, j)}} :
            LET c == SelectSeq(V.R.syms, LAMBDA y : y.nm = V.P.rn[l])
            IN  Len(c) = 1 /\ c[1].k = "proxy")
  /\ (V.exc = "" =>
        \A j \in DOMAIN V.R.syms : V.R.syms[j].k = "proxy" =>
            \E i \in RefIdx(V) : Unresolved(V, i) /\ V.P.rn[V.toks[i].l] = V.R.syms[j].nm /\ V.P.au)
\* C13_TempSuffix: temporary labels carry the caller's suffix, others do not
C13_TempSuffix(V) ==
  {V.R.syms[j].nm : j \in {q \in DOMAIN V.R.syms : V.R.syms[q].k # "proxy"}}
     = {ExpName(V.P, V.toks[i].l) : i \in {q \in Idx(V) : V.toks[q].k \in DefKinds}}
\* C13_Assignments: a constant assignment yields one symbol of that name with that value
C13_Assignments(V) ==
  \A i \in Idx(V) : V.toks[i].k = "assign" =>
     LET c == SelectSeq(V.R.syms, LAMBDA y : y.nm = ExpName(V.P, V.toks[i].l))
     IN  Len(c) = 1 /\ c[1].k = "int" /\ c[1].o = V.toks[i].a
\* C13_SymAttrs: the attribute directives are recorded for the symbol their name resolves to
\* (the label of the patch under its expected name, else the module's / the new undefined
\* symbol), the last directive per field wins, untouched fields keep their defaults, and
\* nothing else gets attributes
AttrIdx(V) == {i \in Idx(V) : V.toks[i].k = "attr"}
AttrName(V, l) == IF DefIdx(V, l) # {} THEN ExpName(V.P, l) ELSE V.P.rn[l]
ExpEsa(V, l) ==
  LET idx == SortSeq(SetToSeq({i \in AttrIdx(V) : V.toks[i].l = l}), LAMBDA x, y : x < y)
      f[k \in 0..Len(idx)] == IF k = 0 THEN NoEsa ELSE SetEsa(f[k - 1], V.toks[idx[k]].a)
      e == f[Len(idx)]
  IN  [nm |-> AttrName(V, l), b |-> e.b, v |-> e.v, t |-> e.t]
C13_SymAttrs(V) ==
  LET want == {ExpEsa(V, l) : l \in {V.toks[i].l : i \in AttrIdx(V)}}
  IN  Range(V.R.esa) = want /\ Len(V.R.esa) = Cardinality(want)
\* C13_Binding: a name of the module binds to the module's own object,
\* any other to a symbol of the result; the result never shadows the module
C13_Binding(V) ==
  LET mn == {V.P.rn[l] : l \in V.P.ms}
  IN  /\ \A j \in DOMAIN V.R.sx :
            LET x == V.R.sx[j]
            IN  /\ (IF x.s1 \in mn THEN x.m1 /\ ~x.l1 ELSE x.l1 /\ ~x.m1)
                /\ (x.k = "A" => (IF x.s2 \in mn THEN x.m2 /\ ~x.l2 ELSE x.l2 /\ ~x.m2))
      /\ \A j \in DOMAIN V.R.syms : V.R.syms[j].nm \notin mn
      /\ \A j, q \in DOMAIN V.R.syms : j # q => V.R.syms[j].nm # V.R.syms[q].nm

\* C13_Chunking: chunks without a forward cross-chunk reference and with
\* balanced CFI frames give the result of the concatenation
NoForwardRef(V) ==
  \A i \in RefIdx(V) : \A j \in DefIdx(V, V.toks[i].l) : V.toks[j].vc <= V.toks[i].vc
NormR(R) ==
  [secs |-> R.secs, syms |-> Range(R.syms), sx |-> Range(R.sx), nprox |-> R.nprox, esa |-> Range(R.esa),
   edges |-> {[s |-> e.s, t |-> NormNode(e.t), ty |-> e.ty, c |-> e.c, d |-> e.d] : e \in Edges(R)}]
ChunkingDomain(V) == NoForwardRef(V) /\ CfiWellFormed(V)
C13_Chunking(V, Rw, excw) ==
  /\ (V.exc = "") <=> (excw = "")
  /\ (V.exc = "" => NormR(V.R) = NormR(Rw))

(***************************************************************************)
(* Part 3.  LEVEL B: the state of the streaming assembler                  *)
(*   node ids: blocks 1..Len(blk); proxies created here < 0; the module's  *)
(*   objects 1001 (code block of "a") and 1002 (proxy of "b")              *)
(***************************************************************************)
ModId(l) == IF l = "a" THEN 1001 ELSE 1002
IsProxyId(id) == id < 0 \/ id = 1002
NoSym == [def |-> FALSE, nm |-> "", ref |-> 0, e |-> FALSE]
E(s, t, ty, c, d) == [s |-> s, t |-> t, ty |-> ty, c |-> c, d |-> d]
NoProc == [sec |-> 0, imp |-> FALSE, hs |-> FALSE, sb |-> 0, sd |-> 0, he |-> FALSE, eb |-> 0, ed |-> 0, ins |-> <<>>]

InitState ==
  [secs |-> <<>>, cur |-> 0, blk |-> <<>>, np |-> 0, edges |-> {}, code |-> {},
   bt |-> {}, al |-> {}, sy |-> [l \in NameU |-> NoSym], sx |-> {}, cfi |-> <<>>,
   fopen |-> FALSE, data |-> {}, keys |-> {}, asg |-> {}, err |-> "",
   esa |-> [l \in NameU |-> [on |-> FALSE, r |-> NoEsa]]]

Fail(s, e) == [s EXCEPT !.err = e]
SecIdx(s, name) == LET c == {i \in DOMAIN s.secs : s.secs[i].name = name}
                   IN  IF c = {} THEN 0 ELSE CHOOSE i \in c : TRUE
CurB(s) == Last(s.secs[s.cur].blocks)
EndOf(s, id) == s.blk[id].off + s.blk[id].size
CurOffset(s) == <<CurB(s), s.blk[CurB(s)].size>>          \* _State.current_offset
GetF(rel, id, dflt) == LET c == {p \in rel : p[1] = id} IN IF c = {} THEN dflt ELSE (CHOOSE p \in c : TRUE)[2]
SetF(rel, id, v) == {p \in rel : p[1] # id} \cup {<<id, v>>}
DelF(rel, id) == {p \in rel : p[1] # id}

\* _Streamer._split_block
Split(s, ft) ==
  LET c == CurB(s)
      id == Len(s.blk) + 1
  IN  [s EXCEPT !.blk = Append(@, [off |-> EndOf(s, c), size |-> 0]),
                !.edges = IF ft THEN @ \cup {E(c, id, "ft", FALSE, TRUE)} ELSE @,
                !.secs[s.cur].blocks = Append(@, id)]
\* _Streamer._append_data
AppendData(s, n) == [s EXCEPT !.blk[CurB(s)].size = @ + n, !.secs[s.cur].len = @ + n]

\* _Streamer.change_section
ChangeSection(s, name) ==
  LET i == SecIdx(s, name)
  IN  IF i # 0 THEN [s EXCEPT !.cur = i]
      ELSE [s EXCEPT !.blk = Append(@, [off |-> 0, size |-> 0]),
                     !.secs = Append(@, [name |-> name, len |-> 0, blocks |-> <<Len(s.blk) + 1>>]),
                     !.cur = Len(s.secs) + 1]

\* _SymbolCreator: the pre-pass over one chunk
PreCreate(s0, P, chunk) ==
  LET f[i \in 0..Len(chunk)] ==
        IF i = 0 THEN s0
        ELSE LET s == f[i - 1]
                 t == chunk[i]
             IN  IF s.err # "" \/ t.k \notin DefKinds THEN s
                 ELSE IF s.sy[t.l].def \/ t.l \in P.ms THEN Fail(s, "MultipleDefinitionsError")
                 \* emit_assignment: the symbol's payload is the constant (node id 2000 + value)
                 ELSE IF t.k = "assign"
                 THEN [s EXCEPT !.sy[t.l] = [def |-> TRUE, nm |-> ExpName(P, t.l), ref |-> 2000 + t.a, e |-> FALSE]]
                 ELSE [s EXCEPT !.blk = Append(@, [off |-> 0, size |-> 0]),
                                !.sy[t.l] = [def |-> TRUE, nm |-> ExpName(P, t.l),
                                             ref |-> Len(s.blk) + 1, e |-> FALSE]]
  IN  f[Len(chunk)]

\* _symbol_lookup + _resolve_symbol: local first, then the module, then
\* (allow_undef_symbols) a new proxy-backed symbol
Resolve(s, P, l) ==
  IF s.sy[l].def THEN [st |-> s, err |-> "", ref |-> s.sy[l].ref, nm |-> s.sy[l].nm]
  ELSE IF l \in P.ms THEN [st |-> s, err |-> "", ref |-> ModId(l), nm |-> P.rn[l]]
  ELSE IF P.au
  THEN LET pid == 0 - (s.np + 1)
       IN  [st |-> [s EXCEPT !.np = @ + 1,
                             !.sy[l] = [def |-> TRUE, nm |-> P.rn[l], ref |-> pid, e |-> FALSE]],
            err |-> "", ref |-> pid, nm |-> P.rn[l]]
  ELSE [st |-> s, err |-> "UndefSymbolError", ref |-> 0, nm |-> ""]

Sx(s, k, s1, s2, add, at, sz) ==
  [sec |-> s.cur, o |-> s.secs[s.cur].len, k |-> k, s1 |-> s1, s2 |-> s2, add |-> add, at |-> at, sz |-> sz]

\* _Streamer.emit_label
DoLabel(s, t) ==
  LET lb == s.sy[t.l].ref
      c == CurB(s)
  IN  [s EXCEPT !.blk[lb].off = EndOf(s, c),
                !.edges = @ \cup {E(c, lb, "ft", FALSE, TRUE)},
                !.secs[s.cur].blocks = Append(@, lb)]

\* _Streamer.emit_instruction
FixedWidth == {"arm64", "mips32"}
DoInsn(s, P, t) ==
  \* a transfer to a name whose constant value is already known: LLVM emits the
  \* constant; x86 keeps a fixup with a constant expression, the fixed-width
  \* ISAs have no fixup at all: both are refused ("targets must be symbolic")
  IF t.k \in DirectKinds /\ t.l \in s.asg
  THEN Fail(s, \* (LLVM's x86 Intel-syntax parser rejects the constant target itself)
               IF P.isa \notin FixedWidth /\ P.syn = "intel" THEN "AsmSyntaxError"
               ELSE "UnsupportedAssemblyError")
  ELSE
  LET hasref == t.k \in DirectKinds \cup RefOpKinds
      r == IF hasref THEN Resolve(s, P, t.l) ELSE [st |-> s, err |-> "", ref |-> 0, nm |-> ""]
  IN  IF r.err # "" THEN Fail(s, r.err)
      ELSE
      LET s0 == r.st
          at == IF t.k \in DirectKinds /\ P.plt /\ IsProxyId(r.ref) THEN <<"PLT">>
                ELSE IF t.k \in RefOpKinds THEN AttrsOf(P.isa, t.k) ELSE <<>>
          s1 == IF hasref THEN [s0 EXCEPT !.sx = @ \cup {Sx(s0, "C", r.nm, "", t.a, at, 0)}] ELSE s0
          s2 == [AppendData(s1, t.n) EXCEPT !.code = @ \cup {CurB(s1)}]
          c == CurB(s2)
          pid == 0 - (s2.np + 1)
      \* (LLVM does not describe the MIPS return idiom `jr $ra` as a return:
      \*  the code treats it as any other indirect jump - mirrored here)
      IN  CASE t.k = "ret" /\ ~P.mips ->
                 Split([s2 EXCEPT !.np = @ + 1, !.edges = @ \cup {E(c, pid, "ret", FALSE, TRUE)}], FALSE)
            [] t.k = "ijmp" \/ (t.k = "ret" /\ P.mips) ->
                 Split([s2 EXCEPT !.np = @ + 1, !.edges = @ \cup {E(c, pid, "branch", FALSE, FALSE)}], FALSE)
            [] t.k = "icall" ->
                 Split([s2 EXCEPT !.np = @ + 1, !.edges = @ \cup {E(c, pid, "call", FALSE, FALSE)}], TRUE)
            [] t.k \in DirectKinds ->
                 IF t.a # 0 \/ r.ref >= 2000 THEN Fail(s2, "UnsupportedAssemblyError")
                 ELSE Split([s2 EXCEPT !.edges = @ \cup
                                {E(c, r.ref, IF t.k = "call" THEN "call" ELSE "branch", t.k = "jcc", TRUE)}],
                            t.k \in {"call", "jcc"})
            [] OTHER -> s2

\* emit_int_value / emit_value_fill (and emit_bytes with printing as string
\* suppressed): plain bytes into the current block
DoBytes(s, t) == AppendData(s, t.n)

\* emit_value_impl
DoValue(s, P, t) ==
  LET r == Resolve(s, P, t.l)
  IN  IF r.err # "" THEN Fail(s, r.err)
      ELSE AppendData([r.st EXCEPT !.sx = @ \cup {Sx(r.st, "C", r.nm, "", t.a, <<>>, 8)}], 8)

\* _emit_value_with_encoding (bytes)
Encoded(s, n, ty) ==
  LET s1 == AppendData(Split(s, FALSE), n)
  IN  Split([s1 EXCEPT !.bt = SetF(@, CurB(s1), ty)], FALSE)
\* _try_terminate_previous_ascii_block for the NUL of .string
Terminate(s) ==
  LET bs == s.secs[s.cur].blocks
      cb == Last(bs)
      pb == bs[Len(bs) - 1]
      s1 == [s EXCEPT !.secs[s.cur].blocks = SubSeq(bs, 1, Len(bs) - 1)]
      s2 == AppendData(s1, 1)
  IN  [s2 EXCEPT !.bt = SetF(@, pb, "string"), !.blk[cb].off = @ + 1,
                 !.secs[s.cur].blocks = Append(@, cb)]
\* emit_bytes: an empty literal emits nothing (no block, no encoding); the
\* NUL of an empty .string is then an ordinary one-byte literal
\* emit_bytes(NUL): terminate the previous block if the current block is still
\* empty, carries no alignment and the previous block is an ASCII literal; a
\* literal of its own otherwise
CanTerminate(s) ==
  LET bs == s.secs[s.cur].blocks
  IN  /\ s.blk[Last(bs)].size = 0 /\ Len(bs) >= 2 /\ GetF(s.bt, bs[Len(bs) - 1], "") = "ascii"
      /\ GetF(s.al, Last(bs), 0) = 0        \* an alignment directive in between applies to the NUL
NulBytes(s) == IF CanTerminate(s) THEN Terminate(s) ELSE Encoded(s, 1, "ascii")
DoAscii(s, t) == IF t.n = 0 THEN s ELSE IF IsNul(t) THEN NulBytes(s) ELSE Encoded(s, t.n, "ascii")
DoString(s, t) == IF t.n = 1 THEN NulBytes(s) ELSE NulBytes(Encoded(s, t.n - 1, "ascii"))
\* emit_uleb128_value
DoUleb(s, P, t) ==
  LET s1 == Split(s, FALSE)
  IN  IF t.l = "" THEN Fail(s1, "UnsupportedAssemblyError")
      ELSE LET r == Resolve(s1, P, t.l)
           IN  IF r.err # "" THEN Fail(s1, r.err)
               ELSE LET s2 == AppendData([r.st EXCEPT !.sx = @ \cup {Sx(r.st, "A", r.nm, r.nm, 0, <<>>, 1)}], 1)
                    IN  Split([s2 EXCEPT !.bt = SetF(@, CurB(s2), "uleb128")], FALSE)

\* _emit_alignment (several requests on one block: the strictest wins)
DoAlign(s, t) ==
  LET s1 == IF s.blk[CurB(s)].size > 0 THEN Split(s, TRUE) ELSE s
  IN  [s1 EXCEPT !.al = SetF(@, CurB(s1), Max2(GetF(@, CurB(s1), 1), t.a))]

\* CFI
ProcsOfCur(s) == {i \in DOMAIN s.cfi : s.cfi[i].sec = s.cur}
DoCfiStart(s, P) ==
  IF s.fopen THEN Fail(s, "AsmSyntaxError")
  ELSE LET o == CurOffset(s)
       IN  [s EXCEPT !.fopen = TRUE,
                     !.cfi = Append(@, [NoProc EXCEPT !.sec = s.cur, !.hs = TRUE, !.sb = o[1], !.sd = o[2]])]
DoCfiEnd(s, P) ==
  IF ~s.fopen THEN Fail(s, "AsmSyntaxError")
  ELSE IF ProcsOfCur(s) = {} THEN Fail(s, "AssertionError")
  ELSE LET i == Max(ProcsOfCur(s))
           o == CurOffset(s)
       IN  IF s.cfi[i].imp THEN Fail(s, "UnsupportedAssemblyError")
           ELSE [s EXCEPT !.fopen = FALSE, !.cfi[i].he = TRUE, !.cfi[i].eb = o[1], !.cfi[i].ed = o[2]]
DoCfiDef(s, t) ==
  IF ~s.fopen THEN Fail(s, "AsmSyntaxError")
  ELSE IF ProcsOfCur(s) = {} THEN s
  ELSE LET i == Max(ProcsOfCur(s))
           o == CurOffset(s)
       IN  [s EXCEPT !.cfi[i].ins = Append(@, [b |-> o[1], d |-> o[2], v |-> t.a])]

\* start of the streaming pass of a chunk: init_sections, implicit procedure
StartChunk(s, P) ==
  LET s1 == ChangeSection(s, "text")
  IN  IF P.icfi THEN [s1 EXCEPT !.fopen = TRUE, !.asg = {},
                                !.cfi = Append(@, [NoProc EXCEPT !.sec = s1.cur, !.imp = TRUE])]
      ELSE [s1 EXCEPT !.fopen = FALSE, !.asg = {}]
EndChunk(s, P) ==
  IF s.fopen /\ ~P.icfi THEN Fail(s, "AsmSyntaxError") ELSE [s EXCEPT !.fopen = FALSE]

\* _Streamer.emit_symbol_attribute (ELF): _resolve_symbol, then elf_symbol_attributes[sym].<field>
DoAttr(s, P, t) ==
  LET r == Resolve(s, P, t.l)
  IN  IF r.err # "" THEN Fail(s, r.err)
      ELSE [r.st EXCEPT !.esa[t.l] = [on |-> TRUE, r |-> SetEsa(@.r, t.a)]]

Step(s, P, t) ==
  CASE t.k = "label" -> DoLabel(s, t)
    [] t.k = "attr" -> DoAttr(s, P, t)
    [] t.k \in InsnKinds -> DoInsn(s, P, t)
    [] t.k \in {"byte", "zero"} -> DoBytes(s, t)
    [] t.k = "quad" -> DoValue(s, P, t)
    [] t.k = "ascii" -> DoAscii(s, t)
    [] t.k = "string" -> DoString(s, t)
    [] t.k = "uleb" -> DoUleb(s, P, t)
    [] t.k = "align" -> DoAlign(s, t)
    [] t.k = "sec" -> ChangeSection(s, t.l)
    [] t.k = "cfistart" -> DoCfiStart(s, P)
    [] t.k = "cfiend" -> DoCfiEnd(s, P)
    [] t.k = "cfidef" -> DoCfiDef(s, t)
    \* (defined by the pre-pass; the streaming pass lets it through - from here on
    \*  LLVM knows the value and folds later uses in this text into constants)
    [] t.k = "assign" -> [s EXCEPT !.asg = @ \cup {t.l}]

---------------------------------------------------------------------------
\* Assembler.finalize
CfiRef(s, id) ==
  \E i \in DOMAIN s.cfi :
     \/ s.cfi[i].hs /\ s.cfi[i].sb = id
     \/ s.cfi[i].he /\ s.cfi[i].eb = id
     \/ \E q \in DOMAIN s.cfi[i].ins : s.cfi[i].ins[q].b = id
CfiReplace(s, old, new) ==
  [s EXCEPT !.cfi = [i \in DOMAIN s.cfi |->
     LET p == s.cfi[i]
         mv == SelectSeq(p.ins, LAMBDA x : x.b = old)
         st0 == SelectSeq(p.ins, LAMBDA x : x.b # old)
     IN  [p EXCEPT !.sb = IF p.hs /\ @ = old THEN new ELSE @,
                   !.eb = IF p.he /\ @ = old THEN new ELSE @,
                   !.ins = [q \in DOMAIN mv |-> [mv[q] EXCEPT !.b = new]] \o st0]]]
InEdges(s, id) == {e \in s.edges : e.t = id}
OutEdges(s, id) == {e \in s.edges : e.s = id}
MoveSyms(s, old, new, atEnd) ==
  [s EXCEPT !.sy = [l \in NameU |-> IF s.sy[l].def /\ s.sy[l].ref = old
                                    THEN [s.sy[l] EXCEPT !.ref = new, !.e = IF atEnd THEN TRUE ELSE @]
                                    ELSE s.sy[l]],
            !.keys = @ \cup {old, new}]

\* _remove_empty_blocks, one group of equal offsets: extras X (a sequence), main m
MergeGroup(s, X, m) ==
  LET xs == Range(X)
      bad == \/ \E e \in s.edges : e.s \in xs /\ ~(e.ty = "ft" /\ e.t \in xs \cup {m})
             \/ \E x \in xs : GetF(s.bt, x, "") # ""
      ed == {e \in s.edges : e.s \notin xs /\ e.t \notin xs}
              \cup {[e EXCEPT !.t = m] : e \in {y \in s.edges : y.t \in xs /\ y.s \notin xs}}
      amax == FoldLeft(LAMBDA a, x : Max2(a, GetF(s.al, x, 0)), GetF(s.al, m, 0), X)
      s1 == [s EXCEPT !.edges = ed,
                      !.al = IF amax > 0 THEN SetF({p \in @ : p[1] \notin xs}, m, amax)
                             ELSE {p \in @ : p[1] \notin xs}]
      s2 == FoldLeft(LAMBDA a, x : CfiReplace(MoveSyms(a, x, m, FALSE), x, m), s1, X)
  IN  IF bad THEN Fail(s, "AssertionError") ELSE s2
RemoveEmpty(s, si) ==
  LET bs == s.secs[si].blocks
      isMain(j) == j = Len(bs) \/ s.blk[bs[j + 1]].off # s.blk[bs[j]].off
      mains == SelectSeq([j \in DOMAIN bs |-> j], isMain)
      extras(q) == LET lo == IF q = 1 THEN 1 ELSE mains[q - 1] + 1
                   IN  SubSeq(bs, lo, mains[q] - 1)
      f[q \in 0..Len(mains)] ==
        IF q = 0 THEN s
        ELSE IF f[q - 1].err # "" THEN f[q - 1]
        ELSE IF extras(q) = <<>> THEN f[q - 1]
        ELSE MergeGroup(f[q - 1], extras(q), bs[mains[q]])
      r == f[Len(mains)]
  IN  IF r.err # "" THEN r
      ELSE [r EXCEPT !.secs[si].blocks = [q \in DOMAIN mains |-> bs[mains[q]]]]

\* _convert_data_blocks (in block order: dropping the fallthrough of a
\* converted block can make the next block convertible)
ConvertData(s, P, si) ==
  LET bs == s.secs[si].blocks
      exec == s.secs[si].name = "text"
      f[j \in 0..Len(bs)] ==
        IF j = 0 THEN s
        ELSE LET a == f[j - 1]
                 id == bs[j]
             IN  IF a.err # "" THEN a
                 ELSE IF /\ a.blk[id].size > 0 /\ id \notin a.code /\ ~CfiRef(a, id)
                         /\ (~exec \/ j # 1 \/ P.tu)
                         /\ InEdges(a, id) = {}
                 THEN IF \E e \in OutEdges(a, id) : e.ty # "ft" THEN Fail(a, "AssertionError")
                      ELSE [a EXCEPT !.data = @ \cup {id}, !.keys = @ \cup {id},
                                     !.edges = @ \ OutEdges(a, id)]
                 ELSE IF GetF(a.bt, id, "") = "uleb128" THEN Fail(a, "UnsupportedAssemblyError")
                 ELSE a
  IN  f[Len(bs)]

\* _remove_trailing_empty_block
RemoveTrailing(s, si) ==
  LET bs == s.secs[si].blocks
      lb == Last(bs)
      empty == s.blk[lb].size = 0
      reach == lb \notin s.data /\ InEdges(s, lb) # {}
      refd == lb \in s.keys
      hascfi == CfiRef(s, lb)
      drop(a) == [a EXCEPT !.secs[si].blocks = SubSeq(bs, 1, Len(bs) - 1), !.al = DelF(@, lb)]
  IN  IF empty /\ ~reach /\ ~refd /\ ~hascfi THEN drop(s)
      ELSE IF empty /\ ~reach /\ Len(bs) >= 2 /\ ~hascfi
      THEN drop(MoveSyms(s, lb, bs[Len(bs) - 1], TRUE))
      ELSE s

Finalize(s0, P) ==
  LET s == [s0 EXCEPT !.keys = {s0.sy[l].ref : l \in {x \in NameU : s0.sy[x].def}}]
      f[i \in 0..Len(s.secs)] ==
        IF i = 0 THEN s
        ELSE IF f[i - 1].err # "" THEN f[i - 1]
        ELSE LET a == RemoveEmpty(f[i - 1], i)
             IN  IF a.err # "" THEN a
                 ELSE LET b == ConvertData(a, P, i)
                      IN  IF b.err # "" THEN b ELSE RemoveTrailing(b, i)
  IN  f[Len(s.secs)]

\* the whole API on a program (sequence of chunks), as a function
RunChunk(s, P, chunk) ==
  LET s1 == PreCreate(s, P, chunk)
  IN  IF s1.err # "" THEN s1
      ELSE LET f[i \in 0..Len(chunk)] ==
                 IF i = 0 THEN StartChunk(s1, P)
                 ELSE IF f[i - 1].err # "" THEN f[i - 1] ELSE Step(f[i - 1], P, chunk[i])
               e == f[Len(chunk)]
           IN  IF e.err # "" THEN e ELSE EndChunk(e, P)
RunAll(P, chunks) ==
  LET f[i \in 0..Len(chunks)] ==
        IF i = 0 THEN InitState
        ELSE IF f[i - 1].err # "" THEN f[i - 1] ELSE RunChunk(f[i - 1], P, chunks[i])
      e == f[Len(chunks)]
  IN  IF e.err # "" THEN e ELSE Finalize(e, P)
\* chunks of a flattened token sequence
ChunksOf(toks) ==
  IF toks = <<>> THEN <<>>
  ELSE [c \in 1..Last(toks).ch |-> SelectSeq(toks, LAMBDA t : t.ch = c)]
\* the concatenation, with the section switch at the former boundaries
WholeChunk(toks) ==
  FlattenSeq([i \in DOMAIN toks |->
     IF i > 1 /\ toks[i].ch # toks[i - 1].ch
     THEN <<[k |-> "sec", l |-> "text", a |-> 0, n |-> 0, ch |-> toks[i].ch, vc |-> 1], toks[i]>>
     ELSE <<toks[i]>>])

---------------------------------------------------------------------------
\* projection of a final model state to the result format R
Canon(s, P) ==
  LET secOf(id) == {i \in DOMAIN s.secs : \E j \in DOMAIN s.secs[i].blocks : s.secs[i].blocks[j] = id}
      symOf(id) == {l \in NameU : s.sy[l].def /\ s.sy[l].ref = id}
      blank == [k |-> "", sec |-> "", o |-> 0, n |-> 0, nm |-> "", id |-> 0]
      node(id) ==
        IF id >= 1000 THEN [blank EXCEPT !.k = "mod", !.nm = P.rn[IF id = 1001 THEN "a" ELSE "b"]]
        ELSE IF id < 0
        THEN IF symOf(id) # {} THEN [blank EXCEPT !.k = "symp", !.nm = s.sy[CHOOSE l \in symOf(id) : TRUE].nm]
             ELSE [blank EXCEPT !.k = "fresh", !.id = 0 - id]
        ELSE IF secOf(id) = {} \/ (id \in s.data) THEN [blank EXCEPT !.k = "stale"]
        ELSE [blank EXCEPT !.k = "blk", !.sec = s.secs[CHOOSE i \in secOf(id) : TRUE].name,
                           !.o = s.blk[id].off, !.n = s.blk[id].size]
      sym(l) ==
        LET y == s.sy[l]
        IN  IF y.ref < 0 THEN [nm |-> y.nm, k |-> "proxy", sec |-> "", o |-> 0, n |-> 0, e |-> FALSE]
            ELSE IF y.ref >= 2000 THEN [nm |-> y.nm, k |-> "int", sec |-> "", o |-> y.ref - 2000, n |-> 0, e |-> FALSE]
            ELSE IF secOf(y.ref) = {} THEN [nm |-> y.nm, k |-> "stale", sec |-> "", o |-> 0, n |-> 0, e |-> FALSE]
            ELSE [nm |-> y.nm, k |-> "blk", sec |-> s.secs[CHOOSE i \in secOf(y.ref) : TRUE].name,
                  o |-> s.blk[y.ref].off, n |-> s.blk[y.ref].size, e |-> y.e]
      mn == {P.rn[l] : l \in P.ms}
      sx(x) == [sec |-> s.secs[x.sec].name, o |-> x.o, k |-> x.k, s1 |-> x.s1, s2 |-> x.s2, add |-> x.add,
                at |-> x.at, sz |-> x.sz, m1 |-> x.s1 \in mn, l1 |-> x.s1 \notin mn,
                m2 |-> x.k = "A" /\ x.s2 \in mn, l2 |-> x.k = "A" /\ x.s2 \notin mn]
  IN  [secs |-> [i \in DOMAIN s.secs |->
                   [name |-> s.secs[i].name, len |-> s.secs[i].len,
                    blocks |-> [j \in DOMAIN s.secs[i].blocks |->
                       LET id == s.secs[i].blocks[j]
                       IN  [o |-> s.blk[id].off, n |-> s.blk[id].size, code |-> id \notin s.data,
                            ty |-> IF id \in s.data THEN GetF(s.bt, id, "") ELSE "",
                            al |-> GetF(s.al, id, 0)]]]],
       edges |-> SetToSeq({[s |-> node(e.s), t |-> node(e.t), ty |-> e.ty, c |-> e.c, d |-> e.d] : e \in s.edges}),
       syms |-> SetToSeq({sym(l) : l \in {x \in NameU : s.sy[x].def}}),
       sx |-> SetToSeq({sx(x) : x \in s.sx}),
       nprox |-> s.np,
       esa |-> SetToSeq({[nm |-> IF s.sy[l].def THEN s.sy[l].nm ELSE P.rn[l],
                          b |-> s.esa[l].r.b, v |-> s.esa[l].r.v, t |-> s.esa[l].r.t] :
                            l \in {x \in NameU : s.esa[x].on}}),
       cfi |-> [i \in DOMAIN s.cfi |->
                  LET p == s.cfi[i]
                  IN  [sec |-> s.secs[p.sec].name, imp |-> p.imp, hs |-> p.hs,
                       so |-> IF p.hs THEN s.blk[p.sb].off ELSE 0, sd |-> p.sd, he |-> p.he,
                       eo |-> IF p.he THEN s.blk[p.eb].off ELSE 0, ed |-> p.ed,
                       ins |-> [q \in DOMAIN p.ins |-> [o |-> s.blk[p.ins[q].b].off, d |-> p.ins[q].d, v |-> p.ins[q].v]]]]]
EmptyR == [secs |-> <<>>, edges |-> <<>>, syms |-> <<>>, sx |-> <<>>, nprox |-> 0, cfi |-> <<>>, esa |-> <<>>]

\* nominal decoding of the model's own tokens
NominalDec(toks) == [i \in DOMAIN toks |-> [k |-> ClassOf(toks[i].k), n |-> toks[i].n, fo |-> <<>>, fs |-> <<>>]]
\* the model's sx entries sit at the start of their token; Level A is told so
ModelView(toks, P, s) ==
  View(toks, P, IF s.err = "" THEN Canon(s, P) ELSE EmptyR, s.err)

(***************************************************************************)
(* Part 4.  Behaviour and invariants                                       *)
(***************************************************************************)
\* (the ISA matters to the model only through the attribute table and the
\*  MIPS return idiom; the "ops" vocabulary is explored for ARM64 and MIPS32)
ModelISAs == IF VocabName = "ops" THEN {"arm64", "mips32"}
             ELSE IF VocabName \in {"asg", "attr"} THEN {"x64", "arm64"} ELSE {"x64"}
Params == {[tu |-> tu, au |-> au, icfi |-> ic, sfx |-> "_7", ms |-> ms, plt |-> FALSE, isa |-> isa, syn |-> "att",
            mips |-> isa = "mips32", rn |-> IdNames] :
              tu \in TUs, au \in AUs, ic \in ICFIs, ms \in MSs, isa \in ModelISAs}
TotalLen(p) == SumSeq([i \in DOMAIN p |-> Len(p[i])])
SeqsUpTo(n) == UNION {[1..m -> DOMAIN Vocab] : m \in 1..n}

Init == /\ par \in Params
        /\ prog = <<>> /\ inp = <<>> /\ ph = "idle" /\ st = InitState /\ fin = InitState

\* Assembler.assemble(chunk): the _SymbolCreator pass, then the streaming pass starts
Assemble ==
  /\ ph = "idle" /\ st.err = "" /\ Len(prog) < MaxChunks
  /\ \E c \in SeqsUpTo(MaxLen - TotalLen(prog)) :
        LET chunk == [i \in DOMAIN c |-> Vocab[c[i]]]
            s1 == PreCreate(st, par, chunk)
        IN  /\ prog' = Append(prog, chunk)
            /\ IF s1.err # "" THEN st' = s1 /\ inp' = <<>> /\ ph' = "idle"
               ELSE st' = StartChunk(s1, par) /\ inp' = chunk /\ ph' = "stream"
  /\ UNCHANGED <<par, fin>>
Emitting(kinds) ==
  /\ ph = "stream" /\ inp # <<>> /\ st.err = "" /\ Head(inp).k \in kinds
  /\ st' = Step(st, par, Head(inp)) /\ inp' = Tail(inp)
  /\ UNCHANGED <<par, prog, ph, fin>>
EmitLabel == Emitting({"label"})
EmitInsnPlain == Emitting({"op"} \cup RefOpKinds)
EmitInsnDirect == Emitting(DirectKinds)
EmitInsnRet == Emitting({"ret"})
EmitInsnIndirect == Emitting({"ijmp", "icall"})
EmitBytes == Emitting({"byte", "zero"})
EmitValue == Emitting({"quad"})
EmitEncoded == Emitting(EncodedKinds)
EmitAlignment == Emitting({"align"})
DoChangeSection == Emitting({"sec"})
EmitCfi == Emitting(CfiKinds)
EmitAssignment == Emitting({"assign"})
EmitSymbolAttribute == Emitting({"attr"})
ChunkDone ==
  /\ ph = "stream" /\ (inp = <<>> \/ st.err # "")
  /\ st' = IF st.err # "" THEN st ELSE EndChunk(st, par)
  /\ inp' = <<>> /\ ph' = "idle"
  /\ UNCHANGED <<par, prog, fin>>
DoFinalize ==
  /\ ph = "idle" /\ prog # <<>>
  /\ fin' = IF st.err # "" THEN st ELSE Finalize(st, par)
  /\ ph' = "done"
  /\ UNCHANGED <<par, prog, inp, st>>

Next == \/ Assemble \/ EmitLabel \/ EmitInsnPlain \/ EmitInsnDirect \/ EmitInsnRet \/ EmitInsnIndirect
        \/ EmitBytes \/ EmitValue \/ EmitEncoded \/ EmitAlignment \/ DoChangeSection \/ EmitCfi \/ EmitAssignment \/ EmitSymbolAttribute
        \/ ChunkDone \/ DoFinalize
Spec == Init /\ [][Next]_vars

---------------------------------------------------------------------------
\* Invariants: the Level A clauses hold of the model's own results
CaseJson ==
  [toks |-> Flat(prog), tu |-> par.tu, au |-> par.au, icfi |-> par.icfi, ms |-> SetToSeq(par.ms),
   mexc |-> fin.err, misa |-> par.isa]
LevelA(V, dec) ==
  /\ C12_Decode(V, dec) /\ C12_Tiling(V) /\ C12_TerminatorsEndBlocks(V) /\ C12_EdgeShape(V)
  /\ C12_Fallthrough(V) /\ C12_Labels(V) /\ (HasCfi(V) \/ C12_DataConversion(V))
  /\ C12_Operands(V, dec) /\ C13_Binding(V) /\ C13_TempSuffix(V) /\ C13_Assignments(V) /\ C12_Strings(V)
  /\ C12_Alignment(V) /\ C13_SymAttrs(V)
\* the model agrees with the function RunAll (the actions and the fold are the same machine)
FoldAgrees == ph = "done" => fin = RunAll(par, prog)
InvDone ==
  ph = "done" =>
    LET toks == Flat(prog)
        V == ModelView(toks, par, fin)
        dec == NominalDec(toks)
    IN  /\ (InDomain(V) => Completes(V))
        /\ (InDomain(V) => C13_MultipleDefinitions(V) /\ C13_Undef(V) /\ C12_TargetsNoOffset(V))
        /\ (V.exc = "" => LevelA(V, dec))
        /\ (Len(prog) > 1 /\ ChunkingDomain(V) /\ InDomain(V) =>
              LET w == RunAll(par, <<WholeChunk(toks)>>)
              IN  C13_Chunking(V, IF w.err = "" THEN Canon(w, par) ELSE EmptyR, w.err))
        /\ (Emit => PrintT("CASE " \o ToJson(CaseJson)))
TypeOK == ph \in {"idle", "stream", "done"} /\ TotalLen(prog) <= MaxLen
Inv == TypeOK /\ InvDone /\ FoldAgrees
=============================================================================
