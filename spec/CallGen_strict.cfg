\* The model WITHOUT the exemptions of the OPEN findings of C17: TLC must refute
\* CInv_Refusal (KF-C17-2: push of an integer that is no sign-extended imm32)
\* or CInv_ArgsAtCall (KF-C17-3: symbol arguments loaded instead of addressed).
SPECIFICATION CSpec
CONSTANTS
  GenAbis = {"x64elf"}
  Wide = FALSE
  ScratchVals = {0}
  ArgCounts = {0, 1, 7}
  SingleCounts = {7}
  HistSites = {}
  RotStep = 5
  Hist16 = FALSE
  Emit = FALSE
  Strict = TRUE
INVARIANT CInv_Refusal
INVARIANT CInv_ArgsAtCall
CHECK_DEADLOCK FALSE
