\* The model WITHOUT the exemptions of the known findings KF-C17-1/2 (F4): TLC
\* must refute CInv_Refusal (AsmSyntaxError for a small negative integer).
SPECIFICATION CSpec
CONSTANTS
  GenAbis = {"arm64"}
  Wide = FALSE
  ScratchVals = {0}
  ArgCounts = {0, 1}
  SingleCounts = {1}
  RotStep = 5
  Emit = FALSE
  Strict = TRUE
INVARIANT CInv_Refusal
CHECK_DEADLOCK FALSE
