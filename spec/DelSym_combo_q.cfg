SPECIFICATION Spec
CONSTANTS
  Mode = "combo"
  Fmts = {"elf", "pe"}
  K1 = 2
  K2 = 1
  K3 = 0
  NVer = 3
  ReqNames = {"1", "1f", "1_2", "1f_2f"}
  Emit = TRUE
INVARIANT Inv
CHECK_DEADLOCK FALSE
