SPECIFICATION Spec
CONSTANTS
  Abis = {"x64-elf"}
  MaxUses = 1
  Cat = "full"
  MapNames = {"AB", "AA", "AB_BC", "AB_BA", "AB_XB", "AB_XC", "AB_AC", "AF", "FB", "AN"}
  WithPatch = TRUE
  Emit = TRUE
INVARIANT Inv
CHECK_DEADLOCK FALSE
