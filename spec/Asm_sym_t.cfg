SPECIFICATION Spec
CONSTANTS
  VocabName = "sym"
  MaxLen = 4
  MaxChunks = 1
  TUs = {FALSE}
  AUs = {TRUE, FALSE}
  ICFIs = {FALSE}
  MSs = {{}, {"a"}, {"a", "b"}}
  Emit = TRUE
INVARIANT Inv
CHECK_DEADLOCK FALSE
