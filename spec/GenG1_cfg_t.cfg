SPECIFICATION Spec
CONSTANTS
  MaxBlocks = 2
  MaxReqs = 2
  Templates = {"o23", "jmp", "jcc", "call", "ret", "ret1", "icall"}
  PatchKinds = {"plain2", "loop", "fwd", "ret", "jmpsym", "callsym"}
  FnLayouts = {"none", "one", "split"}
  EndSyms = {FALSE}
  NoSyms = {FALSE}
  AnnModes = {"none"}
  WithProxyDel = TRUE
  CfiLayouts = {"none"}
  Isa = "x64"
  WithScopes = FALSE
  Fmts = {"elf"}
  WholeOnly = FALSE
  Leads = {0}
  DropFnTables = {FALSE}
  ExtraData = {FALSE}
  Retargets = {FALSE}
  AlignOpts = {0}
  Aliases = {FALSE}
  SharedRet = {FALSE, TRUE}
  InsFns = {"none"}
  Emit = TRUE
INVARIANT Inv
CHECK_DEADLOCK FALSE
