------------------------------ MODULE LeafHist ------------------------------
(***************************************************************************)
(* Histories of several RewritingContexts over ONE module and the          *)
(* leafFunctions aux table (C16: "never writes inside the red zone when    *)
(* the enclosing function may be a leaf"; anchor: "leafFunctions aux data: *)
(* whether the function was a leaf when first seen").                      *)
(*                                                                         *)
(* A function of the original program MAY BE A LEAF iff it contains no     *)
(* call (`orig`); its compiled code may then keep data below the stack     *)
(* pointer.  Rewriting can add calls to it, which changes the CFG but not  *)
(* the code that uses the red zone - so leaf-ness must be remembered from  *)
(* the first time a context sees the function.  The model (Level B)        *)
(* mirrors RewritingContext._update_leaf_functions / _invoke_patch:        *)
(*   Seen    a context records CFG leaf-ness of every function it is given *)
(*           that has no entry yet; entries are never changed or dropped   *)
(*   IsLeaf  a block outside any function known to the context is assumed  *)
(*           to be a possible leaf; otherwise the table decides            *)
(* One context performs 1-2 steps: "patch" inserts a constrained patch at  *)
(* the start of a function (a judged site), "addcall" inserts a call at    *)
(* its end; the inserted call belongs to the function only if the context  *)
(* was given that function.                                                *)
(* TLC checks on every history (Level A): a patch inserted into a function *)
(* that may be a leaf gets the red-zone skip (SkipIfMayBeLeaf), and the    *)
(* mechanism behind it as an action property (FirstSeenSticks).  Every     *)
(* history ending in a patch step is emitted as a C16 case (mode "ctxs")   *)
(* and replayed through real RewritingContexts; TraceStack judges every    *)
(* site with leaf = sites[s].leaf.                                         *)
(***************************************************************************)
EXTENDS Naturals, Integers, Sequences, FiniteSets, TLC, Json

CONSTANTS NF,        \* number of functions (one block each)
          MaxCtx,    \* number of RewritingContexts in a history
          WideClob,  \* BOOLEAN: also a patch that clobbers three registers
          Emit

Fns == 1..NF
\* clobber lists of the patch (x86-64 ELF: the only ABI of the library with a red zone)
Clobs == {<<"rax">>} \cup (IF WideClob THEN {<<"rax", "rcx", "rdx">>} ELSE {})
Absent == 0 - 1
VARIABLES orig,   \* [Fns -> BOOLEAN]  the function contains a call in the original program
          calls,  \* [Fns -> BOOLEAN]  the function contains a call edge now
          tab,    \* [Fns -> {Absent, 0, 1}]  the leafFunctions table
          hist,   \* the contexts so far: <<[known, ops]>>
          sites   \* the judged insertions: <<[blk, leaf, skip]>>
vars == <<orig, calls, tab, hist, sites>>

Op(o, b) == [op |-> o, blk |-> b]
\* what one context does: one step, or a call added to one function and a patch in another
OpSeqs == {<<Op(o, b)>> : o \in {"patch", "addcall"}, b \in Fns}
          \cup {<<Op("addcall", p[1]), Op("patch", p[2])>> : p \in {q \in Fns \X Fns : q[1] # q[2]}}
          \cup {<<Op("patch", p[1]), Op("patch", p[2])>> : p \in {q \in Fns \X Fns : q[1] < q[2]}}

\* RewritingContext.__init__ -> _update_leaf_functions
Seen(t, cl, known) ==
  [f \in Fns |-> IF f \in known /\ t[f] = Absent THEN (IF cl[f] THEN 0 ELSE 1) ELSE t[f]]
\* _invoke_patch: is_leaf = not context.function or leaf_functions.get(uuid, 1)
IsLeaf(t, known, b) == b \notin known \/ t[b] # 0

Init ==
  /\ orig \in [Fns -> BOOLEAN]
  /\ calls = orig
  /\ tab = [f \in Fns |-> Absent]
  /\ hist = <<>>
  /\ sites = <<>>

SeqOfSet(S) == LET f[k \in 0..NF] == IF k = 0 THEN <<>> ELSE IF k \in S THEN Append(f[k - 1], k) ELSE f[k - 1] IN f[NF]
PatchOps(ops) == SelectSeq(ops, LAMBDA x : x.op = "patch")

CaseJson(h, ss, cl) ==
  [kind |-> "c16", mode |-> "ctxs", abi |-> "x64elf", clob |-> cl, clobsp |-> cl, flags |-> FALSE,
   align |-> FALSE, pcs |-> FALSE, scratch |-> 0, reads |-> <<>>, readsp |-> <<>>, spell |-> "lower",
   leaf |-> ss[1].leaf,
   orig |-> [i \in 1..NF |-> orig[i]],
   \* (block indices of the harness are 0-based)
   hist |-> [i \in DOMAIN h |-> [known |-> [k \in DOMAIN SeqOfSet(h[i].known) |-> SeqOfSet(h[i].known)[k] - 1],
                                 ops |-> [k \in DOMAIN h[i].ops |-> [op |-> h[i].ops[k].op, blk |-> h[i].ops[k].blk - 1]]]],
   sites |-> [i \in DOMAIN ss |-> [blk |-> ss[i].blk - 1, off |-> 0, leaf |-> ss[i].leaf, skip |-> ss[i].skip]]]

Context(known, ops) ==
  /\ Len(hist) < MaxCtx
  /\ LET t1 == Seen(tab, calls, known)
         po == PatchOps(ops)
         new == [i \in DOMAIN po |-> [blk |-> po[i].blk, leaf |-> ~orig[po[i].blk],
                                       skip |-> IsLeaf(t1, known, po[i].blk)]]
         h1 == Append(hist, [known |-> known, ops |-> ops])
         s1 == sites \o new
     IN  /\ tab' = t1
         \* an inserted call is attributed to the function only by a context that knows it; a
         \* context that does not know the function splits its block at the insertion point
         \* and the tail - with the original code and its call edges - becomes a block of
         \* no function (the function then looks like a leaf to later contexts)
         /\ calls' = [f \in Fns |->
                        IF f \notin known /\ \E i \in DOMAIN ops : ops[i].op = "patch" /\ ops[i].blk = f
                        THEN FALSE
                        ELSE calls[f] \/ (f \in known /\ \E i \in DOMAIN ops :
                                             ops[i].op = "addcall" /\ ops[i].blk = f)]
         /\ hist' = h1
         /\ sites' = s1
         /\ (Emit /\ Len(po) > 0) => \A cl \in Clobs : PrintT("CASE " \o ToJson(CaseJson(h1, s1, cl)))
  /\ UNCHANGED orig

Next == \E known \in SUBSET Fns : \E ops \in OpSeqs : Context(known, ops)
Spec == Init /\ [][Next]_vars

TypeOK == /\ tab \in [Fns -> {Absent, 0, 1}] /\ Len(hist) <= MaxCtx
\* Level A: the property
SkipIfMayBeLeaf == \A i \in DOMAIN sites : sites[i].leaf => sites[i].skip
\* the mechanism (anchor): an entry of the table, once made, never changes or disappears,
\* and a function of the ORIGINAL program that may be a leaf is never recorded as a non-leaf
FirstSeenSticks == [][\A f \in Fns : tab[f] # Absent => tab'[f] = tab[f]]_vars
\* (an entry may say "leaf" for a function that is none - never the other way round)
TableIsOriginal == \A f \in Fns : tab[f] = 0 => orig[f]
Inv == TypeOK /\ SkipIfMayBeLeaf /\ TableIsOriginal
=============================================================================
