SPECIFICATION Spec
CONSTANTS
  Isas = {"x64"}
  MaxBlocks = 2
  Templates = {"o23", "ret1", "jmp"}
  Layouts = {"none", "one"}
  FnTables = {"present", "empty", "absent"}
  Names = {"fa"}
  BothOrders = FALSE
  EntModes = {"first"}
  EpChoices = {0}
  CfgModes = {"full"}
  AddrModes = {TRUE}
  TgtChoices = {0}
  ScopeKinds = {"allblocks", "allfuncs", "single"}
  Positions = {"ENTRY", "EXIT", "ANYWHERE"}
  FPositions = {"ENTRY"}
  FilterKinds = {"none"}
  PatNames = {"fa"}
  MaxRegs = 3
  MaxPasses = 1
  Emit = TRUE
INVARIANT Inv
CHECK_DEADLOCK FALSE
