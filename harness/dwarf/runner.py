"""Run C14 cases through the real DWARF codec of gtirb_rewriting and record
what it did: bytes produced (int lists), decoded objects (class binding name
and field values), consumed lengths, stream positions and exception type
names.  The only computation here is the conversion Python int <-> sign and
little-endian magnitude bits; no expected value is computed in Python.

    python -m harness.dwarf.runner cases.ndjson traces.ndjson
"""
import dataclasses
import io
import json
import os
import sys
import traceback

from gtirb.serialization import Serialization

from gtirb_rewriting._auxdata import cfi_directives
from gtirb_rewriting.dwarf import cfi, expr

# binding: name of the standard (as used by spec/Dwarf.tla) -> library class
BIND = {
    "DW_OP_addr": expr.OpAddr, "DW_OP_deref": expr.OpDeref,
    "DW_OP_const1u": expr.OpConst1U, "DW_OP_const1s": expr.OpConst1S,
    "DW_OP_const2u": expr.OpConst2U, "DW_OP_const2s": expr.OpConst2S,
    "DW_OP_const4u": expr.OpConst4U, "DW_OP_const4s": expr.OpConst4S,
    "DW_OP_const8u": expr.OpConst8U, "DW_OP_const8s": expr.OpConst8S,
    "DW_OP_constu": expr.OpConstU, "DW_OP_consts": expr.OpConstS,
    "DW_OP_dup": expr.OpDup, "DW_OP_drop": expr.OpDrop, "DW_OP_over": expr.OpOver,
    "DW_OP_pick": expr.OpPick, "DW_OP_swap": expr.OpSwap, "DW_OP_rot": expr.OpRot,
    "DW_OP_xderef": expr.OpXDeref, "DW_OP_abs": expr.OpAbs, "DW_OP_and": expr.OpAnd,
    "DW_OP_div": expr.OpDiv, "DW_OP_minus": expr.OpMinus, "DW_OP_mod": expr.OpMod,
    "DW_OP_mul": expr.OpMul, "DW_OP_neg": expr.OpNeg, "DW_OP_not": expr.OpNot,
    "DW_OP_or": expr.OpOr, "DW_OP_plus": expr.OpPlus,
    "DW_OP_plus_uconst": expr.OpPlusUConst, "DW_OP_shl": expr.OpShl,
    "DW_OP_shr": expr.OpShr, "DW_OP_shra": expr.OpShrA, "DW_OP_xor": expr.OpXor,
    "DW_OP_bra": expr.OpBra, "DW_OP_eq": expr.OpEq, "DW_OP_ge": expr.OpGe,
    "DW_OP_gt": expr.OpGt, "DW_OP_le": expr.OpLe, "DW_OP_lt": expr.OpLt,
    "DW_OP_ne": expr.OpNe, "DW_OP_skip": expr.OpSkip, "DW_OP_lit": expr.OpLit,
    "DW_OP_reg": expr.OpReg, "DW_OP_breg": expr.OpBReg, "DW_OP_regx": expr.OpRegX,
    "DW_OP_bregx": expr.OpBRegX, "DW_OP_deref_size": expr.OpDerefSize,
    "DW_CFA_offset": cfi.InstOffset, "DW_CFA_restore": cfi.InstRestore,
    "DW_CFA_nop": cfi.InstNop, "DW_CFA_offset_extended": cfi.InstOffsetExtended,
    "DW_CFA_restore_extended": cfi.InstRestoreExtended,
    "DW_CFA_undefined": cfi.InstUndefined, "DW_CFA_same_value": cfi.InstSameValue,
    "DW_CFA_register": cfi.InstRegister,
    "DW_CFA_remember_state": cfi.InstRememberState,
    "DW_CFA_restore_state": cfi.InstRestoreState, "DW_CFA_def_cfa": cfi.InstDefCFA,
    "DW_CFA_def_cfa_register": cfi.InstDefCFARegister,
    "DW_CFA_def_cfa_offset": cfi.InstDefCFAOffset,
    "DW_CFA_def_cfa_expression": cfi.InstDefCFAExpression,
    "DW_CFA_expression": cfi.InstExpression,
    "DW_CFA_offset_extended_sf": cfi.InstOffsetExtendedSF,
    "DW_CFA_def_cfa_sf": cfi.InstDefCFASF,
    "DW_CFA_def_cfa_offset_sf": cfi.InstDefCFAOffsetSF,
    "DW_CFA_val_offset": cfi.InstValOffset,
    "DW_CFA_val_offset_sf": cfi.InstValOffsetSF,
    "DW_CFA_val_expression": cfi.InstValExpression,
}
NAME = {cls: name for name, cls in BIND.items()}
ROOT = {"op": expr.Operation, "inst": cfi.Instruction}

# the schema of one CFI directive in GTIRB's cfiDirectives table, taken from
# the library's own table definition: mapping<Offset,sequence<DIRECTIVE>>
_TN = cfi_directives.type_name
DIRECTIVES_TYPE = _TN[_TN.index(",") + 1:-1]
_SER = Serialization()


def to_val(i: int) -> dict:
    """Python int -> sign and little-endian magnitude bits."""
    m = -i if i < 0 else i
    bits = []
    while m:
        bits.append(m & 1)
        m >>= 1
    return {"s": 1 if i < 0 else 0, "m": bits}


def from_val(v: dict) -> int:
    m = 0
    for k, b in enumerate(v["m"]):
        m |= b << k
    return -m if v["s"] else m


def build(x: dict):
    """Item of the spec -> library object (operands in declaration order)."""
    args = [from_val(v) for v in x["a"]]
    if x["c"] in ("DW_CFA_def_cfa_expression", "DW_CFA_expression", "DW_CFA_val_expression"):
        args.append([build(o) for o in x["e"]])
    return BIND[x["c"]](*args)


def describe(obj) -> dict:
    """Library object -> item (class binding name, int fields, expression)."""
    c = NAME.get(type(obj), "py:" + type(obj).__name__)
    a, e = [], []
    for f in dataclasses.fields(obj):
        val = getattr(obj, f.name)
        if isinstance(val, int):
            a.append(to_val(int(val)))
        elif isinstance(val, (list, tuple)):
            e = [describe(o) for o in val]
        else:
            c = "py:" + type(obj).__name__ + ":" + type(val).__name__
    return {"c": c, "a": a, "e": e}


def exc_name(e: BaseException) -> str:
    if os.environ.get("VERIF_DEBUG"):
        traceback.print_exc()
    return type(e).__name__


def decode_one(fam: str, data: bytes, bo: str, ps: int) -> dict:
    """Decodes one object from the front of data with the real decoder."""
    out = {"dexc": "", "dec": [], "n": -1, "pos": -1}
    stream = io.BytesIO(data)
    try:
        obj, n = ROOT[fam].decode(stream, bo, ps)
        out["dec"] = [describe(obj)]
        out["n"] = n
        out["_obj"] = obj
    except Exception as e:
        out["dexc"] = exc_name(e)
    out["pos"] = stream.tell()
    return out


def run_item(fam: str, x: dict, bo: str, ps: int, tail: bytes) -> dict:
    it = {"cons": "", "enc": "", "by": [], "dexc": "", "dec": [], "n": -1, "pos": -1,
          "eq": False, "gexc": "", "gdir": "", "gops": [], "guuid": "", "gser": ""}
    try:
        obj = build(x)
    except Exception as e:
        it["cons"] = exc_name(e)
        return it
    by = None
    try:
        by = bytes(obj.encode(bo, ps))
        it["by"] = list(by)
    except Exception as e:
        it["enc"] = exc_name(e)
    if by is not None:
        d = decode_one(fam, by + tail, bo, ps)
        back = d.pop("_obj", None)
        it.update(d)
        if back is not None:
            it["eq"] = bool(back == obj)
    if fam == "inst":
        try:
            directive = obj.gtirb_encoding(bo, ps)
            name, operands, ref = directive
            it["gdir"] = name
            it["gops"] = [to_val(int(o)) for o in operands]
            it["guuid"] = str(ref)
            try:
                _SER.encode(io.BytesIO(), [directive], DIRECTIVES_TYPE)
            except Exception as e:
                it["gser"] = exc_name(e)
        except Exception as e:
            it["gexc"] = exc_name(e)
    return it


def run_case(case: dict) -> dict:
    bo, ps, fam = case["bo"], case["ps"], case["fam"]
    tail = bytes(case["tail"])
    tr = dict(case)
    tr.update({"items": [], "pexc": "", "parsed": [], "plen": 0,
               "rexc": "", "rdec": [], "rn": -1, "rpos": -1,
               "cexc": "", "cdec": [], "cby": [], "cenc": "", "ctor": [], "ctorexc": ""})
    kind = case["kind"]
    if kind == "enc":
        tr["items"] = [run_item(fam, x, bo, ps, tail) for x in case["xs"]]
        if fam == "inst":
            cat = b"".join(bytes(it["by"]) for it in tr["items"])
            tr["plen"] = len(cat)
            try:
                tr["parsed"] = [describe(o) for o in cfi.parse_cfi_instructions(cat, bo, ps)]
            except Exception as e:
                tr["pexc"] = exc_name(e)
    elif kind == "raw":
        d = decode_one(fam, bytes(case["raw"]), bo, ps)
        d.pop("_obj", None)
        tr.update({"rexc": d["dexc"], "rdec": d["dec"], "rn": d["n"], "rpos": d["pos"]})
    elif kind == "const":
        v = from_val(case["v"])
        try:
            op = expr.make_const_op(v)
            tr["cdec"] = [describe(op)]
            try:
                tr["cby"] = list(op.encode(bo, ps))
            except Exception as e:
                tr["cenc"] = exc_name(e)
        except Exception as e:
            tr["cexc"] = exc_name(e)
        try:
            tr["ctor"] = [describe(expr.OpConst(v))]
        except Exception as e:
            tr["ctorexc"] = exc_name(e)
    else:
        raise ValueError(f"unknown case kind {kind}")
    return tr


def main(argv):
    src, dst = argv[1], argv[2]
    n = 0
    with open(src) as f, open(dst, "w") as out:
        for line in f:
            line = line.strip()
            if not line:
                continue
            out.write(json.dumps(run_case(json.loads(line)), separators=(",", ":")) + "\n")
            n += 1
    print(f"ran {n} cases")


if __name__ == "__main__":
    main(sys.argv)
