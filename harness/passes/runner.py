"""PassManager runs over two-module IRs (growth beyond the listed properties;
spec/Passes.tla, spec/TracePasses.tla).

A pm-case is {id, np, mods: [g1-case, g1-case], assign: [[pass index per request], ...],
fault: 0 | [phase, pass]}.  The two shapes are rendered, the second module is moved
into the first one's IR, `np` Pass objects register the requests assigned to them in
begin_module, and PassManager.run is observed:

  * the pass callbacks and the apply_begin / apply_end hooks give the event sequence
    (run_begin, begin_module(p, m, k), apply_begin(m), apply_end(m), end_module(p, m),
    run_end | run_abort), every event with a digest of every module's canonical
    Level-A projection (for the frame conditions);
  * per module the same trace record as harness/g1/runner.run_case produces, so that
    TLC judges each module's apply() with the clauses of the listing group.

Reads only; all judging happens in TLA+."""
import hashlib
import json
import os
import sys
import traceback
from typing import Any, List

import gtirb

from gtirb_rewriting import Pass, PassManager, _verif

from ..g1.project import Projector, canonical, whole_ir_report
from ..g1.render import render
from ..g1.runner import (EMPTY_PATCH, InjectedFault, assemble_standalone, bytes_patch, exc_name,
                         make_patch)


def digest(proj: Projector) -> str:
    st = canonical(proj.project())
    return hashlib.md5(json.dumps(st, sort_keys=True, separators=(",", ":")).encode()).hexdigest()[:12]


class RecordingPass(Pass):
    def __init__(self, run, index: int):
        self.run = run
        self.index = index

    def begin_module(self, module, functions, ctx):
        self.run.begin_module(self.index, module, functions, ctx)

    def end_module(self, module, functions):
        self.run.end_module(self.index, module)


class Run:
    def __init__(self, pc: dict):
        self.pc = pc
        self.events: List[dict] = []
        self.rs = [render(c["shape"]) for c in pc["mods"]]
        ir = self.rs[0].ir
        for k, r in enumerate(self.rs[1:], start=2):
            edges = list(r.ir.cfg)
            r.module.name = f"mod{k}"
            r.module.ir = ir
            for e in edges:
                ir.cfg.add(e)
        self.ir = ir
        self.mods = [r.module for r in self.rs]
        self.projs = [Projector(m) for m in self.mods]
        self.pre = [p.project() for p in self.projs]
        self.reqs: List[List[dict]] = [[] for _ in self.mods]
        self.regid = [0 for _ in self.mods]
        self.ctxlog: List[Any] = []
        self.exc = ["" for _ in self.mods]
        self.stage = ["register" for _ in self.mods]
        self.current = -1
        self.inside = -1      # module whose apply() is running (split into one interval per block)

    def mi(self, module) -> int:
        for i, m in enumerate(self.mods):
            if m is module:
                return i
        return -1

    def emit(self, ev: str, p: int = 0, m: int = 0, k: int = 0):
        # apply_begin fires inside apply(), when the module is already split into one
        # byte interval per block: its digest is taken again when apply() has returned
        last = self.events[-1]["dig"] if self.events else None
        dig = [last[i] if (i == self.inside and last) else digest(pr)
               for i, pr in enumerate(self.projs)]
        self.events.append({"ev": ev, "p": p, "m": m, "k": k, "dig": dig})

    def begin_module(self, pidx: int, module, functions, ctx):
        i = self.mi(module)
        self.current = i
        fault = self.pc.get("fault") or 0
        if fault and fault[0] == "begin" and fault[1] == pidx and fault[2] == i + 1:
            raise InjectedFault("begin_module")
        case = self.pc["mods"][i]
        shape = case["shape"]
        isa = shape.get("isa", "x64")
        r = self.rs[i]
        proj = self.projs[i]
        start = len(self.reqs[i])
        try:
            k = self._register(pidx, i, case, shape, isa, r, proj, ctx)
        except BaseException:
            # a registration raised: begin_module did not complete, the run aborts;
            # what this call had registered so far is not counted
            del self.reqs[i][start:]
            self.regid[i] = start
            raise
        self.emit("begin_module", pidx, i + 1, k)

    def _register(self, pidx, i, case, shape, isa, r, proj, ctx) -> int:
        k = 0
        for ri, rq in enumerate(case["reqs"]):
            if self.pc["assign"][i][ri] != pidx:
                continue
            b = r.blocks[rq["sec"]][rq["blk"]]
            rec = {"id": self.regid[i], "op": rq["op"], "u": proj.uid(b), "off": rq["off"],
                   "len": rq.get("len", 0), "proxy": bool(rq.get("proxy", False)),
                   "patch": EMPTY_PATCH, "pk": ""}
            if rq["op"] in ("ins", "rep"):
                ps = rq["patch"]
                rec["pk"] = ps.get("kind", "bytes")
                if "bytes" in ps:
                    pobj = bytes(ps["bytes"])
                    rec["patch"] = bytes_patch(pobj)
                else:
                    rec["patch"] = assemble_standalone(shape, ps)
                    pobj = make_patch(ps, isa, self.ctxlog, None)
                if rq["op"] == "ins":
                    ctx.insert_at(b, rq["off"], pobj)
                else:
                    ctx.replace_at(b, rq["off"], rq["len"], pobj)
            else:
                ctx.delete_at(b, rq["off"], rq["len"], retarget_to_proxy=rec["proxy"])
            self.reqs[i].append(rec)
            self.regid[i] += 1
            k += 1
        return k

    def end_module(self, pidx: int, module):
        i = self.mi(module)
        fault = self.pc.get("fault") or 0
        if fault and fault[0] == "end" and fault[1] == pidx and fault[2] == i + 1:
            raise InjectedFault("end_module")
        self.emit("end_module", pidx, i + 1, 0)

    def hook(self, event: str, f: dict):
        if event == "apply_begin":
            i = self.mi(f["context"]._module)
            self.current = i
            self.stage[i] = "apply"
            self.inside = i
            self.emit("apply_begin", 0, i + 1, 0)
        elif event == "apply_end":
            i = self.mi(f["context"]._module)
            self._pending_end = i

    def execute(self) -> dict:
        pm = PassManager()
        for k in range(self.pc["np"]):
            pm.add(RecordingPass(self, k + 1))
        orig_cfg = self.ir.cfg
        # apply_end fires inside the cache context, before the byte intervals are joined
        # again; the event is logged when apply() has really returned, i.e. at the first
        # callback after it (end_module / next begin_module / return of run)
        self._pending_end = None
        outer = self

        class Flush:
            def __call__(self_inner):
                if outer._pending_end is not None:
                    i = outer._pending_end
                    outer._pending_end = None
                    outer.stage[i] = "done"
                    if outer.inside == i:
                        outer.inside = -1
                    outer.emit("apply_end", 0, i + 1, 0)

        flush = Flush()
        orig_emit = self.emit

        def emit_flushing(ev, p=0, m=0, k=0):
            if ev != "apply_end":
                flush()
            orig_emit(ev, p, m, k)

        self.emit = emit_flushing
        _verif.install(self.hook)
        self.emit("run_begin")
        abort = ""
        try:
            pm.run(self.ir)
            self.emit("run_end")
        except BaseException as e:
            abort = exc_name(e)
            if os.environ.get("VERIF_DEBUG"):
                traceback.print_exc()
            if self._pending_end is not None:
                if isinstance(e, InjectedFault):
                    flush()     # apply() had returned; the callback after it raised
                else:
                    # apply() itself failed after the hook (while joining intervals)
                    self._pending_end = None
            if self.current >= 0 and not isinstance(e, InjectedFault):
                self.exc[self.current] = abort
            orig_emit("run_abort")
        finally:
            _verif.install(None)
        mods = []
        if not self.pc.get("fault"):
            for i, m in enumerate(self.mods):
                case = self.pc["mods"][i]
                shape = case["shape"]
                mods.append({"id": f"{self.pc['id']}/m{i + 1}", "pre": self.pre[i], "reqs": self.reqs[i],
                             "post": self.projs[i].project(), "exc": self.exc[i],
                             "stage": self.stage[i] if self.reqs[i] or self.exc[i] else "done",
                             "nfun": len(self.rs[i].functions), "isa": shape.get("isa", "x64"),
                             "fmt": shape.get("fmt", "elf"), "whole": whole_ir_report(m, orig_cfg),
                             "fault": 0, "ninv": len(self.ctxlog),
                             "insfn": {"name": "", "patch": EMPTY_PATCH}, "retarget": []})
        return {"id": self.pc["id"], "np": self.pc["np"], "nm": len(self.mods),
                "dig0": self.events[0]["dig"], "events": self.events, "mods": mods,
                "nreg": [len(r) for r in self.reqs], "abort": abort}


def run_pm(pc: dict) -> dict:
    return Run(pc).execute()


def main(argv):
    src, dst = argv[1], argv[2]
    with open(src) as f, open(dst, "w") as out:
        for line in f:
            if line.strip():
                out.write(json.dumps(run_pm(json.loads(line)), separators=(",", ":")) + "\n")


if __name__ == "__main__":
    main(sys.argv)
