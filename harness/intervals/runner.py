"""Run C10 cases (byte-interval layouts) through the real
``split_byte_interval`` / ``join_byte_intervals`` and through an empty
``RewritingContext.apply()`` and record what happened.

    python -m harness.intervals.runner cases.ndjson traces.ndjson

A case is one layout (spec/Intervals.tla, operator CaseOf) plus the list of
call variants ``vs`` it is to be run under.  Every (case, variant) pair gives
one trace line ``{"id": "<case>#<k>", "v": variant, "pre", "mid", "post",
"exc", "stage", ...}``.  The projections are mechanical; nothing here computes
an expected value (spec/TraceIntervals.tla judges).

Projection of a state:  {"ivs": [interval...], "items": [...], "al": [...]}
  interval: id (100 = the original, 101.. = created by the split, in returned
            order), addr (-1 = none), size, init, by (the initialized bytes),
            blocks [{id,k,o,s}] (id = index in the case, 0 = created by the
            library; listed in the ITERATION order of interval.blocks, which is
            what the library's sorted()/min()/max() tie-breaking sees),
            sx [{o,v}]
  items:    offset-keyed table entries {t,kk,own,d,v}: table, key kind
            ("bi" interval / "blk" block), owner id, displacement, value
  al:       the alignment mapping handed to the library [{b,a}]

Variant fields: op, mod (module ISA or "none"), fmt, tab (default aux tables /
custom ``tables``), al (alignment as argument / aux table / none), nop, grow
(bytes a rewrite appends to the first interval between split and join), late
(an annotation a rewrite adds to the last interval), ord (order in which the
annotation entries are inserted into the unordered offset tables).
"""
import json
import os
import random
import sys
import traceback
from typing import Dict, List, Optional

import gtirb
import gtirb_functions

import gtirb_rewriting._auxdata as _auxdata
from gtirb_rewriting import OffsetMapping, RewritingContext
from gtirb_rewriting.intervalutils import (
    join_byte_intervals,
    split_byte_interval,
)

ISAS = {
    "x64": gtirb.Module.ISA.X64,
    "ia32": gtirb.Module.ISA.IA32,
    "arm64": gtirb.Module.ISA.ARM64,
    "mips32": gtirb.Module.ISA.MIPS32,
}
FORMATS = {"elf": gtirb.Module.FileFormat.ELF, "pe": gtirb.Module.FileFormat.PE}
TOK0 = 0x10  # byte i of the interval is TOK0 + i
NOP_BYTES = {"n1": bytes([0x90]), "n4": bytes([0x1F, 0x20, 0x03, 0xD5])}
ENC_BYTES = {"e1": bytes([0x91]), "e4": bytes([0xA1, 0xA2, 0xA3, 0xA4])}
AUX = {
    "com": ("comments", _auxdata.comments),
    "pad": ("padding", _auxdata.padding),
    "sxs": ("symbolicExpressionSizes", _auxdata.symbolic_expression_sizes),
}
TEXT_FLAGS = {
    gtirb.Section.Flag.Readable,
    gtirb.Section.Flag.Executable,
    gtirb.Section.Flag.Loaded,
    gtirb.Section.Flag.Initialized,
}
DATA_FLAGS = {
    gtirb.Section.Flag.Readable,
    gtirb.Section.Flag.Writable,
    gtirb.Section.Flag.Loaded,
    gtirb.Section.Flag.Initialized,
}
DecodeDefault = gtirb.CodeBlock.DecodeMode.Default


def item_value(t: str, kk: str, b: int, d: int):
    if t == "com":
        return f"c{b}.{d}"
    if t == "pad":
        return d + 1
    return 4


class World:
    """Handles to the real objects a case was rendered to."""

    def __init__(self):
        self.ir: Optional[gtirb.IR] = None
        self.module: Optional[gtirb.Module] = None
        self.interval: gtirb.ByteInterval = None  # type: ignore
        self.blocks: List[gtirb.ByteBlock] = []
        self.ids: Dict[object, int] = {}  # uuid -> small id
        self.custom: Dict[str, OffsetMapping] = {}
        self.al_arg: Optional[dict] = None
        self.realized = True
        self.keep: list = []


def place_blocks(w: World, case: dict) -> None:
    """Creates the blocks so that the library's ``sorted(interval.blocks,
    key=offset)`` visits them in the order the case lists them (blocks with
    equal offsets are ordered by the iteration order of a set keyed by object
    identity; fresh objects are tried until the requested order comes out)."""
    bi = w.interval
    specs = case["blocks"]
    objs: List[gtirb.ByteBlock] = []
    for attempt in range(200):
        objs = []
        for sp in specs:
            cls = gtirb.CodeBlock if sp["k"] == "c" else gtirb.DataBlock
            objs.append(cls(offset=sp["o"], size=sp["s"]))
        for b in objs:
            bi.blocks.add(b)
        got = sorted(bi.blocks, key=lambda b: b.offset)
        if all(g is o for g, o in zip(got, objs)):
            w.realized = True
            break
        w.realized = False
        for b in objs:
            bi.blocks.discard(b)
        w.keep.append(objs)
    else:
        for b in objs:
            bi.blocks.add(b)
    w.blocks = objs
    for i, b in enumerate(objs):
        w.ids[b.uuid] = i + 1


def render(case: dict, v: dict) -> World:
    w = World()
    n, init = case["n"], case["init"]
    addr = None if case["addr"] < 0 else case["addr"]
    section = None
    if v["mod"] != "none":
        w.ir = gtirb.IR()
        w.module = gtirb.Module(
            name="m", isa=ISAS[v["mod"]], file_format=FORMATS[v.get("fmt", "elf")],
            ir=w.ir,
        )
        section = gtirb.Section(name=".text", flags=set(TEXT_FLAGS), module=w.module)
    bi = gtirb.ByteInterval(
        address=addr, size=n, contents=bytes(TOK0 + i for i in range(init)),
        section=section,
    )
    w.interval = bi
    w.ids[bi.uuid] = 100
    place_blocks(w, case)
    m = w.module
    for o in case["sx"]:
        sym = gtirb.Symbol(name=f"s{o}", module=m) if m is not None else gtirb.Symbol(name=f"s{o}")
        w.keep.append(sym)
        bi.symbolic_expressions[o] = gtirb.SymAddrConst(0, sym)
    # offset-keyed annotations
    if v["tab"] == "custom":
        w.custom["x:com"] = OffsetMapping()
    # The tables are unordered containers: the entries are inserted in the
    # order the variant asks for (ascending / descending / seeded shuffle).
    items = list(case["items"])
    order = v.get("ord", "asc")
    if order == "desc":
        items.reverse()
    elif order == "shuf":
        random.Random(
            f"{os.environ.get('VERIF_SEED', '0')}:{case.get('id', '')}:{v.get('mod')}:{v.get('tab')}"
        ).shuffle(items)
    for it in items:
        key_node = bi if it["kk"] == "bi" else w.blocks[it["b"] - 1]
        key = gtirb.Offset(key_node, it["d"])
        val = item_value(it["t"], it["kk"], it["b"], it["d"])
        if v["tab"] == "custom":
            w.custom.setdefault("x:" + it["t"], OffsetMapping())[key] = val
            if m is not None and it["t"] == "com":
                # decoy in a table that is NOT handed to the library
                _auxdata.comments.get_or_insert(m)[key] = "decoy"
        elif m is not None:
            AUX[it["t"]][1].get_or_insert(m)[key] = val
    # alignment
    amap = {w.blocks[i]: sp["a"] for i, sp in enumerate(case["blocks"]) if sp["a"]}
    if v["al"] == "arg":
        w.al_arg = amap
    elif v["al"] == "aux" and m is not None and amap:
        _auxdata.alignment.get_or_insert(m).update(amap)
    return w


def table_views(w: World):
    """(name, iterable of (Offset, value)) of every offset-keyed table."""
    out = []
    if w.module is not None:
        for name in ("comments", "padding", "symbolicExpressionSizes", "cfiDirectives"):
            ad = w.module.aux_data.get(name)
            if ad is not None:
                out.append((name, list(ad.data.items())))
    for name, tab in sorted(w.custom.items()):
        out.append((name, list(tab.items())))
    return out


def val_str(v) -> str:
    if isinstance(v, (list, tuple)):
        return "[" + ",".join(val_str(x) for x in v) + "]"
    if isinstance(v, (int, str)):
        return str(v)
    return type(v).__name__


def sx_str(e) -> str:
    if isinstance(e, gtirb.SymAddrConst):
        return f"{e.symbol.name}+{e.offset}"
    return type(e).__name__


def project_interval(w: World, iv: gtirb.ByteInterval, canonical: bool) -> dict:
    blocks = []
    for b in iv.blocks:  # iteration order of the real container
        blocks.append({
            "id": w.ids.get(b.uuid, 0),
            "k": "c" if isinstance(b, gtirb.CodeBlock) else "d",
            "o": b.offset, "s": b.size,
        })
    if canonical:
        blocks.sort(key=lambda d: (d["id"] == 0, d["id"], d["o"], d["s"], d["k"]))
    return {
        "id": w.ids.get(iv.uuid, -1),
        "addr": -1 if iv.address is None else iv.address,
        "size": iv.size,
        "init": iv.initialized_size,
        "by": list(bytes(iv.contents)),
        "blocks": blocks,
        "sx": [{"o": o, "v": sx_str(e)} for o, e in sorted(iv.symbolic_expressions.items())],
    }


def project(w: World, intervals: List[gtirb.ByteInterval], canonical: bool = False) -> dict:
    items = []
    for name, entries in table_views(w):
        for off, val in entries:
            node = off.element_id
            items.append({
                "t": name,
                "kk": "bi" if isinstance(node, gtirb.ByteInterval) else "blk",
                "own": w.ids.get(getattr(node, "uuid", None), -1),
                "d": off.displacement,
                "v": val_str(val),
            })
    items.sort(key=lambda d: (d["t"], d["kk"], d["own"], d["d"]))
    al = []
    amap = w.al_arg
    if amap is None and w.module is not None and "alignment" in w.module.aux_data:
        amap = w.module.aux_data["alignment"].data
    for node, a in (amap or {}).items():
        al.append({"b": w.ids.get(getattr(node, "uuid", None), -1), "a": int(a)})
    al.sort(key=lambda d: (d["b"], d["a"]))
    return {"ivs": [project_interval(w, iv, canonical) for iv in intervals],
            "items": items, "al": al}


def run_sj(case: dict, v: dict) -> dict:
    w = render(case, v)
    bi = w.interval
    pre = project(w, [bi])
    tables = None if v["tab"] == "default" else [t for _, t in sorted(w.custom.items())]
    nop = NOP_BYTES.get(v["nop"][-2:]) if v["nop"] != "no" else None
    enc = ENC_BYTES.get(v["nop"][:2])
    nop_encodings = {DecodeDefault: enc} if enc is not None else None
    exc, stage = "", "split"
    res = [bi]
    ret = -1
    mid = pre
    mid2 = None
    grown = 0
    late = 0
    try:
        res = split_byte_interval(bi, alignment=w.al_arg, tables=tables)
        for iv in res:
            if iv.uuid not in w.ids:
                w.ids[iv.uuid] = 100 + len([1 for x in w.ids.values() if x >= 100])
        stage = "join"
        mid = project(w, res)
        first = res[0]
        if v.get("grow", 0) > 0 and first.initialized_size == first.size:
            # what a rewrite does to the first interval: it becomes longer
            grown = v["grow"]
            first.contents = bytes(first.contents) + bytes(0x60 + i for i in range(grown))
            first.size += grown
        if v.get("late", 0) and len(res) >= 2:
            # what a rewrite may do: annotate an interval that is not the
            # destination of the join
            late = 1
            key = gtirb.Offset(res[-1], 0)
            if v["tab"] == "custom":
                w.custom["x:com"][key] = "late"
            elif w.module is not None:
                _auxdata.comments.get_or_insert(w.module)[key] = "late"
            else:
                late = 0
        if grown or late:
            mid2 = project(w, res)
        out = join_byte_intervals(
            list(res), nop=nop, alignment=w.al_arg, tables=tables,
            nop_encodings=nop_encodings,
        )
        ret = w.ids.get(out.uuid, -1)
        stage = "done"
    except BaseException as e:  # observed; judged in TLA+
        exc = type(e).__name__
        if os.environ.get("VERIF_DEBUG"):
            traceback.print_exc()
    if stage == "split":
        mid = project(w, res)
    post = project(w, res, canonical=True)
    return {
        "v": v, "pre": pre, "mid": mid, "post": post, "exc": exc, "stage": stage,
        "ret": ret, "realized": w.realized, "grown": grown, "late": late,
        **({"mid2": mid2} if mid2 is not None else {}),
        "nopb": list(nop or b""), "encb": list(enc or b""),
    }


# ---------------------------------------------------------------------------
# empty apply()
# ---------------------------------------------------------------------------
def render_module(case: dict, v: dict) -> World:
    w = render(case, dict(v, tab="default", al="aux"))
    m = w.module
    assert m is not None
    bi = w.interval
    data = gtirb.Section(name=".data", flags=set(DATA_FLAGS), module=m)
    dbi = gtirb.ByteInterval(address=0x3000, size=4, contents=b"\x61\x62\x63\x64", section=data)
    w.ids[dbi.uuid] = 200
    db = gtirb.DataBlock(offset=0, size=4, byte_interval=dbi)
    w.ids[db.uuid] = 9
    gtirb.Symbol(name="dat", payload=db, module=m)
    _auxdata.comments.get_or_insert(m)[gtirb.Offset(dbi, 1)] = "d1"
    code = [b for b in w.blocks if isinstance(b, gtirb.CodeBlock)]
    for i, b in enumerate(w.blocks):
        gtirb.Symbol(name=f"b{i + 1}", payload=b, module=m)
    if w.blocks:
        gtirb.Symbol(name="e_last", payload=w.blocks[-1], at_end=True, module=m)
    for a, b in zip(code, code[1:]):
        w.ir.cfg.add(gtirb.Edge(a, b, gtirb.Edge.Label(gtirb.Edge.Type.Fallthrough)))
    if code:
        import uuid as _uuid

        fu = _uuid.UUID(int=0xF0)
        name_sym = next(s for s in m.symbols if s.referent is code[0] and not s.at_end)
        m.aux_data["functionEntries"] = gtirb.AuxData({fu: {code[0]}}, "mapping<UUID,set<UUID>>")
        m.aux_data["functionBlocks"] = gtirb.AuxData({fu: set(code)}, "mapping<UUID,set<UUID>>")
        m.aux_data["functionNames"] = gtirb.AuxData({fu: name_sym}, "mapping<UUID,UUID>")
        _auxdata.cfi_directives.get_or_insert(m)[gtirb.Offset(code[0], 0)] = [
            (".cfi_def_cfa_offset", [16], _auxdata.NULL_UUID)
        ]
    if w.blocks:
        m.entry_point = code[0] if code else None
    return w


def module_extras(w: World) -> dict:
    m = w.module
    assert m is not None

    def nid(node) -> str:
        if node is None:
            return "none"
        if isinstance(node, gtirb.ProxyBlock):
            return "proxy"
        if isinstance(node, gtirb.ByteBlock):
            known = w.ids.get(node.uuid, 0)
            live = node.byte_interval is not None and node.byte_interval.module is m
            return f"blk{known}" if live else f"stale{known}"
        return str(node)

    syms = sorted(
        f"{s.name}|{nid(s._payload) if not isinstance(s._payload, int) else s._payload}|{int(bool(s.at_end))}"
        for s in m.symbols
    )
    edges = sorted(
        f"{nid(e.source)}>{nid(e.target)}|{e.label.type.name if e.label else '-'}"
        f"|{int(bool(e.label and e.label.conditional))}|{int(bool(e.label.direct)) if e.label else 1}"
        for e in m.ir.cfg
    )
    fns = []
    for tab in ("functionEntries", "functionBlocks"):
        ad = m.aux_data.get(tab)
        if ad is not None:
            for u, bs in ad.data.items():
                fns.append(f"{tab}|{u.int}|" + ",".join(sorted(nid(b) for b in bs)))
    ad = m.aux_data.get("functionNames")
    if ad is not None:
        for u, s in ad.data.items():
            fns.append(f"functionNames|{u.int}|{getattr(s, 'name', '?')}")
    secs = sorted(f"{s.name}|{len(s.byte_intervals)}|{','.join(sorted(f.name for f in s.flags))}"
                  for s in m.sections)
    leaf = []
    ad = m.aux_data.get("leafFunctions")
    if ad is not None:
        leaf = sorted(f"{u.int}|{v}" for u, v in ad.data.items())
    return {
        "syms": syms, "edges": edges, "fns": sorted(fns), "secs": secs,
        "aux": sorted(m.aux_data.keys()), "leaf": leaf,
        "entry": nid(m.entry_point), "nproxy": len(m.proxies),
    }


def module_intervals(w: World) -> List[gtirb.ByteInterval]:
    m = w.module
    assert m is not None
    ivs = list(m.byte_intervals)
    ivs.sort(key=lambda iv: (iv.section.name, iv.address if iv.address is not None else -1,
                             w.ids.get(iv.uuid, 1 << 20)))
    k = 300
    for iv in ivs:
        if iv.uuid not in w.ids:
            w.ids[iv.uuid] = k
            k += 1
    return ivs


def run_apply(case: dict, v: dict) -> dict:
    w = render_module(case, v)
    m = w.module
    assert m is not None
    functions = (gtirb_functions.Function.build_functions(m)
                 if "functionEntries" in m.aux_data else [])
    pre = project(w, module_intervals(w), canonical=True)
    pre_x = module_extras(w)
    exc, stage = "", "init"
    try:
        ctx = RewritingContext(m, functions)
        stage = "apply"
        ctx.apply()
        stage = "done"
    except BaseException as e:  # observed; judged in TLA+
        exc = type(e).__name__
        if os.environ.get("VERIF_DEBUG"):
            traceback.print_exc()
    post = project(w, module_intervals(w), canonical=True)
    post_x = module_extras(w)
    return {"v": v, "pre": pre, "post": post, "prex": pre_x, "postx": post_x,
            "exc": exc, "stage": stage, "realized": w.realized}


# ---------------------------------------------------------------------------
# a rewrite that adds an alignment requirement: a patch containing `.align N`
# ---------------------------------------------------------------------------
CODE0 = 0x50  # one-byte instructions (push %r..): every offset is a boundary


def alpatch_text(v: dict) -> str:
    return "push %rdi\n" * v["pre"] + f".align {v['n']}\npush %rbx\npop %rbx\n"


def assemble_alpatch(v: dict) -> dict:
    """The patch assembled on its own (independent of the rewrite): the bytes
    before the `.align`, the bytes from it on, and the alignment it asks for."""
    from gtirb_rewriting.assembler import Assembler
    from gtirb_rewriting.assembly import X86Syntax

    ir = gtirb.IR()
    m = gtirb.Module(name="p", isa=ISAS[v["mod"]], file_format=FORMATS[v["fmt"]],
                     byte_order=gtirb.Module.ByteOrder.Little, ir=ir)
    asm = Assembler(m, temp_symbol_suffix="_0")
    asm.assemble(alpatch_text(v), X86Syntax.ATT)
    ts = asm.finalize().text_section
    aligned = [b for b in ts.blocks if b in ts.alignment]
    cut = aligned[0].offset if aligned else len(ts.data)
    return {"pp": list(bytes(ts.data[:cut])), "pa": list(bytes(ts.data[cut:])),
            "n": int(ts.alignment[aligned[0]]) if aligned else 0}


def table_state(m: gtirb.Module) -> str:
    if "alignment" not in m.aux_data:
        return "absent"
    return "entries" if len(m.aux_data["alignment"].data) else "empty"


def aligned_addresses(w: World) -> List[dict]:
    m = w.module
    out = []
    if m is not None and "alignment" in m.aux_data:
        for node, a in m.aux_data["alignment"].data.items():
            if isinstance(node, gtirb.ByteBlock) and node.byte_interval is not None \
                    and node.byte_interval.module is m:
                out.append({"id": w.ids.get(node.uuid, 0), "a": int(a),
                            "addr": -1 if node.address is None else node.address,
                            "o": node.offset, "s": node.size})
            else:
                out.append({"id": w.ids.get(getattr(node, "uuid", None), 0), "a": int(a),
                            "addr": -2, "o": 0, "s": 0})
    out.sort(key=lambda d: (d["addr"], d["a"], d["id"]))
    return out


def run_alpatch(case: dict, v: dict) -> dict:
    """The layout's blocks tile the interval with code; the alignment table of
    the module is absent / empty / has an entry for the first block; a patch
    with `.align N` is inserted into the second block."""
    from gtirb_rewriting import Patch, patch_constraints
    from gtirb_rewriting.assembly import X86Syntax

    w = World()
    w.ir = gtirb.IR()
    m = w.module = gtirb.Module(name="m", isa=ISAS[v["mod"]], file_format=FORMATS[v["fmt"]],
                                byte_order=gtirb.Module.ByteOrder.Little, ir=w.ir)
    sec = gtirb.Section(name=".text", flags=set(TEXT_FLAGS), module=m)
    bi = gtirb.ByteInterval(address=case["addr"], size=case["n"],
                            contents=bytes(CODE0 + i for i in range(case["n"])), section=sec)
    w.interval = bi
    w.ids[bi.uuid] = 100
    place_blocks(w, case)
    for i, b in enumerate(w.blocks):
        gtirb.Symbol(name=f"b{i + 1}", payload=b, module=m)
    for a, b in zip(w.blocks, w.blocks[1:]):
        w.ir.cfg.add(gtirb.Edge(a, b, gtirb.Edge.Label(gtirb.Edge.Type.Fallthrough)))
    if v["altab"] == "empty":
        _auxdata.alignment.get_or_insert(m)
    elif v["altab"] == "entries":
        _auxdata.alignment.get_or_insert(m)[w.blocks[0]] = 16
    patch = assemble_alpatch(v)
    text = alpatch_text(v)

    @patch_constraints(x86_syntax=X86Syntax.ATT)
    def fn(ctx):
        return text

    pre = project(w, [bi], canonical=True)
    tab_pre = table_state(m)
    alx_pre = aligned_addresses(w)
    target = w.blocks[1]
    exc, stage = "", "init"
    try:
        ctx = RewritingContext(m, [])
        ctx.insert_at(target, v["off"], Patch.from_function(fn))
        stage = "apply"
        ctx.apply()
        stage = "done"
    except BaseException as e:  # observed; judged in TLA+
        exc = type(e).__name__
        if os.environ.get("VERIF_DEBUG"):
            traceback.print_exc()
    post = project(w, module_intervals(w), canonical=True)
    return {"v": v, "pre": pre, "post": post, "exc": exc, "stage": stage,
            "p": target.offset + v["off"] if stage == "init" else case["blocks"][1]["o"] + v["off"],
            "pp": patch["pp"], "pa": patch["pa"], "pn": patch["n"],
            "tabpre": tab_pre, "tabpost": table_state(m),
            "alxpre": alx_pre, "alx": aligned_addresses(w), "realized": w.realized}


def run_case(case: dict) -> List[dict]:
    out = []
    for k, v in enumerate(case["vs"]):
        if v["op"] == "apply":
            tr = run_apply(case, v)
        elif v["op"] == "alpatch":
            tr = run_alpatch(case, v)
        else:
            tr = run_sj(case, v)
        tr["id"] = f"{case['id']}#{k}"
        out.append(tr)
    return out


def main(argv):
    """runner.py CASES.ndjson TRACES.ndjson"""
    src, dst = argv[1], argv[2]
    n = 0
    with open(src) as f, open(dst, "w") as out:
        for line in f:
            line = line.strip()
            if not line:
                continue
            for tr in run_case(json.loads(line)):
                out.write(json.dumps(tr, separators=(",", ":")) + "\n")
                n += 1
    print(f"ran {n} runs")


if __name__ == "__main__":
    main(sys.argv)
