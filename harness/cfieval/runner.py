"""Run C15 cases (CFI directive token streams emitted by spec/CfiEval.tla)
through the real ``evaluate_cfi_directives`` and record what it did.

case  = {id, toks, groups:[{blk, off, idx}], esc, abis:[name], rev, gap,
         ins: "asc"|"desc"|"shuf", iseed, pb}
trace = {id, toks, runs:[{abi, exc, ys:[{b, o, now, cp:{same, st}}]}]}

For every ABI the case names, the token stream is rendered into the
``cfiDirectives`` table of a fresh gtirb module (one code block per ``blk``,
directives keyed by ``Offset(block, off)``; the entries are inserted in the
order ``ins`` says - an aux-data mapping has no order, the evaluator has to
visit the offsets of a block ascending anyway - and, with ``pb``, the IR goes
through a protobuf save / load first), the generator is driven to
exhaustion, and for every yield the runner records
  * ``now``: the yielded state projected immediately,
  * ``cp``:  ``copy.copy`` of the yielded state taken at yield time and
             projected only after the generator is exhausted (or has raised),
  * the position (index of the block, offset).
The exception type name (if any) is recorded.  Nothing here computes an
expected value: the judge is spec/TraceCfiEval.tla.
"""
import copy
import dataclasses
import io
import json
import os
import random
import sys
import traceback
import uuid
from typing import Any, Dict, List

import gtirb
from gtirb_test_helpers import (
    add_code_block,
    add_symbol,
    add_text_section,
    create_test_module,
)

from gtirb_rewriting._auxdata import NULL_UUID
from gtirb_rewriting.dwarf import cfi_eval as ce

BLOCK_SIZE = 16

ABIS = {
    "x64-elf": (gtirb.Module.FileFormat.ELF, gtirb.Module.ISA.X64, gtirb.Module.ByteOrder.Little),
    "x64-pe": (gtirb.Module.FileFormat.PE, gtirb.Module.ISA.X64, gtirb.Module.ByteOrder.Little),
    "ia32-pe": (gtirb.Module.FileFormat.PE, gtirb.Module.ISA.IA32, gtirb.Module.ByteOrder.Little),
    "arm64-elf": (gtirb.Module.FileFormat.ELF, gtirb.Module.ISA.ARM64, gtirb.Module.ByteOrder.Little),
    "mips32-elf": (gtirb.Module.FileFormat.ELF, gtirb.Module.ISA.MIPS32, gtirb.Module.ByteOrder.Big),
}

# operands of each directive, as fields of the token record
ARGS = {
    "startproc": (), "endproc": (), "remember_state": (), "restore_state": (),
    "def_cfa": ("r", "n"), "def_cfa_register": ("r",), "def_cfa_offset": ("n",),
    "adjust_cfa_offset": ("n",), "offset": ("r", "n"), "rel_offset": ("r", "n"),
    "val_offset": ("r", "n"), "register": ("r", "n"), "undefined": ("r",),
    "same_value": ("r",), "restore": ("r",), "personality": ("r",), "lsda": ("r",),
    "return_column": ("r",),
}
DANGLING = uuid.UUID(int=0xC15)


def insertion_order(case: dict, n: int) -> List[int]:
    """Order in which the n table entries (groups) are inserted: the evaluator
    must visit the offsets of a block in ascending order whatever this is."""
    order = list(range(n))
    ins = case.get("ins", "asc")
    if ins == "desc":
        order.reverse()
    elif ins == "shuf":
        random.Random(case.get("iseed", 0)).shuffle(order)
    return order


def render(case: dict, abi: str):
    """Builds the module; returns (module, blocks carrying directives by
    index, all code blocks in address order).  case["ins"] selects the
    insertion order of the table entries; case["pb"] passes the whole IR
    through a protobuf save / load before it is handed to the evaluator."""
    fmt, isa, order = ABIS[abi]
    ir, m = create_test_module(fmt, isa, byte_order=order)
    _, bi = add_text_section(m, address=0x1000)
    groups = case["groups"]
    nblk = max(g["blk"] for g in groups) + 1
    blocks = []
    for i in range(nblk):
        blocks.append(add_code_block(bi, b"\0" * BLOCK_SIZE))
        if case.get("gap"):  # a block without any directive in between
            add_code_block(bi, b"\0" * 4)
    syms: Dict[str, gtirb.Symbol] = {}
    toks = case["toks"]
    entries = []
    for g in groups:
        ds = []
        for i in g["idx"]:
            t = toks[i - 1]
            op = t["op"]
            if op == "escape":
                ds.append((".cfi_escape", list(case["esc"][i - 1][abi]), NULL_UUID))
                continue
            ref: Any = NULL_UUID
            if t["sym"] == "?":
                ref = DANGLING
            elif t["sym"]:
                if t["sym"] not in syms:
                    syms[t["sym"]] = add_symbol(m, t["sym"], gtirb.ProxyBlock(module=m))
                ref = syms[t["sym"]]
            ds.append((".cfi_" + op, [t[f] for f in ARGS[op]], ref))
        entries.append((gtirb.Offset(blocks[g["blk"]], g["off"]), ds))
    table = m.aux_data["cfiDirectives"].data
    for k in insertion_order(case, len(entries)):
        table[entries[k][0]] = entries[k][1]
    if case.get("pb"):
        buf = io.BytesIO()
        ir.save_protobuf_file(buf)
        buf.seek(0)
        ir = gtirb.IR.load_protobuf_file(buf)
        (m,) = ir.modules
        (bi,) = m.byte_intervals
        by_off = {b.offset: b for b in bi.blocks}
        blocks = [by_off[b.offset] for b in blocks]
    every = [b for b in sorted(bi.blocks, key=lambda b: b.offset)]
    return m, blocks, every


def project_expr(ops) -> List[dict]:
    out = []
    for op in ops:
        vals = [getattr(op, f.name) for f in dataclasses.fields(op)]
        vals = [int(v) for v in vals] + [0, 0]
        out.append({"o": type(op).__name__, "a": vals[0], "b": vals[1]})
    return out


def project_rule(r: int, rule) -> dict:
    k, n, e = "?" + type(rule).__name__, 0, []
    if isinstance(rule, ce.RegisterUndefined):
        k = "undefined"
    elif isinstance(rule, ce.RegisterSameValue):
        k = "same_value"
    elif isinstance(rule, ce.RegisterOffset):
        k, n = "offset", rule.offset
    elif isinstance(rule, ce.RegValOffset):
        k, n = "val_offset", rule.offset
    elif isinstance(rule, ce.RegisterInRegister):
        k, n = "register", rule.register
    elif isinstance(rule, ce.RegisterAtExpression):
        k, e = "expression", project_expr(rule.expression)
    elif isinstance(rule, ce.RegisterIsExpression):
        k, e = "val_expression", project_expr(rule.expression)
    return {"r": int(r), "k": k, "n": int(n), "e": e}


def project_cfa(cfa) -> dict:
    if cfa is None:
        return {"k": "none", "r": 0, "n": 0, "e": []}
    if isinstance(cfa, ce.CFARegisterOffset):
        return {"k": "regoff", "r": int(cfa.register), "n": int(cfa.offset), "e": []}
    if isinstance(cfa, ce.CFAExpression):
        return {"k": "expression", "r": 0, "n": 0, "e": project_expr(cfa.expression)}
    return {"k": "?" + type(cfa).__name__, "r": 0, "n": 0, "e": []}


def project_row(row) -> dict:
    return {"cfa": project_cfa(row.cfa),
            "regs": [project_rule(r, row.registers[r]) for r in sorted(row.registers)]}


def project_ptr(p) -> dict:
    if p is None:
        return {"set": False, "enc": 0, "sym": ""}
    return {"set": True, "enc": int(p.encoding), "sym": p.symbol.name}


def project_state(st) -> dict:
    if st is None:
        return {"proc": False}
    return {"proc": True, "retcol": int(st.return_column),
            "pers": project_ptr(st.personality), "lsda": project_ptr(st.lsda),
            "cur": project_row(st.current), "init": project_row(st.initial),
            "stack": [project_row(r) for r in st.save_stack]}


def run_abi(case: dict, abi: str) -> dict:
    m, blocks, every = render(case, abi)
    index = {id(b): i for i, b in enumerate(blocks)}
    given = list(reversed(every)) if case.get("rev") else every
    pos, now, copies = [], [], []
    exc = ""
    try:
        for blk, off, st in ce.evaluate_cfi_directives(m, given):
            pos.append((index.get(id(blk), -1), int(off)))
            now.append(project_state(st))
            copies.append(copy.copy(st))
    except BaseException as e:  # observed, judged in TLA+
        exc = type(e).__name__
        if os.environ.get("VERIF_DEBUG"):
            traceback.print_exc()
    # only now, after the evaluation is over, look at the copies
    cps = [project_state(c) for c in copies]
    # (a copy whose projection is identical to the one taken at yield time is
    # recorded as {"same": true}: compression of the observation only)
    ys = []
    for p, n, c in zip(pos, now, cps):
        same = c == n
        ys.append({"b": p[0], "o": p[1], "now": n,
                   "cp": {"same": same, "st": {"proc": False} if same else c}})
    return {"abi": abi, "exc": exc, "ys": ys}


def run_case(case: dict) -> dict:
    return {"id": case["id"], "toks": case["toks"], "ins": case.get("ins", "asc"),
            "pb": bool(case.get("pb")),
            "runs": [run_abi(case, a) for a in case["abis"]]}


def main(argv):
    """runner.py CASES.ndjson TRACES.ndjson"""
    src, dst = argv[1], argv[2]
    n = 0
    with open(src) as f, open(dst, "w") as out:
        for line in f:
            line = line.strip()
            if not line:
                continue
            tr = run_case(json.loads(line))
            out.write(json.dumps(tr, separators=(",", ":")) + "\n")
            n += 1
    print(f"ran {n} cases")


if __name__ == "__main__":
    main(sys.argv)
