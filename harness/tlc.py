"""Thin driver around TLC: model checking runs, case-generation runs and trace
validation runs.  Exit-code policy lives in cli.py; here a failure of the
machinery raises MachineryError."""
import json
import os
import re
import shutil
import subprocess
import tempfile
import time
from concurrent.futures import ThreadPoolExecutor
from typing import Dict, List, Optional

VERIF = os.path.dirname(os.path.dirname(os.path.abspath(__file__)))
SPEC = os.path.join(VERIF, "spec")
WORK = os.path.join(VERIF, ".work")
TLA_JAR = "/opt/veriftools/tla/tla2tools.jar"
TLA_DEPS = "/opt/veriftools/tla/CommunityModules-deps.jar"


class MachineryError(RuntimeError):
    pass


def workdir(tag: str) -> str:
    os.makedirs(WORK, exist_ok=True)
    return tempfile.mkdtemp(prefix=tag + "-", dir=WORK)


def cleanup(path: str) -> None:
    shutil.rmtree(path, ignore_errors=True)


_STATS = re.compile(
    r"(\d+) states generated, (\d+) distinct states found, (\d+) states left"
)
_DEPTH = re.compile(r"The depth of the complete state graph search is (\d+)")


def _java_cmd(heap: str = "8g") -> List[str]:
    return [
        "java", "-XX:+UseParallelGC", f"-Xmx{heap}",
        "-cp", f"{TLA_JAR}:{TLA_DEPS}", "tlc2.TLC",
    ]


def run_tlc(spec: str, cfg: str, *, workers: int = 16, timeout: int = 600,
            env: Optional[Dict[str, str]] = None, out_path: Optional[str] = None,
            extra: Optional[List[str]] = None, heap: str = "8g") -> dict:
    """Runs TLC on spec/<spec>.tla with spec/<cfg>.  Returns a dict with
    the raw output path, statistics and error classification."""
    wd = workdir("tlc")
    try:
        meta = os.path.join(wd, "meta")
        out_file = out_path or os.path.join(wd, "out.txt")
        cmd = _java_cmd(heap) + [
            "-workers", str(workers), "-metadir", meta, "-noGenerateSpecTE",
            "-config", cfg,
        ] + (extra or []) + [spec]
        e = dict(os.environ)
        if env:
            e.update(env)
        t0 = time.time()
        with open(out_file, "w") as fo:
            try:
                p = subprocess.run(cmd, cwd=SPEC, stdout=fo, stderr=subprocess.STDOUT,
                                   env=e, timeout=timeout)
                rc = p.returncode
                timed_out = False
            except subprocess.TimeoutExpired:
                rc = -1
                timed_out = True
        wall = time.time() - t0
        res = {"rc": rc, "timed_out": timed_out, "wall": wall, "out": out_file,
               "generated": 0, "distinct": 0, "depth": 0, "error": "",
               "prints": []}
        tail_lines: List[str] = []
        with open(out_file, errors="replace") as f:
            for line in f:
                if line.startswith('"'):
                    if out_path is None:
                        res["prints"].append(line.rstrip("\n"))
                    continue
                m = _STATS.search(line)
                if m:
                    res["generated"] = int(m.group(1))
                    res["distinct"] = int(m.group(2))
                m = _DEPTH.search(line)
                if m:
                    res["depth"] = int(m.group(1))
                if line.startswith("Error:") and not res["error"]:
                    res["error"] = line.strip()
                if not line.startswith(("Linting", "Semantic", "Parsing")):
                    tail_lines.append(line)
                    if len(tail_lines) > 60:
                        tail_lines.pop(0)
        res["tail"] = "".join(tail_lines)
        if out_path is None:
            # keep nothing on disk
            pass
        return res
    finally:
        if out_path is None:
            cleanup(wd)
        else:
            cleanup(os.path.join(wd, "meta"))
            cleanup(wd)


def tla_string(line: str) -> str:
    """Decodes a PrintT'ed TLA+ string literal line into its text."""
    return json.loads(line)


def model_check(spec: str, cfg: str, **kw) -> dict:
    """MC run that must end with 'No error has been found'."""
    res = run_tlc(spec, cfg, **kw)
    ok = (res["rc"] == 0 and not res["error"] and res["distinct"] > 0)
    res["ok"] = ok
    return res


def generate(spec: str, cfg: str, prefix: str, dest: str, **kw) -> dict:
    """Runs a generation config and writes the JSON payload of every
    PrintT("<prefix> " \\o ToJson(..)) line to ``dest`` (ndjson)."""
    wd = workdir("gen")
    raw = os.path.join(wd, "raw.txt")
    try:
        res = run_tlc(spec, cfg, out_path=raw, **kw)
        n = 0
        pre = '"' + prefix + " "
        with open(raw, errors="replace") as f, open(dest, "w") as out:
            for line in f:
                if line.startswith(pre):
                    try:
                        txt = json.loads(line)
                    except json.JSONDecodeError:
                        continue
                    out.write(txt[len(prefix) + 1:] + "\n")
                    n += 1
        res["emitted"] = n
        # TLC's workers print in scheduling order: put the cases into a canonical order, so
        # that every seeded sampler downstream picks the same cases on every run
        if n > 1:
            subprocess.run(["sort", "-S", "1G", "-T", wd, "-o", dest, dest], check=True,
                           env=dict(os.environ, LC_ALL="C"))
        res["ok"] = (res["rc"] == 0 and not res["error"])
        if not res["ok"]:
            raise MachineryError(
                f"TLC generation {spec}/{cfg} failed: {res['error']}\n{res['tail']}")
        return res
    finally:
        cleanup(wd)


def validate_traces(spec: str, cfg: str, trace_file: str, *, timeout: int = 3600,
                    heap: str = "2g") -> List[dict]:
    """Runs a trace spec over one ndjson file; returns the verdict records.
    Raises MachineryError unless exactly one verdict per trace came back."""
    n_traces = sum(1 for line in open(trace_file) if line.strip())
    if n_traces == 0:
        return []
    res = run_tlc(spec, cfg, workers=1, timeout=timeout,
                  env={"TRACE_FILE": trace_file}, heap=heap)
    verdicts = []
    for line in res["prints"]:
        try:
            txt = tla_string(line)
        except json.JSONDecodeError:
            continue
        if txt.startswith("VERDICT "):
            verdicts.append(json.loads(txt[len("VERDICT "):]))
    if res["rc"] != 0 or res["error"] or len(verdicts) != n_traces:
        raise MachineryError(
            f"trace validation {spec} on {trace_file}: rc={res['rc']} "
            f"verdicts={len(verdicts)}/{n_traces} {res['error']}\n{res['tail']}")
    return verdicts


def validate_sharded(spec: str, cfg: str, shard_files: List[str], *, jobs: int = 8,
                     timeout: int = 3600) -> List[dict]:
    out: List[dict] = []
    with ThreadPoolExecutor(max_workers=jobs) as ex:
        for vs in ex.map(lambda f: validate_traces(spec, cfg, f, timeout=timeout), shard_files):
            out.extend(vs)
    return out


def sany(spec: str) -> bool:
    p = subprocess.run(
        ["java", "-cp", f"{TLA_JAR}:{TLA_DEPS}", "tla2sany.SANY", spec],
        cwd=SPEC, stdout=subprocess.PIPE, stderr=subprocess.STDOUT, text=True)
    return p.returncode == 0 and "Semantic errors" not in p.stdout and "***Parse Error***" not in p.stdout
