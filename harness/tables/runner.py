"""Runner of the table-walking operations (C18 retarget_symbol_uses, C19
delete_symbol).

    python -m harness.tables.runner CASES.ndjson TRACES.ndjson

Every case (emitted by TLC from Retarget.tla / DelSym.tla, field ``family``)
is rendered into a real gtirb module with gtirb_test_helpers, the real
RewritingContext API is called, and the module is *projected*: every symbol
mention (symbolic expressions with addend and attributes, CFI directives,
symbolForwarding, every symbol-keyed aux table), the block-level CFG, the
symbol set and the result of a protobuf save/load round trip.  Exceptions are
recorded by type name.  Nothing here computes an expected value: the verdicts
are TLA+ expressions (TraceRetarget.tla, TraceDelSym.tla).
"""
import collections.abc
import hashlib
import io
import json
import os
import sys
import traceback
import uuid
from typing import Any, Dict, List, Optional, Tuple

import gtirb
import gtirb_functions
import gtirb_test_helpers as gth
from gtirb_capstone.capstone_compatibility import capstone
from gtirb_capstone.instructions import GtirbInstructionDecoder

import gtirb_rewriting._auxdata as _auxdata
from gtirb_rewriting import Patch, RewritingContext, patch_constraints
from gtirb_rewriting.assembly import X86Syntax

NULL_UUID = _auxdata.NULL_UUID
ISA = gtirb.Module.ISA
FMT = gtirb.Module.FileFormat
BO = gtirb.Module.ByteOrder
ET = gtirb.Edge.Type
ATTR = gtirb.SymbolicExpression.Attribute

ABIS = {
    "x64-elf": (ISA.X64, FMT.ELF, BO.Little),
    "x64-pe": (ISA.X64, FMT.PE, BO.Little),
    "ia32-pe": (ISA.IA32, FMT.PE, BO.Little),
    "arm64-elf": (ISA.ARM64, FMT.ELF, BO.Little),
    "mips32-elf": (ISA.MIPS32, FMT.ELF, BO.Big),
}


# --------------------------------------------------------------------------
# instruction encodings (module construction only)
# --------------------------------------------------------------------------
def _w(isa, x):
    return x.to_bytes(4, "big" if isa == ISA.MIPS32 else "little")


def encode(isa, kind) -> Tuple[bytes, int]:
    """(bytes, offset of the symbolic operand or -1) of one instruction,
    including the delay slot on MIPS."""
    if isa in (ISA.X64, ISA.IA32):
        t = {
            "jmp": (b"\xe9\0\0\0\0", 1),
            "jcc": (b"\x0f\x84\0\0\0\0", 2),
            "call": (b"\xe8\0\0\0\0", 1),
            "ref": (b"\x48\x8d\x05\0\0\0\0", 3) if isa == ISA.X64 else (b"\x8d\x05\0\0\0\0", 2),
            "ret": (b"\xc3", -1),
            "nop": (b"\x90", -1),
            # call/jmp through the GOT slot of the operand, and a register-indirect jmp
            "icallg": (b"\xff\x15\0\0\0\0", 2),
            "ijmpg": (b"\xff\x25\0\0\0\0", 2),
            "ijmp": (b"\xff\xe0", -1),
        }
        return t[kind]
    if isa == ISA.ARM64:
        t = {
            "jmp": 0x14000000, "jcc": 0x54000000, "call": 0x94000000,
            "ref": 0x10000000, "ret": 0xD65F03C0, "nop": 0xD503201F,
        }
        return _w(isa, t[kind]), (0 if kind in ("jmp", "jcc", "call", "ref") else -1)
    if isa == ISA.MIPS32:
        t = {
            "jmp": 0x08000000, "jcc": 0x14850000, "call": 0x0C000000,
            "ref": 0x3C040000, "ret": 0x03E00008, "nop": 0,
        }
        by = _w(isa, t[kind])
        if kind in ("jmp", "jcc", "call", "ret"):
            by += _w(isa, 0)  # delay slot
        return by, (0 if kind in ("jmp", "jcc", "call", "ref") else -1)
    raise NotImplementedError(isa)


def patch_text(isa, kind, sym, add, attrs) -> str:
    at = set(attrs)
    if isa == ISA.X64:
        name = sym + ("@PLT" if at == {"PLT"} else "")
        if kind == "jmp":
            return f"jmp {name}"
        if kind == "jcc":
            return f"je {name}"
        if kind == "call":
            return f"call {name}"
        if kind == "ref":
            if at == {"GOT", "PCREL"}:
                return f"movq {sym}@GOTPCREL(%rip), %rax"
            off = f"+{add}" if add else ""
            return f"leaq {name}{off}(%rip), %rax"
    if isa == ISA.ARM64:
        if kind == "jmp":
            return f"b {sym}"
        if kind == "jcc":
            return f"b.eq {sym}"
        if kind == "call":
            return f"bl {sym}"
        if kind == "ref":
            off = f"+{add}" if add else ""
            return f"adr x0, {sym}{off}"
    raise NotImplementedError((isa, kind))


def make_patch(text: str) -> Patch:
    @patch_constraints(x86_syntax=X86Syntax.ATT)
    def fn(ctx):
        return text

    return Patch.from_function(fn)


# --------------------------------------------------------------------------
# observer
# --------------------------------------------------------------------------
def classify(insn, isa) -> str:
    """op | jmp | jcc | call | ret | ijmp | icall (capstone as observer;
    mnemonic based where capstone's groups are incomplete)."""
    m = insn.mnemonic
    if isa in (ISA.X64, ISA.IA32):
        groups = set(insn.groups)
        try:
            ops = insn.operands
        except Exception:
            ops = []
        imm = bool(ops) and ops[0].type == capstone.x86.X86_OP_IMM
        if capstone.CS_GRP_RET in groups or capstone.CS_GRP_IRET in groups:
            return "ret"
        if capstone.CS_GRP_CALL in groups:
            return "call" if imm else "icall"
        if capstone.CS_GRP_JUMP in groups:
            if m in ("jmp", "ljmp"):
                return "jmp" if imm else "ijmp"
            return "jcc"
        return "op"
    if isa == ISA.ARM64:
        if m == "ret":
            return "ret"
        if m == "bl":
            return "call"
        if m == "blr":
            return "icall"
        if m == "br":
            return "ijmp"
        if m == "b":
            return "jmp"
        if m.startswith("b.") or m in ("cbz", "cbnz", "tbz", "tbnz"):
            return "jcc"
        return "op"
    if isa == ISA.MIPS32:
        if m == "jr":
            return "ret" if "ra" in insn.op_str else "ijmp"
        if m in ("jal", "bal"):
            return "call"
        if m == "jalr":
            return "icall"
        if m in ("j", "b"):
            return "jmp"
        if m.startswith("b") and m not in ("break",):
            return "jcc"
        return "op"
    return "op"


_DECODERS: Dict[Any, GtirbInstructionDecoder] = {}


def decoder(isa):
    d = _DECODERS.get(isa)
    if d is None:
        d = _DECODERS[isa] = GtirbInstructionDecoder(isa)
    return d


class Projector:
    """Mechanical projection of a module to JSON facts.  Node ids are
    position based (kind + address) so that two renderings of the same case
    are comparable."""

    def __init__(self, module: gtirb.Module, naming=()):
        self.m = module
        # symbols of the rendered case: a proxy keeps the name it was rendered
        # under even after the symbol that named it has been deleted
        self.naming = list(naming)

    def sym_name(self, s) -> str:
        if isinstance(s, gtirb.Symbol):
            return s.name if s.module is self.m else "!" + s.name
        if isinstance(s, uuid.UUID):
            return "" if s == NULL_UUID else "?uuid"
        return "?" + type(s).__name__

    def project(self) -> dict:
        m = self.m
        isa = m.isa
        dec = decoder(isa)
        # ---- nodes
        blocks = sorted(
            m.byte_blocks,
            key=lambda b: (b.address if b.address is not None else -1,
                           b.size != 0, isinstance(b, gtirb.DataBlock)))
        nid: Dict[uuid.UUID, str] = {}
        used: Dict[str, int] = {}
        for b in blocks:
            base = ("c" if isinstance(b, gtirb.CodeBlock) else "d") + (
                "%x" % b.address if b.address is not None else "none")
            k = used.get(base, 0)
            used[base] = k + 1
            nid[b.uuid] = base if k == 0 else f"{base}.{k}"
        refs: Dict[uuid.UUID, List[str]] = {}
        for s in list(m.symbols) + [x for x in self.naming if x.module is not m]:
            r = s._payload
            if isinstance(r, gtirb.Block) and s.name not in refs.get(r.uuid, []):
                refs.setdefault(r.uuid, []).append(s.name)

        def node(n) -> str:
            if isinstance(n, gtirb.ProxyBlock):
                if n.module is not m:
                    return "P!"
                return "P:" + ",".join(sorted(refs.get(n.uuid, [])))
            if isinstance(n, gtirb.ByteBlock):
                return nid.get(n.uuid, "stale")
            return "?" + type(n).__name__

        insns: Dict[uuid.UUID, list] = {}
        oblocks = []
        for b in blocks:
            term = "none"
            units = []
            if isinstance(b, gtirb.CodeBlock) and b.size:
                o = 0
                for insn in dec.get_instructions(b):
                    k = classify(insn, isa)
                    units.append((o, insn.size, k))
                    o += insn.size
                    if k != "op":
                        term = k
            insns[b.uuid] = units
            oblocks.append({
                "id": nid[b.uuid],
                "k": "code" if isinstance(b, gtirb.CodeBlock) else "data",
                "n": b.size, "term": term,
                "by": bytes(b.contents).hex() if b.size else "",
            })
        # ---- symbolic expressions
        sx = []
        for bi in m.byte_intervals:
            bl = sorted(bi.blocks, key=lambda b: (b.offset, b.size))
            for off, e in sorted(bi.symbolic_expressions.items()):
                host = [b for b in bl if b.size and b.offset <= off < b.offset + b.size]
                blk, o, ik = "none", off, "none"
                if host:
                    b = host[0]
                    blk, o = nid[b.uuid], off - b.offset
                    ik = "data"
                    if isinstance(b, gtirb.CodeBlock):
                        ik = "op"
                        for (io_, n, k) in insns[b.uuid]:
                            if io_ <= o < io_ + n:
                                ik = k
                                break
                rec = {"blk": blk, "o": o, "ik": ik, "nh": len(host),
                       "at": sorted(a.name for a in e.attributes)}
                if isinstance(e, gtirb.SymAddrConst):
                    rec.update({"f": "C", "s1": self.sym_name(e.symbol), "s2": "",
                                "add": e.offset, "sc": 1})
                elif isinstance(e, gtirb.SymAddrAddr):
                    rec.update({"f": "A", "s1": self.sym_name(e.symbol1),
                                "s2": self.sym_name(e.symbol2),
                                "add": e.offset, "sc": e.scale})
                else:
                    rec.update({"f": "?", "s1": "", "s2": "", "add": 0, "sc": 1})
                sx.append(rec)
        sx.sort(key=lambda r: (r["blk"], r["o"]))
        # ---- CFI
        cfi = []
        tab = _auxdata.cfi_directives.get(m) or {}
        for off, ds in tab.items():
            el = off.element_id
            host = node(el) if isinstance(el, gtirb.Block) else "?" + type(el).__name__
            for i, (name, args, sym) in enumerate(ds):
                cfi.append({"blk": host, "d": off.displacement, "i": i,
                            "dir": name, "args": [int(a) for a in args],
                            "sym": self.sym_name(sym)})
        cfi.sort(key=lambda r: (r["blk"], r["d"], r["i"]))
        # ---- symbolForwarding
        fwd = sorted([self.sym_name(k), self.sym_name(v)]
                     for k, v in (_auxdata.symbol_forwarding.get(m) or {}).items())
        # ---- CFG
        edges = []
        for e in m.ir.cfg:
            if isinstance(e.source, gtirb.ByteBlock) and e.source.module is not m:
                continue
            lab = e.label
            edges.append({"s": node(e.source), "t": node(e.target),
                          "ty": lab.type.name if lab else "None",
                          "c": bool(lab.conditional) if lab else False,
                          "d": bool(lab.direct) if lab else True})
        edges.sort(key=lambda d: (d["s"], d["ty"], d["t"], d["c"], d["d"]))
        # ---- symbols
        syms = []
        for s in m.symbols:
            r = s._payload
            if r is None:
                k, rr = "none", ""
            elif isinstance(r, gtirb.ProxyBlock):
                k, rr = "ext", node(r)
            elif isinstance(r, gtirb.CodeBlock):
                k, rr = "code", node(r)
            elif isinstance(r, gtirb.DataBlock):
                k, rr = "data", node(r)
            else:
                k, rr = "int", str(int(r))
            syms.append({"n": s.name, "k": k, "r": rr, "e": bool(s.at_end)})
        syms.sort(key=lambda d: d["n"])
        # ---- functions
        fns = []
        fnames = _auxdata.function_names.get(m) or {}
        fent = _auxdata.function_entries.get(m) or {}
        fblk = _auxdata.function_blocks.get(m) or {}
        for u in sorted(set(fnames) | set(fent) | set(fblk), key=str):
            fns.append({
                "u": str(u)[-6:],
                "name": self.sym_name(fnames[u]) if u in fnames else "",
                "hasn": u in fnames,
                "ent": sorted(node(b) for b in fent.get(u, ())),
                "blk": sorted(node(b) for b in fblk.get(u, ())),
            })
        # ---- symbol keyed tables
        esi = sorted([self.sym_name(k), [v[0], v[1], v[2], v[3], v[4]]]
                     for k, v in (_auxdata.elf_symbol_info.get(m) or {}).items())
        tix = sorted([self.sym_name(k), [[a, int(b)] for a, b in v]]
                     for k, v in (_auxdata.elf_symbol_tab_idx_info.get(m) or {}).items())
        ver = {"has": False, "defs": [], "reqs": [], "ents": []}
        sv = _auxdata.elf_symbol_versions.get(m)
        if sv is not None:
            defs, reqs, ents = sv
            ver = {
                "has": True,
                "defs": [{"id": int(i), "names": list(v[0]), "flags": int(v[1])}
                         for i, v in sorted(defs.items())],
                "reqs": [{"lib": lib, "vers": [{"id": int(i), "v": s} for i, s in sorted(vs.items())]}
                         for lib, vs in sorted(reqs.items())],
                "ents": sorted(({"s": self.sym_name(k), "id": int(v[0]), "h": bool(v[1])}
                                for k, v in ents.items()), key=lambda d: d["s"]),
            }
        imp = [self.sym_name(s) for s in (_auxdata.pe_imported_symbols.get(m) or [])]
        exp = [self.sym_name(s) for s in (_auxdata.pe_exported_symbols.get(m) or [])]
        # ---- every other aux table: opaque digest
        special = {"cfiDirectives", "symbolForwarding", "functionNames",
                   "functionEntries", "functionBlocks", "elfSymbolInfo",
                   "elfSymbolTabIdxInfo", "elfSymbolVersions",
                   "peImportedSymbols", "peExportedSymbols"}

        def canon(v):
            if isinstance(v, gtirb.Symbol):
                return "S:" + self.sym_name(v)
            if isinstance(v, gtirb.Block):
                return "N:" + node(v)
            if isinstance(v, gtirb.Node):
                return "O:" + type(v).__name__ + ":" + getattr(v, "name", "")
            if isinstance(v, gtirb.Offset):
                return ["@", canon(v.element_id), v.displacement]
            if isinstance(v, uuid.UUID):
                return "U:" + str(v)
            if isinstance(v, collections.abc.Mapping):
                return sorted(([canon(k), canon(x)] for k, x in v.items()),
                              key=lambda p: json.dumps(p, sort_keys=True))
            if isinstance(v, (set, frozenset)):
                return sorted((canon(x) for x in v), key=lambda p: json.dumps(p, sort_keys=True))
            if isinstance(v, (list, tuple)):
                return [canon(x) for x in v]
            if isinstance(v, bytes):
                return v.hex()
            if isinstance(v, (int, str, bool, float)) or v is None:
                return v
            return repr(v)

        aux = []
        for name in sorted(m.aux_data):
            if name in special:
                continue
            dig = hashlib.sha1(json.dumps(canon(m.aux_data[name].data),
                                          sort_keys=True).encode()).hexdigest()[:12]
            aux.append([name, dig])
        present = sorted(n for n in m.aux_data if n in special)
        return {"blocks": oblocks, "sx": sx, "cfi": cfi, "fwd": fwd,
                "edges": edges, "syms": syms, "fns": fns, "esi": esi,
                "tix": tix, "ver": ver, "imp": imp, "exp": exp, "aux": aux,
                "tabs": present, "nprox": len(m.proxies)}


def roundtrip(ir: gtirb.IR, mname: str) -> dict:
    """Protobuf save/load; counts references that no longer resolve."""
    try:
        buf = io.BytesIO()
        ir.save_protobuf_file(buf)
        buf.seek(0)
        ir2 = gtirb.IR.load_protobuf_file(buf)
    except BaseException as e:  # observed
        if os.environ.get("VERIF_DEBUG"):
            traceback.print_exc()
        return {"ok": False, "err": type(e).__name__, "dang": 0, "nsym": 0}
    m2 = next(mm for mm in ir2.modules if mm.name == mname)
    dang = 0

    def chk(v):
        nonlocal dang
        if isinstance(v, uuid.UUID) and v != NULL_UUID:
            dang += 1

    for k in (_auxdata.elf_symbol_info.get(m2) or {}):
        chk(k)
    for k in (_auxdata.elf_symbol_tab_idx_info.get(m2) or {}):
        chk(k)
    sv = _auxdata.elf_symbol_versions.get(m2)
    if sv is not None:
        for k in sv[2]:
            chk(k)
    for v in (_auxdata.function_names.get(m2) or {}).values():
        chk(v)
    for v in (_auxdata.pe_imported_symbols.get(m2) or []):
        chk(v)
    for v in (_auxdata.pe_exported_symbols.get(m2) or []):
        chk(v)
    for k, v in (_auxdata.symbol_forwarding.get(m2) or {}).items():
        chk(k)
        chk(v)
    for ds in (_auxdata.cfi_directives.get(m2) or {}).values():
        for _, _, s in ds:
            chk(s)
    for bi in m2.byte_intervals:
        for e in bi.symbolic_expressions.values():
            for s in e.symbols:
                if not isinstance(s, gtirb.Symbol) or s.module is not m2:
                    dang += 1
    return {"ok": True, "err": "", "dang": dang, "nsym": len(list(m2.symbols))}


# --------------------------------------------------------------------------
# module construction helpers
# --------------------------------------------------------------------------
class Built:
    def __init__(self):
        self.ir: gtirb.IR = None  # type: ignore
        self.m: gtirb.Module = None  # type: ignore
        self.text: gtirb.ByteInterval = None  # type: ignore
        self.data: gtirb.ByteInterval = None  # type: ignore
        self.syms: Dict[str, gtirb.Symbol] = {}
        self.functions: List[gtirb_functions.Function] = []
        self.nfn = 0
        self.anon: List[gtirb.ProxyBlock] = []
        self.inserts: List[Tuple[gtirb.CodeBlock, int, str]] = []


def new_module(abi: str, pie: bool) -> Built:
    isa, fmt, bo = ABIS[abi]
    b = Built()
    b.ir, b.m = gth.create_test_module(fmt, isa, ["DYN"] if pie else ["EXEC"], byte_order=bo)
    _, b.text = gth.add_text_section(b.m, address=0x1000)
    _, b.data = gth.add_data_section(b.m, address=0x8000)
    return b


def add_fn(b: Built, name_sym: gtirb.Symbol, entry, blocks) -> None:
    b.nfn += 1
    u = uuid.UUID(int=0xF000 + b.nfn)
    b.m.aux_data["functionNames"].data[u] = name_sym
    b.m.aux_data["functionEntries"].data[u] = {entry}
    b.m.aux_data["functionBlocks"].data[u] = set(blocks)
    b.functions.append(gtirb_functions.Function(u, {entry}, set(blocks), [name_sym]))


def edge(b: Built, src, dst, ty, cond=False, direct=True) -> None:
    b.ir.cfg.add(gtirb.Edge(src, dst, gtirb.Edge.Label(ty, conditional=cond, direct=direct)))


def anon_proxy(b: Built) -> gtirb.ProxyBlock:
    p = gtirb.ProxyBlock(module=b.m)
    b.anon.append(p)
    return p


def attrs_of(names) -> set:
    return {getattr(ATTR, a) for a in names}


# --------------------------------------------------------------------------
# family "retarget"
# --------------------------------------------------------------------------
CF_KINDS = ("jmp", "jcc", "jccft", "call")


def build_retarget(case: dict) -> Built:
    b = new_module(case["abi"], bool(case["pie"]))
    m = b.m
    isa = m.isa
    kinds: Dict[str, str] = dict(case["kinds"])
    uses: List[dict] = list(case["uses"])
    ret_b, _ = encode(isa, "ret")
    nop_b, _ = encode(isa, "nop")
    # which symbol's block a name resolves to
    canon = {n: (k[5:] if k.startswith("alias") else n) for n, k in kinds.items()}
    fblock: Dict[str, gtirb.CodeBlock] = {}
    rsite: Dict[int, gtirb.CodeBlock] = {}
    ublock: Dict[int, gtirb.CodeBlock] = {}
    # layout: uses whose fallthrough is the target's block precede it
    order: List[tuple] = []
    ft_uses = {}
    for i, u in enumerate(uses):
        if u["k"] == "jccft":
            ft_uses.setdefault(canon[u["s"]], []).append(i)
    for i, u in enumerate(uses):
        if u["k"] in ("jmp", "jcc", "call", "ref", "icallg", "ijmpg", "ijmp"):
            order.append(("U", i))
        elif u["k"] in ("pers", "lsda"):
            order.append(("C", i))
    for n in sorted(kinds):
        if kinds[n] == "code":
            for i in ft_uses.get(n, []):
                order.append(("U", i))
            order.append(("F", n))
    for tag, x in order:
        if tag == "F":
            fblock[x] = gth.add_code_block(b.text, ret_b)
        elif tag == "C":
            ublock[x] = gth.add_code_block(b.text, ret_b)
        else:
            u = uses[x]
            if u.get("via", "ir") == "patch":
                ublock[x] = gth.add_code_block(b.text, nop_b + nop_b)
                rsite[x] = gth.add_code_block(b.text, ret_b)
                continue
            k = "jcc" if u["k"] == "jccft" else u["k"]
            by, _ = encode(isa, k)
            if k == "ref":
                by = by + ret_b
            ublock[x] = gth.add_code_block(b.text, by)
            if u["k"] in ("jcc", "call", "icallg"):
                rsite[x] = gth.add_code_block(b.text, ret_b)
    dblock: Dict[str, gtirb.DataBlock] = {}
    for n in sorted(kinds):
        if kinds[n] == "data":
            dblock[n] = gth.add_data_block(b.data, bytes(range(8)))
    wblock: Dict[int, gtirb.DataBlock] = {}
    for i, u in enumerate(uses):
        if u["k"] in ("dq", "dd"):
            wblock[i] = gth.add_data_block(b.data, b"\0" * 8)
    # symbols
    for n in sorted(kinds):
        k = kinds[n]
        if k == "code":
            b.syms[n] = gth.add_symbol(m, n, fblock[n])
        elif k == "data":
            b.syms[n] = gth.add_symbol(m, n, dblock[n])
        elif k == "ext":
            b.syms[n] = gth.add_symbol(m, n, gth.add_proxy_block(m))
    for n in sorted(kinds):
        if kinds[n].startswith("alias"):
            b.syms[n] = gth.add_symbol(m, n, b.syms[canon[n]].referent)
    # special request endpoints
    other = gtirb.Module(name="other", isa=m.isa, file_format=m.file_format)
    other.ir = b.ir
    b.syms["F"] = gtirb.Symbol("F", payload=gtirb.ProxyBlock(module=other), module=other)
    b.syms["N"] = gtirb.Symbol("N", payload=None, module=m)
    if m.file_format == FMT.ELF:
        for n in sorted(kinds):
            gth.add_elf_symbol_info(m, b.syms[n], 0,
                                    "FUNC" if kinds[n] != "data" else "OBJECT")
    # functions of the symbols
    for n in sorted(fblock):
        add_fn(b, b.syms[n], fblock[n], [fblock[n]])
    callers: Dict[str, List[gtirb.CodeBlock]] = {}
    cfi = _auxdata.cfi_directives.get_or_insert(m)
    fwd = _auxdata.symbol_forwarding.get_or_insert(m)
    for i, u in enumerate(uses):
        k = u["k"]
        s = b.syms[u["s"]]
        at = attrs_of(u.get("at", []))
        if k in ("jmp", "jcc", "jccft", "call", "ref", "icallg", "ijmpg", "ijmp"):
            ub = ublock[i]
            usym = gth.add_symbol(m, f"u{i}", ub)
            blocks = [ub] + ([rsite[i]] if i in rsite else [])
            add_fn(b, usym, ub, blocks)
            if i in rsite:
                edge(b, ub, rsite[i], ET.Fallthrough)
                edge(b, rsite[i], anon_proxy(b), ET.Return)
            if u.get("via", "ir") == "patch":
                b.inserts.append((ub, len(nop_b),
                                  patch_text(isa, k, u["s"], u.get("add", 0), u.get("at", []))))
                continue
            _, off = encode(isa, "jcc" if k == "jccft" else k)
            if off >= 0:
                b.text.symbolic_expressions[ub.offset + off] = gtirb.SymAddrConst(
                    u.get("add", 0), s, at)
            tgt = s.referent
            if k == "jmp":
                edge(b, ub, tgt, ET.Branch)
            elif k == "jcc":
                edge(b, ub, tgt, ET.Branch, cond=True)
            elif k == "jccft":
                edge(b, ub, tgt, ET.Branch, cond=True)
                edge(b, ub, tgt, ET.Fallthrough)
            elif k == "call":
                edge(b, ub, tgt, ET.Call)
                if kinds[canon[u["s"]]] == "code":
                    callers.setdefault(canon[u["s"]], []).append(rsite[i])
            elif k == "ref":
                edge(b, ub, anon_proxy(b), ET.Return)
            elif k == "icallg":
                edge(b, ub, tgt, ET.Call, direct=False)
                if kinds[canon[u["s"]]] == "code":
                    callers.setdefault(canon[u["s"]], []).append(rsite[i])
            elif k in ("ijmpg", "ijmp"):
                edge(b, ub, tgt, ET.Branch, direct=False)
        elif k == "dq":
            wb = wblock[i]
            b.data.symbolic_expressions[wb.offset] = gtirb.SymAddrConst(u.get("add", 0), s, at)
        elif k == "dd":
            wb = wblock[i]
            b.data.symbolic_expressions[wb.offset] = gtirb.SymAddrAddr(
                1, u.get("add", 0), s, b.syms[u["s2"]], at)
        elif k in ("pers", "lsda"):
            cb = ublock[i]
            csym = gth.add_symbol(m, f"c{i}", cb)
            add_fn(b, csym, cb, [cb])
            edge(b, cb, anon_proxy(b), ET.Return)
            d = (".cfi_personality", [0x9B], s) if k == "pers" else (".cfi_lsda", [0x1B], s)
            cfi[gtirb.Offset(cb, 0)] = [(".cfi_startproc", [], NULL_UUID), d]
            cfi[gtirb.Offset(cb, cb.size)] = [(".cfi_endproc", [], NULL_UUID)]
        elif k == "fwdv":
            fwd[gth.add_symbol(m, f"K{i}", gth.add_proxy_block(m))] = s
        elif k == "fwdk":
            fwd[s] = gth.add_symbol(m, f"V{i}", gth.add_proxy_block(m))
        elif k == "fwd":
            fwd[s] = b.syms[u["s2"]]
        else:
            raise ValueError(f"unknown use kind {k}")
    for n, fb in fblock.items():
        sites = callers.get(n, [])
        if sites:
            for r in sites:
                edge(b, fb, r, ET.Return)
        else:
            edge(b, fb, anon_proxy(b), ET.Return)
    return b


def exec_retarget(case: dict, with_reqs: bool) -> dict:
    b = build_retarget(case)
    exc, stage = "", "register"
    try:
        ctx = RewritingContext(b.m, b.functions)
        for blk, off, text in b.inserts:
            ctx.insert_at(blk, off, make_patch(text))
        stage = "retarget"
        if with_reqs:
            for old, new in case["reqs"]:
                ctx.retarget_symbol_uses(b.syms[old], b.syms[new])
            stage = "delete"
            for name, force in case.get("del", []):
                ctx.delete_symbol(b.syms[name], force=bool(force))
        stage = "apply"
        ctx.apply()
        stage = "done"
    except BaseException as e:  # observed, judged in TLA+
        exc = type(e).__name__
        if os.environ.get("VERIF_DEBUG"):
            traceback.print_exc()
    st = Projector(b.m, b.syms.values()).project()
    st["ser"] = roundtrip(b.ir, b.m.name)
    return {"st": st, "exc": exc, "stage": stage}


def run_retarget(case: dict) -> dict:
    """pre = the module after apply() of the same edits without retargets
    (retargets are applied after the block edits), post = the identically
    built module after apply() with them."""
    case.setdefault("del", [])   # cases recorded before the combined history existed
    r1 = exec_retarget(case, False)
    r2 = exec_retarget(case, True)
    return {"id": case["id"], "family": "retarget", "case": strip(case),
            "pre": r1["st"], "exc0": r1["exc"],
            "post": r2["st"], "exc": r2["exc"], "stage": r2["stage"]}


def strip(case: dict) -> dict:
    return {k: v for k, v in case.items() if k not in ("id",)}


# --------------------------------------------------------------------------
# family "delsym"
# --------------------------------------------------------------------------
VER_DEFS = {1: (["libtest.so"], 1), 2: (["V1"], 0), 3: (["V2", "V1"], 0), 7: (["V3"], 2),
            8: (["libtest.so"], 3)}
VER_REQS = {4: ("lib1.so", "L1A"), 5: ("lib1.so", "L1B"), 6: ("lib2.so", "L2A")}


def build_delsym(case: dict) -> Built:
    fmt = case["fmt"]
    b = new_module("x64-elf" if fmt == "elf" else "x64-pe", False)
    m = b.m
    isa = m.isa
    ret_b, _ = encode(isa, "ret")
    nop_b, _ = encode(isa, "nop")
    ref_b, ref_off = encode(isa, "ref")
    specs: List[dict] = list(case["syms"])
    names = [s["n"] for s in specs]
    fblock = {}
    hblock = {}
    for s in specs:
        fblock[s["n"]] = gth.add_code_block(b.text, ret_b)
    for s in specs:
        fs = set(s["f"])
        if fs & {"ref", "pers", "lsda", "cfix"}:
            by = (ref_b if "ref" in fs else nop_b) + ret_b
            hblock[s["n"]] = gth.add_code_block(b.text, by)
    keep_blk = gth.add_code_block(b.text, ret_b)
    wslots: Dict[Tuple[str, str], gtirb.DataBlock] = {}
    for s in specs:
        for f in sorted(set(s["f"]) & {"dq", "dda", "ddb", "ddn"}):
            wslots[(s["n"], f)] = gth.add_data_block(b.data, b"\0" * 8)
    keep_w = gth.add_data_block(b.data, b"\0" * 8)
    for n in names:
        b.syms[n] = gth.add_symbol(m, n, fblock[n])
    keep = b.syms["keep"] = gth.add_symbol(m, "keep", keep_blk)
    b.data.symbolic_expressions[keep_w.offset] = gtirb.SymAddrConst(0, keep)
    add_fn(b, keep, keep_blk, [keep_blk])
    edge(b, keep_blk, anon_proxy(b), ET.Return)
    cfi = _auxdata.cfi_directives.get_or_insert(m)
    fwd = _auxdata.symbol_forwarding.get_or_insert(m)
    keep2 = gth.add_symbol(m, "keep2", gth.add_proxy_block(m))
    fwd[keep2] = keep
    if fmt == "elf":
        gth.add_elf_symbol_info(m, keep, 0, "FUNC")
        _auxdata.elf_symbol_tab_idx_info.get_or_insert(m)[keep] = [(".symtab", 9)]
    else:
        _auxdata.pe_imported_symbols.get_or_insert(m).append(keep2)
        _auxdata.pe_exported_symbols.get_or_insert(m).append(keep)
    used_ids = set(int(x) for x in case.get("extra", []))
    for idx, s in enumerate(specs):
        n = s["n"]
        sym = b.syms[n]
        fs = set(s["f"])
        nxt = b.syms[names[(idx + 1) % len(names)]]
        edge(b, fblock[n], anon_proxy(b), ET.Return)
        if "fn" in fs:
            add_fn(b, sym, fblock[n], [fblock[n]])
        if "esi" in fs:
            gth.add_elf_symbol_info(m, sym, 0, "FUNC")
        if "tab" in fs:
            _auxdata.elf_symbol_tab_idx_info.get_or_insert(m)[sym] = [(".symtab", idx + 1), (".dynsym", idx + 2)]
        if "imp" in fs:
            _auxdata.pe_imported_symbols.get_or_insert(m).append(sym)
        if "exp" in fs:
            _auxdata.pe_exported_symbols.get_or_insert(m).append(sym)
        if "fwdk" in fs:
            fwd[sym] = gth.add_symbol(m, f"pk_{n}", gth.add_proxy_block(m))
        if "fwdn" in fs:
            fwd[sym] = nxt
        if "fwd1" in fs:
            fwd[sym] = b.syms[names[0]]
        if "fwdkeep" in fs:
            fwd[sym] = keep
        if "fwdv" in fs:
            fwd[gth.add_symbol(m, f"pv_{n}", gth.add_proxy_block(m))] = sym
        if "fwdv2" in fs:
            fwd[gth.add_symbol(m, f"pv2_{n}", gth.add_proxy_block(m))] = sym
        if n in hblock:
            hb = hblock[n]
            hsym = gth.add_symbol(m, f"h_{n}", hb)
            add_fn(b, hsym, hb, [hb])
            edge(b, hb, anon_proxy(b), ET.Return)
            if "ref" in fs:
                b.text.symbolic_expressions[hb.offset + ref_off] = gtirb.SymAddrConst(0, sym)
            ds = [(".cfi_startproc", [], NULL_UUID)]
            if "pers" in fs:
                ds.append((".cfi_personality", [0x9B], sym))
            if "lsda" in fs:
                ds.append((".cfi_lsda", [0x1B], sym))
            if "cfix" in fs:
                ds.append((".cfi_val_encoded_addr", [16, 0x1B], sym))
            if len(ds) > 1:
                ds.append((".cfi_def_cfa_offset", [16], NULL_UUID))
                cfi[gtirb.Offset(hb, 0)] = ds
                cfi[gtirb.Offset(hb, hb.size)] = [(".cfi_endproc", [], NULL_UUID)]
        if "dq" in fs:
            w = wslots[(n, "dq")]
            b.data.symbolic_expressions[w.offset] = gtirb.SymAddrConst(4, sym)
        if "dda" in fs:
            w = wslots[(n, "dda")]
            b.data.symbolic_expressions[w.offset] = gtirb.SymAddrAddr(1, 0, sym, keep)
        if "ddb" in fs:
            w = wslots[(n, "ddb")]
            b.data.symbolic_expressions[w.offset] = gtirb.SymAddrAddr(1, 0, keep, sym)
        if "ddn" in fs:
            w = wslots[(n, "ddn")]
            b.data.symbolic_expressions[w.offset] = gtirb.SymAddrAddr(1, 0, sym, nxt)
        v = int(s.get("ver", 0))
        if v:
            used_ids.add(v)
    if used_ids:
        defs: Dict[int, Tuple[List[str], int]] = {}
        reqs: Dict[str, Dict[int, str]] = {}
        ents: Dict[gtirb.Symbol, Tuple[int, bool]] = {}
        for i in sorted(used_ids):
            if i in VER_DEFS:
                defs[i] = (list(VER_DEFS[i][0]), VER_DEFS[i][1])
            else:
                lib, vs = VER_REQS[i]
                reqs.setdefault(lib, {})[i] = vs
        for idx, s in enumerate(specs):
            v = int(s.get("ver", 0))
            if v:
                ents[b.syms[s["n"]]] = (v, idx % 2 == 1)
        _auxdata.elf_symbol_versions.set(m, (defs, reqs, ents))
    return b


def exec_delsym(case: dict, with_reqs: bool) -> dict:
    b = build_delsym(case)
    exc, stage = "", "register"
    try:
        ctx = RewritingContext(b.m, b.functions)
        # a retarget registered in the same context (applied before the
        # deletions) is part of both runs: the pre-state is the retargeted module
        if case.get("ret"):
            ctx.retarget_symbol_uses(b.syms[case["ret"][0]], b.syms[case["ret"][1]])
        if with_reqs:
            for name, force in case["reqs"]:
                ctx.delete_symbol(b.syms[name], force=bool(force))
        stage = "apply"
        ctx.apply()
        stage = "done"
    except BaseException as e:  # observed, judged in TLA+
        exc = type(e).__name__
        if os.environ.get("VERIF_DEBUG"):
            traceback.print_exc()
    st = Projector(b.m).project()
    st["ser"] = roundtrip(b.ir, b.m.name)
    return {"st": st, "exc": exc, "stage": stage}


def run_delsym(case: dict) -> dict:
    """pre = the module after apply() without requests, post = the identically
    built module after apply() with the deletions."""
    case.setdefault("ret", [])
    r1 = exec_delsym(case, False)
    r2 = exec_delsym(case, True)
    return {"id": case["id"], "family": "delsym", "case": strip(case),
            "pre": r1["st"], "exc0": r1["exc"],
            "post": r2["st"], "exc": r2["exc"], "stage": r2["stage"]}


FAMILIES = {"retarget": run_retarget, "delsym": run_delsym}


def run_case(case: dict) -> dict:
    return FAMILIES[case["family"]](case)


def main(argv):
    src, dst = argv[1], argv[2]
    n = 0
    with open(src) as f, open(dst, "w") as out:
        for line in f:
            line = line.strip()
            if not line:
                continue
            tr = run_case(json.loads(line))
            out.write(json.dumps(tr, separators=(",", ":")) + "\n")
            n += 1
    print(f"ran {n} cases")


if __name__ == "__main__":
    main(sys.argv)
