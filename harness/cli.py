"""./check <property> [--tier quick|thorough] [--replay path]

exit 0: property held on everything explored (KNOWN-FINDING lines possible)
exit 1: VIOLATION property=<id> replay=<path>
exit 2: machinery failure (never a verdict)"""
import argparse
import importlib
import os
import sys
import traceback

from .core import MachineryError

DISPATCH = {
    "C01": ("harness.props.g1", "run"),
    "C02": ("harness.props.g1", "run"),
    "C04": ("harness.props.g1", "run"),
    "C06": ("harness.props.g1", "run"),
    "C03": ("harness.props.g1", "run"),
    "C05": ("harness.props.g1", "run"),
    "C07": ("harness.props.c07", "run"),
    "C08": ("harness.props.g1", "run"),
    "C09": ("harness.props.g1", "run"),
    "C10": ("harness.props.c10", "run"),
    "C11": ("harness.props.c11", "run"),
    "C12": ("harness.props.c12", "run"),
    "C13": ("harness.props.c13", "run"),
    "C14": ("harness.props.c14", "run"),
    "C15": ("harness.props.c15", "run"),
    "C16": ("harness.props.c16", "run"),
    "C17": ("harness.props.c17", "run"),
    "C18": ("harness.props.c18", "run"),
    "C19": ("harness.props.c19", "run"),
    "C20": ("harness.props.c20", "run"),
}


def main(argv=None) -> int:
    ap = argparse.ArgumentParser()
    ap.add_argument("prop")
    ap.add_argument("--tier", default=os.environ.get("VERIF_TIER", "quick"),
                    choices=["quick", "thorough"])
    ap.add_argument("--replay", default=None)
    a = ap.parse_args(argv)
    if a.prop not in DISPATCH:
        print(f"unknown property {a.prop}", file=sys.stderr)
        return 2
    modname, fn = DISPATCH[a.prop]
    try:
        mod = importlib.import_module(modname)
        return getattr(mod, fn)(a.prop, a.tier, a.replay)
    except MachineryError as e:
        print(f"MACHINERY-FAILURE {a.prop}: {e}", file=sys.stderr)
        return 2
    except Exception:
        traceback.print_exc()
        print(f"MACHINERY-FAILURE {a.prop}: unexpected exception", file=sys.stderr)
        return 2


if __name__ == "__main__":
    sys.exit(main())
