"""Hook sink for the Level-B binding: records the unit-granular IR right before
and right after every split_block / join_blocks / remove_block, so that
spec/TraceModify.tla can check that the real primitive did what its TLA+ model
(spec/Modify.tla) does on the observed pre-state.  Reads only."""
from typing import Dict, List

import gtirb

from .project import _decoder, classify


class PrimitiveObserver:
    def __init__(self, projector, module: gtirb.Module):
        self.p = projector
        self.m = module
        self.events: List[dict] = []
        self.rank: Dict[object, int] = {}
        self._pending = None
        self._composite = None

    def _rank(self, bi) -> int:
        if bi.uuid not in self.rank:
            self.rank[bi.uuid] = 10_000 + len(self.rank)
        return self.rank[bi.uuid]

    def begin(self):
        bis = sorted(self.m.byte_intervals,
                     key=lambda b: (b.address if b.address is not None else 1 << 62))
        for i, bi in enumerate(bis):
            self.rank[bi.uuid] = i

    def node(self, n):
        if isinstance(n, gtirb.ProxyBlock):
            return ["p", self.p.uid(n)]
        if isinstance(n, gtirb.ByteBlock):
            return ["b", self.p.uid(n)]
        return ["none", 0]

    def snapshot(self, section: gtirb.Section, cache) -> dict:
        uid = self.p.uid
        dec = _decoder(self.m.isa)
        blocks = sorted(section.byte_blocks,
                        key=lambda b: (self._rank(b.byte_interval), b.offset, b.size != 0, uid(b)))
        order, units, kinds = [], [], []
        inblocks = set()
        for b in blocks:
            order.append(uid(b))
            inblocks.add(b.uuid)
            kinds.append([uid(b), "code" if isinstance(b, gtirb.CodeBlock) else "data"])
            if isinstance(b, gtirb.CodeBlock) and b.size:
                us = [[i.size, classify(i, self.m.isa)] for i in dec.get_instructions(b)]
                if sum(u[0] for u in us) != b.size:
                    us.append([b.size - sum(u[0] for u in us), "bad"])
            else:
                us = [[1, "data"] for _ in range(b.size)]
            units.append([uid(b), us])
        # symbols through the cache's view (walk the forest), like observe.py
        from gtirb_rewriting._modify.cache import RefNode
        refc = cache.reference_cache
        end_nodes = {id(pair[1]) for pair in refc._references.values()}
        syms = []
        for s in self.m.symbols:
            node = refc._referents.get(s)
            if node is None:
                r = s._payload if isinstance(s._payload, gtirb.Block) else None
                e = bool(s.at_end) if r is not None else False
            else:
                root = node
                while isinstance(root.parent, RefNode):
                    root = root.parent
                r, e = root.parent, id(root) in end_nodes
            if isinstance(r, gtirb.ByteBlock) and r.uuid not in inblocks:
                continue  # other section
            syms.append([s.name, self.node(r), e])
        cfg = []
        for e in self.m.ir.cfg:
            s_ok = isinstance(e.source, gtirb.ProxyBlock) or e.source.uuid in inblocks
            t_ok = isinstance(e.target, gtirb.ProxyBlock) or e.target.uuid in inblocks
            if not (s_ok and t_ok):
                continue
            lab = e.label
            cfg.append([self.node(e.source), self.node(e.target), lab.type.name if lab else "None",
                        bool(lab.conditional) if lab else False, bool(lab.direct) if lab else True])
        names = self.m.aux_data.get("functionNames")
        fn = []
        for b, u in cache.functions_by_block.items():
            if b.uuid in inblocks:
                nm = names.data[u].name if names is not None and u in names.data else "?"
                fn.append([uid(b), nm])
        ent = []
        fe = self.m.aux_data.get("functionEntries")
        if fe is not None:
            for u, bs in fe.data.items():
                for b in bs:
                    if b.uuid in inblocks:
                        ent.append(uid(b))
        return {"order": order, "units": units, "kind": kinds, "sym": sorted(syms),
                "cfg": sorted(cfg), "fn": sorted(fn), "ent": sorted(ent),
                "hasfn": bool(cache.functions_by_block)}

    def patch_code(self, code) -> dict:
        """The assembled patch handed to insert(), unit-granular, before insert()
        touches it (patch blocks are not in the module yet: decode their bytes
        through a scratch byte interval)."""
        uid = self.p.uid
        ts = code.text_section
        dec = _decoder(self.m.isa)
        data = bytes(ts.data)
        blocks, units, kinds = [], [], []
        for b in ts.blocks:
            blocks.append(uid(b))
            kinds.append([uid(b), "code" if isinstance(b, gtirb.CodeBlock) else "data"])
            if isinstance(b, gtirb.CodeBlock) and b.size:
                bi = gtirb.ByteInterval(contents=data[b.offset:b.offset + b.size])
                sb = gtirb.CodeBlock(offset=0, size=b.size, decode_mode=b.decode_mode)
                bi.blocks.add(sb)
                us = [[i.size, classify(i, self.m.isa)] for i in dec.get_instructions(sb)]
                if sum(u[0] for u in us) != b.size:
                    us.append([b.size - sum(u[0] for u in us), "bad"])
            else:
                us = [[1, "data"] for _ in range(b.size)]
            units.append([uid(b), us])
        cfg = []
        for e in code.cfg:
            lab = e.label
            cfg.append([self.node(e.source), self.node(e.target), lab.type.name if lab else "None",
                        bool(lab.conditional) if lab else False, bool(lab.direct) if lab else True])
        syms = []
        for s in code.symbols:
            r = s._payload if isinstance(s._payload, gtirb.Block) else None
            syms.append([s.name, self.node(r), bool(s.at_end) if r is not None else False])
        return {"blocks": blocks, "units": units, "kind": kinds, "cfg": sorted(cfg), "syms": sorted(syms),
                "proxies": sorted(uid(p) for p in code.proxies),
                "nsec": len(code.sections)}

    def composite(self, event: str, f: dict) -> None:
        """insert() / delete() as wholes (hooks insert_begin/_end, delete_begin/_end)."""
        a = f["args"]
        kw = f["kwargs"]
        cache, blk = a[0], a[1]
        if event.endswith("_begin"):
            self._composite = None
            if blk.section is None:
                return
            args = {"b": self.p.uid(blk), "off": a[2]}
            if event == "insert_begin":
                args["repl"] = a[3]
                args["code"] = self.patch_code(a[4])
                args["proxy"] = False
                args["len"] = 0
            else:
                args["len"] = a[3]
                args["proxy"] = bool(a[4] if len(a) > 4 else kw.get("retarget_to_proxy", False))
                args["repl"] = 0
            self._composite = {"op": event[:-6], "sec": blk.section, "args": args,
                               "pre": self.snapshot(blk.section, cache)}
            return
        pend, self._composite = self._composite, None
        if pend is None or pend["op"] != event[:-4] or "error" in f:
            return
        res = f.get("result")
        pend["args"]["last"] = self.p.uid(res) if res is not None else 0
        if pend["op"] == "insert" and pend["args"]["code"]["nsec"] > 1:
            return      # patches that add contents to other sections are not modelled
        self.events.append({"op": pend["op"], "args": pend["args"], "pre": pend["pre"],
                            "post": self.snapshot(pend["sec"], cache)})

    def __call__(self, event: str, f: dict) -> None:
        if event == "apply_begin":
            self.begin()
            return
        if event in ("insert_begin", "insert_end", "delete_begin", "delete_end"):
            self.composite(event, f)
            return
        if event.endswith("_begin") and event != "apply_begin":
            blk = f.get("block") or f.get("block1")
            if blk.section is None:
                self._pending = None
                return
            self._pending = {"op": event[:-6], "sec": blk.section, "pre": self.snapshot(blk.section, f["cache"])}
            if event == "split_block_begin":
                self._pending["args"] = {"b": self.p.uid(blk), "off": f["offset"]}
            elif event == "join_blocks_begin":
                self._pending["args"] = {"b": self.p.uid(f["block1"]), "b2": self.p.uid(f["block2"])}
            else:
                self._pending["args"] = {"b": self.p.uid(blk), "proxy": bool(f["retarget_to_proxy"])}
            return
        if event in ("split_block", "join_blocks", "remove_block") and self._pending \
                and self._pending["op"] == event:
            pend = self._pending
            self._pending = None
            rec = {"op": event, "args": pend["args"], "pre": pend["pre"],
                   "post": self.snapshot(pend["sec"], f["cache"])}
            if event == "split_block":
                rec["args"]["new"] = self.p.uid(f["new_block"])
            if event == "remove_block":
                rec["args"]["removed"] = bool(f["removed"])
            self.events.append(rec)
