"""Run G1 cases (shape + edit requests) through the real RewritingContext and
record a trace: projected pre-state, the requests as registered, the
independently assembled patch contents, the projected post-state and the
exception (if any).  Nothing here computes an expected result.
"""
import io
import json
import os
import re
import sys
import traceback
from typing import Any, Dict, List, Optional

import gtirb

import gtirb_rewriting
from gtirb_rewriting import Patch, RewritingContext, patch_constraints
from gtirb_rewriting.assembler import Assembler
from gtirb_rewriting.assembly import X86Syntax

from .project import Projector, classify, sx_desc, _decoder, base_name, set_isa, whole_ir_report
from .render import render

SUFFIX_RE = re.compile(r"_\d+$")


def patch_text(spec: dict, isa: str) -> str:
    """Assembly text of a catalogue patch (AT&T syntax for x86)."""
    kind = spec["kind"]
    k = spec.get("k", 0) & 0x7F
    tgt = spec.get("tgt", "")
    if isa in ("x64", "ia32"):
        ax = "%rax" if isa == "x64" else "%eax"
        table = {
            "plain2": f"movb ${k}, %cl",
            "plain7": f"movb ${k}, %cl\nmovl ${k}, %edx",
            "loop": f".Lx:\nmovb ${k}, %cl\njmp .Lx",
            "fwd": f"je .Ly\nmovb ${k}, %cl\n.Ly:",
            "skip": f"jmp .Lz\nmovb ${k}, %cl\n.Lz:\nmovb ${k}, %dl",
            "jmpsym": f"movb ${k}, %cl\njmp {tgt}",
            "jccsym": f"je {tgt}\nmovb ${k}, %cl",
            "callsym": f"call {tgt}\nmovb ${k}, %cl",
            "callend": f"movb ${k}, %cl\ncall {tgt}",
            "ret": f"movb ${k}, %cl\nret",
            "ijmp": f"movb ${k}, %cl\njmp *{ax}",
            "icall": f"call *{ax}\nmovb ${k}, %cl",
            "glob": f"movb ${k}, %cl\nG{spec.get('k', 0)}:\nmovb ${k}, %dl",
            "ref": (f"leaq {tgt}(%rip), %rax" if isa == "x64" else f"leal {tgt}, %eax"),
            "refadd": (f"leaq {tgt}+4(%rip), %rax" if isa == "x64" else f"leal {tgt}+4, %eax"),
            "cfi": f".cfi_adjust_cfa_offset 8\nmovb ${k}, %cl\n.cfi_adjust_cfa_offset -8",
            "cfistate": f".cfi_remember_state\n.cfi_def_cfa_offset 32\nmovb ${k}, %cl\n.cfi_restore_state",
            "align": f".align 4\nmovb ${k}, %cl",
            "callret": f"call {tgt or 'b1'}\nmovb ${k}, %cl\nret",
            "resume": (f"leaq .Lr(%rip), {ax}\njmp *{ax}\n.Lr:" if isa == "x64"
                       else f"leal .Lr, {ax}\njmp *{ax}\n.Lr:"),
            # a patch that also puts data (with a label and a symbolic word) into .data
            "datasec": ((f"leaq .Ld(%rip), %rax" if isa == "x64" else f"leal .Ld, %eax")
                        + f"\n.section .data\n.Ld:\n.byte {k}\n"
                        + (f".quad {tgt or 'b1'}" if isa == "x64" else f".long {tgt or 'b1'}") + "\n.text"),
        }
        # PE/IA32's private label prefix is "L": ".Lx" would be an ordinary (unsuffixed) symbol there
        return table[kind].replace(".L", "L") if isa == "ia32" else table[kind]
    if isa == "arm64":
        table = {
            "plain2": f"mov x9, #{k}",
            "plain7": f"mov x9, #{k}\nmov x10, #{k}",
            "loop": f".Lx:\nmov x9, #{k}\nb .Lx",
            "fwd": f"b.eq .Ly\nmov x9, #{k}\n.Ly:",
            "skip": f"b .Lz\nmov x9, #{k}\n.Lz:\nmov x10, #{k}",
            "jmpsym": f"mov x9, #{k}\nb {tgt}",
            "jccsym": f"b.eq {tgt}\nmov x9, #{k}",
            "callsym": f"bl {tgt}\nmov x9, #{k}",
            "callend": f"mov x9, #{k}\nbl {tgt}",
            "ret": f"mov x9, #{k}\nret",
            "ijmp": f"mov x9, #{k}\nbr x0",
            "icall": f"blr x0\nmov x9, #{k}",
            "glob": f"mov x9, #{k}\nG{spec.get('k', 0)}:\nmov x10, #{k}",
            "ref": f"adr x0, {tgt}",
            "refadd": f"adr x0, {tgt}+4",
            "cfi": f".cfi_adjust_cfa_offset 8\nmov x9, #{k}\n.cfi_adjust_cfa_offset -8",
            "cfistate": f".cfi_remember_state\n.cfi_def_cfa_offset 32\nmov x9, #{k}\n.cfi_restore_state",
        }
        return table[kind]
    raise NotImplementedError(isa)


class InjectedFault(RuntimeError):
    """Raised by an instrumented patch callback (fault injection for C05)."""


def make_patch(spec: dict, isa: str, log: Optional[list] = None,
               fault: Optional[dict] = None) -> Patch:
    text = patch_text(spec, isa)
    # optional constraints (C11: prologue/epilogue generation must be deterministic too)
    cons = dict(spec.get("cons") or {})
    if "clobbers_registers" in cons:
        cons["clobbers_registers"] = set(cons["clobbers_registers"])

    @patch_constraints(x86_syntax=X86Syntax.ATT, **cons)
    def fn(ctx):
        if log is not None:
            log.append(ctx)
        if fault is not None:
            fault["n"] += 1
            if fault["n"] == fault["at"]:
                if fault.get("kind") == "asm":
                    return "this is not assembly ((("
                raise InjectedFault(f"injected at invocation {fault['n']}")
        return text

    return Patch.from_function(fn)


def project_assembled(result: Assembler.Result, module: gtirb.Module) -> dict:
    """Units, labels, expressions of a standalone-assembled patch."""
    sect = result.text_section
    data = sect.data
    isa = module.isa
    dec = _decoder(isa)
    cs = dec._get_block_decoder(gtirb.CodeBlock())  # decoder for default mode
    # byte order for detached block defaults to little; rebuild for module
    from gtirb_capstone.instructions import DecoderConfig
    from gtirb_capstone.capstone_compatibility import capstone
    cfg = DecoderConfig.value(isa, gtirb.CodeBlock.DecodeMode.Default, module.byte_order, 0)
    cs = capstone.Cs(cfg.arch, cfg.mode)
    cs.detail = True
    units = []
    for b in sect.blocks:
        raw = data[b.offset : b.offset + b.size]
        if isinstance(b, gtirb.CodeBlock) and b.size:
            o = 0
            for insn in cs.disasm(raw, 0):
                units.append({"o": b.offset + o, "n": insn.size, "k": classify(insn, isa)})
                o += insn.size
            if o != b.size:
                units.append({"o": b.offset + o, "n": b.size - o, "k": "bad"})
        else:
            for i in range(b.size):
                units.append({"o": b.offset + i, "n": 1, "k": "data"})
    sx = [{"o": off, "d": sx_desc(e)} for off, e in sorted(sect.symbolic_expressions.items())]
    for un in units:
        un["tg"] = ""
        for x in sx:
            if un["o"] <= x["o"] < un["o"] + un["n"]:
                un["tg"] = x["d"][1]
                break
        un["tgb"] = base_name(un["tg"])
        un["by"] = list(data[un["o"] : un["o"] + un["n"]])
    labels = []
    blockset = {id(b): b for b in sect.blocks}
    for s in result.symbols:
        r = s._payload
        if isinstance(r, gtirb.ByteBlock) and id(r) in blockset:
            labels.append({"nm": s.name, "base": base_name(s.name),
                           "o": r.offset + (r.size if s.at_end else 0)})
    labels.sort(key=lambda d: (d["o"], d["nm"]))
    sxs = [{"o": off, "v": int(v)} for off, v in sorted(sect.symbolic_expression_sizes.items())]
    cfi = []
    try:
        table = result.create_cfi_directives()
        names = {s.uuid: s.name for s in module.symbols}
        names.update({s.uuid: s.name for s in result.symbols})
        for off, ds in table.items():
            blk = off.element_id
            if id(blk) in blockset:
                cfi.append({"o": blk.offset + off.displacement, "ds": [
                    {"op": d[0][5:] if d[0].startswith(".cfi_") else d[0],
                     "args": [int(x) for x in d[1] if isinstance(x, int)][:8],
                     "sym": base_name(names.get(d[2], "")), "big": False} for d in ds]})
    except Exception:
        cfi = [{"o": 0, "ds": [{"op": "?error", "args": [], "sym": "", "big": False}]}]
    cfi.sort(key=lambda c: c["o"])
    other = []
    for name, osec in sorted(result.sections.items()):
        if osec is sect:
            continue
        odata = bytes(osec.data)
        ounits = []
        osx = [{"o": off, "d": sx_desc(e)} for off, e in sorted(osec.symbolic_expressions.items())]
        for i in range(len(odata)):
            tg = ""
            for x in osx:
                if x["o"] == i:
                    tg = x["d"][1]
            ounits.append({"o": i, "n": 1, "k": "data" if all(isinstance(b, gtirb.DataBlock) for b in osec.blocks) else "code",
                           "tg": tg, "tgb": base_name(tg), "by": [odata[i]]})
        oblocks = {id(b): b for b in osec.blocks}
        olabels = []
        for s in result.symbols:
            r = s._payload
            if isinstance(r, gtirb.ByteBlock) and id(r) in oblocks:
                olabels.append({"nm": s.name, "base": base_name(s.name),
                                "o": r.offset + (r.size if s.at_end else 0)})
        olabels.sort(key=lambda d: (d["o"], d["nm"]))
        other.append({"name": name, "units": ounits, "labels": olabels, "sx": osx, "n": len(odata),
                      "sxs": [{"o": off, "v": int(v)} for off, v in sorted(osec.symbolic_expression_sizes.items())]})
    return {"units": units, "sx": sx, "labels": labels, "n": len(data),
            "sxs": sxs, "nsec": len(result.sections), "cfi": cfi, "other": other}


def assemble_standalone(shape: dict, spec: dict) -> dict:
    """Assembles a catalogue patch against a fresh rendering of the shape."""
    set_isa(shape.get("isa", "x64"))
    r2 = render(shape)
    asm = Assembler(r2.module, temp_symbol_suffix="_0", implicit_cfi_procedure=True)
    asm.assemble(patch_text(spec, shape.get("isa", "x64")), X86Syntax.ATT)
    res = asm.finalize()
    return project_assembled(res, r2.module)


def bytes_patch(data: bytes) -> dict:
    return {"units": [{"o": i, "n": 1, "k": "data", "tg": "", "tgb": "", "by": [v]} for i, v in enumerate(data)],
            "sx": [], "labels": [], "n": len(data), "sxs": [], "nsec": 1, "cfi": [], "other": []}


EMPTY_PATCH = {"units": [], "sx": [], "labels": [], "n": 0, "sxs": [], "nsec": 0, "cfi": [], "other": []}


def exc_name(e: BaseException) -> str:
    return type(e).__name__


def seq_order(reqs: list, order: list) -> list:
    """One-at-a-time order for C09: blocks in address order; inside a block by
    descending (offset, registration id), which needs no re-anchoring because
    the head of a split block keeps its identity and its offsets."""
    regid = {ri: k for k, ri in enumerate(order)}
    idx = list(range(len(reqs)))
    idx.sort(key=lambda i: (reqs[i].get("sec", 0), reqs[i].get("blk", -1), -reqs[i].get("off", 0), -regid[i]))
    return idx


def run_sequential(case: dict) -> dict:
    """Applies the requests one at a time, each in its own RewritingContext."""
    shape = case["shape"]
    isa = shape.get("isa", "x64")
    set_isa(isa)
    r = render(shape)
    proj = Projector(r.module)
    order = case.get("order") or list(range(len(case["reqs"])))
    exc = ""
    try:
        for ri in seq_order(case["reqs"], order):
            rq = case["reqs"][ri]
            if rq["op"] == "insall":
                from gtirb_rewriting import AllBlocksScope, BlockPosition
                ctx = RewritingContext(r.module, r.functions)
                ctx.register_insert(AllBlocksScope(BlockPosition.ENTRY), make_patch(rq["patch"], isa))
                ctx.apply()
                r.functions = _rebuild_functions(r.module)
                continue
            b = r.blocks[rq["sec"]][rq["blk"]]
            ctx = RewritingContext(r.module, r.functions)
            if rq["op"] in ("ins", "rep"):
                ps = rq["patch"]
                pobj = bytes(ps["bytes"]) if "bytes" in ps else make_patch(ps, isa)
                if rq["op"] == "ins":
                    ctx.insert_at(b, rq["off"], pobj)
                else:
                    ctx.replace_at(b, rq["off"], rq["len"], pobj)
            else:
                ctx.delete_at(b, rq["off"], rq["len"], retarget_to_proxy=bool(rq.get("proxy")))
            ctx.apply()
            # functions may have lost/gained blocks: rebuild the Function objects
            r.functions = _rebuild_functions(r.module)
        if case.get("retarget"):
            old, new = case["retarget"]
            ctx = RewritingContext(r.module, r.functions)
            ctx.retarget_symbol_uses(r.symbols[old], r.symbols[new])
            ctx.apply()
    except BaseException as e:
        exc = exc_name(e)
        if os.environ.get("VERIF_DEBUG"):
            traceback.print_exc()
    return {"post": proj.project(), "exc": exc}


def _rebuild_functions(module):
    import gtirb_functions
    return gtirb_functions.Function.build_functions(module)


def run_case(case: dict, sink=None, sequential: bool = False) -> dict:
    """Executes one case.  case = {id, shape, reqs, order?}."""
    shape = case["shape"]
    isa = shape.get("isa", "x64")
    set_isa(isa)
    r = render(shape)
    proj = Projector(r.module)
    pre = proj.project()
    reqs_in = case["reqs"]
    order = case.get("order") or list(range(len(reqs_in)))
    ctxlog: List[Any] = []
    trace_reqs = []
    exc = ""
    stage = "register"
    expensive = case.get("expensive_assertions", True)
    insfn_rec = {"name": "", "patch": EMPTY_PATCH}
    fault = None
    if case.get("fault"):
        fault = {"n": 0, "at": int(case["fault"]), "kind": case.get("fault_kind", "raise")}
    orig_cfg = r.ir.cfg
    try:
        ctx = RewritingContext(r.module, r.functions, expensive_assertions=expensive)
        for reg_id, ri in enumerate(order):
            rq = reqs_in[ri]
            if rq["op"] == "insall":
                # register_insert(AllBlocksScope(ENTRY), patch): one registration,
                # one insertion at offset 0 of every code block
                from gtirb_rewriting import AllBlocksScope, BlockPosition
                ps = rq["patch"]
                pcontent = assemble_standalone(shape, ps)
                ctx.register_insert(AllBlocksScope(BlockPosition.ENTRY), make_patch(ps, isa, ctxlog, fault))
                for si, blocks in enumerate(r.blocks):
                    for blk in blocks:
                        if isinstance(blk, gtirb.CodeBlock):
                            trace_reqs.append({"id": reg_id, "op": "ins", "u": proj.uid(blk), "off": 0,
                                               "len": 0, "proxy": False, "patch": pcontent,
                                               "pk": ps.get("kind", "")})
                continue
            b = r.blocks[rq["sec"]][rq["blk"]]
            rec = {"id": reg_id, "op": rq["op"], "u": proj.uid(b), "off": rq["off"],
                   "len": rq.get("len", 0), "proxy": bool(rq.get("proxy", False)),
                   "patch": EMPTY_PATCH, "pk": ""}
            if rq["op"] in ("ins", "rep"):
                ps = rq["patch"]
                rec["pk"] = ps.get("kind", "bytes")
                if "bytes" in ps:
                    pobj = bytes(ps["bytes"])
                    rec["patch"] = bytes_patch(pobj)
                else:
                    rec["patch"] = assemble_standalone(shape, ps)
                    pobj = make_patch(ps, isa, ctxlog, fault)
                if rq["op"] == "ins":
                    ctx.insert_at(b, rq["off"], pobj)
                else:
                    ctx.replace_at(b, rq["off"], rq["len"], pobj)
            else:
                ctx.delete_at(b, rq["off"], rq["len"], retarget_to_proxy=rec["proxy"])
            trace_reqs.append(rec)
        if case.get("retarget"):
            old, new = case["retarget"]
            ctx.retarget_symbol_uses(r.symbols[old], r.symbols[new])
        if case.get("insfn", "none") not in ("none", ""):
            fnspec = {"kind": case["insfn"], "k": 77, "tgt": "b1"}
            insfn_rec = {"name": "newfn", "patch": assemble_standalone(shape, fnspec)}
            ctx.register_insert_function("newfn", make_patch(fnspec, isa, ctxlog, fault))
        stage = "apply"
        observer = None
        if case.get("observe"):
            from gtirb_rewriting import _verif
            from .observe import CacheObserver

            def patch_syms(u, off):
                out = []
                for q in trace_reqs:
                    if q["u"] == u and q["off"] == off and q["op"] in ("ins", "rep"):
                        out.extend(x["tgb"] for x in q["patch"]["units"] if x["tgb"])
                return [n for n in out if not n.startswith(".L")
                        and not (isa == "ia32" and n.startswith("L"))]

            observer = CacheObserver(proj, r.module, patch_syms)
            _verif.install(observer)
        try:
            ctx.apply()
        finally:
            if observer is not None:
                _verif.install(None)
        stage = "done"
    except BaseException as e:  # observed, judged in TLA+
        exc = exc_name(e)
        if os.environ.get("VERIF_DEBUG"):
            traceback.print_exc()
    post = proj.project()
    whole = whole_ir_report(r.module, orig_cfg)
    extra = {}
    if case.get("observe"):
        extra["steps"] = observer.steps if observer is not None else []
    if case.get("sequential"):
        sq = run_sequential(case)
        extra["post2"] = sq["post"]
        extra["exc2"] = sq["exc"]
    return {**extra, "id": case["id"], "pre": pre, "reqs": trace_reqs, "post": post,
            "exc": exc, "stage": stage, "nfun": len(r.functions),
            "isa": isa, "fmt": shape.get("fmt", "elf"), "whole": whole,
            "fault": int(case.get("fault", 0)), "ninv": len(ctxlog), "insfn": insfn_rec,
            "retarget": list(case.get("retarget") or [])}


def run_det(case: dict) -> dict:
    """C11: one run of a case; the canonical (UUID-free) final state, with
    block boundaries, edges, temp-label names and aux contents."""
    from .project import canonical
    tr = run_case(case)
    final = canonical(tr["post"])
    final["aux"] = tr["whole"]["aux"]
    return {"id": case["id"], "base": case.get("base", case["id"]),
            "variant": case.get("variant", ""),
            "hashseed": os.environ.get("PYTHONHASHSEED", ""),
            "final": final, "exc": tr["exc"], "stage": tr["stage"]}


def run_levelb(case: dict) -> list:
    """Level-B binding: run the case with the primitive observer installed and
    return one record per split/join/remove execution."""
    from gtirb_rewriting import _verif
    from .levelb import PrimitiveObserver
    shape = case["shape"]
    isa = shape.get("isa", "x64")
    set_isa(isa)
    r = render(shape)
    proj = Projector(r.module)
    proj.project()
    obs = PrimitiveObserver(proj, r.module)
    try:
        ctx = RewritingContext(r.module, r.functions)
        order = case.get("order") or list(range(len(case["reqs"])))
        for ri in order:
            rq = case["reqs"][ri]
            if rq["op"] == "insall":
                continue
            b = r.blocks[rq["sec"]][rq["blk"]]
            if rq["op"] in ("ins", "rep"):
                ps = rq["patch"]
                pobj = bytes(ps["bytes"]) if "bytes" in ps else make_patch(ps, isa)
                if rq["op"] == "ins":
                    ctx.insert_at(b, rq["off"], pobj)
                else:
                    ctx.replace_at(b, rq["off"], rq["len"], pobj)
            else:
                ctx.delete_at(b, rq["off"], rq["len"], retarget_to_proxy=bool(rq.get("proxy")))
        _verif.install(obs)
        try:
            ctx.apply()
        finally:
            _verif.install(None)
    except BaseException:
        pass
    out = []
    for k, ev in enumerate(obs.events):
        ev["id"] = f"{case['id']}#{k}"
        out.append(ev)
    return out


def main(argv):
    """runner.py CASES.ndjson TRACES.ndjson"""
    if os.environ.get("VERIF_G1_MODE") == "levelb":
        src, dst = argv[1], argv[2]
        with open(src) as f, open(dst, "w") as out:
            for line in f:
                if line.strip():
                    for ev in run_levelb(json.loads(line)):
                        out.write(json.dumps(ev, separators=(",", ":")) + "\n")
        return
    if os.environ.get("VERIF_G1_MODE") == "det":
        src, dst = argv[1], argv[2]
        with open(src) as f, open(dst, "w") as out:
            for line in f:
                if line.strip():
                    out.write(json.dumps(run_det(json.loads(line)), separators=(",", ":")) + "\n")
        return
    src, dst = argv[1], argv[2]
    n = 0
    with open(src) as f, open(dst, "w") as out:
        for line in f:
            line = line.strip()
            if not line:
                continue
            case = json.loads(line)
            tr = run_case(case)
            out.write(json.dumps(tr, separators=(",", ":")) + "\n")
            n += 1
    print(f"ran {n} cases")


if __name__ == "__main__":
    main(sys.argv)
