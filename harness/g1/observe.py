"""Hook sink for C09: at every linearization point of a rewrite (after each
insert/delete, before each patch is assembled) record what the rewrite caches
answer next to what the IR itself says.  The sink only READS (private fields of
the caches included); it never calls get_referent/get_references, which would
perturb the cache under observation."""
from typing import Dict, List

import gtirb

from gtirb_rewriting._modify.cache import RefNode


class CacheObserver:
    def __init__(self, projector, module: gtirb.Module, patch_syms):
        self.p = projector
        self.m = module
        self.steps: List[dict] = []
        self.rank: Dict[object, int] = {}
        self.patch_syms = patch_syms  # callable: (orig block uid, offset) -> names

    def _rank(self, bi) -> int:
        if bi.uuid not in self.rank:
            self.rank[bi.uuid] = 10_000 + len(self.rank)
        return self.rank[bi.uuid]

    def begin(self):
        bis = sorted(self.m.byte_intervals,
                     key=lambda b: (b.address if b.address is not None else 1 << 62))
        for i, bi in enumerate(bis):
            self.rank[bi.uuid] = i

    def __call__(self, event: str, f: dict) -> None:
        if event == "apply_begin":
            self.begin()
        if event not in ("apply_begin", "before_patch", "after_insert", "after_delete", "apply_end"):
            return
        cache = f["cache"]
        m = self.m
        uid = self.p.uid
        step = {"ev": event}
        # block ordering: cache adjacency vs order derived from the IR
        ordc, ordt = [], []
        for sec in sorted(m.sections, key=lambda s: s.name):
            blocks = list(sec.byte_blocks)
            truth = sorted(blocks, key=lambda b: (self._rank(b.byte_interval), b.offset, b.size != 0, uid(b)))
            for i, b in enumerate(truth):
                ordt.append([uid(b), uid(truth[i - 1]) if i > 0 else 0,
                             uid(truth[i + 1]) if i + 1 < len(truth) else 0])
            for b in blocks:
                try:
                    pv, nx = cache.block_ordering[sec].adjacent_blocks(b)
                    ordc.append([uid(b), uid(pv) if pv is not None else 0,
                                 uid(nx) if nx is not None else 0])
                except KeyError:
                    ordc.append([uid(b), -1, -1])
        step["ordc"] = sorted(ordc)
        step["ordt"] = sorted(ordt)
        # functions: cache map vs functionBlocks table
        names = m.aux_data.get("functionNames")
        fb = m.aux_data.get("functionBlocks")

        def fname(u):
            if names is not None and u in names.data:
                return names.data[u].name
            return "?" + str(u)[:8]

        step["fnc"] = sorted([uid(b), fname(u)] for b, u in cache.functions_by_block.items()
                             if b.byte_interval is not None)
        fnt = []
        if fb is not None:
            for u, bs in fb.data.items():
                for b in bs:
                    fnt.append([uid(b), fname(u)])
        step["fnt"] = sorted(fnt)
        # return edges: cache indexes vs scan of the CFG
        rc = cache.return_cache
        # any_return_edges() answers by key membership, so empty entries count
        rcc = sorted([uid(src), len(es), len(rc._proxy_return_edges.get(src, ()))]
                     for src, es in rc._return_edges.items())
        rcc += sorted([uid(src), -1, len(es)] for src, es in rc._proxy_return_edges.items()
                      if src not in rc._return_edges)
        scan: Dict[object, list] = {}
        for e in m.ir.cfg:
            if e.label is not None and e.label.type == gtirb.Edge.Type.Return:
                d = scan.setdefault(e.source.uuid, [e.source, 0, 0])
                d[1] += 1
                if isinstance(e.target, gtirb.ProxyBlock):
                    d[2] += 1
        step["retc"] = rcc
        step["rett"] = sorted([uid(v[0]), v[1], v[2]] for v in scan.values())
        step["cfg_is_cache"] = m.ir.cfg is rc
        # referents: cache view (walk the forest) vs direct view (Symbol.referent)
        refc = cache.reference_cache
        end_nodes = {id(pair[1]) for pair in refc._references.values()}
        rc_view, rd_view = [], []
        for s in m.symbols:
            direct = s._payload if isinstance(s._payload, gtirb.Block) else None
            rd_view.append([s.name, self._desc(direct), bool(s.at_end) if direct is not None else False])
            node = refc._referents.get(s)
            if node is None:
                rc_view.append([s.name, self._desc(direct), bool(s.at_end) if direct is not None else False])
            else:
                root = node
                hops = 0
                while isinstance(root.parent, RefNode) and hops < 10000:
                    root = root.parent
                    hops += 1
                blk = root.parent
                rc_view.append([s.name, self._desc(blk), id(root) in end_nodes])
        step["refc"] = sorted(rc_view)
        step["refd"] = sorted(rd_view)
        step["psyms"] = []
        if event == "before_patch":
            step["psyms"] = sorted(self.patch_syms(uid(f["block"]), f["offset"]))
        self.steps.append(step)

    def _desc(self, blk) -> int:
        """block uid; 0 = none; -1 = a block that is not in the module; proxies negative ids"""
        if blk is None:
            return 0
        if isinstance(blk, gtirb.ProxyBlock):
            return 100000 + self.p.uid(blk) if blk in self.m.proxies else -1
        if blk.byte_interval is None or blk.module is not self.m:
            return -1
        return self.p.uid(blk)
