"""Render an abstract *shape* (the case format shared by TLC, hypothesis and
replay files) into a real gtirb module.

A shape describes a module as a listing: sections -> blocks -> units.  The
renderer makes no judgement; it only builds the IR the shape describes, with
the CFG the shape lists (``edges``) or, when the shape has none, the CFG
derived by ``derive_edges`` (whose result is re-checked in TLA+ by the domain
predicate of the CFG clauses, so a bug here can only make cases out of domain).
"""
import uuid
from typing import Dict, List, Optional, Tuple

import gtirb
import gtirb_functions

import gtirb_rewriting._auxdata as _auxdata

NULL_UUID = _auxdata.NULL_UUID

ISAS = {
    "x64": gtirb.Module.ISA.X64,
    "ia32": gtirb.Module.ISA.IA32,
    "arm64": gtirb.Module.ISA.ARM64,
    "mips32": gtirb.Module.ISA.MIPS32,
}
FORMATS = {"elf": gtirb.Module.FileFormat.ELF, "pe": gtirb.Module.FileFormat.PE}

_ONE_BYTE = [0x90, 0x98, 0x99, 0xF8, 0xF9, 0xFC, 0xF5, 0x9E, 0x9F] + list(
    range(0x50, 0x60)
)


def encode_unit_x86(unit, isa="x64") -> Tuple[bytes, Dict[int, Tuple[str, int]]]:
    """Returns (bytes, {rel offset: (symbol name, addend)})."""
    k = unit[0]
    if k == "op":
        n, imm = unit[1], unit[2] & 0xFF
        if n == 1:
            ob = _ONE_BYTE[imm % len(_ONE_BYTE)]
            if isa == "ia32" or ob < 0x50 or ob >= 0x60:
                return bytes([ob]), {}
            return bytes([ob]), {}
        if n == 2:
            return bytes([0xB0, imm]), {}
        if n == 3:
            return bytes([0x83, 0xC0, imm & 0x7F]), {}
        if n == 5:
            return bytes([0xB8, imm, 0, 0, 0]), {}
        raise ValueError(f"op size {n}")
    if k == "jmp":
        return b"\xe9\0\0\0\0", {1: (unit[1], 0)}
    if k == "jcc":
        return b"\x0f\x84\0\0\0\0", {2: (unit[1], 0)}
    if k == "call":
        return b"\xe8\0\0\0\0", {1: (unit[1], 0)}
    if k == "ret":
        return b"\xc3", {}
    if k == "ijmp":
        return b"\xff\xe0", {}
    if k == "icall":
        return b"\xff\xd0", {}
    if k == "sysc":  # system call: control comes back behind it (Syscall + Fallthrough edges)
        return (b"\x0f\x05" if isa == "x64" else b"\xcd\x80"), {}
    if k == "ref":  # lea L+addend(%rip), %rax : ordinary insn with operand
        if isa == "x64":
            return b"\x48\x8d\x05\0\0\0\0", {3: (unit[1], unit[2])}
        return b"\x8d\x05\0\0\0\0", {2: (unit[1], unit[2])}
    if k == "d":
        n, v = unit[1], unit[2]
        return bytes(((v + i) & 0xFF) for i in range(n)), {}
    if k == "dq":
        return b"\0" * 8, {0: (unit[1], unit[2])}
    raise ValueError(f"unknown unit {unit!r}")


def encode_unit_fixed4(unit, isa) -> Tuple[bytes, Dict[int, Tuple[str, int]]]:
    """ARM64 (little endian) and MIPS32 (big endian) fixed-width units."""
    k = unit[0]
    if isa == "arm64":
        def w(x):
            return x.to_bytes(4, "little")

        if k == "op":
            imm = unit[2] & 0xFFF
            return w(0xD2800000 | (imm << 5) | (unit[2] % 8)), {}  # movz xN,#imm
        if k == "jmp":
            return w(0x14000000), {0: (unit[1], 0)}
        if k == "jcc":
            return w(0x54000000), {0: (unit[1], 0)}  # b.eq
        if k == "call":
            return w(0x94000000), {0: (unit[1], 0)}
        if k == "ret":
            return w(0xD65F03C0), {}
        if k == "ijmp":
            return w(0xD61F0000), {}  # br x0
        if k == "icall":
            return w(0xD63F0000), {}  # blr x0
        if k == "sysc":
            return w(0xD4000001), {}  # svc #0
        if k == "ref":
            return w(0x10000000), {0: (unit[1], unit[2])}  # adr x0, L
    if k == "d":
        n, v = unit[1], unit[2]
        return bytes(((v + i) & 0xFF) for i in range(n)), {}
    if k == "dq":
        return b"\0" * 8, {0: (unit[1], unit[2])}
    raise ValueError(f"unknown unit {unit!r} for {isa}")


def encode_unit(unit, isa="x64"):
    if isa in ("x64", "ia32"):
        return encode_unit_x86(unit, isa)
    return encode_unit_fixed4(unit, isa)


class Rendered:
    """Handles to the real objects a shape was rendered to."""

    def __init__(self):
        self.ir: gtirb.IR = None  # type: ignore
        self.module: gtirb.Module = None  # type: ignore
        self.sections: List[gtirb.Section] = []
        self.intervals: List[List[gtirb.ByteInterval]] = []
        self.blocks: List[List[gtirb.ByteBlock]] = []
        self.unit_offsets: List[List[List[int]]] = []  # sec, blk -> offsets
        self.symbols: Dict[str, gtirb.Symbol] = {}
        self.functions: List[gtirb_functions.Function] = []
        self.func_uuid: Dict[str, uuid.UUID] = {}


def unit_kind(unit) -> str:
    return unit[0]


def can_fallthrough(kind: str) -> bool:
    return kind in ("op", "ref", "jcc", "call", "icall")


def derive_edges(shape) -> List[list]:
    """Block-level CFG of the listing (helper; re-checked in TLA+).

    Edge: [src_sec, src_blk, dst, type, cond, direct] with dst either
    [sec, blk] or ["proxy", name-or-index].
    """
    edges = []
    symloc = {}
    proxsyms = set(shape.get("proxy_syms", []))
    for si, sec in enumerate(shape["sections"]):
        for bi, blk in enumerate(sec["blocks"]):
            for s in blk.get("syms", []):
                symloc[s] = (si, bi)
    fn_of = {}
    for si, sec in enumerate(shape["sections"]):
        for bi, blk in enumerate(sec["blocks"]):
            if blk["kind"] == "code" and blk.get("fn"):
                fn_of[(si, bi)] = blk["fn"]
    pid = 0
    call_sites = {}  # fn -> list of return-site blocks
    for si, sec in enumerate(shape["sections"]):
        blocks = sec["blocks"]
        for bi, blk in enumerate(blocks):
            if blk["kind"] != "code" or not blk["units"]:
                continue
            last = blk["units"][-1]
            k = last[0]
            nxt = None
            if bi + 1 < len(blocks) and blocks[bi + 1]["kind"] == "code":
                nxt = [si, bi + 1]
            if can_fallthrough(k) and nxt:
                edges.append([si, bi, nxt, "Fallthrough", False, True])
            if k in ("jmp", "jcc", "call"):
                tgt = last[1]
                ty = "Call" if k == "call" else "Branch"
                if tgt in symloc:
                    dst = list(symloc[tgt])
                else:
                    dst = ["proxy", tgt]
                edges.append([si, bi, dst, ty, k == "jcc", True])
                if k == "call" and tgt in symloc and nxt:
                    f = fn_of.get(symloc[tgt])
                    if f:
                        call_sites.setdefault(f, []).append(nxt)
            if k == "ijmp":
                edges.append([si, bi, ["proxy", f"#{pid}"], "Branch", False, False])
                pid += 1
            if k == "icall":
                edges.append([si, bi, ["proxy", f"#{pid}"], "Call", False, False])
                pid += 1
    for si, sec in enumerate(shape["sections"]):
        for bi, blk in enumerate(sec["blocks"]):
            if blk["kind"] != "code" or not blk["units"]:
                continue
            if blk["units"][-1][0] == "ret":
                f = fn_of.get((si, bi))
                sites = call_sites.get(f, []) if f else []
                if sites:
                    seen = []
                    for s in sites:
                        if s not in seen:
                            seen.append(s)
                            edges.append([si, bi, s, "Return", False, True])
                elif shape.get("shared_ret"):
                    # one "unknown caller" proxy shared by every return without a known site
                    edges.append([si, bi, ["proxy", "#ret"], "Return", False, True])
                else:
                    edges.append([si, bi, ["proxy", f"#{pid}"], "Return", False, True])
                    pid += 1
    return edges


_SECTION_FLAGS = {
    "text": {
        gtirb.Section.Flag.Readable,
        gtirb.Section.Flag.Executable,
        gtirb.Section.Flag.Loaded,
        gtirb.Section.Flag.Initialized,
    },
    "data": {
        gtirb.Section.Flag.Readable,
        gtirb.Section.Flag.Writable,
        gtirb.Section.Flag.Loaded,
        gtirb.Section.Flag.Initialized,
    },
}


def cfi_directive(d, symbols):
    """Shape directive -> aux data triple.  d = [name, operands..., {sym}]"""
    name = d[0]
    ops = [x for x in d[1:] if isinstance(x, int)]
    syms = [x for x in d[1:] if isinstance(x, str)]
    u = symbols[syms[0]].uuid if syms else NULL_UUID
    return ("." + name if not name.startswith(".") else name, ops, u)


def render(shape) -> Rendered:
    import gtirb_test_helpers as gth

    r = Rendered()
    isa = shape.get("isa", "x64")
    fmt = shape.get("fmt", "elf")
    binary_type = shape.get("binary_type")
    r.ir, m = gth.create_test_module(FORMATS[fmt], ISAS[isa], binary_type)
    r.module = m
    pending_sx = []  # (interval, offset, symname, addend)
    address = shape.get("base", 0x1000)
    for si, sec in enumerate(shape["sections"]):
        kind = sec.get("flags", "text" if sec["name"] == ".text" else "data")
        s = gtirb.Section(name=sec["name"], flags=set(_SECTION_FLAGS[kind]))
        s.module = m
        r.sections.append(s)
        r.intervals.append([])
        r.blocks.append([])
        r.unit_offsets.append([])
        bi = None
        for blk in sec["blocks"]:
            if bi is None or blk.get("new_interval"):
                if bi is not None:
                    address += bi.size + blk.get("gap", 0)
                addr = address if shape.get("addresses", True) else None
                # `lead`: the interval starts with bytes that no block covers
                lead = blk.get("lead", 0)
                bi = gtirb.ByteInterval(contents=b"\xcc" * lead, address=addr)
                bi.size = lead
                bi.section = s
                r.intervals[si].append(bi)
            data = b""
            offs = []
            for unit in blk["units"]:
                offs.append(len(data))
                by, sx = encode_unit(unit, isa)
                for rel, (sym, addend) in sx.items():
                    pending_sx.append((bi, bi.size + len(data) + rel, sym, addend, unit))
                data += by
            cls = gtirb.CodeBlock if blk["kind"] == "code" else gtirb.DataBlock
            b = cls(offset=bi.size, size=len(data))
            bi.contents = bi.contents + data
            bi.size = len(bi.contents)
            bi.blocks.add(b)
            r.blocks[si].append(b)
            r.unit_offsets[si].append(offs)
            for name in blk.get("syms", []):
                r.symbols[name] = gtirb.Symbol(name, payload=b, module=m)
            for name in blk.get("esyms", []):
                r.symbols[name] = gtirb.Symbol(
                    name, payload=b, at_end=True, module=m
                )
        address += (bi.size if bi is not None else 0) + 0x100
        address = (address + 0xFF) & ~0xFF
    for name in shape.get("proxy_syms", []):
        p = gtirb.ProxyBlock(module=m)
        r.symbols[name] = gtirb.Symbol(name, payload=p, module=m)
    sx_sizes = None
    for bi, off, sym, addend, unit in pending_sx:
        attrs = set()
        if len(unit) > 3 and unit[0] in ("ref", "dq") and unit[3]:
            attrs = {getattr(gtirb.SymbolicExpression.Attribute, a) for a in unit[3]}
        bi.symbolic_expressions[off] = gtirb.SymAddrConst(
            addend, r.symbols[sym], attrs
        )
        if shape.get("sx_sizes"):
            if sx_sizes is None:
                sx_sizes = _auxdata.symbolic_expression_sizes.get_or_insert(m)
            sx_sizes[gtirb.Offset(bi, off)] = 8 if unit[0] == "dq" else 4

    # functions
    fns: Dict[str, dict] = {}
    for si, sec in enumerate(shape["sections"]):
        for bi_, blk in enumerate(sec["blocks"]):
            f = blk.get("fn")
            if f and blk["kind"] == "code":
                d = fns.setdefault(f, {"entries": [], "blocks": []})
                d["blocks"].append(r.blocks[si][bi_])
                if blk.get("entry"):
                    d["entries"].append(r.blocks[si][bi_])
    if shape.get("functions", True):
        for f, d in fns.items():
            entries = d["entries"] or d["blocks"][:1]
            u = uuid.uuid4()
            if f in r.symbols:
                name_sym = r.symbols[f]
            else:
                name_sym = gtirb.Symbol(f, payload=entries[0], module=m)
                r.symbols[f] = name_sym
            m.aux_data["functionNames"].data[u] = name_sym
            m.aux_data["functionEntries"].data[u] = set(entries)
            m.aux_data["functionBlocks"].data[u] = set(d["blocks"])
            r.func_uuid[f] = u
            r.functions.append(
                gtirb_functions.Function(
                    u, set(entries), set(d["blocks"]), [name_sym]
                )
            )
    # PE safe exception handlers: the listed code blocks (section 0, by index) are handlers
    if shape.get("seh"):
        hs = {r.blocks[0][i - 1] for i in shape["seh"]
              if i - 1 < len(r.blocks[0]) and isinstance(r.blocks[0][i - 1], gtirb.CodeBlock)}
        if hs:
            _auxdata.pe_safe_exception_handlers.get_or_insert(m).update(hs)
    if shape.get("drop_fn_tables") and not fns:
        # a module that carries no function aux data at all
        for name in ("functionBlocks", "functionEntries", "functionNames"):
            m.aux_data.pop(name, None)

    # annotations.  Aux data is unordered: the order in which entries are inserted
    # into the tables varies with the shape (ascending / descending), because
    # code that relies on dict insertion order being address order is wrong.
    pending_ann = []
    pending_cfi = []
    for si, sec in enumerate(shape["sections"]):
        for bi_, blk in enumerate(sec["blocks"]):
            b = r.blocks[si][bi_]
            for disp, table, keykind, value in blk.get("ann", []):
                pending_ann.append((b, disp, table, keykind, value))
            for disp, ds in blk.get("cfi") or []:
                pending_cfi.append((b, disp, ds))
            if blk.get("align"):
                _auxdata.alignment.get_or_insert(m)[b] = blk["align"]
    descending = shape.get("ann_order", "auto") == "desc" or (
        shape.get("ann_order", "auto") == "auto"
        and sum(len(s["blocks"]) + sum(len(b["units"]) for b in s["blocks"]) for s in shape["sections"]) % 2 == 1
    )
    if descending:
        pending_ann.reverse()
        pending_cfi.reverse()
    if pending_cfi:
        tab = _auxdata.cfi_directives.get_or_insert(m)
        for b, disp, ds in pending_cfi:
            tab[gtirb.Offset(b, disp)] = [cfi_directive(d, r.symbols) for d in ds]
    for b, disp, table, keykind, value in pending_ann:
        tab = getattr(_auxdata, table).get_or_insert(m)
        if keykind == "blk":
            tab[gtirb.Offset(b, disp)] = value
        else:
            tab[gtirb.Offset(b.byte_interval, b.offset + disp)] = value
    if descending and sx_sizes is not None:
        # re-insert the expression sizes in descending order as well
        items = list(sx_sizes.items())
        for k, _ in items:
            del sx_sizes[k]
        for k, v in reversed(items):
            sx_sizes[k] = v
    # CFG
    edges = shape.get("edges")
    if edges is None:
        edges = derive_edges(shape)
    proxies: Dict[str, gtirb.ProxyBlock] = {}
    for ssec, sblk, dst, ty, cond, direct in edges:
        src = r.blocks[ssec][sblk]
        if dst[0] == "proxy":
            name = dst[1]
            if name in r.symbols and isinstance(
                r.symbols[name].referent, gtirb.ProxyBlock
            ):
                tgt = r.symbols[name].referent
            else:
                tgt = proxies.get(name)
                if tgt is None:
                    tgt = proxies[name] = gtirb.ProxyBlock(module=m)
        else:
            tgt = r.blocks[dst[0]][dst[1]]
        r.ir.cfg.add(
            gtirb.Edge(
                src,
                tgt,
                gtirb.Edge.Label(
                    getattr(gtirb.Edge.Type, ty), conditional=cond, direct=direct
                ),
            )
        )
    if shape.get("entry_point") is not None:
        es, eb = shape["entry_point"]
        m.entry_point = r.blocks[es][eb]
    return r
